// C16: decoders reject malformed input with an error instead of crashing.
// Fault enumeration (engine E5): every truncation point, every single-byte
// corruption over a byte alphabet, every numeric-token replacement over a
// boundary-value alphabet and every 4-byte-window overwrite of every file of a
// small corpus is fed to every decoder entry point. Oracles: no panic, no
// zero-progress read loop, no hang, allocation proportional to the input.
// Cases run in worker processes; a worker that dies (fatal runtime error, out
// of memory) names the killing case through its state file.
package main

import (
	"bytes"
	"encoding/binary"
	"encoding/hex"
	"encoding/json"
	"fmt"
	"io"
	"os"
	"os/exec"
	"path/filepath"
	"regexp"
	"runtime"
	"runtime/debug"
	"strconv"
	"strings"
	"sync"
	"time"

	"github.com/unixpickle/model3d/fileformats"
	"github.com/unixpickle/model3d/model2d"
	"github.com/unixpickle/model3d/model3d"

	"verif/lib/ev"
)

type corpusFile struct {
	Name   string
	Format string // stl | off | ply | csv
	Binary bool
	Data   []byte
}

func plyGeneric(format fileformats.PLYFormat, zeroCount bool, intLen bool) []byte {
	if intLen {
		return plyGenericLen(format, zeroCount, fileformats.PLYPropertyTypeInt)
	}
	return plyGenericLen(format, zeroCount, fileformats.PLYPropertyTypeUchar)
}

// plyGenericLen: the generic file with a list whose length field has the given (possibly signed, possibly narrow)
// type - every signed width has its own negative-length path in the decoder.
func plyGenericLen(format fileformats.PLYFormat, zeroCount bool, lenType fileformats.PLYPropertyType) []byte {
	intLen := lenType == fileformats.PLYPropertyTypeInt
	h := &fileformats.PLYHeader{Format: format, Elements: []*fileformats.PLYElement{
		{Name: "thing", Count: 2, Properties: []*fileformats.PLYProperty{
			{Name: "a", ElemType: fileformats.PLYPropertyTypeShort},
			{Name: "l", LenType: lenType, ElemType: fileformats.PLYPropertyTypeFloat},
			{Name: "d", ElemType: fileformats.PLYPropertyTypeDouble},
		}},
	}}
	if zeroCount {
		h.Elements = append([]*fileformats.PLYElement{{Name: "empty", Count: 0, Properties: []*fileformats.PLYProperty{{Name: "q", ElemType: fileformats.PLYPropertyTypeInt}}}}, h.Elements...)
	}
	h.Elements = append(h.Elements, &fileformats.PLYElement{Name: "tail", Count: 1, Properties: []*fileformats.PLYProperty{{Name: "u", ElemType: fileformats.PLYPropertyTypeUint}}})
	var buf bytes.Buffer
	w, err := fileformats.NewPLYWriter(&buf, h)
	if err != nil {
		// the corpus is written with the library's own writer for convenience; the property is about the decoders,
		// so a writer that refuses is no reason to stop: the bytes written so far are as good an input as any
		fmt.Fprintf(os.Stderr, "note: corpus writer: %v\n", err)
		return buf.Bytes()
	}
	mkLen := func(n int) fileformats.PLYValue {
		switch lenType {
		case fileformats.PLYPropertyTypeChar:
			return fileformats.PLYValueInt8{Value: int8(n)}
		case fileformats.PLYPropertyTypeShort:
			return fileformats.PLYValueInt16{Value: int16(n)}
		case fileformats.PLYPropertyTypeUshort:
			return fileformats.PLYValueUint16{Value: uint16(n)}
		case fileformats.PLYPropertyTypeUint:
			return fileformats.PLYValueUint32{Value: uint32(n)}
		}
		if intLen {
			return fileformats.PLYValueInt32{Value: int32(n)}
		}
		return fileformats.PLYValueUint8{Value: uint8(n)}
	}
	rows := [][]fileformats.PLYValue{
		{fileformats.PLYValueInt16{Value: -3}, fileformats.PLYValueList{Length: mkLen(2), Values: []fileformats.PLYValue{fileformats.PLYValueFloat32{Value: 1.5}, fileformats.PLYValueFloat32{Value: -2}}}, fileformats.PLYValueFloat64{Value: 0.25}},
		{fileformats.PLYValueInt16{Value: 7}, fileformats.PLYValueList{Length: mkLen(0), Values: nil}, fileformats.PLYValueFloat64{Value: 1e10}},
		{fileformats.PLYValueUint32{Value: 9}},
	}
	for _, row := range rows {
		if err := w.Write(row); err != nil {
			fmt.Fprintf(os.Stderr, "note: corpus writer: %v\n", err)
			break
		}
	}
	return buf.Bytes()
}

func plyColorBinary(format fileformats.PLYFormat) []byte {
	h := &fileformats.PLYHeader{Format: format, Elements: []*fileformats.PLYElement{fileformats.NewPLYElementColoredVertex(3), fileformats.NewPLYElementFace(1)}}
	var buf bytes.Buffer
	w, _ := fileformats.NewPLYWriter(&buf, h)
	for i := 0; i < 3; i++ {
		w.Write([]fileformats.PLYValue{fileformats.PLYValueFloat32{Value: float32(i)}, fileformats.PLYValueFloat32{Value: float32(i * i)}, fileformats.PLYValueFloat32{Value: 0.5},
			fileformats.PLYValueUint8{Value: 1}, fileformats.PLYValueUint8{Value: 2}, fileformats.PLYValueUint8{Value: uint8(3 + i)}})
	}
	w.Write([]fileformats.PLYValue{fileformats.PLYValueList{Length: fileformats.PLYValueUint8{Value: 3}, Values: []fileformats.PLYValue{fileformats.PLYValueInt32{Value: 0}, fileformats.PLYValueInt32{Value: 1}, fileformats.PLYValueInt32{Value: 2}}}})
	return buf.Bytes()
}

func corpus() []corpusFile {
	t1 := &model3d.Triangle{model3d.XYZ(0, 0, 0), model3d.XYZ(1, 0, 0), model3d.XYZ(0, 1, 0.5)}
	t2 := &model3d.Triangle{model3d.XYZ(1, 0, 0), model3d.XYZ(1, 1, 0), model3d.XYZ(0, 1, 0.5)}
	stl0 := model3d.EncodeSTL(nil)
	stl1 := model3d.EncodeSTL([]*model3d.Triangle{t1})
	stl2 := model3d.EncodeSTL([]*model3d.Triangle{t1, t2})
	stlSolid := append([]byte{}, stl1...)
	copy(stlSolid, "solid binary-file-whose-header-starts-with-solid")
	ascii := "solid test\nfacet normal 0 0 1\n outer loop\n  vertex 0 0 0\n  vertex 1 0 0\n  vertex 0 1 0.5\n endloop\nendfacet\nfacet normal 0 0 1\n outer loop\n  vertex 1 0 0\n  vertex 1 1 0\n  vertex 0 1 5e-1\n endloop\nendfacet\nendsolid test"
	off := "OFF\n5 2 0\n0 0 0\n1 0 0\n1 1 0\n0 1 0\n0.5 0.5 1\n3 0 1 4\n4 0 3 2 1\n"
	off2 := "OFF 4 1 0\n0 0 0\n2 0 0\n2 2 0\n0 2 0\n4 0 1 2 3\n"
	plyASCII := model3d.EncodePLY([]*model3d.Triangle{t1, t2}, func(c model3d.Coord3D) [3]uint8 { return [3]uint8{uint8(c.X * 200), 7, 255} })
	csv := model2d.EncodeCSV(model2d.NewMeshSegments([]*model2d.Segment{{model2d.XY(0, 0), model2d.XY(1, 0.5)}, {model2d.XY(1, 0.5), model2d.XY(-2.5, 1e-3)}}))
	return []corpusFile{
		{"stl-binary-0", "stl", true, stl0},
		{"stl-binary-1", "stl", true, stl1},
		{"stl-binary-2", "stl", true, stl2},
		{"stl-binary-solid-header", "stl", true, stlSolid},
		{"stl-ascii", "stl", false, []byte(ascii)},
		{"stl-ascii-newline", "stl", false, []byte(ascii + "\n")},
		{"off", "off", false, []byte(off)},
		{"off-inline-counts", "off", false, []byte(off2)},
		{"ply-ascii-color", "ply", false, plyASCII},
		{"ply-le-color", "ply", true, plyColorBinary(fileformats.PLYFormatBinaryLittle)},
		{"ply-be-color", "ply", true, plyColorBinary(fileformats.PLYFormatBinaryBig)},
		{"ply-ascii-generic", "ply", false, plyGeneric(fileformats.PLYFormatASCII, true, false)},
		{"ply-le-generic", "ply", true, plyGeneric(fileformats.PLYFormatBinaryLittle, true, false)},
		{"ply-be-generic-intlen", "ply", true, plyGeneric(fileformats.PLYFormatBinaryBig, false, true)},
		{"ply-ascii-generic-shortlen", "ply", false, plyGenericLen(fileformats.PLYFormatASCII, false, fileformats.PLYPropertyTypeShort)},
		{"ply-le-generic-shortlen", "ply", true, plyGenericLen(fileformats.PLYFormatBinaryLittle, false, fileformats.PLYPropertyTypeShort)},
		{"ply-be-generic-charlen", "ply", true, plyGenericLen(fileformats.PLYFormatBinaryBig, false, fileformats.PLYPropertyTypeChar)},
		{"ply-ascii-generic-charlen", "ply", false, plyGenericLen(fileformats.PLYFormatASCII, false, fileformats.PLYPropertyTypeChar)},
		{"ply-le-generic-uintlen", "ply", true, plyGenericLen(fileformats.PLYFormatBinaryLittle, false, fileformats.PLYPropertyTypeUint)},
		{"ply-ascii-generic-ushortlen", "ply", false, plyGenericLen(fileformats.PLYFormatASCII, false, fileformats.PLYPropertyTypeUshort)},
		// an element that declares no properties: its rows occupy no bytes, so its count is all that bounds the work
		{"ply-ascii-propertyless-element", "ply", false, []byte("ply\nformat ascii 1.0\nelement marker 1\nelement vertex 3\nproperty float x\nproperty float y\nproperty float z\nelement face 1\nproperty list uchar int vertex_index\nend_header\n\n0 0 0\n1 0 0\n0 1 0.5\n3 0 1 2\n")},
		{"ply-le-propertyless-element", "ply", true, append([]byte("ply\nformat binary_little_endian 1.0\nelement marker 2\nelement tail 1\nproperty uchar u\nend_header\n"), 7)},
		{"ply-be-propertyless-last-element", "ply", true, append([]byte("ply\nformat binary_big_endian 1.0\nelement head 1\nproperty uchar u\nelement marker 2\nend_header\n"), 7)},
		{"ply-le-propertyless-only-element", "ply", true, []byte("ply\nformat binary_little_endian 1.0\nelement marker 3\nend_header\n")},
		{"csv", "csv", false, csv},
		// a valid coloured PLY with one more element whose properties reuse the names x and red with other types
		{"ply-ascii-extra-element", "ply", false, []byte(plyExtra)},
	}
}

const plyExtra = "ply\nformat ascii 1.0\nelement vertex 3\nproperty float x\nproperty float y\nproperty float z\nproperty uchar red\nproperty uchar green\nproperty uchar blue\n" +
	"element edge 1\nproperty int vertex1\nproperty double x\nproperty short red\nelement face 1\nproperty list uchar int vertex_index\nend_header\n" +
	"0 0 0 1 2 3\n1 0 0 1 2 4\n0 1 0.5 1 2 5\n0 0.25 7\n3 0 1 2\n"

var byteAlphabet = []byte{0x00, 0xFF, 0x80, '-', '9', ' ', '\n', 'e', '.'}
var tokenAlphabet = []string{"-1", "0", "1", "2", "255", "256", "2147483647", "2147483648", "4294967295", "9223372036854775807", "1e999", "nan", "", "x", "-0", "1000000"}
var windowAlphabet = func() [][4]byte {
	out := [][4]byte{{0, 0, 0, 0}, {0xFF, 0xFF, 0xFF, 0xFF}, {0x7F, 0xFF, 0xFF, 0xFF}, {0x80, 0, 0, 0}, {0xFF, 0xFF, 0xFF, 0x7F}, {0, 0, 0, 0x80}, {0, 0, 1, 0}, {0, 1, 0, 0}}
	// counts that wrap a 32-bit size computation: the smallest n with n*m >= 2^32 for the record sizes m a decoder
	// may multiply with (element sizes 2..16, a vertex of three float32, the 50-byte STL record), so that n*m mod
	// 2^32 is tiny and looks consistent with a small file; in both byte orders
	for _, m := range []uint64{2, 4, 8, 12, 16, 50} {
		n := uint32((uint64(1)<<32)/m + 1)
		out = append(out, [4]byte{byte(n), byte(n >> 8), byte(n >> 16), byte(n >> 24)}, [4]byte{byte(n >> 24), byte(n >> 16), byte(n >> 8), byte(n)})
	}
	return out
}()

// wordAlphabet: every keyword of the three text formats and all 16 PLY type
// names - a header word corrupted into another *valid* word of the format.
var wordAlphabet = []string{"char", "uchar", "short", "ushort", "int", "uint", "float", "double", "int8", "uint8", "int16", "uint16", "int32", "uint32", "float32", "float64",
	"list", "property", "element", "vertex", "face", "vertex_index", "vertex_indices", "x", "red", "end_header", "comment", "ascii", "binary_little_endian", "binary_big_endian", "format", "ply",
	"OFF", "solid", "endsolid", "facet", "outer", "loop", "endloop", "endfacet", "normal",
	// names a format extension might introduce (a decoder that learns a new type name must learn it everywhere)
	"int64", "uint64", "long", "ulong", "half", "float16"}
var wordRe = regexp.MustCompile(`[A-Za-z_][A-Za-z_0-9]*`)

var tokenRe = regexp.MustCompile(`[0-9+\-.eE]*[0-9][0-9+\-.eE]*`)

type caseDesc struct {
	File string `json:"file"`
	Kind string `json:"mutation"`
	Pos  int    `json:"pos"`
	Alt  int    `json:"alt"`
	Pos2 int    `json:"pos2,omitempty"`
	Alt2 int    `json:"alt2,omitempty"`
}

// forEachCase enumerates all cases in a fixed order; build is called lazily.
func forEachCase(files []corpusFile, thorough bool, f func(idx int, c caseDesc, file *corpusFile, build func() []byte) bool) {
	idx := 0
	for fi := range files {
		cf := &files[fi]
		d := cf.Data
		emit := func(c caseDesc, build func() []byte) bool {
			ok := f(idx, c, cf, build)
			idx++
			return ok
		}
		for n := 0; n <= len(d); n++ {
			n := n
			if !emit(caseDesc{File: cf.Name, Kind: "truncate", Pos: n}, func() []byte { return append([]byte{}, d[:n]...) }) {
				return
			}
		}
		for p := 0; p < len(d); p++ {
			for a := 0; a <= len(byteAlphabet); a++ {
				p, a := p, a
				if !emit(caseDesc{File: cf.Name, Kind: "byte", Pos: p, Alt: a}, func() []byte {
					b := append([]byte{}, d...)
					if a == len(byteAlphabet) {
						b[p] ^= 1
					} else {
						b[p] = byteAlphabet[a]
					}
					return b
				}) {
					return
				}
			}
		}
		var toks [][]int
		if !cf.Binary {
			toks = tokenRe.FindAllIndex(d, -1)
		} else if i := bytes.Index(d, []byte("end_header\n")); i > 0 {
			toks = tokenRe.FindAllIndex(d[:i], -1) // header tokens of binary PLY
		}
		repl := func(b []byte, t []int, s string) []byte {
			return append(append(append([]byte{}, b[:t[0]]...), s...), b[t[1]:]...)
		}
		for ti, t := range toks {
			for a := range tokenAlphabet {
				t, a := t, a
				if !emit(caseDesc{File: cf.Name, Kind: "token", Pos: ti, Alt: a}, func() []byte { return repl(d, t, tokenAlphabet[a]) }) {
					return
				}
			}
		}
		// every line deleted / duplicated (text files; header lines of binary PLY)
		limit := len(d)
		if cf.Binary {
			limit = 0
			if i := bytes.Index(d, []byte("end_header\n")); i > 0 {
				limit = i + len("end_header\n")
			}
		}
		var lines [][2]int
		for st := 0; st < limit; {
			e := bytes.IndexByte(d[st:limit], '\n')
			if e < 0 {
				lines = append(lines, [2]int{st, limit})
				break
			}
			lines = append(lines, [2]int{st, st + e + 1})
			st += e + 1
		}
		for li, ln := range lines {
			ln := ln
			if !emit(caseDesc{File: cf.Name, Kind: "line-delete", Pos: li}, func() []byte { return append(append([]byte{}, d[:ln[0]]...), d[ln[1]:]...) }) {
				return
			}
			if !emit(caseDesc{File: cf.Name, Kind: "line-dup", Pos: li}, func() []byte {
				return append(append(append([]byte{}, d[:ln[1]]...), d[ln[0]:ln[1]]...), d[ln[1]:]...)
			}) {
				return
			}
		}
		if cf.Binary {
			for p := 0; p+4 <= len(d); p++ {
				for a := range windowAlphabet {
					p, a := p, a
					if !emit(caseDesc{File: cf.Name, Kind: "window4", Pos: p, Alt: a}, func() []byte {
						b := append([]byte{}, d...)
						copy(b[p:], windowAlphabet[a][:])
						return b
					}) {
						return
					}
				}
			}
		}
		// every word of the text part replaced by every keyword / type name
		var words [][]int
		if !cf.Binary {
			words = wordRe.FindAllIndex(d, -1)
		} else if limit > 0 {
			words = wordRe.FindAllIndex(d[:limit], -1)
		}
		for wi, w := range words {
			for a := range wordAlphabet {
				w, a := w, a
				if string(d[w[0]:w[1]]) == wordAlphabet[a] {
					continue
				}
				if !emit(caseDesc{File: cf.Name, Kind: "word", Pos: wi, Alt: a}, func() []byte { return repl(d, w, wordAlphabet[a]) }) {
					return
				}
			}
		}
		// words dropped: every single word, and every run of two or three adjacent words ("property list uchar int
		// vertex_index" turns into a scalar property, a count disappears, a keyword goes missing)
		for wi := range words {
			for run := 1; run <= 3 && wi+run <= len(words); run++ {
				wi, run := wi, run
				if !emit(caseDesc{File: cf.Name, Kind: "word", Pos: wi, Alt: 1000 + run}, func() []byte {
					return repl(d, []int{words[wi][0], words[wi+run-1][1]}, "")
				}) {
					return
				}
			}
		}
		if thorough {
			// two-field corruptions: every pair of tokens over a reduced alphabet
			small := []int{0, 1, 4, 6, 7, 8, 9, 12}
			for i := 0; i < len(toks); i++ {
				for j := i + 1; j < len(toks); j++ {
					for _, a := range small {
						for _, b := range small {
							i, j, a, b := i, j, a, b
							if !emit(caseDesc{File: cf.Name, Kind: "token2", Pos: i, Alt: a, Pos2: j, Alt2: b}, func() []byte {
								x := repl(d, toks[j], tokenAlphabet[b]) // later token first: offsets of the earlier one stay valid
								return repl(x, toks[i], tokenAlphabet[a])
							}) {
								return
							}
						}
					}
				}
			}
		}
	}
}

// ---- decoder entry points ----

type loopDetected struct{}

type countingReader struct {
	data  []byte
	off   int
	zeros int
	reads int
	one   bool // environment: every Read returns at most one byte (an io.Reader may legally do so)
}

func (c *countingReader) Read(p []byte) (int, error) {
	c.reads++
	if c.off >= len(c.data) {
		c.zeros++
		if c.zeros > 200 {
			panic(loopDetected{})
		}
		return 0, io.EOF
	}
	if c.one && len(p) > 1 {
		p = p[:1]
	}
	n := copy(p, c.data[c.off:])
	c.off += n
	return n, nil
}

type entry struct {
	Name    string
	Formats string
	Run     func(r io.Reader, data []byte)
}

const maxItems = 1 << 20

var entries = []entry{
	{"ReadSTL", "stl", func(r io.Reader, _ []byte) { model3d.ReadSTL(r) }},
	{"STLReader", "stl", func(r io.Reader, _ []byte) {
		sr, err := fileformats.NewSTLReader(r)
		if err != nil {
			return
		}
		for i := 0; i < maxItems; i++ {
			if _, _, err := sr.ReadTriangle(); err != nil {
				return
			}
		}
		panic(loopDetected{})
	}},
	{"ReadOFF", "off", func(r io.Reader, _ []byte) { model3d.ReadOFF(r) }},
	{"OFFReader", "off", func(r io.Reader, _ []byte) {
		or, err := fileformats.NewOFFReader(r)
		if err != nil {
			return
		}
		n := or.NumFaces()
		for i := 0; i < n && i < maxItems; i++ {
			if _, err := or.ReadFace(); err != nil {
				return
			}
		}
	}},
	{"ReadColorPLY", "ply", func(r io.Reader, _ []byte) { model3d.ReadColorPLY(r) }},
	{"PLYReader", "ply", func(r io.Reader, _ []byte) {
		pr, err := fileformats.NewPLYReader(r)
		if err != nil {
			return
		}
		for i := 0; i < maxItems; i++ {
			if _, _, err := pr.Read(); err != nil {
				return
			}
		}
		panic(loopDetected{})
	}},
	{"NewPLYHeaderDecode", "ply", func(_ io.Reader, data []byte) {
		s := string(data)
		if i := strings.Index(s, "end_header\n"); i >= 0 {
			s = s[:i+len("end_header\n")]
		}
		fileformats.NewPLYHeaderDecode(s)
	}},
	{"DecodeCSV", "csv", func(_ io.Reader, data []byte) { model2d.DecodeCSV(data) }},
}

// allocBytes is the exact cumulative allocation count: ReadMemStats stops the
// world and flushes the per-P caches (runtime/metrics lags by whole spans).
func allocBytes() uint64 {
	var ms runtime.MemStats
	runtime.ReadMemStats(&ms)
	return ms.TotalAlloc
}

const allocBase, allocPerByte = 1 << 20, 4096

type outcome struct {
	Kind string // "" | panic | loop | alloc | hang
	Msg  string
	Site string
}

var siteRe = regexp.MustCompile(`github\.com/unixpickle/model3d/[a-z0-9_]+\.(\(\*?[A-Za-z0-9_\[\].]+\)\.)?[A-Za-z0-9_]+`)
var digitsRe = regexp.MustCompile(`[0-9]+`)

// mode: 0 = plain reader (counts reads past the end), 1 = one byte per Read, 2 = the *bytes.Reader itself, i.e. a
// reader with Len/Seek/ReadAt/WriteTo/ReadByte, which decoders may detect and take shortcuts for
func runEntry(e *entry, data []byte, mode int) (o outcome) {
	done := make(chan outcome, 1)
	go func() {
		var res outcome
		before := allocBytes()
		func() {
			defer func() {
				if x := recover(); x != nil {
					if _, ok := x.(loopDetected); ok {
						res = outcome{Kind: "loop", Msg: "decoder keeps reading after end of input / never finishes"}
						return
					}
					st := string(debug.Stack())
					site := "unknown"
					// first library frame below the panic
					if i := strings.Index(st, "panic("); i >= 0 {
						st = st[i:]
					}
					if m := siteRe.FindString(st); m != "" {
						site = strings.TrimPrefix(m, "github.com/unixpickle/model3d/")
					}
					res = outcome{Kind: "panic", Msg: fmt.Sprint(x), Site: site}
				}
			}()
			if mode == 2 {
				e.Run(bytes.NewReader(data), data)
			} else {
				e.Run(&countingReader{data: data, one: mode == 1}, data)
			}
		}()
		if res.Kind == "" {
			if delta := allocBytes() - before; delta > allocBase+allocPerByte*uint64(len(data)) {
				res = outcome{Kind: "alloc", Msg: fmt.Sprintf("allocated %d bytes for %d bytes of input (bound 1 MiB + 4 KiB per input byte)", delta, len(data))}
			}
		}
		done <- res
	}()
	select {
	case o = <-done:
		return o
	case <-time.After(20 * time.Second):
		return outcome{Kind: "hang", Msg: "decoder did not return within 20 s"}
	}
}

func msgClass(kind, msg string) string {
	if kind != "panic" {
		return kind
	}
	m := digitsRe.ReplaceAllString(msg, "N")
	m = regexp.MustCompile(`[^A-Za-z]+`).ReplaceAllString(m, "-")
	if len(m) > 40 {
		m = m[:40]
	}
	return strings.Trim(m, "-")
}

type workerViol struct {
	Key   string   `json:"key"`
	What  string   `json:"what"`
	Case  caseDesc `json:"case"`
	Entry string   `json:"entry"`
	Hex   string   `json:"input_hex"`
}

type workerStats struct {
	Cases, Evals, PastHeader int64
	PerEntry                 map[string]int64
	Hung                     bool
}

func entriesFor(format string, thorough bool) []*entry {
	var out []*entry
	for i := range entries {
		if true || thorough || entries[i].Formats == format { // every entry point sees every mutated file
			out = append(out, &entries[i])
		}
	}
	return out
}

// pastHeader: did the decoder accept the header, i.e. did the fault land in a trusted field?
func pastHeader(format string, data []byte) bool {
	switch format {
	case "ply":
		_, err := fileformats.NewPLYReader(bytes.NewReader(data))
		return err == nil
	case "stl":
		_, err := fileformats.NewSTLReader(bytes.NewReader(data))
		return err == nil
	case "off":
		defer func() { recover() }()
		_, err := fileformats.NewOFFReader(bytes.NewReader(data))
		return err == nil
	}
	return true
}

func worker(shard, nshards, start int, statePath string, thorough bool) {
	debug.SetGCPercent(400)
	files := corpus()
	st := workerStats{PerEntry: map[string]int64{}}
	sf, err := os.OpenFile(statePath, os.O_CREATE|os.O_RDWR, 0o644)
	if err != nil {
		ev.Fatal("%v", err)
	}
	var buf [16]byte
	forEachCase(files, thorough, func(idx int, c caseDesc, cf *corpusFile, build func() []byte) bool {
		if idx%nshards != shard || idx < start {
			return true
		}
		data := build()
		st.Cases++
		ph := false
		func() {
			defer func() { recover() }()
			ph = pastHeader(cf.Format, data)
		}()
		if ph {
			st.PastHeader++
		}
		for ei, e := range entriesFor(cf.Format, thorough) {
			binary.LittleEndian.PutUint64(buf[:8], uint64(idx))
			binary.LittleEndian.PutUint64(buf[8:], uint64(ei))
			sf.WriteAt(buf[:], 0)
			modes := []int{0}
			if thorough || c.Kind == "truncate" || c.Kind == "token" || c.Kind == "word" {
				modes = append(modes, 1) // the same faulty file delivered one byte per Read
			}
			if thorough || c.Kind == "truncate" || c.Kind == "token" || c.Kind == "window4" {
				modes = append(modes, 2) // ... and from a capability-rich in-memory reader
			}
			for _, mode := range modes {
				oneByte := mode == 1
				o := runEntry(e, data, mode)
				st.Evals++
				st.PerEntry[e.Name]++
				if o.Kind != "" {
					key := e.Name + "/" + o.Kind
					if oneByte {
						key = e.Name + "/short-reads/" + o.Kind
					}
					if mode == 2 {
						key = e.Name + "/bytes-reader/" + o.Kind
					}
					if o.Kind == "panic" {
						key += "/" + o.Site + "/" + msgClass(o.Kind, o.Msg)
					}
					h := data
					if len(h) > 2048 {
						h = h[:2048]
					}
					b, _ := json.Marshal(workerViol{key, fmt.Sprintf("%s on %s %s@%d alt %d: %s", e.Name, c.File, c.Kind, c.Pos, c.Alt, o.Msg), c, e.Name, hex.EncodeToString(h)})
					fmt.Printf("@@V %s\n", b)
					if o.Kind == "hang" {
						st.Hung = true
						b, _ := json.Marshal(st)
						fmt.Printf("@@S %s\n", b)
						fmt.Printf("@@H %d\n", idx)
						os.Exit(3)
					}
				}
			}
		}
		return true
	})
	b, _ := json.Marshal(st)
	fmt.Printf("@@S %s\n", b)
}

func countCases(files []corpusFile, thorough bool) int {
	n := 0
	forEachCase(files, thorough, func(idx int, c caseDesc, cf *corpusFile, build func() []byte) bool { n = idx + 1; return true })
	return n
}

func caseByIndex(files []corpusFile, thorough bool, want int) (caseDesc, []byte, *corpusFile) {
	var cd caseDesc
	var data []byte
	var file *corpusFile
	forEachCase(files, thorough, func(idx int, c caseDesc, cf *corpusFile, build func() []byte) bool {
		if idx == want {
			cd, data, file = c, build(), cf
			return false
		}
		return true
	})
	return cd, data, file
}

func main() {
	if len(os.Args) > 1 && os.Args[1] == "worker" {
		shard, _ := strconv.Atoi(os.Args[2])
		n, _ := strconv.Atoi(os.Args[3])
		start, _ := strconv.Atoi(os.Args[4])
		worker(shard, n, start, os.Args[5], os.Args[6] == "thorough")
		return
	}
	r := ev.Start("C16", "fault_enumeration")
	files := corpus()
	if r.Replay != "" {
		var v struct {
			Entry string `json:"entry"`
			Hex   string `json:"input_hex"`
		}
		r.LoadReplay(&v)
		data, _ := hex.DecodeString(v.Hex)
		for i := range entries {
			if entries[i].Name == v.Entry {
				for mode := 0; mode <= 2; mode++ {
					oneByte := mode == 1
					o := runEntry(&entries[i], data, mode)
					fmt.Printf("replay %s (reader mode %d; one byte per Read: %v): %+v\n", v.Entry, mode, oneByte, o)
					if o.Kind != "" {
						r.Violation(v.Entry+"/"+o.Kind, o.Msg, nil)
					}
				}
			}
		}
		r.Eval(1)
		r.NontrivialAdd(2)
		r.Sample("replay")
		r.Finish()
	}
	r.Rule("every prefix, every byte x {00,FF,80,'-','9',' ','\\n','e','.',bit-flip}, every numeric token x 16 boundary values, every 4-byte window x 20 patterns (binary files; boundary values and counts that wrap a 32-bit size computation), every line deleted or duplicated, every header/text word x 41 keywords and type names, and in the thorough tier every pair of tokens x 8x8 values, of each of 16 minimal valid files (binary/ASCII STL, OFF, PLY ascii/little/big endian with lists and a zero-count element, segment CSV), fed to all 8 decoder entry points; truncations and token/word corruptions (thorough: every case) are delivered a second time through a reader that returns one byte per Read, and truncations, tokens and 4-byte windows (thorough: every case) a third time from a *bytes.Reader (Len/Seek/ReadAt visible to the decoder). " +
		"non-trivial = mutated files whose header the format's reader still accepts, i.e. the fault landed in a field the decoder trusts; counted once per case")
	r.Assume("allocation bound 1 MiB + 4 KiB per input byte (out of proportion = beyond any constant-factor expansion of the input); zero-progress bound 200 reads after end of input; 20 s watchdog per decoder call")
	total := countCases(files, r.Thorough())
	r.Set("cases", total)
	r.Set("corpus_files", len(files))
	nshards := 16
	work := filepath.Join(ev.Work(), "c16")
	os.MkdirAll(work, 0o755)
	var mu sync.Mutex
	agg := workerStats{PerEntry: map[string]int64{}}
	var wg sync.WaitGroup
	tier := r.Tier
	for sh := 0; sh < nshards; sh++ {
		wg.Add(1)
		go func(sh int) {
			defer wg.Done()
			start := 0
			statePath := filepath.Join(work, fmt.Sprintf("state%d", sh))
			for attempt := 0; attempt < 200; attempt++ {
				os.Remove(statePath)
				cmd := exec.Command(os.Args[0], "worker", fmt.Sprint(sh), fmt.Sprint(nshards), fmt.Sprint(start), statePath, tier)
				cmd.Env = append(os.Environ(), "GOMAXPROCS=2", "GOMEMLIMIT=3GiB")
				var so, se bytes.Buffer
				cmd.Stdout, cmd.Stderr = &so, &se
				err := cmd.Run()
				finished := false
				hungAt := -1
				for _, line := range strings.Split(so.String(), "\n") {
					switch {
					case strings.HasPrefix(line, "@@V "):
						var v workerViol
						if json.Unmarshal([]byte(line[4:]), &v) == nil {
							r.Violation(v.Key, v.What, v)
						}
					case strings.HasPrefix(line, "@@S "):
						var st workerStats
						json.Unmarshal([]byte(line[4:]), &st)
						mu.Lock()
						agg.Cases += st.Cases
						agg.Evals += st.Evals
						agg.PastHeader += st.PastHeader
						for k, v := range st.PerEntry {
							agg.PerEntry[k] += v
						}
						mu.Unlock()
						finished = !st.Hung
					case strings.HasPrefix(line, "@@H "):
						hungAt, _ = strconv.Atoi(line[4:])
					}
				}
				if finished && err == nil {
					return
				}
				if hungAt >= 0 {
					start = hungAt + 1
					continue
				}
				// the worker died: name the killing case
				sb, e2 := os.ReadFile(statePath)
				if e2 != nil || len(sb) < 16 {
					ev.Fatal("worker %d died without state: %v\n%s", sh, err, se.String())
				}
				idx := int(binary.LittleEndian.Uint64(sb[:8]))
				ei := int(binary.LittleEndian.Uint64(sb[8:]))
				cd, data, cf := caseByIndex(files, tier == "thorough", idx)
				es := entriesFor(cf.Format, tier == "thorough")
				name := "?"
				if ei < len(es) {
					name = es[ei].Name
				}
				first := strings.SplitN(strings.TrimSpace(se.String()), "\n", 2)[0]
				site := "unknown"
				if m := siteRe.FindString(se.String()); m != "" {
					site = strings.TrimPrefix(m, "github.com/unixpickle/model3d/")
				}
				h := data
				if len(h) > 2048 {
					h = h[:2048]
				}
				r.Violation(name+"/fatal/"+site, fmt.Sprintf("%s killed the process on %s %s@%d alt %d: %s", name, cd.File, cd.Kind, cd.Pos, cd.Alt, first), workerViol{"", first, cd, name, hex.EncodeToString(h)})
				// partial stats of the dead worker are lost; its remaining cases are re-run from idx+1
				start = idx + 1
			}
		}(sh)
	}
	wg.Wait()
	r.Eval(int(agg.Evals))
	r.NontrivialAdd(int(agg.PastHeader))
	r.Set("mutated_files", agg.Cases)
	r.Set("per_entry_point", agg.PerEntry)
	cd, data, _ := caseByIndex(files, r.Thorough(), total/3)
	r.Sample(map[string]interface{}{"case": cd, "input_hex": hex.EncodeToString(data)})
	cd, data, _ = caseByIndex(files, r.Thorough(), total/2)
	r.Sample(map[string]interface{}{"case": cd, "input_hex": hex.EncodeToString(data)})
	_ = runtime.NumCPU
	r.Finish()
}
