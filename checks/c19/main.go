// C19: materials and lights sample what their densities say.
//
// Randomness is an input. Every sampler is handed a *rand.Rand whose Source is
// scripted: each Int63 call is a choice over the lattice {(2k+1) 2^(62-m)}
// (bit 32 = parity of k), so Float64() ranges over the midpoints
// (2k+1)/2^(m+1), Intn(2) over both values, and all call sequences of the
// sampler are enumerated. All samplers in the library are inverse-CDF
// samplers of axially symmetric lobes (or finite mixtures of such lobes and
// delta lobes), which makes the comparison with the reported density exact at
// lattice resolution:
//   - the reported density must be axially symmetric about the lobe axis and
//     integrate to one (graded Gauss-Legendre quadrature);
//   - for every lattice sample, the cap mass of the density beyond the
//     sample's polar angle must equal the polar draw (or its complement), and
//     azimuths must advance by 2 pi times the azimuth draw;
//   - mixtures must be the stated convex combination of their components, in
//     density and in the fraction of the lattice routed to each component;
//   - delta lobes: the density at each sampled direction must be probability
//     x 2/eps and vanish elsewhere.
//
// Energy: (1/4 pi) int BSDF |cos| <= 1 per channel. Fresnel: the mirror-lobe
// probability against Schlick's R0 + (1-R0)(1-cos)^5. Lights: sampled points
// on the light's own surface with the outward normal, part selection and
// in-part distribution by area (same inverse-CDF argument), TotalEmission.
package main

import (
	"fmt"
	"math"
	"math/rand"
	"sort"

	"github.com/unixpickle/model3d/model3d"
	"github.com/unixpickle/model3d/render3d"

	"verif/lib/cat"
	"verif/lib/ev"
)

type c3 = model3d.Coord3D

type rcase struct {
	What   string    `json:"what"`
	Params string    `json:"params"`
	Normal []float64 `json:"normal,omitempty"`
	Fixed  []float64 `json:"fixed_direction,omitempty"`
	Draws  []float64 `json:"draws,omitempty"`
}

// ---------------------------------------------------------------- scripted randomness

type script struct {
	vals []int64
	pos  int
	need bool
}

func (s *script) Int63() int64 {
	if s.pos >= len(s.vals) {
		s.need = true
		s.pos++
		return 1 << 61
	}
	v := s.vals[s.pos]
	s.pos++
	return v
}
func (s *script) Seed(int64) {}

func latticeVal(k, m int) (int64, float64) {
	v := int64(2*k+1) << uint(62-m)
	if k&1 == 1 {
		v |= 1 << 32
	}
	return v, float64(2*k+1) / float64(int64(1)<<uint(m+1))
}

type sample struct {
	draws []float64 // Float64() value of each draw
	ks    []int
	out   interface{}
}

// enumerate runs f for every call sequence over the lattice of resolution m; f receives a scripted generator.
func enumerate(m int, maxDraws int, f func(gen *rand.Rand) interface{}) []sample {
	var out []sample
	n := 1 << uint(m)
	var rec func(prefix []int)
	rec = func(prefix []int) {
		sc := &script{}
		fl := make([]float64, len(prefix))
		for i, k := range prefix {
			v, u := latticeVal(k, m)
			sc.vals = append(sc.vals, v)
			fl[i] = u
		}
		res := f(rand.New(sc))
		if sc.need {
			if len(prefix) >= maxDraws {
				panic(fmt.Sprintf("sampler wants more than %d draws", maxDraws))
			}
			for k := 0; k < n; k++ {
				rec(append(append([]int{}, prefix...), k))
			}
			return
		}
		if sc.pos < len(prefix) {
			panic("sampler used fewer draws than a shorter prefix required")
		}
		out = append(out, sample{fl, append([]int{}, prefix...), res})
	}
	rec(nil)
	return out
}

// ---------------------------------------------------------------- quadrature

var glx, glw = func() ([]float64, []float64) {
	// 16-point Gauss-Legendre on [-1,1]
	x := []float64{0.0950125098376374, 0.2816035507792589, 0.4580167776572274, 0.6178762444026438, 0.7554044083550030, 0.8656312023878318, 0.9445750230732326, 0.9894009349916499}
	w := []float64{0.1894506104550685, 0.1826034150449236, 0.1691565193950025, 0.1495959888165767, 0.1246289712555339, 0.0951585116824928, 0.0622535239386479, 0.0271524594117541}
	var xs, ws []float64
	for i := range x {
		xs = append(xs, -x[i], x[i])
		ws = append(ws, w[i], w[i])
	}
	return xs, ws
}()

func gl(f func(float64) float64, a, b float64) float64 {
	s := 0.0
	for i, x := range glx {
		s += glw[i] * f((a+b)/2+x*(b-a)/2)
	}
	return s * (b - a) / 2
}

// gradedBreaks: cos(theta) break points from -1 to 1, geometrically refined towards 1 and around extra points.
func gradedBreaks(extra ...float64) []float64 {
	bs := []float64{-1, -0.9, -0.5, 0, 0.5}
	for e := 1.0; e > 1e-13; e /= 2 {
		bs = append(bs, 1-e/2)
		bs = append(bs, -1+e/2)
	}
	bs = append(bs, 1)
	for _, x := range extra {
		if x > -1 && x < 1 {
			bs = append(bs, x)
		}
	}
	sort.Float64s(bs)
	out := bs[:1]
	for _, b := range bs[1:] {
		if b > out[len(out)-1] {
			out = append(out, b)
		}
	}
	return out
}

// capMass integrates (1/2) D(t) dt from t0 to 1 (fraction of probability with cos >= t0).
func capMass(D func(t float64) float64, t0 float64, breaks []float64) float64 {
	s := 0.0
	for i := 0; i+1 < len(breaks); i++ {
		a, b := breaks[i], breaks[i+1]
		if b <= t0 {
			continue
		}
		if a < t0 {
			a = t0
		}
		s += gl(D, a, b)
	}
	return s / 2
}

func frame(axis c3) (x, y c3) { return axis.OrthoBasis() }

func dirAt(axis c3, t, phi float64) c3 {
	x, y := frame(axis)
	st := math.Sqrt(math.Max(0, 1-t*t))
	return axis.Scale(t).Add(x.Scale(st * math.Cos(phi))).Add(y.Scale(st * math.Sin(phi)))
}

// ---------------------------------------------------------------- symmetric-lobe check

// checkLobe: samples (directions) drawn with exactly two draws each from an axially symmetric lobe around axis,
// against density(dir).
func checkLobe(r *ev.Run, what, params string, c rcase, axis c3, samples []sample, density func(c3) float64, extraBreaks ...float64) bool {
	viol := func(kind, msg string) bool {
		r.Violation(what+"/"+kind, params+": "+msg, c)
		return false
	}
	// 1. axial symmetry of the density
	for _, t := range []float64{-0.7, -0.2, 0.3, 0.8, 0.97, 0.9999} {
		d0 := density(dirAt(axis, t, 0.3))
		for _, phi := range []float64{1.1, 2.9, 4.4, 5.9} {
			if d := density(dirAt(axis, t, phi)); !(math.Abs(d-d0) <= 1e-6*(1+math.Abs(d0))) {
				return viol("density-not-symmetric", fmt.Sprintf("density %g vs %g at the same angle (cos %g) from the lobe axis %v", d, d0, t, axis))
			}
		}
	}
	D := func(t float64) float64 { return density(dirAt(axis, t, 0.3)) }
	breaks := gradedBreaks(extraBreaks...)
	total := capMass(D, -1, breaks)
	if !(math.Abs(total-1) <= 2e-3) {
		return viol("density-not-normalised", fmt.Sprintf("(1/4pi) integral of the density over the sphere = %.6g", total))
	}
	// 2. samples: unit, and cap mass = polar draw
	if len(samples) == 0 {
		return viol("no-samples", "sampler produced nothing")
	}
	nd := len(samples[0].draws)
	bestErr, bestCfg := math.Inf(1), ""
	for di := 0; di < nd; di++ {
		for _, flip := range []bool{false, true} {
			worst := 0.0
			for _, s := range samples {
				d := s.out.(c3)
				if !(math.Abs(d.Norm()-1) <= 1e-9) {
					return viol("sample-not-unit", fmt.Sprintf("sampled direction %v has length %g", d, d.Norm()))
				}
				t := math.Max(-1, math.Min(1, d.Dot(axis)))
				f := capMass(D, t, breaks) / total
				w := s.draws[di]
				if flip {
					w = 1 - w
				}
				worst = math.Max(worst, math.Abs(f-w))
			}
			if worst < bestErr {
				bestErr, bestCfg = worst, fmt.Sprintf("draw %d flipped=%v", di, flip)
			}
		}
	}
	if bestErr > 2e-3 {
		return viol("samples-do-not-follow-density", fmt.Sprintf("no draw of the sampler matches the cap mass of the reported density at the sampled polar angles (best: %s, worst deviation %.4g)", bestCfg, bestErr))
	}
	// 3. azimuth advances with the other draw (nd == 2)
	if nd == 2 {
		var pd int
		fmt.Sscanf(bestCfg, "draw %d", &pd)
		ad := 1 - pd
		x, y := frame(axis)
		groups := map[int][]sample{}
		for _, s := range samples {
			groups[s.ks[pd]] = append(groups[s.ks[pd]], s)
		}
		for _, g := range groups {
			if len(g) < 3 {
				continue
			}
			d0 := g[0].out.(c3)
			if !(math.Abs(d0.Dot(axis)) <= 1-1e-9) {
				continue
			}
			p0 := math.Atan2(d0.Dot(y), d0.Dot(x))
			okPlus, okMinus := true, true
			for _, s := range g[1:] {
				d := s.out.(c3)
				p := math.Atan2(d.Dot(y), d.Dot(x))
				want := 2 * math.Pi * (s.draws[ad] - g[0].draws[ad])
				dp := math.Mod(p-p0-want+8*math.Pi+math.Pi, 2*math.Pi) - math.Pi
				dm := math.Mod(p-p0+want+8*math.Pi+math.Pi, 2*math.Pi) - math.Pi
				if !(math.Abs(dp) <= 1e-6) {
					okPlus = false
				}
				if !(math.Abs(dm) <= 1e-6) {
					okMinus = false
				}
			}
			if !okPlus && !okMinus {
				return viol("azimuth-not-uniform", "azimuths of the samples do not advance by 2 pi times the azimuth draw")
			}
		}
	}
	return true
}

// ---------------------------------------------------------------- alphabets

var dirs = []c3{
	model3d.XYZ(0, 0, 1), model3d.XYZ(0, 0, -1), model3d.XYZ(1, 0, 0), model3d.XYZ(0.6, 0, 0.8), model3d.XYZ(-0.48, 0.6, 0.64),
	model3d.XYZ(0.3, -0.2, 0.9).Normalize(), model3d.XYZ(1, 1, 1).Normalize(), model3d.XYZ(1, 0.02, 0.05).Normalize(), model3d.XYZ(-0.7, 0.1, -0.7).Normalize(), model3d.XYZ(0.05, 0.999, 0.02).Normalize(),
}

func arr(c c3) []float64 { return []float64{c.X, c.Y, c.Z} }

func meanDir(samples []sample) c3 {
	var s c3
	for _, x := range samples {
		s = s.Add(x.out.(c3))
	}
	return s
}

// ---------------------------------------------------------------- materials

func materialStage(r *ev.Run, m int) {
	type job struct {
		name string
		run  func()
	}
	var jobs []job
	add := func(name string, f func()) { jobs = append(jobs, job{name, f}) }
	for ni, n := range dirs {
		for di, d := range dirs {
			if (ni+di)%2 == 1 && !r.Thorough() {
				continue
			}
			n, d := n, d
			// Lambert: source directions around -normal
			add("lambert", func() {
				mat := &render3d.LambertMaterial{DiffuseColor: render3d.NewColor(0.8)}
				c := rcase{"LambertMaterial", "", arr(n), arr(d), nil}
				ss := enumerate(m, 2, func(g *rand.Rand) interface{} { return mat.SampleSource(g, n, d) })
				r.Eval(len(ss))
				if checkLobe(r, "Lambert/source", fmt.Sprintf("normal %v dest %v", n, d), c, n.Scale(-1), ss, func(s c3) float64 { return mat.SourceDensity(n, s, d) }, 0) {
					r.NontrivialAdd(1)
				}
				sd := enumerate(m, 2, func(g *rand.Rand) interface{} { return render3d.SampleDest(mat, g, n, d) })
				checkLobe(r, "Lambert/dest", fmt.Sprintf("normal %v source %v", n, d), c, n, sd, func(x c3) float64 { return render3d.DestDensity(mat, n, d, x) }, 0)
			})
			for _, alpha := range []float64{0, 0.5, 1, 2, 10, 31, 100, 1000, 20000} {
				alpha := alpha
				add("phong", func() {
					spec := &render3d.PhongMaterial{Alpha: alpha, SpecularColor: render3d.NewColor(0.5)}
					c := rcase{"PhongMaterial", fmt.Sprintf("alpha=%g", alpha), arr(n), arr(d), nil}
					ss := enumerate(m, 2, func(g *rand.Rand) interface{} { return spec.SampleSource(g, n, d) })
					r.Eval(len(ss))
					axis := meanDir(ss).Normalize()
					// the lobe axis is the mirror image of dest, pointing into the surface
					want := n.Scale(2 * n.Dot(d)).Sub(d).Scale(-1)
					if !(axis.Dist(want) <= 1e-3) {
						r.Violation("Phong/lobe-axis", fmt.Sprintf("alpha=%g normal %v dest %v: samples centre on %v, the mirror direction is %v", alpha, n, d, axis, want), c)
						return
					}
					if checkLobe(r, "Phong/source", c.Params+fmt.Sprintf(" normal %v dest %v", n, d), c, want, ss, func(s c3) float64 { return spec.SourceDensity(n, s, d) }, 0) {
						r.NontrivialAdd(1)
					}
					// with a diffuse term: an equal mixture of the specular lobe and Lambert's
					mix := &render3d.PhongMaterial{Alpha: alpha, SpecularColor: render3d.NewColor(0.4), DiffuseColor: render3d.NewColor(0.5)}
					lam := &render3d.LambertMaterial{}
					for _, s := range []c3{dirAt(want, 0.9, 1), dirAt(want, 0.2, 4), dirAt(n.Scale(-1), 0.7, 2), dirAt(n.Scale(-1), 0.1, 5), dirAt(n, 0.5, 0.5)} {
						got := mix.SourceDensity(n, s, d)
						exp := (spec.SourceDensity(n, s, d) + lam.SourceDensity(n, s, d)) / 2
						if !(math.Abs(got-exp) <= 1e-9*(1+exp)) {
							r.Violation("Phong/mixture-density", fmt.Sprintf("alpha=%g: density with a diffuse term is %g at %v, half specular + half Lambert is %g", alpha, got, s, exp), c)
							return
						}
					}
					mm := m - 1
					if mm < 3 {
						mm = 3
					}
					ms := enumerate(mm, 3, func(g *rand.Rand) interface{} { return mix.SampleSource(g, n, d) })
					r.Eval(len(ms))
					nSpec := 0
					for _, s := range ms {
						sub := &script{}
						for _, k := range s.ks[1:] {
							v, _ := latticeVal(k, mm)
							sub.vals = append(sub.vals, v)
						}
						var exp c3
						if s.ks[0]&1 == 0 {
							exp = spec.SampleSource(rand.New(sub), n, d)
							nSpec++
						} else {
							exp = lam.SampleSource(rand.New(sub), n, d)
						}
						if !(exp.Dist(s.out.(c3)) <= 1e-12) {
							r.Violation("Phong/mixture-sampling", fmt.Sprintf("alpha=%g: with a diffuse term the sampler does not route the remaining draws to the specular / Lambert sampler", alpha), c)
							return
						}
					}
					if nSpec*2 != len(ms) {
						r.Violation("Phong/mixture-sampling", fmt.Sprintf("alpha=%g: %d of %d call sequences go to the specular lobe, the density says one half", alpha, nSpec, len(ms)), c)
					}
				})
			}
			// colour configurations that switch the sampler and the density between their shortcuts: no colours at all
			// (an emission-only lamp material) must still be one consistent lobe; diffuse colour only must still be
			// the equal mixture the density reports
			for _, alpha := range []float64{0, 3, 50} {
				alpha := alpha
				add("phong-colours", func() {
					want := n.Scale(2 * n.Dot(d)).Sub(d).Scale(-1)
					lamp := &render3d.PhongMaterial{Alpha: alpha, EmissionColor: render3d.NewColor(2)}
					c := rcase{"PhongMaterial", fmt.Sprintf("alpha=%g, emission only", alpha), arr(n), arr(d), nil}
					ss := enumerate(m, 2, func(g *rand.Rand) interface{} { return lamp.SampleSource(g, n, d) })
					r.Eval(len(ss))
					if checkLobe(r, "Phong/source-emission-only", c.Params+fmt.Sprintf(" normal %v dest %v", n, d), c, want, ss, func(s c3) float64 { return lamp.SourceDensity(n, s, d) }, 0) {
						r.NontrivialAdd(1)
					}
					matte := &render3d.PhongMaterial{Alpha: alpha, DiffuseColor: render3d.NewColor(0.5)}
					spec := &render3d.PhongMaterial{Alpha: alpha, SpecularColor: render3d.NewColor(0.5)}
					lam := &render3d.LambertMaterial{}
					c2 := rcase{"PhongMaterial", fmt.Sprintf("alpha=%g, diffuse colour only", alpha), arr(n), arr(d), nil}
					mm := m - 1
					if mm < 3 {
						mm = 3
					}
					ms := enumerate(mm, 3, func(g *rand.Rand) interface{} { return matte.SampleSource(g, n, d) })
					r.Eval(len(ms))
					// the density must be the mixture the sampler draws from: the share of call sequences routed to each
					// part, weighted with that part's density, at probe directions
					nSpec := 0
					for _, sq := range ms {
						sub := &script{}
						for _, k := range sq.ks[1:] {
							v, _ := latticeVal(k, mm)
							sub.vals = append(sub.vals, v)
						}
						if spec.SampleSource(rand.New(sub), n, d).Dist(sq.out.(c3)) <= 1e-12 {
							nSpec++
						}
					}
					share := float64(nSpec) / float64(len(ms))
					for _, sdir := range []c3{dirAt(want, 0.9, 1), dirAt(want, 0.2, 4), dirAt(n.Scale(-1), 0.7, 2), dirAt(n.Scale(-1), 0.1, 5)} {
						got := matte.SourceDensity(n, sdir, d)
						exp := share*spec.SourceDensity(n, sdir, d) + (1-share)*lam.SourceDensity(n, sdir, d)
						if !(math.Abs(got-exp) <= 1e-9*(1+exp)) {
							r.Violation("Phong/mixture-density-diffuse-only", fmt.Sprintf("alpha=%g: %d of %d call sequences use the specular sampler, so the density at %v should be %g, reported %g", alpha, nSpec, len(ms), sdir, exp, got), c2)
							return
						}
					}
				})
			}
			// asymmetries incl. weak but non-zero ones (where a series expansion or a switch to the isotropic formula
			// would sit), one below the library's own 1e-5 floor, and a strongly peaked one
			for _, g := range []float64{-0.9, -0.5, 0, 0.5, 0.9, 0.015, -0.015, 0.05, -0.004, 3e-6, -0.3, 0.99} {
				g := g
				add("hg", func() {
					mat := &render3d.HGMaterial{G: g, ScatterColor: render3d.NewColor(0.9), IgnoreNormals: true}
					c := rcase{"HGMaterial", fmt.Sprintf("g=%g", g), arr(n), arr(d), nil}
					ss := enumerate(m, 2, func(gen *rand.Rand) interface{} { return mat.SampleSource(gen, n, d) })
					r.Eval(len(ss))
					if checkLobe(r, "HG/source", c.Params+fmt.Sprintf(" dest %v", d), c, d, ss, func(s c3) float64 { return mat.SourceDensity(n, s, d) }) {
						r.NontrivialAdd(1)
					}
					// the BSDF is the phase function (times the scatter colour), divided by |cos| unless normals are ignored
					withN := &render3d.HGMaterial{G: g, ScatterColor: render3d.NewColor(0.9)}
					for _, s := range []c3{dirAt(d, 0.9, 1), dirAt(d, -0.3, 2), dirAt(d, 0.1, 5)} {
						b := mat.BSDF(n, s, d)
						if !(math.Abs(b.X-0.9*mat.SourceDensity(n, s, d)) <= 1e-9*(1+b.X)) {
							r.Violation("HG/bsdf", fmt.Sprintf("g=%g: BSDF %g is not scatter colour x phase function %g", g, b.X, mat.SourceDensity(n, s, d)), c)
						}
						// with normals the BSDF "cancels out the normal cosine term": BSDF x |cos| is the same quantity, so
						// that the energy taken from all source directions is the scatter colour, not more
						if cs := math.Abs(s.Dot(n)); cs > 1e-3 {
							bn := withN.BSDF(n, s, d)
							if !(math.Abs(bn.X*cs-b.X) <= 1e-9*(1+b.X)) {
								r.Violation("HG/bsdf-cosine", fmt.Sprintf("g=%g: BSDF x |cos| = %g x %g is not scatter colour x phase function %g", g, bn.X, cs, b.X), c)
							}
						}
					}
				})
			}
			// focus points
			add("focus", func() {
				mat := &render3d.LambertMaterial{DiffuseColor: render3d.NewColor(1)}
				point := model3d.XYZ(0.3, -0.4, 0.2)
				for _, alpha := range []float64{0, 3, 50} {
					fp := &render3d.PhongFocusPoint{Target: point.Sub(d.Scale(2.5)), Alpha: alpha}
					c := rcase{"PhongFocusPoint", fmt.Sprintf("alpha=%g", alpha), arr(n), arr(d), nil}
					ss := enumerate(m, 2, func(g *rand.Rand) interface{} { return fp.SampleFocus(g, mat, point, n, d) })
					r.Eval(len(ss))
					axis := point.Sub(fp.Target).Normalize()
					checkLobe(r, "PhongFocusPoint", c.Params, c, axis, ss, func(s c3) float64 { return fp.FocusDensity(mat, point, n, s, d) }, 0)
				}
				for _, rad := range []float64{0.2, 1, 2.4} {
					sf := &render3d.SphereFocusPoint{Center: point.Sub(d.Scale(2.5)), Radius: rad}
					c := rcase{"SphereFocusPoint", fmt.Sprintf("radius=%g distance 2.5", rad), arr(n), arr(d), nil}
					ss := enumerate(m, 2, func(g *rand.Rand) interface{} { return sf.SampleFocus(g, mat, point, n, d) })
					r.Eval(len(ss))
					axis := point.Sub(sf.Center).Normalize()
					minCos := math.Sqrt(1 - rad*rad/6.25)
					if checkLobe(r, "SphereFocusPoint", c.Params, c, axis, ss, func(s c3) float64 { return sf.FocusDensity(mat, point, n, s, d) }, minCos) {
						// every sampled direction, followed backwards from the point, really meets the sphere
						for _, s := range ss {
							dd := s.out.(c3)
							ray := &model3d.Ray{Origin: point, Direction: dd.Scale(-1)}
							sph := &model3d.Sphere{Center: sf.Center, Radius: rad * (1 + 1e-9)}
							if _, ok := sph.FirstRayCollision(ray); !ok {
								r.Violation("SphereFocusPoint/misses-sphere", fmt.Sprintf("radius %g: sampled source direction %v does not come from the sphere", rad, dd), c)
								break
							}
						}
					}
				}
			})
			// the shaded point on the focus sphere (a lamp resting on the floor: distance == radius exactly, the cap is
			// the hemisphere), inside it, and a focus point whose filter declines the material: sampler and density
			// must switch to the other distribution together
			add("focus-edge", func() {
				mat := &render3d.LambertMaterial{DiffuseColor: render3d.NewColor(1)}
				for _, point := range []c3{{}, model3d.XYZ(0.3, -0.4, 0.2)} {
					for _, dist := range []float64{2.5, 2, 1} {
						ctr := point.Sub(d.Scale(dist))
						on := &render3d.SphereFocusPoint{Center: ctr, Radius: ctr.Dist(point)}
						c := rcase{"SphereFocusPoint", fmt.Sprintf("point %v on the sphere (distance %g)", point, dist), arr(n), arr(d), nil}
						ss := enumerate(m, 2, func(g *rand.Rand) interface{} { return on.SampleFocus(g, mat, point, n, d) })
						r.Eval(len(ss))
						checkLobe(r, "SphereFocusPoint/on-sphere", c.Params, c, point.Sub(ctr).Normalize(), ss, func(s c3) float64 { return on.FocusDensity(mat, point, n, s, d) }, 0)
						for _, k := range []float64{1.0000001, 1.5, 40} {
							in := &render3d.SphereFocusPoint{Center: ctr, Radius: k * dist}
							c := rcase{"SphereFocusPoint", fmt.Sprintf("point %v inside the sphere (radius/distance %g)", point, k), arr(n), arr(d), nil}
							ss := enumerate(m, 2, func(g *rand.Rand) interface{} { return in.SampleFocus(g, mat, point, n, d) })
							r.Eval(len(ss))
							checkLobe(r, "SphereFocusPoint/inside", c.Params, c, n.Scale(-1), ss, func(s c3) float64 { return in.FocusDensity(mat, point, n, s, d) }, 0)
						}
						r.NontrivialAdd(1)
					}
					no := func(render3d.Material) bool { return false }
					sf := &render3d.SphereFocusPoint{Center: point.Sub(d.Scale(2.5)), Radius: 1, MaterialFilter: no}
					c := rcase{"SphereFocusPoint", "material filtered out", arr(n), arr(d), nil}
					ss := enumerate(m, 2, func(g *rand.Rand) interface{} { return sf.SampleFocus(g, mat, point, n, d) })
					checkLobe(r, "SphereFocusPoint/filtered", c.Params, c, n.Scale(-1), ss, func(s c3) float64 { return sf.FocusDensity(mat, point, n, s, d) }, 0)
					pf := &render3d.PhongFocusPoint{Target: point.Sub(d.Scale(2.5)), Alpha: 3, MaterialFilter: no}
					c = rcase{"PhongFocusPoint", "material filtered out", arr(n), arr(d), nil}
					ss = enumerate(m, 2, func(g *rand.Rand) interface{} { return pf.SampleFocus(g, mat, point, n, d) })
					checkLobe(r, "PhongFocusPoint/filtered", c.Params, c, n.Scale(-1), ss, func(s c3) float64 { return pf.FocusDensity(mat, point, n, s, d) }, 0)
					r.Eval(2 * len(ss))
				}
			})
			// focus spheres of very small angular size (a lamp far away): the quadrature of checkLobe cannot resolve
			// such caps, but everything is known in closed form, computed here without cancellation from the
			// half angle a = asin(r/d): density inside = 1/sin^2(a/2), zero outside, samples uniform in the cap
			add("focus-small", func() {
				mat := &render3d.LambertMaterial{DiffuseColor: render3d.NewColor(1)}
				point := model3d.XYZ(0.3, -0.4, 0.2)
				for _, ratio := range []float64{1e-3, 1e-4, 3e-5} {
					dist := 2.5
					sf := &render3d.SphereFocusPoint{Center: point.Sub(d.Scale(dist)), Radius: ratio * dist}
					c := rcase{"SphereFocusPoint", fmt.Sprintf("radius/distance=%g", ratio), arr(n), arr(d), nil}
					axis := point.Sub(sf.Center).Normalize()
					a := math.Asin(ratio)
					capS := math.Sin(a/2) * math.Sin(a/2) // (1 - cos a)/2
					ss := enumerate(m, 2, func(g *rand.Rand) interface{} { return sf.SampleFocus(g, mat, point, n, d) })
					r.Eval(len(ss))
					best := math.Inf(1)
					for di := 0; di < 2; di++ {
						for _, flip := range []bool{false, true} {
							worst := 0.0
							for _, smp := range ss {
								dir := smp.out.(c3)
								th := math.Asin(math.Min(1, dir.Cross(axis).Norm()))
								frac := math.Sin(th/2) * math.Sin(th/2) / capS
								w := smp.draws[di]
								if flip {
									w = 1 - w
								}
								worst = math.Max(worst, math.Abs(frac-w))
							}
							best = math.Min(best, worst)
						}
					}
					if !(best <= 1e-4) {
						r.Violation("SphereFocusPoint/small-cap-sampling", fmt.Sprintf("radius/distance %g: sampled directions are not uniform in the cap of half angle %g (worst deviation of the cap fraction from the draw %g)", ratio, a, best), c)
						continue
					}
					in := dirAt(axis, math.Cos(a/2), 1.3)
					out := dirAt(axis, math.Cos(3*a), 0.4)
					want := 1 / capS
					if got := sf.FocusDensity(mat, point, n, in, d); !(math.Abs(got-want) <= 1e-4*want) {
						r.Violation("SphereFocusPoint/small-cap-density", fmt.Sprintf("radius/distance %g: density inside the cap is %g, the reciprocal of the cap's share of the sphere is %g", ratio, got, want), c)
					}
					if got := sf.FocusDensity(mat, point, n, out, d); got != 0 {
						r.Violation("SphereFocusPoint/small-cap-density", fmt.Sprintf("radius/distance %g: density %g at three half angles from the axis, outside the cap", ratio, got), c)
					}
					r.NontrivialAdd(1)
				}
			})
			// refraction: delta lobes
			for _, ior := range []float64{0.7, 1.3, 2.4, 1, 1.02, 0.98} {
				for _, spec := range []bool{false, true} {
					ior, spec := ior, spec
					add("refract", func() { checkRefract(r, m, ior, spec, n, d) })
				}
			}
			// joined materials: stated mixture
			add("joined", func() {
				a := &render3d.LambertMaterial{DiffuseColor: render3d.NewColor(0.3)}
				b := &render3d.PhongMaterial{Alpha: 10, SpecularColor: render3d.NewColor(0.3)}
				cm := &render3d.RefractMaterial{IndexOfRefraction: 1.3, RefractColor: render3d.NewColor(0.3)}
				for _, probs := range [][]float64{{0.25, 0.75, 0}, {0.5, 0.25, 0.25}, {0, 0, 1}} {
					jm := &render3d.JoinedMaterial{Materials: []render3d.Material{a, b, cm}, Probs: probs}
					c := rcase{"JoinedMaterial", fmt.Sprintf("probs=%v", probs), arr(n), arr(d), nil}
					for _, s := range []c3{dirAt(n.Scale(-1), 0.8, 1), dirAt(n.Scale(-1), 0.2, 3), cm.SampleSource(nil, n, d)} {
						exp := 0.0
						expD := 0.0
						for i, mt := range jm.Materials {
							exp += probs[i] * mt.SourceDensity(n, s, d)
							expD += probs[i] * render3d.DestDensity(mt, n, d, s)
						}
						if got := jm.SourceDensity(n, s, d); !(math.Abs(got-exp) <= 1e-9*(1+exp)) {
							r.Violation("Joined/density", fmt.Sprintf("probs %v: SourceDensity %g, mixture of the parts %g", probs, got, exp), c)
						}
						if got := jm.DestDensity(n, d, s); !(math.Abs(got-expD) <= 1e-9*(1+expD)) {
							r.Violation("Joined/density", fmt.Sprintf("probs %v: DestDensity %g, mixture of the parts %g", probs, got, expD), c)
						}
					}
					mm := 3
					for side := 0; side < 2; side++ {
						ms := enumerate(mm, 3, func(g *rand.Rand) interface{} {
							if side == 0 {
								return jm.SampleSource(g, n, d)
							}
							return jm.SampleDest(g, n, d)
						})
						r.Eval(len(ms))
						cnt := make([]float64, 3)
						tot := 0.0
						for _, s := range ms {
							// which part does the first draw select?
							p := s.draws[0]
							idx := 2
							for i, q := range probs {
								p -= q
								if p < 0 {
									idx = i
									break
								}
							}
							sub := &script{}
							for _, k := range s.ks[1:] {
								v, _ := latticeVal(k, mm)
								sub.vals = append(sub.vals, v)
							}
							var exp c3
							if side == 0 {
								exp = jm.Materials[idx].SampleSource(rand.New(sub), n, d)
							} else {
								exp = render3d.SampleDest(jm.Materials[idx], rand.New(sub), n, d)
							}
							if !(exp.Dist(s.out.(c3)) <= 1e-12) {
								r.Violation("Joined/sampling", fmt.Sprintf("probs %v: first draw %g should select part %d, but the result is not that part's sample", probs, s.draws[0], idx), c)
								return
							}
							w := 1.0 / math.Pow(float64(int(1)<<uint(mm)), float64(len(s.ks)))
							cnt[idx] += w
							tot += w
						}
						for i := range cnt {
							if !(math.Abs(cnt[i]/tot-probs[i]) <= 1.0/float64(int(1)<<uint(mm))+1e-9) {
								r.Violation("Joined/sampling", fmt.Sprintf("probs %v: part %d receives %.3f of the lattice", probs, i, cnt[i]/tot), c)
							}
						}
					}
				}
				r.NontrivialAdd(1)
			})
			add("energy", func() { checkEnergy(r, n, d) })
		}
	}
	ev.Parallel(len(jobs), 0, func(i int) { jobs[i].run() })
	r.Set("material_configurations", len(jobs))
}

const eps = 1e-8 // the library's delta-lobe width (cosineEpsilon)

func checkRefract(r *ev.Run, m int, ior float64, spec bool, n, d c3) {
	mat := &render3d.RefractMaterial{IndexOfRefraction: ior, RefractColor: render3d.NewColor(0.9)}
	if spec {
		mat.SpecularColor = render3d.NewColor(1)
	}
	c := rcase{"RefractMaterial", fmt.Sprintf("ior=%g fresnel=%v", ior, spec), arr(n), arr(d), nil}
	for side := 0; side < 2; side++ {
		name := []string{"source", "dest"}[side]
		ss := enumerate(m, 1, func(g *rand.Rand) interface{} {
			if side == 0 {
				return mat.SampleSource(g, n, d)
			}
			return mat.SampleDest(g, n, d)
		})
		r.Eval(len(ss))
		dens := func(x c3) float64 {
			if side == 0 {
				return mat.SourceDensity(n, x, d)
			}
			return mat.DestDensity(n, d, x)
		}
		// lobes = distinct sampled directions with their lattice probability
		type lobe struct {
			dir c3
			p   float64
		}
		var lobes []lobe
		for _, s := range ss {
			dd := s.out.(c3)
			if !(math.Abs(dd.Norm()-1) <= 1e-9) {
				r.Violation("Refract/"+name+"/sample-not-unit", fmt.Sprintf("%s: sampled direction %v is not a unit vector", c.Params, dd), c)
				return
			}
			found := false
			for i := range lobes {
				if lobes[i].dir.Dist(dd) < 1e-6 {
					lobes[i].p += 1 / float64(len(ss))
					found = true
				}
			}
			if !found {
				lobes = append(lobes, lobe{dd, 1 / float64(len(ss))})
			}
		}
		// the two directions a delta lobe can sit in are known without sampling: the mirror direction and the direction
		// the Fresnel-free material of the same index sends the ray to. A lobe whose probability is below the lattice
		// resolution (reflectance 0.006 at index 1.02) is never drawn from the lattice; it is still a lobe.
		if spec {
			plainM := &render3d.RefractMaterial{IndexOfRefraction: ior, RefractColor: render3d.NewColor(0.9)}
			cands := []c3{n.Scale(2 * n.Dot(d)).Sub(d).Scale(-1)}
			if side == 0 {
				cands = append(cands, plainM.SampleSource(rand.New(&script{vals: []int64{1}}), n, d))
			} else {
				cands = append(cands, plainM.SampleDest(rand.New(&script{vals: []int64{1}}), n, d))
			}
			for _, cd := range cands {
				found := false
				for _, l := range lobes {
					if l.dir.Dist(cd) < 1e-6 {
						found = true
					}
				}
				if !found {
					lobes = append(lobes, lobe{cd, 0})
				}
			}
		}
		sum := 0.0
		for _, l := range lobes {
			// probability mass the density assigns to the cap around the lobe = density x cap fraction (eps/2)
			mass := dens(l.dir) * eps / 2
			sum += mass
			// lattice resolution of the sampled probability; a sampler that draws nothing is exact
			res := 1.0 / float64(len(ss))
			if len(ss) == 1 {
				res = 0
			}
			if !(math.Abs(mass-l.p) <= res+1e-9) {
				r.Violation("Refract/"+name+"/density-vs-sampler", fmt.Sprintf("%s normal %v fixed %v: the sampler returns %v with probability %.4f, the density puts mass %.4f there", c.Params, n, d, l.dir, l.p, mass), c)
				return
			}
		}
		res2 := 2.0 / float64(len(ss))
		if len(ss) == 1 {
			res2 = 0
		}
		if !(math.Abs(sum-1) <= res2+1e-9) && len(lobes) > 0 {
			r.Violation("Refract/"+name+"/density-not-normalised", fmt.Sprintf("%s normal %v fixed %v: the delta lobes carry total mass %.4f", c.Params, n, d, sum), c)
			return
		}
		for _, x := range dirs {
			far := true
			for _, l := range lobes {
				if l.dir.Dot(x) > 1-1e-6 {
					far = false
				}
			}
			if far && dens(x) != 0 {
				r.Violation("Refract/"+name+"/density-outside-lobes", fmt.Sprintf("%s: density %g at %v, away from every sampled direction", c.Params, dens(x), x), c)
				return
			}
		}
		// Fresnel split (source side): probability of the mirror lobe against Schlick's approximation
		if spec && side == 0 {
			mirror := n.Scale(2 * n.Dot(d)).Sub(d).Scale(-1)
			cos := math.Abs(n.Dot(d))
			r0 := (ior - 1) / (ior + 1)
			r0 *= r0
			want := r0 + (1-r0)*math.Pow(1-cos, 5)
			// whether a refracted direction exists at all is read off the same material without the Fresnel term:
			// it sends everything to the mirror direction exactly when refraction is impossible
			plain := &render3d.RefractMaterial{IndexOfRefraction: ior, RefractColor: render3d.NewColor(0.9)}
			if plain.SampleSource(rand.New(&script{vals: []int64{1}}), n, d).Dist(mirror) < 1e-6 {
				want = 1
			}
			got := 0.0
			for _, l := range lobes {
				if l.dir.Dist(mirror) < 1e-6 {
					got += dens(l.dir) * eps / 2
				}
			}
			if !(math.Abs(got-want) <= 1e-6) {
				r.Violation("Refract/fresnel-schlick", fmt.Sprintf("ior=%g, cos(incidence)=%.4f: mirror-lobe share %.6f, Schlick's R0 + (1-R0)(1-cos)^5 = %.6f (R0 = %.6f)", ior, cos, got, want, r0), c)
				return
			}
		}
	}
	// energy in the delta lobes of the BSDF for incoming direction d (as source)
	total := 0.0
	seen := []c3{}
	plainD := &render3d.RefractMaterial{IndexOfRefraction: ior, RefractColor: render3d.NewColor(0.9)}
	outs := []c3{mat.SampleDest(rand.New(&script{vals: []int64{1}}), n, d), mat.SampleDest(rand.New(&script{vals: []int64{math.MaxInt64 - 1}}), n, d)}
	if spec {
		// both lobes, whether or not the two scripted draws reach them (a reflectance of exactly 0 is never drawn)
		outs = append(outs, n.Scale(2*n.Dot(d)).Sub(d).Scale(-1), plainD.SampleDest(rand.New(&script{vals: []int64{1}}), n, d))
	}
	for _, out := range outs {
		dup := false
		for _, s := range seen {
			if s.Dist(out) < 1e-6 {
				dup = true
			}
		}
		if dup {
			continue
		}
		seen = append(seen, out)
		b := mat.BSDF(n, d, out)
		total += b.X * math.Abs(n.Dot(out)) * eps / 2
	}
	r.Eval(1)
	if !(total <= 1+1e-6) {
		r.Violation("Refract/energy", fmt.Sprintf("%s normal %v source %v: outgoing energy %.6f exceeds the incoming energy", c.Params, n, d, total), c)
	}
	// away from the lobes nothing is scattered (anything there would be energy on top of the lobes')
	for _, x := range dirs {
		far := true
		for _, l := range seen {
			if l.Dot(x) > 1-1e-6 {
				far = false
			}
		}
		if b := mat.BSDF(n, d, x); far && (b.X != 0 || b.Y != 0 || b.Z != 0) {
			r.Violation("Refract/bsdf-outside-lobes", fmt.Sprintf("%s normal %v source %v: BSDF %v towards %v, away from the mirror and the refracted direction", c.Params, n, d, b, x), c)
			return
		}
	}
	// Fresnel split of the energy: with a white mirror colour the mirror lobe carries Schlick's share R of the
	// incoming energy and the refracted lobe carries (1-R) x refract colour
	if spec && len(seen) == 2 {
		mirror := n.Scale(2 * n.Dot(d)).Sub(d).Scale(-1)
		cos := math.Abs(n.Dot(d))
		r0 := (ior - 1) / (ior + 1)
		r0 *= r0
		R := r0 + (1-r0)*math.Pow(1-cos, 5)
		for _, out := range seen {
			co := math.Abs(n.Dot(out))
			if co < 1e-6 || cos < 1e-6 {
				continue
			}
			e := mat.BSDF(n, d, out).X * co * eps / 2
			want, what := 0.9*(1-R), "refracted"
			if out.Dist(mirror) < 1e-6 {
				want, what = R, "mirror"
			}
			if !(math.Abs(e-want) <= 1e-6) {
				r.Violation("Refract/fresnel-energy-split", fmt.Sprintf("ior=%g, cos(incidence)=%.4f: the %s lobe carries %.6f of the incoming energy, Schlick's split gives %.6f (R = %.6f, refract colour 0.9, mirror colour 1)", ior, cos, what, e, want, R), c)
				return
			}
		}
	}
	// total internal reflection: refraction is impossible, the "refracted" lobe is sent to the mirror direction too and
	// the one direction carries both shares, R x mirror colour + (1-R) x refract colour
	if spec && len(seen) == 1 {
		mirror := n.Scale(2 * n.Dot(d)).Sub(d).Scale(-1)
		cos := math.Abs(n.Dot(d))
		r0 := (ior - 1) / (ior + 1)
		r0 *= r0
		R := r0 + (1-r0)*math.Pow(1-cos, 5)
		if out := seen[0]; out.Dist(mirror) < 1e-6 && cos > 1e-6 {
			e := mat.BSDF(n, d, out).X * math.Abs(n.Dot(out)) * eps / 2
			if want := R + 0.9*(1-R); !(math.Abs(e-want) <= 1e-6) {
				r.Violation("Refract/fresnel-energy-split", fmt.Sprintf("ior=%g, cos(incidence)=%.4f, total internal reflection: the mirror direction carries %.6f of the incoming energy, both shares together are %.6f (R = %.6f, refract colour 0.9, mirror colour 1)", ior, cos, e, want, R), c)
				return
			}
			r.NontrivialKey(fmt.Sprintf("tir/%g", ior))
		}
	}
	r.NontrivialAdd(1)
}

// checkEnergy: (1/4pi) int BSDF(n, s, d) |n.d| dOmega_d <= 1 for smooth materials.
func checkEnergy(r *ev.Run, n, s c3) {
	if n.Dot(s) > -0.05 {
		return // light must arrive from outside, not at grazing incidence
	}
	mats := []struct {
		name string
		m    render3d.Material
	}{
		{"Lambert(0.9)", &render3d.LambertMaterial{DiffuseColor: render3d.NewColor(0.9)}},
		{"Phong(alpha=0,spec .9)", &render3d.PhongMaterial{Alpha: 0, SpecularColor: render3d.NewColor(0.9)}},
		{"Phong(alpha=2,spec .5,diffuse .5)", &render3d.PhongMaterial{Alpha: 2, SpecularColor: render3d.NewColor(0.5), DiffuseColor: render3d.NewColor(0.5)}},
		{"Phong(alpha=100,spec 1)", &render3d.PhongMaterial{Alpha: 100, SpecularColor: render3d.NewColor(1)}},
		{"Phong(alpha=1000,spec .7,diffuse .3)", &render3d.PhongMaterial{Alpha: 1000, SpecularColor: render3d.NewColor(0.7), DiffuseColor: render3d.NewColor(0.3)}},
	}
	mirror := s.Sub(n.Scale(2 * n.Dot(s)))
	breaks := gradedBreaks()
	for _, mt := range mats {
		r.Eval(1)
		const nphi = 96
		total := 0.0
		for i := 0; i+1 < len(breaks); i++ {
			total += gl(func(t float64) float64 {
				sum := 0.0
				for k := 0; k < nphi; k++ {
					d := dirAt(mirror, t, 2*math.Pi*(float64(k)+0.5)/nphi)
					sum += mt.m.BSDF(n, s, d).X * math.Abs(n.Dot(d))
				}
				return sum / nphi
			}, breaks[i], breaks[i+1])
		}
		total /= 2
		if total > 1.03 {
			r.Violation("energy", fmt.Sprintf("%s normal %v source %v: (1/4pi) integral of BSDF |cos| over outgoing directions = %.4f > 1", mt.name, n, s, total), rcase{"energy", mt.name, arr(n), arr(s), nil})
		}
	}
}

// ---------------------------------------------------------------- lights

func lightStage(r *ev.Run, m int) {
	em := render3d.NewColorRGB(1, 2, 0.5)
	// sphere light: real generator (NormFloat64 is a rejection sampler; its uniformity is not decided here)
	for _, sp := range []*model3d.Sphere{{Center: model3d.XYZ(1, -2, 0.5), Radius: 0.3}, {Radius: 4},
		{Center: model3d.XYZ(0.5, 0.25, -0.125), Radius: 1.0 / 4096}, {Center: model3d.XYZ(4096, -8192, 2048), Radius: 1024}} {
		l := render3d.NewSphereAreaLight(sp, em)
		gen := rand.New(rand.NewSource(1))
		for i := 0; i < 4096; i++ {
			p, nrm, e := l.SampleLight(gen)
			r.Eval(1)
			if !(math.Abs(p.Dist(sp.Center)-sp.Radius) <= 1e-9*sp.Radius) || !(nrm.Dist(p.Sub(sp.Center).Normalize()) <= 1e-9) || e != em {
				r.Violation("SphereAreaLight/sample", fmt.Sprintf("sphere %v: sample %v normal %v emission %v is not on the surface with the outward normal", *sp, p, nrm, e), rcase{What: "SphereAreaLight"})
				break
			}
		}
		if want := em.Sum() * 4 * math.Pi * sp.Radius * sp.Radius; !(math.Abs(l.TotalEmission()-want) <= 1e-9*want) {
			r.Violation("SphereAreaLight/TotalEmission", fmt.Sprintf("TotalEmission %g, emission x area %g", l.TotalEmission(), want), rcase{What: "SphereAreaLight"})
		}
	}
	// cylinder lights
	for _, cy := range []*model3d.Cylinder{
		{P1: model3d.XYZ(0, 0, 0), P2: model3d.XYZ(0, 0, 2), Radius: 1},
		{P1: model3d.XYZ(1, -2, 0.5), P2: model3d.XYZ(2, 0, 1.5), Radius: 3},
		{P1: model3d.XYZ(0, 1, 0), P2: model3d.XYZ(0.3, 1.1, -4), Radius: 0.25},
		// the second one 4096 times smaller and 1024 times larger (exact scalings)
		{P1: model3d.XYZ(1, -2, 0.5).Scale(1.0 / 4096), P2: model3d.XYZ(2, 0, 1.5).Scale(1.0 / 4096), Radius: 3.0 / 4096},
		{P1: model3d.XYZ(1, -2, 0.5).Scale(1024), P2: model3d.XYZ(2, 0, 1.5).Scale(1024), Radius: 3 * 1024},
	} {
		l := render3d.NewCylinderAreaLight(cy, em)
		c := rcase{What: "CylinderAreaLight", Params: fmt.Sprintf("%v-%v r=%g", cy.P1, cy.P2, cy.Radius)}
		h := cy.P1.Dist(cy.P2)
		axis := cy.P2.Sub(cy.P1).Normalize()
		capA, shaftA := math.Pi*cy.Radius*cy.Radius, 2*math.Pi*cy.Radius*h
		if want := em.Sum() * (2*capA + shaftA); !(math.Abs(l.TotalEmission()-want) <= 1e-9*want) {
			r.Violation("CylinderAreaLight/TotalEmission", fmt.Sprintf("%s: TotalEmission %g, emission x area %g", c.Params, l.TotalEmission(), want), c)
		}
		mm := m - 1
		ss := enumerate(mm, 3, func(g *rand.Rand) interface{} {
			p, n, e := l.SampleLight(g)
			return [3]c3{p, n, e}
		})
		r.Eval(len(ss))
		var mass [3]float64
		ok := true
		for _, s := range ss {
			o := s.out.([3]c3)
			p, nrm := o[0], o[1]
			z := p.Sub(cy.P1).Dot(axis)
			rad := p.Sub(cy.P1).Sub(axis.Scale(z)).Norm()
			part := -1
			switch {
			case math.Abs(z) < 1e-9*h && rad <= cy.Radius*(1+1e-9) && nrm.Dist(axis.Scale(-1)) < 1e-9:
				part = 0
			case math.Abs(z-h) < 1e-9*h && rad <= cy.Radius*(1+1e-9) && nrm.Dist(axis) < 1e-9:
				part = 1
			case math.Abs(rad-cy.Radius) < 1e-9*cy.Radius && z >= -1e-9*h && z <= h*(1+1e-9) && nrm.Dist(p.Sub(cy.P1).Sub(axis.Scale(z)).Normalize()) < 1e-9:
				part = 2
			}
			if part < 0 {
				r.Violation("CylinderAreaLight/sample-off-surface", fmt.Sprintf("%s: sampled point %v (axial %.4f of %.4f, radial %.4f) with normal %v is not on the cylinder's surface with its outward normal", c.Params, p, z, h, rad, nrm), c)
				ok = false
				break
			}
			mass[part] += 1 / float64(len(ss))
			if o[2] != em {
				r.Violation("CylinderAreaLight/emission", "sampled emission differs from the light's emission", c)
				ok = false
				break
			}
		}
		if ok {
			tot := 2*capA + shaftA
			for i, want := range []float64{capA / tot, capA / tot, shaftA / tot} {
				if !(math.Abs(mass[i]-want) <= 2.0/float64(int(1)<<uint(mm))) {
					r.Violation("CylinderAreaLight/part-selection", fmt.Sprintf("%s: part %d (0,1 = caps, 2 = shaft) receives %.4f of the samples, its share of the area is %.4f", c.Params, i, mass[i], want), c)
				}
			}
			// within the caps: area-uniform means (radius/R)^2 is one of the draws
			for _, s := range ss {
				o := s.out.([3]c3)
				z := o[0].Sub(cy.P1).Dot(axis)
				rad := o[0].Sub(cy.P1).Sub(axis.Scale(z)).Norm()
				if o[1].Dist(axis) < 1e-9 || o[1].Dist(axis.Scale(-1)) < 1e-9 {
					q := rad * rad / (cy.Radius * cy.Radius)
					hit := false
					for _, u := range s.draws {
						if math.Abs(u-q) < 1e-9 {
							hit = true
						}
					}
					if !hit {
						r.Violation("CylinderAreaLight/cap-not-uniform", fmt.Sprintf("%s: cap sample at radius fraction^2 %.6f does not correspond to any draw %v", c.Params, q, s.draws), c)
						break
					}
				} else {
					q := z / h
					hit := false
					for _, u := range s.draws {
						if math.Abs(u-q) < 1e-9 {
							hit = true
						}
					}
					if !hit {
						r.Violation("CylinderAreaLight/shaft-not-uniform", fmt.Sprintf("%s: shaft sample at height fraction %.6f does not correspond to any draw %v", c.Params, q, s.draws), c)
						break
					}
				}
			}
			// around the axis: the azimuth of the sample (in any fixed frame) minus 2 pi x one of the draws must be
			// the same constant for every sample, i.e. the angle is uniform and covers the whole circle
			bx, by := axis.OrthoBasis()
			azOK := false
			for di := 0; di < 3 && !azOK; di++ {
				var ref float64
				have, good := false, true
				for _, s := range ss {
					o := s.out.([3]c3)
					z := o[0].Sub(cy.P1).Dot(axis)
					radial := o[0].Sub(cy.P1).Sub(axis.Scale(z))
					if radial.Norm() < 1e-6*cy.Radius {
						continue
					}
					phi := math.Atan2(radial.Dot(by), radial.Dot(bx)) - 2*math.Pi*s.draws[di]
					phi -= 2 * math.Pi * math.Floor(phi/(2*math.Pi))
					if !have {
						ref, have = phi, true
					} else if d := math.Abs(phi - ref); !(d <= 1e-6 || math.Abs(d-2*math.Pi) <= 1e-6) {
						good = false
						break
					}
				}
				azOK = have && good
			}
			if !azOK {
				r.Violation("CylinderAreaLight/azimuth-not-uniform", fmt.Sprintf("%s: the angle of the samples around the axis is not 2 pi x one of the draws (plus a constant)", c.Params), c)
			}
			r.NontrivialAdd(1)
		}
	}
	// mesh lights
	type namedMesh struct {
		Name string
		Mesh func() *model3d.Mesh
	}
	var lightMeshes []namedMesh
	for _, nm := range cat.Closed3(true)[:4] {
		lightMeshes = append(lightMeshes, namedMesh{nm.Name, nm.Mesh})
	}
	// meshes that also carry zero-area faces (two equal corners, or three collinear ones), as left behind by
	// decimation or vertex merging: they emit nothing and must not disturb the selection of the others
	for _, nm := range cat.Closed3(true)[:2] {
		nm := nm
		lightMeshes = append(lightMeshes, namedMesh{nm.Name + "+collapsed-faces", func() *model3d.Mesh {
			m := nm.Mesh()
			vs := m.VertexSlice()
			sort.Slice(vs, func(i, j int) bool {
				a, b := vs[i].Array(), vs[j].Array()
				return a[0] < b[0] || (a[0] == b[0] && (a[1] < b[1] || (a[1] == b[1] && a[2] < b[2])))
			})
			for i := 0; i < 12; i++ {
				a, b := vs[i%len(vs)], vs[(i*5+1)%len(vs)]
				if a == b {
					b = vs[(i+2)%len(vs)]
				}
				if i%2 == 0 {
					m.Add(&model3d.Triangle{a, a, b})
				} else {
					m.Add(&model3d.Triangle{a, a.Mid(b), b})
				}
			}
			return m
		}})
	}
	for _, nm := range lightMeshes {
		mesh := nm.Mesh()
		l := render3d.NewMeshAreaLight(mesh, em)
		c := rcase{What: "MeshAreaLight", Params: nm.Name}
		area := mesh.Area()
		if want := em.Sum() * area; !(math.Abs(l.TotalEmission()-want) <= 1e-9*want) {
			r.Violation("MeshAreaLight/TotalEmission", fmt.Sprintf("%s: TotalEmission %g, emission x area %g", nm.Name, l.TotalEmission(), want), c)
		}
		mm := m - 1
		ss := enumerate(mm, 3, func(g *rand.Rand) interface{} {
			p, n, e := l.SampleLight(g)
			return [3]c3{p, n, e}
		})
		r.Eval(len(ss))
		tris := mesh.TriangleSlice()
		mass := make([]float64, len(tris))
		for _, s := range ss {
			o := s.out.([3]c3)
			found := -1
			for i, t := range tris {
				if t.Normal().Dist(o[1]) < 1e-9 && t.Closest(o[0]).Dist(o[0]) < 1e-9 {
					found = i
				}
			}
			if found < 0 {
				r.Violation("MeshAreaLight/sample-off-surface", fmt.Sprintf("%s: sample %v with normal %v is not on a face with that face's normal", nm.Name, o[0], o[1]), c)
				break
			}
			mass[found] += 1 / float64(len(ss))
			// uniform inside the triangle: with barycentrics (b0,b1,b2) = (1-r1, r1(1-r2), r1 r2): (1-b0)^2 and b2/(b1+b2) are draws
			t := tris[found]
			nn := t[1].Sub(t[0]).Cross(t[2].Sub(t[0]))
			b0 := t[1].Sub(o[0]).Cross(t[2].Sub(o[0])).Dot(nn) / nn.Dot(nn)
			b2 := t[0].Sub(o[0]).Cross(t[1].Sub(o[0])).Dot(nn) / nn.Dot(nn)
			q1, q2 := (1-b0)*(1-b0), b2/(1-b0)
			h1, h2 := false, false
			for _, u := range s.draws {
				if math.Abs(u-q1) < 1e-6 {
					h1 = true
				}
				if math.Abs(u-q2) < 1e-6 {
					h2 = true
				}
			}
			if !h1 || !h2 {
				r.Violation("MeshAreaLight/face-not-uniform", fmt.Sprintf("%s: barycentric position (%.4f,.,%.4f) does not correspond to the draws %v of an area-uniform triangle sampler", nm.Name, b0, b2, s.draws), c)
				break
			}
		}
		for i, t := range tris {
			if !(math.Abs(mass[i]-t.Area()/area) <= 2.0/float64(int(1)<<uint(mm))) {
				r.Violation("MeshAreaLight/face-selection", fmt.Sprintf("%s: face %d receives %.4f of the samples, its share of the area is %.4f", nm.Name, i, mass[i], t.Area()/area), c)
				break
			}
		}
		r.NontrivialAdd(1)
	}
	// joined lights: selection by emitted power
	l1 := render3d.NewSphereAreaLight(&model3d.Sphere{Center: model3d.XYZ(0, 0, 0), Radius: 1}, render3d.NewColor(1))
	l2 := render3d.NewCylinderAreaLight(&model3d.Cylinder{P1: model3d.XYZ(5, 0, 0), P2: model3d.XYZ(5, 0, 2), Radius: 1}, render3d.NewColor(0.5))
	l3 := render3d.NewMeshAreaLight(cat.Closed3(true)[0].Mesh().Translate(model3d.XYZ(-6, 0, 0)), render3d.NewColor(4))
	l4 := render3d.NewSphereAreaLight(&model3d.Sphere{Center: model3d.XYZ(0, 9, 0), Radius: 0.5}, render3d.NewColor(0)) // emits nothing
	parts := []render3d.AreaLight{l1, l2, l3, l4}
	partOf := func(p c3) int {
		switch {
		case p.Y > 5:
			return 3
		case p.X < -3:
			return 2
		case p.X > 3:
			return 1
		}
		return 0
	}
	J := render3d.JoinAreaLights
	// the same four lights in every grouping: flat, and with joined lights as first, middle and last operand
	groupings := []struct {
		name string
		l    render3d.AreaLight
	}{
		{"(1,2,3)", J(l1, l2, l3)},
		{"(1,2,3,dark)", J(l1, l2, l3, l4)},
		{"(dark,1,2,3)", J(l4, l1, l2, l3)},
		{"(1,(2,3))", J(l1, J(l2, l3))},
		{"((1,2),3)", J(J(l1, l2), l3)},
		{"(1,(2),3)", J(l1, J(l2), l3)},
		{"(1,(2,dark),3)", J(l1, J(l2, l4), l3)},
		{"((1,dark),(2,3))", J(J(l1, l4), J(l2, l3))},
		{"(3,(2,(1,dark)))", J(l3, J(l2, J(l1, l4)))},
		{"(2,2,1)", J(l2, l2, l1)},
	}
	for _, g := range groupings {
		c := rcase{What: "JoinAreaLights", Params: g.name}
		var tot float64
		var want [4]float64
		for _, ch := range g.name {
			switch ch {
			case '1':
				want[0] += l1.TotalEmission()
			case '2':
				want[1] += l2.TotalEmission()
			case '3':
				want[2] += l3.TotalEmission()
			}
		}
		for _, w := range want {
			tot += w
		}
		if !(math.Abs(g.l.TotalEmission()-tot) <= 1e-9*tot) {
			r.Violation("JoinAreaLights/TotalEmission", fmt.Sprintf("grouping %s: TotalEmission %g, sum of the parts %g", g.name, g.l.TotalEmission(), tot), c)
		}
		var cnt [4]float64
		// one selection draw per nesting level: all of them are scripted over a lattice (12 bits for a flat join,
		// 7 per level for two levels, 5 for three), the draws of the selected light come from a real generator
		depth, d := 0, 0
		for _, ch := range g.name {
			if ch == '(' {
				d++
				if d > depth {
					depth = d
				}
			} else if ch == ')' {
				d--
			}
		}
		bits := []int{0, 12, 7, 5}[depth]
		per := 1 << uint(bits)
		n := 1
		for l := 0; l < depth; l++ {
			n *= per
		}
		for k := 0; k < n; k++ {
			var vals []int64
			for l, kk := 0, k; l < depth; l++ {
				v, _ := latticeVal(kk%per, bits)
				vals = append(vals, v)
				kk /= per
			}
			src := &mixSource{first: vals, rest: rand.NewSource(int64(k))}
			p, _, _ := g.l.SampleLight(rand.New(src))
			r.Eval(1)
			cnt[partOf(p)]++
		}
		tol := 2.0 * float64(depth) / float64(per)
		for i := range parts {
			if !(math.Abs(cnt[i]/float64(n)-want[i]/tot) <= tol) {
				r.Violation("JoinAreaLights/selection", fmt.Sprintf("grouping %s: light %d is chosen with probability %.4f, its share of the emitted power is %.4f", g.name, i+1, cnt[i]/float64(n), want[i]/tot), c)
				break
			}
		}
		r.NontrivialAdd(1)
	}
}

type mixSource struct {
	first []int64
	rest  rand.Source
}

func (m *mixSource) Int63() int64 {
	if len(m.first) > 0 {
		v := m.first[0]
		m.first = m.first[1:]
		return v
	}
	return m.rest.Int63()
}
func (m *mixSource) Seed(int64) {}

func main() {
	r := ev.Start("C19", "exploration")
	r.Rule("distinct_nontrivial = (material, normal, fixed direction) configurations whose lattice of samples was compared with the reported density, and light configurations whose samples were all attributed to a surface part")
	r.Assume("lattice resolution 2^-m per draw (m as reported): a sampler wrong only on a set of measure below 2^-m per draw is invisible",
		"quadrature tolerance 2e-3 on normalisation and cap masses, 3% on energy integrals",
		"the uniformity of SphereAreaLight (normal-distribution rejection sampler) is not decided; only on-surface, normal and emission are",
		"energy is checked for light arriving from outside at more than 3 degrees from grazing")
	m := 5
	if r.Thorough() {
		m = 6
	}
	r.Set("lattice_bits_per_draw", m)
	if r.Replay != "" {
		materialStage(r, 4)
		lightStage(r, 4)
		r.Finish()
	}
	r.Isolate("materials", func() { materialStage(r, m) })
	r.Isolate("lights", func() { lightStage(r, m) })
	r.Sample(rcase{What: "PhongMaterial", Params: "alpha=100", Normal: []float64{0.6, 0, 0.8}, Fixed: []float64{0, 0, 1}, Draws: []float64{0.515625, 0.203125}})
	r.Finish()
}
