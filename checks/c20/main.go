// C20: a rendered pixel is the mean of its samples of the right scene.
//
// (A) The full product of sampler settings (NumSamples x MinSamples x MaxStddev
// x OversaturatedStddevs x custom convergence functions x antialiasing x image
// sizes) is rendered with a harness object that hands every pixel a known
// emission sequence and counts the samples: the pixel must be the arithmetic
// mean of exactly the emissions it was handed, every pixel must be cast at
// least once and written once.
// (B) Closed-form scenes: camera inside a uniform emitter (RayCaster,
// RecursiveRayTracer depth 0..2, BidirPathTracer) and a matte plane lit by a
// point light with and without quadratic drop-off.
// (C) Cameras: Uncaster(Caster(x,y)) = (x,y) on the pixel lattice for a product
// of origins, targets (incl. straight down z), fields of view and aspect
// ratios; DirectionalCamera frames the whole bounding box.
// (D) Object wrappers: Translate / Rotate / Scale / MatrixMultiply hit where
// the transformed original is hit, with the transformed unit normal.
// (F) Composite objects: JoinedObject, FilteredObject and BVHToObject over every sequence of <= 3 (4) of 7
// objects report the nearest hit among their parts (rays from inside and outside node boxes).
// (E) Worker pool: every interleaving (<= 2 preemptions) of the pixel workers
// for worker counts 1..3 delivers every pixel exactly once (schedule
// exploration of the instrumented build, scenarios in checks/sched/c20.go).
package main

import (
	"fmt"
	"math"
	"strings"
	"sync"

	"github.com/unixpickle/model3d/model3d"
	"github.com/unixpickle/model3d/render3d"

	"verif/lib/ev"
	"verif/lib/schedrun"
)

type c3 = model3d.Coord3D

type ncase struct {
	What   string    `json:"what"`
	Params string    `json:"params"`
	Args   []float64 `json:"args,omitempty"`
}

// ---------------------------------------------------------------- (A) sample means

type seqMaterial struct {
	render3d.LambertMaterial
}

// seqObject surrounds the camera; every Cast is attributed to the pixel the ray goes through and answered with
// the next emission of that pixel's sequence.
type seqObject struct {
	mu      sync.Mutex
	dirs    []c3
	uncast  func(c3) (float64, float64)
	w, h    int
	handed  map[int][]float64
	origin  c3
	strange int
}

func emissionFor(pixel, k int) float64 { return float64((pixel*7+k*k*3+k)%11) / 10 }

func (s *seqObject) Min() c3 { return model3d.XYZ(-100, -100, -100) }
func (s *seqObject) Max() c3 { return model3d.XYZ(100, 100, 100) }
func (s *seqObject) Cast(r *model3d.Ray) (model3d.RayCollision, render3d.Material, bool) {
	d := r.Direction.Normalize()
	best, idx := -2.0, -1
	if s.uncast != nil {
		// jittered rays: un-project and round (exact as long as the jitter stays below half a pixel)
		x, y := s.uncast(r.Origin.Add(r.Direction))
		px, py := int(math.Round(x)), int(math.Round(y))
		if px >= 0 && py >= 0 && px < s.w && py < s.h {
			best, idx = 1, py*s.w+px
		}
	} else {
		for i, c := range s.dirs {
			if v := c.Dot(d); v > best {
				best, idx = v, i
			}
		}
	}
	s.mu.Lock()
	defer s.mu.Unlock()
	if idx < 0 || math.IsNaN(best) || r.Origin != s.origin {
		s.strange++
		idx = 0
	}
	e := emissionFor(idx, len(s.handed[idx]))
	s.handed[idx] = append(s.handed[idx], e)
	return model3d.RayCollision{Scale: 5, Normal: d.Scale(-1)}, &render3d.LambertMaterial{EmissionColor: render3d.NewColor(e)}, true
}

func pixelDirs(cam *render3d.Camera, w, h int) []c3 {
	cast := cam.Caster(float64(w)-1, float64(h)-1)
	var out []c3
	for y := 0; y < h; y++ {
		for x := 0; x < w; x++ {
			out = append(out, cast(float64(x), float64(y)).Normalize())
		}
	}
	return out
}

type convSpec struct {
	name string
	mk   func() func(mean, stddev render3d.Color) bool
}

func convergences() []convSpec {
	return []convSpec{
		{"nil", func() func(mean, stddev render3d.Color) bool { return nil }},
		{"always", func() func(mean, stddev render3d.Color) bool {
			return func(_, _ render3d.Color) bool { return true }
		}},
		{"never", func() func(mean, stddev render3d.Color) bool {
			return func(_, _ render3d.Color) bool { return false }
		}},
		{"true-on-2nd-call", func() func(mean, stddev render3d.Color) bool {
			var mu sync.Mutex
			n := 0
			return func(_, _ render3d.Color) bool {
				mu.Lock()
				defer mu.Unlock()
				n++
				return n%2 == 0
			}
		}},
	}
}

func meanStage(r *ev.Run) {
	cam := render3d.NewCameraAt(model3d.XYZ(0, -3, 0.5), model3d.XYZ(0.2, 0, 0), 0.9)
	type cfg struct {
		ns, min      int
		maxStd, over float64
		conv         convSpec
		aa           float64
		w, h         int
	}
	var cfgs []cfg
	for _, ns := range []int{1, 2, 3, 5, 10} {
		for min := 0; min <= 4; min++ {
			for _, ms := range []float64{0, 0.01, 1e9} {
				for _, ov := range []float64{0, 1} {
					for _, cv := range convergences() {
						for _, aa := range []float64{0, 0.9} {
							for _, sz := range [][2]int{{1, 1}, {2, 1}, {3, 2}} {
								if (sz[0] == 1 || sz[1] == 1) && aa != 0 {
									continue // jittered rays are attributed by un-projection, which needs a two-dimensional pixel lattice
								}
								cfgs = append(cfgs, cfg{ns, min, ms, ov, cv, aa, sz[0], sz[1]})
							}
						}
					}
				}
			}
		}
	}
	ev.Parallel(len(cfgs), 4, func(i int) {
		c := cfgs[i]
		for renderer := 0; renderer < 2; renderer++ {
			name := []string{"RecursiveRayTracer", "BidirPathTracer"}[renderer]
			params := fmt.Sprintf("%s NumSamples=%d MinSamples=%d MaxStddev=%g OversaturatedStddevs=%g Convergence=%s Antialias=%g image %dx%d", name, c.ns, c.min, c.maxStd, c.over, c.conv.name, c.aa, c.w, c.h)
			nc := ncase{"sample-mean", params, nil}
			obj := &seqObject{dirs: pixelDirs(cam, c.w, c.h), w: c.w, h: c.h, handed: map[int][]float64{}, origin: cam.Origin}
			if c.aa != 0 {
				// the harness's own inverse pinhole model (not the library's Uncaster, which is itself under test in the
				// camera stage): p = origin + direction; the direction is resolved along the screen axes and the view axis
				fwd := cam.ScreenX.Cross(cam.ScreenY).Normalize()
				tn := math.Tan(cam.FieldOfView / 2)
				sx, sy := 1.0, 1.0
				if c.w-1 > c.h-1 {
					sy = float64(c.h-1) / float64(c.w-1)
				} else if c.h-1 > c.w-1 {
					sx = float64(c.w-1) / float64(c.h-1)
				}
				w1, h1 := float64(c.w-1), float64(c.h-1)
				obj.uncast = func(p c3) (float64, float64) {
					d := p.Sub(cam.Origin)
					a, b, cc := d.Dot(cam.ScreenX), d.Dot(cam.ScreenY), d.Dot(fwd)
					return (a/cc/(sx*tn) + 1) / 2 * w1, (b/cc/(sy*tn) + 1) / 2 * h1
				}
			}
			img := render3d.NewImage(c.w, c.h)
			for k := range img.Data {
				img.Data[k] = render3d.NewColor(-7)
			}
			r.Eval(1)
			if p := ev.Try(func() {
				if renderer == 0 {
					(&render3d.RecursiveRayTracer{Camera: cam, MaxDepth: 0, NumSamples: c.ns, MinSamples: c.min, MaxStddev: c.maxStd, OversaturatedStddevs: c.over, Convergence: c.conv.mk(), Antialias: c.aa}).Render(img, obj)
				} else {
					light := render3d.NewSphereAreaLight(&model3d.Sphere{Center: model3d.XYZ(50, 50, 50), Radius: 0.001}, render3d.NewColor(0))
					(&render3d.BidirPathTracer{Camera: cam, Light: light, MaxDepth: 1, MaxLightDepth: 1, NumSamples: c.ns, MinSamples: c.min, MaxStddev: c.maxStd, OversaturatedStddevs: c.over, Convergence: c.conv.mk(), Antialias: c.aa}).Render(img, obj)
				}
			}); p != "" {
				r.Violation("sample-mean/panic", params+": "+p, nc)
				continue
			}
			if obj.strange > 0 {
				// a primary ray that starts somewhere else than at the camera, or passes through no pixel of the image
				// (more than half a pixel beyond the outermost pixel centres): a sample of the wrong scene
				r.Violation("stray-ray/"+name, fmt.Sprintf("%s: %d primary rays do not start at the camera or pass through no pixel of the image (jitter %g of a pixel)", params, obj.strange, c.aa), nc)
				continue
			}
			early := false
			for idx := 0; idx < c.w*c.h; idx++ {
				h := obj.handed[idx]
				if len(h) == 0 {
					r.Violation("pixel-not-rendered", fmt.Sprintf("%s: pixel %d was never sampled", params, idx), nc)
					break
				}
				if len(h) > c.ns {
					r.Violation("too-many-samples", fmt.Sprintf("%s: pixel %d received %d samples", params, idx, len(h)), nc)
					break
				}
				if len(h) < c.ns {
					early = true
				}
				sum := 0.0
				for _, e := range h {
					sum += e
				}
				want := sum / float64(len(h))
				got := img.Data[idx]
				if !(math.Abs(got.X-want) <= 1e-12) || got.X != got.Y || got.Y != got.Z {
					r.Violation("sample-mean/"+name, fmt.Sprintf("%s: pixel %d was handed %d samples %v (mean %.6f) but holds %.6f", params, idx, len(h), h, want, got.X), nc)
					break
				}
			}
			if early {
				r.NontrivialAdd(1)
			}
		}
	})
	r.Set("sampler_configurations", len(cfgs)*2)
}

// ---------------------------------------------------------------- (B) closed forms

func closedForms(r *ev.Run) {
	e := render3d.NewColorRGB(0.3, 0.6, 0.2)
	for _, rad := range []float64{2, 30} {
		emitterSphere := &model3d.Sphere{Center: model3d.XYZ(0.1, 0.2, -0.1), Radius: rad}
		emitter := &render3d.ColliderObject{Collider: emitterSphere, Material: &render3d.LambertMaterial{EmissionColor: e}}
		for _, camPos := range []c3{model3d.XYZ(0, 0, 0), model3d.XYZ(0.5, -0.7, 0.3)} {
			cam := render3d.NewCameraAt(camPos, model3d.XYZ(1, 2, 0.5), 1.2)
			renderers := map[string]func(img *render3d.Image){
				"RayCaster": func(img *render3d.Image) { (&render3d.RayCaster{Camera: cam}).Render(img, emitter) },
				"RecursiveRayTracer(depth 0)": func(img *render3d.Image) {
					(&render3d.RecursiveRayTracer{Camera: cam, NumSamples: 3}).Render(img, emitter)
				},
				"RecursiveRayTracer(depth 2)": func(img *render3d.Image) {
					(&render3d.RecursiveRayTracer{Camera: cam, NumSamples: 3, MaxDepth: 2}).Render(img, emitter)
				},
				"BidirPathTracer(depth 2)": func(img *render3d.Image) {
					(&render3d.BidirPathTracer{Camera: cam, Light: render3d.NewSphereAreaLight(emitterSphere, e), NumSamples: 3, MaxDepth: 2, MaxLightDepth: 1}).Render(img, emitter)
				},
			}
			for name, f := range renderers {
				for _, sz := range [][2]int{{4, 3}, {3, 1}, {1, 2}, {1, 1}} {
					img := render3d.NewImage(sz[0], sz[1])
					r.Eval(1)
					nc := ncase{"uniform-emitter", fmt.Sprintf("%s radius %g camera %v image %dx%d", name, rad, camPos, sz[0], sz[1]), nil}
					if p := ev.Try(func() { f(img) }); p != "" {
						r.Violation("uniform-emitter/panic", nc.Params+": "+p, nc)
						continue
					}
					for i, px := range img.Data {
						if !(px.Dist(e) <= 1e-9) {
							r.Violation("uniform-emitter/"+name[:strIdx(name, "(")], fmt.Sprintf("%s: pixel %d = %v inside a non-reflecting emitter of radiance %v", nc.Params, i, px, e), nc)
							break
						}
					}
					r.NontrivialAdd(1)
				}
			}
		}
	}
	// matte plane (two big triangles at z=0) and one point light
	plane := model3d.NewMesh()
	plane.Add(&model3d.Triangle{model3d.XYZ(-50, -50, 0), model3d.XYZ(50, -50, 0), model3d.XYZ(50, 50, 0)})
	plane.Add(&model3d.Triangle{model3d.XYZ(-50, -50, 0), model3d.XYZ(50, 50, 0), model3d.XYZ(-50, 50, 0)})
	diffuse := render3d.NewColorRGB(0.5, 0.25, 0.8)
	obj := &render3d.ColliderObject{Collider: model3d.MeshToCollider(plane), Material: &render3d.LambertMaterial{DiffuseColor: diffuse}}
	cam := render3d.NewCameraAt(model3d.XYZ(0.3, -2, 3), model3d.XYZ(0.1, 0.4, 0), 0.8)
	for _, isz := range [][2]int{{4, 3}, {3, 1}, {1, 1}} {
		iw, ih := isz[0], isz[1]
		// reference pinhole: pixel (x,y) of a w x h image looks along z + x-axis*(2x/(w-1)-1)*sx + ..., the centre pixel
		// of a one-pixel-wide axis looking straight ahead
		refDir := func(x, y int) c3 {
			zAxis := cam.ScreenX.Cross(cam.ScreenY).Normalize().Scale(1 / math.Tan(cam.FieldOfView/2))
			fx, fy := 0.0, 0.0
			if iw > 1 {
				fx = 2*float64(x)/float64(iw-1) - 1
			}
			if ih > 1 {
				fy = 2*float64(y)/float64(ih-1) - 1
			}
			sx, sy := 1.0, 1.0
			if iw-1 > ih-1 {
				sy = float64(ih-1) / float64(iw-1)
			} else if ih-1 > iw-1 {
				sx = float64(iw-1) / float64(ih-1)
			}
			return zAxis.Add(cam.ScreenX.Scale(fx * sx)).Add(cam.ScreenY.Scale(fy * sy))
		}
		for _, quad := range []bool{false, true} {
			for _, lp := range []c3{model3d.XYZ(0, 0, 4), model3d.XYZ(3, -1, 1.5), model3d.XYZ(-2, 2, 0.3)} {
				light := &render3d.PointLight{Origin: lp, Color: render3d.NewColorRGB(0.9, 1.2, 0.4), QuadDropoff: quad}
				for ri, name := range []string{"RayCaster", "RecursiveRayTracer(depth 0)"} {
					img := render3d.NewImage(iw, ih)
					if ri == 0 {
						(&render3d.RayCaster{Camera: cam, Lights: []*render3d.PointLight{light}}).Render(img, obj)
					} else {
						(&render3d.RecursiveRayTracer{Camera: cam, Lights: []*render3d.PointLight{light}, NumSamples: 2}).Render(img, obj)
					}
					r.Eval(1)
					for y := 0; y < ih; y++ {
						for x := 0; x < iw; x++ {
							d := refDir(x, y)
							t := -cam.Origin.Z / d.Z
							p := cam.Origin.Add(d.Scale(t))
							toL := lp.Sub(p)
							cos := toL.Normalize().Z
							want := diffuse.Mul(light.Color).Scale(math.Max(0, cos))
							if quad {
								want = want.Scale(1 / toL.Dot(toL))
							}
							if got := img.At(x, y); !(got.Dist(want) <= 1e-9) {
								r.Violation("matte-plane/"+name[:strIdx(name, "(")], fmt.Sprintf("%s image %dx%d light %v quadratic=%v pixel (%d,%d): %v, diffuse x colour x cos(theta)%s = %v", name, iw, ih, lp, quad, x, y, got, map[bool]string{true: " / d^2", false: ""}[quad], want), ncase{"matte-plane", name, []float64{lp.X, lp.Y, lp.Z}})
							}
						}
					}
					r.NontrivialAdd(1)
				}
			}
		}
	}
}

func strIdx(s, sub string) int {
	for i := 0; i+len(sub) <= len(s); i++ {
		if s[i:i+len(sub)] == sub {
			return i
		}
	}
	return len(s)
}

// ---------------------------------------------------------------- (C) cameras

func cameraStage(r *ev.Run) {
	origins := []c3{model3d.XYZ(0, -3, 0.5), model3d.XYZ(2, 2, 2), model3d.XYZ(0, 0, 5)}
	targets := []c3{model3d.XYZ(0, 0, 0), model3d.XYZ(0.3, 1, -0.2), model3d.XYZ(0, 0, -1), model3d.XYZ(2, 2, -3)}
	for _, o := range origins {
		for _, tg := range targets {
			if o.Dist(tg) < 1e-9 {
				continue
			}
			// a negative field of view is the documented way to make the camera look the other way
			for _, fov := range []float64{0.3, math.Pi / 2, 2.5, 0, -math.Pi / 2, -0.4} {
				for _, sz := range [][2]float64{{4, 4}, {7, 3}, {2, 6}, {1, 1}, {3, 4}, {5, 4}} {
					cam := render3d.NewCameraAt(o, tg, fov)
					r.Eval(1)
					nc := ncase{"camera", fmt.Sprintf("origin %v target %v fov %g image %gx%g", o, tg, fov, sz[0], sz[1]), nil}
					if !(math.Abs(cam.ScreenX.Norm()-1) <= 1e-9) || !(math.Abs(cam.ScreenY.Norm()-1) <= 1e-9) || !(math.Abs(cam.ScreenX.Dot(cam.ScreenY)) <= 1e-9) {
						r.Violation("camera/axes", nc.Params+": screen axes are not orthonormal", nc)
						continue
					}
					cast, uncast := cam.Caster(sz[0], sz[1]), cam.Uncaster(sz[0], sz[1])
					// the centre ray goes to the target
					ctr := cast(sz[0]/2, sz[1]/2).Normalize()
					toTarget := tg.Sub(o).Normalize()
					if fov < 0 {
						toTarget = toTarget.Scale(-1)
					}
					if !(ctr.Dist(toTarget) <= 1e-9) {
						r.Violation("camera/centre", fmt.Sprintf("%s: the central ray %v does not point at the target", nc.Params, ctr), nc)
					}
					// the field of view is the angle subtended by the larger image dimension; the smaller one subtends
					// the same view plane in proportion (square pixels)
					half := math.Abs(math.Tan(cam.FieldOfView / 2))
					wantX, wantY := half, half
					if sz[0] > sz[1] {
						wantY = half * sz[1] / sz[0]
					} else {
						wantX = half * sz[0] / sz[1]
					}
					ctrRay := cast(sz[0]/2, sz[1]/2)
					tanTo := func(x, y float64) float64 {
						d := cast(x, y)
						return d.Cross(ctrRay).Norm() / d.Dot(ctrRay)
					}
					if gx, gy := tanTo(0, sz[1]/2), tanTo(sz[0]/2, 0); !(math.Abs(gx-wantX) <= 1e-9*(1+wantX)) || !(math.Abs(gy-wantY) <= 1e-9*(1+wantY)) {
						r.Violation("camera/field-of-view", fmt.Sprintf("%s: the left and top edges of the image are seen at tan(angle) = %g and %g from the central ray; field of view %g over the larger dimension with square pixels gives %g and %g", nc.Params, gx, gy, cam.FieldOfView, wantX, wantY), nc)
					}
					for x := 0.0; x <= sz[0]; x++ {
						for y := 0.0; y <= sz[1]; y++ {
							for _, depth := range []float64{0.5, 1, 7} {
								p := o.Add(cast(x, y).Scale(depth))
								gx, gy := uncast(p)
								if !(math.Abs(gx-x) <= 1e-9*(1+sz[0])) || !(math.Abs(gy-y) <= 1e-9*(1+sz[1])) {
									r.Violation("camera/uncast", fmt.Sprintf("%s: Uncaster(origin + %g Caster(%g,%g)) = (%g,%g)", nc.Params, depth, x, y, gx, gy), nc)
								}
							}
						}
					}
					r.NontrivialAdd(1)
				}
			}
		}
	}
	// auto-framing
	boxes := []*model3d.Rect{model3d.NewRect(model3d.XYZ(-1, -1, -1), model3d.XYZ(1, 1, 1)), model3d.NewRect(model3d.XYZ(2, -0.5, 0), model3d.XYZ(9, 0.5, 0.25)), model3d.NewRect(model3d.XYZ(0, 0, 0), model3d.XYZ(0.1, 0.2, 3))}
	for _, b := range boxes {
		obj := &render3d.ColliderObject{Collider: b, Material: &render3d.LambertMaterial{}}
		for _, dir := range []c3{model3d.XYZ(0, -1, 0), model3d.XYZ(1, 1, 1).Normalize(), model3d.XYZ(0, 0, 1), model3d.XYZ(-0.3, 0.2, -0.9).Normalize()} {
			for _, fov := range []float64{0.3, math.Pi / 3.6, math.Pi / 2, 2, 0} {
				cam := render3d.DirectionalCamera(obj, dir, fov)
				un := cam.Uncaster(1, 1)
				r.Eval(1)
				nc := ncase{"DirectionalCamera", fmt.Sprintf("box %v..%v direction %v fov %g", b.MinVal, b.MaxVal, dir, fov), nil}
				for _, x := range []float64{b.MinVal.X, b.MaxVal.X} {
					for _, y := range []float64{b.MinVal.Y, b.MaxVal.Y} {
						for _, z := range []float64{b.MinVal.Z, b.MaxVal.Z} {
							p := model3d.XYZ(x, y, z)
							sx, sy := un(p)
							front := p.Sub(cam.Origin).Dot(b.MinVal.Mid(b.MaxVal).Sub(cam.Origin)) > 0
							if !front || sx < 0 || sy < 0 || sx > 1 || sy > 1 {
								r.Violation("DirectionalCamera/not-contained", fmt.Sprintf("%s: corner %v projects to (%.3f,%.3f), outside the image", nc.Params, p, sx, sy), nc)
							}
						}
					}
				}
				r.NontrivialAdd(1)
			}
		}
	}
}

// ---------------------------------------------------------------- (D) transformed objects

func transformStage(r *ev.Run) {
	base := []render3d.Object{
		&render3d.ColliderObject{Collider: &model3d.Sphere{Center: model3d.XYZ(0.3, -0.2, 0.1), Radius: 0.8}, Material: &render3d.LambertMaterial{}},
		&render3d.ColliderObject{Collider: model3d.NewRect(model3d.XYZ(-0.5, -0.3, -0.8), model3d.XYZ(0.6, 0.9, 0.4)), Material: &render3d.LambertMaterial{}},
		&render3d.ColliderObject{Collider: &model3d.Cylinder{P1: model3d.XYZ(-0.4, 0.1, -0.9), P2: model3d.XYZ(0.5, 0.3, 1.1), Radius: 0.45}, Material: &render3d.LambertMaterial{}},
	}
	type xf struct {
		name    string
		wrap    func(render3d.Object) render3d.Object
		apply   func(c3) c3
		linear  func(c3) c3
		normal  func(c3) c3 // how surface normals are carried along (inverse transpose of the linear part), up to length
		normals bool
	}
	axis1, axis2 := model3d.XYZ(1, 2, -1).Normalize(), model3d.XYZ(-2, 0.5, 1).Normalize()
	rot1 := model3d.NewMatrix3Rotation(axis1, 1.1)
	rot2 := model3d.NewMatrix3Rotation(axis2, -0.7)
	gen := &model3d.Matrix3{2, 0.3, -0.1, -0.4, 1.5, 0.2, 0.1, 0.7, -1.2}
	dia := &model3d.Matrix3{1.5, 0, 0, 0, 0.5, 0, 0, 0, -2}
	id := func(c c3) c3 { return c }
	mat := func(name string, m *model3d.Matrix3) xf {
		it := m.Inverse().Transpose()
		// normals of non-similarity maps are not part of the statement ("hit exactly where the transformed original
		// is"); the library carries them with M instead of M^-T, which is noted in DESIGN.md and not judged here
		return xf{name, func(o render3d.Object) render3d.Object { return render3d.MatrixMultiply(o, m) }, m.MulColumn, m.MulColumn, it.MulColumn, false}
	}
	atoms := []xf{
		{"Translate(1,-2,0.5)", func(o render3d.Object) render3d.Object { return render3d.Translate(o, model3d.XYZ(1, -2, 0.5)) }, func(c c3) c3 { return c.Add(model3d.XYZ(1, -2, 0.5)) }, id, id, true},
		{"Rotate(axis1,1.1)", func(o render3d.Object) render3d.Object { return render3d.Rotate(o, axis1, 1.1) }, rot1.MulColumn, rot1.MulColumn, rot1.MulColumn, true},
		{"Rotate(axis2,-0.7)", func(o render3d.Object) render3d.Object { return render3d.Rotate(o, axis2, -0.7) }, rot2.MulColumn, rot2.MulColumn, rot2.MulColumn, true},
		{"Scale(2.5)", func(o render3d.Object) render3d.Object { return render3d.Scale(o, 2.5) }, func(c c3) c3 { return c.Scale(2.5) }, func(c c3) c3 { return c.Scale(2.5) }, id, true},
		{"Scale(0.2)", func(o render3d.Object) render3d.Object { return render3d.Scale(o, 0.2) }, func(c c3) c3 { return c.Scale(0.2) }, func(c c3) c3 { return c.Scale(0.2) }, id, true},
		mat("MatrixMultiply(general)", gen),
		mat("MatrixMultiply(diag(1.5,0.5,-2))", dia),
		// determinant +-1 without being orthogonal (volume-preserving squash, shear), and an orthogonal map given as a
		// plain matrix (mirror): a shortcut keyed on the determinant must not mistake the first two for the third
		mat("MatrixMultiply(diag(2,1,0.5))", &model3d.Matrix3{2, 0, 0, 0, 1, 0, 0, 0, 0.5}),
		mat("MatrixMultiply(shear)", &model3d.Matrix3{1, 0, 0, 0.5, 1, 0, 0, -0.25, 1}),
		func() xf {
			m := &model3d.Matrix3{1, 0, 0, 0, 1, 0, 0, 0, -1}
			x := mat("MatrixMultiply(mirror z)", m)
			x.normals = true
			return x
		}(),
	}
	// instancing: wrapping an object a second time (twice, to make two siblings) must leave the first wrapper - which
	// may still be part of the scene - exactly as it was, and the two siblings must be equal to each other
	{
		probe := func(o render3d.Object) string {
			var sb strings.Builder
			fmt.Fprint(&sb, o.Min(), o.Max())
			for _, org := range []c3{model3d.XYZ(-3.1, 0.2, 0.3), model3d.XYZ(0.4, 4.2, -0.3), model3d.XYZ(2.2, -1.9, 3.7), model3d.XYZ(0.1, 0.05, -0.02)} {
				for _, d := range []c3{model3d.XYZ(1, 0, 0), model3d.XYZ(0, -1, 0), model3d.XYZ(-0.5, 0.4, -0.8), model3d.XYZ(0.3, 0.9, 0.2), model3d.XYZ(-1, -1, -1)} {
					rc, _, ok := o.Cast(&model3d.Ray{Origin: org, Direction: d})
					fmt.Fprint(&sb, ok, rc.Scale, rc.Normal, ";")
				}
			}
			return sb.String()
		}
		for bi, b := range base {
			for _, t1 := range atoms {
				for _, t2 := range atoms {
					r.Eval(1)
					first := t1.wrap(b)
					before := probe(first)
					second := t2.wrap(first)
					third := t2.wrap(first)
					nc := ncase{"transformed-object", fmt.Sprintf("base %d: %s, then %s applied twice to the result", bi, t1.name, t2.name), nil}
					if after := probe(first); after != before {
						r.Violation("transformed-object/wrapped-object-changed", fmt.Sprintf("%s: the object wrapped first answers differently after it has been wrapped again", nc.Params), nc)
						continue
					}
					if probe(second) != probe(third) {
						r.Violation("transformed-object/siblings-differ", fmt.Sprintf("%s: the two wrappers of the same object answer differently", nc.Params), nc)
					}
				}
			}
		}
	}
	// every sequence of up to two (thorough: three) wrappers stacked directly on each other; the last one is outermost
	maxLen := 2
	if r.Thorough() {
		maxLen = 3
	}
	var xfs []xf
	var rec func(cur []xf)
	rec = func(cur []xf) {
		if len(cur) > 0 {
			seq := append([]xf{}, cur...)
			var names []string
			similar := true
			for _, t := range seq {
				names = append(names, t.name)
				similar = similar && t.normals
			}
			xfs = append(xfs, xf{strings.Join(names, " then "),
				func(o render3d.Object) render3d.Object {
					for _, t := range seq {
						o = t.wrap(o)
					}
					return o
				},
				func(c c3) c3 {
					for _, t := range seq {
						c = t.apply(c)
					}
					return c
				},
				func(c c3) c3 {
					for _, t := range seq {
						c = t.linear(c)
					}
					return c
				},
				func(c c3) c3 {
					for _, t := range seq {
						c = t.normal(c)
					}
					return c
				}, similar})
		}
		if len(cur) == maxLen {
			return
		}
		for _, t := range atoms {
			rec(append(cur, t))
		}
	}
	rec(nil)
	r.Set("transform_sequences", len(xfs))
	var dirs []c3
	for x := -1; x <= 1; x++ {
		for y := -1; y <= 1; y++ {
			for z := -1; z <= 1; z++ {
				if x != 0 || y != 0 || z != 0 {
					dirs = append(dirs, model3d.XYZ(float64(x), float64(y), float64(z)))
				}
			}
		}
	}
	dirs = append(dirs, model3d.XYZ(0.3, 1, 0.2), model3d.XYZ(-0.7, 0.1, 0.71), model3d.XYZ(2, -0.2, 0.9))
	nz := math.Copysign(0, -1)
	dirs = append(dirs, model3d.XYZ(-1, nz, nz), model3d.XYZ(nz, 1, nz), model3d.XYZ(1, nz, -1))
	for _, b := range base {
		for _, t := range xfs {
			w := t.wrap(b)
			nc := ncase{"transformed-object", t.name, nil}
			// bounds contain the images of the corners of the original bounds
			for _, ox := range []float64{-1.317, 0.137, 1.409} {
				for _, oy := range []float64{-1.213, -0.071, 1.303} {
					for _, oz := range []float64{-1.417, 0.093, 1.219} {
						o := model3d.XYZ(ox, oy, oz)
						for _, d := range dirs {
							r.Eval(1)
							rc0, _, ok0 := b.Cast(&model3d.Ray{Origin: o, Direction: d})
							// the image of the ray o + t d under x -> apply(x): origin apply(o), direction linear(d)
							rc1, _, ok1 := w.Cast(&model3d.Ray{Origin: t.apply(o), Direction: t.linear(d)})
							if ok0 != ok1 {
								r.Violation("transformed-object/hit", fmt.Sprintf("%s: ray %v->%v hits the original=%v, the image ray hits the transformed object=%v", t.name, o, d, ok0, ok1), nc)
								continue
							}
							if !ok0 {
								continue
							}
							if !(math.Abs(rc0.Scale-rc1.Scale) <= 1e-9*(1+rc0.Scale)) {
								r.Violation("transformed-object/parameter", fmt.Sprintf("%s: ray %v->%v hits the original at %g, the image ray hits the transformed object at %g", t.name, o, d, rc0.Scale, rc1.Scale), nc)
								continue
							}
							if !(math.Abs(rc1.Normal.Norm()-1) <= 1e-9) {
								r.Violation("transformed-object/normal-unit", fmt.Sprintf("%s: normal %v is not a unit vector", t.name, rc1.Normal), nc)
							}
							if t.normals {
								if want := t.normal(rc0.Normal).Normalize(); !(rc1.Normal.Dist(want) <= 1e-7) {
									r.Violation("transformed-object/normal", fmt.Sprintf("%s: normal %v, the transformed original normal is %v", t.name, rc1.Normal, want), nc)
								}
							}
							r.NontrivialAdd(1)
						}
					}
				}
			}
			mn, mx := w.Min(), w.Max()
			bm, bx := b.Min(), b.Max()
			for i := 0; i < 8; i++ {
				c := t.apply(model3d.XYZ(pick(i&1, bm.X, bx.X), pick(i>>1&1, bm.Y, bx.Y), pick(i>>2&1, bm.Z, bx.Z)))
				if c.X < mn.X-1e-9 || c.Y < mn.Y-1e-9 || c.Z < mn.Z-1e-9 || c.X > mx.X+1e-9 || c.Y > mx.Y+1e-9 || c.Z > mx.Z+1e-9 {
					r.Violation("transformed-object/bounds", fmt.Sprintf("%s: image %v of a corner of the original bounds is outside the wrapper's bounds %v..%v", t.name, c, mn, mx), nc)
				}
			}
		}
	}
}

func pick(b int, lo, hi float64) float64 {
	if b == 0 {
		return lo
	}
	return hi
}

// ---------------------------------------------------------------- (F) composite objects (same alphabet as C08)

type tagMaterial struct {
	render3d.LambertMaterial
	tag int
}

func objAlphabet() []render3d.Object {
	mk := func(c model3d.Collider, tag int) render3d.Object {
		return &render3d.ColliderObject{Collider: c, Material: &tagMaterial{tag: tag}}
	}
	return []render3d.Object{
		mk(&model3d.Sphere{Center: model3d.XYZ(0, 0, 0), Radius: 0.5}, 0),
		mk(&model3d.Sphere{Center: model3d.XYZ(2, 0, 0), Radius: 0.5}, 1),
		mk(&model3d.Sphere{Center: model3d.XYZ(2, 0, 0), Radius: 0.5}, 2),                             // duplicate geometry
		mk(&model3d.Sphere{Center: model3d.XYZ(1, 0, 0), Radius: 1}, 3),                               // overlaps 0 and 1
		mk(&model3d.Triangle{model3d.XYZ(-1, -1, 1), model3d.XYZ(3, -1, 1), model3d.XYZ(1, 3, 1)}, 4), // flat box
		mk(&model3d.Sphere{Center: model3d.XYZ(6, 0.2, 0.1), Radius: 0.5}, 5),                         // far right: the joint box is long and contains many origins
		mk(&model3d.Sphere{Center: model3d.XYZ(0, 4, 0), Radius: 0.75}, 6),
	}
}

func checkObjSet(r *ev.Run, set []int, alpha []render3d.Object) {
	objs := make([]render3d.Object, len(set))
	for i, k := range set {
		objs[i] = alpha[k]
	}
	g := append([]render3d.Object{}, objs...)
	model3d.GroupBounders(g)
	idx := []struct {
		name string
		o    render3d.Object
	}{
		{"BVHToObject(NewBVHAreaDensity)", render3d.BVHToObject(model3d.NewBVHAreaDensity(append([]render3d.Object{}, objs...)))},
		{"JoinedObject", render3d.JoinedObject(objs)},
		{"FilteredObject(JoinedObject)", &render3d.FilteredObject{Object: render3d.JoinedObject(objs), Bounds: model3d.BoundsRect(render3d.JoinedObject(objs))}},
	}
	var origins []c3
	for _, x := range []float64{-2, 0, 1, 2, 3.5, 6, 8} {
		for _, y := range []float64{-2, 0, 0.2, 2, 4} {
			for _, z := range []float64{-2, 0, 0.9, 3} {
				origins = append(origins, model3d.XYZ(x, y, z))
			}
		}
	}
	for _, o := range origins {
		for _, d := range compDirs() {
			ray := &model3d.Ray{Origin: o, Direction: d}
			best := math.Inf(1)
			found := false
			for _, ob := range objs {
				if c, _, ok := ob.Cast(ray); ok && c.Scale < best {
					best, found = c.Scale, true
				}
			}
			for _, ix := range idx {
				r.Eval(1)
				c, mat, ok := ix.o.Cast(ray)
				if ok != found || (ok && c.Scale != best) {
					r.Violation("composite/"+ix.name+"/Cast", fmt.Sprintf("objects %v, ray %v -> %v: hierarchy hit=%v at %v, nearest hit among the parts=%v at %v", set, o, d, ok, c.Scale, found, best),
						ncase{"composite", fmt.Sprintf("%s objects %v", ix.name, set), []float64{o.X, o.Y, o.Z, d.X, d.Y, d.Z}})
					continue
				}
				if ok {
					// the material must belong to a part that is hit at that distance
					tm, _ := mat.(*tagMaterial)
					good := false
					for _, ob := range objs {
						if c2, m2, ok2 := ob.Cast(ray); ok2 && c2.Scale == best && m2 == render3d.Material(tm) {
							good = true
						}
					}
					if tm == nil || !good {
						r.Violation("composite/"+ix.name+"/Cast-material", fmt.Sprintf("objects %v, ray %v -> %v: material does not belong to a part hit at the nearest distance", set, o, d),
							ncase{"composite", fmt.Sprintf("%s objects %v", ix.name, set), []float64{o.X, o.Y, o.Z, d.X, d.Y, d.Z}})
					}
				}
			}
		}
	}
	if len(set) >= 2 {
		r.NontrivialKey(fmt.Sprint("obj", set))
	}
}

func compDirs() []c3 {
	var out []c3
	for x := -1; x <= 1; x++ {
		for y := -1; y <= 1; y++ {
			for z := -1; z <= 1; z++ {
				if x != 0 || y != 0 || z != 0 {
					out = append(out, model3d.XYZ(float64(x), float64(y), float64(z)))
				}
			}
		}
	}
	return append(out, model3d.XYZ(0.3, 1, 0.2), model3d.XYZ(-0.7, 0.1, 0.71), model3d.XYZ(2, 1, 0.5))
}

func compositeStage(r *ev.Run) {
	alpha := objAlphabet()
	var sets [][]int
	var rec func(cur []int)
	max := 3
	if r.Thorough() {
		max = 4
	}
	rec = func(cur []int) {
		if len(cur) > 0 {
			sets = append(sets, append([]int{}, cur...))
		}
		if len(cur) == max {
			return
		}
		for i := range alpha {
			rec(append(append([]int{}, cur...), i))
		}
	}
	rec(nil)
	if !r.Thorough() {
		// plus every multiset of four objects (canonical order)
		var rec4 func(start int, cur []int)
		rec4 = func(start int, cur []int) {
			if len(cur) == 4 {
				sets = append(sets, append([]int{}, cur...))
				return
			}
			for i := start; i < len(alpha); i++ {
				rec4(i, append(append([]int{}, cur...), i))
			}
		}
		rec4(0, nil)
	}
	ev.Parallel(len(sets), 0, func(i int) { checkObjSet(r, sets[i], alpha) })
	r.Set("composite_object_sets", len(sets))
}

func main() {
	r := ev.Start("C20", "model_checking")
	r.Rule("distinct_nontrivial = sampler configurations in which at least one pixel stopped early (the mean is then taken over fewer than NumSamples samples), closed-form scenes, camera configurations, transformed-object rays that hit, and worker-pool scenarios with more than one schedule")
	r.Assume("the harness attributes a ray to the pixel it passes through (round of the un-projected direction); antialias jitter stays within half a pixel",
		"closed forms: the emitter does not reflect (zero diffuse colour); matte plane: Lambert BSDF, no shadows",
		"MatrixMultiply with a general matrix is judged on the hit parameter only (its normal is only claimed for rotations and uniform scalings)")
	if r.Replay != "" {
		meanStage(r)
		closedForms(r)
		sizeStage(r, false)
		cameraStage(r)
		transformStage(r)
		compositeStage(r)
		r.Finish()
	}
	r.Isolate("sample-means", func() { meanStage(r) })
	r.Isolate("closed-forms", func() { closedForms(r) })
	r.Isolate("image-sizes", func() { sizeStage(r, r.Thorough()) })
	r.Isolate("cameras", func() { cameraStage(r) })
	r.Isolate("transforms", func() { transformStage(r) })
	r.Isolate("composites", func() { compositeStage(r) })
	// worker pool under the scheduler
	schedrun.Build(false)
	names := schedrun.List("C20")
	bound := 2
	if r.Thorough() {
		bound = 3
	}
	var jobs []schedrun.Job
	for _, n := range names {
		jobs = append(jobs, schedrun.Job{Scenario: n, Bound: bound, MaxExecs: 2000000})
	}
	results := schedrun.Explore(r, jobs)
	schedrun.Report(r, results)
	r.Set("preemption_bound", bound)
	r.Set("worker_pool_scenarios", len(names))
	r.Sample(ncase{"sample-mean", "RecursiveRayTracer NumSamples=5 MinSamples=2 MaxStddev=1e9 image 3x2", nil})
	r.Finish()
}
