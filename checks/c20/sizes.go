package main

import (
	"fmt"
	"sync"

	"github.com/unixpickle/model3d/model3d"
	"github.com/unixpickle/model3d/render3d"

	"verif/lib/ev"
)

// sizeStage: the pixel dispatcher over every image size of a range, not only the handful of small sizes of the other
// stages. A dispatch order that is not a bijection for some pixel counts (a stride that shares a factor with the
// count, a block split that drops a remainder, a buffer that wraps) shows only at those counts. The ray caster is
// used because it casts exactly one, un-jittered ray per pixel: rays are attributed to pixels by exact equality with
// the camera's own direction for that pixel; every pixel must be cast exactly once and hold the emission.

type countingEmitter struct {
	mu    sync.Mutex
	count map[c3]int
	e     render3d.Color
}

func (c *countingEmitter) Min() c3 { return model3d.XYZ(-100, -100, -100) }
func (c *countingEmitter) Max() c3 { return model3d.XYZ(100, 100, 100) }
func (c *countingEmitter) Cast(r *model3d.Ray) (model3d.RayCollision, render3d.Material, bool) {
	c.mu.Lock()
	c.count[r.Direction]++
	c.mu.Unlock()
	return model3d.RayCollision{Scale: 5, Normal: r.Direction.Normalize().Scale(-1)}, &render3d.LambertMaterial{EmissionColor: c.e}, true
}

func sizeStage(r *ev.Run, th bool) {
	var sizes [][2]int
	maxLine, max2, max3, maxSq := 1100, 560, 380, 36
	if th {
		maxLine, max2, max3, maxSq = 4200, 2100, 1400, 70
	}
	for n := 1; n <= maxLine; n++ {
		sizes = append(sizes, [2]int{n, 1})
		if n > 1 && (n <= 300 || n%7 == 0) {
			sizes = append(sizes, [2]int{1, n})
		}
	}
	for n := 1; n <= max2; n++ {
		sizes = append(sizes, [2]int{n, 2}, [2]int{2, n})
	}
	for n := 1; n <= max3; n++ {
		sizes = append(sizes, [2]int{n, 3})
	}
	for a := 3; a <= maxSq; a++ {
		for b := 3; b <= maxSq; b++ {
			sizes = append(sizes, [2]int{a, b})
		}
	}
	e := render3d.NewColorRGB(0.3, 0.6, 0.2)
	cam := render3d.NewCameraAt(model3d.XYZ(0.5, -0.7, 0.3), model3d.XYZ(1, 2, 0.5), 1.2)
	ev.Parallel(len(sizes), 4, func(i int) {
		w, h := sizes[i][0], sizes[i][1]
		r.Eval(1)
		nc := ncase{"image-size", fmt.Sprintf("RayCaster image %dx%d", w, h), []float64{float64(w), float64(h)}}
		obj := &countingEmitter{count: map[c3]int{}, e: e}
		img := render3d.NewImage(w, h)
		if p := ev.Try(func() { (&render3d.RayCaster{Camera: cam}).Render(img, obj) }); p != "" {
			r.Violation("image-size/panic", nc.Params+": "+p, nc)
			return
		}
		cast := cam.Caster(float64(w)-1, float64(h)-1)
		seen := 0
		for y := 0; y < h; y++ {
			for x := 0; x < w; x++ {
				d := cast(float64(x), float64(y))
				n := obj.count[d]
				if n != 1 {
					// two pixels may share a direction only if the camera maps them to the same ray, which it does not
					r.Violation("image-size/pixel-cast-count", fmt.Sprintf("%s: the ray of pixel (%d,%d) was cast %d times", nc.Params, x, y, n), nc)
					return
				}
				seen += n
				if px := img.Data[y*w+x]; !(px.Dist(e) <= 1e-9) {
					r.Violation("image-size/pixel-value", fmt.Sprintf("%s: pixel (%d,%d) = %v inside a non-reflecting emitter of radiance %v", nc.Params, x, y, px, e), nc)
					return
				}
			}
		}
		total := 0
		for _, n := range obj.count {
			total += n
		}
		if total != w*h {
			r.Violation("image-size/pixel-cast-count", fmt.Sprintf("%s: %d rays cast for %d pixels", nc.Params, total, w*h), nc)
		}
	})
	r.Set("image_sizes", len(sizes))
	r.NontrivialAdd(len(sizes))
}
