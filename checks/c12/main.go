// C12: meshing results do not depend on parallelism, buffering or filtering.
// (A) full product of configurations on the plain build (exhaustive over the
// stated alphabets), (B) all goroutine interleavings of the worker pools up to
// a preemption bound on the instrumented build, (C) free-running -race pass.
package main

import (
	"bytes"
	"encoding/json"
	"fmt"
	"math"
	"os/exec"
	"path/filepath"
	"runtime"
	"strings"

	"github.com/unixpickle/model3d/model2d"
	"github.com/unixpickle/model3d/model3d"

	"verif/lib/ev"
	"verif/lib/lat"
	"verif/lib/meshq"
	"verif/lib/schedrun"
)

type cfgCase struct {
	Kind   string  `json:"kind"`
	Solid  string  `json:"solid"`
	Procs  int     `json:"gomaxprocs"`
	Filter string  `json:"filter,omitempty"`
	Delta  float64 `json:"delta"`
	Extra  string  `json:"extra,omitempty"`
}

type solid3 struct {
	name  string
	s     model3d.Solid
	delta float64
}

func solids3(th bool) []solid3 {
	var out []solid3
	// every 2x2x2 pattern embedded at three z offsets of a taller lattice would be 768 solids; take the
	// patterns with ambiguous faces plus singles (the filter/parallel code never looks at bits, only at block geometry)
	pats := []uint64{0x01, 0x80, 0x69, 0x96, 0x3c, 0xa5, 0x7e, 0xff, 0x18}
	if th {
		pats = nil
		for b := uint64(1); b < 256; b++ {
			pats = append(pats, b)
		}
	}
	for _, b := range pats {
		for _, zoff := range []int{0, 3} {
			n := [3]int{4, 3, 6}
			s := lat.NewSolid3(model3d.XYZ(0.1, -0.2, 0.3), 0.5, n, 0)
			for i := 0; i < 8; i++ {
				if b&(1<<uint(i)) != 0 {
					x, y, z := i&1, (i>>1)&1, (i>>2)&1
					s.Bits[(x+1)+n[0]*((y+1)+n[1]*(z+zoff+1))] = true
				}
			}
			out = append(out, solid3{fmt.Sprintf("lattice-4x3x6/pattern%02x/z%d", b, zoff), s, 0.5})
		}
	}
	sph := &model3d.Sphere{Center: model3d.XYZ(0.1, 0.2, -0.1), Radius: 1}
	out = append(out,
		solid3{"sphere", sph, 0.3},
		solid3{"two-spheres", model3d.JoinedSolid{sph, &model3d.Sphere{Center: model3d.XYZ(1.2, 0, 0), Radius: 0.6}}, 0.3},
		solid3{"torus", &model3d.Torus{Center: model3d.XYZ(0, 0, 0), Axis: model3d.XYZ(0.2, 0.3, 1).Normalize(), OuterRadius: 1, InnerRadius: 0.4}, 0.25},
		solid3{"box-minus-sphere", &model3d.SubtractedSolid{Positive: model3d.NewRect(model3d.XYZ(-1, -1, -1), model3d.XYZ(1, 1.2, 0.9)), Negative: &model3d.Sphere{Center: model3d.XYZ(1, 1, 1), Radius: 0.9}}, 0.3},
		solid3{"thin-plate", model3d.NewRect(model3d.XYZ(-1, -1, 0), model3d.XYZ(1, 1, 0.1)), 0.3},
		solid3{"cylinder", &model3d.Cylinder{P1: model3d.XYZ(0, 0, -1), P2: model3d.XYZ(0.3, 0.2, 1), Radius: 0.5}, 0.25},
	)
	return out
}

// boxes of the reference triangles, for the conservative reference filter
type aabb struct{ min, max model3d.Coord3D }

func triBoxes(m *model3d.Mesh) []aabb {
	var out []aabb
	m.Iterate(func(t *model3d.Triangle) { out = append(out, aabb{t.Min(), t.Max()}) })
	return out
}

func refFilter(boxes []aabb, dilate float64) func(*model3d.Rect) bool {
	return func(r *model3d.Rect) bool {
		for _, b := range boxes {
			if b.min.X-dilate <= r.MaxVal.X && b.max.X+dilate >= r.MinVal.X &&
				b.min.Y-dilate <= r.MaxVal.Y && b.max.Y+dilate >= r.MinVal.Y &&
				b.min.Z-dilate <= r.MaxVal.Z && b.max.Z+dilate >= r.MinVal.Z {
				return true
			}
		}
		return false
	}
}

func faces(m *model3d.Mesh) string { return meshq.FaceMultiset3(m.TriangleSlice(), false) }

func configs3(r *ev.Run) {
	procsList := []int{1, 2, 3, 5, 16}
	for _, sd := range solids3(r.Thorough()) {
		runtime.GOMAXPROCS(1)
		ref := model3d.MarchingCubes(sd.s, sd.delta)
		refS := faces(ref)
		refSearch := faces(model3d.MarchingCubesSearch(sd.s, sd.delta, 3))
		boxes := triBoxes(ref)
		// boxes of the searched mesh differ slightly: vertices move along lattice edges, which stay inside the same cubes
		nTiles := 0
		filters := map[string]func(*model3d.Rect) bool{
			"always-true":        func(*model3d.Rect) bool { return true },
			"reference-aabb":     refFilter(boxes, 0),
			"reference-aabb+d":   refFilter(boxes, sd.delta),
			"reference-aabb+big": refFilter(boxes, 5*sd.delta),
		}
		dcRef := ""
		for _, procs := range procsList {
			runtime.GOMAXPROCS(procs)
			for rep := 0; rep < 2; rep++ {
				r.Eval(1)
				if got := faces(model3d.MarchingCubes(sd.s, sd.delta)); got != refS {
					r.Violation("config/MarchingCubes/gomaxprocs", "face set differs from the GOMAXPROCS=1 run", cfgCase{"MarchingCubes", sd.name, procs, "", sd.delta, ""})
				}
			}
			for fname, f := range filters {
				r.Eval(1)
				cnt := 0
				g := func(rc *model3d.Rect) bool {
					res := f(rc)
					if !res {
						cnt++
					}
					return res
				}
				if got := faces(model3d.MarchingCubesFilter(sd.s, g, sd.delta)); got != refS {
					r.Violation("config/MarchingCubesFilter/"+fname, "face set differs from unfiltered marching cubes", cfgCase{"MarchingCubesFilter", sd.name, procs, fname, sd.delta, ""})
				}
				nTiles += cnt
				if cnt > 0 {
					r.NontrivialKey(fmt.Sprintf("mc-filter/%s/%s/%d", sd.name, fname, procs))
				}
				if fname != "reference-aabb" {
					continue
				}
				r.Eval(1)
				if got := faces(model3d.MarchingCubesSearchFilter(sd.s, refFilter(boxes, sd.delta), sd.delta, 3)); got != refSearch {
					r.Violation("config/MarchingCubesSearchFilter", "face set differs from MarchingCubesSearch", cfgCase{"MarchingCubesSearchFilter", sd.name, procs, "reference-aabb+d", sd.delta, ""})
				}
			}
			// dual contouring: MaxGos x buffer sizes
			for _, maxGos := range []int{0, 1, 2, 3, 8} {
				for _, buf := range []int{0, 1, 5 * 64, 6 * 64} {
					for _, mode := range []model3d.DualContouringTriangleMode{model3d.DualContouringTriangleModeMaxMinArea, model3d.DualContouringTriangleModeSharpest} {
						if procs != 1 && procs != 3 && (maxGos != 0) {
							continue // MaxGos overrides GOMAXPROCS; vary GOMAXPROCS only through MaxGos=0
						}
						if mode != model3d.DualContouringTriangleModeMaxMinArea && (buf != 1 || maxGos > 2) {
							continue
						}
						r.Eval(1)
						dc := &model3d.DualContouring{S: model3d.SolidSurfaceEstimator{Solid: sd.s}, Delta: sd.delta, MaxGos: maxGos, BufferSize: buf, Clip: true, TriangleMode: mode}
						var got string
						if p := ev.Try(func() { got = faces(dc.Mesh()) }); p != "" {
							r.Violation("config/DualContouring/panic", "panic: "+p, cfgCase{"DualContouring", sd.name, procs, "", sd.delta, fmt.Sprintf("MaxGos=%d BufferSize=%d mode=%d", maxGos, buf, mode)})
							continue
						}
						key := fmt.Sprintf("%d", mode)
						if mode == model3d.DualContouringTriangleModeMaxMinArea {
							if dcRef == "" {
								dcRef = got
							}
							if got != dcRef {
								r.Violation("config/DualContouring/buffer-or-parallelism", "face set differs from the MaxGos=GOMAXPROCS=1, full-buffer run", cfgCase{"DualContouring", sd.name, procs, "", sd.delta, fmt.Sprintf("MaxGos=%d BufferSize=%d", maxGos, buf)})
							}
						}
						if buf != 0 {
							r.NontrivialKey("dc-shift/" + sd.name + "/" + key + fmt.Sprint(maxGos, buf))
						}
					}
				}
			}
		}
		r.Sample(cfgCase{"MarchingCubesFilter", sd.name, 3, "reference-aabb", sd.delta, fmt.Sprintf("tiles rejected by filters over all configs: %d", nTiles)})
	}
	// worker-count sweep: every GOMAXPROCS from 1 to 32 (thorough 48) on solids of 1-4 lattice cells in one
	// direction and 4-13 in the others. Work that is divided among workers by integer division (rows per
	// goroutine, slabs per goroutine) goes wrong only where the worker count does not divide the item count,
	// or exceeds it; the fixed list {1,2,3,5,16} meets few such pairs.
	maxProcs := 32
	if r.Thorough() {
		maxProcs = 48
	}
	var sweep []solid3
	for thick := 1; thick <= 4; thick++ {
		for rows := 4; rows <= 13; rows += 3 {
			for ax := 0; ax < 3; ax++ {
				ext := [3]float64{float64(rows) - 0.5, float64(rows+thick) - 0.5, float64(rows+1) - 0.5}
				ext[ax] = float64(thick) + 0.5
				mn := model3d.XYZ(0.2, -0.3, 0.1)
				sweep = append(sweep, solid3{fmt.Sprintf("plate %d cells thick along axis %d, %d rows", thick, ax, rows),
					model3d.NewRect(mn, mn.Add(model3d.XYZ(ext[0], ext[1], ext[2]).Scale(0.25))), 0.25})
			}
		}
	}
	sweep = append(sweep, solid3{"sphere", &model3d.Sphere{Center: model3d.XYZ(0.1, 0.2, -0.1), Radius: 1}, 0.3})
	for _, sd := range sweep {
		runtime.GOMAXPROCS(1)
		refS := faces(model3d.MarchingCubes(sd.s, sd.delta))
		refSearch := faces(model3d.MarchingCubesSearch(sd.s, sd.delta, 2))
		if refS == faces(model3d.NewMesh()) {
			// nothing to compare (the plates are built to contain lattice points; an empty reference mesh is a
			// matter for the meshing properties, not for this one)
			r.Skipped(1)
			continue
		}
		for procs := 2; procs <= maxProcs; procs++ {
			runtime.GOMAXPROCS(procs)
			r.Eval(2)
			if got := faces(model3d.MarchingCubes(sd.s, sd.delta)); got != refS {
				r.Violation("config/MarchingCubes/gomaxprocs", "face set differs from the GOMAXPROCS=1 run", cfgCase{"MarchingCubes", sd.name, procs, "", sd.delta, "worker-count sweep"})
				break
			}
			if got := faces(model3d.MarchingCubesSearch(sd.s, sd.delta, 2)); got != refSearch {
				r.Violation("config/MarchingCubesSearch/gomaxprocs", "face set differs from the GOMAXPROCS=1 run", cfgCase{"MarchingCubesSearch", sd.name, procs, "", sd.delta, "worker-count sweep"})
				break
			}
		}
		r.NontrivialKey("sweep/" + sd.name)
	}
	// the same sweep for dual contouring's own worker count (MaxGos 1..24, default and minimal buffer) and for
	// the filter pools of marching cubes under every GOMAXPROCS
	for i, sd := range sweep {
		if i%5 != 0 && i != len(sweep)-1 {
			continue
		}
		runtime.GOMAXPROCS(1)
		mk := func(maxGos, buf int) string {
			return faces((&model3d.DualContouring{S: model3d.SolidSurfaceEstimator{Solid: sd.s}, Delta: sd.delta, MaxGos: maxGos, BufferSize: buf, Clip: true}).Mesh())
		}
		dcRef := mk(1, 0)
		refS := faces(model3d.MarchingCubes(sd.s, sd.delta))
		for gos := 2; gos <= 24; gos++ {
			for _, buf := range []int{0, 1} {
				r.Eval(1)
				var got string
				if p := ev.Try(func() { got = mk(gos, buf) }); p != "" {
					r.Violation("config/DualContouring/panic", "panic: "+p, cfgCase{"DualContouring", sd.name, 1, "", sd.delta, fmt.Sprintf("MaxGos=%d BufferSize=%d, worker-count sweep", gos, buf)})
				} else if got != dcRef {
					r.Violation("config/DualContouring/buffer-or-parallelism", "face set differs from the MaxGos=1, full-buffer run", cfgCase{"DualContouring", sd.name, 1, "", sd.delta, fmt.Sprintf("MaxGos=%d BufferSize=%d, worker-count sweep", gos, buf)})
				}
			}
		}
		for procs := 2; procs <= maxProcs; procs++ {
			runtime.GOMAXPROCS(procs)
			r.Eval(1)
			if got := faces(model3d.MarchingCubesFilter(sd.s, func(*model3d.Rect) bool { return true }, sd.delta)); got != refS {
				r.Violation("config/MarchingCubesFilter/always-true", "face set differs from unfiltered marching cubes", cfgCase{"MarchingCubesFilter", sd.name, procs, "always-true", sd.delta, "worker-count sweep"})
				break
			}
		}
		r.NontrivialKey("sweep-dc/" + sd.name)
	}
	r.Set("gomaxprocs_sweep", fmt.Sprintf("1..%d on %d solids", maxProcs, len(sweep)))
	// lattices large enough to cross the block-splitting thresholds of the filter pools (a queued block is
	// split again by its worker only when the lattice has more than 64*4096 cells)
	for _, sd := range []solid3{
		{"large-lattice-sphere", &model3d.Sphere{Center: model3d.XYZ(0.1, 0.2, -0.1), Radius: 1}, 0.03},
		{"large-lattice-two-spheres", model3d.JoinedSolid{&model3d.Sphere{Center: model3d.XYZ(0, 0, 0), Radius: 0.5}, &model3d.Sphere{Center: model3d.XYZ(2.2, 0.3, 0.4), Radius: 0.4}}, 0.035},
	} {
		runtime.GOMAXPROCS(16)
		ref := model3d.MarchingCubes(sd.s, sd.delta)
		refS := faces(ref)
		boxes := triBoxes(ref)
		// coarse spatial hash of the boxes keeps the reference filter fast
		grid := map[[3]int][]aabb{}
		cell := 8 * sd.delta
		key := func(c model3d.Coord3D) [3]int {
			return [3]int{int(math.Floor(c.X / cell)), int(math.Floor(c.Y / cell)), int(math.Floor(c.Z / cell))}
		}
		for _, b := range boxes {
			lo, hi := key(b.min), key(b.max)
			for x := lo[0]; x <= hi[0]; x++ {
				for y := lo[1]; y <= hi[1]; y++ {
					for z := lo[2]; z <= hi[2]; z++ {
						grid[[3]int{x, y, z}] = append(grid[[3]int{x, y, z}], b)
					}
				}
			}
		}
		fastRef := func(rc *model3d.Rect) bool {
			lo, hi := key(rc.MinVal), key(rc.MaxVal)
			for x := lo[0]; x <= hi[0]; x++ {
				for y := lo[1]; y <= hi[1]; y++ {
					for z := lo[2]; z <= hi[2]; z++ {
						if refFilter(grid[[3]int{x, y, z}], 0)(rc) {
							return true
						}
					}
				}
			}
			return false
		}
		for _, procs := range []int{1, 3, 16} {
			runtime.GOMAXPROCS(procs)
			for fname, f := range map[string]func(*model3d.Rect) bool{"always-true": func(*model3d.Rect) bool { return true }, "reference-aabb": fastRef} {
				r.Eval(1)
				r.NontrivialKey(fmt.Sprintf("large/%s/%s/%d", sd.name, fname, procs))
				if got := faces(model3d.MarchingCubesFilter(sd.s, f, sd.delta)); got != refS {
					r.Violation("config/MarchingCubesFilter/"+fname, "face set differs from unfiltered marching cubes on a lattice above the block-splitting threshold", cfgCase{"MarchingCubesFilter", sd.name, procs, fname, sd.delta, ""})
				}
			}
		}
	}
	runtime.GOMAXPROCS(16)
	// unions of closed dyadic boxes whose faces lie exactly on grid planes, with the tightest truthful filter there
	// is: "the region touches the surface of one of the boxes" (closed sets). A block whose box is even slightly
	// smaller than the cells it stands for is then skipped although its cells are cut by a face on its own border.
	for _, bs := range [][][2]model3d.Coord3D{
		{{model3d.XYZ(0, 0, 0), model3d.XYZ(1, 1, 1)}, {model3d.XYZ(-1, -1, -1), model3d.XYZ(-0.25, -0.25, -0.25)}},
		{{model3d.XYZ(0, 0, 0.5), model3d.XYZ(2, 1, 1.5)}, {model3d.XYZ(-1.5, -1.5, -1.5), model3d.XYZ(-0.5, -0.5, -0.5)}},
		{{model3d.XYZ(-1, -1, -1), model3d.XYZ(1, 1, 0)}, {model3d.XYZ(-0.5, -0.5, 0), model3d.XYZ(0.5, 0.5, 1)}, {model3d.XYZ(1, -1, -1), model3d.XYZ(2, 0, 1)}},
	} {
		var js model3d.JoinedSolid
		for _, b := range bs {
			js = append(js, model3d.NewRect(b[0], b[1]))
		}
		touches := func(rc *model3d.Rect) bool {
			for _, b := range bs {
				// closed boxes intersect ...
				if rc.MinVal.X > b[1].X || rc.MinVal.Y > b[1].Y || rc.MinVal.Z > b[1].Z || rc.MaxVal.X < b[0].X || rc.MaxVal.Y < b[0].Y || rc.MaxVal.Z < b[0].Z {
					continue
				}
				// ... and the region is not strictly inside the box
				if !(rc.MinVal.X > b[0].X && rc.MinVal.Y > b[0].Y && rc.MinVal.Z > b[0].Z && rc.MaxVal.X < b[1].X && rc.MaxVal.Y < b[1].Y && rc.MaxVal.Z < b[1].Z) {
					return true
				}
			}
			return false
		}
		for _, delta := range []float64{0.25, 0.125} {
			runtime.GOMAXPROCS(1)
			want := faces(model3d.MarchingCubes(js, delta))
			wantSearch := faces(model3d.MarchingCubesSearch(js, delta, 2))
			for _, procs := range []int{1, 3} {
				runtime.GOMAXPROCS(procs)
				r.Eval(2)
				rejected := 0
				g := func(rc *model3d.Rect) bool {
					v := touches(rc)
					if !v {
						rejected++
					}
					return v
				}
				c := cfgCase{"MarchingCubesFilter", fmt.Sprintf("union of %d dyadic boxes", len(bs)), procs, "box-surfaces", delta, ""}
				if got := faces(model3d.MarchingCubesFilter(js, g, delta)); got != want {
					r.Violation("config/MarchingCubesFilter/box-surfaces", "face set differs from unfiltered marching cubes (filter: the region touches the surface of a box)", c)
				}
				if got := faces(model3d.MarchingCubesSearchFilter(js, g, delta, 2)); got != wantSearch {
					r.Violation("config/MarchingCubesSearchFilter/box-surfaces", "face set differs from MarchingCubesSearch (filter: the region touches the surface of a box)", c)
				}
				if rejected > 0 {
					r.NontrivialKey(fmt.Sprintf("mc-filter-box-surfaces/%d/%v/%d", len(bs), delta, procs))
				}
			}
		}
	}
	runtime.GOMAXPROCS(16)
	// coarse-to-fine on solids whose features are larger than the coarse spacing
	for _, sd := range []solid3{
		{"sphere", &model3d.Sphere{Center: model3d.XYZ(0.1, 0.2, -0.1), Radius: 1}, 0.25},
		{"box", model3d.NewRect(model3d.XYZ(-1, -0.8, -1.1), model3d.XYZ(1, 1.2, 0.9)), 0.25},
		{"capsule", &model3d.Capsule{P1: model3d.XYZ(-1, 0, 0), P2: model3d.XYZ(1, 0.5, 0.2), Radius: 0.7}, 0.25},
		// sharp edges and rims, which a coarse mesh chamfers (the dilation has to make up for that)
		{"L-boxes", model3d.JoinedSolid{model3d.NewRect(model3d.XYZ(-1, -1, -1), model3d.XYZ(1, 0, 0.2)), model3d.NewRect(model3d.XYZ(-1, -1, -1), model3d.XYZ(-0.1, 1, 1))}, 0.125},
		{"tilted-cylinder", &model3d.Cylinder{P1: model3d.XYZ(-0.6, -0.3, -0.7), P2: model3d.XYZ(0.5, 0.4, 0.8), Radius: 0.6}, 0.125},
	} {
		for _, iters := range []int{0, 2} {
			want := faces(model3d.MarchingCubesSearch(sd.s, sd.delta, iters))
			for _, k := range []float64{1, 2, 3} {
				// extra space is added to the built-in dilation, whatever its value
				for _, extra := range []float64{0, 1e-3, 0.01, 0.3} {
					if extra != 0 && (iters == 0 || k == 1) {
						continue
					}
					r.Eval(1)
					got := faces(model3d.MarchingCubesC2F(sd.s, sd.delta*k, sd.delta, extra, iters))
					r.NontrivialKey(fmt.Sprintf("c2f/%s/%v/%d/%v", sd.name, k, iters, extra))
					if got != want {
						r.Violation("config/MarchingCubesC2F", "face set differs from MarchingCubesSearch at the fine spacing", cfgCase{"MarchingCubesC2F", sd.name, 16, "", sd.delta, fmt.Sprintf("bigDelta=%g iters=%d extraSpace=%g", sd.delta*k, iters, extra)})
					}
				}
			}
		}
	}
}

func configs2(r *ev.Run) {
	type s2 struct {
		name string
		s    model2d.Solid
		sdf  model2d.SDF
	}
	circ := &model2d.Circle{Center: model2d.XY(0.3, 0.2), Radius: 1}
	rect := model2d.NewRect(model2d.XY(-1, -0.5), model2d.XY(1.5, 0.8))
	caps := &model2d.Capsule{P1: model2d.XY(-1, -1), P2: model2d.XY(1, 0.5), Radius: 0.3}
	tri := model2d.NewTriangle(model2d.XY(0, 0), model2d.XY(2, 0.3), model2d.XY(0.5, 1.7))
	shapes := []s2{{"circle", circ, circ}, {"rect", rect, rect}, {"capsule", caps, caps}, {"triangle", tri, tri}}
	for _, sh := range shapes {
		// marching squares: GOMAXPROCS x filters
		delta := 0.11
		runtime.GOMAXPROCS(1)
		ref := model2d.MarchingSquares(sh.s, delta)
		refS := meshq.SegMultiset2(ref.SegmentSlice())
		sdfFilter := func(slack float64) func(*model2d.Rect) bool {
			return func(rc *model2d.Rect) bool {
				c := rc.MinVal.Mid(rc.MaxVal)
				// the output lies within one lattice cell of the true boundary
				return math.Abs(sh.sdf.SDF(c)) <= rc.MinVal.Dist(c)+delta*math.Sqrt2+slack
			}
		}
		for procs := 2; procs <= 32; procs++ {
			// worker-count sweep (see the 3D stage)
			runtime.GOMAXPROCS(procs)
			r.Eval(2)
			if got := meshq.SegMultiset2(model2d.MarchingSquares(sh.s, delta).SegmentSlice()); got != refS {
				r.Violation("config/MarchingSquares/gomaxprocs", "segment set differs from the GOMAXPROCS=1 run", cfgCase{"MarchingSquares", sh.name, procs, "", delta, "worker-count sweep"})
				break
			}
			if got := meshq.SegMultiset2(model2d.MarchingSquaresFilter(sh.s, func(*model2d.Rect) bool { return true }, delta).SegmentSlice()); got != refS {
				r.Violation("config/MarchingSquaresFilter/always-true", "segment set differs from unfiltered marching squares", cfgCase{"MarchingSquaresFilter", sh.name, procs, "always-true", delta, "worker-count sweep"})
				break
			}
		}
		for _, procs := range []int{1, 2, 3, 5, 16} {
			runtime.GOMAXPROCS(procs)
			for fname, f := range map[string]func(*model2d.Rect) bool{"always-true": func(*model2d.Rect) bool { return true }, "sdf-conservative": sdfFilter(0), "sdf-conservative+d": sdfFilter(delta)} {
				r.Eval(1)
				rejected := 0
				g := func(rc *model2d.Rect) bool {
					v := f(rc)
					if !v {
						rejected++
					}
					return v
				}
				if got := meshq.SegMultiset2(model2d.MarchingSquaresFilter(sh.s, g, delta).SegmentSlice()); got != refS {
					r.Violation("config/MarchingSquaresFilter/"+fname, "segment set differs from unfiltered marching squares", cfgCase{"MarchingSquaresFilter", sh.name, procs, fname, delta, ""})
				}
				if rejected > 0 {
					r.NontrivialKey(fmt.Sprintf("ms-filter/%s/%s/%d", sh.name, fname, procs))
				}
				// the searched form behind the same filter
				r.Eval(1)
				wantS := meshq.SegMultiset2(model2d.MarchingSquaresSearch(sh.s, delta, 2).SegmentSlice())
				if got := meshq.SegMultiset2(model2d.MarchingSquaresSearchFilter(sh.s, f, delta, 2).SegmentSlice()); got != wantS {
					r.Violation("config/MarchingSquaresSearchFilter/"+fname, "segment set differs from MarchingSquaresSearch", cfgCase{"MarchingSquaresSearchFilter", sh.name, procs, fname, delta, ""})
				}
			}
			for _, k := range []float64{1, 2, 3} {
				for _, extra := range []float64{0, 1e-3, 0.01} {
					r.Eval(1)
					want := meshq.SegMultiset2(model2d.MarchingSquaresSearch(sh.s, delta, 2).SegmentSlice())
					if got := meshq.SegMultiset2(model2d.MarchingSquaresC2F(sh.s, delta*k, delta, extra, 2).SegmentSlice()); got != want {
						r.Violation("config/MarchingSquaresC2F", "segment set differs from MarchingSquaresSearch at the fine spacing", cfgCase{"MarchingSquaresC2F", sh.name, procs, "", delta, fmt.Sprintf("bigDelta=%g extraSpace=%g", delta*k, extra)})
					}
				}
			}
		}
		{
			// above the 64*4096-square threshold of the marching-squares pool
			bigDelta := 0.0045
			runtime.GOMAXPROCS(16)
			want := meshq.SegMultiset2(model2d.MarchingSquares(sh.s, bigDelta).SegmentSlice())
			for _, procs := range []int{1, 3} {
				runtime.GOMAXPROCS(procs)
				for fname, f := range map[string]func(*model2d.Rect) bool{"always-true": func(*model2d.Rect) bool { return true }, "sdf-conservative": func(rc *model2d.Rect) bool {
					c := rc.MinVal.Mid(rc.MaxVal)
					return math.Abs(sh.sdf.SDF(c)) <= rc.MinVal.Dist(c)+bigDelta*math.Sqrt2
				}} {
					r.Eval(1)
					r.NontrivialKey(fmt.Sprintf("large2d/%s/%s/%d", sh.name, fname, procs))
					if got := meshq.SegMultiset2(model2d.MarchingSquaresFilter(sh.s, f, bigDelta).SegmentSlice()); got != want {
						r.Violation("config/MarchingSquaresFilter/"+fname, "segment set differs from unfiltered marching squares on a lattice above the block-splitting threshold", cfgCase{"MarchingSquaresFilter", sh.name, procs, fname, bigDelta, "large lattice"})
					}
				}
			}
		}
		runtime.GOMAXPROCS(16)
		// rasteriser: conservative filters vs none, pixel for pixel
		// canvases: the solid's own bounds, a canvas that crops through the interior (uniform tiles then reach the
		// last column/row, where tiles are clipped) and a padded one
		smn, smx := sh.s.Min(), sh.s.Max()
		ssz := smx.Sub(smn)
		canvases := []struct {
			name string
			b    model2d.Bounder
		}{
			{"own", nil},
			{"cropped", &model2d.Rect{MinVal: smn.Add(ssz.Scale(0.23)), MaxVal: smx.Sub(ssz.Scale(0.19))}},
			{"cropped-one-side", &model2d.Rect{MinVal: smn, MaxVal: smx.Sub(model2d.XY(ssz.X*0.31, 0))}},
			{"padded", &model2d.Rect{MinVal: smn.Sub(ssz.Scale(0.37)), MaxVal: smx.Add(ssz.Scale(0.29))}},
		}
		for _, scale := range []float64{3.1, 7, 20, 33.3} {
			for _, cv := range canvases {
				for _, sub := range []int{1, 2, 3, 4, 5, 8, 16} {
					if cv.b != nil && (scale > 25 || sub == 16) {
						continue
					}
					rs := &model2d.Rasterizer{Scale: scale, Subsamples: sub, Bounds: cv.b}
					want := rs.RasterizeSolid(sh.s)
					for fname, f := range map[string]func(*model2d.Rect) bool{
						"always-true": func(*model2d.Rect) bool { return true },
						"sdf-exact": func(rc *model2d.Rect) bool {
							c := rc.MinVal.Mid(rc.MaxVal)
							return math.Abs(sh.sdf.SDF(c)) <= rc.MinVal.Dist(c)
						},
						"sdf-dilated": func(rc *model2d.Rect) bool {
							c := rc.MinVal.Mid(rc.MaxVal)
							return math.Abs(sh.sdf.SDF(c)) <= rc.MinVal.Dist(c)+0.2
						},
					} {
						r.Eval(1)
						rejected := 0
						g := func(rc *model2d.Rect) bool {
							v := f(rc)
							if !v {
								rejected++
							}
							return v
						}
						got := rs.RasterizeSolidFilter(sh.s, g)
						if !bytes.Equal(got.Pix, want.Pix) || got.Rect != want.Rect {
							r.Violation("config/RasterizeSolidFilter/"+fname, "image differs from RasterizeSolid", cfgCase{"RasterizeSolidFilter", sh.name, 16, fname, scale, fmt.Sprintf("subsamples=%d canvas=%s", sub, cv.name)})
						}
						if rejected > 0 {
							r.NontrivialKey(fmt.Sprintf("raster/%s/%s/%v/%d/%s", sh.name, fname, scale, sub, cv.name))
						}
					}
					// built-in conservative filter of RasterizeColliderSolid against the plain solid rasterisation
					if sub > 4 || scale > 25 {
						continue
					}
					r.Eval(1)
					mesh := model2d.MarchingSquaresSearch(sh.s, 0.05, 8)
					coll := model2d.MeshToCollider(mesh)
					w2 := rs.RasterizeSolid(model2d.NewColliderSolid(coll))
					g2 := rs.RasterizeColliderSolid(coll)
					if !bytes.Equal(w2.Pix, g2.Pix) {
						r.Violation("config/RasterizeColliderSolid", "image differs from RasterizeSolid of the same collider solid", cfgCase{"RasterizeColliderSolid", sh.name, 16, "built-in", scale, fmt.Sprintf("subsamples=%d canvas=%s", sub, cv.name)})
					}
					// line drawings (RasterizeCollider): the built-in filter pads tiles by half the line width, which is given
					// in pixels while everything else is in model units - so it is judged at scales below, at and above
					// one pixel per unit (on the outline enlarged 100 times, to keep the images a few hundred pixels)
					if cv.b == nil && sub <= 2 && scale == 3.1 {
						big := model2d.MeshToCollider(mesh.Scale(100))
						for _, sc2 := range []float64{0.1, 0.25, 0.7, 1, 1.3} {
							for _, lw := range []float64{0, 3, 0.5} {
								r.Eval(1)
								rl := &model2d.Rasterizer{Scale: sc2, Subsamples: sub, LineWidth: lw}
								width := lw
								if width == 0 {
									width = model2d.RasterizerDefaultLineWidth
								}
								wl := rl.RasterizeSolid(model2d.NewColliderSolidHollow(big, 0.5*width/sc2))
								gl := rl.RasterizeCollider(big)
								if !bytes.Equal(wl.Pix, gl.Pix) || wl.Rect != gl.Rect {
									r.Violation("config/RasterizeCollider", "line drawing differs from the unfiltered rasterisation of the outline thickened by half the line width", cfgCase{"RasterizeCollider", sh.name, 16, "built-in", sc2, fmt.Sprintf("subsamples=%d line width=%g", sub, lw)})
								}
							}
						}
					}
				}
			}
		}
	}
}

func main() {
	r := ev.Start("C12", "model_checking")
	if r.Replay != "" {
		var c schedrun.ReplayCase
		r.LoadReplay(&c)
		if c.Scenario != "" {
			schedrun.Build(false)
			cj, _ := json.Marshal(c.Choices)
			out, err := exec.Command(filepath.Join(ev.Work(), "bin", "sched"), "replay", c.Scenario, string(cj)).CombinedOutput()
			fmt.Print(string(out))
			if err != nil {
				r.Violation("sched/"+schedrun.Family(c.Scenario)+"/"+c.Kind, "replayed schedule violates: "+string(out), c)
			}
		} else {
			configs3(r)
			configs2(r)
		}
		r.StatesAdd(1)
		r.Transitions(1)
		r.Sample("replay")
		r.Finish()
	}
	r.Rule("(A) configurations: full product of GOMAXPROCS {1,2,3,5,16} x filters {none, always-true, exact reference AABB filter, dilated by d and 5d} x repeated runs for marching cubes/squares, MaxGos {0,1,2,3,8} x BufferSize {default, minimal 4-row window, 5 rows, 6 rows} x triangle modes for dual contouring, coarse factors {1,2,3} for coarse-to-fine, scale x subsample products for the rasteriser; oracle: face multiset / image identical to the sequential unfiltered full-buffer run. " +
		"(B) schedules: every interleaving of squareSpacer.Scan, the MarchingCubesFilter/MarchingSquaresFilter worker pools and the dual-contouring stages with <= B preemptions on the instrumented build; oracle: same face multiset in every schedule, no deadlock. non-trivial = configurations in which a filter actually rejected a tile / the buffer actually shifted; schedule scenarios with > 1 execution. states/transitions/traces count part (B)")
	r.Assume("sequential consistency", "reference filters are conservative by construction (AABB of reference triangles; |sdf(centre)| <= half diagonal)")
	r.Isolate("configs3", func() { configs3(r) })
	r.Isolate("configs2", func() { configs2(r) })
	schedrun.Build(true)
	names := schedrun.List("C12")
	var jobs []schedrun.Job
	small := map[string]bool{"mc-scan/procs2/2x2x2": true, "mc-scan/procs2/2x2x3": true, "mc-scan/procs3/2x2x2": true, "mc-filter/procs2": true, "ms-filter/procs2": true, "ms-filter/procs3": true}
	for _, n := range names {
		// delay-bounded exploration scales to the many-thread pools (dual contouring spawns 17-25 threads)
		db := 2
		if r.Thorough() {
			db = 3
		}
		if strings.HasPrefix(n, "dc-repair/") {
			// single-threaded: the decisions are map iteration orders (one deviation = one key taken out of turn)
			jobs = append(jobs, schedrun.Job{Scenario: n, Bound: 1, MaxExecs: 5000000})
			continue
		}
		jobs = append(jobs, schedrun.Job{Scenario: n, Bound: db, MaxExecs: 5000000, Delay: true})
		if small[n] {
			pb := 2
			if r.Thorough() && n != "ms-filter/procs3" {
				pb = 3
			}
			jobs = append(jobs, schedrun.Job{Scenario: n, Bound: pb, MaxExecs: 5000000})
		}
	}
	results := schedrun.Explore(r, jobs)
	schedrun.Report(r, results)
	var per []string
	for i, res := range results {
		per = append(per, fmt.Sprintf("%s: %s bound=%d executions=%d threads=%d outcomes=%d", res.Scenario, res.Mode, jobs[i].Bound, res.Executions, res.Threads, res.Outcomes))
	}
	r.Set("per_scenario", per)
	reps := 100
	if r.Thorough() {
		reps = 1000
	}
	schedrun.RacePass(r, names, reps)
	r.Finish()
}
