// C02: generated meshes bound exactly the sampled solid.
//
// Marching cubes / squares: every inside/outside assignment of a small inner
// lattice block, for solids whose behaviour BETWEEN lattice points is also
// enumerated (voxel solid; "offset" solids with the transition of each
// sign-changing edge at 1/8, 1/3 or 7/8 chosen per edge by a hash), at two
// placements and for iteration counts {0,1,2,5}; plus CSG trees of primitives.
// Oracle: (i) winding number of the mesh = Contains at every lattice point;
// (ii) mesh vertices <-> sign-changing lattice edges is a bijection;
// (iii) each vertex is within spacing/2^iterations of the transition on its
// edge; (iv) reported interior points are contained.
//
// Dual contouring with clipping: for lattice solids and CSG solids and the
// product of triangle mode, jitter, goroutine count, buffer size and cube
// margin: every mesh vertex lies strictly inside a lattice cell with mixed
// corners, one vertex per such cell; the faces are exactly one quad (two
// triangles) per sign-changing lattice edge built from the four cells around
// it, whose outline winds exactly once around that edge in the direction
// contained -> excluded; interior points are contained. (With every vertex
// strictly inside its own cell this is equivalent to "each lattice edge is
// crossed exactly once iff its ends differ, with the normal pointing from the
// contained to the excluded end": see DESIGN.md.)
package main

import (
	"fmt"
	"math"
	"sort"

	"github.com/unixpickle/model3d/model2d"
	"github.com/unixpickle/model3d/model3d"

	"verif/lib/ev"
	"verif/lib/lat"
	"verif/lib/topo"
)

type c3 = model3d.Coord3D

type gcase struct {
	Algo   string    `json:"algorithm"`
	Solid  string    `json:"solid"`
	N      []int     `json:"lattice,omitempty"`
	Bits   uint64    `json:"bits"`
	Kind   int       `json:"between_lattice_kind"`
	Origin []float64 `json:"origin,omitempty"`
	Delta  float64   `json:"delta"`
	Iters  int       `json:"iters"`
	Opts   string    `json:"options,omitempty"`
}

// ---------------------------------------------------------------- solids with chosen behaviour between lattice points

// offSolid: a lattice solid (lat.Solid3 bits) whose transition on each
// sign-changing lattice edge sits at a fraction chosen per edge; off the
// lattice edges it behaves like the voxel solid.
type offSolid struct {
	*lat.Solid3
	kind int // 0 voxel (1/2), 1..3 hash variants over {1/8, 1/3, 7/8}
}

var fracs = []float64{0.125, 1.0 / 3, 0.875}

func (s *offSolid) frac(axis, i, j, k int) float64 {
	if s.kind == 0 {
		return 0.5
	}
	h := uint32(axis*7+i*31+j*17+k*13+s.kind*5) * 2654435761
	return fracs[(h>>16)%3]
}

// transition returns the fraction along the edge starting at inner index
// (i,j,k) in direction axis at which membership flips.
func (s *offSolid) Contains(c c3) bool {
	if s.kind == 0 {
		return s.Solid3.Contains(c)
	}
	rel := c.Sub(s.Origin).Scale(1 / s.Delta).Array()
	var idx [3]int
	var fr [3]float64
	on := 0
	axis := -1
	for a := 0; a < 3; a++ {
		f := math.Floor(rel[a])
		idx[a] = int(f)
		fr[a] = rel[a] - f
		if fr[a] < 1e-9 || fr[a] > 1-1e-9 {
			if fr[a] > 0.5 {
				idx[a]++
				fr[a] = 0
			}
			on++
		} else {
			axis = a
		}
	}
	if on == 3 {
		return s.At(idx[0], idx[1], idx[2])
	}
	if on == 2 {
		lo := s.At(idx[0], idx[1], idx[2])
		hi := idx
		hi[axis]++
		hv := s.At(hi[0], hi[1], hi[2])
		if lo == hv {
			return lo
		}
		if fr[axis] < s.frac(axis, idx[0], idx[1], idx[2]) {
			return lo
		}
		return hv
	}
	return s.Solid3.Contains(c)
}

type offSolid2 struct {
	*lat.Solid2
	kind int
}

func (s *offSolid2) frac(axis, i, j int) float64 {
	if s.kind == 0 {
		return 0.5
	}
	h := uint32(axis*7+i*31+j*17+s.kind*5) * 2654435761
	return fracs[(h>>16)%3]
}

func (s *offSolid2) Contains(c model2d.Coord) bool {
	if s.kind == 0 {
		return s.Solid2.Contains(c)
	}
	rel := c.Sub(s.Origin).Scale(1 / s.Delta).Array()
	var idx [2]int
	var fr [2]float64
	on, axis := 0, -1
	for a := 0; a < 2; a++ {
		f := math.Floor(rel[a])
		idx[a] = int(f)
		fr[a] = rel[a] - f
		if fr[a] < 1e-9 || fr[a] > 1-1e-9 {
			if fr[a] > 0.5 {
				idx[a]++
				fr[a] = 0
			}
			on++
		} else {
			axis = a
		}
	}
	if on == 2 {
		return s.At(idx[0], idx[1])
	}
	if on == 1 {
		lo := s.At(idx[0], idx[1])
		hi := idx
		hi[axis]++
		hv := s.At(hi[0], hi[1])
		if lo == hv {
			return lo
		}
		if fr[axis] < s.frac(axis, idx[0], idx[1]) {
			return lo
		}
		return hv
	}
	return s.Solid2.Contains(c)
}

// ---------------------------------------------------------------- marching cubes

func locate(vals []float64, x, tol float64) (idx int, on bool, between bool) {
	i := sort.SearchFloat64s(vals, x)
	if i < len(vals) && math.Abs(vals[i]-x) <= tol {
		return i, true, false
	}
	if i > 0 && math.Abs(vals[i-1]-x) <= tol {
		return i - 1, true, false
	}
	if i == 0 || i == len(vals) {
		return -1, false, false
	}
	return i - 1, false, true
}

// checkMC judges one marching-cubes mesh. trans(axis, edge start point, lo
// value) returns the transition position along the edge for lattice solids, or
// NaN when it must be found by sampling.
func checkMC(r *ev.Run, c gcase, s model3d.Solid, delta float64, iters int, withInterior bool, windingToo bool, surfaceBand float64) {
	r.Eval(1)
	var m *model3d.Mesh
	var interior *model3d.CoordMap[c3]
	if p := ev.Try(func() {
		if withInterior {
			m, interior = model3d.MarchingCubesInterior(s, delta, iters)
		} else if iters == 0 {
			m = model3d.MarchingCubes(s, delta)
		} else {
			m = model3d.MarchingCubesSearch(s, delta, iters)
		}
	}); p != "" {
		r.Violation("mc/panic", fmt.Sprintf("%s: panic: %s", c.Solid, p), c)
		return
	}
	xs, ys, zs := model3d.VerifMcLattice(s, delta)
	lv := [3][]float64{xs, ys, zs}
	tol := 1e-9 * delta
	at := func(i, j, k int) bool { return s.Contains(model3d.XYZ(xs[i], ys[j], zs[k])) }
	viol := func(kind, msg string) { r.Violation("mc/"+kind, c.Solid+" "+c.Opts+": "+msg, c) }
	// (ii) bijection
	type ekey struct{ axis, i, j, k int }
	seen := map[ekey]int{}
	verts := m.VertexSlice()
	for _, v := range verts {
		arr := v.Array()
		var idx [3]int
		nOn, axis := 0, -1
		bad := false
		for a := 0; a < 3; a++ {
			i, on, btw := locate(lv[a], arr[a], tol)
			if on {
				// a search result may land exactly on a lattice value only if the transition is there; treat the
				// coordinate as "between" when both other axes are already on the lattice
				idx[a] = i
				nOn++
			} else if btw {
				idx[a] = i
				axis = a
			} else {
				bad = true
			}
		}
		if bad || nOn < 2 {
			viol("vertex-off-lattice-edge", fmt.Sprintf("vertex %v does not lie on a lattice edge", v))
			return
		}
		if nOn == 3 {
			// exactly at a lattice point (possible only with iters>0 and a transition at an end): attribute it to
			// any incident sign-changing edge; skip the bijection bookkeeping for this vertex
			r.Skipped(1)
			continue
		}
		k := ekey{axis, idx[0], idx[1], idx[2]}
		seen[k]++
		hi := idx
		hi[axis]++
		a, b := at(idx[0], idx[1], idx[2]), at(hi[0], hi[1], hi[2])
		if a == b {
			viol("vertex-on-uniform-edge", fmt.Sprintf("vertex %v lies on a lattice edge whose two ends are classified alike (%v)", v, a))
			return
		}
		// (iii) within delta/2^iters of a transition
		lo, hiV := lv[axis][idx[axis]], lv[axis][idx[axis]+1]
		w := (hiV - lo) / math.Pow(2, float64(iters)) * (1 + 1e-9)
		p0, p1 := math.Max(lo, arr[axis]-w), math.Min(hiV, arr[axis]+w)
		found := false
		prev := false
		const samples = 64
		for q := 0; q <= samples; q++ {
			pa := arr
			pa[axis] = p0 + (p1-p0)*float64(q)/samples
			cur := s.Contains(model3d.NewCoord3DArray(pa))
			if q > 0 && cur != prev {
				found = true
				break
			}
			prev = cur
		}
		if !found {
			viol("vertex-far-from-transition", fmt.Sprintf("vertex %v (iters=%d): membership is constant within spacing/2^iters = %g of it along its lattice edge", v, iters, w))
			return
		}
	}
	for k, n := range seen {
		if n != 1 {
			viol("two-vertices-on-one-edge", fmt.Sprintf("%d vertices on lattice edge %v", n, k))
			return
		}
	}
	nChanging := 0
	for i := range xs {
		for j := range ys {
			for k := range zs {
				v := at(i, j, k)
				if i+1 < len(xs) && at(i+1, j, k) != v {
					nChanging++
					if seen[ekey{0, i, j, k}] != 1 && iters == 0 {
						viol("edge-without-vertex", fmt.Sprintf("sign-changing lattice edge %v has no vertex", ekey{0, i, j, k}))
						return
					}
				}
				if j+1 < len(ys) && at(i, j+1, k) != v {
					nChanging++
					if seen[ekey{1, i, j, k}] != 1 && iters == 0 {
						viol("edge-without-vertex", fmt.Sprintf("sign-changing lattice edge %v has no vertex", ekey{1, i, j, k}))
						return
					}
				}
				if k+1 < len(zs) && at(i, j, k+1) != v {
					nChanging++
					if seen[ekey{2, i, j, k}] != 1 && iters == 0 {
						viol("edge-without-vertex", fmt.Sprintf("sign-changing lattice edge %v has no vertex", ekey{2, i, j, k}))
						return
					}
				}
			}
		}
	}
	if len(verts) != nChanging {
		viol("vertex-count", fmt.Sprintf("%d vertices for %d sign-changing lattice edges", len(verts), nChanging))
		return
	}
	// (i) winding number at lattice points
	if windingToo {
		tris := lat.Tris(m)
		for i := range xs {
			for j := range ys {
				for k := range zs {
					p := model3d.XYZ(xs[i], ys[j], zs[k])
					if surfaceBand > 0 {
						// CSG solids: skip lattice points that are (nearly) on the mesh itself
						near := false
						for _, v := range verts {
							if v.Dist(p) < surfaceBand {
								near = true
								break
							}
						}
						if near {
							r.Skipped(1)
							continue
						}
					}
					w := topo.Winding3(tris, p.Array())
					want := 0.0
					if at(i, j, k) {
						want = 1
					}
					if !(math.Abs(w-want) <= 1e-6) {
						viol("side-of-surface", fmt.Sprintf("lattice point %v: solid says contained=%v, but the winding number of the mesh around it is %.4f", p, want == 1, w))
						return
					}
				}
			}
		}
	}
	// (iv)
	if interior != nil {
		bad := false
		interior.Range(func(v, in c3) bool {
			if !s.Contains(in) {
				viol("interior-point-not-contained", fmt.Sprintf("interior point %v reported for vertex %v is not contained in the solid", in, v))
				bad = true
				return false
			}
			return true
		})
		if interior.Len() != len(verts) && !bad {
			viol("interior-count", fmt.Sprintf("%d interior points for %d vertices", interior.Len(), len(verts)))
		}
	}
	if nChanging > 0 {
		r.NontrivialAdd(1)
	}
}

func mcLattice(r *ev.Run, n [3]int, stride uint64) {
	total := uint64(1) << uint(n[0]*n[1]*n[2])
	placements := []struct {
		o c3
		d float64
	}{{model3d.XYZ(0, 0, 0), 1}, {model3d.XYZ(0.1, -0.7, 2.3), 0.3},
		// very small and very large spacings: the search must still halve the bracket `iters` times
		{model3d.XYZ(0, 0, 0), 1.0 / (1 << 22)}, {model3d.XYZ(0, 0, 0), 1 << 12},
		// a million spacings from the origin (exact dyadic coordinates): positions must come from the lattice, not from
		// arithmetic that loses the low bits of large coordinates
		{model3d.XYZ(1<<20, -(1 << 21), 1<<19), 1}}
	ev.Parallel(16, 16, func(w int) {
		for bits := uint64(w); bits < total; bits += 16 {
			if stride > 1 && (bits*2654435761>>7)%stride != 0 {
				continue
			}
			for pi, pl := range placements {
				if pi >= 2 && (bits*40503>>3)%8 != 0 {
					continue // the scaled placements on every 8th assignment
				}
				for kind := 0; kind < 4; kind++ {
					if pi == 1 && kind == 0 {
						continue // voxel transitions at exact midpoints are only exact on the dyadic placement
					}
					itersList := []int{0, 1, 2, 5}
					if (bits*40503>>3)%8 == 1 {
						itersList = []int{12, 30} // many search steps: bracket far below any absolute threshold
					} else if pi >= 2 {
						itersList = []int{0, 2, 12}
					}
					for _, iters := range itersList {
						s := &offSolid{lat.NewSolid3(pl.o, pl.d, n, bits), kind}
						c := gcase{Algo: "MarchingCubes", Solid: fmt.Sprintf("lattice %v bits %#x kind %d origin %v delta %g", n, bits, kind, pl.o, pl.d), N: n[:], Bits: bits, Kind: kind, Origin: []float64{pl.o.X, pl.o.Y, pl.o.Z}, Delta: pl.d, Iters: iters, Opts: fmt.Sprintf("iters=%d", iters)}
						checkMC(r, c, s, pl.d, iters, iters == 2, iters == 0 || iters == 2, 0)
					}
				}
			}
		}
	})
}

// ---------------------------------------------------------------- marching squares

func checkMS(r *ev.Run, c gcase, s model2d.Solid, delta float64, iters int) {
	r.Eval(1)
	var m *model2d.Mesh
	if p := ev.Try(func() {
		if iters == 0 {
			m = model2d.MarchingSquares(s, delta)
		} else {
			m = model2d.MarchingSquaresSearch(s, delta, iters)
		}
	}); p != "" {
		r.Violation("ms/panic", c.Solid+": panic: "+p, c)
		return
	}
	xs, ys := model2d.VerifMsLattice(s, delta)
	lv := [2][]float64{xs, ys}
	tol := 1e-9 * delta
	at := func(i, j int) bool { return s.Contains(model2d.XY(xs[i], ys[j])) }
	viol := func(kind, msg string) { r.Violation("ms/"+kind, c.Solid+" "+c.Opts+": "+msg, c) }
	type ekey struct{ axis, i, j int }
	seen := map[ekey]int{}
	verts := m.VertexSlice()
	for _, v := range verts {
		arr := v.Array()
		var idx [2]int
		nOn, axis := 0, -1
		bad := false
		for a := 0; a < 2; a++ {
			i, on, btw := locate(lv[a], arr[a], tol)
			if on {
				idx[a] = i
				nOn++
			} else if btw {
				idx[a] = i
				axis = a
			} else {
				bad = true
			}
		}
		if bad || nOn < 1 {
			viol("vertex-off-lattice-edge", fmt.Sprintf("vertex %v does not lie on a lattice edge", v))
			return
		}
		if nOn == 2 {
			r.Skipped(1)
			continue
		}
		seen[ekey{axis, idx[0], idx[1]}]++
		hi := idx
		hi[axis]++
		if at(idx[0], idx[1]) == at(hi[0], hi[1]) {
			viol("vertex-on-uniform-edge", fmt.Sprintf("vertex %v lies on a lattice edge whose ends are classified alike", v))
			return
		}
		lo, hiV := lv[axis][idx[axis]], lv[axis][idx[axis]+1]
		w := (hiV - lo) / math.Pow(2, float64(iters)) * (1 + 1e-9)
		p0, p1 := math.Max(lo, arr[axis]-w), math.Min(hiV, arr[axis]+w)
		found, prev := false, false
		for q := 0; q <= 64; q++ {
			pa := arr
			pa[axis] = p0 + (p1-p0)*float64(q)/64
			cur := s.Contains(model2d.NewCoordArray(pa))
			if q > 0 && cur != prev {
				found = true
				break
			}
			prev = cur
		}
		if !found {
			viol("vertex-far-from-transition", fmt.Sprintf("vertex %v (iters=%d): membership is constant within spacing/2^iters of it along its lattice edge", v, iters))
			return
		}
	}
	n := 0
	for i := range xs {
		for j := range ys {
			if i+1 < len(xs) && at(i+1, j) != at(i, j) {
				n++
				if iters == 0 && seen[ekey{0, i, j}] != 1 {
					viol("edge-without-vertex", fmt.Sprintf("sign-changing lattice edge %v has %d vertices", ekey{0, i, j}, seen[ekey{0, i, j}]))
					return
				}
			}
			if j+1 < len(ys) && at(i, j+1) != at(i, j) {
				n++
				if iters == 0 && seen[ekey{1, i, j}] != 1 {
					viol("edge-without-vertex", fmt.Sprintf("sign-changing lattice edge %v has %d vertices", ekey{1, i, j}, seen[ekey{1, i, j}]))
					return
				}
			}
		}
	}
	for k, cnt := range seen {
		if cnt != 1 {
			viol("two-vertices-on-one-edge", fmt.Sprintf("%d vertices on lattice edge %v", cnt, k))
			return
		}
	}
	if len(verts) != n {
		viol("vertex-count", fmt.Sprintf("%d vertices for %d sign-changing lattice edges", len(verts), n))
		return
	}
	// the library's normal convention is (-dy,dx)... pointing outward: outer loops are clockwise => winding -1 inside
	segs := lat.Segs(m)
	for i := range xs {
		for j := range ys {
			w := topo.Winding2(segs, topo.P2{xs[i], ys[j]})
			want := 0.0
			if at(i, j) {
				want = -1
			}
			if !(math.Abs(w-want) <= 1e-6) {
				viol("side-of-surface", fmt.Sprintf("lattice point (%g,%g): contained=%v but the winding number of the outline is %.4f", xs[i], ys[j], want != 0, w))
				return
			}
		}
	}
	if n > 0 {
		r.NontrivialAdd(1)
	}
}

func msLattice(r *ev.Run, n [2]int) {
	total := uint64(1) << uint(n[0]*n[1])
	ev.Parallel(16, 16, func(w int) {
		for bits := uint64(w); bits < total; bits += 16 {
			for pi, pl := range []struct {
				o model2d.Coord
				d float64
			}{{model2d.XY(0, 0), 1}, {model2d.XY(0.1, -0.7), 0.3}, {model2d.XY(0, 0), 1.0 / (1 << 22)}, {model2d.XY(0, 0), 1 << 12}, {model2d.XY(1<<20, -(1 << 21)), 1}} {
				for kind := 0; kind < 4; kind++ {
					if pi == 1 && kind == 0 {
						continue
					}
					itersList := []int{0, 1, 2, 5}
					if pi >= 2 {
						itersList = []int{0, 2, 12} // very small and very large spacings
					} else if bits%4 == 1 {
						itersList = []int{12, 30} // many search steps
					}
					for _, iters := range itersList {
						s := &offSolid2{lat.NewSolid2(pl.o, pl.d, n, bits), kind}
						c := gcase{Algo: "MarchingSquares", Solid: fmt.Sprintf("2D lattice %v bits %#x kind %d origin %v delta %g", n, bits, kind, pl.o, pl.d), N: n[:], Bits: bits, Kind: kind, Origin: []float64{pl.o.X, pl.o.Y}, Delta: pl.d, Iters: iters, Opts: fmt.Sprintf("iters=%d", iters)}
						checkMS(r, c, s, pl.d, iters)
					}
				}
			}
		}
	})
}

// ---------------------------------------------------------------- CSG solids

type namedSolid struct {
	name string
	s    model3d.Solid
}

func csgSolids(full bool) []namedSolid {
	prims := []namedSolid{
		{"sphere", &model3d.Sphere{Center: model3d.XYZ(0.13, -0.07, 0.21), Radius: 0.9}},
		{"rect", model3d.NewRect(model3d.XYZ(-0.63, -0.41, -0.77), model3d.XYZ(0.52, 0.93, 0.36))},
		{"cylinder", &model3d.Cylinder{P1: model3d.XYZ(-0.4, 0.1, -0.9), P2: model3d.XYZ(0.5, 0.3, 1.1), Radius: 0.45}},
		{"capsule", &model3d.Capsule{P1: model3d.XYZ(-1.1, 0.4, -0.3), P2: model3d.XYZ(0.7, -0.5, 0.4), Radius: 0.33}},
		{"thin-plate", model3d.NewRect(model3d.XYZ(-0.9, -0.8, 0.02), model3d.XYZ(0.8, 0.9, 0.09))},
	}
	out := append([]namedSolid{}, prims...)
	for i, a := range prims {
		for j, b := range prims {
			if i == j {
				continue
			}
			if i < j {
				out = append(out, namedSolid{"(" + a.name + "|" + b.name + ")", model3d.JoinedSolid{a.s, b.s}})
				out = append(out, namedSolid{"(" + a.name + "&" + b.name + ")", model3d.IntersectedSolid{a.s, b.s}})
			}
			out = append(out, namedSolid{"(" + a.name + "-" + b.name + ")", &model3d.SubtractedSolid{Positive: a.s, Negative: b.s}})
		}
	}
	if full {
		n1 := len(out)
		for i := len(prims); i < n1; i += 3 {
			for _, b := range prims[:3] {
				out = append(out, namedSolid{"(" + out[i].name + "-" + b.name + ")", &model3d.SubtractedSolid{Positive: out[i].s, Negative: b.s}})
				out = append(out, namedSolid{"(" + out[i].name + "|" + b.name + ")", model3d.JoinedSolid{out[i].s, b.s}})
			}
		}
	}
	return out
}

func nonEmpty(s model3d.Solid) bool {
	mn, mx := s.Min(), s.Max()
	return mx.X > mn.X && mx.Y > mn.Y && mx.Z > mn.Z
}

// ---------------------------------------------------------------- dual contouring

type dcOpts struct {
	mode     model3d.DualContouringTriangleMode
	noJitter bool
	maxGos   int
	bufSize  int
	margin   float64
	interior bool
}

func (o dcOpts) String() string {
	return fmt.Sprintf("mode=%d noJitter=%v maxGos=%d bufSize=%d margin=%g interior=%v", o.mode, o.noJitter, o.maxGos, o.bufSize, o.margin, o.interior)
}

func checkDC(r *ev.Run, c gcase, s model3d.Solid, delta float64, o dcOpts) {
	r.Eval(1)
	dc := &model3d.DualContouring{S: model3d.SolidSurfaceEstimator{Solid: s}, Delta: delta, NoJitter: o.noJitter, MaxGos: o.maxGos, BufferSize: o.bufSize,
		Clip: true, CubeMargin: o.margin, TriangleMode: o.mode}
	var m *model3d.Mesh
	var interior []c3
	if p := ev.Try(func() {
		if o.interior {
			m, interior = dc.MeshInterior()
		} else {
			m = dc.Mesh()
		}
	}); p != "" {
		r.Violation("dc/panic", c.Solid+" "+c.Opts+": panic: "+p, c)
		return
	}
	viol := func(kind, msg string) { r.Violation("dc/"+kind, c.Solid+" "+c.Opts+": "+msg, c) }
	xs, ys, zs, _ := model3d.VerifDcLattice(s.Min(), s.Max(), delta, o.noJitter, o.bufSize)
	nx, ny, nz := len(xs), len(ys), len(zs)
	corner := make([]bool, nx*ny*nz)
	for i := 0; i < nx; i++ {
		for j := 0; j < ny; j++ {
			for k := 0; k < nz; k++ {
				corner[i+nx*(j+ny*k)] = s.Contains(model3d.XYZ(xs[i], ys[j], zs[k]))
			}
		}
	}
	at := func(i, j, k int) bool { return corner[i+nx*(j+ny*k)] }
	type cell [3]int
	mixed := func(cl cell) bool {
		v := at(cl[0], cl[1], cl[2])
		for d := 1; d < 8; d++ {
			if at(cl[0]+d&1, cl[1]+d>>1&1, cl[2]+d>>2&1) != v {
				return true
			}
		}
		return false
	}
	// vertices strictly inside cells, one per mixed cell
	cellOf := map[c3]cell{}
	vertexOf := map[cell]c3{}
	for _, v := range m.VertexSlice() {
		var cl cell
		arr := v.Array()
		for a, vals := range [3][]float64{xs, ys, zs} {
			i := sort.SearchFloat64s(vals, arr[a])
			if i == 0 || i == len(vals) || vals[i] == arr[a] {
				viol("vertex-not-inside-a-cell", fmt.Sprintf("vertex %v is not strictly inside a lattice cell", v))
				return
			}
			cl[a] = i - 1
		}
		if !mixed(cl) {
			viol("vertex-in-uniform-cell", fmt.Sprintf("vertex %v lies in cell %v whose corners are all classified alike", v, cl))
			return
		}
		if old, ok := vertexOf[cl]; ok {
			viol("two-vertices-in-one-cell", fmt.Sprintf("vertices %v and %v both lie in cell %v", old, v, cl))
			return
		}
		vertexOf[cl] = v
		cellOf[v] = cl
	}
	// index triangles by their (sorted) cells
	type tkey [3]cell
	sortCells := func(a []cell) {
		sort.Slice(a, func(i, j int) bool {
			for d := 0; d < 3; d++ {
				if a[i][d] != a[j][d] {
					return a[i][d] < a[j][d]
				}
			}
			return false
		})
	}
	unused := map[*model3d.Triangle]bool{}
	byCells := map[tkey][]*model3d.Triangle{}
	m.Iterate(func(t *model3d.Triangle) {
		cs := []cell{cellOf[t[0]], cellOf[t[1]], cellOf[t[2]]}
		sortCells(cs)
		byCells[tkey{cs[0], cs[1], cs[2]}] = append(byCells[tkey{cs[0], cs[1], cs[2]}], t)
		unused[t] = true
	})
	lv := [3][]float64{xs, ys, zs}
	dims := [3]int{nx, ny, nz}
	active := 0
	for axis := 0; axis < 3; axis++ {
		u, w := (axis+1)%3, (axis+2)%3
		for i := 0; i < nx; i++ {
			for j := 0; j < ny; j++ {
				for k := 0; k < nz; k++ {
					idx := [3]int{i, j, k}
					if idx[axis]+1 >= dims[axis] {
						continue
					}
					hi := idx
					hi[axis]++
					a, b := at(i, j, k), at(hi[0], hi[1], hi[2])
					if a == b {
						continue
					}
					active++
					if idx[u] == 0 || idx[w] == 0 || idx[u] == dims[u]-1 || idx[w] == dims[w]-1 {
						viol("active-edge-on-lattice-boundary", fmt.Sprintf("lattice edge %v axis %d changes sign on the boundary of the lattice", idx, axis))
						return
					}
					var cells []cell
					for du := -1; du <= 0; du++ {
						for dw := -1; dw <= 0; dw++ {
							cl := cell(idx)
							cl[u] += du
							cl[w] += dw
							cells = append(cells, cl)
						}
					}
					for _, cl := range cells {
						if _, ok := vertexOf[cl]; !ok {
							viol("cell-without-vertex", fmt.Sprintf("cell %v has mixed corners but no vertex", cl))
							return
						}
					}
					// the two triangles of this edge's quad: triples of the four cells
					var quad []*model3d.Triangle
					for skip := 0; skip < 4; skip++ {
						var cs []cell
						for q, cl := range cells {
							if q != skip {
								cs = append(cs, cl)
							}
						}
						sortCells(cs)
						for _, t := range byCells[tkey{cs[0], cs[1], cs[2]}] {
							if unused[t] {
								quad = append(quad, t)
							}
						}
					}
					// a triple of cells can belong to the quads of up to 3 edges (one per axis) only if the cells are
					// mutually face/edge adjacent in an L shape, which 3 of the 4 cells around one edge always are, but around
					// exactly one edge: the triple determines the edge. So every triangle found belongs to this edge.
					if len(quad) != 2 {
						viol("edge-not-crossed-once", fmt.Sprintf("lattice edge %v axis %d changes sign but %d triangles (want 2 = one quad) connect the four cells around it", idx, axis, len(quad)))
						return
					}
					for _, t := range quad {
						unused[t] = false
					}
					// outline of the quad: edges of the two triangles that are not shared
					type de [2]c3
					cnt := map[[2]c3]int{}
					var des []de
					for _, t := range quad {
						for q := 0; q < 3; q++ {
							p0, p1 := t[q], t[(q+1)%3]
							des = append(des, de{p0, p1})
							k0, k1 := p0, p1
							if less(k1, k0) {
								k0, k1 = k1, k0
							}
							cnt[[2]c3{k0, k1}]++
						}
					}
					// direction contained -> excluded
					dirSign := 1.0
					if !a {
						dirSign = -1
					}
					ex, ey := lv[u][idx[u]], lv[w][idx[w]]
					total := 0.0
					outline := 0
					for _, d := range des {
						k0, k1 := d[0], d[1]
						if less(k1, k0) {
							k0, k1 = k1, k0
						}
						if cnt[[2]c3{k0, k1}] != 1 {
							continue
						}
						outline++
						ax, ay := d[0].Array()[u]-ex, d[0].Array()[w]-ey
						bx, by := d[1].Array()[u]-ex, d[1].Array()[w]-ey
						total += math.Atan2(ax*by-ay*bx, ax*bx+ay*by)
					}
					wn := total / (2 * math.Pi) * dirSign
					if outline != 4 || !(math.Abs(wn-1) <= 1e-6) {
						viol("quad-orientation", fmt.Sprintf("lattice edge %v axis %d (contained end first=%v): the quad's outline (%d edges) winds %.3f times around the edge in the direction contained -> excluded, want +1", idx, axis, a, outline, wn))
						return
					}
				}
			}
		}
	}
	for t, u := range unused {
		if u {
			viol("extra-triangle", fmt.Sprintf("triangle %v does not belong to the quad of any sign-changing lattice edge", *t))
			return
		}
	}
	for cl := range vertexOf {
		_ = cl
	}
	if o.interior {
		if len(interior) != active {
			viol("interior-count", fmt.Sprintf("%d interior points for %d sign-changing edges", len(interior), active))
		}
		for _, p := range interior {
			if !s.Contains(p) {
				viol("interior-point-not-contained", fmt.Sprintf("interior point %v is not contained in the solid", p))
				break
			}
		}
	}
	if active > 0 {
		r.NontrivialAdd(1)
	}
}

func less(a, b c3) bool {
	if a.X != b.X {
		return a.X < b.X
	}
	if a.Y != b.Y {
		return a.Y < b.Y
	}
	return a.Z < b.Z
}

func dcOptions(full bool) []dcOpts {
	var out []dcOpts
	for mode := 0; mode < 3; mode++ {
		for _, nj := range []bool{false, true} {
			for _, gos := range []int{1, 3} {
				for _, buf := range []int{0, 1} { // 1 => the 4-row minimum: maximal number of Shift()s
					for _, mg := range []float64{0, 0.1, 0.45} {
						if !full && (mode+gos+buf)%2 == 1 && mg != 0 {
							continue
						}
						out = append(out, dcOpts{model3d.DualContouringTriangleMode(mode), nj, gos, buf, mg, mode == 0})
					}
				}
			}
		}
	}
	return out
}

// ---------------------------------------------------------------- main

func main() {
	r := ev.Start("C02", "exploration")
	r.Rule("distinct_nontrivial = mesher runs whose solid has at least one sign-changing lattice edge (every clause of the oracle is then exercised)")
	r.Assume("lattice solids: transitions at fractions {1/8,1/3,1/2,7/8} of the edges; the voxel solid (exact midpoints) only on the dyadic placement",
		"CSG solids: lattice points closer than 1e-6 x spacing to a mesh vertex are not judged for the side-of-surface clause",
		"dual contouring is judged with Clip=true and Repair=false (Repair deliberately displaces vertices)",
		"the transition clause is decided by 65 samples of membership within spacing/2^iterations of the vertex along its edge")
	full := r.Thorough()
	if r.Replay != "" {
		var c gcase
		r.LoadReplay(&c)
		switch c.Algo {
		case "MarchingCubes":
			n := [3]int{c.N[0], c.N[1], c.N[2]}
			o := model3d.XYZ(c.Origin[0], c.Origin[1], c.Origin[2])
			checkMC(r, c, &offSolid{lat.NewSolid3(o, c.Delta, n, c.Bits), c.Kind}, c.Delta, c.Iters, c.Iters == 2, true, 0)
		case "MarchingSquares":
			checkMS(r, c, &offSolid2{lat.NewSolid2(model2d.XY(c.Origin[0], c.Origin[1]), c.Delta, [2]int{c.N[0], c.N[1]}, c.Bits), c.Kind}, c.Delta, c.Iters)
		case "SolidSurfaceEstimator", "SolidSurfaceEstimator.Normal":
			estimatorStage(r, true)
		case "DualContourShortcuts", "DualContourSDF":
			dcShortcutStage(r, true)
		case "MarchingCubesConj":
			conjStage(r, true)
		default:
			csgStage(r, true)
			dcStage(r, true)
		}
		r.Finish()
	}
	r.Isolate("mc-lattice", func() {
		if full {
			mcLattice(r, [3]int{3, 2, 2}, 1)
			mcLattice(r, [3]int{2, 3, 2}, 1)
			mcLattice(r, [3]int{2, 2, 3}, 1)
			mcLattice(r, [3]int{3, 3, 2}, 16)
		} else {
			mcLattice(r, [3]int{3, 2, 2}, 4)
			mcLattice(r, [3]int{2, 2, 2}, 1)
		}
		r.Sample(gcase{Algo: "MarchingCubes", Solid: "lattice [3 2 2] bits 0xa5b kind 2", N: []int{3, 2, 2}, Bits: 0xa5b, Kind: 2, Origin: []float64{0.1, -0.7, 2.3}, Delta: 0.3, Iters: 2})
	})
	r.Isolate("ms-lattice", func() {
		msLattice(r, [2]int{3, 3})
		if full {
			msLattice(r, [2]int{4, 3})
			msLattice(r, [2]int{4, 4})
		} else {
			msLattice(r, [2]int{4, 2})
		}
	})
	r.Isolate("csg", func() { csgStage(r, full) })
	r.Isolate("dc", func() { dcStage(r, full) })
	r.Isolate("estimator", func() { estimatorStage(r, full) })
	r.Isolate("dc-shortcuts", func() { dcShortcutStage(r, full) })
	r.Isolate("conj", func() { conjStage(r, full) })
	r.Finish()
}

func csgStage(r *ev.Run, full bool) {
	sols := csgSolids(full)
	type job struct {
		s     namedSolid
		delta float64
		iters int
	}
	var jobs []job
	for _, s := range sols {
		if !nonEmpty(s.s) {
			continue
		}
		for _, d := range []float64{0.5, 0.23} {
			for _, it := range []int{0, 2, 5} {
				jobs = append(jobs, job{s, d, it})
			}
		}
	}
	ev.Parallel(len(jobs), 0, func(i int) {
		j := jobs[i]
		c := gcase{Algo: "MarchingCubesCSG", Solid: j.s.name, Delta: j.delta, Iters: j.iters, Opts: fmt.Sprintf("delta=%g iters=%d", j.delta, j.iters)}
		checkMC(r, c, j.s.s, j.delta, j.iters, j.iters == 2, true, 1e-6*j.delta)
	})
	r.Set("csg_runs", len(jobs))
	// boxes whose faces coincide (up to rounding) with lattice planes of a spacing that is not exactly
	// representable, long enough for the accumulated lattice coordinates to drift from origin + k*delta: the
	// transition of every sign-changing edge then sits at, or one ulp beside, one of its ends
	var aligned []job
	for _, d := range []float64{0.1, 0.3, 0.7, 1.0 / 3} {
		for _, k := range [][3]int{{15, 4, 3}, {3, 11, 2}, {2, 3, 13}, {7, 7, 7}} {
			for _, org := range []c3{{}, model3d.XYZ(0.1, -0.3, 0.7)} {
				mn := org
				mx := org.Add(model3d.XYZ(float64(k[0])*d, float64(k[1])*d, float64(k[2])*d))
				for _, it := range []int{1, 4} {
					aligned = append(aligned, job{namedSolid{fmt.Sprintf("Rect(%v,%v)", mn, mx), model3d.NewRect(mn, mx)}, d, it})
				}
			}
		}
	}
	ev.Parallel(len(aligned), 0, func(i int) {
		j := aligned[i]
		c := gcase{Algo: "MarchingCubesAligned", Solid: j.s.name, Delta: j.delta, Iters: j.iters, Opts: fmt.Sprintf("delta=%g iters=%d", j.delta, j.iters)}
		checkMC(r, c, j.s.s, j.delta, j.iters, j.iters == 4, false, 0)
	})
	r.Set("lattice_aligned_box_runs", len(aligned))
}

func dcStage(r *ev.Run, full bool) {
	opts := dcOptions(full)
	type job struct {
		c     gcase
		s     model3d.Solid
		delta float64
		o     dcOpts
	}
	var jobs []job
	// lattice (voxel) solids: every assignment of 2x2x2, a strided part of 3x2x2
	add := func(n [3]int, bits uint64, oi int) {
		s := lat.NewSolid3(model3d.XYZ(0.1, -0.7, 2.3), 0.3, n, bits)
		o := opts[oi%len(opts)]
		jobs = append(jobs, job{gcase{Algo: "DualContouring", Solid: fmt.Sprintf("voxel lattice %v bits %#x", n, bits), N: n[:], Bits: bits, Delta: 0.3, Opts: o.String()}, s, 0.3, o})
	}
	for bits := uint64(1); bits < 256; bits++ {
		for oi := range opts {
			if full || (int(bits)+oi)%4 == 0 {
				add([3]int{2, 2, 2}, bits, oi)
			}
		}
	}
	step := uint64(7)
	if full {
		step = 1
	}
	for bits := uint64(1); bits < 4096; bits += step {
		add([3]int{3, 2, 2}, bits, int(bits))
		if full {
			add([3]int{2, 2, 3}, bits, int(bits)+5)
		}
	}
	for si, s := range csgSolids(false) {
		if !nonEmpty(s.s) {
			continue
		}
		for di, d := range []float64{0.5, 0.23} {
			for oi, o := range opts {
				if !full && (si+di+oi)%3 != 0 {
					continue
				}
				jobs = append(jobs, job{gcase{Algo: "DualContouring", Solid: s.name, Delta: d, Opts: o.String()}, s.s, d, o})
			}
		}
	}
	ev.Parallel(len(jobs), 0, func(i int) { checkDC(r, jobs[i].c, jobs[i].s, jobs[i].delta, jobs[i].o) })
	r.Set("dc_runs", len(jobs))
	r.Set("dc_option_combinations", len(opts))
	r.Sample(gcase{Algo: "DualContouring", Solid: "(sphere-rect)", Delta: 0.23, Opts: opts[3].String()})
}
