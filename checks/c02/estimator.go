package main

// The surface estimators (model3d / model2d SolidSurfaceEstimator) driven directly, not through a mesher: every
// inside/outside pattern of K cells along a segment, both orders of the end points, every bisection count of the
// alphabet. The solid is a pattern along the segment, so every transition is known exactly.
//
//   BisectInterpRange: the returned range has width (max-min)/2^count, its upper end is contained whenever the upper
//                      end it was given is, its lower end is excluded whenever the lower end it was given is;
//   BisectInterp:      the midpoint of that range;
//   Bisect:            (ends on different sides, either order) within |p2-p1|/2^(count+1) of a real transition;
//   BisectInterior:    (one end contained, either order, or both) a contained point, within |p2-p1|/2^count of a
//                      point that is not contained unless both ends are contained;
//   Normal:            on a half space, at a point of the plane: unit, pointing from the contained side to the
//                      excluded side; the bisection method within 1e-3 rad of the plane's normal, the random-search
//                      method in the outward hemisphere (every term of its sum is).
//
// Also here: the shortcut entry points of dual contouring (DualContour, DualContourInterior, DualContourSDF) against
// the configured struct that the dual-contouring stage judges.

import (
	"fmt"
	"math"
	"sort"

	"verif/lib/ev"
	"verif/lib/lat"

	"github.com/unixpickle/model3d/model2d"
	"github.com/unixpickle/model3d/model3d"
)

type estCase struct {
	Algo    string    `json:"algorithm"`
	Dim     int       `json:"dim"`
	Seg     []float64 `json:"segment"`
	Pattern uint      `json:"pattern"`
	Cells   int       `json:"cells"`
	Count   int       `json:"bisect_count"`
	Swap    bool      `json:"ends_swapped"`
	Normal  []float64 `json:"normal,omitempty"`
}

const estCells = 7 // odd: the library's dyadic midpoints never fall on a cell boundary except at the ends

type patSolid3 struct {
	a, b    c3
	pattern uint
}

func (p *patSolid3) t(c c3) float64 {
	d := p.b.Sub(p.a)
	return c.Sub(p.a).Dot(d) / d.Dot(d)
}
func patAt(pattern uint, t float64) bool {
	k := int(math.Floor(t * estCells))
	if k < 0 {
		k = 0
	}
	if k >= estCells {
		k = estCells - 1
	}
	return pattern>>uint(k)&1 == 1
}
func (p *patSolid3) Contains(c c3) bool { return patAt(p.pattern, p.t(c)) }
func (p *patSolid3) Min() c3            { return p.a.Min(p.b).AddScalar(-1) }
func (p *patSolid3) Max() c3            { return p.a.Max(p.b).AddScalar(1) }

type patSolid2 struct {
	a, b    model2d.Coord
	pattern uint
}

func (p *patSolid2) t(c model2d.Coord) float64 {
	d := p.b.Sub(p.a)
	return c.Sub(p.a).Dot(d) / d.Dot(d)
}
func (p *patSolid2) Contains(c model2d.Coord) bool { return patAt(p.pattern, p.t(c)) }
func (p *patSolid2) Min() model2d.Coord            { return p.a.Min(p.b).AddScalar(-1) }
func (p *patSolid2) Max() model2d.Coord            { return p.a.Max(p.b).AddScalar(1) }

// distance (in segment parameter) from t to the nearest change of the pattern
func transitionDist(pattern uint, t float64) float64 {
	best := math.Inf(1)
	for k := 1; k < estCells; k++ {
		if pattern>>uint(k)&1 != pattern>>uint(k-1)&1 {
			best = math.Min(best, math.Abs(t-float64(k)/estCells))
		}
	}
	return best
}

type estAPI struct {
	rng      func(count int, p1First bool, min, max float64) (float64, float64)
	interp   func(count int, p1First bool, min, max float64) float64
	bisect   func(count int, p1First bool) float64 // returns the segment parameter (a = 0, b = 1) of the result
	interior func(count int, p1First bool) float64
	offLine  func(count int, p1First bool) float64 // distance of Bisect's result from the segment's line / length
	// the solid's own answer at p1 + (p2-p1)*alpha, the point the estimator's contract speaks about (formed the way
	// the estimator forms it, so that it is the very point that was tested)
	containsAt func(p1First bool, alpha float64) bool
}

func estimatorStage(r *ev.Run, full bool) {
	// 56 and 64 halvings go below the spacing of the floating-point numbers: the range cannot shrink any further,
	// but its ends must still be the points that were tested (the upper one contained, the lower one excluded)
	counts := []int{0, 1, 2, 3, 5, 11, 56, 64}
	segs3 := [][2]c3{{model3d.XYZ(0, 0, 0), model3d.XYZ(1, 0, 0)}, {model3d.XYZ(0.3, -0.2, 0.9), model3d.XYZ(-1.1, 0.4, 0.2)}, {model3d.XYZ(5, 5, 5), model3d.XYZ(5, 5, 5.001)},
		{model3d.XYZ(-100, 40, 3), model3d.XYZ(260, -17, 80)}}
	segs2 := [][2]model2d.Coord{{model2d.XY(0, 0), model2d.XY(0, 1)}, {model2d.XY(0.3, -0.2), model2d.XY(-1.1, 0.4)}, {model2d.XY(5, 5), model2d.XY(5.001, 5)}, {model2d.XY(-100, 40), model2d.XY(260, -17)}}
	if !full {
		counts = []int{0, 1, 3, 11, 56}
	}
	var nt int
	for dim := 3; dim >= 2; dim-- {
		for si := 0; si < 4; si++ {
			for pattern := uint(0); pattern < 1<<estCells; pattern++ {
				var api estAPI
				var seg []float64
				if dim == 3 {
					a, b := segs3[si][0], segs3[si][1]
					ps := &patSolid3{a, b, pattern}
					ends := func(p1First bool) (c3, c3) {
						if p1First {
							return a, b
						}
						return b, a
					}
					mk := func(count int) *model3d.SolidSurfaceEstimator {
						return &model3d.SolidSurfaceEstimator{Solid: ps, BisectCount: count}
					}
					api = estAPI{
						rng: func(count int, f bool, mn, mx float64) (float64, float64) {
							p1, p2 := ends(f)
							return mk(count).BisectInterpRange(p1, p2, mn, mx)
						},
						interp: func(count int, f bool, mn, mx float64) float64 {
							p1, p2 := ends(f)
							return mk(count).BisectInterp(p1, p2, mn, mx)
						},
						bisect:   func(count int, f bool) float64 { p1, p2 := ends(f); return ps.t(mk(count).Bisect(p1, p2)) },
						interior: func(count int, f bool) float64 { p1, p2 := ends(f); return ps.t(mk(count).BisectInterior(p1, p2)) },
						offLine: func(count int, f bool) float64 {
							p1, p2 := ends(f)
							x := mk(count).Bisect(p1, p2)
							sg := model3d.NewSegment(a, b)
							return sg.Dist(x) / a.Dist(b)
						},
						containsAt: func(f bool, alpha float64) bool {
							p1, p2 := ends(f)
							return ps.Contains(p1.Add(p2.Sub(p1).Scale(alpha)))
						},
					}
					seg = []float64{a.X, a.Y, a.Z, b.X, b.Y, b.Z}
				} else {
					a, b := segs2[si][0], segs2[si][1]
					ps := &patSolid2{a, b, pattern}
					ends := func(p1First bool) (model2d.Coord, model2d.Coord) {
						if p1First {
							return a, b
						}
						return b, a
					}
					mk := func(count int) *model2d.SolidSurfaceEstimator {
						return &model2d.SolidSurfaceEstimator{Solid: ps, BisectCount: count}
					}
					api = estAPI{
						rng: func(count int, f bool, mn, mx float64) (float64, float64) {
							p1, p2 := ends(f)
							return mk(count).BisectInterpRange(p1, p2, mn, mx)
						},
						interp: func(count int, f bool, mn, mx float64) float64 {
							p1, p2 := ends(f)
							return mk(count).BisectInterp(p1, p2, mn, mx)
						},
						bisect:   func(count int, f bool) float64 { p1, p2 := ends(f); return ps.t(mk(count).Bisect(p1, p2)) },
						interior: func(count int, f bool) float64 { p1, p2 := ends(f); return ps.t(mk(count).BisectInterior(p1, p2)) },
						offLine: func(count int, f bool) float64 {
							p1, p2 := ends(f)
							x := mk(count).Bisect(p1, p2)
							sg := model2d.Segment{a, b}
							return sg.Dist(x) / a.Dist(b)
						},
						containsAt: func(f bool, alpha float64) bool {
							p1, p2 := ends(f)
							return ps.Contains(p1.Add(p2.Sub(p1).Scale(alpha)))
						},
					}
					seg = []float64{a.X, a.Y, b.X, b.Y}
				}
				in0, in1 := pattern&1 == 1, pattern>>(estCells-1)&1 == 1
				for _, count := range counts {
					n := count
					if n == 0 {
						n = 32
					}
					w := math.Ldexp(1, -n)
					for _, first := range []bool{true, false} {
						c := estCase{Algo: "SolidSurfaceEstimator", Dim: dim, Seg: seg, Pattern: pattern, Cells: estCells, Count: count, Swap: !first}
						viol := func(kind, msg string) {
							r.Violation(fmt.Sprintf("estimator%dd/%s", dim, kind), fmt.Sprintf("pattern %07b count %d swapped=%v: %s", pattern, count, !first, msg), c)
						}
						r.Eval(1)
						p1In, p2In := in0, in1
						if !first {
							p1In, p2In = in1, in0
						}
						// range on the full segment and on a sub-range
						for _, mm := range [][2]float64{{0, 1}, {0.25, 1}, {0, 0.6}} {
							loIn, hiIn := api.containsAt(first, mm[0]), api.containsAt(first, mm[1])
							lo, hi := api.rng(count, first, mm[0], mm[1])
							if n > 45 {
								// below the resolution of the parameter: only "inside the given range, not wider than one step"
								if !(lo >= mm[0] && hi <= mm[1] && hi-lo <= 4e-16) {
									viol("range-width", fmt.Sprintf("BisectInterpRange(%g,%g) = (%g,%g) after %d halvings", mm[0], mm[1], lo, hi, n))
									continue
								}
							} else if !(math.Abs((hi-lo)-(mm[1]-mm[0])*w) <= 1e-12*w+1e-15) || !(lo >= mm[0] && hi <= mm[1]) {
								viol("range-width", fmt.Sprintf("BisectInterpRange(%g,%g) = (%g,%g): width is not (max-min)/2^%d inside the given range", mm[0], mm[1], lo, hi, n))
								continue
							}
							if hiIn && !api.containsAt(first, hi) {
								viol("range-upper-end-not-contained", fmt.Sprintf("BisectInterpRange(%g,%g) = (%g,%g): the given upper end is contained, the returned one is not", mm[0], mm[1], lo, hi))
							}
							if !loIn && api.containsAt(first, lo) {
								viol("range-lower-end-contained", fmt.Sprintf("BisectInterpRange(%g,%g) = (%g,%g): the given lower end is excluded, the returned one is contained", mm[0], mm[1], lo, hi))
							}
							if got := api.interp(count, first, mm[0], mm[1]); !(math.Abs(got-(lo+hi)/2) <= 1e-15) {
								viol("interp-not-midpoint", fmt.Sprintf("BisectInterp(%g,%g) = %g, the range is (%g,%g)", mm[0], mm[1], got, lo, hi))
							}
						}
						if p1In != p2In {
							nt++
							t := api.bisect(count, first)
							if d := transitionDist(pattern, t); !(d <= w/2*(1+1e-9)+1e-9) {
								viol("bisect-far-from-transition", fmt.Sprintf("Bisect returned parameter %g, the nearest transition is %g away, more than 1/2^%d", t, d, n+1))
							}
							if off := api.offLine(count, first); !(off <= 1e-12) {
								viol("bisect-off-segment", fmt.Sprintf("Bisect returned a point %g segment lengths off the segment", off))
							}
						}
						if p1In || p2In {
							t := api.interior(count, first)
							if !patAt(pattern, t) {
								viol("interior-not-contained", fmt.Sprintf("BisectInterior returned parameter %g, which is not contained", t))
							} else if p1In != p2In {
								if d := transitionDist(pattern, t); !(d <= w*(1+1e-9)+1e-9) {
									viol("interior-far-from-surface", fmt.Sprintf("BisectInterior returned parameter %g, the nearest transition is %g away, more than 1/2^%d", t, d, n))
								}
							}
						}
					}
				}
			}
		}
	}
	r.NontrivialAdd(nt)
	// normals of half spaces
	for ai, ax := range dirAlphabet3() {
		n := ax.Normalize()
		for _, off := range []float64{0, 0.7, -130} {
			hs := &halfSpace3{n, off}
			for _, q := range []c3{{}, model3d.XYZ(0.3, -2, 1), model3d.XYZ(40, 40, -7)} {
				p := q.Sub(n.Scale(q.Dot(n) - off)) // on the plane
				for _, samples := range []int{0, 6, 7, 12, 40, 41} {
					for _, eps := range []float64{0, 1e-2} {
						c := estCase{Algo: "SolidSurfaceEstimator.Normal", Dim: 3, Seg: []float64{p.X, p.Y, p.Z}, Count: samples, Normal: []float64{n.X, n.Y, n.Z}}
						r.Eval(1)
						est := &model3d.SolidSurfaceEstimator{Solid: hs, NormalSamples: samples, NormalBisectEpsilon: eps}
						got := est.Normal(p)
						ns := samples
						if ns == 0 {
							ns = 40
						}
						tol := 4*math.Ldexp(1, -(ns-4)/2) + 1e-3
						if !(math.Abs(got.Norm()-1) <= 1e-9) || !(got.Dot(n) > 0) || !(got.Cross(n).Norm() <= tol) {
							r.Violation("estimator3d/normal", fmt.Sprintf("half space with outward normal %v, point %v, samples %d eps %g: Normal = %v", n, p, samples, eps, got), c)
						}
						if ai == 0 && samples == 40 {
							rs := &model3d.SolidSurfaceEstimator{Solid: hs, RandomSearchNormals: true, NormalNoiseEpsilon: eps}
							g2 := rs.Normal(p)
							if !(math.Abs(g2.Norm()-1) <= 1e-9) || !(g2.Dot(n) > 0) {
								r.Violation("estimator3d/random-search-normal", fmt.Sprintf("half space with outward normal %v, point %v: random-search Normal = %v is not in the outward hemisphere", n, p, g2), c)
							}
						}
					}
				}
			}
		}
	}
	for _, ax := range []model2d.Coord{{X: 1}, {Y: 1}, {X: -1}, {X: 1, Y: 1}, {X: -0.3, Y: 2}, {X: 1, Y: -1e-3}, {X: 2e-6, Y: -1}} {
		n := ax.Normalize()
		for _, off := range []float64{0, 0.7, -130} {
			hs := &halfSpace2{n, off}
			for _, q := range []model2d.Coord{{}, model2d.XY(0.3, -2), model2d.XY(40, -7)} {
				p := q.Sub(n.Scale(q.Dot(n) - off))
				for _, samples := range []int{0, 4, 5, 12, 40} {
					c := estCase{Algo: "SolidSurfaceEstimator.Normal", Dim: 2, Seg: []float64{p.X, p.Y}, Count: samples, Normal: []float64{n.X, n.Y}}
					r.Eval(1)
					est := &model2d.SolidSurfaceEstimator{Solid: hs, NormalSamples: samples}
					got := est.Normal(p)
					ns := samples
					if ns == 0 {
						ns = 40
					}
					tol := 4*math.Ldexp(1, -(ns-2)/2) + 1e-3
					if !(math.Abs(got.Norm()-1) <= 1e-9) || !(got.Dot(n) > 0) || !(math.Abs(got.X*n.Y-got.Y*n.X) <= tol) {
						r.Violation("estimator2d/normal", fmt.Sprintf("half plane with outward normal %v, point %v, samples %d: Normal = %v", n, p, samples, got), c)
					}
				}
			}
		}
	}
	r.Sample(estCase{Algo: "SolidSurfaceEstimator", Dim: 3, Seg: []float64{0, 0, 0, 1, 0, 0}, Pattern: 0b0110100, Cells: estCells, Count: 3})
}

func dirAlphabet3() []c3 {
	return []c3{{X: 1}, {Y: 1}, {Z: 1}, {Z: -1}, {X: 1, Y: 1}, {Y: 1, Z: -1}, {X: 1, Y: 1, Z: 1}, {X: -1, Y: 2, Z: 0.5}, {X: 1, Y: 1e-3}, {X: 0.3, Y: -0.2, Z: 0.9},
		// the estimator's own probe directions and their plane
		{X: -0.7107294727984605, Y: -0.12934902142019175, Z: 0.6914712193238857}, {X: 0.09870891687574183, Y: -0.9915624053549226, Z: -0.08402705526185106},
		{X: 0.696505682837434, Y: 0.008533870423146774, Z: 0.7175005274080017}}
}

type halfSpace3 struct {
	n   c3
	off float64
}

func (h *halfSpace3) Contains(c c3) bool { return c.Dot(h.n) < h.off }
func (h *halfSpace3) Min() c3            { return model3d.XYZ(-1e3, -1e3, -1e3) }
func (h *halfSpace3) Max() c3            { return model3d.XYZ(1e3, 1e3, 1e3) }

type halfSpace2 struct {
	n   model2d.Coord
	off float64
}

func (h *halfSpace2) Contains(c model2d.Coord) bool { return c.Dot(h.n) < h.off }
func (h *halfSpace2) Min() model2d.Coord            { return model2d.XY(-1e3, -1e3) }
func (h *halfSpace2) Max() model2d.Coord            { return model2d.XY(1e3, 1e3) }

// ---------------------------------------------------------------- shortcut entry points of dual contouring

func triKeys(m *model3d.Mesh) []string {
	var out []string
	m.Iterate(func(t *model3d.Triangle) {
		// rotation-invariant, orientation-sensitive
		best := ""
		for k := 0; k < 3; k++ {
			s := fmt.Sprint(t[k], t[(k+1)%3], t[(k+2)%3])
			if best == "" || s < best {
				best = s
			}
		}
		out = append(out, best)
	})
	sort.Strings(out)
	return out
}

// snapTo moves every vertex of m to the nearest vertex of ref if that is within tol (left alone otherwise).
func snapTo(m, ref *model3d.Mesh, tol float64) *model3d.Mesh {
	rv := ref.VertexSlice()
	return m.MapCoords(func(c c3) c3 {
		best, bd := c, tol
		for _, v := range rv {
			if d := v.Dist(c); d <= bd {
				best, bd = v, d
			}
		}
		return best
	})
}

func sameKeys(a, b []string) bool {
	if len(a) != len(b) {
		return false
	}
	for i := range a {
		if a[i] != b[i] {
			return false
		}
	}
	return true
}

func dcShortcutStage(r *ev.Run, full bool) {
	type job struct {
		name  string
		s     model3d.Solid
		delta float64
	}
	var jobs []job
	step := uint64(5)
	if full {
		step = 1
	}
	for bits := uint64(1); bits < 256; bits += step {
		jobs = append(jobs, job{fmt.Sprintf("voxel lattice [2 2 2] bits %#x", bits), lat.NewSolid3(model3d.XYZ(0.1, -0.7, 2.3), 0.3, [3]int{2, 2, 2}, bits), 0.3})
	}
	for _, s := range csgSolids(false) {
		if nonEmpty(s.s) {
			jobs = append(jobs, job{s.name, s.s, 0.37})
		}
	}
	ev.Parallel(len(jobs), 0, func(i int) {
		j := jobs[i]
		for _, repair := range []bool{false, true} {
			for _, clip := range []bool{false, true} {
				r.Eval(1)
				c := gcase{Algo: "DualContourShortcuts", Solid: j.name, Delta: j.delta, Opts: fmt.Sprintf("repair=%v clip=%v", repair, clip)}
				var want, got, gotI *model3d.Mesh
				var interior []c3
				if p := ev.Try(func() {
					want = (&model3d.DualContouring{S: model3d.SolidSurfaceEstimator{Solid: j.s}, Delta: j.delta, Repair: repair, Clip: clip}).Mesh()
					got = model3d.DualContour(j.s, j.delta, repair, clip)
					gotI, interior = model3d.DualContourInterior(j.s, j.delta, repair, clip)
				}); p != "" {
					if repair && !clip {
						continue // Repair without Clip is allowed to fail on self-intersecting output
					}
					r.Violation("dc-shortcut/panic", c.Solid+" "+c.Opts+": panic: "+p, c)
					continue
				}
				wk := triKeys(want)
				if !sameKeys(wk, triKeys(got)) {
					r.Violation("dc-shortcut/DualContour", c.Solid+" "+c.Opts+": DualContour differs from the DualContouring it is documented to configure", c)
				}
				// MeshInterior places edge crossings at the contained end of the bisection bracket, Mesh at its
				// middle: the vertices agree to within the bracket, the connectivity exactly
				// (judged without Repair: it moves vertices by 0.005 spacings depending on which edges come out singular)
				if !repair && !sameKeys(wk, triKeys(snapTo(gotI, want, 1e-6*j.delta))) {
					// On curved solids the shifted crossings move the cell vertices a little more and can turn
					// the diagonal of a quad whose two splittings tie: one vertex per vertex and as many faces remain
					far := 0.0
					wv := want.VertexSlice()
					for _, v := range gotI.VertexSlice() {
						bd := math.Inf(1)
						for _, w := range wv {
							bd = math.Min(bd, w.Dist(v))
						}
						far = math.Max(far, bd)
					}
					if gotI.NumTriangles() != want.NumTriangles() || len(gotI.VertexSlice()) != len(wv) || !(far <= 1e-3*j.delta) {
						r.Violation("dc-shortcut/DualContourInterior-mesh", fmt.Sprintf("%s %s: the mesh of DualContourInterior differs from DualContour's (%d/%d faces, %d/%d vertices, farthest vertex %g from its counterpart)",
							c.Solid, c.Opts, gotI.NumTriangles(), want.NumTriangles(), len(gotI.VertexSlice()), len(wv), far), c)
					}
				}
				if want.NumTriangles() > 0 && len(interior) == 0 {
					r.Violation("dc-shortcut/DualContourInterior-empty", c.Solid+" "+c.Opts+": a non-empty mesh but no interior points", c)
				}
				for _, p := range interior {
					if !j.s.Contains(p) {
						r.Violation("dc-shortcut/DualContourInterior-point", fmt.Sprintf("%s %s: interior point %v is not contained", c.Solid, c.Opts, p), c)
						break
					}
				}
				if want.NumTriangles() > 0 {
					r.NontrivialAdd(1)
				}
			}
		}
		// DualContourSDF: magnitude = distance to the unrepaired, unclipped mesh; sign = the solid's own answer
		r.Eval(1)
		c := gcase{Algo: "DualContourSDF", Solid: j.name, Delta: j.delta}
		var sdf model3d.FaceSDF
		var mesh *model3d.Mesh
		if p := ev.Try(func() {
			sdf = model3d.DualContourSDF(j.s, j.delta)
			mesh = model3d.DualContour(j.s, j.delta, false, false)
		}); p != "" {
			r.Violation("dc-shortcut/sdf-panic", c.Solid+": panic: "+p, c)
			return
		}
		if mesh.NumTriangles() == 0 {
			return
		}
		tris := mesh.TriangleSlice()
		mn, mx := j.s.Min().Min(mesh.Min()), j.s.Max().Max(mesh.Max())
		if sdf.Min().Min(mn) != sdf.Min() || sdf.Max().Max(mx) != sdf.Max() {
			r.Violation("dc-shortcut/sdf-bounds", fmt.Sprintf("%s: bounds %v..%v of the SDF do not cover the solid and the mesh (%v..%v)", c.Solid, sdf.Min(), sdf.Max(), mn, mx), c)
		}
		const g = 5
		for a := 0; a <= g; a++ {
			for b := 0; b <= g; b++ {
				for d := 0; d <= g; d++ {
					p := model3d.XYZ(mn.X+(mx.X-mn.X)*(float64(a)+0.37)/g, mn.Y+(mx.Y-mn.Y)*(float64(b)-0.21)/g, mn.Z+(mx.Z-mn.Z)*(float64(d)+0.11)/g)
					dist := math.Inf(1)
					for _, t := range tris {
						dist = math.Min(dist, t.Dist(p))
					}
					got := sdf.SDF(p)
					if !(math.Abs(math.Abs(got)-dist) <= 1e-9*(1+dist)) {
						r.Violation("dc-shortcut/sdf-magnitude", fmt.Sprintf("%s: |SDF(%v)| = %g, the mesh is %g away", c.Solid, p, math.Abs(got), dist), c)
						return
					}
					if dist > 1e-9 && (got > 0) != j.s.Contains(p) {
						r.Violation("dc-shortcut/sdf-sign", fmt.Sprintf("%s: SDF(%v) = %g but the solid says contained=%v", c.Solid, p, got, j.s.Contains(p)), c)
						return
					}
				}
			}
		}
	})
}

// ---------------------------------------------------------------- conjugated marching cubes / squares

// conjStage: MarchingCubesConj(s, d, iters, t1, t2) is "MarchingCubesSearch in the transformed space, carried back":
// the search result for TransformSolid(t1 then t2, s) - which the lattice stages judge - is carried back here by the
// inverses applied in reverse order (written out in the harness, not taken from JoinedTransform.Inverse), and must be
// the returned mesh, face by face. Pairs that do not commute, in both orders.
func conjStage(r *ev.Run, full bool) {
	rot := model3d.Rotation(model3d.XYZ(0.3, -0.2, 0.9).Normalize(), 0.7)
	type step struct {
		name string
		t    model3d.Transform
	}
	steps := []step{
		{"Rotation", rot},
		{"Translate", &model3d.Translate{Offset: model3d.XYZ(0.7, -1.3, 0.4)}},
		{"VecScale", &model3d.VecScale{Scale: model3d.XYZ(1.5, 0.75, 2)}},
		{"Scale", &model3d.Scale{Scale: 0.5}},
	}
	solids := csgSolids(false)
	if !full && len(solids) > 4 {
		solids = solids[:4]
	}
	for _, s := range solids {
		if !nonEmpty(s.s) {
			continue
		}
		for i, a := range steps {
			for j, b := range steps {
				if i == j {
					continue
				}
				r.Eval(1)
				c := gcase{Algo: "MarchingCubesConj", Solid: s.name, Delta: 0.31, Iters: 2, Opts: a.name + " then " + b.name}
				var got, fwd *model3d.Mesh
				if p := ev.Try(func() {
					got = model3d.MarchingCubesConj(s.s, 0.31, 2, a.t, b.t)
					fwd = model3d.MarchingCubesSearch(model3d.TransformSolid(b.t, model3d.TransformSolid(a.t, s.s)), 0.31, 2)
				}); p != "" {
					r.Violation("conj/panic", c.Solid+" "+c.Opts+": panic: "+p, c)
					continue
				}
				ai, bi := a.t.Inverse(), b.t.Inverse()
				want := fwd.MapCoords(func(p c3) c3 { return ai.Apply(bi.Apply(p)) })
				if want.NumTriangles() != got.NumTriangles() || !sameKeys(triKeys(snapTo(got, want, 1e-9)), triKeys(want)) {
					r.Violation("conj/not-the-pulled-back-mesh", fmt.Sprintf("%s, %s: MarchingCubesConj (%d faces) is not the searched mesh of the transformed solid carried back (%d faces)", c.Solid, c.Opts, got.NumTriangles(), want.NumTriangles()), c)
					continue
				}
				if got.NumTriangles() > 0 {
					r.NontrivialAdd(1)
				}
			}
		}
	}
}
