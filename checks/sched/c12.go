package main

import (
	"fmt"
	"sort"
	"strings"

	"github.com/unixpickle/model3d/model2d"
	"github.com/unixpickle/model3d/model3d"

	"verif/lib/lat"
	"verif/lib/meshq"
	"vshim/vmap"
	"vshim/vsched"
)

// pattern3 is a fixed bit pattern with ambiguous faces, isolated voxels and a
// solid core, spread over all z slabs.
func pattern3(n [3]int) *lat.Solid3 {
	s := lat.NewSolid3(model3d.XYZ(0, 0, 0), 1, n, 0)
	for k := 0; k < n[2]; k++ {
		for j := 0; j < n[1]; j++ {
			for i := 0; i < n[0]; i++ {
				h := (i*7 + j*13 + k*29 + i*j*k) % 5
				s.Bits[i+n[0]*(j+n[1]*k)] = h < 2 || (i == 1 && j == 1)
			}
		}
	}
	return s
}

func pattern2(n [2]int) *lat.Solid2 {
	s := lat.NewSolid2(model2d.XY(0, 0), 1, n, 0)
	for j := 0; j < n[1]; j++ {
		for i := 0; i < n[0]; i++ {
			s.Bits[i+n[0]*j] = (i*7+j*13+i*j)%5 < 2 || (i == 1 && j == 1)
		}
	}
	return s
}

// sparse3 has only the listed voxels inside (few triangles = few mesh.Add
// scheduling points per execution).
func sparse3(n [3]int, vox ...[3]int) *lat.Solid3 {
	s := lat.NewSolid3(model3d.XYZ(0, 0, 0), 1, n, 0)
	for _, v := range vox {
		s.Bits[v[0]+n[0]*(v[1]+n[1]*v[2])] = true
	}
	return s
}

func sparse2(n [2]int, px ...[2]int) *lat.Solid2 {
	s := lat.NewSolid2(model2d.XY(0, 0), 1, n, 0)
	for _, v := range px {
		s.Bits[v[0]+n[0]*v[1]] = true
	}
	return s
}

func withProcs(p int, f func() string) string {
	old := vsched.NumProcs
	vsched.NumProcs = p
	defer func() { vsched.NumProcs = old }()
	return f()
}

func init() {
	// Repair (singular edges, then singular vertices) walks maps of edges, faces and vertices; repairing one
	// group replaces triangles that border another, so the walk order is an input the caller does not control.
	// Every map range is an explorer-owned permutation here; "repeated runs are identical" = one outcome.
	for _, bits := range []uint64{0x29, 0x69, 0x96, 0x56, 0x81, 0xa5} {
		for _, clip := range []bool{true, false} {
			bits, clip := bits, clip
			register(scenario{name: fmt.Sprintf("dc-repair/2x2x2-%#x/clip=%v", bits, clip), procs: 1, prop: "C12",
				about: "DualContouring with Repair under explorer-owned map iteration order",
				body: func() string {
					vmap.Permute = true
					dc := &model3d.DualContouring{S: model3d.SolidSurfaceEstimator{Solid: lat.NewSolid3(model3d.XYZ(0.1, -0.7, 2.3), 0.3, [3]int{2, 2, 2}, bits)},
						Delta: 0.3, MaxGos: 1, Repair: true, Clip: clip}
					return meshq.FaceMultiset3(dc.Mesh().TriangleSlice(), false)
				}})
		}
	}
	// one worker is a worker count too: the pipelined scan with a single slab goroutine against the run with three
	for _, n := range [][3]int{{2, 2, 2}, {2, 2, 3}} {
		n := n
		run := func() string {
			return meshq.FaceMultiset3(model3d.MarchingCubes(pattern3(n), 1).TriangleSlice(), false)
		}
		for _, prop := range []string{"C12", "C13"} {
			register(scenario{name: fmt.Sprintf("mc-scan-one-worker/%s/%dx%dx%d", prop, n[0], n[1], n[2]), procs: 1, prop: prop,
				about: "squareSpacer.Scan with exactly one worker", body: run, want: func() string { return withProcs(3, run) }})
		}
	}
	for _, procs := range []int{2, 3} {
		for _, n := range [][3]int{{2, 2, 2}, {2, 2, 3}} {
			n := n
			run := func() string {
				return meshq.FaceMultiset3(model3d.MarchingCubes(pattern3(n), 1).TriangleSlice(), false)
			}
			register(scenario{name: fmt.Sprintf("mc-scan/procs%d/%dx%dx%d", procs, n[0], n[1], n[2]), procs: procs, prop: "C12",
				about: "squareSpacer.Scan pipelined z-slab caches (one goroutine + channel per slab)",
				body:  run, want: func() string { return withProcs(1, run) }})
		}
		n := [3]int{4, 4, 2}
		mk := func() *lat.Solid3 { return sparse3(n, [3]int{0, 0, 0}, [3]int{3, 3, 1}, [3]int{3, 2, 0}) }
		runF := func() string {
			return meshq.FaceMultiset3(model3d.MarchingCubesFilter(mk(), func(*model3d.Rect) bool { return true }, 1).TriangleSlice(), false)
		}
		register(scenario{name: fmt.Sprintf("mc-filter/procs%d", procs), procs: procs, prop: "C12",
			about: "MarchingCubesFilter worker pool over a block queue",
			body:  runF, want: func() string {
				return withProcs(1, func() string { return meshq.FaceMultiset3(model3d.MarchingCubes(mk(), 1).TriangleSlice(), false) })
			}})
		n2 := [2]int{9, 9}
		mk2 := func() *lat.Solid2 { return sparse2(n2, [2]int{0, 0}, [2]int{8, 8}, [2]int{7, 7}, [2]int{4, 5}) }
		runS := func() string {
			return meshq.SegMultiset2(model2d.MarchingSquaresFilter(mk2(), func(*model2d.Rect) bool { return true }, 1).SegmentSlice())
		}
		register(scenario{name: fmt.Sprintf("ms-filter/procs%d", procs), procs: procs, prop: "C12",
			about: "MarchingSquaresFilter worker pool",
			body:  runS, want: func() string {
				return withProcs(1, func() string { return meshq.SegMultiset2(model2d.MarchingSquares(mk2(), 1).SegmentSlice()) })
			}})
		nd := [3]int{1, 1, 2}
		runD := func(maxGos, buf int) func() string {
			return func() string {
				dc := &model3d.DualContouring{S: model3d.SolidSurfaceEstimator{Solid: sparse3(nd, [3]int{0, 0, 0}, [3]int{0, 0, 1})}, Delta: 1, MaxGos: maxGos, BufferSize: buf, Clip: true}
				return meshq.FaceMultiset3(dc.Mesh().TriangleSlice(), false)
			}
		}
		// the interior-reporting entry point has its own reduction (per-worker lists joined under a lock)
		runDI := func(maxGos, buf int) func() string {
			return func() string {
				dc := &model3d.DualContouring{S: model3d.SolidSurfaceEstimator{Solid: sparse3(nd, [3]int{0, 0, 0}, [3]int{0, 0, 1})}, Delta: 1, MaxGos: maxGos, BufferSize: buf, Clip: true}
				m, interior := dc.MeshInterior()
				pts := make([]string, len(interior))
				for i, p := range interior {
					pts[i] = fmt.Sprint(p)
				}
				sort.Strings(pts)
				return meshq.FaceMultiset3(m.TriangleSlice(), false) + "\ninterior: " + strings.Join(pts, " ")
			}
		}
		for _, buf := range []int{0, 1} {
			buf := buf
			register(scenario{name: fmt.Sprintf("dc-interior/maxgos%d/buffer%d", procs, buf), procs: procs, prop: "C13",
				about: "DualContouring.MeshInterior: per-worker interior lists reduced into the caller's list",
				body:  runDI(procs, buf), want: func() string { return withProcs(1, runDI(1, 0)) }})
		}
		register(scenario{name: fmt.Sprintf("dc/maxgos%d/shifting-buffer", procs), procs: procs, prop: "C12",
			about: "DualContouring populateCorners/Edges/Cubes/appendMesh with MaxGos workers and a 4-row sliding buffer",
			body:  runD(procs, 1), want: func() string { return withProcs(1, runD(1, 0)) }})
	}
}
