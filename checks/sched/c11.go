package main

// C11 scenarios: Repair on meshes whose vertices were split into chains of
// near-duplicates (consecutive copies closer than epsilon, the ends of a chain
// up to (k-1)*0.9 epsilon apart), inside the instrumented build where the order
// in which Repair visits the vertices is an explorer-owned decision. Merging
// must be transitive whatever the order: the repaired mesh has one vertex per
// chain and is clean.

import (
	"fmt"
	"sort"

	"github.com/unixpickle/model3d/model2d"
	"github.com/unixpickle/model3d/model3d"

	"verif/lib/lat"
	"verif/lib/topo"
	"vshim/vmap"
)

func init() {
	const eps = 0.01
	dirs := map[string]model3d.Coord3D{"x": {X: 1}, "y": {Y: 1}, "z": {Z: 1}, "xyz": {X: 1, Y: 1, Z: 1}, "x-z": {X: 1, Z: -1}}
	dirNames := []string{"x", "y", "z", "xyz", "x-z"}
	for _, mn := range []string{"tetra", "octa", "cube"} {
		for _, dn := range dirNames {
			for _, spacing := range []float64{0.9, 0.6} {
				for _, shift := range []float64{0, 0.45} {
					mn, dn, spacing, shift := mn, dn, spacing, shift
					register(scenario{name: fmt.Sprintf("repair-chain:%s/dir-%s/spacing%g/shift%g", mn, dn, spacing, shift), procs: 1, prop: "C11",
						about: "Repair on a mesh whose vertices are split into chains of near-duplicates, every vertex visiting order",
						want:  func() string { return "ok" },
						body: func() string {
							vmap.Permute = true
							base := catMesh(mn)
							// the i-th face around a vertex uses copy i of it
							next := map[model3d.Coord3D]int{}
							tris := base.TriangleSlice()
							sort.Slice(tris, func(i, j int) bool { return lessTri(tris[i], tris[j]) })
							in := model3d.NewMesh()
							for _, t := range tris {
								var nt model3d.Triangle
								for k := 0; k < 3; k++ {
									i := next[t[k]]
									next[t[k]]++
									nt[k] = t[k].Add(dirs[dn].Scale(eps * (shift + spacing*float64(i))))
								}
								in.Add(&nt)
							}
							out := in.Repair(eps)
							nv := len(base.VertexSlice())
							if got := len(out.VertexSlice()); got != nv {
								return fmt.Sprintf("VIOLATION chain-not-merged: %d vertices after Repair, the mesh has %d chains of near-duplicates", got, nv)
							}
							if out.NumTriangles() != base.NumTriangles() {
								return fmt.Sprintf("VIOLATION faces: %d faces after Repair, %d before", out.NumTriangles(), base.NumTriangles())
							}
							if rep := topo.Analyze3(lat.Tris(out)); !rep.Manifold() {
								return "VIOLATION not-clean: " + rep.String()
							}
							if out.NeedsRepair() || len(out.SingularVertices()) != 0 {
								return "VIOLATION not-clean: diagnostics still fire on the repaired mesh"
							}
							for _, v := range out.VertexSlice() {
								best := 1e9
								for _, w := range base.VertexSlice() {
									if d := v.Dist(w); d < best {
										best = d
									}
								}
								if best > 8*eps {
									return fmt.Sprintf("VIOLATION moved: vertex %v is %g from every original vertex", v, best)
								}
							}
							return "ok"
						}})
				}
			}
		}
	}
	// 2D: polygons whose vertices are split in two copies, and chains of three through a doubled polygon
	for _, n := range []int{3, 4, 6} {
		for _, spacing := range []float64{0.9, 0.6} {
			for _, shift := range []float64{0, 0.45} {
				for _, copies := range []int{2, 3} {
					n, spacing, shift, copies := n, spacing, shift, copies
					register(scenario{name: fmt.Sprintf("repair-chain2d:%d-gon/copies%d/spacing%g/shift%g", n, copies, spacing, shift), procs: 1, prop: "C11",
						about: "2D Repair on polygons whose vertices are split into chains of near-duplicates, every vertex visiting order",
						want:  func() string { return "ok" },
						body: func() string {
							vmap.Permute = true
							pt := func(i int) model2d.Coord {
								i = ((i % n) + n) % n
								return [][]model2d.Coord{
									{{X: 0, Y: 0}, {X: 1, Y: 0}, {X: 0.25, Y: 1}},
									{{X: 0, Y: 0}, {X: 1, Y: 0}, {X: 1, Y: 1}, {X: 0, Y: 1}},
									{{X: 0, Y: 0}, {X: 1, Y: -0.5}, {X: 2, Y: 0}, {X: 2, Y: 1}, {X: 1, Y: 1.5}, {X: 0, Y: 1}},
								}[map[int]int{3: 0, 4: 1, 6: 2}[n]][i]
							}
							d := model2d.XY(1, 1)
							cp := func(i, c int) model2d.Coord { return pt(i).Add(d.Scale(eps * (shift + spacing*float64(c)))) }
							in := model2d.NewMesh()
							for i := 0; i < n; i++ {
								// the polygon runs from copy 0 of vertex i to copy 1 of vertex i+1; with three copies a second
								// polygon on top of it runs from copy 1 to copy 2, so that every vertex is a chain 0 - 1 - 2
								in.Add(&model2d.Segment{cp(i, 0), cp(i+1, 1)})
								if copies == 3 {
									in.Add(&model2d.Segment{cp(i, 1), cp(i+1, 2)})
								}
							}
							out := in.Repair(eps)
							if got := len(out.VertexSlice()); got != n {
								return fmt.Sprintf("VIOLATION chain-not-merged: %d vertices after Repair, %d expected (one per chain)", got, n)
							}
							for _, v := range out.VertexSlice() {
								if got := len(out.Find(v)); got != 2*(copies-1) {
									return fmt.Sprintf("VIOLATION not-clean: vertex %v has %d segments after Repair, expected %d", v, got, 2*(copies-1))
								}
							}
							if copies == 2 && !out.Manifold() {
								return "VIOLATION not-clean: the repaired polygon is not manifold"
							}
							return "ok"
						}})
				}
			}
		}
	}
}

func lessTri(a, b *model3d.Triangle) bool {
	for k := 0; k < 3; k++ {
		x, y := a[k].Array(), b[k].Array()
		for i := 0; i < 3; i++ {
			if x[i] != y[i] {
				return x[i] < y[i]
			}
		}
	}
	return false
}
