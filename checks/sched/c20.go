package main

// C20 scenarios: the pixel worker pool (render3d.mapCoordinates) under the
// cooperative scheduler. Reached through RayCaster.Render with an object that
// records which pixel every ray belongs to: in every interleaving every pixel
// must be cast exactly once and written with its own colour.

import (
	"fmt"
	"sort"
	"strings"

	"github.com/unixpickle/model3d/model3d"
	"github.com/unixpickle/model3d/render3d"

	"vshim/vsync"
)

type pixObject struct {
	mu    vsync.Mutex
	dirs  []model3d.Coord3D
	w, h  int
	count map[int]int
}

func (p *pixObject) Min() model3d.Coord3D { return model3d.XYZ(-100, -100, -100) }
func (p *pixObject) Max() model3d.Coord3D { return model3d.XYZ(100, 100, 100) }
func (p *pixObject) Cast(r *model3d.Ray) (model3d.RayCollision, render3d.Material, bool) {
	d := r.Direction.Normalize()
	best, idx := -2.0, -1
	for i, c := range p.dirs {
		if v := c.Dot(d); v > best {
			best, idx = v, i
		}
	}
	p.mu.Lock()
	p.count[idx]++
	p.mu.Unlock()
	return model3d.RayCollision{Scale: 5, Normal: d.Scale(-1)}, &render3d.LambertMaterial{EmissionColor: render3d.NewColor(float64(idx+1) / 16)}, true
}

func init() {
	for _, procs := range []int{1, 2, 3} {
		for _, sz := range [][2]int{{1, 1}, {2, 1}, {3, 1}, {2, 2}} {
			procs, sz := procs, sz
			run := func() string {
				cam := render3d.NewCameraAt(model3d.XYZ(0, -3, 0.5), model3d.XYZ(0.2, 0, 0), 0.9)
				cast := cam.Caster(float64(sz[0])-1, float64(sz[1])-1)
				obj := &pixObject{w: sz[0], h: sz[1], count: map[int]int{}}
				for y := 0; y < sz[1]; y++ {
					for x := 0; x < sz[0]; x++ {
						obj.dirs = append(obj.dirs, cast(float64(x), float64(y)).Normalize())
					}
				}
				img := render3d.NewImage(sz[0], sz[1])
				(&render3d.RayCaster{Camera: cam}).Render(img, obj)
				var parts []string
				for idx := 0; idx < sz[0]*sz[1]; idx++ {
					parts = append(parts, fmt.Sprintf("p%d:casts=%d,value=%.4f", idx, obj.count[idx], img.Data[idx].X))
				}
				sort.Strings(parts)
				return strings.Join(parts, " ")
			}
			want := func() string {
				var parts []string
				for idx := 0; idx < sz[0]*sz[1]; idx++ {
					parts = append(parts, fmt.Sprintf("p%d:casts=1,value=%.4f", idx, float64(idx+1)/16))
				}
				sort.Strings(parts)
				return strings.Join(parts, " ")
			}
			register(scenario{name: fmt.Sprintf("pixel-pool/workers%d/%dx%d", procs, sz[0], sz[1]), procs: procs, prop: "C20",
				about: "mapCoordinates: every pixel delivered to exactly one worker exactly once", body: run, want: want})
		}
	}
}
