// Command sched is the worker for all schedule-exploration scenarios (C12,
// C13, C20). Built against the instrumented copy it enumerates interleavings
// under the cooperative scheduler; built against the plain tree with -race it
// runs the same bodies free-running so that the race detector can see
// unsynchronised accesses (the cooperative scheduler's hand-offs hide them).
//
//	sched list
//	sched explore <scenario> <bound> [maxexecs]
//	sched replay  <scenario> <choices-json>
//	sched race    <scenario> <repetitions>
package main

import (
	"encoding/json"
	"fmt"
	"os"
	"runtime"
	"sort"
	"strconv"
	"strings"
	"time"

	"vshim/vsched"
)

type scenario struct {
	name       string
	procs      int           // value reported by GOMAXPROCS(0)/NumCPU() inside the library
	body       func() string // one execution; returns the observable outcome
	want       func() string // absolute expected outcome ("" = use the default schedule's outcome)
	prop       string
	about      string
	randomized bool // outcome legitimately differs between free-running runs (real RNG)
}

var scenarios []scenario

func register(s scenario) { scenarios = append(scenarios, s) }

type failure struct {
	Kind    string `json:"kind"`
	Msg     string `json:"msg"`
	Choices []int  `json:"choices"`
}

type result struct {
	Scenario   string    `json:"scenario"`
	Bound      int       `json:"bound"`
	Mode       string    `json:"mode"`
	Executions int64     `json:"executions"`
	Points     int64     `json:"points"`
	Nodes      int64     `json:"nodes"`
	MaxDepth   int       `json:"max_depth"`
	Threads    int       `json:"threads"`
	Outcomes   int       `json:"distinct_outcomes"`
	Capped     bool      `json:"capped"`
	Failures   []failure `json:"failures"`
	Reference  string    `json:"reference"`
	WallS      float64   `json:"wall_s"`
	Sample     []int     `json:"sample_schedule"`
}

func find(name string) *scenario {
	for i := range scenarios {
		if scenarios[i].name == name {
			return &scenarios[i]
		}
	}
	fmt.Fprintln(os.Stderr, "ERROR: unknown scenario", name)
	os.Exit(2)
	return nil
}

func short(s string) string {
	if len(s) > 300 {
		return s[:300] + "..."
	}
	return s
}

func explore(sc *scenario, bound int, maxExecs int64, delay bool) result {
	start := time.Now()
	vsched.NumProcs = sc.procs
	res := result{Scenario: sc.name, Bound: bound}
	var outcome string
	body := func() { outcome = sc.body() }
	want := ""
	if sc.want != nil {
		want = sc.want()
	}
	outcomes := map[string]int{}
	first := true
	st := vsched.Explore(vsched.Options{Bound: bound, MaxExecs: maxExecs, MaxPoints: 50000, Delay: delay, Stop: func() bool { return len(res.Failures) >= 5 }}, body, func(x *vsched.Exec) {
		add := func(kind, msg string) {
			if len(res.Failures) < 5 {
				res.Failures = append(res.Failures, failure{kind, msg, x.Choices()})
			}
		}
		switch {
		case x.Deadlock:
			add("deadlock", "no enabled thread: "+strings.Join(x.Blocked, " "))
			return
		case x.Horizon:
			add("horizon", "execution exceeded the decision/iteration horizon")
			return
		case x.Panic != "":
			add("panic", short(x.Panic))
			return
		}
		if first {
			first = false
			if want == "" {
				want = outcome
			}
			res.Reference = short(want)
		}
		outcomes[outcome]++
		if outcome != want {
			add("outcome", "schedule-dependent result: got "+short(outcome)+" want "+short(want))
		}
		if len(x.Points) > 4 && res.Sample == nil && len(x.Choices()) > 0 {
			nz := 0
			for _, c := range x.Choices() {
				if c != 0 {
					nz++
				}
			}
			if nz >= 1 {
				res.Sample = x.Choices()
			}
		}
	})
	res.Nodes = st.Nodes
	res.Executions, res.Points, res.MaxDepth, res.Threads, res.Capped = st.Executions, st.Points, st.MaxDepth, st.MaxThreads, st.Capped
	res.Outcomes = len(outcomes)
	res.WallS = time.Since(start).Seconds()
	return res
}

func main() {
	if len(os.Args) < 2 {
		fmt.Fprintln(os.Stderr, "usage: sched list|explore|replay|race ...")
		os.Exit(2)
	}
	switch os.Args[1] {
	case "list":
		var names []string
		for _, s := range scenarios {
			names = append(names, s.prop+" "+s.name)
		}
		sort.Strings(names)
		fmt.Println(strings.Join(names, "\n"))
	case "explore":
		sc := find(os.Args[2])
		bound, _ := strconv.Atoi(os.Args[3])
		var maxExecs int64
		if len(os.Args) > 4 {
			maxExecs, _ = strconv.ParseInt(os.Args[4], 10, 64)
		}
		delay := len(os.Args) > 5 && os.Args[5] == "delay"
		res := explore(sc, bound, maxExecs, delay)
		res.Mode = "preemption-bounded"
		if delay {
			res.Mode = "delay-bounded"
		}
		b, _ := json.Marshal(res)
		fmt.Println(string(b))
	case "batch":
		// sched batch <bound> <maxexecs> <file with one scenario name per line>: one JSON result per line
		bound, _ := strconv.Atoi(os.Args[2])
		maxExecs, _ := strconv.ParseInt(os.Args[3], 10, 64)
		data, err := os.ReadFile(os.Args[4])
		if err != nil {
			fmt.Fprintln(os.Stderr, "ERROR:", err)
			os.Exit(2)
		}
		for _, name := range strings.Split(strings.TrimSpace(string(data)), "\n") {
			if name == "" {
				continue
			}
			res := explore(find(name), bound, maxExecs, false)
			res.Mode = "deviation-bounded"
			for i := range res.Failures {
				// default choices (0) at the end are implied on replay
				c := res.Failures[i].Choices
				for len(c) > 0 && c[len(c)-1] == 0 {
					c = c[:len(c)-1]
				}
				res.Failures[i].Choices = c
			}
			res.Sample = nil
			b, _ := json.Marshal(res)
			fmt.Println(string(b))
		}
	case "replay":
		sc := find(os.Args[2])
		var choices []int
		if err := json.Unmarshal([]byte(os.Args[3]), &choices); err != nil {
			fmt.Fprintln(os.Stderr, "ERROR: bad choices:", err)
			os.Exit(2)
		}
		vsched.NumProcs = sc.procs
		want := ""
		if sc.want != nil {
			want = sc.want()
		} else {
			var o string
			vsched.RunOnce(vsched.Options{}, nil, nil, func() { o = sc.body() })
			want = o
		}
		// replay twice: observations must be identical
		var outs [2]string
		var xs [2]*vsched.Exec
		for i := 0; i < 2; i++ {
			var o string
			xs[i] = vsched.RunOnce(vsched.Options{MaxPoints: 50000}, choices, nil, func() { o = sc.body() })
			outs[i] = o
		}
		x := xs[0]
		bad := x.Failed() || outs[0] != want
		bad1 := xs[1].Failed() || outs[1] != want
		if outs[0] != outs[1] || fmt.Sprint(xs[0].Choices()) != fmt.Sprint(xs[1].Choices()) {
			// Identical decisions must give identical observations. The one tolerated exception: both runs
			// violate and differ only in the detail text (a mesh that already holds value-identical duplicate
			// faces has no canonical iteration order among them).
			if !(bad && bad1) {
				fmt.Fprintln(os.Stderr, "ERROR: replay is not deterministic")
				os.Exit(2)
			}
		}
		b, _ := json.Marshal(map[string]interface{}{"scenario": sc.name, "deadlock": x.Deadlock, "horizon": x.Horizon, "panic": x.Panic, "outcome": short(outs[0]), "want": short(want), "violates": bad})
		fmt.Println(string(b))
		if bad {
			os.Exit(1)
		}
	case "race":
		sc := find(os.Args[2])
		reps, _ := strconv.Atoi(os.Args[3])
		runtime.GOMAXPROCS(8)
		vsched.NumProcs = sc.procs
		want := ""
		if sc.want != nil {
			want = sc.want()
		}
		mismatch := 0
		for i := 0; i < reps; i++ {
			o := sc.body()
			if want == "" {
				want = o
			}
			if o != want && !sc.randomized {
				mismatch++
				if mismatch == 1 {
					fmt.Println("MISMATCH", short(o), "want", short(want))
				}
			}
		}
		fmt.Printf("{\"scenario\":%q,\"repetitions\":%d,\"mismatches\":%d}\n", sc.name, reps, mismatch)
	}
}
