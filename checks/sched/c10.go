package main

// C10 scenarios: one mesh-processing operation (or a chain of two) applied to
// one catalogue mesh inside the instrumented build, where every map range is
// an explorer-owned decision (vmap.Permute) and every condition-only loop
// ticks the horizon. The body returns "ok" or "VIOLATION <class>: <detail>".

import (
	"fmt"
	"math"
	"sort"
	"strings"

	"github.com/unixpickle/model3d/model2d"
	"github.com/unixpickle/model3d/model3d"

	"verif/lib/cat"
	"verif/lib/lat"
	"verif/lib/topo"
	"vshim/vmap"
)

type meshOp3 struct {
	name string
	// apply returns the output mesh and an op-specific verdict ("" = fine)
	apply func(in *model3d.Mesh) (*model3d.Mesh, string)
	// what must be preserved
	sameVolume   bool
	vertexSubset bool
	sameVerts    bool
	faces        func(f int) int // expected face count (nil = unchecked)
}

func vertsOf(m *model3d.Mesh) map[model3d.Coord3D]bool {
	out := map[model3d.Coord3D]bool{}
	for _, v := range m.VertexSlice() {
		out[v] = true
	}
	return out
}

func neighbours3(m *model3d.Mesh) map[model3d.Coord3D][]model3d.Coord3D {
	nb := map[model3d.Coord3D]map[model3d.Coord3D]bool{}
	m.Iterate(func(t *model3d.Triangle) {
		for i := 0; i < 3; i++ {
			for j := 0; j < 3; j++ {
				if i != j {
					if nb[t[i]] == nil {
						nb[t[i]] = map[model3d.Coord3D]bool{}
					}
					nb[t[i]][t[j]] = true
				}
			}
		}
	})
	out := map[model3d.Coord3D][]model3d.Coord3D{}
	for v, s := range nb {
		for w := range s {
			out[v] = append(out[v], w)
		}
	}
	return out
}

// blurRef applies the published rule: v + rate*(mean(neighbours) - v); rate -1: mean of v and its neighbours.
func blurRef(m *model3d.Mesh, rates []float64) (map[model3d.Coord3D]model3d.Coord3D, bool) {
	return blurRefFiltered(m, rates, nil)
}

// blurRefFiltered: only neighbours accepted by f (on the initial coordinates) count; a vertex without any stays.
func blurRefFiltered(m *model3d.Mesh, rates []float64, f func(a, b model3d.Coord3D) bool) (map[model3d.Coord3D]model3d.Coord3D, bool) {
	nb := neighbours3(m)
	if f != nil {
		for v, ns := range nb {
			var keep []model3d.Coord3D
			for _, w := range ns {
				if f(v, w) {
					keep = append(keep, w)
				}
			}
			nb[v] = keep
		}
	}
	cur := map[model3d.Coord3D]model3d.Coord3D{}
	for v := range nb {
		cur[v] = v
	}
	for _, rate := range rates {
		next := map[model3d.Coord3D]model3d.Coord3D{}
		for v, ns := range nb {
			var sum model3d.Coord3D
			for _, w := range ns {
				sum = sum.Add(cur[w])
			}
			if len(ns) == 0 {
				next[v] = cur[v]
				continue
			}
			if rate == -1 {
				next[v] = sum.Add(cur[v]).Scale(1 / float64(len(ns)+1))
			} else {
				next[v] = cur[v].Add(sum.Scale(1 / float64(len(ns))).Sub(cur[v]).Scale(rate))
			}
		}
		cur = next
	}
	// specification-level degeneracy: two vertices sent to (almost) the same point
	var pts []model3d.Coord3D
	for _, p := range cur {
		pts = append(pts, p)
	}
	for i := range pts {
		for j := i + 1; j < len(pts); j++ {
			if pts[i].Dist(pts[j]) < 1e-9 {
				return cur, false
			}
		}
	}
	return cur, true
}

func mappedMesh(in *model3d.Mesh, f map[model3d.Coord3D]model3d.Coord3D) []topo.T3 {
	var out []topo.T3
	in.Iterate(func(t *model3d.Triangle) {
		out = append(out, topo.T3{f[t[0]].Array(), f[t[1]].Array(), f[t[2]].Array()})
	})
	return out
}

func sameTris(a []topo.T3, b *model3d.Mesh, tol float64) bool {
	bt := lat.Tris(b)
	if len(a) != len(bt) {
		return false
	}
	used := make([]bool, len(bt))
	for _, t := range a {
		found := false
		for i, u := range bt {
			if used[i] {
				continue
			}
			for r := 0; r < 3 && !found; r++ {
				ok := true
				for k := 0; k < 3; k++ {
					for d := 0; d < 3; d++ {
						if !(math.Abs(t[k][d]-u[(k+r)%3][d]) <= tol) {
							ok = false
						}
					}
				}
				if ok {
					found = true
					used[i] = true
				}
			}
			if found {
				break
			}
		}
		if !found {
			return false
		}
	}
	return true
}

// loopRef: one step of Loop subdivision by the published masks (closed manifold input).
func loopRef(m *model3d.Mesh) []topo.T3 {
	nb := neighbours3(m)
	even := map[model3d.Coord3D]model3d.Coord3D{}
	for v, ns := range nb {
		n := float64(len(ns))
		var beta float64
		if len(ns) == 3 {
			beta = 3.0 / 16
		} else {
			beta = 3.0 / (8 * n)
		}
		var sum model3d.Coord3D
		for _, w := range ns {
			sum = sum.Add(w)
		}
		even[v] = v.Scale(1 - n*beta).Add(sum.Scale(beta))
	}
	opp := map[[2]model3d.Coord3D][]model3d.Coord3D{}
	key := func(a, b model3d.Coord3D) [2]model3d.Coord3D {
		if b.X < a.X || (b.X == a.X && (b.Y < a.Y || (b.Y == a.Y && b.Z < a.Z))) {
			a, b = b, a
		}
		return [2]model3d.Coord3D{a, b}
	}
	m.Iterate(func(t *model3d.Triangle) {
		for i := 0; i < 3; i++ {
			k := key(t[i], t[(i+1)%3])
			opp[k] = append(opp[k], t[(i+2)%3])
		}
	})
	odd := func(a, b model3d.Coord3D) model3d.Coord3D {
		o := opp[key(a, b)]
		return a.Add(b).Scale(3.0 / 8).Add(o[0].Add(o[1]).Scale(1.0 / 8))
	}
	var out []topo.T3
	m.Iterate(func(t *model3d.Triangle) {
		a, b, c := even[t[0]], even[t[1]], even[t[2]]
		ab, bc, ca := odd(t[0], t[1]), odd(t[1], t[2]), odd(t[2], t[0])
		for _, q := range [][3]model3d.Coord3D{{a, ab, ca}, {ab, b, bc}, {ca, bc, c}, {ab, bc, ca}} {
			out = append(out, topo.T3{q[0].Array(), q[1].Array(), q[2].Array()})
		}
	})
	return out
}

func ops3() []meshOp3 {
	var ops []meshOp3
	add := func(o meshOp3) { ops = append(ops, o) }
	dec := func(name string, d model3d.Decimator, filter func(model3d.Coord3D) bool) {
		add(meshOp3{name: name, vertexSubset: true, apply: func(in *model3d.Mesh) (*model3d.Mesh, string) {
			dd := d
			dd.FilterFunc = filter
			out := dd.Decimate(in)
			if filter != nil {
				ov := vertsOf(out)
				for v := range vertsOf(in) {
					if !filter(v) && !ov[v] {
						return out, fmt.Sprintf("filter: vertex %v was removed although the keep-filter forbids it", v)
					}
				}
			}
			return out, ""
		}})
	}
	dec("Decimator(eps=0.05)", model3d.Decimator{PlaneDistance: 0.05, BoundaryDistance: 0.05}, nil)
	dec("Decimator(eps=10)", model3d.Decimator{PlaneDistance: 10, BoundaryDistance: 10}, nil)
	dec("Decimator(eps=10,corners,no-edge-preservation)", model3d.Decimator{PlaneDistance: 10, BoundaryDistance: 10, NoEdgePreservation: true, EliminateCorners: true, MinimumAspectRatio: 0.01, SplitAttempts: 3}, nil)
	dec("Decimator(eps=10,corners,filter x<0.5)", model3d.Decimator{PlaneDistance: 10, BoundaryDistance: 10, NoEdgePreservation: true, EliminateCorners: true}, func(c model3d.Coord3D) bool { return c.X < 0.5 })
	add(meshOp3{name: "DecimateSimple(0.3)", vertexSubset: true, apply: func(in *model3d.Mesh) (*model3d.Mesh, string) { return model3d.DecimateSimple(in, 0.3), "" }})
	add(meshOp3{name: "EliminateEdges(always)", apply: func(in *model3d.Mesh) (*model3d.Mesh, string) {
		return in.EliminateEdges(func(*model3d.Mesh, model3d.Segment) bool { return true }), ""
	}})
	add(meshOp3{name: "EliminateEdges(shorter than 1.05)", apply: func(in *model3d.Mesh) (*model3d.Mesh, string) {
		return in.EliminateEdges(func(_ *model3d.Mesh, s model3d.Segment) bool { return s[0].Dist(s[1]) < 1.05 }), ""
	}})
	add(meshOp3{name: "EliminateCoplanar(1e-8)", sameVolume: true, vertexSubset: true, apply: func(in *model3d.Mesh) (*model3d.Mesh, string) { return in.EliminateCoplanar(1e-8), "" }})
	add(meshOp3{name: "EliminateCoplanarFiltered(1e-8,x<0.5)", sameVolume: true, vertexSubset: true, apply: func(in *model3d.Mesh) (*model3d.Mesh, string) {
		keep := func(c model3d.Coord3D) bool { return c.X < 0.5 }
		out := in.EliminateCoplanarFiltered(1e-8, keep)
		ov := vertsOf(out)
		for v := range vertsOf(in) {
			if !keep(v) && !ov[v] {
				return out, fmt.Sprintf("filter: vertex %v was removed although the filter forbids it", v)
			}
		}
		return out, ""
	}})
	add(meshOp3{name: "FlipDelaunay", sameVerts: true, faces: func(f int) int { return f }, apply: func(in *model3d.Mesh) (*model3d.Mesh, string) { return in.FlipDelaunay(), "" }})
	for n := 1; n <= 3; n++ {
		n := n
		add(meshOp3{name: fmt.Sprintf("SubdivideEdges(%d)", n), sameVolume: true, faces: func(f int) int { return f * n * n }, apply: func(in *model3d.Mesh) (*model3d.Mesh, string) { return model3d.SubdivideEdges(in, n), "" }})
	}
	add(meshOp3{name: "LoopSubdivision(1)", faces: func(f int) int { return 4 * f }, apply: func(in *model3d.Mesh) (*model3d.Mesh, string) {
		out := model3d.LoopSubdivision(in, 1)
		if !sameTris(loopRef(in), out, 1e-9) {
			return out, "rule: the output is not the mesh given by the Loop masks (3/8,3/8,1/8,1/8 edge points; 1-n*beta, beta vertex points)"
		}
		return out, ""
	}})
	add(meshOp3{name: "LoopSubdivision(2)", faces: func(f int) int { return 16 * f }, apply: func(in *model3d.Mesh) (*model3d.Mesh, string) { return model3d.LoopSubdivision(in, 2), "" }})
	add(meshOp3{name: "Subdivider(first 3 edges by order)", sameVolume: true, apply: func(in *model3d.Mesh) (*model3d.Mesh, string) {
		out := in.Copy()
		s := model3d.NewSubdivider()
		var segs []model3d.Segment
		seen := map[model3d.Segment]bool{}
		for _, t := range sortedTris(in) {
			for _, sg := range t.Segments() {
				if !seen[sg] {
					seen[sg] = true
					segs = append(segs, sg)
				}
			}
		}
		for _, sg := range segs[:3] {
			s.Add(sg[0], sg[1])
		}
		s.Subdivide(out, func(p1, p2 model3d.Coord3D) model3d.Coord3D { return p1.Mid(p2) })
		return out, ""
	}})
	for _, rates := range [][]float64{{0}, {0.5}, {1}, {-1}, {0.5, 0.5}, {1, -1}} {
		rates := rates
		add(meshOp3{name: fmt.Sprintf("Blur%v", rates), faces: func(f int) int { return f }, apply: func(in *model3d.Mesh) (*model3d.Mesh, string) {
			out := in.Blur(rates...)
			ref, ok := blurRef(in, rates)
			if !ok {
				return nil, "" // the published rule itself sends two vertices to one point: skipped
			}
			if len(rates) == 1 && rates[0] == 0 {
				if !sameTris(lat.Tris(in), out, 0) {
					return out, "rule: blur rate 0 is not the identity"
				}
			}
			if !sameTris(mappedMesh(in, ref), out, 1e-9) {
				return out, fmt.Sprintf("rule: Blur%v does not place every vertex at v + rate (mean of neighbours - v)", rates)
			}
			return out, ""
		}})
	}
	// neighbours restricted by a filter on the initial coordinates: same side of a plane (some vertices keep all,
	// some lose a few, on small meshes some lose all and must stay), and an asymmetric one (only towards larger z)
	for fi, flt := range []func(a, b model3d.Coord3D) bool{
		func(a, b model3d.Coord3D) bool { return (a.X < 0.25) == (b.X < 0.25) },
		func(a, b model3d.Coord3D) bool { return b.Z > a.Z },
	} {
		for _, rates := range [][]float64{{0.5}, {1, -1}} {
			flt, rates := flt, rates
			add(meshOp3{name: fmt.Sprintf("BlurFiltered(filter%d)%v", fi, rates), faces: func(f int) int { return f }, apply: func(in *model3d.Mesh) (*model3d.Mesh, string) {
				out := in.BlurFiltered(flt, rates...)
				ref, ok := blurRefFiltered(in, rates, flt)
				if !ok {
					return nil, ""
				}
				if !sameTris(mappedMesh(in, ref), out, 1e-9) {
					return out, fmt.Sprintf("rule: BlurFiltered%v does not move every vertex towards the mean of its accepted neighbours (and leave it alone without any)", rates)
				}
				return out, ""
			}})
		}
	}
	add(meshOp3{name: "SmoothAreas(0.05,5)", faces: func(f int) int { return f }, apply: func(in *model3d.Mesh) (*model3d.Mesh, string) { return in.SmoothAreas(0.05, 5), "" }})
	add(meshOp3{name: "MeshSmoother(hard constraint x<0.5)", faces: func(f int) int { return f }, apply: func(in *model3d.Mesh) (*model3d.Mesh, string) {
		hard := func(c model3d.Coord3D) bool { return c.X < 0.5 }
		sm := &model3d.MeshSmoother{StepSize: 0.05, Iterations: 8, ConstraintDistance: 0.01, ConstraintWeight: 0.2, HardConstraintFunc: hard}
		out := sm.Smooth(in)
		ov := vertsOf(out)
		for v := range vertsOf(in) {
			if hard(v) && !ov[v] {
				return out, fmt.Sprintf("constraint: hard-constrained vertex %v moved", v)
			}
		}
		return out, ""
	}})
	add(meshOp3{name: "VoxelSmoother(max 0.1)", faces: func(f int) int { return f }, apply: func(in *model3d.Mesh) (*model3d.Mesh, string) {
		vs := &model3d.VoxelSmoother{StepSize: 0.1, Iterations: 10, MaxDistance: 0.1}
		mp := vs.SmoothMapping(in)
		bad := ""
		mp.Range(func(k, v model3d.Coord3D) bool {
			d := v.Sub(k)
			if math.Max(math.Abs(d.X), math.Max(math.Abs(d.Y), math.Abs(d.Z))) > 0.1+1e-12 {
				bad = fmt.Sprintf("constraint: vertex %v moved to %v, farther than MaxDistance 0.1", k, v)
				return false
			}
			return true
		})
		return vs.Smooth(in), bad
	}})
	add(meshOp3{name: "FlattenBase(0)", apply: func(in *model3d.Mesh) (*model3d.Mesh, string) { return in.FlattenBase(0), "" }})
	return ops
}

func nospace(s string) string { return strings.ReplaceAll(s, " ", "_") }

func sortedTris(m *model3d.Mesh) []*model3d.Triangle {
	ts := m.TriangleSlice()
	sort.Slice(ts, func(i, j int) bool {
		for k := 0; k < 3; k++ {
			a, b := ts[i][k], ts[j][k]
			if a != b {
				if a.X != b.X {
					return a.X < b.X
				}
				if a.Y != b.Y {
					return a.Y < b.Y
				}
				return a.Z < b.Z
			}
		}
		return false
	})
	return ts
}

// judge3 compares input and output of one operation.
func judge3(op meshOp3, in, out *model3d.Mesh, verdict string) string {
	if verdict != "" {
		return "VIOLATION " + verdict
	}
	if out == nil {
		return "ok"
	}
	ri, ro := topo.Analyze3(lat.Tris(in)), topo.Analyze3(lat.Tris(out))
	for _, v := range out.VertexSlice() {
		if math.IsNaN(v.X+v.Y+v.Z) || math.IsInf(v.X+v.Y+v.Z, 0) {
			return fmt.Sprintf("VIOLATION topology: output vertex %v is not finite", v)
		}
	}
	if !ro.Manifold() {
		return "VIOLATION topology: output is not a closed, consistently oriented manifold: " + ro.String()
	}
	if ro.Euler != ri.Euler || ro.Components != ri.Components {
		return fmt.Sprintf("VIOLATION topology: Euler characteristic / components changed from %d/%d to %d/%d", ri.Euler, ri.Components, ro.Euler, ro.Components)
	}
	surf := 0.0
	in.Iterate(func(t *model3d.Triangle) { surf += t.Area() })
	if op.sameVolume && !(math.Abs(ro.Volume-ri.Volume) <= 1e-9*math.Abs(ri.Volume)+1e-7*surf) {
		return fmt.Sprintf("VIOLATION shape: volume changed from %.12g to %.12g", ri.Volume, ro.Volume)
	}
	if op.faces != nil && ro.F != op.faces(ri.F) {
		return fmt.Sprintf("VIOLATION shape: %d faces, expected %d", ro.F, op.faces(ri.F))
	}
	if op.vertexSubset || op.sameVerts {
		iv, ov := vertsOf(in), vertsOf(out)
		for v := range ov {
			if !iv[v] {
				return fmt.Sprintf("VIOLATION vertices: output vertex %v is not an input vertex", v)
			}
		}
		if op.sameVerts && len(iv) != len(ov) {
			return "VIOLATION vertices: vertex set changed"
		}
	}
	return "ok"
}

func catMesh(name string) *model3d.Mesh {
	for _, nm := range cat.Closed3(false) {
		if nm.Name == name {
			return nm.Mesh()
		}
	}
	panic("no catalogue mesh " + name)
}

var c10Meshes = []string{"tetra", "sliver-tetra", "octa", "prism", "cube", "two-tetra", "icosa", "gridbox2", "torus4x3", "nested-cubes"}

func init() {
	ops := ops3()
	for _, mn := range c10Meshes {
		mn := mn
		for _, op := range ops {
			op := op
			register(scenario{name: nospace("op3:" + op.name + "/" + mn), procs: 1, prop: "C10", about: "one mesh operation under explorer-owned map order",
				want: func() string { return "ok" },
				body: func() string {
					vmap.Permute = true
					in := catMesh(mn)
					out, verdict := op.apply(in)
					return judge3(op, in, out, verdict)
				}})
		}
	}
	// chains of two operations (second applied to the output of the first)
	for _, mn := range c10Meshes[:6] {
		mn := mn
		for _, a := range ops {
			for _, b := range ops {
				a, b := a, b
				register(scenario{name: nospace("chain3:" + a.name + "->" + b.name + "/" + mn), procs: 1, prop: "C10", about: "two mesh operations in succession",
					want: func() string { return "ok" },
					body: func() string {
						vmap.Permute = true
						in := catMesh(mn)
						mid, v1 := a.apply(in)
						if r := judge3(a, in, mid, v1); r != "ok" {
							return "ok" // a failure of the first step is reported by its own scenario
						}
						if mid == nil || !topo.Analyze3(lat.Tris(mid)).Manifold() {
							return "ok"
						}
						out, v2 := b.apply(mid)
						if strings.HasPrefix(v2, "rule:") && mid.NumTriangles() > 400 {
							v2 = ""
						}
						return judge3(b, mid, out, v2)
					}})
			}
		}
	}
	registerARAP()
	register2D()
}

// ---- as-rigid-as-possible deformation ----

func rigid(k int) func(model3d.Coord3D) model3d.Coord3D {
	switch k {
	case 0:
		return func(c model3d.Coord3D) model3d.Coord3D { return c.Add(model3d.XYZ(0.5, -1, 2)) }
	case 1:
		r := model3d.Rotation(model3d.XYZ(1, 2, -1).Normalize(), 0.9)
		return func(c model3d.Coord3D) model3d.Coord3D { return r.Apply(c).Add(model3d.XYZ(-1, 0.25, 0.5)) }
	}
	r := model3d.Rotation(model3d.Z(1), math.Pi/2)
	return r.Apply
}

func registerARAP() {
	for _, mn := range []string{"octa", "cube", "icosa"} {
		mn := mn
		// every constraint subset of size 1..3 of the first 5 vertices x 3 rigid motions: one scenario per motion
		for motion := 0; motion < 3; motion++ {
			motion := motion
			register(scenario{name: fmt.Sprintf("arap:Deform(rigid-motion-%d,all-constraint-subsets<=3)/%s", motion, mn), procs: 1, prop: "C10", about: "ARAP with rigid-motion constraints",
				want: func() string { return "ok" },
				body: func() string {
					in := catMesh(mn)
					vs := sortedVerts(in)[:5]
					f := rigid(motion)
					for mask := 1; mask < 32; mask++ {
						cons := model3d.ARAPConstraints{}
						for i, v := range vs {
							if mask&(1<<uint(i)) != 0 {
								cons[v] = f(v)
							}
						}
						if len(cons) > 3 {
							continue
						}
						a := model3d.NewARAP(in)
						mp := a.DeformMap(cons, nil)
						for v, tgt := range cons {
							if mp[v] != tgt {
								return fmt.Sprintf("VIOLATION constraint: constrained vertex %v landed at %v, target %v (constraints %v)", v, mp[v], tgt, cons)
							}
						}
						if len(cons) == 3 {
							for v, w := range mp {
								if !(w.Dist(f(v)) <= 1e-3) {
									return fmt.Sprintf("VIOLATION rigid: three constraints taken from one rigid motion, but vertex %v went to %v instead of %v", v, w, f(v))
								}
							}
						}
						out := a.Deform(cons)
						if r := judge3(meshOp3{name: "ARAP.Deform", faces: func(f int) int { return f }}, in, out, ""); r != "ok" && len(cons) == 3 {
							return r
						}
					}
					return "ok"
				}})
		}
		// histories on one sequential deformer: every ordered pair / triple of constraint sets from a small family
		for _, cold := range []bool{false, true} {
			cold := cold
			register(scenario{name: fmt.Sprintf("arap:SeqDeformer(coldStart=%v,all-sequences-of-constraint-sets)/%s", cold, mn), procs: 1, prop: "C10", about: "ARAP sequential deformer: constraint-set histories",
				want: func() string { return "ok" },
				body: func() string {
					in := catMesh(mn)
					vs := sortedVerts(in)
					sets := [][]int{{0, 1, 2}, {0, 1, 2, 3}, {0, 1, 3}, {1, 2, 4}, {0, 1, 2, 3, 4}}
					for s1 := range sets {
						for s2 := range sets {
							for s3 := range sets {
								if s3 != s1 && s3 != 0 {
									continue // triples: return to the first set or to set 0
								}
								a := model3d.NewARAP(in)
								deform := a.SeqDeformer(cold)
								for step, si := range []int{s1, s2, s3} {
									f := rigid(step % 3)
									cons := model3d.ARAPConstraints{}
									for _, i := range sets[si] {
										cons[vs[i]] = f(vs[i])
									}
									out := deform(cons)
									ov := vertsOf(out)
									for _, tgt := range cons {
										if !ov[tgt] {
											return fmt.Sprintf("VIOLATION constraint: history %v step %d: target %v is not a vertex of the result", []int{s1, s2, s3}, step, tgt)
										}
									}
									for _, v := range vs {
										best := math.Inf(1)
										for w := range ov {
											best = math.Min(best, w.Dist(f(v)))
										}
										if best > 1e-3 {
											return fmt.Sprintf("VIOLATION rigid: history of constraint sets %v, step %d: image of vertex %v is %.3g away from its rigid-motion position", []int{s1, s2, s3}, step, v, best)
										}
									}
									if r := judge3(meshOp3{name: "SeqDeformer", faces: func(f int) int { return f }}, in, out, ""); r != "ok" {
										return r + fmt.Sprintf(" (history %v step %d)", []int{s1, s2, s3}, step)
									}
								}
							}
						}
					}
					return "ok"
				}})
		}
	}
}

func sortedVerts(m *model3d.Mesh) []model3d.Coord3D {
	vs := m.VertexSlice()
	sort.Slice(vs, func(i, j int) bool {
		a, b := vs[i], vs[j]
		if a.X != b.X {
			return a.X < b.X
		}
		if a.Y != b.Y {
			return a.Y < b.Y
		}
		return a.Z < b.Z
	})
	return vs
}

// ---- 2D ----

type meshOp2 struct {
	name       string
	apply      func(in *model2d.Mesh) (*model2d.Mesh, string)
	sameArea   bool
	vertSubset bool
}

func area2(segs []topo.S2) float64 {
	a := 0.0
	for _, s := range segs {
		a += s[0][0]*s[1][1] - s[0][1]*s[1][0]
	}
	return a / 2
}

func register2D() {
	ops := []meshOp2{
		{name: "Decimate(3)", vertSubset: true, apply: func(in *model2d.Mesh) (*model2d.Mesh, string) { return in.Decimate(3), "" }},
		{name: "Decimate(5)", vertSubset: true, apply: func(in *model2d.Mesh) (*model2d.Mesh, string) {
			out := in.Decimate(5)
			return out, ""
		}},
		{name: "EliminateColinear(1e-8)", sameArea: true, vertSubset: true, apply: func(in *model2d.Mesh) (*model2d.Mesh, string) { return in.EliminateColinear(1e-8), "" }},
		// a tolerance under which every vertex of a finely sampled arc is "nearly colinear" while the arc as a whole is
		// not: vertices must stop being eligible as their neighbours go
		{name: "EliminateColinear(0.3)", vertSubset: true, apply: func(in *model2d.Mesh) (*model2d.Mesh, string) {
			out := in.EliminateColinear(0.3)
			if out.NumSegments() < 3 {
				return out, fmt.Sprintf("rule: %d segments left of a closed outline", out.NumSegments())
			}
			return out, ""
		}},
		{name: "Subdivide(1)", apply: func(in *model2d.Mesh) (*model2d.Mesh, string) {
			out := in.Subdivide(1)
			// corner cutting: every input segment a->b contributes the points 3/4 a + 1/4 b and 1/4 a + 3/4 b
			want := map[model2d.Coord]bool{}
			in.Iterate(func(s *model2d.Segment) {
				want[s[0].Scale(0.75).Add(s[1].Scale(0.25))] = true
				want[s[1].Scale(0.75).Add(s[0].Scale(0.25))] = true
			})
			got := out.VertexSlice()
			if len(got) != len(want) || out.NumSegments() != 2*in.NumSegments() {
				return out, fmt.Sprintf("rule: corner cutting of %d segments must give %d vertices and %d segments, got %d and %d", in.NumSegments(), len(want), 2*in.NumSegments(), len(got), out.NumSegments())
			}
			for _, v := range got {
				ok := false
				for w := range want {
					if v.Dist(w) < 1e-12 {
						ok = true
					}
				}
				if !ok {
					return out, fmt.Sprintf("rule: vertex %v is not a 1/4 or 3/4 point of an input segment", v)
				}
			}
			return out, ""
		}},
		{name: "Subdivide(2)", apply: func(in *model2d.Mesh) (*model2d.Mesh, string) { return in.Subdivide(2), "" }},
		{name: "Smooth(3)", apply: func(in *model2d.Mesh) (*model2d.Mesh, string) { return in.Smooth(3), "" }},
		{name: "SmoothSq(3)", apply: func(in *model2d.Mesh) (*model2d.Mesh, string) { return in.SmoothSq(3), "" }},
		{name: "Blur(0)", vertSubset: true, sameArea: true, apply: func(in *model2d.Mesh) (*model2d.Mesh, string) { return in.Blur(0), "" }},
		{name: "Blur(0.5)", apply: func(in *model2d.Mesh) (*model2d.Mesh, string) {
			out := in.Blur(0.5)
			ov := map[model2d.Coord]bool{}
			for _, v := range out.VertexSlice() {
				ov[v] = true
			}
			for _, v := range in.VertexSlice() {
				var sum model2d.Coord
				n := 0.0
				for _, s := range in.Find(v) {
					for _, w := range s {
						if w != v {
							sum = sum.Add(w)
							n++
						}
					}
				}
				want := v.Scale(0.5).Add(sum.Scale(0.5 / n))
				ok := false
				for w := range ov {
					if w.Dist(want) < 1e-12 {
						ok = true
					}
				}
				if !ok {
					return out, fmt.Sprintf("rule: vertex %v should move to %v (half way to the mean of its neighbours)", v, want)
				}
			}
			return out, ""
		}},
	}
	judge := func(op meshOp2, in, out *model2d.Mesh, verdict string) string {
		if verdict != "" {
			return "VIOLATION " + verdict
		}
		ri, ro := topo.Analyze2(lat.Segs(in)), topo.Analyze2(lat.Segs(out))
		// a rule that itself sends two vertices to (numerically) one point is a degeneracy of the published rule,
		// not of the code: skipped. Non-finite coordinates are never excused.
		ovs := out.VertexSlice()
		size := in.Max().Dist(in.Min())
		for i, v := range ovs {
			if math.IsNaN(v.X+v.Y) || math.IsInf(v.X+v.Y, 0) {
				return fmt.Sprintf("VIOLATION topology: output vertex %v is not finite", v)
			}
			if !op.vertSubset && len(ovs) < len(in.VertexSlice()) && !strings.HasPrefix(op.name, "Subdivide") {
				return "ok" // vertices merged by the rule itself
			}
			if !op.vertSubset {
				for _, w := range ovs[i+1:] {
					if v.Dist(w) < 1e-7*size {
						return "ok"
					}
				}
			}
		}
		if !ro.Manifold() {
			return "VIOLATION topology: output outline is not a set of closed, consistently directed loops: " + ro.String()
		}
		if ro.Components != ri.Components {
			return fmt.Sprintf("VIOLATION topology: %d loops became %d", ri.Components, ro.Components)
		}
		ai, ao := area2(lat.Segs(in)), area2(lat.Segs(out))
		perim := 0.0
		in.Iterate(func(sg *model2d.Segment) { perim += sg.Length() })
		// epsilon-based eliminations may move the outline by up to their epsilon (1e-8)
		if op.sameArea && !(math.Abs(ai-ao) <= 1e-9*math.Abs(ai)+1e-7*perim) {
			return fmt.Sprintf("VIOLATION shape: area changed from %.12g to %.12g", ai, ao)
		}
		if op.vertSubset {
			iv := map[model2d.Coord]bool{}
			for _, v := range in.VertexSlice() {
				iv[v] = true
			}
			for _, v := range out.VertexSlice() {
				if !iv[v] {
					return fmt.Sprintf("VIOLATION vertices: output vertex %v is not an input vertex", v)
				}
			}
		}
		return "ok"
	}
	for _, nm := range cat.Closed2() {
		nm := nm
		for _, op := range ops {
			op := op
			register(scenario{name: nospace("op2:" + op.name + "/" + nm.Name), procs: 1, prop: "C10", about: "one 2D mesh operation under explorer-owned map order",
				want: func() string { return "ok" },
				body: func() string {
					vmap.Permute = true
					in := nm.Mesh()
					out, v := op.apply(in)
					return judge(op, in, out, v)
				}})
			for _, op2 := range ops {
				op2 := op2
				register(scenario{name: nospace("chain2:" + op.name + "->" + op2.name + "/" + nm.Name), procs: 1, prop: "C10", about: "two 2D mesh operations in succession",
					want: func() string { return "ok" },
					body: func() string {
						vmap.Permute = true
						in := nm.Mesh()
						mid, v := op.apply(in)
						if judge(op, in, mid, v) != "ok" || !topo.Analyze2(lat.Segs(mid)).Manifold() {
							return "ok" // the second step is only defined on closed manifold input
						}
						// Smooth/SmoothSq take the step that minimises total (squared) length; on a regular polygon that one
						// step contracts the outline to a point (extent 1e-14, distinct vertices only by rounding). What a
						// second operation does with such an outline is rounding noise, not a property of the operation.
						if ext, ext0 := mid.Max().Sub(mid.Min()).Norm(), in.Max().Sub(in.Min()).Norm(); !(ext > 1e-6*ext0) {
							return "ok"
						}
						out, v2 := op2.apply(mid)
						return judge(op2, mid, out, v2)
					}})
			}
		}
	}
}
