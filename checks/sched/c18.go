package main

// C18 scenarios: surface parameterisation. The chart decomposition grows charts
// from map-ordered seeds, so those scenarios run with explorer-owned map order;
// the body returns "ok" or "VIOLATION <class>: <detail>".

import (
	"fmt"
	"math"
	"sort"

	"github.com/unixpickle/model3d/model2d"
	"github.com/unixpickle/model3d/model3d"
	"github.com/unixpickle/model3d/numerical"

	"vshim/vmap"
	"vshim/vsched"
)

type triV = [3]model3d.Coord3D

func canonTri(t triV) triV {
	less := func(a, b model3d.Coord3D) bool {
		if a.X != b.X {
			return a.X < b.X
		}
		if a.Y != b.Y {
			return a.Y < b.Y
		}
		return a.Z < b.Z
	}
	for less(t[1], t[0]) || less(t[2], t[0]) {
		t = triV{t[1], t[2], t[0]}
	}
	return t
}

func meshTris(m *model3d.Mesh) []triV {
	var out []triV
	m.Iterate(func(t *model3d.Triangle) { out = append(out, triV{t[0], t[1], t[2]}) })
	return out
}

// discProblem returns "" if the triangles form a topological disc: connected through edges, every edge in at most
// two triangles with opposite directions, Euler characteristic 1 and a boundary that is one cycle.
func discProblem(ts []triV) string {
	if len(ts) == 0 {
		return "empty chart"
	}
	type e [2]model3d.Coord3D
	dir := map[e]int{}
	verts := map[model3d.Coord3D]bool{}
	for _, t := range ts {
		for k := 0; k < 3; k++ {
			dir[e{t[k], t[(k+1)%3]}]++
			verts[t[k]] = true
		}
	}
	und := map[e]bool{}
	boundaryNext := map[model3d.Coord3D][]model3d.Coord3D{}
	nb := 0
	for k, n := range dir {
		if n > 1 {
			return fmt.Sprintf("edge %v-%v traversed twice in the same direction", k[0], k[1])
		}
		r := dir[e{k[1], k[0]}]
		u := k
		if lessC(k[1], k[0]) {
			u = e{k[1], k[0]}
		}
		und[u] = true
		if r == 0 {
			boundaryNext[k[0]] = append(boundaryNext[k[0]], k[1])
			nb++
		}
	}
	if chi := len(verts) - len(und) + len(ts); chi != 1 {
		return fmt.Sprintf("Euler characteristic %d (V=%d E=%d F=%d), a disc has 1", chi, len(verts), len(und), len(ts))
	}
	// edge-connectedness
	adj := map[e][]int{}
	for i, t := range ts {
		for k := 0; k < 3; k++ {
			u := e{t[k], t[(k+1)%3]}
			if lessC(u[1], u[0]) {
				u = e{u[1], u[0]}
			}
			adj[u] = append(adj[u], i)
		}
	}
	seen := map[int]bool{0: true}
	stack := []int{0}
	for len(stack) > 0 {
		x := stack[len(stack)-1]
		stack = stack[:len(stack)-1]
		t := ts[x]
		for k := 0; k < 3; k++ {
			u := e{t[k], t[(k+1)%3]}
			if lessC(u[1], u[0]) {
				u = e{u[1], u[0]}
			}
			for _, y := range adj[u] {
				if !seen[y] {
					seen[y] = true
					stack = append(stack, y)
				}
			}
		}
	}
	if len(seen) != len(ts) {
		return fmt.Sprintf("%d of %d triangles are reachable through shared edges", len(seen), len(ts))
	}
	// boundary: one simple cycle
	if nb < 3 {
		return "boundary has fewer than 3 edges"
	}
	var start model3d.Coord3D
	for v, nx := range boundaryNext {
		if len(nx) != 1 {
			return fmt.Sprintf("boundary vertex %v has %d outgoing boundary edges (pinched boundary)", v, len(nx))
		}
		start = v
	}
	n := 0
	for v := start; ; {
		v = boundaryNext[v][0]
		n++
		if v == start || n > nb {
			break
		}
	}
	if n != nb {
		return fmt.Sprintf("boundary consists of several cycles (%d of %d edges in the first)", n, nb)
	}
	return ""
}

func lessC(a, b model3d.Coord3D) bool {
	if a.X != b.X {
		return a.X < b.X
	}
	if a.Y != b.Y {
		return a.Y < b.Y
	}
	return a.Z < b.Z
}

func partitionProblem(in *model3d.Mesh, charts []*model3d.Mesh) string {
	cnt := map[triV]int{}
	for _, t := range meshTris(in) {
		cnt[canonTri(t)]++
	}
	n := 0
	for _, c := range charts {
		for _, t := range meshTris(c) {
			cnt[canonTri(t)]--
			n++
		}
	}
	for t, v := range cnt {
		if v > 0 {
			return fmt.Sprintf("triangle %v is in no chart", t)
		}
		if v < 0 {
			return fmt.Sprintf("triangle %v is in more than one chart (or not in the input)", t)
		}
	}
	if n != in.NumTriangles() {
		return fmt.Sprintf("charts hold %d triangles, the mesh has %d", n, in.NumTriangles())
	}
	return ""
}

// ---- open discs ----

func discMeshes() map[string]*model3d.Mesh {
	out := map[string]*model3d.Mesh{}
	p := model3d.XYZ
	fan := model3d.NewMesh()
	c := p(0.1, 0.05, 0.6)
	const nf = 7
	rim := func(i int) model3d.Coord3D {
		i %= nf // the last triangle closes the fan on the first rim vertex exactly, so that c is interior
		a := 2 * math.Pi * float64(i) / nf
		return p(math.Cos(a)*(1+0.1*float64(i%3)), math.Sin(a), 0.05*float64(i))
	}
	for i := 0; i < nf; i++ {
		fan.Add(&model3d.Triangle{c, rim(i), rim(i + 1)})
	}
	out["fan7"] = fan
	// a strip with one vertex inserted in every triangle: interior vertices that are pairwise non-adjacent
	stel := model3d.NewMesh()
	for i := 0; i < 3; i++ {
		a, b := p(float64(i), 0, 0.1*float64(i*i)), p(float64(i)+0.4, 1, 0.2*float64(i))
		a2, b2 := p(float64(i+1), 0, 0.1*float64((i+1)*(i+1))), p(float64(i+1)+0.4, 1, 0.2*float64(i+1))
		for _, t := range [][3]model3d.Coord3D{{a, a2, b2}, {a, b2, b}} {
			m := t[0].Scale(0.5).Add(t[1].Scale(0.3)).Add(t[2].Scale(0.2)).Add(p(0, 0, 0.15))
			stel.Add(&model3d.Triangle{t[0], t[1], m})
			stel.Add(&model3d.Triangle{t[1], t[2], m})
			stel.Add(&model3d.Triangle{t[2], t[0], m})
		}
	}
	out["stellated-strip3"] = stel
	grid := model3d.NewMesh()
	h := func(i, j int) model3d.Coord3D {
		return p(float64(i)+0.07*float64(j), float64(j)-0.05*float64(i), 0.3*math.Sin(float64(i)*1.3)+0.2*float64(j*j)/4)
	}
	for i := 0; i < 3; i++ {
		for j := 0; j < 3; j++ {
			grid.Add(&model3d.Triangle{h(i, j), h(i+1, j), h(i+1, j+1)})
			grid.Add(&model3d.Triangle{h(i, j), h(i+1, j+1), h(i, j+1)})
		}
	}
	out["grid3x3"] = grid
	// the opposite of generic: a flat regular grid, unchanged by a half turn about its centre (connectivity, weights
	// and every boundary map are then point-symmetric, and so are the residuals of the linear system: their signed
	// sum vanishes from the first iteration on)
	sym := model3d.NewMesh()
	g := func(i, j int) model3d.Coord3D { return p(float64(i-3), float64(j-3), 0) }
	for i := 0; i < 6; i++ {
		for j := 0; j < 6; j++ {
			sym.Add(&model3d.Triangle{g(i, j), g(i+1, j), g(i+1, j+1)})
			sym.Add(&model3d.Triangle{g(i, j), g(i+1, j+1), g(i, j+1)})
		}
	}
	out["sym-grid6x6"] = sym
	strip := model3d.NewMesh()
	for i := 0; i < 5; i++ {
		a, b := p(float64(i), 0, 0.1*float64(i*i)), p(float64(i)+0.4, 1, 0.2*float64(i))
		a2, b2 := p(float64(i+1), 0, 0.1*float64((i+1)*(i+1))), p(float64(i+1)+0.4, 1, 0.2*float64(i+1))
		strip.Add(&model3d.Triangle{a, a2, b2})
		strip.Add(&model3d.Triangle{a, b2, b})
	}
	out["strip5"] = strip
	hemi := model3d.NewMesh()
	catMesh("icosa").Iterate(func(t *model3d.Triangle) {
		if t[0].Z+t[1].Z+t[2].Z > -0.3 {
			hemi.Add(&model3d.Triangle{t[0], t[1], t[2]})
		}
	})
	out["icosa-cap"] = hemi
	one := model3d.NewMesh()
	one.Add(&model3d.Triangle{p(0, 0, 0), p(1, 0.1, 0), p(0.2, 1.1, 0.3)})
	out["single-triangle"] = one
	return out
}

// The catalogue is what makes the Floater scenarios non-vacuous: its discs must have the interior they are
// meant to have (a fan that does not close exactly has none). Checked once at start-up; a mismatch is a
// harness error, not a verdict about the library.
func init() {
	want := map[string][2]int{"fan7": {8, 1}, "grid3x3": {16, 4}, "sym-grid6x6": {49, 25}, "strip5": {12, 0}, "single-triangle": {3, 0}, "stellated-strip3": {14, 6}}
	for name, m := range discMeshes() {
		w, ok := want[name]
		if !ok {
			continue
		}
		edges := map[[2]model3d.Coord3D]int{}
		m.Iterate(func(t *model3d.Triangle) {
			for i := 0; i < 3; i++ {
				a, b := t[i], t[(i+1)%3]
				if x, y := a.Array(), b.Array(); y[0] < x[0] || (y[0] == x[0] && (y[1] < x[1] || (y[1] == x[1] && y[2] < x[2]))) {
					a, b = b, a
				}
				edges[[2]model3d.Coord3D{a, b}]++
			}
		})
		onBoundary := map[model3d.Coord3D]bool{}
		for e, n := range edges {
			if n == 1 {
				onBoundary[e[0]], onBoundary[e[1]] = true, true
			}
		}
		nv := len(m.VertexSlice())
		if nv != w[0] || nv-len(onBoundary) != w[1] {
			panic(fmt.Sprintf("harness: catalogue disc %s has %d vertices, %d interior; expected %d and %d", name, nv, nv-len(onBoundary), w[0], w[1]))
		}
	}
}

// pnormOf parses the exponent out of a boundary name such as "PNorm1.5".
func pnormOf(name string) float64 {
	var p float64
	fmt.Sscanf(name, "PNorm%g", &p)
	return p
}

func uvArea(a, b, c model2d.Coord) float64 {
	return ((b.X-a.X)*(c.Y-a.Y) - (b.Y-a.Y)*(c.X-a.X)) / 2
}

func init() {
	closed := []string{"tetra", "octa", "cube", "icosa", "torus4x3", "two-tetra", "gridbox2"}
	for _, mn := range closed {
		mn := mn
		for _, limit := range []int{0, 1, 2, 5} {
			limit := limit
			register(scenario{name: fmt.Sprintf("charts:MeshToPlaneGraphsLimited(%d)/%s", limit, mn), procs: 1, prop: "C18", about: "chart decomposition under explorer-owned map order",
				want: func() string { return "ok" },
				body: func() string {
					vmap.Permute = true
					in := catMesh(mn)
					var charts []*model3d.Mesh
					if limit == 0 {
						charts = model3d.MeshToPlaneGraphs(in)
					} else {
						charts = model3d.MeshToPlaneGraphsLimited(in, limit, 0)
					}
					if p := partitionProblem(in, charts); p != "" {
						return "VIOLATION partition: " + p
					}
					for i, c := range charts {
						if p := discProblem(meshTris(c)); p != "" {
							return fmt.Sprintf("VIOLATION disc: chart %d of %d (%d triangles) is not a topological disc: %s", i, len(charts), c.NumTriangles(), p)
						}
						if limit > 0 && c.NumTriangles() > limit {
							return fmt.Sprintf("VIOLATION limit: chart %d has %d triangles, limit %d", i, c.NumTriangles(), limit)
						}
						// idempotence on its own output
						again := model3d.MeshToPlaneGraphs(c)
						if len(again) != 1 || partitionProblem(c, again) != "" {
							return fmt.Sprintf("VIOLATION idempotent: decomposing chart %d again gives %d charts", i, len(again))
						}
						if c.NumTriangles() >= 2 {
							parts := model3d.SplitPlaneGraph(c, nil)
							if len(parts) < 2 {
								return fmt.Sprintf("VIOLATION split: SplitPlaneGraph of a %d-triangle chart returned %d part(s)", c.NumTriangles(), len(parts))
							}
							if p := partitionProblem(c, parts); p != "" {
								return "VIOLATION split: " + p
							}
							for _, q := range parts {
								if p := discProblem(meshTris(q)); p != "" {
									return "VIOLATION split: a part is not a disc: " + p
								}
							}
						}
					}
					return "ok"
				}})
		}
	}
	discs := discMeshes()
	var dnames []string
	for n := range discs {
		dnames = append(dnames, n)
	}
	sort.Strings(dnames)
	for _, dn := range dnames {
		dn := dn
		register(scenario{name: "charts:disc-is-one-chart/" + dn, procs: 1, prop: "C18", about: "an open disc is its own single chart",
			want: func() string { return "ok" },
			body: func() string {
				vmap.Permute = true
				in := discMeshes()[dn]
				charts := model3d.MeshToPlaneGraphs(in)
				if p := partitionProblem(in, charts); p != "" {
					return "VIOLATION partition: " + p
				}
				for _, c := range charts {
					if p := discProblem(meshTris(c)); p != "" {
						return "VIOLATION disc: " + p
					}
				}
				if len(charts) != 1 {
					return fmt.Sprintf("VIOLATION idempotent: a disc was split into %d charts", len(charts))
				}
				return "ok"
			}})
		// the stretch-minimising iteration re-weights and re-solves; whatever weights it ends with, the result must
		// be a convex-combination map: boundary where it was put, every interior vertex strictly inside the convex
		// hull of its neighbours (<=> some positive weights make it their mean), no flipped or degenerate triangle
		for bi, bname := range []string{"Circle", "PNorm4", "PNorm3"} {
			bi, bname := bi, bname
			for wi, wname := range []string{"uniform", "shape-preserving"} {
				wi, wname := wi, wname
				for _, it := range []struct {
					n   int
					eta float64
				}{{1, 1}, {3, 1}, {-1, 0.5}, {0, 1}} {
					it := it
					register(scenario{name: fmt.Sprintf("stretchmin:%s/%s/iters%d-eta%g/%s", bname, wname, it.n, it.eta, dn), procs: 1, prop: "C18", about: "stretch-minimising parameterisation over a convex boundary",
						want: func() string { return "ok" },
						body: func() string {
							m := discMeshes()[dn]
							var boundary *model3d.CoordMap[model2d.Coord]
							if bi == 0 {
								boundary = model3d.CircleBoundary(m)
							} else {
								boundary = model3d.PNormBoundary(m, pnormOf(bname))
							}
							var w *model3d.EdgeMap[float64]
							if wi == 0 {
								w = model3d.Floater97UniformWeights(m)
							} else {
								w = model3d.Floater97ShapePreservingWeights(m)
							}
							uv := model3d.StretchMinimizingParameterization(m, boundary, w, nil, it.n, it.eta, false)
							res := ""
							m.AllVertexNeighbors().Range(func(c model3d.Coord3D, ns []model3d.Coord3D) bool {
								got, ok := uv.Load(c)
								if !ok {
									res = fmt.Sprintf("VIOLATION mean: vertex %v has no parameter", c)
									return false
								}
								if want, isB := boundary.Load(c); isB {
									if got != want {
										res = fmt.Sprintf("VIOLATION boundary: boundary vertex %v moved from %v to %v", c, want, got)
										return false
									}
									return true
								}
								var angs []float64
								for _, n := range ns {
									q, _ := uv.Load(n)
									d := q.Sub(got)
									if d.Norm() == 0 {
										res = fmt.Sprintf("VIOLATION mean: interior vertex %v coincides with its neighbour %v in the parameterisation", c, n)
										return false
									}
									angs = append(angs, math.Atan2(d.Y, d.X))
								}
								sort.Float64s(angs)
								gap := angs[0] + 2*math.Pi - angs[len(angs)-1]
								for i := 1; i < len(angs); i++ {
									gap = math.Max(gap, angs[i]-angs[i-1])
								}
								if !(gap < math.Pi-1e-9) {
									res = fmt.Sprintf("VIOLATION mean: interior vertex %v at %v is not strictly inside the convex hull of its neighbours (they leave an angular gap of %g)", c, got, gap)
									return false
								}
								return true
							})
							if res != "" {
								return res
							}
							sign := 0.0
							m.Iterate(func(t *model3d.Triangle) {
								if res != "" {
									return
								}
								a, _ := uv.Load(t[0])
								b, _ := uv.Load(t[1])
								c, _ := uv.Load(t[2])
								ar := uvArea(a, b, c)
								if math.Abs(ar) < 1e-12 {
									res = fmt.Sprintf("VIOLATION flip: triangle %v is mapped to a degenerate UV triangle", *t)
								} else if sign == 0 {
									sign = ar
								} else if (ar > 0) != (sign > 0) {
									res = fmt.Sprintf("VIOLATION flip: triangle %v is flipped in the parameterisation (signed areas %g vs %g)", *t, ar, sign)
								}
							})
							if res != "" {
								return res
							}
							return "ok"
						}})
				}
			}
		}
		for bi, bname := range []string{"Circle", "Square", "PNorm4", "PNorm1", "PNorm1.5", "PNorm3", "PNorm5", "PNorm8"} {
			bi, bname := bi, bname
			for wi, wname := range []string{"uniform", "inverse-chord", "shape-preserving"} {
				wi, wname := wi, wname
				for si, sname := range []string{"", "/solver=default", "/solver=mae1e-11", "/solver=mse1e-22"} {
					si, sname := si, sname
					if si > 0 && bi > 1 {
						continue // explicit solvers on the circle and the square only
					}
					register(scenario{name: fmt.Sprintf("floater:%s/%s/%s%s", bname, wname, dn, sname), procs: 1, prop: "C18", about: "Floater parameterisation over a convex boundary",
						want: func() string { return "ok" },
						body: func() string {
							m := discMeshes()[dn]
							var boundary *model3d.CoordMap[model2d.Coord]
							switch bi {
							case 0:
								boundary = model3d.CircleBoundary(m)
							case 1:
								boundary = model3d.SquareBoundary(m)
							default:
								boundary = model3d.PNormBoundary(m, pnormOf(bname))
							}
							var w *model3d.EdgeMap[float64]
							switch wi {
							case 0:
								w = model3d.Floater97UniformWeights(m)
							case 1:
								w = model3d.Floater97InvChordLengthWeights(m, 1)
							default:
								w = model3d.Floater97ShapePreservingWeights(m)
							}
							// boundary on the convex curve
							bad := ""
							boundary.Range(func(k model3d.Coord3D, v model2d.Coord) bool {
								var r float64
								switch bi {
								case 0:
									r = v.Norm()
								case 1:
									r = math.Max(math.Abs(v.X), math.Abs(v.Y))
								default:
									pe := pnormOf(bname)
									r = math.Pow(math.Pow(math.Abs(v.X), pe)+math.Pow(math.Abs(v.Y), pe), 1/pe)
								}
								if !(math.Abs(r-1) <= 1e-9) {
									bad = fmt.Sprintf("boundary vertex %v is mapped to %v, which is not on the unit %s", k, v, bname)
									return false
								}
								return true
							})
							if bad != "" {
								return "VIOLATION boundary: " + bad
							}
							var solver numerical.LargeLinearSolver
							switch si {
							case 1:
								solver = model3d.Floater97DefaultSolver()
							case 2:
								solver = &numerical.BiCGSTABSolver{MaxIters: 5000, MAETolerance: 1e-11}
							case 3:
								solver = &numerical.BiCGSTABSolver{MaxIters: 5000, MSETolerance: 1e-22}
							}
							uv := model3d.Floater97(m, boundary, w, solver)
							// interior vertices: weighted mean of neighbours under the returned weights
							nbs := m.AllVertexNeighbors()
							res := ""
							nbs.Range(func(c model3d.Coord3D, ns []model3d.Coord3D) bool {
								if _, isB := boundary.Load(c); isB {
									got, _ := uv.Load(c)
									want, _ := boundary.Load(c)
									if got != want {
										res = fmt.Sprintf("VIOLATION boundary: boundary vertex %v moved from %v to %v", c, want, got)
										return false
									}
									return true
								}
								var sum model2d.Coord
								tot := 0.0
								for _, n := range ns {
									wt, ok := w.Load([2]model3d.Coord3D{c, n})
									if !ok || wt <= 0 {
										res = fmt.Sprintf("VIOLATION weights: weight of edge %v -> %v is %v (present=%v), not positive", c, n, wt, ok)
										return false
									}
									p, _ := uv.Load(n)
									sum = sum.Add(p.Scale(wt))
									tot += wt
								}
								if !(math.Abs(tot-1) <= 1e-9) {
									res = fmt.Sprintf("VIOLATION weights: weights around %v sum to %v", c, tot)
									return false
								}
								got, _ := uv.Load(c)
								if !(got.Dist(sum) <= 1e-5) {
									res = fmt.Sprintf("VIOLATION mean: interior vertex %v is at %v, the weighted mean of its neighbours is %v", c, got, sum)
									return false
								}
								return true
							})
							if res != "" {
								return res
							}
							// no flipped or overlapping triangle: all UV triangles have the same strict orientation
							// (square boundaries may legitimately flatten triangles whose three vertices lie on one side)
							sign := 0.0
							m.Iterate(func(t *model3d.Triangle) {
								if res != "" {
									return
								}
								a, _ := uv.Load(t[0])
								b, _ := uv.Load(t[1])
								c, _ := uv.Load(t[2])
								ar := uvArea(a, b, c)
								if math.Abs(ar) < 1e-12 {
									if bi == 1 || bname == "PNorm1" { // straight sides: three boundary vertices on one side are collinear
										return
									}
									res = fmt.Sprintf("VIOLATION flip: triangle %v is mapped to a degenerate UV triangle", *t)
									return
								}
								if sign == 0 {
									sign = ar
								} else if (ar > 0) != (sign > 0) {
									res = fmt.Sprintf("VIOLATION flip: triangle %v is flipped in the parameterisation (signed areas %g vs %g)", *t, ar, sign)
								}
							})
							if res != "" {
								return res
							}
							return "ok"
						}})
				}
			}
		}
	}
	// automatic atlas + inverse lookup
	for _, mn := range append([]string{"tetra", "octa", "cube", "icosa", "torus4x3", "two-tetra"}, "disc:grid3x3", "disc:icosa-cap") {
		mn := mn
		register(scenario{name: "atlas:BuildAutomaticUVMap/" + mn, procs: 1, prop: "C18", about: "automatic UV atlas and MapFn",
			want: func() string { return "ok" },
			body: func() string {
				var m *model3d.Mesh
				if len(mn) > 5 && mn[:5] == "disc:" {
					m = discMeshes()[mn[5:]]
				} else {
					m = catMesh(mn)
				}
				uvm := model3d.BuildAutomaticUVMap(m, 256, false)
				if p := atlasProblem(m, uvm, true); p != "ok" {
					return p
				}
				// the same atlas seen through the image conventions a texture may use: V flipped (rows counted from the
				// top), U flipped, axes swapped. Every UV triangle then has the other winding (or the same, for both
				// flips), the charts are as disjoint as before, and the inverse lookup must still return the point with
				// the same barycentric position
				for _, fm := range []struct {
					name string
					f    func(model2d.Coord) model2d.Coord
				}{
					{"v -> 1-v", func(c model2d.Coord) model2d.Coord { return model2d.XY(c.X, 1-c.Y) }},
					{"u -> 1-u", func(c model2d.Coord) model2d.Coord { return model2d.XY(1-c.X, c.Y) }},
					{"u <-> v", func(c model2d.Coord) model2d.Coord { return model2d.XY(c.Y, c.X) }},
					{"both axes flipped", func(c model2d.Coord) model2d.Coord { return model2d.XY(1-c.X, 1-c.Y) }},
				} {
					name, f := fm.name, fm.f
					fl := model3d.MeshUVMap{}
					for t, uv := range uvm {
						fl[t] = [3]model2d.Coord{f(uv[0]), f(uv[1]), f(uv[2])}
					}
					if p := atlasProblem(m, fl, true); p != "ok" {
						return p + " [atlas with " + name + "]"
					}
				}
				return "ok"
			}})
	}
	register(scenario{name: "atlas:PackMeshUVMaps/hand-made-charts", procs: 1, prop: "C18", about: "packing of separate charts and lookups in the gutters",
		want: func() string { return "ok" },
		body: func() string {
			// a 5x5 set of separate right triangles, each its own chart with its own 3D embedding
			m := model3d.NewMesh()
			var maps []model3d.MeshUVMap
			for i := 0; i < 5; i++ {
				for j := 0; j < 5; j++ {
					o := model3d.XYZ(float64(i)*3, float64(j)*3, float64(i+j))
					t := &model3d.Triangle{o, o.Add(model3d.XYZ(1+0.1*float64(i), 0, 0.5)), o.Add(model3d.XYZ(0.2, 1+0.2*float64(j), 0))}
					m.Add(t)
					maps = append(maps, model3d.MeshUVMap{t: [3]model2d.Coord{model2d.XY(0, 0), model2d.XY(1+0.3*float64(j), 0), model2d.XY(0, 1+0.2*float64(i))}})
				}
			}
			packed := model3d.PackMeshUVMaps(model2d.XY(0, 0), model2d.XY(1, 1), 1.0/64, maps)
			return atlasProblem(m, packed, true)
		}})
}

// the small helpers the packing is built from, by their definitions
func init() {
	register(scenario{name: "atlas:uvmap-helpers", procs: 1, prop: "C18", about: "Bounds2D, ToBounds, Area3D, JoinMeshUVMaps, NewMeshUVMapForCoords",
		want: func() string { return "ok" },
		body: func() string {
			t1 := &model3d.Triangle{model3d.XYZ(0, 0, 0), model3d.XYZ(2, 0, 0), model3d.XYZ(0, 1, 0)}
			t2 := &model3d.Triangle{model3d.XYZ(2, 0, 0), model3d.XYZ(2, 1, 3), model3d.XYZ(0, 1, 0)}
			t3 := &model3d.Triangle{model3d.XYZ(5, 5, 5), model3d.XYZ(6, 5, 5), model3d.XYZ(5, 7, 5)}
			a := model3d.MeshUVMap{t1: {model2d.XY(-1, 2), model2d.XY(3, 2.5), model2d.XY(-0.5, 4)}, t2: {model2d.XY(3, 2.5), model2d.XY(2, 6), model2d.XY(-0.5, 4)}}
			b := model3d.MeshUVMap{t3: {model2d.XY(10, 10), model2d.XY(11, 10), model2d.XY(10, 12)}, t1: {model2d.XY(0, 0), model2d.XY(1, 0), model2d.XY(0, 1)}}
			lo, hi := a.Bounds2D()
			if lo != model2d.XY(-1, 2) || hi != model2d.XY(3, 6) {
				return fmt.Sprintf("VIOLATION helpers: Bounds2D = %v..%v, the coordinates span (-1,2)..(3,6)", lo, hi)
			}
			if got, want := a.Area3D(), t1.Area()+t2.Area(); !(math.Abs(got-want) <= 1e-12) {
				return fmt.Sprintf("VIOLATION helpers: Area3D = %g, the faces have %g", got, want)
			}
			for _, tg := range [][2]model2d.Coord{{model2d.XY(0, 0), model2d.XY(1, 1)}, {model2d.XY(-3, 0.5), model2d.XY(-1, 0.75)}, {model2d.XY(2, 2), model2d.XY(2.5, 9)}} {
				nb := a.ToBounds(tg[0], tg[1])
				if len(nb) != len(a) {
					return "VIOLATION helpers: ToBounds changed the number of faces"
				}
				for k, v := range a {
					w, ok := nb[k]
					if !ok {
						return "VIOLATION helpers: ToBounds lost a face"
					}
					for i := 0; i < 3; i++ {
						want := model2d.XY(tg[0].X+(v[i].X-lo.X)/(hi.X-lo.X)*(tg[1].X-tg[0].X), tg[0].Y+(v[i].Y-lo.Y)/(hi.Y-lo.Y)*(tg[1].Y-tg[0].Y))
						if !(w[i].Dist(want) <= 1e-12) {
							return fmt.Sprintf("VIOLATION helpers: ToBounds(%v,%v) sends %v to %v, the affine map of the box gives %v", tg[0], tg[1], v[i], w[i], want)
						}
					}
				}
				if l2, h2 := nb.Bounds2D(); !(l2.Dist(tg[0]) <= 1e-12) || !(h2.Dist(tg[1]) <= 1e-12) {
					return fmt.Sprintf("VIOLATION helpers: after ToBounds(%v,%v) the bounds are %v..%v", tg[0], tg[1], l2, h2)
				}
				if l3, h3 := a.Bounds2D(); l3 != lo || h3 != hi {
					return "VIOLATION helpers: ToBounds changed its receiver"
				}
			}
			j := model3d.JoinMeshUVMaps(a, b)
			if len(j) != 3 || j[t2] != a[t2] || j[t3] != b[t3] || j[t1] != b[t1] {
				return "VIOLATION helpers: JoinMeshUVMaps is not the union of the maps (later maps winning)"
			}
			if len(a) != 2 || len(b) != 2 || a[t1][0] != model2d.XY(-1, 2) {
				return "VIOLATION helpers: JoinMeshUVMaps changed an argument"
			}
			m := model3d.NewMesh()
			m.Add(t1)
			m.Add(t2)
			cm := model3d.NewCoordMap[model2d.Coord]()
			for _, t := range []*model3d.Triangle{t1, t2} {
				for _, c := range t {
					cm.Store(c, model2d.XY(c.X+10*c.Z, c.Y-c.X))
				}
			}
			fc := model3d.NewMeshUVMapForCoords(m, cm)
			for _, t := range []*model3d.Triangle{t1, t2} {
				v, ok := fc[t]
				for i := 0; ok && i < 3; i++ {
					ok = v[i] == model2d.XY(t[i].X+10*t[i].Z, t[i].Y-t[i].X)
				}
				if !ok || len(fc) != 2 {
					return "VIOLATION helpers: NewMeshUVMapForCoords does not give every corner its vertex's coordinate"
				}
			}
			return "ok"
		}})
}

// packing of k separate one-triangle charts of similar area into square, tall, wide and offset rectangles: every
// node shape of the quad tree (1, 2, 3, 4 charts and deeper) in every aspect ratio
func init() {
	targets := []struct {
		name   string
		lo, hi model2d.Coord
	}{
		{"unit", model2d.XY(0, 0), model2d.XY(1, 1)},
		{"tall", model2d.XY(0, 0), model2d.XY(1, 2)},
		{"wide", model2d.XY(0, 0), model2d.XY(2, 1)},
		{"offset-tall", model2d.XY(0.5, 0), model2d.XY(1, 1)},
		{"offset-wide", model2d.XY(-1, 0.25), model2d.XY(1, 0.75)},
	}
	for _, tg := range targets {
		for k := 1; k <= 9; k++ {
			tg, k := tg, k
			register(scenario{name: fmt.Sprintf("atlas:PackMeshUVMaps/%d-charts/%s", k, tg.name), procs: 1, prop: "C18", about: "packing of k charts into a rectangle of a given aspect ratio",
				want: func() string { return "ok" },
				body: func() string {
					m := model3d.NewMesh()
					var maps []model3d.MeshUVMap
					for i := 0; i < k; i++ {
						o := model3d.XYZ(float64(i)*3, float64(i%3), float64(i))
						t := &model3d.Triangle{o, o.Add(model3d.XYZ(1+0.05*float64(i), 0, 0.5)), o.Add(model3d.XYZ(0.2, 1+0.03*float64(i), 0))}
						m.Add(t)
						maps = append(maps, model3d.MeshUVMap{t: [3]model2d.Coord{model2d.XY(0, 0), model2d.XY(1+0.02*float64(i), 0), model2d.XY(0, 1+0.01*float64(i))}})
					}
					packed := model3d.PackMeshUVMaps(tg.lo, tg.hi, 1.0/64, maps)
					return atlasProblemIn(m, packed, true, tg.lo, tg.hi)
				}})
		}
	}
}

func triOverlap2(a, b [3]model2d.Coord) bool {
	// interiors intersect? separating axis test with a tolerance
	axes := func(t [3]model2d.Coord) []model2d.Coord {
		var o []model2d.Coord
		for k := 0; k < 3; k++ {
			d := t[(k+1)%3].Sub(t[k])
			o = append(o, model2d.XY(-d.Y, d.X).Normalize())
		}
		return o
	}
	for _, ax := range append(axes(a), axes(b)...) {
		minA, maxA, minB, maxB := math.Inf(1), math.Inf(-1), math.Inf(1), math.Inf(-1)
		for k := 0; k < 3; k++ {
			pa, pb := a[k].Dot(ax), b[k].Dot(ax)
			minA, maxA = math.Min(minA, pa), math.Max(maxA, pa)
			minB, maxB = math.Min(minB, pb), math.Max(maxB, pb)
		}
		if maxA <= minB+1e-9 || maxB <= minA+1e-9 {
			return false
		}
	}
	return true
}

func closestOnTri2(p model2d.Coord, t [3]model2d.Coord) model2d.Coord {
	if uvArea(t[0], t[1], t[2]) != 0 {
		s := uvArea(t[0], t[1], t[2])
		in := true
		for k := 0; k < 3; k++ {
			if uvArea(t[k], t[(k+1)%3], p)*s < 0 {
				in = false
			}
		}
		if in {
			return p
		}
	}
	best, bp := math.Inf(1), t[0]
	for k := 0; k < 3; k++ {
		a, b := t[k], t[(k+1)%3]
		ab := b.Sub(a)
		tt := 0.0
		if ab.Dot(ab) > 0 {
			tt = math.Max(0, math.Min(1, p.Sub(a).Dot(ab)/ab.Dot(ab)))
		}
		q := a.Add(ab.Scale(tt))
		if d := q.Dist(p); d < best {
			best, bp = d, q
		}
	}
	return bp
}

func atlasProblem(m *model3d.Mesh, uvm model3d.MeshUVMap, gutters bool) string {
	return atlasProblemIn(m, uvm, gutters, model2d.XY(0, 0), model2d.XY(1, 1))
}

// atlasProblemIn judges an atlas that was packed into the rectangle lo..hi.
func atlasProblemIn(m *model3d.Mesh, uvm model3d.MeshUVMap, gutters bool, lo, hi model2d.Coord) string {
	if len(uvm) != m.NumTriangles() {
		return fmt.Sprintf("VIOLATION atlas: %d triangles in the UV map, %d in the mesh", len(uvm), m.NumTriangles())
	}
	tris := sortedTris(m)
	for _, t := range tris {
		uv, ok := uvm[t]
		if !ok {
			return fmt.Sprintf("VIOLATION atlas: triangle %v has no UV coordinates", *t)
		}
		for _, c := range uv {
			if math.IsNaN(c.X+c.Y) || c.X < lo.X-1e-9 || c.Y < lo.Y-1e-9 || c.X > hi.X+1e-9 || c.Y > hi.Y+1e-9 {
				return fmt.Sprintf("VIOLATION unit-square: UV coordinate %v of triangle %v is outside the target rectangle %v..%v", c, *t, lo, hi)
			}
		}
	}
	// disjoint interiors (triangles that share a 3D edge may share the UV edge, never area)
	for i, a := range tris {
		for _, b := range tris[i+1:] {
			if triOverlap2(uvm[a], uvm[b]) {
				// shrink both slightly towards their centroids: touching along an edge is not overlap
				sh := func(t [3]model2d.Coord) [3]model2d.Coord {
					c := t[0].Add(t[1]).Add(t[2]).Scale(1.0 / 3)
					return [3]model2d.Coord{c.Add(t[0].Sub(c).Scale(0.999)), c.Add(t[1].Sub(c).Scale(0.999)), c.Add(t[2].Sub(c).Scale(0.999))}
				}
				if !(math.Abs(uvArea(uvm[a][0], uvm[a][1], uvm[a][2])) <= 1e-12) && !(math.Abs(uvArea(uvm[b][0], uvm[b][1], uvm[b][2])) <= 1e-12) && triOverlap2(sh(uvm[a]), sh(uvm[b])) {
					return fmt.Sprintf("VIOLATION overlap: UV triangles of %v and %v overlap (%v, %v)", *a, *b, uvm[a], uvm[b])
				}
			}
		}
	}
	// inverse lookup at a barycentric lattice
	fn := uvm.MapFn()
	for _, t := range tris {
		uv := uvm[t]
		if math.Abs(uvArea(uv[0], uv[1], uv[2])) < 1e-10 {
			continue
		}
		for i := 1; i <= 4; i++ {
			for j := 1; i+j <= 5; j++ {
				bc := [3]float64{float64(i) / 6, float64(j) / 6, 1 - float64(i+j)/6}
				q := uv[0].Scale(bc[0]).Add(uv[1].Scale(bc[1])).Add(uv[2].Scale(bc[2]))
				want := t[0].Scale(bc[0]).Add(t[1].Scale(bc[1])).Add(t[2].Scale(bc[2]))
				got, gt := fn(q)
				if gt != t {
					// another triangle may legitimately own the point only if the charts overlap, which was excluded above
					return fmt.Sprintf("VIOLATION mapfn: UV point %v (barycentric %v of triangle %v) is mapped to triangle %v", q, bc, *t, *gt)
				}
				if !(got.Dist(want) <= 1e-6*(1+want.Norm())) {
					return fmt.Sprintf("VIOLATION mapfn: UV point %v of triangle %v maps to %v, the point with the same barycentric coordinates is %v", q, *t, got, want)
				}
			}
		}
	}
	if gutters {
		// points outside every triangle: the nearest point of the triangulation is used (documented)
		for x := -0.1; x <= 1.1; x += 0.05 {
			for y := -0.1; y <= 1.1; y += 0.05 {
				q := lo.Add(model2d.XY((x+0.0037)*(hi.X-lo.X), (y-0.0021)*(hi.Y-lo.Y)))
				best := math.Inf(1)
				for _, t := range tris {
					if d := closestOnTri2(q, uvm[t]).Dist(q); d < best {
						best = d
					}
				}
				got, gt := fn(q)
				// where does the answer sit in UV space?
				uv := uvm[gt]
				ar := uvArea(uv[0], uv[1], uv[2])
				if math.Abs(ar) < 1e-12 {
					continue
				}
				// barycentric coordinates of got in gt (3D)
				n := gt[1].Sub(gt[0]).Cross(gt[2].Sub(gt[0]))
				den := n.Dot(n)
				b0 := gt[1].Sub(got).Cross(gt[2].Sub(got)).Dot(n) / den
				b1 := gt[2].Sub(got).Cross(gt[0].Sub(got)).Dot(n) / den
				b2 := 1 - b0 - b1
				back := uv[0].Scale(b0).Add(uv[1].Scale(b1)).Add(uv[2].Scale(b2))
				if !(back.Dist(q) <= best+1e-6) {
					return fmt.Sprintf("VIOLATION mapfn: UV point %v is %.6g from the triangulation, but was mapped to a point %.6g away (triangle %v)", q, best, back.Dist(q), *gt)
				}
			}
		}
	}
	return "ok"
}

// ---- SplitPlaneGraph under every priority order ----
//
// The flood fill that grows a chart takes triangles in the order of a caller-supplied priority and refuses a
// triangle that would split the remaining boundary. Which refusals are needed depends on the order; the nil
// heuristic exercises one order per mesh. Here the priority is an explorer-owned input: every permutation of
// the triangles of small open discs is used as the decision function (n! executions per disc, the explorer's
// deviation bound is set to n so that nothing is cut off). The discs include islands that touch the outer
// boundary in a single vertex and are ringed by thin triangles - the shape in which accepting the wrong
// triangle closes a loop around a hole.

func splitDiscs() map[string][]triV {
	p := model3d.XYZ
	out := map[string][]triV{}
	c, a, b, a1, b1 := p(0, 0, 0), p(5, 10, 0), p(-5, 10, 0), p(6, 11, 0.5), p(-6, 11, 0.25)
	out["island-ring4"] = []triV{{c, a, b}, {c, a1, a}, {a, a1, b1}, {a, b1, b}, {c, b, b1}}
	top := p(0, 13, 1)
	out["island-ring5"] = []triV{{c, a, b}, {c, a1, a}, {a, a1, top}, {a, top, b}, {b, top, b1}, {c, b, b1}}
	// a two-triangle island (quad c,a,m,b) touching the boundary at c, ringed
	m := p(0, 16, 0.5)
	a2, b2, m2 := p(7, 10, 0.25), p(-7, 10, 0), p(0, 19, 1)
	out["quad-island-ring"] = []triV{{c, a, m}, {c, m, b}, {c, a2, a}, {a, a2, m2}, {a, m2, m}, {m, m2, b2}, {m, b2, b}}
	var hex []triV
	ctr := p(0.125, 0.0625, 0.5)
	rim := func(i int) model3d.Coord3D {
		i %= 6
		ang := 2 * math.Pi * float64(i) / 6
		return p(math.Cos(ang)*(1+0.125*float64(i%3)), math.Sin(ang), 0.0625*float64(i))
	}
	for i := 0; i < 6; i++ {
		hex = append(hex, triV{ctr, rim(i), rim(i + 1)})
	}
	out["fan6"] = hex
	var strip []triV
	for i := 0; i < 3; i++ {
		x0, y0 := p(float64(i), 0, 0.125*float64(i*i)), p(float64(i)+0.375, 1, 0.25*float64(i))
		x1, y1 := p(float64(i+1), 0, 0.125*float64((i+1)*(i+1))), p(float64(i+1)+0.375, 1, 0.25*float64(i+1))
		strip = append(strip, triV{x0, x1, y1}, triV{x0, y1, y0})
	}
	out["strip3"] = strip
	// a triangle split 1 -> 4 with an ear on two of its sides: the middle triangle is interior
	A, B, C := p(0, 0, 0), p(4, 0, 0.5), p(1, 3, 0.25)
	ab, bc, ca := A.Mid(B), B.Mid(C), C.Mid(A)
	out["split4-ears"] = []triV{{A, ab, ca}, {ab, B, bc}, {ca, bc, C}, {ab, bc, ca}, {A, p(2, -1.5, 0), ab}, {ab, p(2, -1.5, 0), B}}
	return out
}

func init() {
	for name, ts := range splitDiscs() {
		if p := discProblem(ts); p != "" {
			panic("harness: split disc " + name + " is not a disc: " + p)
		}
	}
	var names []string
	for n := range splitDiscs() {
		names = append(names, n)
	}
	sort.Strings(names)
	for _, dn := range names {
		dn := dn
		register(scenario{name: "split-orders:SplitPlaneGraph/" + dn, procs: 1, prop: "C18", about: "SplitPlaneGraph with every priority order over the triangles of a small disc",
			want: func() string { return "ok" },
			body: func() string {
				vmap.Permute = false
				ts := splitDiscs()[dn]
				in := model3d.NewMesh()
				for _, t := range ts {
					in.Add(&model3d.Triangle{t[0], t[1], t[2]})
				}
				// explorer-owned permutation: rank[i] = priority of triangle i
				left := make([]int, len(ts))
				for i := range left {
					left[i] = i
				}
				rank := map[triV]float64{}
				for pos := 0; len(left) > 0; pos++ {
					k := vsched.Choose(len(left), "priority")
					rank[canonTri(ts[left[k]])] = float64(len(ts) - pos)
					left = append(left[:k], left[k+1:]...)
				}
				parts := model3d.SplitPlaneGraph(in, func(t *model3d.Triangle) float64 { return rank[canonTri(triV{t[0], t[1], t[2]})] })
				if len(parts) < 2 {
					return fmt.Sprintf("VIOLATION split: SplitPlaneGraph of a %d-triangle disc returned %d part(s)", len(ts), len(parts))
				}
				if p := partitionProblem(in, parts); p != "" {
					return "VIOLATION split: " + p
				}
				for i, q := range parts {
					if p := discProblem(meshTris(q)); p != "" {
						return fmt.Sprintf("VIOLATION split: part %d of %d (%d triangles) is not a topological disc: %s", i, len(parts), q.NumTriangles(), p)
					}
				}
				return "ok"
			}})
	}
}
