package main

import (
	"fmt"
	"math"
	"sort"
	"strings"

	"github.com/unixpickle/model3d/model2d"
	"github.com/unixpickle/model3d/model3d"
	"github.com/unixpickle/model3d/numerical"
	"github.com/unixpickle/model3d/render3d"
	"github.com/unixpickle/model3d/toolbox3d"

	"vshim/vsched"
	"vshim/vsync"
)

// ---- lazy vertex index of a shared mesh ----

var tetraFaces = func() []*model3d.Triangle {
	a, b, c, d := model3d.XYZ(0, 0, 0), model3d.XYZ(1, 0.1, 0), model3d.XYZ(0.2, 1.1, 0.05), model3d.XYZ(0.3, 0.2, 0.9)
	return []*model3d.Triangle{{a, c, b}, {a, b, d}, {a, d, c}, {b, c, d}}
}()

func ptrs3(ts []*model3d.Triangle) string {
	s := make([]string, len(ts))
	for i, t := range ts {
		for j, f := range tetraFaces {
			if f == t {
				s[i] = fmt.Sprint("f", j)
			}
		}
		if s[i] == "" {
			s[i] = "?"
		}
	}
	sort.Strings(s)
	return strings.Join(s, ",")
}

func coords3(cs []model3d.Coord3D) string {
	s := make([]string, len(cs))
	for i, c := range cs {
		s[i] = fmt.Sprint(c)
	}
	sort.Strings(s)
	return strings.Join(s, ";")
}

var meshQueries3 = []func(m *model3d.Mesh) string{
	func(m *model3d.Mesh) string { return "Find:" + ptrs3(m.Find(tetraFaces[0][0])) },
	func(m *model3d.Mesh) string { return "Neighbors:" + ptrs3(m.Neighbors(tetraFaces[0])) },
	func(m *model3d.Mesh) string { return "VertexSlice:" + coords3(m.VertexSlice()) },
	func(m *model3d.Mesh) string {
		var cs []model3d.Coord3D
		m.IterateVertices(func(c model3d.Coord3D) { cs = append(cs, c) })
		return "IterateVertices:" + coords3(cs)
	},
	func(m *model3d.Mesh) string { return "Find2:" + ptrs3(m.Find(tetraFaces[0][0], tetraFaces[0][1])) },
}

func meshLazy3(name string, plan [][]int) {
	run := func(concurrent bool) string {
		m := model3d.NewMesh()
		for _, f := range tetraFaces {
			m.Add(f)
		}
		answers := make([][]string, len(plan))
		idx := make([]string, len(plan))
		var wg vsync.WaitGroup
		for i := range plan {
			i := i
			work := func() {
				for _, q := range plan[i] {
					answers[i] = append(answers[i], meshQueries3[q](m))
				}
				_, _, p := model3d.VerifMeshIndexState(m)
				idx[i] = fmt.Sprintf("%p", p)
			}
			if concurrent {
				wg.Add(1)
				vsched.Go(func() { defer wg.Done(); work() })
			} else {
				work()
			}
		}
		wg.Wait()
		out := []string{}
		for i := range plan {
			out = append(out, strings.Join(answers[i], " | "))
		}
		same := "one-index"
		for i := range idx {
			if idx[i] != idx[0] || idx[i] == "0x0" {
				same = "DIFFERENT-INDEX-OBJECTS"
			}
		}
		return strings.Join(out, " || ") + " ## " + same
	}
	register(scenario{name: name, procs: 2, prop: "C13", about: "concurrent first queries on a shared mesh whose vertex index is built lazily",
		body: func() string { return run(true) },
		want: func() string { return run(false) }})
}

// ---- 2D mesh ----

var sqSegs = func() []*model2d.Segment {
	a, b, c, d := model2d.XY(0, 0), model2d.XY(0, 1), model2d.XY(1, 1.1), model2d.XY(1.2, 0)
	return []*model2d.Segment{{a, b}, {b, c}, {c, d}, {d, a}}
}()

func ptrs2(ts []*model2d.Segment) string {
	s := make([]string, len(ts))
	for i, t := range ts {
		for j, f := range sqSegs {
			if f == t {
				s[i] = fmt.Sprint("s", j)
			}
		}
	}
	sort.Strings(s)
	return strings.Join(s, ",")
}

func meshLazy2(name string, plan [][]int) {
	qs := []func(m *model2d.Mesh) string{
		func(m *model2d.Mesh) string { return "Find:" + ptrs2(m.Find(sqSegs[0][0])) },
		func(m *model2d.Mesh) string { return "Neighbors:" + ptrs2(m.Neighbors(sqSegs[0])) },
		func(m *model2d.Mesh) string {
			vs := m.VertexSlice()
			s := make([]string, len(vs))
			for i, v := range vs {
				s[i] = fmt.Sprint(v)
			}
			sort.Strings(s)
			return "VertexSlice:" + strings.Join(s, ";")
		},
	}
	run := func(concurrent bool) string {
		m := model2d.NewMesh()
		for _, f := range sqSegs {
			m.Add(f)
		}
		answers := make([][]string, len(plan))
		idx := make([]string, len(plan))
		var wg vsync.WaitGroup
		for i := range plan {
			i := i
			work := func() {
				for _, q := range plan[i] {
					answers[i] = append(answers[i], qs[q](m))
				}
				_, _, p := model2d.VerifMeshIndexState(m)
				idx[i] = fmt.Sprintf("%p", p)
			}
			if concurrent {
				wg.Add(1)
				vsched.Go(func() { defer wg.Done(); work() })
			} else {
				work()
			}
		}
		wg.Wait()
		out := []string{}
		for i := range plan {
			out = append(out, strings.Join(answers[i], " | "))
		}
		same := "one-index"
		for i := range idx {
			if idx[i] != idx[0] || idx[i] == "0x0" {
				same = "DIFFERENT-INDEX-OBJECTS"
			}
		}
		return strings.Join(out, " || ") + " ## " + same
	}
	register(scenario{name: name, procs: 2, prop: "C13", about: "2D mesh lazy index",
		body: func() string { return run(true) }, want: func() string { return run(false) }})
}

// ---- internally parallel routines ----

func kmeansScenario(procs int) {
	data := []numerical.Vec3{{0, 0, 0}, {1, 0, 0}, {0, 2, 0}, {8, 8, 8}, {9, 8, 8}, {8, 10, 8}, {4, 4, 4}}
	run := func() string {
		km := &numerical.KMeans[numerical.Vec3]{Centers: []numerical.Vec3{{0, 0, 0}, {8, 8, 8}}, Data: data}
		loss := km.Iterate()
		c1 := fmt.Sprint(km.Centers)
		loss2 := km.Iterate() // non-integer centres: sums may differ in the last bits with the addition order
		return fmt.Sprintf("centers=%s loss=%v,%.9g assign=%v", c1, loss, loss2, km.Assign(data))
	}
	register(scenario{name: fmt.Sprintf("kmeans/procs%d", procs), procs: procs, prop: "C13", about: "KMeans.Iterate mutex-guarded reduction (integer data: sums exact in any order)",
		body: run, want: func() string {
			old := vsched.NumProcs
			vsched.NumProcs = 1
			defer func() { vsched.NumProcs = old }()
			return run()
		}})
}

// rasterScenario: Rasterizer.RasterizeSolid / RasterizeSolidFilter hand the pixels to essentials.ConcurrentMap
// workers that write into one shared image; the image must equal the single-worker image under every schedule.
func rasterScenario(procs int, filtered bool) {
	run := func() string {
		solid := model2d.JoinedSolid{&model2d.Circle{Center: model2d.XY(0.1, 0.2), Radius: 0.7}, &model2d.Rect{MinVal: model2d.XY(-1, -0.3), MaxVal: model2d.XY(0, 0.1)}}
		rs := &model2d.Rasterizer{Scale: 2.6, Subsamples: 2}
		if filtered {
			img := rs.RasterizeSolidFilter(solid, func(rc *model2d.Rect) bool { return rc.MinVal.X < 0.2 })
			return fmt.Sprint(img.Rect, img.Pix)
		}
		img := rs.RasterizeSolid(solid)
		return fmt.Sprint(img.Rect, img.Pix)
	}
	name := fmt.Sprintf("raster/solid/procs%d", procs)
	if filtered {
		name = fmt.Sprintf("raster/solid-filter/procs%d", procs)
	}
	register(scenario{name: name, procs: procs, prop: "C13", about: "rasteriser pixel workers writing one shared image",
		body: run, want: func() string {
			old := vsched.NumProcs
			vsched.NumProcs = 1
			defer func() { vsched.NumProcs = old }()
			return run()
		}})
}

// kmeansCoincident: every point handled by worker 0 (indices 0, procs, 2 procs, ...) coincides exactly with a
// centre, so that worker's partial error is zero while its points still weigh in the new centres; the other
// workers hold ordinary points of the same cluster.
func kmeansCoincident(procs int) {
	var data []numerical.Vec3
	others := []numerical.Vec3{{1, 0, 0}, {0, 2, 0}, {2, 2, 0}, {9, 8, 8}, {8, 10, 8}, {1, 1, 4}, {10, 10, 8}, {0, 0, 2}}
	for i, k := 0, 0; i < 3*procs; i++ {
		if i%procs == 0 {
			data = append(data, numerical.Vec3{0, 0, 0})
		} else {
			data = append(data, others[k%len(others)])
			k++
		}
	}
	run := func() string {
		km := &numerical.KMeans[numerical.Vec3]{Centers: []numerical.Vec3{{0, 0, 0}, {8, 8, 8}}, Data: data}
		loss := km.Iterate()
		return fmt.Sprintf("centers=%v loss=%v assign=%v", km.Centers, loss, km.Assign(data))
	}
	register(scenario{name: fmt.Sprintf("kmeans-coincident/procs%d", procs), procs: procs, prop: "C13", about: "KMeans.Iterate where one worker only holds points that coincide with a centre",
		body: run, want: func() string {
			old := vsched.NumProcs
			vsched.NumProcs = 1
			defer func() { vsched.NumProcs = old }()
			return run()
		}})
}

func cacheFuncScenario() {
	run := func() string {
		f := model2d.CacheScalarFunc(func(x float64) float64 { return x*x + 1 })
		res := make([]string, 3)
		var wg vsync.WaitGroup
		for i := 0; i < 3; i++ {
			i := i
			wg.Add(1)
			vsched.Go(func() {
				defer wg.Done()
				res[i] = fmt.Sprint(f(float64(i%2)), f(2))
			})
		}
		wg.Wait()
		return strings.Join(res, ";")
	}
	register(scenario{name: "cache-scalar-func", procs: 2, prop: "C13", about: "CacheScalarFunc sync.Map memoisation from 3 threads", body: run,
		want: func() string { return "1 5;2 5;1 5" }})
}

func heightMapScenario(procs, spheres int) {
	run := func() string {
		hm := toolbox3d.NewHeightMap(model2d.XY(0, 0), model2d.XY(3, 1), 7)
		shape := &model2d.Rect{MinVal: model2d.XY(0, 0), MaxVal: model2d.XY(3, 1)}
		hm.AddSpheresSDF(shape, spheres, 0.01, 0)
		return fmt.Sprint(hm.Data)
	}
	register(scenario{name: fmt.Sprintf("heightmap-spheres/procs%d/n%d", procs, spheres), procs: procs, prop: "C13",
		randomized: true,
		about:      "HeightMap.AddSpheresSDF worker goroutines updating the shared grid (statement-level points inside updateAt); per-thread deterministic RNG makes the sphere set schedule-independent, so the final grid must be too",
		body:       run})
}

// heightMapCircleScenario: the same routine with an absolute expected value. Every random start inside a disc
// projects to the disc's only medial-axis point, its centre, so whatever the random numbers and however the
// iterations are divided among the workers, the filled map is that of the one sphere (centre, R). The grid is a
// window strictly inside the disc, so every cell - the last ones of the last row included - has a positive
// expected height R^2 - |x - centre|^2, and worker counts that do and do not divide the number of cells are used.
func heightMapCircleScenario(procs, spheres, maxSize int, maxRadius float64) {
	run := func() string {
		hm := toolbox3d.NewHeightMap(model2d.XY(0, 0), model2d.XY(1, 0.75), maxSize)
		shape := &model2d.Circle{Center: model2d.XY(0.25, 0.125), Radius: 2}
		hm.AddSpheresSDF(shape, spheres, 1e-4, maxRadius)
		for row := 0; row < hm.Rows; row++ {
			for col := 0; col < hm.Cols; col++ {
				c := hm.Min.Add(model2d.XY(float64(col)*hm.Delta, float64(row)*hm.Delta))
				want := 4 - c.SquaredDist(shape.Center)
				if maxRadius != 0 {
					want = maxRadius * maxRadius // filled: inside the disc shrunk by maxRadius the height is capped
				}
				got := hm.Data[row*hm.Cols+col]
				if !(math.Abs(got-want) <= 0.02*want) {
					return fmt.Sprintf("VIOLATION cell: %dx%d grid, cell (row %d, col %d): squared height %g, the one sphere of the disc gives %g", hm.Rows, hm.Cols, row, col, got, want)
				}
			}
		}
		return "ok"
	}
	register(scenario{name: fmt.Sprintf("heightmap-disc/procs%d/n%d/size%d/fill%g", procs, spheres, maxSize, maxRadius), procs: procs, prop: "C13",
		randomized: true,
		about:      "HeightMap.AddSpheresSDF over a window inside a disc: the result is the closed-form single sphere for every worker count",
		body:       run, want: func() string { return "ok" }})
}

// ---- read-only sharing of objects without synchronisation operations (race pass only) ----

func raceReaders() {
	mesh := model3d.NewMeshIcosphere(model3d.XYZ(0.1, 0.2, 0.3), 1, 2)
	coll := model3d.MeshToCollider(mesh)
	sdf := model3d.MeshToSDF(mesh)
	solid := model3d.NewColliderSolid(coll)
	joined := model3d.JoinedSolid{solid, &model3d.Sphere{Center: model3d.XYZ(1, 0, 0), Radius: 0.5}}.Optimize()
	tree := model3d.NewCoordTree(mesh.VertexSlice())
	v0 := mesh.VertexSlice()[0]
	m2 := model2d.NewMeshPolar(func(t float64) float64 { return 1 + 0.2*t }, 20)
	coll2 := model2d.MeshToCollider(m2)
	sdf2 := model2d.MeshToSDF(m2)
	one := func(i int) string {
		var sb strings.Builder
		for k := 0; k < 6; k++ {
			o := model3d.XYZ(float64(i%3)-1, float64(k)-2.5, 0.1*float64(i))
			r := &model3d.Ray{Origin: o, Direction: model3d.XYZ(0.3, 1, 0.2)}
			n := coll.RayCollisions(r, nil)
			_, ok := coll.FirstRayCollision(r)
			fmt.Fprint(&sb, n, ok, coll.SphereCollision(o, 0.4), fmt.Sprintf("%.6f", sdf.SDF(o)), solid.Contains(o), joined.Contains(o),
				tree.NearestNeighbor(o), len(mesh.Find(v0)), ";")
			o2 := model2d.XY(float64(i%3)-1, float64(k)*0.4-1)
			fmt.Fprint(&sb, coll2.CircleCollision(o2, 0.2), fmt.Sprintf("%.6f", sdf2.SDF(o2)), ";")
		}
		return sb.String()
	}
	register(scenario{name: "race-readers/colliders-sdfs-solids", procs: 4, prop: "C13", about: "8 goroutines query shared colliders, SDFs, solids, a coordinate tree and a mesh read-only",
		want: func() string {
			var out []string
			for i := 0; i < 8; i++ {
				out = append(out, one(i))
			}
			return strings.Join(out, "|")
		},
		body: func() string {
			out := make([]string, 8)
			var wg vsync.WaitGroup
			for i := 0; i < 8; i++ {
				i := i
				wg.Add(1)
				vsched.Go(func() { defer wg.Done(); out[i] = one(i) })
			}
			wg.Wait()
			return strings.Join(out, "|")
		}})
}

func raceRender() {
	register(scenario{name: "race-render/recursive-and-bidir", procs: 4, prop: "C13", randomized: true, about: "two goroutines render with one shared RecursiveRayTracer / BidirPathTracer and scene",
		body: func() string {
			light := render3d.NewSphereAreaLight(&model3d.Sphere{Center: model3d.XYZ(0, 0, 3), Radius: 0.5}, render3d.NewColor(20))
			scene := render3d.JoinedObject{
				light,
				&render3d.ColliderObject{Collider: &model3d.Sphere{Radius: 1}, Material: &render3d.LambertMaterial{DiffuseColor: render3d.NewColor(0.7)}},
			}
			cam := render3d.NewCameraAt(model3d.XYZ(0, -4, 1), model3d.XYZ(0, 0, 0), 0)
			rr := &render3d.RecursiveRayTracer{Camera: cam, MaxDepth: 2, NumSamples: 4, FocusPoints: []render3d.FocusPoint{&render3d.SphereFocusPoint{Center: light.Object.(*render3d.ColliderObject).Collider.(*model3d.Sphere).Center, Radius: 0.5}}, FocusPointProbs: []float64{0.3}}
			bd := &render3d.BidirPathTracer{Camera: cam, Light: light, MaxDepth: 3, MinDepth: 2, NumSamples: 2, RouletteDelta: 0.2}
			var wg vsync.WaitGroup
			for i := 0; i < 2; i++ {
				wg.Add(2)
				vsched.Go(func() { defer wg.Done(); rr.Render(render3d.NewImage(6, 5), scene) })
				vsched.Go(func() { defer wg.Done(); bd.Render(render3d.NewImage(5, 4), scene) })
			}
			wg.Wait()
			return "rendered"
		}})
}

// renderProgress: the optional progress callback of a renderer belongs to the caller - it is documented as being
// called periodically, not as having to be thread-safe. One Render call with a callback that keeps plain (unlocked)
// state: the fractions must arrive in order, one per pixel here, whatever the workers do; the race pass runs the same
// body free with the race detector on the callback's state.
func renderProgress(procs int) {
	register(scenario{name: fmt.Sprintf("render-progress/procs%d", procs), procs: procs, prop: "C13", about: "LogFunc of a renderer is called from the calling goroutine only, in order",
		want: func() string { return "[1 2 3 4 5 6]" },
		body: func() string {
			scene := &render3d.ColliderObject{Collider: &model3d.Sphere{Radius: 1}, Material: &render3d.LambertMaterial{EmissionColor: render3d.NewColor(1)}}
			var seen []int
			calls := 0
			rr := &render3d.RecursiveRayTracer{Camera: render3d.NewCameraAt(model3d.XYZ(0, -4, 1), model3d.XYZ(0, 0, 0), 0), MaxDepth: 1, NumSamples: 1,
				LogFunc: func(frac, rate float64) {
					calls++
					seen = append(seen, int(math.Round(frac*6)))
				}}
			rr.Render(render3d.NewImage(3, 2), scene)
			if calls != len(seen) {
				return fmt.Sprintf("calls=%d seen=%v", calls, seen)
			}
			return fmt.Sprint(seen)
		}})
}

func init() {
	raceReaders()
	raceRender()
	renderProgress(2)
	meshLazy3("mesh3-lazy/2readers/find-find", [][]int{{0, 4}, {0}})
	meshLazy3("mesh3-lazy/2readers/find-neighbors", [][]int{{0}, {1, 4}})
	meshLazy3("mesh3-lazy/2readers/vertexslice-iterverts", [][]int{{2}, {3}})
	meshLazy3("mesh3-lazy/2readers/neighbors-vertexslice", [][]int{{1, 0}, {2, 1}})
	meshLazy3("mesh3-lazy/3readers/find-neighbors-vertexslice", [][]int{{0}, {1}, {2}})
	meshLazy3("mesh3-lazy/3readers/find-find-find", [][]int{{0}, {0}, {4}})
	meshLazy2("mesh2-lazy/2readers/find-neighbors", [][]int{{0, 1}, {1}})
	meshLazy2("mesh2-lazy/3readers", [][]int{{0}, {1}, {2}})
	kmeansScenario(2)
	kmeansScenario(3)
	kmeansCoincident(2)
	kmeansCoincident(3)
	cacheFuncScenario()
	heightMapScenario(2, 3)
	heightMapScenario(2, 4)
	heightMapScenario(3, 4)
	heightMapCircleScenario(1, 2, 3, 0)
	heightMapCircleScenario(2, 2, 3, 0)   // 3x3 cells, 2 workers
	heightMapCircleScenario(2, 3, 4, 0)   // 3x4 cells
	heightMapCircleScenario(3, 3, 4, 0.5) // filled variant
	heightMapCircleScenario(4, 4, 3, 0)   // 9 cells, 4 workers
	heightMapCircleScenario(5, 5, 4, 0)   // 12 cells, 5 workers
	heightMapCircleScenario(7, 7, 3, 0)   // fewer cells per worker than 2
	rasterScenario(2, false)
	rasterScenario(3, false)
	rasterScenario(2, true)
}
