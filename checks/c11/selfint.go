package main

// SelfIntersections ("counts the number of times the mesh intersects itself; in an ideal mesh, 0") against a
// brute-force count over all pairs of faces with an orientation-predicate test written here. The scenes are two
// closed surfaces (boxes, tetrahedra, a torus) at offsets in general position: apart, nested (no surface contact),
// and crossing. In general position two faces either miss each other or cross along one segment, and the collider
// reports that segment once from either face, so the library's count must be exactly twice the number of crossing
// pairs - and 0 on every catalogue surface by itself.

import (
	"fmt"

	"github.com/unixpickle/model3d/model3d"

	"verif/lib/cat"
	"verif/lib/ev"
)

func orient3(a, b, c, d c3) float64 { return b.Sub(a).Cross(c.Sub(a)).Dot(d.Sub(a)) }

// segment p-q crosses the interior of triangle t (general position: no zero predicate is accepted as a crossing)
func segCrossesTri(p, q c3, t tri) bool {
	dp, dq := orient3(t[0], t[1], t[2], p), orient3(t[0], t[1], t[2], q)
	if !(dp*dq < 0) {
		return false
	}
	s0, s1, s2 := orient3(p, q, t[0], t[1]), orient3(p, q, t[1], t[2]), orient3(p, q, t[2], t[0])
	return (s0 > 0 && s1 > 0 && s2 > 0) || (s0 < 0 && s1 < 0 && s2 < 0)
}

func trisCross(a, b tri) bool {
	for k := 0; k < 3; k++ {
		if segCrossesTri(a[k], a[(k+1)%3], b) || segCrossesTri(b[k], b[(k+1)%3], a) {
			return true
		}
	}
	return false
}

// degenerate reports a predicate too close to zero to call (shared corners of faces of one surface are fine: those
// pairs are never asked)
func nearDegenerate(a, b tri, scale float64) bool {
	tol := 1e-9 * scale * scale * scale
	for k := 0; k < 3; k++ {
		if d := orient3(b[0], b[1], b[2], a[k]); d > -tol && d < tol {
			return true
		}
		if d := orient3(a[0], a[1], a[2], b[k]); d > -tol && d < tol {
			return true
		}
	}
	return false
}

func selfIntersectionStage(r *ev.Run) {
	// catalogue surfaces by themselves
	for _, nm := range cat.Closed3(false) {
		r.Eval(1)
		var got int
		if p := ev.Try(func() { got = mesh(nm.Tris).SelfIntersections() }); p != "" {
			r.Violation("self-intersections/panic", nm.Name+": "+p, mcase{Kind: "self-intersections", Mesh: nm.Name})
			continue
		}
		if got != 0 {
			r.Violation("self-intersections/clean-surface", fmt.Sprintf("%s: SelfIntersections = %d on a surface that does not meet itself", nm.Name, got), mcase{Kind: "self-intersections", Mesh: nm.Name})
		}
	}
	type part struct {
		name string
		ts   []tri
	}
	firsts := []part{
		{"box(0..2)", cat.Box(model3d.XYZ(0, 0, 0), model3d.XYZ(2, 2, 2))},
		{"gridbox2", cat.Translate(cat.GridBox(2), model3d.XYZ(0, 0, 0), 1)},
		{"torus(8x5)", cat.Torus(8, 5, 2, 0.6)},
	}
	small := cat.Box(model3d.XYZ(0, 0, 0), model3d.XYZ(0.5, 0.7, 0.6))
	tet := cat.Tetra(model3d.XYZ(0, 0, 0), model3d.XYZ(1.3, 0.1, 0.2), model3d.XYZ(0.2, 1.1, 0.1), model3d.XYZ(0.3, 0.2, 1.2))
	offsets := []c3{
		{X: 10.013, Y: 0.27, Z: -0.31},   // apart
		{X: 0.613, Y: 0.571, Z: 0.437},   // inside the boxes (nested, no contact) / crossing the torus tube
		{X: 1.713, Y: 0.871, Z: 0.337},   // through a face
		{X: 1.813, Y: 1.771, Z: 0.637},   // through an edge region
		{X: 1.763, Y: 1.671, Z: 1.737},   // through a corner region
		{X: -0.237, Y: 0.871, Z: 0.537},  // through the opposite face
		{X: 1.9173, Y: -0.113, Z: 0.019}, // on the torus ring
	}
	for _, f := range firsts {
		for si, second := range [][]tri{small, tet} {
			for _, off := range offsets {
				for _, flipSecond := range []bool{false, true} {
					sec := cat.Translate(second, off, 1)
					if flipSecond {
						sec = cat.Flip(sec)
					}
					name := fmt.Sprintf("%s + part%d at %v flipped=%v", f.name, si, off, flipSecond)
					all := append(append([]tri{}, f.ts...), sec...)
					c := mcase{Kind: "self-intersections", Mesh: name, Tris: flat(all)}
					r.Eval(1)
					pairs, unclear := 0, false
					for _, a := range f.ts {
						for _, b := range sec {
							if nearDegenerate(a, b, 3) {
								unclear = true
							}
							if trisCross(a, b) {
								pairs++
							}
						}
					}
					if unclear {
						r.Skipped(1)
						continue
					}
					var got int
					if p := ev.Try(func() { got = mesh(all).SelfIntersections() }); p != "" {
						r.Violation("self-intersections/panic", name+": "+p, c)
						continue
					}
					if got != 2*pairs {
						r.Violation("self-intersections/count", fmt.Sprintf("%s: SelfIntersections = %d, %d pairs of faces cross (each seen from both faces: %d)", name, got, pairs, 2*pairs), c)
					}
					if pairs > 0 {
						r.NontrivialAdd(1)
					}
				}
			}
		}
	}
}
