// C11: mesh diagnostics, repair and nesting agree with their definitions.
//
// (A) every "absent / present / flipped" pattern of the faces of an
//
//	octahedron, a prism, a 5-triangle Moebius band (3^n patterns) and every
//	subset and every orientation pattern of a split cube (2^12 each), plus
//	tetrahedra glued at a vertex, along an edge and across a face:
//	NeedsRepair, SingularVertices, InconsistentEdges, Orientable against
//	definitions computed here by brute force; RepairNormalsMajority and
//	RepairNormals against the known consistent orientation.
//
// (B) Repair(eps): every assignment of jitter offsets (< eps/4) to the
//
//	per-face copies of the vertices of a tetrahedron / octahedron must merge
//	back to a clean mesh with the original counts.
//
// (C) nesting: every rooted forest on <= 4 boxes, children laid out along
//
//	every axis direction and in every corner of their parent:
//	MeshToHierarchy loses/duplicates no face, reproduces the containment
//	forest and classifies lattice points by the even-odd rule. 2D likewise
//	with squares, plus the 2D diagnostics on all patterns of an octagon.
//
// (D) Repair on chains of near-duplicates (copies 0.9 eps apart, chain ends
//
//	farther than eps apart) inside the instrumented build, where the order in
//	which Repair visits the vertices is an explorer-owned decision
//	(checks/sched/c11.go): merging must be transitive for every visiting order
//	with at most B departures from the canonical one.
package main

import (
	"encoding/json"
	"fmt"
	"math"
	"os/exec"
	"path/filepath"
	"sort"
	"strings"

	"github.com/unixpickle/model3d/model2d"
	"github.com/unixpickle/model3d/model3d"

	"verif/lib/cat"
	"verif/lib/ev"
	"verif/lib/scen"
	"verif/lib/schedrun"
	"verif/lib/topo"
)

func chainFamily(sc string) string {
	if i := strings.Index(sc, ":"); i >= 0 {
		return sc[:i]
	}
	return sc
}

type c3 = model3d.Coord3D
type tri = [3]c3

type mcase struct {
	Kind    string      `json:"kind"`
	Mesh    string      `json:"mesh"`
	Pattern []int       `json:"pattern,omitempty"` // per face: 0 absent, 1 present, 2 flipped
	Tris    [][]float64 `json:"triangles,omitempty"`
	Boxes   [][]float64 `json:"boxes,omitempty"`
	Storage int         `json:"storage_variant,omitempty"` // 0 as listed; 1, 2: corners of every face rotated, faces inserted in reverse (2)
}

func flat(ts []tri) [][]float64 {
	var out [][]float64
	for _, t := range ts {
		out = append(out, []float64{t[0].X, t[0].Y, t[0].Z, t[1].X, t[1].Y, t[1].Z, t[2].X, t[2].Y, t[2].Z})
	}
	return out
}

func unflat(f [][]float64) []tri {
	var out []tri
	for _, t := range f {
		out = append(out, tri{model3d.XYZ(t[0], t[1], t[2]), model3d.XYZ(t[3], t[4], t[5]), model3d.XYZ(t[6], t[7], t[8])})
	}
	return out
}

func mesh(ts []tri) *model3d.Mesh {
	m := model3d.NewMesh()
	for _, t := range ts {
		m.Add(&model3d.Triangle{t[0], t[1], t[2]})
	}
	return m
}

// ---------------------------------------------------------------- definitions (brute force)

type uedge [2]c3

func less(a, b c3) bool {
	if a.X != b.X {
		return a.X < b.X
	}
	if a.Y != b.Y {
		return a.Y < b.Y
	}
	return a.Z < b.Z
}

func ue(a, b c3) uedge {
	if less(b, a) {
		a, b = b, a
	}
	return uedge{a, b}
}

func defNeedsRepair(ts []tri) bool {
	cnt := map[uedge]int{}
	for _, t := range ts {
		for k := 0; k < 3; k++ {
			cnt[ue(t[k], t[(k+1)%3])]++
		}
	}
	for _, n := range cnt {
		if n != 2 {
			return true
		}
	}
	return false
}

func maxEdgeUse(ts []tri) int {
	cnt := map[uedge]int{}
	mx := 0
	for _, t := range ts {
		for k := 0; k < 3; k++ {
			e := ue(t[k], t[(k+1)%3])
			cnt[e]++
			if cnt[e] > mx {
				mx = cnt[e]
			}
		}
	}
	return mx
}

func shareEdge(a, b tri) bool {
	n := 0
	for _, p := range a {
		for _, q := range b {
			if p == q {
				n++
				break
			}
		}
	}
	return n >= 2
}

func defSingular(ts []tri) []c3 {
	fans := map[c3][]int{}
	for i, t := range ts {
		seen := map[c3]bool{}
		for _, p := range t {
			if !seen[p] {
				seen[p] = true
				fans[p] = append(fans[p], i)
			}
		}
	}
	var out []c3
	for v, fan := range fans {
		vis := map[int]bool{fan[0]: true}
		stack := []int{fan[0]}
		for len(stack) > 0 {
			x := stack[len(stack)-1]
			stack = stack[:len(stack)-1]
			for _, y := range fan {
				if !vis[y] && shareEdge(ts[x], ts[y]) {
					vis[y] = true
					stack = append(stack, y)
				}
			}
		}
		if len(vis) != len(fan) {
			out = append(out, v)
		}
	}
	sortC(out)
	return out
}

func sortC(cs []c3) { sort.Slice(cs, func(i, j int) bool { return less(cs[i], cs[j]) }) }

func defInconsistent(ts []tri) [][2]c3 {
	cnt := map[[2]c3]int{}
	for _, t := range ts {
		for k := 0; k < 3; k++ {
			cnt[[2]c3{t[k], t[(k+1)%3]}]++
		}
	}
	var out [][2]c3
	for e, n := range cnt {
		if n > 1 {
			out = append(out, e)
		}
	}
	sortE(out)
	return out
}

func sortE(es [][2]c3) {
	sort.Slice(es, func(i, j int) bool {
		if es[i][0] != es[j][0] {
			return less(es[i][0], es[j][0])
		}
		return less(es[i][1], es[j][1])
	})
}

// defOrientable: some choice of flips leaves no directed edge used twice
// (brute force over all 2^n flip patterns; only called for n <= 12).
func defOrientable(ts []tri) bool {
	n := len(ts)
	for mask := 0; mask < 1<<uint(n); mask++ {
		if mask&1 != 0 { // the first face can be kept fixed
			continue
		}
		seen := map[[2]c3]bool{}
		ok := true
		for i, t := range ts {
			if mask&(1<<uint(i)) != 0 {
				t = tri{t[1], t[0], t[2]}
			}
			for k := 0; k < 3 && ok; k++ {
				e := [2]c3{t[k], t[(k+1)%3]}
				if seen[e] {
					ok = false
				}
				seen[e] = true
			}
			if !ok {
				break
			}
		}
		if ok {
			return true
		}
	}
	return n == 0
}

// ---------------------------------------------------------------- (A) diagnostics

func applyPattern(base []tri, pat []int) []tri {
	var out []tri
	for i, t := range base {
		switch pat[i] {
		case 1:
			out = append(out, t)
		case 2:
			out = append(out, tri{t[1], t[0], t[2]})
		}
	}
	return out
}

// restore: the same faces stored differently - the corners of face i rotated by (i*variant + variant) mod 3 and, for
// variant 2, the faces inserted in reverse order. The surface, its orientation and therefore every diagnostic are
// unchanged; code that reads "the first corner" or stops at the first match is not.
func restore(ts []tri, variant int) []tri {
	if variant == 0 {
		return ts
	}
	out := make([]tri, len(ts))
	for i, t := range ts {
		k := (i*variant + variant) % 3
		out[i] = tri{t[k], t[(k+1)%3], t[(k+2)%3]}
	}
	if variant == 2 {
		for i, j := 0, len(out)-1; i < j; i, j = i+1, j-1 {
			out[i], out[j] = out[j], out[i]
		}
	}
	return out
}

func checkDiagnostics(r *ev.Run, name string, base []tri, pat []int, closedBase bool, variant int) {
	ts := restore(applyPattern(base, pat), variant)
	c := mcase{Kind: "diagnostics", Mesh: name, Pattern: pat, Tris: flat(ts), Storage: variant}
	m := mesh(ts)
	r.Eval(1)
	viol := func(kind, msg string) {
		r.Violation(kind, fmt.Sprintf("%s pattern %v: %s", name, pat, msg), c)
	}
	var nr bool
	var sv []c3
	var ie [][2]c3
	if p := ev.Try(func() { nr = m.NeedsRepair(); sv = m.SingularVertices(); ie = m.InconsistentEdges() }); p != "" {
		viol("diagnostics/panic", "panic: "+p)
		return
	}
	if want := defNeedsRepair(ts); nr != want {
		viol("NeedsRepair", fmt.Sprintf("NeedsRepair()=%v, but 'some edge is not shared by exactly two triangles' is %v", nr, want))
	}
	sortC(sv)
	if want := defSingular(ts); fmt.Sprint(sv) != fmt.Sprint(want) {
		viol("SingularVertices", fmt.Sprintf("SingularVertices()=%v, vertices with a disconnected triangle fan: %v", sv, want))
	}
	sortE(ie)
	if want := defInconsistent(ts); fmt.Sprint(ie) != fmt.Sprint(want) {
		viol("InconsistentEdges", fmt.Sprintf("InconsistentEdges()=%v, edges traversed twice in the same direction: %v", ie, want))
	}
	if len(ts) > 0 && len(ts) <= 12 && maxEdgeUse(ts) <= 2 {
		var or bool
		if p := ev.Try(func() { or = m.Orientable() }); p != "" {
			viol("Orientable/panic", "panic: "+p)
		} else if want := defOrientable(ts); or != want {
			viol("Orientable", fmt.Sprintf("Orientable()=%v, brute force over all flip patterns says %v", or, want))
		}
	}
	// normal repair on complete closed meshes with flipped faces
	full := closedBase
	nflip := 0
	for _, p := range pat {
		if p == 0 {
			full = false
		}
		if p == 2 {
			nflip++
		}
	}
	if full {
		r.NontrivialKey(fmt.Sprint("repair", name, pat, variant))
		var rm *model3d.Mesh
		var cnt int
		if p := ev.Try(func() { rm, cnt = m.RepairNormalsMajority() }); p != "" {
			viol("RepairNormalsMajority/panic", "panic: "+p)
		} else {
			if len(rm.InconsistentEdges()) != 0 || len(defInconsistent(trisOf(rm))) != 0 {
				viol("RepairNormalsMajority", "the result still has an edge traversed twice in the same direction")
			}
			want := nflip
			if len(base)-nflip < want {
				want = len(base) - nflip
			}
			if cnt != want || rm.NumTriangles() != len(base) {
				viol("RepairNormalsMajority/count", fmt.Sprintf("flipped %d faces, the minority has %d (mesh has %d faces, result %d)", cnt, want, len(base), rm.NumTriangles()))
			}
		}
		if p := ev.Try(func() { rm, cnt = m.RepairNormals(1e-4) }); p != "" {
			viol("RepairNormals/panic", "panic: "+p)
		} else {
			if cnt != nflip {
				viol("RepairNormals/count", fmt.Sprintf("flipped %d faces, %d were inverted", cnt, nflip))
			}
			if !sameFaces(trisOf(rm), base) {
				viol("RepairNormals", "the result is not the outward-oriented mesh")
			}
		}
	}
	if nr || len(sv) > 0 || len(ie) > 0 {
		r.NontrivialKey(fmt.Sprint("diag", name, pat, variant))
	}
}

func trisOf(m *model3d.Mesh) []tri {
	var out []tri
	m.Iterate(func(t *model3d.Triangle) { out = append(out, tri{t[0], t[1], t[2]}) })
	return out
}

func canon(t tri) tri {
	for less(t[1], t[0]) || less(t[2], t[0]) {
		t = tri{t[1], t[2], t[0]}
	}
	return t
}

func sameFaces(a, b []tri) bool {
	if len(a) != len(b) {
		return false
	}
	cnt := map[tri]int{}
	for _, t := range a {
		cnt[canon(t)]++
	}
	for _, t := range b {
		cnt[canon(t)]--
	}
	for _, v := range cnt {
		if v != 0 {
			return false
		}
	}
	return true
}

func patterns(n, radix int, f func(p []int)) {
	p := make([]int, n)
	for {
		f(append([]int{}, p...))
		i := 0
		for ; i < n; i++ {
			p[i]++
			if p[i] < radix {
				break
			}
			p[i] = 0
		}
		if i == n {
			return
		}
	}
}

func named(n string) []tri {
	for _, m := range cat.Closed3(false) {
		if m.Name == n {
			var out []tri
			for _, t := range m.Tris {
				out = append(out, tri(t))
			}
			return out
		}
	}
	ev.Fatal("no catalogue mesh %s", n)
	return nil
}

func moebius() []tri {
	v := []c3{model3d.XYZ(1, 0, 0), model3d.XYZ(0.3, 1, 0.2), model3d.XYZ(-0.8, 0.6, -0.1), model3d.XYZ(-0.8, -0.6, 0.3), model3d.XYZ(0.3, -1, -0.2)}
	var out []tri
	for i := 0; i < 5; i++ {
		out = append(out, tri{v[i], v[(i+1)%5], v[(i+2)%5]})
	}
	return out
}

func glued() map[string][]tri {
	a, b, c, d := model3d.XYZ(0, 0, 0), model3d.XYZ(1, 0.1, 0), model3d.XYZ(0.2, 1.1, 0.05), model3d.XYZ(0.3, 0.2, 0.9)
	t1 := cat.Tetra(a, b, c, d)
	conv := func(x [][3]c3) []tri {
		var o []tri
		for _, t := range x {
			o = append(o, tri(t))
		}
		return o
	}
	out := map[string][]tri{}
	// at a vertex: second tetrahedron shares only a
	out["tetra+tetra at a vertex"] = append(conv(t1), conv(cat.Tetra(a, model3d.XYZ(-1, -0.2, 0), model3d.XYZ(-0.3, -1.1, 0.1), model3d.XYZ(-0.2, -0.3, -0.9)))...)
	// along an edge a-b
	out["tetra+tetra along an edge"] = append(conv(t1), conv(cat.Tetra(a, b, model3d.XYZ(0.4, -1, -0.2), model3d.XYZ(0.5, -0.3, -1)))...)
	// across the face a,b,c (both copies of the face kept)
	t2 := cat.Tetra(a, b, c, model3d.XYZ(0.4, 0.3, -0.8))
	out["tetra+tetra across a face (face kept twice)"] = append(conv(t1), conv(t2)...)
	// across a face with the common face removed: a clean bipyramid
	var bip []tri
	for _, t := range append(conv(t1), conv(t2)...) {
		has := func(p c3) bool { return t[0] == p || t[1] == p || t[2] == p }
		if !(has(a) && has(b) && has(c)) {
			bip = append(bip, t)
		}
	}
	out["bipyramid (common face removed)"] = bip
	return out
}

// ---------------------------------------------------------------- (B) vertex merging

func checkRepairJitter(r *ev.Run, name string, base []tri, nOff int, stride int) {
	const eps = 0.01
	offs := []c3{{X: eps / 4, Y: -eps / 4, Z: eps / 4}, {X: -eps / 4, Y: eps / 4, Z: -eps / 4}, {}}[:nOff]
	n := len(base) * 3
	ref := mesh(base)
	wantV, wantF := len(ref.VertexSlice()), len(base)
	idx := 0
	patterns(n, nOff, func(p []int) {
		idx++
		if idx%stride != 0 {
			return
		}
		var ts []tri
		moved := false
		for i, t := range base {
			var u tri
			for k := 0; k < 3; k++ {
				u[k] = t[k].Add(offs[p[i*3+k]])
				moved = true
			}
			ts = append(ts, u)
		}
		r.Eval(1)
		c := mcase{Kind: "repair", Mesh: name, Pattern: p, Tris: flat(ts)}
		var out *model3d.Mesh
		if pn := ev.Try(func() { out = mesh(ts).Repair(eps) }); pn != "" {
			r.Violation("Repair/panic", fmt.Sprintf("%s jitter %v: panic: %s", name, p, pn), c)
			return
		}
		ot := trisOf(out)
		if defNeedsRepair(ot) || out.NeedsRepair() || len(defSingular(ot)) != 0 || len(out.VertexSlice()) != wantV || len(ot) != wantF {
			r.Violation("Repair/not-clean", fmt.Sprintf("%s with every face-vertex displaced by < eps/2 (pattern %v): Repair(%g) gives %d vertices / %d faces (want %d / %d), needsRepair=%v", name, p, eps, len(out.VertexSlice()), len(ot), wantV, wantF, defNeedsRepair(ot)), c)
		}
		if moved {
			r.NontrivialAdd(1)
		}
	})
}

// ---------------------------------------------------------------- (C) nesting

type box struct {
	min, max c3
	parent   int
}

// forests enumerates all rooted forests with n nodes as parent arrays in
// canonical (preorder) numbering: parent[i] < i, -1 for roots.
func forests(n int, f func(parent []int)) {
	p := make([]int, n)
	var rec func(i int)
	rec = func(i int) {
		if i == n {
			f(append([]int{}, p...))
			return
		}
		for q := -1; q < i; q++ {
			p[i] = q
			rec(i + 1)
		}
	}
	rec(0)
}

// layout places the boxes of a forest: children of a node (or the roots) are
// laid out inside the parent's inner region along axis `axis` in direction
// `dir`, shifted into corner `corner` of the remaining two axes.
func layout(parent []int, axis int, dir int, corner int) []box {
	n := len(parent)
	boxes := make([]box, n)
	var place func(ids []int, mn, mx c3)
	children := func(q int) []int {
		var o []int
		for i, p := range parent {
			if p == q {
				o = append(o, i)
			}
		}
		return o
	}
	place = func(ids []int, mn, mx c3) {
		k := len(ids)
		if k == 0 {
			return
		}
		a, b := mn.Array(), mx.Array()
		w := (b[axis] - a[axis]) / float64(k)
		for j, id := range ids {
			slot := j
			if dir < 0 {
				slot = k - 1 - j
			}
			var lo, hi [3]float64
			for ax := 0; ax < 3; ax++ {
				if ax == axis {
					lo[ax] = a[ax] + w*float64(slot) + w*0.1
					hi[ax] = a[ax] + w*float64(slot+1) - w*0.1
				} else {
					// half of the extent, pushed to the chosen corner with a margin
					ext := b[ax] - a[ax]
					bit := (corner >> uint(ax)) & 1
					if bit == 0 {
						lo[ax] = a[ax] + ext*0.08
						hi[ax] = a[ax] + ext*0.55
					} else {
						lo[ax] = a[ax] + ext*0.45
						hi[ax] = a[ax] + ext*0.92
					}
				}
			}
			boxes[id] = box{model3d.NewCoord3DArray(lo), model3d.NewCoord3DArray(hi), parent[id]}
			place(children(id), boxes[id].min, boxes[id].max)
		}
	}
	place(children(-1), model3d.XYZ(0, 0, 0), model3d.XYZ(8, 8, 8))
	return boxes
}

// farOffset: the same forests 2^24 units from the origin (an exact translation: the gaps between nested shells, a few
// tenths, are then 1e-8 of the coordinates - far above double precision, below single precision)
var farOffset = model3d.XYZ(1<<24, -(1 << 25), 1<<23)

func checkNesting(r *ev.Run, parent []int, axis, dir, corner int, tall bool) {
	checkNestingAt(r, parent, axis, dir, corner, tall, c3{})
}

func checkNestingAt(r *ev.Run, parent []int, axis, dir, corner int, tall bool, off c3) {
	boxes := layout(parent, axis, dir, corner)
	if tall {
		// stretch along z: tall columns
		for i := range boxes {
			boxes[i].min.Z *= 6
			boxes[i].max.Z *= 6
		}
	}
	for i := range boxes {
		boxes[i].min, boxes[i].max = boxes[i].min.Add(off), boxes[i].max.Add(off)
	}
	var all []tri
	depth := make([]int, len(boxes))
	for i, b := range boxes {
		d := 0
		for q := b.parent; q >= 0; q = boxes[q].parent {
			d++
		}
		depth[i] = d
		ts := cat.Box(b.min, b.max)
		if d%2 == 1 {
			ts = cat.Flip(ts)
		}
		for _, t := range ts {
			all = append(all, tri(t))
		}
	}
	var bl [][]float64
	for _, b := range boxes {
		bl = append(bl, []float64{b.min.X, b.min.Y, b.min.Z, b.max.X, b.max.Y, b.max.Z})
	}
	c := mcase{Kind: "nesting", Mesh: fmt.Sprintf("forest %v axis %d dir %d corner %d tall %v", parent, axis, dir, corner, tall), Pattern: parent, Boxes: bl}
	if off != (c3{}) {
		c.Mesh += fmt.Sprintf(" moved by %v", off)
	}
	r.Eval(1)
	viol := func(kind, msg string) { r.Violation(kind, c.Mesh+": "+msg, c) }
	m := mesh(all)
	var hs []*model3d.MeshHierarchy
	if p := ev.Try(func() { hs = model3d.MeshToHierarchy(m) }); p != "" {
		viol("MeshToHierarchy/panic", "panic: "+p)
		return
	}
	// faces partitioned
	var got []tri
	nodes := 0
	var walk func(h *model3d.MeshHierarchy, parentBox int)
	boxOf := func(mm *model3d.Mesh) int {
		mn, mx := mm.Min(), mm.Max()
		for i, b := range boxes {
			if b.min == mn && b.max == mx {
				return i
			}
		}
		return -1
	}
	walk = func(h *model3d.MeshHierarchy, parentBox int) {
		nodes++
		id := boxOf(h.Mesh)
		if id < 0 || h.Mesh.NumTriangles() != 12 {
			viol("MeshToHierarchy/node", fmt.Sprintf("a node holds %d faces with bounds %v..%v, which is not one of the components", h.Mesh.NumTriangles(), h.Mesh.Min(), h.Mesh.Max()))
		} else if boxes[id].parent != parentBox {
			viol("MeshToHierarchy/nesting", fmt.Sprintf("component %d is nested under %d, but the smallest enclosing component is %d", id, parentBox, boxes[id].parent))
		}
		got = append(got, trisOf(h.Mesh)...)
		for _, ch := range h.Children {
			walk(ch, id)
		}
	}
	for _, h := range hs {
		walk(h, -1)
	}
	if nodes != len(boxes) {
		viol("MeshToHierarchy/nodes", fmt.Sprintf("%d nodes for %d components", nodes, len(boxes)))
	}
	if !sameFaces(got, all) {
		viol("MeshToHierarchy/faces", fmt.Sprintf("the nodes hold %d faces, the input has %d, or they differ", len(got), len(all)))
	}
	var full []tri
	for _, h := range hs {
		full = append(full, trisOf(h.FullMesh())...)
	}
	if !sameFaces(full, all) {
		viol("MeshHierarchy/FullMesh", "FullMesh over the roots is not the input mesh")
	}
	// even-odd classification
	zmax := 8.0
	if tall {
		zmax = 48
	}
	mapped := make([][]*model3d.MeshHierarchy, len(hierarchyMaps))
	for mi, mp := range hierarchyMaps {
		for _, h := range hs {
			mapped[mi] = append(mapped[mi], h.MapCoords(mp.f))
		}
	}
	for x := 0.13; x < 8; x += 0.37 {
		for y := 0.21; y < 8; y += 0.37 {
			for z := 0.17; z < zmax; z += zmax / 21 {
				p := model3d.XYZ(x, y, z).Add(off)
				cnt := 0
				onFace := false
				for _, b := range boxes {
					for ax := 0; ax < 3; ax++ {
						if math.Abs(p.Array()[ax]-b.min.Array()[ax]) < 1e-9 || math.Abs(p.Array()[ax]-b.max.Array()[ax]) < 1e-9 {
							onFace = true // in the plane of a face: membership of surface points is not defined
						}
					}
				}
				if onFace {
					continue
				}
				for _, b := range boxes {
					if p.X > b.min.X && p.Y > b.min.Y && p.Z > b.min.Z && p.X < b.max.X && p.Y < b.max.Y && p.Z < b.max.Z {
						cnt++
					}
				}
				in := false
				for _, h := range hs {
					if h.Contains(p) {
						in = true
					}
				}
				if in != (cnt%2 == 1) {
					viol("MeshHierarchy/Contains", fmt.Sprintf("point %v is inside %d components, hierarchy says contained=%v", p, cnt, in))
					return
				}
				// the hierarchy carried along by a coordinate map (mirror, half turn, point reflection: the order of
				// siblings along any fixed axis is reversed): the image of p is classified like p
				for mi, mp := range hierarchyMaps {
					in := false
					for _, h := range mapped[mi] {
						if h.Contains(mp.f(p)) {
							in = true
						}
					}
					if in != (cnt%2 == 1) {
						viol("MeshHierarchy/MapCoords", fmt.Sprintf("hierarchy mapped by %s: the image %v of a point inside %d components is classified contained=%v", mp.name, mp.f(p), cnt, in))
						return
					}
				}
			}
		}
	}
	for mi, mp := range hierarchyMaps {
		var full []tri
		for _, h := range mapped[mi] {
			full = append(full, trisOf(h.FullMesh())...)
		}
		var want []tri
		for _, t := range all {
			want = append(want, tri{mp.f(t[0]), mp.f(t[1]), mp.f(t[2])})
		}
		if !sameFaces(full, want) {
			viol("MeshHierarchy/MapCoords", fmt.Sprintf("hierarchy mapped by %s: FullMesh is not the mapped input mesh", mp.name))
		}
	}
	// normal repair on the nested mesh: every component flipped wholesale in every pattern
	if len(boxes) <= 3 && axis == 0 && dir > 0 && !tall {
		for mask := 0; mask < 1<<uint(len(boxes)); mask++ {
			var ts []tri
			for i, b := range boxes {
				bt := cat.Box(b.min, b.max)
				if (depth[i]%2 == 1) != (mask&(1<<uint(i)) != 0) {
					bt = cat.Flip(bt)
				}
				for _, t := range bt {
					ts = append(ts, tri(t))
				}
			}
			var rm *model3d.Mesh
			var cnt int
			if p := ev.Try(func() { rm, cnt = mesh(ts).RepairNormals(1e-3) }); p != "" {
				viol("RepairNormals/panic", "panic: "+p)
				continue
			}
			want := 0
			for i := range boxes {
				if mask&(1<<uint(i)) != 0 {
					want += 12
				}
			}
			if cnt != want || !sameFaces(trisOf(rm), all) {
				viol("RepairNormals/nested", fmt.Sprintf("components flipped by mask %b: RepairNormals flipped %d faces (want %d) or the result is not the even-odd oriented mesh", mask, cnt, want))
			}
		}
	}
	if len(boxes) > 1 {
		r.NontrivialKey(c.Mesh)
	}
}

var hierarchyMaps = []struct {
	name string
	f    func(c3) c3
}{
	{"mirror x -> 9 - x", func(c c3) c3 { return model3d.XYZ(9-c.X, c.Y, c.Z) }},
	{"half turn about z", func(c c3) c3 { return model3d.XYZ(9-c.X, 7-c.Y, c.Z) }},
	{"point reflection", func(c c3) c3 { return model3d.XYZ(-c.X, -c.Y, -c.Z) }},
	{"axes permuted", func(c c3) c3 { return model3d.XYZ(c.Z, c.X, c.Y) }},
}

// ---------------------------------------------------------------- 2D

type seg = [2]model2d.Coord

func mesh2(ss []seg) *model2d.Mesh {
	m := model2d.NewMesh()
	for _, s := range ss {
		m.Add(&model2d.Segment{s[0], s[1]})
	}
	return m
}

func check2DDiagnostics(r *ev.Run, name string, base []seg, pat []int, closed bool) {
	var ss []seg
	nflip := 0
	full := closed
	for i, s := range base {
		switch pat[i] {
		case 0:
			full = false
		case 1:
			ss = append(ss, s)
		case 2:
			ss = append(ss, seg{s[1], s[0]})
			nflip++
		}
	}
	m := mesh2(ss)
	r.Eval(1)
	c := mcase{Kind: "2d", Mesh: name, Pattern: pat}
	deg := map[model2d.Coord]int{}
	first := map[model2d.Coord]int{}
	second := map[model2d.Coord]int{}
	for _, s := range ss {
		deg[s[0]]++
		deg[s[1]]++
		first[s[0]]++
		second[s[1]]++
	}
	wantMan := true
	var wantInc []model2d.Coord
	for v, d := range deg {
		if d != 2 {
			wantMan = false
		}
		if first[v] > 1 || second[v] > 1 {
			wantInc = append(wantInc, v)
		}
	}
	srt := func(cs []model2d.Coord) {
		sort.Slice(cs, func(i, j int) bool {
			if cs[i].X != cs[j].X {
				return cs[i].X < cs[j].X
			}
			return cs[i].Y < cs[j].Y
		})
	}
	srt(wantInc)
	if got := m.Manifold(); got != wantMan {
		r.Violation("2d/Manifold", fmt.Sprintf("%s pattern %v: Manifold()=%v, 'every vertex has two segments' is %v", name, pat, got, wantMan), c)
	}
	inc := m.InconsistentVertices()
	srt(inc)
	if fmt.Sprint(inc) != fmt.Sprint(wantInc) {
		r.Violation("2d/InconsistentVertices", fmt.Sprintf("%s pattern %v: InconsistentVertices()=%v, want %v", name, pat, inc, wantInc), c)
	}
	if full {
		rm, cnt := m.RepairNormals(1e-4)
		same := rm.NumSegments() == len(base)
		have := map[seg]int{}
		rm.Iterate(func(s *model2d.Segment) { have[seg{s[0], s[1]}]++ })
		for _, s := range base {
			if have[s] != 1 {
				same = false
			}
		}
		if cnt != nflip || !same {
			r.Violation("2d/RepairNormals", fmt.Sprintf("%s pattern %v: RepairNormals flipped %d segments (%d were inverted) or the result is not the outward-oriented outline", name, pat, cnt, nflip), c)
		}
		r.NontrivialKey(fmt.Sprint("2drepair", name, pat))
	}
}

func checkNesting2D(r *ev.Run, parent []int, axis, dir, corner int) {
	b3 := layout(parent, axis%2, dir, corner&3)
	type sq struct {
		min, max model2d.Coord
		parent   int
	}
	sqs := make([]sq, len(b3))
	var all []seg
	for i, b := range b3 {
		sqs[i] = sq{b.min.XY(), b.max.XY(), b.parent}
		d := 0
		for q := b.parent; q >= 0; q = b3[q].parent {
			d++
		}
		mn, mx := sqs[i].min, sqs[i].max
		loop := []model2d.Coord{mn, model2d.XY(mn.X, mx.Y), mx, model2d.XY(mx.X, mn.Y)} // clockwise: outward normals
		for k := 0; k < 4; k++ {
			a, bb := loop[k], loop[(k+1)%4]
			if d%2 == 1 {
				a, bb = bb, a
			}
			all = append(all, seg{a, bb})
		}
	}
	c := mcase{Kind: "nesting2d", Mesh: fmt.Sprintf("2D forest %v axis %d dir %d corner %d", parent, axis%2, dir, corner&3), Pattern: parent}
	r.Eval(1)
	viol := func(kind, msg string) { r.Violation(kind, c.Mesh+": "+msg, c) }
	var hs []*model2d.MeshHierarchy
	if p := ev.Try(func() { hs = model2d.MeshToHierarchy(mesh2(all)) }); p != "" {
		viol("2d/MeshToHierarchy/panic", "panic: "+p)
		return
	}
	nodes, nseg := 0, 0
	var walk func(h *model2d.MeshHierarchy, pb int)
	walk = func(h *model2d.MeshHierarchy, pb int) {
		nodes++
		nseg += h.Mesh.NumSegments()
		id := -1
		for i, s := range sqs {
			if s.min == h.Mesh.Min() && s.max == h.Mesh.Max() {
				id = i
			}
		}
		if id < 0 || h.Mesh.NumSegments() != 4 {
			viol("2d/MeshToHierarchy/node", "a node is not one of the components")
		} else if sqs[id].parent != pb {
			viol("2d/MeshToHierarchy/nesting", fmt.Sprintf("component %d nested under %d, smallest enclosing component is %d", id, pb, sqs[id].parent))
		}
		for _, ch := range h.Children {
			walk(ch, id)
		}
	}
	for _, h := range hs {
		walk(h, -1)
	}
	if nodes != len(sqs) || nseg != len(all) {
		viol("2d/MeshToHierarchy/faces", fmt.Sprintf("%d nodes / %d segments for %d components / %d segments", nodes, nseg, len(sqs), len(all)))
	}
	maps2 := []struct {
		name string
		f    func(model2d.Coord) model2d.Coord
	}{{"mirror x -> 9 - x", func(c model2d.Coord) model2d.Coord { return model2d.XY(9-c.X, c.Y) }}, {"half turn", func(c model2d.Coord) model2d.Coord { return model2d.XY(9-c.X, 7-c.Y) }}, {"axes swapped", func(c model2d.Coord) model2d.Coord { return model2d.XY(c.Y, c.X) }}}
	mapped2 := map[string][]*model2d.MeshHierarchy{}
	for _, mp := range maps2 {
		for _, h := range hs {
			mapped2[mp.name] = append(mapped2[mp.name], h.MapCoords(mp.f))
		}
	}
	for x := 0.13; x < 8; x += 0.19 {
		for y := 0.21; y < 8; y += 0.19 {
			p := model2d.XY(x, y)
			cnt := 0
			onEdge := false
			for _, s := range sqs {
				if math.Abs(p.X-s.min.X) < 1e-9 || math.Abs(p.X-s.max.X) < 1e-9 || math.Abs(p.Y-s.min.Y) < 1e-9 || math.Abs(p.Y-s.max.Y) < 1e-9 {
					onEdge = true // on the line of a side: membership of outline points is not defined
				}
			}
			if onEdge {
				continue
			}
			for _, s := range sqs {
				if p.X > s.min.X && p.Y > s.min.Y && p.X < s.max.X && p.Y < s.max.Y {
					cnt++
				}
			}
			in := false
			for _, h := range hs {
				if h.Contains(p) {
					in = true
				}
			}
			if in != (cnt%2 == 1) {
				viol("2d/MeshHierarchy/Contains", fmt.Sprintf("point %v inside %d components, hierarchy says %v", p, cnt, in))
				return
			}
			// carried along by a mirror and a half turn: the image of p is classified like p
			for _, mp := range maps2 {
				in2 := false
				for _, h := range mapped2[mp.name] {
					if h.Contains(mp.f(p)) {
						in2 = true
					}
				}
				if in2 != (cnt%2 == 1) {
					viol("2d/MeshHierarchy/MapCoords", fmt.Sprintf("hierarchy mapped by %s: image of a point inside %d components classified %v", mp.name, cnt, in2))
					return
				}
			}
		}
	}
}

// ---------------------------------------------------------------- main

func main() {
	r := ev.Start("C11", "exploration")
	r.Rule("distinct_nontrivial = damaged patterns (some diagnostic fires), complete closed meshes with flipped faces through the normal repairs, jitter patterns that move at least one vertex copy, forests with more than one component, and repair-chain scenarios with more than one vertex visiting order. Repair-chain scenarios (checks/sched/c11.go) run in the instrumented build: every map-iteration order of Repair with at most B departures from the canonical order, B as reported")
	r.Assume("Orientable is judged only when no edge has more than two faces", "jitter offsets are < eps/4 so that all copies of a vertex are within eps/2 of each other and distinct vertices are farther than 2 eps apart",
		"nested boxes do not touch", "RepairNormals epsilon is far below the smallest feature")
	if r.Replay != "" {
		var sc schedrun.ReplayCase
		r.LoadReplay(&sc)
		if sc.Scenario != "" {
			schedrun.Build(false)
			cj, _ := json.Marshal(sc.Choices)
			if sc.Choices == nil {
				cj = []byte("[]")
			}
			out, err := exec.Command(filepath.Join(ev.Work(), "bin", "sched"), "replay", sc.Scenario, string(cj)).CombinedOutput()
			fmt.Print(string(out))
			if err != nil {
				r.Violation(chainFamily(sc.Scenario)+"/"+sc.Kind, "replayed execution violates: "+string(out), sc)
			}
			r.Finish()
		}
		var c mcase
		r.LoadReplay(&c)
		switch c.Kind {
		case "diagnostics":
			bases := map[string][]tri{"octa": named("octa"), "prism": named("prism"), "cube": named("cube"), "moebius": moebius()}
			for k, v := range glued() {
				bases[k] = v
			}
			b := bases[c.Mesh]
			checkDiagnostics(r, c.Mesh, b, c.Pattern, c.Mesh == "octa" || c.Mesh == "prism" || c.Mesh == "cube", c.Storage)
		case "repair":
			checkRepairJitter(r, c.Mesh, named(c.Mesh), 3, 1)
		case "nesting":
			for axis := 0; axis < 3; axis++ {
				for _, dir := range []int{1, -1} {
					for corner := 0; corner < 8; corner++ {
						for _, tall := range []bool{false, true} {
							checkNesting(r, c.Pattern, axis, dir, corner, tall)
							checkNestingAt(r, c.Pattern, axis, dir, corner, tall, farOffset)
							checkNestingAt(r, c.Pattern, axis, dir, corner, tall, farOffset.Scale(16))
						}
					}
				}
			}
		case "ring-scene":
			checkRingScenes(r)
		case "nesting2d":
			for axis := 0; axis < 2; axis++ {
				for _, dir := range []int{1, -1} {
					for corner := 0; corner < 4; corner++ {
						checkNesting2D(r, c.Pattern, axis, dir, corner)
					}
				}
			}
		}
		r.Finish()
	}
	r.Isolate("diagnostics", func() {
		type job struct {
			name   string
			base   []tri
			pat    []int
			closed bool
		}
		var jobs []job
		for _, n := range []string{"octa", "prism"} {
			b := named(n)
			patterns(len(b), 3, func(p []int) { jobs = append(jobs, job{n, b, p, true}) })
		}
		mb := moebius()
		patterns(len(mb), 3, func(p []int) { jobs = append(jobs, job{"moebius", mb, p, false}) })
		cube := named("cube")
		patterns(len(cube), 2, func(p []int) { jobs = append(jobs, job{"cube", cube, p, true}) }) // subsets
		patterns(len(cube), 2, func(p []int) {
			q := make([]int, len(p))
			for i := range p {
				q[i] = p[i] + 1
			}
			jobs = append(jobs, job{"cube", cube, q, true}) // orientation patterns
		})
		for name, b := range glued() {
			b, name := b, name
			if len(b) <= 8 {
				patterns(len(b), 3, func(p []int) { jobs = append(jobs, job{name, b, p, false}) })
			} else {
				patterns(len(b), 2, func(p []int) { jobs = append(jobs, job{name, b, p, false}) })
			}
		}
		if r.Thorough() {
			patterns(len(cube), 3, func(p []int) { jobs = append(jobs, job{"cube", cube, p, true}) })
		}
		ev.Parallel(len(jobs), 0, func(i int) {
			checkDiagnostics(r, jobs[i].name, jobs[i].base, jobs[i].pat, jobs[i].closed, 0)
			// every 4th pattern (thorough: every one) again in the two other storage variants
			if i%4 == 1 || r.Thorough() {
				checkDiagnostics(r, jobs[i].name, jobs[i].base, jobs[i].pat, jobs[i].closed, 1)
				checkDiagnostics(r, jobs[i].name, jobs[i].base, jobs[i].pat, jobs[i].closed, 2)
			}
		})
		r.Set("diagnostic_patterns", len(jobs))
		r.Sample(mcase{Kind: "diagnostics", Mesh: "octa", Pattern: []int{1, 1, 0, 2, 1, 1, 1, 2}})
	})
	r.Isolate("repair", func() {
		if r.Thorough() {
			checkRepairJitterPar(r, "tetra", named("tetra"), 3)
			// all 2^24 assignments x 8 shifts would be 134 million repairs (hours); every 17th pattern - 17 is coprime to
			// the period of every face-vertex slot - still varies every slot against every other
			checkRepairJitter(r, "octa", named("octa"), 2, 17)
		} else {
			checkRepairJitterPar(r, "tetra", named("tetra"), 2)
			checkRepairJitter(r, "octa", named("octa"), 2, 257)
		}
	})
	r.Isolate("nesting", func() {
		maxN := 3
		if r.Thorough() {
			maxN = 4
		}
		type job struct {
			parent            []int
			axis, dir, corner int
			tall              bool
		}
		var jobs []job
		for n := 1; n <= maxN; n++ {
			forests(n, func(parent []int) {
				for axis := 0; axis < 3; axis++ {
					for _, dir := range []int{1, -1} {
						for corner := 0; corner < 8; corner++ {
							for _, tall := range []bool{false, true} {
								jobs = append(jobs, job{parent, axis, dir, corner, tall})
							}
						}
					}
				}
			})
		}
		ev.Parallel(len(jobs), 0, func(i int) {
			j := jobs[i]
			checkNesting(r, j.parent, j.axis, j.dir, j.corner, j.tall)
			if (i%3 == 0 || r.Thorough()) && len(j.parent) > 1 {
				checkNestingAt(r, j.parent, j.axis, j.dir, j.corner, j.tall, farOffset)
			}
			// sixteen times farther: a whole nest now lies within a few single-precision steps, so that keys kept
			// in a narrower type tie for most of its vertices (at 2^24 only a few do, and a tie can fall right)
			if (i%3 == 1 || r.Thorough()) && len(j.parent) > 1 {
				checkNestingAt(r, j.parent, j.axis, j.dir, j.corner, j.tall, farOffset.Scale(16))
			}
			if !j.tall {
				checkNesting2D(r, j.parent, j.axis, j.dir, j.corner)
			}
		})
		checkRingScenes(r)
		r.Set("nesting_configurations", len(jobs))
		r.Sample(mcase{Kind: "nesting", Mesh: "forest [-1 0 0] axis 2 dir -1 corner 3", Pattern: []int{-1, 0, 0}})
	})
	r.Isolate("self-intersections", func() { selfIntersectionStage(r) })
	r.Isolate("2d", func() {
		var oct []seg
		for i := 0; i < 8; i++ {
			a0, a1 := -2*math.Pi*float64(i)/8, -2*math.Pi*float64(i+1)/8       // clockwise
			rd := func(x float64) float64 { return math.Round(100*x)/100 + 0 } // "+ 0" turns -0 into 0
			oct = append(oct, seg{model2d.XY(rd(math.Cos(a0)), rd(math.Sin(a0))), model2d.XY(rd(math.Cos(a1)), rd(math.Sin(a1)))})
		}
		patterns(8, 3, func(p []int) { check2DDiagnostics(r, "octagon", oct, p, true) })
		// two squares sharing a vertex
		sq := func(x, y float64) []seg {
			l := []model2d.Coord{model2d.XY(x, y), model2d.XY(x, y+1), model2d.XY(x+1, y+1), model2d.XY(x+1, y)}
			return []seg{{l[0], l[1]}, {l[1], l[2]}, {l[2], l[3]}, {l[3], l[0]}}
		}
		two := append(sq(0, 0), sq(1, 1)...)
		patterns(8, 3, func(p []int) { check2DDiagnostics(r, "two squares sharing a vertex", two, p, false) })
	})
	// (D) chains of near-duplicates under every vertex visiting order
	schedrun.Build(false)
	bound := 1
	if r.Thorough() {
		bound = 2
	}
	part := scen.RunBatch(bound, 300000, schedrun.List("C11"))
	scen.Report(r, part, chainFamily)
	var execs int64
	for _, x := range part {
		execs += x.Executions
	}
	r.Set("repair_chain_scenarios", len(part))
	r.Set("repair_chain_visiting_orders_executed", execs)
	r.Set("repair_chain_deviation_bound", bound)
	r.Finish()
}

func checkRepairJitterPar(r *ev.Run, name string, base []tri, nOff int) {
	// shard the pattern space by stride over 16 workers
	ev.Parallel(16, 16, func(w int) {
		const eps = 0.01
		offs := []c3{{X: eps / 4, Y: -eps / 4, Z: eps / 4}, {X: -eps / 4, Y: eps / 4, Z: -eps / 4}, {}}[:nOff]
		n := len(base) * 3
		ref := mesh(base)
		wantV, wantF := len(ref.VertexSlice()), len(base)
		idx := 0
		patterns(n, nOff, func(p []int) {
			idx++
			if idx%16 != w {
				return
			}
			// the whole mesh is also shifted by eps/2 along each axis subset, so that the copies of a
			// vertex straddle the rounding boundaries of the merge grid
			for shift := 0; shift < 8; shift++ {
				sh := model3d.XYZ(float64(shift&1), float64(shift>>1&1), float64(shift>>2&1)).Scale(eps / 2)
				var ts []tri
				for i, t := range base {
					var u tri
					for k := 0; k < 3; k++ {
						u[k] = t[k].Add(offs[p[i*3+k]]).Add(sh)
					}
					ts = append(ts, u)
				}
				r.Eval(1)
				var out *model3d.Mesh
				c := mcase{Kind: "repair", Mesh: name, Pattern: p, Tris: flat(ts)}
				if pn := ev.Try(func() { out = mesh(ts).Repair(eps) }); pn != "" {
					r.Violation("Repair/panic", fmt.Sprintf("%s jitter %v: panic: %s", name, p, pn), c)
					continue
				}
				ot := trisOf(out)
				if defNeedsRepair(ot) || out.NeedsRepair() || len(defSingular(ot)) != 0 || len(out.VertexSlice()) != wantV || len(ot) != wantF {
					r.Violation("Repair/not-clean", fmt.Sprintf("%s shifted by %v with every face-vertex displaced by < eps/2 (pattern %v): Repair(%g) gives %d vertices / %d faces (want %d / %d), needsRepair=%v", name, sh, p, eps, len(out.VertexSlice()), len(ot), wantV, wantF, defNeedsRepair(ot)), c)
				}
				r.NontrivialAdd(1)
			}
		})
	})
}

var _ = unflat

// ---------------------------------------------------------------- nesting of non-convex components

// checkRingScenes: a shell containing a bar and a ring (torus) around the bar. The ring does not enclose the bar
// and the bar does not enclose the ring - they are siblings under the shell - although the centre of the ring's
// bounding box lies inside the bar and either of them may come first along the library's sweep axis. Every
// orientation of the ring's axis and every placement sign is used. Oracle: winding numbers of the separate
// components (parity of the number of components around a point), the expected tree, face conservation.
func checkRingScenes(r *ev.Run) {
	perm := [][3]int{{0, 1, 2}, {1, 2, 0}, {2, 0, 1}, {0, 2, 1}, {2, 1, 0}, {1, 0, 2}}
	for pi, pm := range perm {
		for _, sg := range []float64{1, -1} {
			mp := func(c c3) c3 {
				a := c.Array()
				return model3d.XYZ(sg*a[pm[0]]+0.3, a[pm[1]]-0.2, sg*a[pm[2]]+0.1)
			}
			var comps [][]tri
			add := func(ts [][3]c3) {
				var out []tri
				for _, t := range ts {
					out = append(out, tri{mp(t[0]), mp(t[1]), mp(t[2])})
				}
				comps = append(comps, out)
			}
			add(cat.Box(model3d.XYZ(-5, -5, -5), model3d.XYZ(5, 5, 5)))         // shell
			add(cat.Box(model3d.XYZ(-0.6, -0.7, -2), model3d.XYZ(0.7, 0.6, 2))) // bar through the ring (ring axis = z before the permutation)
			add(cat.Torus(12, 6, 2.5, 0.6))                                     // ring around the bar
			wantParent := []int{-1, 0, 0}
			name := fmt.Sprintf("shell, bar and ring (axes %v, sign %g)", pm, sg)
			c := mcase{Kind: "ring-scene", Mesh: name, Pattern: []int{pi, int(sg)}}
			viol := func(kind, msg string) { r.Violation(kind, name+": "+msg, c) }
			r.Eval(1)
			var all []tri
			for _, cc := range comps {
				all = append(all, cc...)
			}
			var hs []*model3d.MeshHierarchy
			if p := ev.Try(func() { hs = model3d.MeshToHierarchy(mesh(all)) }); p != "" {
				viol("MeshToHierarchy/panic", "panic: "+p)
				continue
			}
			compOf := func(m *model3d.Mesh) int {
				for i, cc := range comps {
					if sameFaces(trisOf(m), cc) {
						return i
					}
				}
				return -1
			}
			nodes := 0
			var walk func(h *model3d.MeshHierarchy, parent int)
			bad := false
			walk = func(h *model3d.MeshHierarchy, parent int) {
				nodes++
				id := compOf(h.Mesh)
				if id < 0 {
					viol("MeshToHierarchy/node", "a node does not hold exactly one of the components")
					bad = true
					return
				}
				if wantParent[id] != parent {
					viol("MeshToHierarchy/nesting", fmt.Sprintf("component %d (0 shell, 1 bar, 2 ring) is nested under %d, it belongs under %d", id, parent, wantParent[id]))
					bad = true
				}
				for _, ch := range h.Children {
					walk(ch, id)
				}
			}
			for _, h := range hs {
				walk(h, -1)
			}
			if bad {
				continue
			}
			if nodes != 3 {
				viol("MeshToHierarchy/nodes", fmt.Sprintf("%d nodes for 3 components", nodes))
				continue
			}
			tt := make([][][3][3]float64, len(comps))
			for i, cc := range comps {
				for _, t := range cc {
					tt[i] = append(tt[i], [3][3]float64{t[0].Array(), t[1].Array(), t[2].Array()})
				}
			}
			for x := -5.4; x < 5.5; x += 0.53 {
				for y := -5.4; y < 5.5; y += 0.53 {
					for z := -5.4; z < 5.5; z += 0.53 {
						p := mp(model3d.XYZ(x, y, z))
						cnt, near := 0, false
						for i := range comps {
							w := topo.Winding3(tt[i], p.Array())
							if math.Abs(w-math.Round(w)) > 1e-6 {
								near = true
							}
							if int(math.Round(math.Abs(w)))%2 == 1 {
								cnt++
							}
						}
						if near {
							continue
						}
						in := false
						for _, h := range hs {
							if h.Contains(p) {
								in = true
							}
						}
						if in != (cnt%2 == 1) {
							viol("MeshHierarchy/Contains", fmt.Sprintf("point %v is inside %d components, hierarchy says contained=%v", p, cnt, in))
							x, y = 9, 9
							break
						}
					}
				}
			}
			r.NontrivialKey(name)
		}
	}
}
