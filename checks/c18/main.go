// C18: surface parameterisations are valid, disjoint and invertible.
//
// Driver for the C18 scenarios of checks/sched/c18.go, run inside the
// instrumented build. Chart decomposition (MeshToPlaneGraphs[Limited],
// SplitPlaneGraph) picks seeds and breaks ties in map order, so those scenarios
// enumerate every execution with at most B departures from the canonical map
// order. Floater parameterisations (3 convex boundaries x 3 weightings x 5 open
// discs), the automatic atlas and the chart packer are run in canonical order.
package main

import (
	"encoding/json"
	"fmt"
	"os/exec"
	"path/filepath"
	"strings"

	"verif/lib/ev"
	"verif/lib/scen"
	"verif/lib/schedrun"
)

func family(s string) string {
	if i := strings.Index(s, ":"); i >= 0 {
		s = s[i+1:]
	}
	for i, c := range s {
		if c == '(' || c == '/' {
			return s[:i]
		}
	}
	return s
}

func main() {
	r := ev.Start("C18", "model_checking")
	schedrun.Build(false)
	if r.Replay != "" {
		var c schedrun.ReplayCase
		r.LoadReplay(&c)
		cj, _ := json.Marshal(c.Choices)
		if c.Choices == nil {
			cj = []byte("[]")
		}
		out, err := exec.Command(filepath.Join(ev.Work(), "bin", "sched"), "replay", c.Scenario, string(cj)).CombinedOutput()
		fmt.Print(string(out))
		if err != nil {
			r.Violation(family(c.Scenario)+"/"+c.Kind, "replayed execution violates: "+string(out), c)
		}
		r.StatesAdd(1)
		r.Transitions(1)
		r.Finish()
	}
	r.Rule("one scenario = one parameterisation routine on one catalogue surface; chart-decomposition scenarios enumerate every execution with at most B non-canonical map-iteration decisions (states = decision-tree nodes, transitions = decisions, traces = executions). " +
		"non-trivial = scenarios with more than one execution")
	r.Assume("square boundaries may flatten triangles whose three vertices lie on one side (documented)", "solver tolerance x10 (1e-5) for the mean-value equations",
		"UV triangles that share an edge may touch; overlap is judged after shrinking both by 0.1%", "points outside every UV triangle must map to a nearest point of the triangulation (documented behaviour of MapFn)")
	names := schedrun.List("C18")
	groups := map[int][]string{}
	for _, n := range names {
		b := 0
		if strings.HasPrefix(n, "charts:") {
			small := strings.HasSuffix(n, "/tetra") || strings.HasSuffix(n, "/octa") || strings.HasSuffix(n, "/cube") || strings.HasSuffix(n, "/two-tetra") || strings.Contains(n, "disc-is-one-chart")
			if small {
				b = 1
			}
			if r.Thorough() {
				b++
			}
		}
		if strings.HasPrefix(n, "split-orders:") {
			b = 8 // one deviation per position of the priority order: nothing is cut off for discs of up to 8 triangles
		}
		groups[b] = append(groups[b], n)
	}
	var all []schedrun.Result
	for b := 0; b <= 8; b++ {
		if len(groups[b]) == 0 {
			continue
		}
		part := scen.RunBatch(b, 300000, groups[b])
		scen.Report(r, part, family)
		all = append(all, part...)
		r.Set(fmt.Sprintf("scenarios_at_deviation_bound_%d", b), len(groups[b]))
	}
	var worst schedrun.Result
	for _, x := range all {
		if x.Executions > worst.Executions {
			worst = x
		}
	}
	r.Sample(map[string]interface{}{"scenario": worst.Scenario, "bound": worst.Bound, "executions": worst.Executions, "decisions": worst.Points})
	r.Finish()
}
