package main

// The OBJ family as files: the text (or zip of texts and a texture) that the writers emit is parsed again by a
// parser written here to the Wavefront conventions (v / vt / vn / f with a, a/b, a//c, a/b/c corners, 1-based
// indices, usemtl / mtllib / newmtl) and must reference every face exactly once with in-range indices, at the
// face's own coordinates rounded to single precision (the precision the writer uses).

import (
	"archive/zip"
	"bufio"
	"bytes"
	"fmt"
	"image/png"
	"io"
	"math"
	"strconv"
	"strings"

	"github.com/unixpickle/model3d/model2d"
	"github.com/unixpickle/model3d/model3d"

	"verif/lib/ev"
)

type objText struct {
	v      [][3]float64
	vt     [][2]float64
	vn     int
	faces  [][3][3]int // per corner: v, vt, vn (0 = absent)
	mtl    []string    // usemtl in force per face
	mtllib []string
}

func parseOBJ(data []byte) (*objText, string) {
	o := &objText{}
	cur := ""
	sc := bufio.NewScanner(bytes.NewReader(data))
	sc.Buffer(make([]byte, 1<<20), 1<<24)
	ln := 0
	for sc.Scan() {
		ln++
		f := strings.Fields(sc.Text())
		if len(f) == 0 || strings.HasPrefix(f[0], "#") {
			continue
		}
		nums := func(n int) ([]float64, bool) {
			if len(f) < 1+n {
				return nil, false
			}
			out := make([]float64, len(f)-1)
			for i, s := range f[1:] {
				x, err := strconv.ParseFloat(s, 64)
				if err != nil || math.IsNaN(x) || math.IsInf(x, 0) {
					return nil, false
				}
				out[i] = x
			}
			return out, true
		}
		switch f[0] {
		case "v":
			x, ok := nums(3)
			if !ok || (len(x) != 3 && len(x) != 6) {
				return nil, fmt.Sprintf("line %d: bad vertex %q", ln, sc.Text())
			}
			o.v = append(o.v, [3]float64{x[0], x[1], x[2]})
		case "vt":
			x, ok := nums(2)
			if !ok || len(x) != 2 {
				return nil, fmt.Sprintf("line %d: bad texture coordinate %q", ln, sc.Text())
			}
			o.vt = append(o.vt, [2]float64{x[0], x[1]})
		case "vn":
			if _, ok := nums(3); !ok {
				return nil, fmt.Sprintf("line %d: bad normal %q", ln, sc.Text())
			}
			o.vn++
		case "f":
			if len(f) != 4 {
				return nil, fmt.Sprintf("line %d: face with %d corners", ln, len(f)-1)
			}
			var face [3][3]int
			for k, c := range f[1:] {
				parts := strings.Split(c, "/")
				if len(parts) > 3 {
					return nil, fmt.Sprintf("line %d: bad corner %q", ln, c)
				}
				for j, p := range parts {
					if p == "" {
						if j == 0 {
							return nil, fmt.Sprintf("line %d: corner %q without a vertex index", ln, c)
						}
						continue
					}
					n, err := strconv.Atoi(p)
					if err != nil {
						return nil, fmt.Sprintf("line %d: bad corner %q", ln, c)
					}
					face[k][j] = n
				}
			}
			o.faces = append(o.faces, face)
			o.mtl = append(o.mtl, cur)
		case "usemtl":
			if len(f) != 2 {
				return nil, fmt.Sprintf("line %d: bad usemtl", ln)
			}
			cur = f[1]
		case "mtllib":
			o.mtllib = append(o.mtllib, f[1:]...)
		default:
			return nil, fmt.Sprintf("line %d: unknown statement %q", ln, f[0])
		}
	}
	return o, ""
}

// parseMTL returns the names defined by newmtl and, per name, the diffuse texture file (map_Kd) if any.
func parseMTL(data []byte) (map[string]string, string) {
	out := map[string]string{}
	cur := ""
	sc := bufio.NewScanner(bytes.NewReader(data))
	for sc.Scan() {
		f := strings.Fields(sc.Text())
		if len(f) == 0 {
			continue
		}
		switch f[0] {
		case "newmtl":
			if len(f) != 2 {
				return nil, "bad newmtl line " + sc.Text()
			}
			if _, dup := out[f[1]]; dup {
				return nil, "material " + f[1] + " defined twice"
			}
			cur = f[1]
			out[cur] = ""
		case "map_Kd":
			if cur == "" || len(f) != 2 {
				return nil, "bad map_Kd line " + sc.Text()
			}
			out[cur] = f[1]
		default:
			if cur == "" {
				return nil, "statement before the first newmtl: " + sc.Text()
			}
		}
	}
	return out, ""
}

func unzip(data []byte) (map[string][]byte, string) {
	zr, err := zip.NewReader(bytes.NewReader(data), int64(len(data)))
	if err != nil {
		return nil, err.Error()
	}
	files := map[string][]byte{}
	for _, f := range zr.File {
		rc, err := f.Open()
		if err != nil {
			return nil, f.Name + ": " + err.Error()
		}
		b, err := io.ReadAll(rc)
		rc.Close()
		if err != nil {
			return nil, f.Name + ": " + err.Error()
		}
		if _, dup := files[f.Name]; dup {
			return nil, "part " + f.Name + " twice"
		}
		files[f.Name] = b
	}
	return files, ""
}

// checkOBJText: faces of the parsed text against the given faces, in order (the builders keep the order within a
// material group; across groups the order is by material, so the comparison is a multiset with corner order kept).
// uv, if not nil, gives the expected texture coordinate of every corner of every face.
func checkOBJText(r *ev.Run, name string, o *objText, tris []*model3d.Triangle, uv func(t *model3d.Triangle) [3]model2d.Coord, c meshCase) bool {
	viol := func(kind, msg string) bool { r.Violation("objfile/"+name+"/"+kind, msg, c); return false }
	if len(o.faces) != len(tris) {
		return viol("face-count", fmt.Sprintf("%d f lines, %d faces given", len(o.faces), len(tris)))
	}
	f32 := func(x float64) float64 { return float64(float32(x)) + 0 }
	type key struct {
		v  [3][3]float64
		vt [3][2]float64
	}
	want := map[key]int{}
	for _, t := range tris {
		var k key
		for i := 0; i < 3; i++ {
			a := t[i].Array()
			k.v[i] = [3]float64{f32(a[0]), f32(a[1]), f32(a[2])}
		}
		if uv != nil {
			u := uv(t)
			for i := 0; i < 3; i++ {
				k.vt[i] = [2]float64{f32(u[i].X), f32(u[i].Y)}
			}
		}
		want[k]++
	}
	for fi, f := range o.faces {
		var k key
		for i := 0; i < 3; i++ {
			if f[i][0] < 1 || f[i][0] > len(o.v) {
				return viol("index-range", fmt.Sprintf("face %d: vertex index %d with %d vertices", fi, f[i][0], len(o.v)))
			}
			if f[i][2] < 0 || f[i][2] > o.vn {
				return viol("index-range", fmt.Sprintf("face %d: normal index %d with %d normals", fi, f[i][2], o.vn))
			}
			a := o.v[f[i][0]-1]
			k.v[i] = [3]float64{f32(a[0]), f32(a[1]), f32(a[2])} // shortest single-precision numerals: read back in single precision
			if uv != nil {
				if f[i][1] < 1 || f[i][1] > len(o.vt) {
					return viol("index-range", fmt.Sprintf("face %d: texture index %d with %d texture coordinates", fi, f[i][1], len(o.vt)))
				}
				b := o.vt[f[i][1]-1]
				k.vt[i] = [2]float64{f32(b[0]), f32(b[1])}
			} else if f[i][1] != 0 && (f[i][1] < 1 || f[i][1] > len(o.vt)) {
				return viol("index-range", fmt.Sprintf("face %d: texture index %d with %d texture coordinates", fi, f[i][1], len(o.vt)))
			}
		}
		if want[k] == 0 {
			return viol("faces", fmt.Sprintf("written face %d (%v) is not one of the given faces, or is written more often than given", fi, k.v))
		}
		want[k]--
	}
	return true
}

func checkOBJFiles(r *ev.Run, tris []*model3d.Triangle, c meshCase) {
	r.Eval(4)
	colF := func(p model3d.Coord3D) [3]float64 { return [3]float64{0.25, 0.5, 1} }
	triCol := func(t *model3d.Triangle) [3]float64 {
		return [3]float64{float64(int(math.Abs(t[0].Z*3))%3) / 2, 0.25, 0.5}
	}
	var buf bytes.Buffer
	if err := model3d.WriteVertexColorOBJ(&buf, tris, colF); err != nil {
		r.Violation("objfile/WriteVertexColorOBJ/write-error", err.Error(), c)
	} else if o, msg := parseOBJ(buf.Bytes()); msg != "" {
		r.Violation("objfile/WriteVertexColorOBJ/syntax", msg, c)
	} else {
		checkOBJText(r, "WriteVertexColorOBJ", o, tris, nil, c)
	}
	// material OBJ: zip of object.obj and material.mtl, every material used is defined
	zipCheck := func(name string, data []byte, texture int, uv func(t *model3d.Triangle) [3]model2d.Coord) *objText {
		files, msg := unzip(data)
		if msg != "" {
			r.Violation("objfile/"+name+"/zip", msg, c)
			return nil
		}
		for _, need := range []string{"object.obj", "material.mtl"} {
			if _, ok := files[need]; !ok {
				r.Violation("objfile/"+name+"/missing-part", need, c)
				return nil
			}
		}
		o, msg := parseOBJ(files["object.obj"])
		if msg != "" {
			r.Violation("objfile/"+name+"/syntax", msg, c)
			return nil
		}
		if !checkOBJText(r, name, o, tris, uv, c) {
			return nil
		}
		mats, msg := parseMTL(files["material.mtl"])
		if msg != "" {
			r.Violation("objfile/"+name+"/mtl-syntax", msg, c)
			return nil
		}
		if len(o.faces) > 0 && (len(o.mtllib) != 1 || o.mtllib[0] != "material.mtl") {
			r.Violation("objfile/"+name+"/mtllib", fmt.Sprintf("mtllib %v, the archive holds material.mtl", o.mtllib), c)
		}
		for i, m := range o.mtl {
			tex, ok := mats[m]
			if !ok {
				r.Violation("objfile/"+name+"/unknown-material", fmt.Sprintf("face %d uses material %q, which material.mtl does not define", i, m), c)
				return nil
			}
			if texture > 0 && tex != "texture.png" {
				r.Violation("objfile/"+name+"/texture-reference", fmt.Sprintf("material %q refers to texture %q, the archive holds texture.png", m, tex), c)
				return nil
			}
		}
		if texture > 0 {
			img, err := png.Decode(bytes.NewReader(files["texture.png"]))
			if err != nil {
				r.Violation("objfile/"+name+"/texture", "texture.png: "+fmt.Sprint(err), c)
				return nil
			}
			if b := img.Bounds(); b.Dx() != texture || b.Dy() != texture {
				r.Violation("objfile/"+name+"/texture", fmt.Sprintf("texture is %dx%d, %d asked for", b.Dx(), b.Dy(), texture), c)
			}
		}
		return o
	}
	buf.Reset()
	if err := model3d.WriteMaterialOBJ(&buf, tris, triCol); err != nil {
		r.Violation("objfile/WriteMaterialOBJ/write-error", err.Error(), c)
	} else {
		zipCheck("WriteMaterialOBJ", buf.Bytes(), 0, nil)
		if !bytes.Equal(buf.Bytes(), model3d.EncodeMaterialOBJ(tris, triCol)) {
			// zip headers carry no time stamps here, so the two encodings are byte-identical
			if o2 := zipCheck("EncodeMaterialOBJ", model3d.EncodeMaterialOBJ(tris, triCol), 0, nil); o2 == nil {
				return
			}
		}
	}
	if len(tris) == 0 {
		return // the palette quantiser needs at least one colour
	}
	// as many distinct colours as faces: with more colours than texels every row of the palette is in use
	manyCol := func(t *model3d.Triangle) [3]float64 {
		h := math.Abs(t[0].X*0.37+t[1].Y*0.11+t[2].Z*0.23+t[1].X*0.05+t[2].Y*0.07) + 0.01
		return [3]float64{h - math.Floor(h), math.Mod(h*7, 1), math.Mod(h*13, 1)}
	}
	for si, size := range []int{1, 2, 3, 2, 3} {
		colF := triCol
		if si >= 3 {
			colF = manyCol
		}
		buf.Reset()
		var werr error
		if p := ev.Try(func() { werr = model3d.WriteQuantizedMaterialOBJ(&buf, tris, size, colF) }); p != "" {
			r.Violation("objfile/WriteQuantizedMaterialOBJ/panic", fmt.Sprintf("texture size %d: panic: %s", size, p), c)
			continue
		}
		if werr != nil {
			r.Violation("objfile/WriteQuantizedMaterialOBJ/write-error", werr.Error(), c)
			continue
		}
		o := zipCheck("WriteQuantizedMaterialOBJ", buf.Bytes(), size, nil)
		if o == nil {
			continue
		}
		// one palette cell per face: the three corners share one texture index, which lies at the centre of a texel
		for fi, f := range o.faces {
			if f[0][1] != f[1][1] || f[0][1] != f[2][1] || f[0][1] < 1 || f[0][1] > len(o.vt) {
				r.Violation("objfile/WriteQuantizedMaterialOBJ/palette-index", fmt.Sprintf("texture size %d, face %d: texture indices %d %d %d with %d palette entries", size, fi, f[0][1], f[1][1], f[2][1], len(o.vt)), c)
				break
			}
			t := o.vt[f[0][1]-1]
			fx, fy := t[0]*float64(size)-0.5, t[1]*float64(size)-0.5
			if !(math.Abs(fx-math.Round(fx)) <= 1e-5) || !(math.Abs(fy-math.Round(fy)) <= 1e-5) || fx < -1e-5 || fy < -1e-5 || fx > float64(size)-1+1e-5 || fy > float64(size)-1+1e-5 {
				r.Violation("objfile/WriteQuantizedMaterialOBJ/palette-uv", fmt.Sprintf("texture size %d, face %d: texture coordinate %v is not the centre of a texel", size, fi, t), c)
				break
			}
		}
	}
	// UV-mapped OBJ: a texture coordinate per corner, taken from the map
	uvm := model3d.MeshUVMap{}
	for i, t := range tris {
		uvm[t] = [3]model2d.Coord{model2d.XY(float64(i%3)/4, 0.125), model2d.XY(0.5, float64(i%5)/8), model2d.XY(float64(i%2), 1)}
	}
	obj, mtl := model3d.BuildUVMapMaterialOBJ(tris, uvm)
	buf.Reset()
	var mb bytes.Buffer
	if err := obj.Write(&buf); err != nil {
		r.Violation("objfile/BuildUVMapMaterialOBJ/write-error", err.Error(), c)
		return
	}
	if err := mtl.Write(&mb); err != nil {
		r.Violation("objfile/BuildUVMapMaterialOBJ/write-error", err.Error(), c)
		return
	}
	o, msg := parseOBJ(buf.Bytes())
	if msg != "" {
		r.Violation("objfile/BuildUVMapMaterialOBJ/syntax", msg, c)
		return
	}
	if !checkOBJText(r, "BuildUVMapMaterialOBJ", o, tris, func(t *model3d.Triangle) [3]model2d.Coord { return uvm[t] }, c) {
		return
	}
	mats, msg := parseMTL(mb.Bytes())
	if msg != "" {
		r.Violation("objfile/BuildUVMapMaterialOBJ/mtl-syntax", msg, c)
		return
	}
	for i, m := range o.mtl {
		if tex, ok := mats[m]; !ok || tex == "" {
			r.Violation("objfile/BuildUVMapMaterialOBJ/unknown-material", fmt.Sprintf("face %d uses material %q: defined=%v texture=%q", i, m, ok, tex), c)
			return
		}
	}
}
