// C15: mesh files round-trip through the library's writers and readers.
// Small-scope exhaustive enumeration of meshes over a boundary-value
// coordinate alphabet and of generic PLY headers/value sequences; oracle =
// bit-exact comparison with the originals rounded to the format's precision.
package main

import (
	"archive/zip"
	"bytes"
	"encoding/json"
	"encoding/xml"
	"fmt"
	"hash/fnv"
	"io"
	"math"
	"math/big"
	"sort"
	"strconv"
	"strings"
	"sync/atomic"

	"github.com/unixpickle/model3d/fileformats"
	"github.com/unixpickle/model3d/model2d"
	"github.com/unixpickle/model3d/model3d"

	"verif/lib/ev"
)

var negZero = math.Copysign(0, -1)

// five vertices covering the coordinate alphabet {0,-0,1,1/3,16777217,1e-45,3.4e38,1e-310,-2.5}
var verts = []model3d.Coord3D{
	{X: 0, Y: negZero, Z: 1},
	{X: 1.0 / 3, Y: 16777217, Z: 1e-45},
	{X: 3.4e38, Y: 1e-310, Z: -2.5},
	{X: 1, Y: 1, Z: 1},
	{X: -2.5, Y: 0, Z: 1.0 / 3},
}

type meshCase struct {
	Kind  string   `json:"kind"`
	Faces [][3]int `json:"faces"`
}

func bitsEq(a, b float64) bool { return math.Float64bits(a) == math.Float64bits(b) }

func f32(x float64) float64 { return float64(float32(x)) }

func buildTris(faces [][3]int) []*model3d.Triangle {
	out := make([]*model3d.Triangle, len(faces))
	for i, f := range faces {
		out[i] = &model3d.Triangle{verts[f[0]], verts[f[1]], verts[f[2]]}
	}
	return out
}

func colorOf(c model3d.Coord3D) [3]uint8 {
	// defined on the float32-rounded coordinate so that vertices which collide after rounding agree
	h := math.Float32bits(float32(c.X))*31 + math.Float32bits(float32(c.Y))*17 + math.Float32bits(float32(c.Z))
	if c.X == 0 && c.Y == 0 && c.Z == 0 {
		h = 0
	}
	return [3]uint8{uint8(h), uint8(h >> 8), uint8(h >> 16)}
}

// chunkReader is the decoder's environment: an io.Reader may legally return
// fewer bytes than asked for. cut > 0 forces one read to stop at offset cut
// (one deviation from the default answer); one makes every read return a
// single byte (all deviations).
type chunkReader struct {
	data []byte
	pos  int
	cut  int
	one  bool
}

func (c *chunkReader) Read(p []byte) (int, error) {
	if c.pos >= len(c.data) {
		return 0, io.EOF
	}
	n := len(p)
	if n > len(c.data)-c.pos {
		n = len(c.data) - c.pos
	}
	if c.one && n > 1 {
		n = 1
	}
	if c.cut > c.pos && c.pos+n > c.cut {
		n = c.cut - c.pos
	}
	copy(p, c.data[c.pos:c.pos+n])
	c.pos += n
	return n, nil
}

var modeCounter int64
var allCuts bool

// readerModes: the plain reader, the one-byte reader and (for the files whose content hash is 0 mod 32 - a
// fixed, schedule-independent 1/32 of the cases; in the thorough tier all small files and a sixteenth of the larger
// ones) one reader per cut offset.
func readerModes(r *ev.Run, data []byte) []func() (io.Reader, string) {
	out := []func() (io.Reader, string){
		func() (io.Reader, string) { return bytes.NewReader(data), "" },
		func() (io.Reader, string) {
			return &chunkReader{data: data, one: true}, "/short-reads(1 byte per Read)"
		},
	}
	atomic.AddInt64(&modeCounter, 1)
	hh := fnv.New32a()
	hh.Write(data)
	// thorough: every cut offset for every file of at most 200 bytes and for a fixed sixteenth (by content hash) of
	// the larger ones - all offsets of all two million three-face files would be 10^9 decodes, a quarter of them ran
	// for more than four hours
	if (allCuts && (len(data) <= 200 || hh.Sum32()%16 == 0)) || hh.Sum32()%32 == 0 {
		for k := 1; k < len(data); k++ {
			k := k
			out = append(out, func() (io.Reader, string) {
				return &chunkReader{data: data, cut: k}, fmt.Sprintf("/short-read(one Read stops at offset %d)", k)
			})
		}
	}
	r.AddTo("reader_environments", int64(len(out)))
	r.Eval(len(out) - 1)
	return out
}

func modeKey(mode string) string {
	if mode == "" {
		return ""
	}
	return "/short-read"
}

func checkSTL(r *ev.Run, faces [][3]int) {
	tris := buildTris(faces)
	c := meshCase{"stl", faces}
	data := model3d.EncodeSTL(tris)
	for _, mk := range readerModes(r, data) {
		rd, mode := mk()
		mk := modeKey(mode)
		got, err := model3d.ReadSTL(rd)
		if err != nil {
			r.Violation("stl/read-error"+mk, "ReadSTL(EncodeSTL(m)) failed"+mode+": "+err.Error(), c)
			return
		}
		if len(got) != len(tris) {
			r.Violation("stl/face-count"+mk, fmt.Sprintf("wrote %d faces, read %d%s", len(tris), len(got), mode), c)
			return
		}
		for i := range tris {
			for k := 0; k < 3; k++ {
				w, g := tris[i][k], got[i][k]
				if !bitsEq(g.X, f32(w.X)) || !bitsEq(g.Y, f32(w.Y)) || !bitsEq(g.Z, f32(w.Z)) {
					r.Violation("stl/coordinate"+mk, fmt.Sprintf("face %d vertex %d: wrote %v read %v, want float32 rounding%s", i, k, w, g, mode), c)
					return
				}
			}
		}
	}
}

func checkPLY(r *ev.Run, faces [][3]int) {
	tris := buildTris(faces)
	c := meshCase{"ply", faces}
	data := model3d.EncodePLY(tris, colorOf)
	for _, mk := range readerModes(r, data) {
		rd, mode := mk()
		mk := modeKey(mode)
		got, colors, err := model3d.ReadColorPLY(rd)
		if err != nil {
			key := "ply/read-error"
			if len(faces) == 0 {
				key = "ply/empty-mesh-read-error"
			}
			r.Violation(key+mk, "ReadColorPLY(EncodePLY(m)) failed"+mode+": "+err.Error(), c)
			return
		}
		if len(got) != len(tris) {
			r.Violation("ply/face-count"+mk, fmt.Sprintf("wrote %d faces, read %d%s", len(tris), len(got), mode), c)
			return
		}
		for i := range tris {
			for k := 0; k < 3; k++ {
				w, g := tris[i][k], got[i][k]
				// vertices are de-duplicated with ==, so the sign of zero is that of the first occurrence
				if g.X != f32(w.X) || g.Y != f32(w.Y) || g.Z != f32(w.Z) {
					r.Violation("ply/coordinate"+mk, fmt.Sprintf("face %d vertex %d: wrote %v read %v, want float32 rounding%s", i, k, w, g, mode), c)
					return
				}
				col, ok := colors.Load(g)
				if !ok || col != colorOf(w) {
					r.Violation("ply/colour"+mk, fmt.Sprintf("face %d vertex %d: colour %v (present=%v), want %v%s", i, k, col, ok, colorOf(w), mode), c)
					return
				}
			}
		}
	}
}

func enumMeshes(r *ev.Run, maxLen int) {
	var all [][3]int
	for a := 0; a < 5; a++ {
		for b := 0; b < 5; b++ {
			for c := 0; c < 5; c++ {
				all = append(all, [3]int{a, b, c})
			}
		}
	}
	total := 1
	pow := []int{1}
	for l := 1; l <= maxLen; l++ {
		pow = append(pow, pow[l-1]*len(all))
		total += pow[l]
	}
	ev.Parallel(16, 16, func(w int) {
		for idx := w; idx < total; idx += 16 {
			x := idx
			l := 0
			for x >= pow[l] {
				x -= pow[l]
				l++
			}
			faces := make([][3]int, l)
			for i := 0; i < l; i++ {
				faces[i] = all[x%len(all)]
				x /= len(all)
			}
			checkSTL(r, faces)
			checkPLY(r, faces)
			r.Eval(2)
			shared := false
			for i := 0; i < l && !shared; i++ {
				for j := i + 1; j < l; j++ {
					for _, a := range faces[i] {
						for _, b := range faces[j] {
							if a == b {
								shared = true
							}
						}
					}
				}
			}
			if shared || l == 0 {
				r.NontrivialAdd(1)
			}
		}
	})
	r.Sample(meshCase{"stl+ply", [][3]int{{0, 1, 2}, {2, 1, 4}}})
}

// ---- CSV ----

func checkCSV(r *ev.Run) {
	vals := []float64{0, negZero, 1, 1.0 / 3, 16777217, 1e-45, 3.4e38, 1e-310, -2.5, 1.7976931348623157e308, 5e-324}
	// every pair of values as a segment endpoint coordinate, written in order through the writer
	var rows [][4]float64
	for _, a := range vals {
		for _, b := range vals {
			rows = append(rows, [4]float64{a, b, b, a})
		}
	}
	// single values, four to a row: every power of two of the double range with both neighbours, every power of ten
	// with both neighbours (where the 'G' format changes between positional and exponent notation and the digit count
	// changes), and doubles that are exactly representable in single precision (whose shortest single-precision decimal
	// is NOT their shortest double-precision decimal: 0.1f, pi as a float, the float32 extremes)
	singles := []float64{f32(0.1), f32(math.Pi), f32(1.0 / 3), f32(1e-3), f32(123456.789), math.MaxFloat32, math.SmallestNonzeroFloat32, -f32(0.7),
		0.1, 0.30000000000000004, math.Pi, 9007199254740993, 123456789012345680, math.Nextafter(1, 2), math.Nextafter(1, 0)}
	for k := -1074; k <= 1023; k++ {
		x := math.Ldexp(1, k)
		singles = append(singles, x, math.Nextafter(x, math.Inf(1)), -math.Nextafter(x, 0))
	}
	for e := -323; e <= 308; e++ {
		x, _ := strconv.ParseFloat(fmt.Sprintf("1e%d", e), 64)
		singles = append(singles, x, -math.Nextafter(x, math.Inf(1)), math.Nextafter(x, 0))
	}
	for len(singles)%4 != 0 {
		singles = append(singles, 0)
	}
	for i := 0; i < len(singles); i += 4 {
		rows = append(rows, [4]float64{singles[i], singles[i+1], singles[i+2], singles[i+3]})
	}
	var buf bytes.Buffer
	w := fileformats.NewSegmentCSVWriter(&buf)
	for _, row := range rows {
		if err := w.Write(row); err != nil {
			r.Violation("csv/write-error", err.Error(), nil)
			return
		}
	}
	got, err := model2d.DecodeCSV(buf.Bytes())
	r.Eval(len(rows))
	r.NontrivialAdd(len(rows))
	if err != nil {
		r.Violation("csv/read-error", "DecodeCSV failed: "+err.Error(), nil)
		return
	}
	if len(got) != len(rows) {
		r.Violation("csv/count", fmt.Sprintf("wrote %d segments, read %d", len(rows), len(got)), nil)
		return
	}
	for i, row := range rows {
		g := got[i]
		if !bitsEq(g[0].X, row[0]) || !bitsEq(g[0].Y, row[1]) || !bitsEq(g[1].X, row[2]) || !bitsEq(g[1].Y, row[3]) {
			r.Violation("csv/coordinate", fmt.Sprintf("row %d: wrote %v read %v", i, row, *g), map[string]interface{}{"row": row})
			return
		}
	}
	// through the mesh API (unordered): same multiset
	m := model2d.NewMesh()
	for _, row := range rows[:20] {
		m.Add(&model2d.Segment{model2d.XY(row[0], row[1]), model2d.XY(row[2], row[3])})
	}
	segs, err := model2d.DecodeCSV(model2d.EncodeCSV(m))
	if err != nil || len(segs) != m.NumSegments() {
		r.Violation("csv/mesh-api", fmt.Sprintf("EncodeCSV/DecodeCSV through the mesh API: err=%v count=%d want %d", err, len(segs), m.NumSegments()), nil)
	}
}

// ---- ASCII STL and OFF written to spec by a reference writer ----

func g(x float64) string { return strconv.FormatFloat(x, 'g', -1, 64) }

func checkTextFormats(r *ev.Run) {
	var faces [][3]int
	for a := 0; a < 5; a++ {
		for b := 0; b < 5; b++ {
			faces = append(faces, [3]int{a, b, (a + b + 1) % 5})
		}
	}
	for n := 0; n <= len(faces); n++ {
		for _, nl := range []bool{true, false} {
			tris := buildTris(faces[:n])
			var sb strings.Builder
			sb.WriteString("solid ref\n")
			for _, t := range tris {
				sb.WriteString("facet normal 0 0 1\n  outer loop\n")
				for _, v := range t {
					fmt.Fprintf(&sb, "    vertex %s %s %s\n", g(f32(v.X)), g(f32(v.Y)), g(f32(v.Z)))
				}
				sb.WriteString("  endloop\nendfacet\n")
			}
			sb.WriteString("endsolid ref")
			if nl {
				sb.WriteString("\n")
			}
			r.Eval(1)
			r.NontrivialAdd(1)
			got, err := model3d.ReadSTL(strings.NewReader(sb.String()))
			if err != nil {
				key := "stl-ascii/read-error"
				if n == 0 {
					key = "stl-ascii/empty-read-error"
				}
				r.Violation(key, fmt.Sprintf("%d facets, final newline %v: %v", n, nl, err), map[string]interface{}{"text": sb.String()})
				continue
			}
			if len(got) != n {
				r.Violation("stl-ascii/face-count", fmt.Sprintf("wrote %d facets, read %d", n, len(got)), map[string]interface{}{"text": sb.String()})
				continue
			}
			for i := range tris {
				for k := 0; k < 3; k++ {
					w, x := tris[i][k], got[i][k]
					if !bitsEq(x.X, f32(w.X)) || !bitsEq(x.Y, f32(w.Y)) || !bitsEq(x.Z, f32(w.Z)) {
						r.Violation("stl-ascii/coordinate", fmt.Sprintf("facet %d vertex %d: wrote %v read %v", i, k, w, x), map[string]interface{}{"text": sb.String()})
					}
				}
			}
		}
	}
	// OFF: triangles only (polygon faces are C14's subject), float64 text
	for n := 0; n <= 6; n++ {
		var sb strings.Builder
		nonDeg := [][3]int{{0, 1, 2}, {2, 1, 4}, {3, 4, 0}, {1, 3, 2}, {4, 2, 0}, {0, 3, 1}}[:n]
		fmt.Fprintf(&sb, "OFF\n%d %d 0\n", len(verts), n)
		for _, v := range verts {
			fmt.Fprintf(&sb, "%s %s %s\n", g(v.X), g(v.Y), g(v.Z))
		}
		for _, f := range nonDeg {
			fmt.Fprintf(&sb, "3 %d %d %d\n", f[0], f[1], f[2])
		}
		r.Eval(1)
		r.NontrivialAdd(1)
		or, err := fileformats.NewOFFReader(strings.NewReader(sb.String()))
		if err != nil {
			r.Violation("off/read-error", err.Error(), map[string]interface{}{"text": sb.String()})
			continue
		}
		for i, f := range nonDeg {
			face, err := or.ReadFace()
			if err != nil {
				r.Violation("off/read-error", fmt.Sprintf("face %d: %v", i, err), map[string]interface{}{"text": sb.String()})
				break
			}
			for k := 0; k < 3; k++ {
				w := verts[f[k]]
				if len(face) != 3 || !bitsEq(face[k][0], w.X) || !bitsEq(face[k][1], w.Y) || !bitsEq(face[k][2], w.Z) {
					r.Violation("off/coordinate", fmt.Sprintf("face %d vertex %d: wrote %v read %v", i, k, w, face), map[string]interface{}{"text": sb.String()})
				}
			}
		}
		if _, err := or.ReadFace(); err != io.EOF {
			r.Violation("off/eof", fmt.Sprintf("ReadFace after the last face returned %v, want io.EOF", err), map[string]interface{}{"text": sb.String()})
		}
	}
	// OFF with polygonal faces through the mesh-level reader: every rotation and both windings of convex and
	// concave quads (blunt and sharp darts), a pentagon, an L-shaped hexagon and a comb, in three planes. The
	// triangles read back must use the face's vertices, keep its orientation (Newell normal) and cover its area.
	polys := map[string][][2]float64{
		"rectangle":   {{0, 0}, {3, 0}, {3, 2}, {0, 2}},
		"trapezoid":   {{0, 0}, {4, 0}, {3, 2}, {1, 2}},
		"blunt-dart":  {{0, 0}, {2, 1}, {4, 0}, {2, 3}},
		"sharp-dart":  {{-1, 0}, {0, 1}, {1, 0}, {0, 4}},
		"wide-dart":   {{-4, 0}, {0, 1}, {4, 0}, {0, 2}},
		"pentagon":    {{0, 0}, {2, -1}, {4, 0}, {3, 3}, {1, 3}},
		"concave-pen": {{0, 0}, {4, 0}, {4, 4}, {2, 1}, {0, 4}},
		"L-hexagon":   {{0, 0}, {3, 0}, {3, 1}, {1, 1}, {1, 3}, {0, 3}},
		"comb":        {{0, 0}, {5, 0}, {5, 3}, {4, 3}, {4, 1}, {3, 1}, {3, 3}, {2, 3}, {2, 1}, {1, 1}, {1, 3}, {0, 3}},
	}
	var pnames []string
	for k := range polys {
		pnames = append(pnames, k)
	}
	sort.Strings(pnames)
	planes := [][2]model3d.Coord3D{{model3d.X(1), model3d.Y(1)}, {model3d.XYZ(1, 1, 0), model3d.XYZ(0, 1, 1)}, {model3d.XYZ(2, -1, 1), model3d.XYZ(1, 3, -1)}}
	for _, pn := range pnames {
		base := polys[pn]
		for pi, pl := range planes {
			for rot := 0; rot < len(base); rot++ {
				for _, rev := range []bool{false, true} {
					var poly []model3d.Coord3D
					for i := range base {
						q := base[(i+rot)%len(base)]
						if rev {
							q = base[((rot-i)%len(base)+len(base))%len(base)]
						}
						poly = append(poly, model3d.XYZ(1, -2, 3).Add(pl[0].Scale(q[0])).Add(pl[1].Scale(q[1])))
					}
					var sb strings.Builder
					fmt.Fprintf(&sb, "OFF\n%d 1 0\n", len(poly))
					for _, v := range poly {
						fmt.Fprintf(&sb, "%s %s %s\n", g(v.X), g(v.Y), g(v.Z))
					}
					fmt.Fprintf(&sb, "%d", len(poly))
					for i := range poly {
						fmt.Fprintf(&sb, " %d", i)
					}
					sb.WriteString("\n")
					r.Eval(1)
					r.NontrivialAdd(1)
					cs := map[string]interface{}{"text": sb.String(), "polygon": pn, "plane": pi, "start": rot, "reversed": rev}
					var tris []*model3d.Triangle
					var err error
					if p := ev.Try(func() { tris, err = model3d.ReadOFF(strings.NewReader(sb.String())) }); p != "" {
						r.Violation("off-polygon/panic", fmt.Sprintf("%s (plane %d, start %d, reversed %v): panic: %s", pn, pi, rot, rev, p), cs)
						continue
					}
					if err != nil {
						r.Violation("off-polygon/read-error", fmt.Sprintf("%s (plane %d, start %d, reversed %v): %v", pn, pi, rot, rev, err), cs)
						continue
					}
					// Newell normal and area of the written face
					var nn model3d.Coord3D
					for i := range poly {
						a, b := poly[i], poly[(i+1)%len(poly)]
						nn = nn.Add(a.Cross(b))
					}
					area := nn.Norm() / 2
					isVert := map[model3d.Coord3D]bool{}
					for _, v := range poly {
						isVert[v] = true
					}
					sum, msg := 0.0, ""
					for _, t := range tris {
						for k := 0; k < 3; k++ {
							if !isVert[t[k]] {
								msg = fmt.Sprintf("triangle vertex %v is not a vertex of the face", t[k])
							}
						}
						tn := t[1].Sub(t[0]).Cross(t[2].Sub(t[0]))
						if tn.Norm() < 1e-12 {
							continue // a zero-area triangle adds nothing to the covered face (cf. C14)
						}
						if tn.Dot(nn) <= 0 {
							msg = fmt.Sprintf("triangle %v is wound against the face", *t)
						}
						sum += tn.Norm() / 2
					}
					if msg == "" && !(math.Abs(sum-area) <= 1e-9*(1+area)) {
						msg = fmt.Sprintf("triangles cover area %g, the face has area %g", sum, area)
					}
					if msg != "" {
						r.Violation("off-polygon/faces", fmt.Sprintf("%s (plane %d, start %d, reversed %v): %s", pn, pi, rot, rev, msg), cs)
					}
				}
			}
		}
	}
}

// ---- generic PLY writer/reader ----

type propSpec struct {
	Len  string `json:"len,omitempty"`
	Elem string `json:"elem"`
}

type elemSpec struct {
	Count int        `json:"count"`
	Props []propSpec `json:"props"`
}

type plyCase struct {
	Format int        `json:"format"`
	Elems  []elemSpec `json:"elements"`
}

var scalarTypes = []string{"char", "uchar", "short", "ushort", "int", "uint", "float", "double"}

func scalarValue(t string, i int) fileformats.PLYValue {
	switch t {
	case "char":
		return fileformats.PLYValueInt8{Value: []int8{-128, 127, 0}[i%3]}
	case "uchar":
		return fileformats.PLYValueUint8{Value: []uint8{0, 255, 7}[i%3]}
	case "short":
		return fileformats.PLYValueInt16{Value: []int16{-32768, 32767, 5}[i%3]}
	case "ushort":
		return fileformats.PLYValueUint16{Value: []uint16{0, 65535, 9}[i%3]}
	case "int":
		return fileformats.PLYValueInt32{Value: []int32{math.MinInt32, math.MaxInt32, -1}[i%3]}
	case "uint":
		return fileformats.PLYValueUint32{Value: []uint32{0, math.MaxUint32, 3}[i%3]}
	case "float":
		return fileformats.PLYValueFloat32{Value: []float32{float32(negZero), math.MaxFloat32, math.SmallestNonzeroFloat32, 1.5, 1.0 / 3}[i%5]}
	case "double":
		return fileformats.PLYValueFloat64{Value: []float64{negZero, math.MaxFloat64, math.SmallestNonzeroFloat64, 1.0 / 3, -2.5e-310}[i%5]}
	}
	panic(t)
}

func valueFor(p propSpec, row, pi int) fileformats.PLYValue {
	if p.Len == "" {
		return scalarValue(p.Elem, row+pi)
	}
	n := []int{0, 1, 3}[(row+pi)%3]
	var ln fileformats.PLYValue
	if p.Len == "uchar" {
		ln = fileformats.PLYValueUint8{Value: uint8(n)}
	} else {
		ln = fileformats.PLYValueInt32{Value: int32(n)}
	}
	vals := make([]fileformats.PLYValue, n)
	for i := range vals {
		vals[i] = scalarValue(p.Elem, row+pi+i)
	}
	return fileformats.PLYValueList{Length: ln, Values: vals}
}

func valueString(v fileformats.PLYValue) string {
	switch x := v.(type) {
	case fileformats.PLYValueFloat32:
		return fmt.Sprintf("f32:%08x", math.Float32bits(x.Value))
	case fileformats.PLYValueFloat64:
		return fmt.Sprintf("f64:%016x", math.Float64bits(x.Value))
	case fileformats.PLYValueList:
		s := "list(" + valueString(x.Length) + ")["
		for _, e := range x.Values {
			s += valueString(e) + ","
		}
		return s + "]"
	}
	return fmt.Sprintf("%T:%v", v, v)
}

func checkGenericPLY(r *ev.Run, c plyCase) {
	r.Eval(1)
	h := &fileformats.PLYHeader{Format: fileformats.PLYFormat(c.Format)}
	var rows [][]fileformats.PLYValue
	var rowElem []int
	for ei, e := range c.Elems {
		el := &fileformats.PLYElement{Name: fmt.Sprintf("el%d", ei), Count: int64(e.Count)}
		for pi, p := range e.Props {
			el.Properties = append(el.Properties, &fileformats.PLYProperty{Name: fmt.Sprintf("p%d", pi), LenType: fileformats.PLYPropertyType(p.Len), ElemType: fileformats.PLYPropertyType(p.Elem)})
		}
		h.Elements = append(h.Elements, el)
		for row := 0; row < e.Count; row++ {
			var vals []fileformats.PLYValue
			for pi, p := range e.Props {
				vals = append(vals, valueFor(p, row, pi))
			}
			rows = append(rows, vals)
			rowElem = append(rowElem, ei)
		}
	}
	zeroCount := false
	for _, e := range c.Elems {
		if e.Count == 0 {
			zeroCount = true
		}
	}
	if zeroCount {
		r.NontrivialAdd(1)
	}
	var buf bytes.Buffer
	w, err := fileformats.NewPLYWriter(&buf, h)
	if err != nil {
		r.Violation("plygeneric/writer-error", err.Error(), c)
		return
	}
	for i, row := range rows {
		if err := w.Write(row); err != nil {
			r.Violation("plygeneric/writer-error", fmt.Sprintf("row %d: %v", i, err), c)
			return
		}
	}
	suffix := ""
	if zeroCount {
		suffix = "/zero-count-element"
	}
	for _, mk := range readerModes(r, buf.Bytes()) {
		src, mode := mk()
		suffix := suffix + modeKey(mode)
		rd, err := fileformats.NewPLYReader(src)
		if err != nil {
			r.Violation("plygeneric/reader-header-error"+modeKey(mode), err.Error()+mode, c)
			return
		}
		for i, row := range rows {
			vals, el, err := rd.Read()
			if err != nil {
				r.Violation("plygeneric/row-missing"+suffix, fmt.Sprintf("row %d of %d: %v (written bytes: %d)%s", i, len(rows), err, buf.Len(), mode), c)
				return
			}
			if el != rd.Header().Elements[rowElem[i]] {
				r.Violation("plygeneric/wrong-element"+suffix, fmt.Sprintf("row %d attributed to element %s, want el%d%s", i, el.Name, rowElem[i], mode), c)
				return
			}
			if len(vals) != len(row) {
				r.Violation("plygeneric/value-count"+suffix, fmt.Sprintf("row %d: %d values, want %d%s", i, len(vals), len(row), mode), c)
				return
			}
			for k := range row {
				if valueString(vals[k]) != valueString(row[k]) {
					r.Violation("plygeneric/value/"+c.Elems[rowElem[i]].Props[k].Elem+suffix, fmt.Sprintf("row %d value %d: wrote %s read %s%s", i, k, valueString(row[k]), valueString(vals[k]), mode), c)
					return
				}
			}
		}
		if _, _, err := rd.Read(); err != io.EOF {
			r.Violation("plygeneric/eof"+suffix, fmt.Sprintf("Read after the last row returned %v, want io.EOF%s", err, mode), c)
			return
		}
	}
}

func enumGenericPLY(r *ev.Run, thorough bool) {
	var props []propSpec
	for _, t := range scalarTypes {
		props = append(props, propSpec{"", t})
	}
	for _, l := range []string{"uchar", "int"} {
		for _, e := range []string{"int", "float"} {
			props = append(props, propSpec{l, e})
		}
	}
	var lists1, lists2 [][]propSpec
	for _, p := range props {
		lists1 = append(lists1, []propSpec{p})
		for _, q := range props {
			lists2 = append(lists2, []propSpec{p, q})
		}
	}
	single := append(append([][]propSpec{}, lists1...), lists2...)
	var cases []plyCase
	for f := 0; f < 3; f++ {
		for _, pl := range single {
			for _, cnt := range []int{0, 1, 2} {
				cases = append(cases, plyCase{f, []elemSpec{{cnt, pl}}})
			}
		}
		second := lists1
		if thorough {
			second = single
		}
		for _, p1 := range lists1 {
			for _, c1 := range []int{0, 1, 2} {
				for _, p2 := range second {
					for _, c2 := range []int{0, 1, 2} {
						cases = append(cases, plyCase{f, []elemSpec{{c1, p1}, {c2, p2}}})
					}
				}
			}
		}
		// three elements with every zero/non-zero count pattern
		for mask := 0; mask < 8; mask++ {
			var es []elemSpec
			for k := 0; k < 3; k++ {
				cnt := 0
				if mask&(1<<uint(k)) != 0 {
					cnt = 2
				}
				es = append(es, elemSpec{cnt, []propSpec{props[(k*5)%len(props)], props[8+k%4]}})
			}
			cases = append(cases, plyCase{f, es})
		}
	}
	// elements that declare rows but no properties: legal in the text format (each row is an empty line), rejected by
	// the reader in the binary formats (a row of no bytes cannot be told from no row). Alone, first, last, in the
	// middle and twice in a row; without rows in every format
	for f := 0; f < 3; f++ {
		for _, cnt := range []int{0, 1, 2, 3} {
			if cnt > 0 && fileformats.PLYFormat(f) != fileformats.PLYFormatASCII {
				continue
			}
			none := elemSpec{cnt, nil}
			for _, pl := range [][]propSpec{lists1[0], lists1[len(lists1)-1], lists2[7]} {
				for _, c2 := range []int{0, 2} {
					x := elemSpec{c2, pl}
					cases = append(cases, plyCase{f, []elemSpec{none, x}}, plyCase{f, []elemSpec{x, none}}, plyCase{f, []elemSpec{x, none, x}}, plyCase{f, []elemSpec{x, none, none, x}})
				}
			}
			cases = append(cases, plyCase{f, []elemSpec{none}}, plyCase{f, []elemSpec{none, none}})
		}
	}
	ev.Parallel(len(cases), 16, func(i int) { checkGenericPLY(r, cases[i]) })
	r.Sample(cases[len(cases)/2])
	r.Set("generic_ply_cases", len(cases))
}

// ---- OBJ / MTL / 3MF structures ----

func checkBuilders(r *ev.Run) {
	var faces [][3]int
	for a := 0; a < 5; a++ {
		for b := 0; b < 5; b++ {
			faces = append(faces, [3]int{a, b, (a + 2*b + 1) % 5})
		}
	}
	for n := 0; n <= len(faces); n++ {
		tris := buildTris(faces[:n])
		r.Eval(3)
		r.NontrivialAdd(1)
		c := meshCase{"builders", faces[:n]}
		colF := func(c model3d.Coord3D) [3]float64 { return [3]float64{f32(c.X) * 0, 0.5, 1} }
		obj := model3d.BuildVertexColorOBJ(tris, colF)
		checkOBJ(r, "BuildVertexColorOBJ", obj, tris, c)
		if len(obj.VertexColors) != len(obj.Vertices) {
			r.Violation("obj/BuildVertexColorOBJ/colours", "one colour per vertex expected", c)
		}
		triCol := func(t *model3d.Triangle) [3]float64 {
			// colour depends on the first vertex only: few distinct colours, several faces each
			return [3]float64{float64(int(math.Abs(t[0].Z*3)) % 3), 0.25, 0.5}
		}
		o2, mtl := model3d.BuildMaterialOBJ(tris, triCol)
		checkOBJ(r, "BuildMaterialOBJ", o2, tris, c)
		distinct := map[[3]float32]bool{}
		for _, t := range tris {
			cc := triCol(t)
			distinct[[3]float32{float32(cc[0]), float32(cc[1]), float32(cc[2])}] = true
		}
		if len(mtl.Materials) != len(distinct) {
			r.Violation("obj/BuildMaterialOBJ/materials", fmt.Sprintf("%d materials for %d distinct colours", len(mtl.Materials), len(distinct)), c)
		}
		names := map[string]bool{}
		for _, m := range mtl.Materials {
			names[m.Name] = true
		}
		for _, g := range o2.FaceGroups {
			if len(g.Faces) > 0 && !names[g.Material] {
				r.Violation("obj/BuildMaterialOBJ/unknown-material", "face group references material "+g.Material, c)
			}
		}
		checkOBJFiles(r, tris, c)
		// the io.Writer forms of the encoders that the round-trip stages judge
		var wb bytes.Buffer
		if err := model3d.WriteSTL(&wb, tris); err != nil || !bytes.Equal(wb.Bytes(), model3d.EncodeSTL(tris)) {
			r.Violation("writer/WriteSTL", fmt.Sprintf("WriteSTL (error %v) does not write the bytes of EncodeSTL", err), c)
		}
		wb.Reset()
		if err := model3d.WritePLY(&wb, tris, colorOf); err != nil || !bytes.Equal(wb.Bytes(), model3d.EncodePLY(tris, colorOf)) {
			r.Violation("writer/WritePLY", fmt.Sprintf("WritePLY (error %v) does not write the bytes of EncodePLY", err), c)
		}
		var buf bytes.Buffer
		if err := model3d.Write3MF(&buf, fileformats.ThreeMFUnitMillimeter, tris); err != nil {
			r.Violation("3mf/write-error", err.Error(), c)
		} else {
			check3MF(r, "Write3MF", buf.Bytes(), string(fileformats.ThreeMFUnitMillimeter), tris, c)
		}
		// the encoder below it, given an explicit vertex list (with an unused vertex) and index triples
		var vl [][3]float64
		for _, v := range verts {
			vl = append(vl, v.Array())
		}
		vl = append(vl, [3]float64{7, 8, 9})
		buf.Reset()
		if err := fileformats.Write3MFMesh(&buf, fileformats.ThreeMFUnitInch, vl, faces[:n]); err != nil {
			r.Violation("3mf/write-error", err.Error(), c)
		} else {
			check3MF(r, "Write3MFMesh", buf.Bytes(), "inch", tris, c)
		}
	}
}

// check3MF opens the package, reads 3D/3dmodel.model and requires: the unit that was asked for, one object that the
// build section refers to, every index in range, and the written faces (resolved to coordinates) equal to the given
// faces as a multiset, corner order kept up to rotation. Coordinates are written with 32 decimals, so they are
// compared to 1e-31 absolute / 1e-15 relative.
func check3MF(r *ev.Run, name string, data []byte, unit string, tris []*model3d.Triangle, c meshCase) {
	viol := func(kind, msg string) { r.Violation("3mf/"+name+"/"+kind, msg, c) }
	zr, err := zip.NewReader(bytes.NewReader(data), int64(len(data)))
	if err != nil {
		viol("not-a-zip", err.Error())
		return
	}
	files := map[string][]byte{}
	for _, f := range zr.File {
		rc, err := f.Open()
		if err != nil {
			viol("unreadable-part", f.Name+": "+err.Error())
			return
		}
		b, err := io.ReadAll(rc)
		rc.Close()
		if err != nil {
			viol("unreadable-part", f.Name+": "+err.Error())
			return
		}
		if _, dup := files[f.Name]; dup {
			viol("duplicate-part", f.Name)
			return
		}
		files[f.Name] = b
	}
	for _, need := range []string{"3D/3dmodel.model", "_rels/.rels", "[Content_Types].xml"} {
		if _, ok := files[need]; !ok {
			viol("missing-part", need)
			return
		}
	}
	if !bytes.Contains(files["_rels/.rels"], []byte("/3D/3dmodel.model")) {
		viol("relationship", "the package relationships do not point at /3D/3dmodel.model")
	}
	var model struct {
		Unit    string `xml:"unit,attr"`
		Objects []struct {
			ID       string `xml:"id,attr"`
			Vertices []struct {
				X string `xml:"x,attr"`
				Y string `xml:"y,attr"`
				Z string `xml:"z,attr"`
			} `xml:"mesh>vertices>vertex"`
			Triangles []struct {
				V1 string `xml:"v1,attr"`
				V2 string `xml:"v2,attr"`
				V3 string `xml:"v3,attr"`
			} `xml:"mesh>triangles>triangle"`
		} `xml:"resources>object"`
		Items []struct {
			ObjectID string `xml:"objectid,attr"`
		} `xml:"build>item"`
	}
	if err := xml.Unmarshal(files["3D/3dmodel.model"], &model); err != nil {
		viol("model-xml", err.Error())
		return
	}
	if model.Unit != unit {
		viol("unit", fmt.Sprintf("unit %q written, %q asked for", model.Unit, unit))
	}
	if len(model.Objects) != 1 || len(model.Items) != 1 || model.Items[0].ObjectID != model.Objects[0].ID {
		viol("build", fmt.Sprintf("%d objects, %d build items; the build must refer to the one object", len(model.Objects), len(model.Items)))
		return
	}
	o := model.Objects[0]
	vs := make([][3]float64, len(o.Vertices))
	for i, v := range o.Vertices {
		for k, str := range []string{v.X, v.Y, v.Z} {
			f, err := strconv.ParseFloat(str, 64)
			if err != nil || math.IsNaN(f) || math.IsInf(f, 0) {
				viol("vertex-number", fmt.Sprintf("vertex %d: %q", i, str))
				return
			}
			vs[i][k] = f
		}
	}
	if len(o.Triangles) != len(tris) {
		viol("face-count", fmt.Sprintf("%d faces written, %d given", len(o.Triangles), len(tris)))
		return
	}
	written := make([][3][3]float64, len(o.Triangles))
	for i, t := range o.Triangles {
		for k, str := range []string{t.V1, t.V2, t.V3} {
			idx, err := strconv.Atoi(str)
			if err != nil || idx < 0 || idx >= len(vs) {
				viol("index-range", fmt.Sprintf("face %d: vertex index %q with %d vertices", i, str, len(vs)))
				return
			}
			written[i][k] = vs[idx]
		}
	}
	near := func(a, b float64) bool { return math.Abs(a-b) <= 1e-31+1e-15*math.Abs(b) }
	same := func(w [3][3]float64, t *model3d.Triangle) bool {
		for rot := 0; rot < 3; rot++ {
			ok := true
			for k := 0; k < 3 && ok; k++ {
				a, b := w[(k+rot)%3], t[k].Array()
				ok = near(a[0], b[0]) && near(a[1], b[1]) && near(a[2], b[2])
			}
			if ok {
				return true
			}
		}
		return false
	}
	used := make([]bool, len(written))
	for _, t := range tris {
		found := false
		for i := range written {
			if !used[i] && same(written[i], t) {
				used[i], found = true, true
				break
			}
		}
		if !found {
			viol("faces", fmt.Sprintf("face %v is not among the written faces (or fewer times than given)", *t))
			return
		}
	}
}

// checkBuildersSignedZero: the builders de-duplicate vertices by value, and 0 == -0. Every sequence of up to four
// faces over vertices that occur with zeros of either sign (the same point written three ways, and a new vertex after
// each switch of sign): every face must still be referenced once, with in-range indices, at its own coordinates
// (compared by value, so either sign of a zero is accepted in the output).
func checkBuildersSignedZero(r *ev.Run) {
	nz := negZero
	a, a1, a2 := model3d.XYZ(0, 0, 0), model3d.XYZ(0, 0, nz), model3d.XYZ(nz, nz, 0)
	b, c0, c1, d, e := model3d.XYZ(1, 0, 0), model3d.XYZ(0, 1, 0), model3d.XYZ(nz, 1, 0), model3d.XYZ(0, 0, 1), model3d.XYZ(2, nz, 1)
	pool := []*model3d.Triangle{{a, b, c0}, {a1, b, d}, {a2, c1, d}, {b, c1, d}, {a, c0, e}, {a1, e, b}}
	var seqs [][]int
	var rec func(cur []int)
	rec = func(cur []int) {
		if len(cur) > 0 {
			seqs = append(seqs, append([]int{}, cur...))
		}
		if len(cur) == 4 {
			return
		}
		for i := range pool {
			rec(append(cur, i))
		}
	}
	rec(nil)
	for _, sq := range seqs {
		var tris []*model3d.Triangle
		var faces [][3]int
		for _, i := range sq {
			t := *pool[i]
			tris = append(tris, &t)
			faces = append(faces, [3]int{i, i, i})
		}
		r.Eval(2)
		c := meshCase{"builders-signed-zero (entries are indices into the face pool)", faces}
		checkOBJ(r, "BuildVertexColorOBJ", model3d.BuildVertexColorOBJ(tris, func(model3d.Coord3D) [3]float64 { return [3]float64{0.5, 0.5, 1} }), tris, c)
		o2, _ := model3d.BuildMaterialOBJ(tris, func(t *model3d.Triangle) [3]float64 { return [3]float64{math.Abs(t[1].X), 0.25, 0.5} })
		checkOBJ(r, "BuildMaterialOBJ", o2, tris, c)
	}
	r.NontrivialAdd(len(seqs))
	r.Set("builder_signed_zero_sequences", len(seqs))
}

func checkOBJ(r *ev.Run, name string, o *fileformats.OBJFile, tris []*model3d.Triangle, c meshCase) {
	// faces are compared by value: adding 0 turns -0 into +0 and changes nothing else
	pz := func(a [3]float64) [3]float64 { return [3]float64{a[0] + 0, a[1] + 0, a[2] + 0} }
	want := map[string]int{}
	for _, t := range tris {
		want[fmt.Sprint(pz(t[0].Array()), pz(t[1].Array()), pz(t[2].Array()))]++
	}
	got := map[string]int{}
	n := 0
	for _, g := range o.FaceGroups {
		for _, f := range g.Faces {
			n++
			var vs [3][3]float64
			for k := 0; k < 3; k++ {
				idx := f[k][0]
				if idx < 1 || idx > len(o.Vertices) {
					r.Violation("obj/"+name+"/index-range", fmt.Sprintf("vertex index %d with %d vertices", idx, len(o.Vertices)), c)
					return
				}
				vs[k] = o.Vertices[idx-1]
			}
			got[fmt.Sprint(pz(vs[0]), pz(vs[1]), pz(vs[2]))]++
		}
	}
	if n != len(tris) {
		r.Violation("obj/"+name+"/face-count", fmt.Sprintf("%d faces referenced, mesh has %d", n, len(tris)), c)
		return
	}
	for k, v := range want {
		if got[k] != v {
			r.Violation("obj/"+name+"/faces", fmt.Sprintf("face %s referenced %d times, want %d", k, got[k], v), c)
			return
		}
	}
}

func main() {
	r := ev.Start("C15", "exploration")
	if r.Replay != "" {
		var raw map[string]json.RawMessage
		r.LoadReplay(&raw)
		if _, ok := raw["elements"]; ok {
			var c plyCase
			r.LoadReplay(&c)
			checkGenericPLY(r, c)
		} else if _, ok := raw["faces"]; ok {
			var c meshCase
			r.LoadReplay(&c)
			checkSTL(r, c.Faces)
			checkPLY(r, c.Faces)
		} else {
			checkCSV(r)
			checkTextFormats(r)
			checkNumerals(r)
		}
		r.NontrivialAdd(2)
		r.Sample("replay")
		r.Finish()
	}
	r.Rule("all face lists of length <= 2 (quick) / <= 3 (thorough) over 5 vertices covering the coordinate alphabet {0,-0,1,1/3,16777217,1e-45,3.4e38,1e-310,-2.5} through binary STL and colour PLY; all value pairs through segment CSV; ASCII STL/OFF from a reference writer; " +
		"generic PLY: 3 formats x every header with 1 element of <= 2 properties (12 property types incl. lists) and every 2-element header (<= 2 properties each in the thorough tier), counts {0,1,2}, boundary values per type; OBJ/MTL/3MF builders on 26 face lists. " +
		"non-trivial = meshes with a shared vertex or empty, PLY headers with a zero-count element; distinct by construction")
	r.Assume("precision: STL/PLY coordinates are compared bit-for-bit with float32(x) of the original (PLY: == because vertices are de-duplicated with ==), CSV/OFF with the float64")
	maxLen := 2
	if r.Thorough() {
		maxLen = 3
		allCuts = true
	}
	r.Isolate("meshes", func() { enumMeshes(r, maxLen) })
	// the same enumeration over vertices that nearly coincide: equal up to the sign of a zero, one float32
	// subnormal apart, and 3e-9 apart near 0.001 (distinct float32 values closer than any fixed merging grid)
	r.Isolate("meshes-near-coincident", func() {
		verts = []model3d.Coord3D{
			{X: 0, Y: negZero, Z: 1},
			{X: 1e-45, Y: 0, Z: 1},
			{X: 0.001, Y: 0.001, Z: 0.001},
			{X: 0.001 + 3e-9, Y: 0.001, Z: 0.001},
			{X: 1.0 / (1 << 30), Y: -1.0 / (1 << 31), Z: 3.0 / (1 << 32)},
		}
		enumMeshes(r, maxLen)
	})
	r.Isolate("csv-text", func() { checkCSV(r); checkTextFormats(r); checkNumerals(r) })
	r.Isolate("generic-ply", func() { enumGenericPLY(r, r.Thorough()) })
	r.Isolate("builders", func() { checkBuilders(r); checkBuildersSignedZero(r) })
	r.Finish()
}

// ---- decimal numerals in the text formats ----
//
// A text file may spell a coordinate with any number of digits. Reading it must give the single-precision value
// nearest to the decimal number (one rounding). The numerals here sit just above and just below the midpoint of two
// adjacent float32 values - closer to it than half a double-precision ulp, so that a reader which first rounds to
// double and then to single lands on the midpoint and resolves the tie the wrong way - next to 1, to 2^24, to a
// small normal, a subnormal and the largest finite value; the expected value is computed with math/big.
func checkNumerals(r *ev.Run) {
	bases := []float32{1, 1 + 1.0/(1<<23), 0.5, 16777216, 16777218, 0.1, 3.1415927, 1e-3, 1.17549435e-38, 1e-40, 3.0e38, -1, -0.75, 100000.5}
	var numerals []string
	for _, x := range bases {
		next := math.Nextafter32(x, float32(math.Inf(1)))
		if x < 0 {
			next = math.Nextafter32(x, float32(math.Inf(-1)))
		}
		mid := new(big.Float).SetPrec(300).SetFloat64(float64(x))
		mid.Add(mid, new(big.Float).SetPrec(300).SetFloat64(float64(next)))
		mid.Quo(mid, big.NewFloat(2))
		exact := mid.Text('f', 200)
		exact = strings.TrimRight(exact, "0")
		if strings.HasSuffix(exact, ".") {
			exact += "0"
		}
		numerals = append(numerals, exact+"1") // just beyond the midpoint (away from zero)
		// just short of the midpoint: last digit lowered by one, then 9
		b := []byte(exact)
		for i := len(b) - 1; i >= 0; i-- {
			if b[i] >= '1' && b[i] <= '9' {
				b[i]--
				numerals = append(numerals, string(b)+"9")
				break
			}
		}
		numerals = append(numerals, exact) // the tie itself: to even
		numerals = append(numerals, strconv.FormatFloat(float64(x), 'g', 17, 64), strconv.FormatFloat(float64(x), 'e', 20, 64), strconv.FormatFloat(float64(x), 'g', -1, 32))
	}
	want := func(tok string) float64 {
		f, _, err := big.ParseFloat(tok, 10, 400, big.ToNearestEven)
		if err != nil {
			panic(err)
		}
		v, _ := f.Float32()
		return float64(v)
	}
	for len(numerals)%9 != 0 {
		numerals = append(numerals, "0")
	}
	// ASCII STL: nine numerals per facet
	var sb strings.Builder
	sb.WriteString("solid numerals\n")
	for i := 0; i < len(numerals); i += 9 {
		sb.WriteString("facet normal 0 0 1\n  outer loop\n")
		for k := 0; k < 3; k++ {
			fmt.Fprintf(&sb, "    vertex %s %s %s\n", numerals[i+3*k], numerals[i+3*k+1], numerals[i+3*k+2])
		}
		sb.WriteString("  endloop\nendfacet\n")
	}
	sb.WriteString("endsolid numerals\n")
	r.Eval(len(numerals))
	r.NontrivialAdd(len(numerals))
	got, err := model3d.ReadSTL(strings.NewReader(sb.String()))
	if err != nil || len(got) != len(numerals)/9 {
		r.Violation("stl-ascii/numerals-read-error", fmt.Sprintf("reading %d facets of long numerals: %d facets, err %v", len(numerals)/9, len(got), err), map[string]interface{}{"text": sb.String()})
	} else {
		for i, t := range got {
			for k := 0; k < 3; k++ {
				for c, v := range t[k].Array() {
					tok := numerals[i*9+3*k+c]
					if w := want(tok); !bitsEq(v+0, w+0) {
						r.Violation("stl-ascii/numeral", fmt.Sprintf("the numeral %s was read as %v (bits %x); the nearest single-precision value is %v (bits %x)", tok, v, math.Float32bits(float32(v)), w, math.Float32bits(float32(w))), map[string]interface{}{"numeral": tok})
						return
					}
				}
			}
		}
	}
	// ASCII PLY: one float property per row
	var pb strings.Builder
	fmt.Fprintf(&pb, "ply\nformat ascii 1.0\nelement sample %d\nproperty float v\nend_header\n", len(numerals))
	for _, tok := range numerals {
		pb.WriteString(tok + "\n")
	}
	pr, err := fileformats.NewPLYReader(strings.NewReader(pb.String()))
	if err != nil {
		r.Violation("ply-ascii/numerals-read-error", err.Error(), nil)
		return
	}
	for _, tok := range numerals {
		row, _, err := pr.Read()
		if err != nil || len(row) != 1 {
			r.Violation("ply-ascii/numerals-read-error", fmt.Sprintf("numeral %s: %v", tok, err), map[string]interface{}{"numeral": tok})
			return
		}
		v, ok := row[0].(fileformats.PLYValueFloat32)
		if !ok {
			r.Violation("ply-ascii/numerals-read-error", fmt.Sprintf("numeral %s decoded as %T", tok, row[0]), nil)
			return
		}
		if w := want(tok); !bitsEq(float64(v.Value)+0, w+0) {
			r.Violation("ply-ascii/numeral", fmt.Sprintf("the numeral %s was read as %v; the nearest single-precision value is %v", tok, v.Value, w), map[string]interface{}{"numeral": tok})
			return
		}
	}
}
