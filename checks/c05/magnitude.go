package main

// The same linear maps at every overall magnitude: a well-conditioned matrix times s has determinant ~ s^3 (s^2 in 2D),
// tiny in absolute terms for small s although nothing about the map is ill-conditioned. T^-1 T = T T^-1 = id must hold
// relative to the size of the points, and a wrapped solid must answer at T(p) as the original does at p.

import (
	"fmt"
	"math"

	"github.com/unixpickle/model3d/model2d"
	"github.com/unixpickle/model3d/model3d"

	"verif/lib/ev"
)

func magnitudeStage(r *ev.Run) {
	bases := []model3d.Matrix3{{2, 0.3, -0.1, -0.4, 1.5, 0.2, 0.1, 0.7, -1.2}, {0, 1, 0, -1, 0, 0, 0, 0, 1}, {1, 0, 0, 0.5, 1, 0, 0, -0.25, 1}}
	scales := []float64{10, 1, 0.1, 0.01, 0.002, 0.001, -0.001, 1e-5, 1e-8, 1e4}
	sph := &model3d.Sphere{Center: model3d.XYZ(0.3, -0.2, 0.1), Radius: 1}
	var pts []model3d.Coord3D
	for i := -2; i <= 2; i++ {
		for j := -2; j <= 2; j++ {
			for k := -2; k <= 2; k++ {
				pts = append(pts, model3d.XYZ(float64(i)*0.55+0.013, float64(j)*0.55-0.007, float64(k)*0.55+0.009))
			}
		}
	}
	for bi, b := range bases {
		for _, s := range scales {
			m := b
			for i := range m {
				m[i] *= s
			}
			name := fmt.Sprintf("Matrix3(base%d x %g)", bi, s)
			t := &model3d.Matrix3Transform{Matrix: &m}
			inv := t.Inverse()
			ws := model3d.TransformSolid(t, sph)
			for _, p := range pts {
				r.Eval(1)
				c := tcase{Transform: name, Point: []float64{p.X, p.Y, p.Z}}
				q := t.Apply(p)
				if back := inv.Apply(q); !(back.Dist(p) <= 1e-9*(1+p.Norm())) {
					r.Violation("magnitude/inverse", fmt.Sprintf("%s: T^-1(T(%v)) = %v", name, p, back), c)
					break
				}
				if fwd := t.Apply(inv.Apply(q)); !(fwd.Dist(q) <= 1e-9*(math.Abs(s)+q.Norm())) {
					r.Violation("magnitude/inverse", fmt.Sprintf("%s: T(T^-1(%v)) = %v", name, q, fwd), c)
					break
				}
				if d := math.Abs(p.Dist(sph.Center) - sph.Radius); d > 1e-6 && ws.Contains(q) != sph.Contains(p) {
					r.Violation("magnitude/wrapped-solid", fmt.Sprintf("%s: the wrapped sphere answers %v at the image of %v, the sphere answers %v there", name, ws.Contains(q), p, sph.Contains(p)), c)
					break
				}
			}
			r.NontrivialAdd(1)
		}
	}
	bases2 := []model2d.Matrix2{{2, 0.3, -0.4, 1.5}, {0, 1, -1, 0}, {1, 0, 0.5, 1}}
	circ := &model2d.Circle{Center: model2d.XY(0.3, -0.2), Radius: 1}
	for bi, b := range bases2 {
		for _, s := range scales {
			m := b
			for i := range m {
				m[i] *= s
			}
			name := fmt.Sprintf("Matrix2(base%d x %g)", bi, s)
			t := &model2d.Matrix2Transform{Matrix: &m}
			inv := t.Inverse()
			ws := model2d.TransformSolid(t, circ)
			for i := -3; i <= 3; i++ {
				for j := -3; j <= 3; j++ {
					p := model2d.XY(float64(i)*0.45+0.013, float64(j)*0.45-0.007)
					r.Eval(1)
					c := tcase{Transform: name, Point: []float64{p.X, p.Y}}
					q := t.Apply(p)
					if back := inv.Apply(q); !(back.Dist(p) <= 1e-9*(1+p.Norm())) {
						r.Violation("magnitude/inverse", fmt.Sprintf("%s: T^-1(T(%v)) = %v", name, p, back), c)
					}
					if d := math.Abs(p.Dist(circ.Center) - circ.Radius); d > 1e-6 && ws.Contains(q) != circ.Contains(p) {
						r.Violation("magnitude/wrapped-solid", fmt.Sprintf("%s: the wrapped circle answers %v at the image of %v, the circle answers %v there", name, ws.Contains(q), p, circ.Contains(p)), c)
					}
				}
			}
			r.NontrivialAdd(1)
		}
	}
}
