// C05: transforms invert, and transformed objects are images of the original.
// Every transform of an alphabet and every composition up to length 2 (quick)
// / 3 (thorough) on point lattices; wrapped solids, SDFs, colliders and
// metaballs are compared with the original at the pulled-back point.
package main

import (
	"fmt"
	"math"
	"sort"

	"github.com/unixpickle/model3d/model2d"
	"github.com/unixpickle/model3d/model3d"
	"github.com/unixpickle/model3d/toolbox3d"

	"verif/lib/ev"
	"verif/lib/ref"
)

type tcase struct {
	Transform string    `json:"transform"`
	Object    string    `json:"object,omitempty"`
	Point     []float64 `json:"point,omitempty"`
	Dir       []float64 `json:"direction,omitempty"`
}

type named struct {
	name string
	t    model3d.Transform
	tol  float64
}

func base3() []named {
	sq := toolbox3d.NewSmartSqueeze(toolbox3d.AxisZ, 0.1, 0.2, 3)
	sq.AddUnsqueezable(-0.5, 0.1)
	sq.AddPinch(0.9)
	bounds := model3d.NewRect(model3d.XYZ(-2, -2, -2), model3d.XYZ(2, 2, 2))
	return []named{
		{"Translate(1,-2,0.5)", &model3d.Translate{Offset: model3d.XYZ(1, -2, 0.5)}, 1e-9},
		{"Translate(0,0,3)", &model3d.Translate{Offset: model3d.XYZ(0, 0, 3)}, 1e-9},
		{"Scale(0.5)", &model3d.Scale{Scale: 0.5}, 1e-9},
		{"Scale(2)", &model3d.Scale{Scale: 2}, 1e-9},
		{"VecScale(2,1,0.5)", &model3d.VecScale{Scale: model3d.XYZ(2, 1, 0.5)}, 1e-9},
		{"VecScale(-1,2,1)", &model3d.VecScale{Scale: model3d.XYZ(-1, 2, 1)}, 1e-9},
		{"Matrix3(shear)", &model3d.Matrix3Transform{Matrix: &model3d.Matrix3{1, 0, 0, 0.5, 1, 0, 0, -0.25, 1}}, 1e-9},
		{"Matrix3(general)", &model3d.Matrix3Transform{Matrix: &model3d.Matrix3{2, 0.3, -0.1, -0.4, 1.5, 0.2, 0.1, 0.7, -1.2}}, 1e-9},
		{"Rotation(X,pi/2)", model3d.Rotation(model3d.X(1), math.Pi/2), 1e-9},
		{"Rotation(Z,0.7)", model3d.Rotation(model3d.Z(1), 0.7), 1e-9},
		{"Rotation(diag,2.1)", model3d.Rotation(model3d.XYZ(1, 1, 1).Normalize(), 2.1), 1e-9},
		{"Rotation(generic,-1.3)", model3d.Rotation(model3d.XYZ(0.3, -0.2, 0.9).Normalize(), -1.3), 1e-9},
		{"Rotation(Y,pi)", model3d.Rotation(model3d.Y(1), math.Pi), 1e-9},
		{"AxisSqueeze(Z,0.2..1.2,0.1)", &toolbox3d.AxisSqueeze{Axis: toolbox3d.AxisZ, Min: 0.2, Max: 1.2, Ratio: 0.1}, 1e-9},
		{"AxisSqueeze(X,-1..0.5,3)", &toolbox3d.AxisSqueeze{Axis: toolbox3d.AxisX, Min: -1, Max: 0.5, Ratio: 3}, 1e-9},
		{"AxisPinch(Y,-1..1,3)", &toolbox3d.AxisPinch{Axis: toolbox3d.AxisY, Min: -1, Max: 1, Power: 3}, 1e-7},
		{"AxisPinch(Z,0..2,1/3)", &toolbox3d.AxisPinch{Axis: toolbox3d.AxisZ, Min: 0, Max: 2, Power: 1.0 / 3}, 1e-7},
		{"SmartSqueeze(Z).Transform", sq.Transform(bounds), 1e-7},
	}
}

func isDist(t model3d.Transform) (model3d.DistTransform, bool) {
	dt, ok := t.(model3d.DistTransform)
	if !ok {
		return nil, false
	}
	if j, ok := t.(model3d.JoinedTransform); ok {
		for _, x := range j {
			if _, ok := isDist(x); !ok {
				return nil, false
			}
		}
	}
	return dt, true
}

func lattice3(n int, half float64) []model3d.Coord3D {
	var out []model3d.Coord3D
	for i := 0; i < n; i++ {
		for j := 0; j < n; j++ {
			for k := 0; k < n; k++ {
				f := func(t int) float64 { return (float64(t)/float64(n-1)*2 - 1) * half }
				out = append(out, model3d.XYZ(f(i)+0.0137, f(j)-0.0071, f(k)+0.0093))
			}
		}
	}
	return out
}

func checkTransform(r *ev.Run, nt named, pts []model3d.Coord3D) {
	t := nt.t
	inv := t.Inverse()
	c := tcase{Transform: nt.name}
	scale := func(p model3d.Coord3D) float64 { return nt.tol * (1 + p.Norm() + t.Apply(p).Norm()) }
	for _, p := range pts {
		r.Eval(1)
		// "identity up to rounding": rounding of the intermediate point is amplified by the local
		// Lipschitz constant of the second map (power-law pinches are arbitrarily steep near their
		// centre), so the tolerance is scaled by an estimate of it and hopeless cases are skipped
		lip := func(f func(model3d.Coord3D) model3d.Coord3D, q model3d.Coord3D) float64 {
			l := 1.0
			h := 1e-9 * (1 + q.Norm())
			for _, d := range []model3d.Coord3D{{X: h}, {Y: h}, {Z: h}} {
				l = math.Max(l, f(q.Add(d)).Dist(f(q))/h)
			}
			return l
		}
		mid := t.Apply(p)
		if l := lip(inv.Apply, mid); l > 1e4 {
			r.Skipped(1)
		} else if q := inv.Apply(mid); !(q.Dist(p) <= scale(p)*l) {
			r.Violation("inverse/"+fam(nt.name), fmt.Sprintf("%s: Inverse(Apply(%v)) = %v", nt.name, p, q), c)
			return
		}
		mid = inv.Apply(p)
		if l := lip(t.Apply, mid); l > 1e4 {
			r.Skipped(1)
		} else if q := t.Apply(mid); !(q.Dist(p) <= nt.tol*(1+p.Norm()+mid.Norm())*l) {
			r.Violation("inverse/"+fam(nt.name), fmt.Sprintf("%s: Apply(Inverse(%v)) = %v", nt.name, p, q), c)
			return
		}
	}
	// bounds: every image of a point of the box lies in ApplyBounds
	for _, b := range [][2]model3d.Coord3D{{model3d.XYZ(-1, -1, -1), model3d.XYZ(1, 1, 1)}, {model3d.XYZ(-0.3, 0.1, 0.25), model3d.XYZ(1.7, 0.9, 1.5)}} {
		mn, mx := t.ApplyBounds(b[0], b[1])
		if !(mn.X <= mx.X && mn.Y <= mx.Y && mn.Z <= mx.Z) {
			r.Violation("bounds/"+fam(nt.name), fmt.Sprintf("%s: ApplyBounds(%v,%v) = %v,%v is not ordered", nt.name, b[0], b[1], mn, mx), c)
			continue
		}
		for i := 0; i <= 6; i++ {
			for j := 0; j <= 6; j++ {
				for k := 0; k <= 6; k++ {
					p := model3d.XYZ(b[0].X+(b[1].X-b[0].X)*float64(i)/6, b[0].Y+(b[1].Y-b[0].Y)*float64(j)/6, b[0].Z+(b[1].Z-b[0].Z)*float64(k)/6)
					q := t.Apply(p)
					e := 1e-9 * (1 + q.Norm())
					r.Eval(1)
					if q.X < mn.X-e || q.Y < mn.Y-e || q.Z < mn.Z-e || q.X > mx.X+e || q.Y > mx.Y+e || q.Z > mx.Z+e {
						r.Violation("bounds/"+fam(nt.name), fmt.Sprintf("%s: image %v of box point %v is outside ApplyBounds %v..%v", nt.name, q, p, mn, mx), c)
						i, j, k = 7, 7, 7
					}
				}
			}
		}
	}
	if dt, ok := isDist(t); ok {
		for i := 0; i+1 < len(pts); i += 7 {
			p, q := pts[i], pts[(i*5+3)%len(pts)]
			r.Eval(1)
			want := t.Apply(p).Dist(t.Apply(q))
			if got := dt.ApplyDistance(p.Dist(q)); !(math.Abs(got-want) <= 1e-9*(1+want)) {
				r.Violation("distance/"+fam(nt.name), fmt.Sprintf("%s: ApplyDistance(%g) = %g but the transformed points are %g apart", nt.name, p.Dist(q), got, want), c)
				break
			}
		}
	}
}

func fam(name string) string {
	for i, ch := range name {
		if ch == '(' {
			return name[:i]
		}
	}
	return name
}

// ---- wrapped objects ----

// parts returns the transforms to apply one after the other: a two-part JoinedTransform is taken apart when
// nested wrapping is asked for, so that the second wrapper receives the result of the first.
func parts(t model3d.Transform, nested bool) []model3d.Transform {
	if jt, ok := t.(model3d.JoinedTransform); ok && nested && len(jt) == 2 {
		return []model3d.Transform{jt[0], jt[1]}
	}
	return []model3d.Transform{t}
}

func checkWrapped(r *ev.Run, nt named, shapes []ref.Shape3, pts []model3d.Coord3D) {
	checkWrappedMode(r, nt, shapes, pts, false)
	if jt, ok := nt.t.(model3d.JoinedTransform); ok && len(jt) == 2 {
		// the same composition as two wrappers stacked on each other
		nt.name = "nested " + nt.name
		checkWrappedMode(r, nt, shapes, pts, true)
	}
}

func checkWrappedMode(r *ev.Run, nt named, shapes []ref.Shape3, pts []model3d.Coord3D, nested bool) {
	t := nt.t
	for _, s := range shapes {
		solid := s.Obj.(model3d.Solid)
		ts := solid
		for _, pt := range parts(t, nested) {
			ts = model3d.TransformSolid(pt, ts)
		}
		c := tcase{Transform: nt.name, Object: s.Name}
		if !model3d.BoundsValid(ts) {
			r.Violation("TransformSolid/bounds-invalid/"+fam(nt.name), nt.name+" of "+s.Name+": invalid bounds", c)
			continue
		}
		mn, mx := ts.Min(), ts.Max()
		for _, p0 := range pts {
			p := s.Center.Add(p0.Scale(s.Extent))
			if math.Abs(s.SDF(p)) < 1e-6*(s.Extent+1) {
				r.Skipped(1)
				continue
			}
			q := t.Apply(p)
			r.Eval(1)
			want := solid.Contains(p)
			if got := ts.Contains(q); got != want {
				// a contained point outside the transformed bounds is the "box cuts the shape" case
				kind := "membership"
				if want && (q.X < mn.X || q.Y < mn.Y || q.Z < mn.Z || q.X > mx.X || q.Y > mx.Y || q.Z > mx.Z) {
					kind = "bounds-cut-shape"
				}
				r.Violation("TransformSolid/"+kind+"/"+fam(nt.name), fmt.Sprintf("%s of %s: Contains(T p)=%v but the original contains p=%v: %v", nt.name, s.Name, got, p, want), c)
				break
			}
			if want {
				r.NontrivialAdd(1)
			}
		}
		dt, ok := isDist(t)
		if !ok {
			continue
		}
		// SDF
		tsdf := s.Obj.(model3d.SDF)
		for _, pt := range parts(t, nested) {
			tsdf = model3d.TransformSDF(pt.(model3d.DistTransform), tsdf)
		}
		for _, p0 := range pts {
			p := s.Center.Add(p0.Scale(s.Extent))
			r.Eval(1)
			want := dt.ApplyDistance(math.Abs(s.SDF(p)))
			if s.SDF(p) < 0 {
				want = -want
			}
			if got := tsdf.SDF(t.Apply(p)); !(math.Abs(got-want) <= 1e-8*(1+math.Abs(want)+s.Extent)) {
				r.Violation("TransformSDF/value/"+fam(nt.name), fmt.Sprintf("%s of %s: SDF(T p)=%g, want the scaled original distance %g (p=%v)", nt.name, s.Name, got, want, p), c)
				break
			}
		}
		// collider
		coll := s.Obj.(model3d.Collider)
		tc := model3d.Collider(coll)
		for _, pt := range parts(t, nested) {
			tc = model3d.TransformCollider(pt.(model3d.DistTransform), tc)
		}
		// the wrappers' own bounds are those of the image: they enclose the image of every corner and face centre of
		// the original's box, and (these maps being similarities or axis scalings) are not larger than the image of
		// that box turned into a box, which is what ApplyBounds returns
		{
			omn, omx := coll.Min(), coll.Max()
			wmn, wmx := t.ApplyBounds(omn, omx)
			for _, w := range []struct {
				what     string
				min, max model3d.Coord3D
			}{{"TransformSDF", tsdf.Min(), tsdf.Max()}, {"TransformCollider", tc.Min(), tc.Max()}} {
				slack := 1e-9 * (1 + wmx.Dist(wmn))
				if w.min.Dist(wmn) > slack || w.max.Dist(wmx) > slack {
					r.Violation(w.what+"/bounds/"+fam(nt.name), fmt.Sprintf("%s of %s: bounds %v..%v, the transform's bounds mapping of the original's box gives %v..%v", nt.name, s.Name, w.min, w.max, wmn, wmx), c)
				}
			}
		}
		t0 := t.Apply(model3d.Coord3D{})
		checked := 0
		for oi := 0; oi < len(pts); oi += 5 {
			o := s.Center.Add(pts[oi].Scale(s.Extent))
			for di, d0 := range dirs {
				if (oi+di)%3 != 0 {
					continue
				}
				d := d0.Scale([]float64{1, 0.3, 4}[di%3])
				ray := &model3d.Ray{Origin: o, Direction: d}
				to := t.Apply(o)
				tray := &model3d.Ray{Origin: to, Direction: t.Apply(o.Add(d)).Sub(to)}
				rc := tcase{nt.name, s.Name, []float64{o.X, o.Y, o.Z}, []float64{d.X, d.Y, d.Z}}
				var want, got []model3d.RayCollision
				coll.RayCollisions(ray, func(x model3d.RayCollision) { want = append(want, x) })
				r.Eval(1)
				var n, n0 int
				if p := ev.Try(func() {
					n = tc.RayCollisions(tray, func(x model3d.RayCollision) { got = append(got, x) })
				}); p != "" {
					r.Violation("TransformCollider/panic/"+fam(nt.name), "RayCollisions panicked: "+p, rc)
					continue
				}
				if p := ev.Try(func() { n0 = tc.RayCollisions(tray, nil) }); p != "" {
					r.Violation("TransformCollider/nil-callback-panic", nt.name+" of "+s.Name+": RayCollisions with a nil callback panicked: "+p, rc)
				} else if n0 != n {
					r.Violation("TransformCollider/count/"+fam(nt.name), fmt.Sprintf("count %d with callback, %d without", n, n0), rc)
				}
				sort.Slice(want, func(a, b int) bool { return want[a].Scale < want[b].Scale })
				sort.Slice(got, func(a, b int) bool { return got[a].Scale < got[b].Scale })
				if len(got) != len(want) || n != len(got) {
					// near-tangent rays may differ by rounding: only judge when the original hits are well separated
					if !wellSeparated(want) {
						r.Skipped(1)
						continue
					}
					r.Violation("TransformCollider/hit-count/"+fam(nt.name), fmt.Sprintf("%s of %s: %d hits on the transformed ray, the original has %d on the original ray", nt.name, s.Name, len(got), len(want)), rc)
					continue
				}
				if !wellSeparated(want) {
					r.Skipped(1)
					continue
				}
				for i := range want {
					checked++
					if !(math.Abs(got[i].Scale-want[i].Scale) <= 1e-7*(1+want[i].Scale)) {
						r.Violation("TransformCollider/ray-parameter/"+fam(nt.name), fmt.Sprintf("%s of %s: hit at parameter %g, the original hit is at %g (same parameter expected: images of the original hits)", nt.name, s.Name, got[i].Scale, want[i].Scale), rc)
						break
					}
					wn := t.Apply(want[i].Normal).Sub(t0)
					wn = wn.Scale(1 / wn.Norm())
					if !(math.Abs(got[i].Normal.Norm()-1) <= 1e-6) || !(got[i].Normal.Dist(wn) <= 1e-6) {
						r.Violation("TransformCollider/normal/"+fam(nt.name), fmt.Sprintf("%s of %s: normal %v, want the unit linear image %v of the original normal", nt.name, s.Name, got[i].Normal, wn), rc)
						break
					}
				}
				f1, ok1 := coll.FirstRayCollision(ray)
				f2, ok2 := tc.FirstRayCollision(tray)
				if ok1 != ok2 || (ok1 && !(math.Abs(f1.Scale-f2.Scale) <= 1e-7*(1+f1.Scale))) {
					r.Violation("TransformCollider/first/"+fam(nt.name), fmt.Sprintf("%s of %s: first hit (%v,%g), original (%v,%g)", nt.name, s.Name, ok2, f2.Scale, ok1, f1.Scale), rc)
				}
			}
			for _, rad := range []float64{0.1, 0.6, 2} {
				rr := rad * s.Extent
				if math.Abs(math.Abs(s.SDF(o))-rr) < 1e-6*(1+s.Extent) {
					continue
				}
				r.Eval(1)
				if got, want := tc.SphereCollision(t.Apply(o), dt.ApplyDistance(rr)), coll.SphereCollision(o, rr); got != want {
					r.Violation("TransformCollider/sphere/"+fam(nt.name), fmt.Sprintf("%s of %s: SphereCollision(T c, scaled r)=%v, original %v", nt.name, s.Name, got, want), tcase{nt.name, s.Name, []float64{o.X, o.Y, o.Z, rr}, nil})
				}
			}
		}
		r.NontrivialAdd(checked)
		// metaball
		if mb, ok := s.Obj.(model3d.Metaball); ok {
			tm := mb
			for _, pt := range parts(t, nested) {
				tm = model3d.TransformMetaball(pt.(model3d.DistTransform), tm)
			}
			for _, p0 := range pts[:len(pts)/3] {
				p := s.Center.Add(p0.Scale(s.Extent))
				r.Eval(1)
				want := mb.MetaballField(p)
				// the transformed field is expressed in transformed distances
				if got := tm.MetaballField(t.Apply(p)); !(math.Abs(got-want) <= 1e-8*(1+math.Abs(want))) && !(math.Abs(got-dt.ApplyDistance(math.Abs(want))*sign(want)) <= 1e-8*(1+math.Abs(want))) {
					r.Violation("TransformMetaball/field/"+fam(nt.name), fmt.Sprintf("%s of %s: field(T p)=%g, original field %g", nt.name, s.Name, got, want), c)
					break
				}
			}
		}
	}
}

func sign(x float64) float64 {
	if x < 0 {
		return -1
	}
	return 1
}

func wellSeparated(h []model3d.RayCollision) bool {
	for i := range h {
		if h[i].Scale < 1e-4 || (i > 0 && h[i].Scale-h[i-1].Scale < 1e-4) {
			return false
		}
	}
	return true
}

var negZero = math.Copysign(0, -1)

// direction alphabet; the last three have IEEE negative zeros as their zero components (what Scale(-1) or a
// mirror produces)
var dirs = []model3d.Coord3D{{X: 1}, {Y: -1}, {Z: 1}, {X: 1, Y: 1}, {X: -1, Z: 1}, {X: 1, Y: 1, Z: -1}, {X: 0.3, Y: 1, Z: 0.2}, {X: -0.7, Y: 0.1, Z: 0.71}, {X: 0.9, Y: -0.1, Z: 0.43},
	{X: -1, Y: negZero, Z: negZero}, {X: negZero, Y: 1, Z: negZero}, {X: 1, Y: negZero, Z: -1}}

// ---- 2D ----

func check2D(r *ev.Run) {
	ts := []struct {
		name string
		t    model2d.Transform
	}{
		{"2d.Translate", &model2d.Translate{Offset: model2d.XY(1, -2)}},
		{"2d.Scale", &model2d.Scale{Scale: 0.5}},
		{"2d.Scale", &model2d.Scale{Scale: 3}},
		{"2d.VecScale", &model2d.VecScale{Scale: model2d.XY(2, 0.5)}},
		{"2d.VecScale", &model2d.VecScale{Scale: model2d.XY(-1, 2)}},
		{"2d.Matrix2", &model2d.Matrix2Transform{Matrix: &model2d.Matrix2{2, 0.3, -0.4, 1.5}}},
		{"2d.Rotation", model2d.Rotation(0.7)},
		{"2d.Rotation", model2d.Rotation(math.Pi / 2)},
	}
	var all []struct {
		name string
		t    model2d.Transform
	}
	all = append(all, ts...)
	for _, a := range ts {
		for _, b := range ts {
			all = append(all, struct {
				name string
				t    model2d.Transform
			}{"2d.Joined(" + a.name + "," + b.name + ")", model2d.JoinedTransform{a.t, b.t}})
		}
	}
	shapes := ref.Shapes2()
	for _, nt := range all {
		t := nt.t
		inv := t.Inverse()
		c := tcase{Transform: nt.name}
		var pts []model2d.Coord
		for i := 0; i < 9; i++ {
			for j := 0; j < 9; j++ {
				pts = append(pts, model2d.XY(float64(i)/2-2+0.0137, float64(j)/2-2-0.0071))
			}
		}
		for _, p := range pts {
			r.Eval(1)
			if !(inv.Apply(t.Apply(p)).Dist(p) <= 1e-9*(1+p.Norm()+t.Apply(p).Norm())) || !(t.Apply(inv.Apply(p)).Dist(p) <= 1e-9*(1+p.Norm()+inv.Apply(p).Norm())) {
				r.Violation("inverse/"+fam(nt.name), nt.name+": not inverted at "+fmt.Sprint(p), c)
				break
			}
		}
		mn, mx := t.ApplyBounds(model2d.XY(-1, -0.5), model2d.XY(1.5, 2))
		for i := 0; i <= 8; i++ {
			for j := 0; j <= 8; j++ {
				q := t.Apply(model2d.XY(-1+2.5*float64(i)/8, -0.5+2.5*float64(j)/8))
				e := 1e-9 * (1 + q.Norm())
				if q.X < mn.X-e || q.Y < mn.Y-e || q.X > mx.X+e || q.Y > mx.Y+e {
					r.Violation("bounds/"+fam(nt.name), fmt.Sprintf("%s: image %v outside ApplyBounds %v..%v", nt.name, q, mn, mx), c)
					i, j = 9, 9
				}
			}
		}
		dt, isD := t.(model2d.DistTransform)
		if j, ok := t.(model2d.JoinedTransform); ok {
			for _, x := range j {
				if _, ok := x.(model2d.DistTransform); !ok {
					isD = false
				}
			}
		}
		for si, s := range shapes {
			if si%3 != 0 {
				continue
			}
			solid := s.Obj.(model2d.Solid)
			tsol := model2d.TransformSolid(t, solid)
			for _, p0 := range pts {
				p := s.Center.Add(p0.Scale(s.Extent / 1.5))
				if math.Abs(s.SDF(p)) < 1e-6*(1+s.Extent) {
					continue
				}
				r.Eval(1)
				if tsol.Contains(t.Apply(p)) != solid.Contains(p) {
					r.Violation("TransformSolid/membership/"+fam(nt.name), fmt.Sprintf("%s of %s at %v", nt.name, s.Name, p), tcase{nt.name, s.Name, []float64{p.X, p.Y}, nil})
					break
				}
			}
			if !isD {
				continue
			}
			tsdf := model2d.TransformSDF(dt, s.Obj.(model2d.SDF))
			coll := s.Obj.(model2d.Collider)
			tc := model2d.TransformCollider(dt, coll)
			t0 := t.Apply(model2d.Coord{})
			for pi, p0 := range pts {
				p := s.Center.Add(p0.Scale(s.Extent / 1.5))
				r.Eval(1)
				want := dt.ApplyDistance(math.Abs(s.SDF(p))) * sign(s.SDF(p))
				if got := tsdf.SDF(t.Apply(p)); !(math.Abs(got-want) <= 1e-8*(1+math.Abs(want)+s.Extent)) {
					r.Violation("TransformSDF/value/"+fam(nt.name), fmt.Sprintf("%s of %s: %g want %g", nt.name, s.Name, got, want), c)
					break
				}
				if pi%4 != 0 {
					continue
				}
				a := 0.37 + float64(pi)
				d := model2d.XY(math.Cos(a), math.Sin(a)).Scale([]float64{1, 0.3, 4}[pi%3])
				ray := &model2d.Ray{Origin: p, Direction: d}
				tp := t.Apply(p)
				tray := &model2d.Ray{Origin: tp, Direction: t.Apply(p.Add(d)).Sub(tp)}
				var want2, got2 []model2d.RayCollision
				coll.RayCollisions(ray, func(x model2d.RayCollision) { want2 = append(want2, x) })
				rc := tcase{nt.name, s.Name, []float64{p.X, p.Y}, []float64{d.X, d.Y}}
				if pm := ev.Try(func() { tc.RayCollisions(tray, func(x model2d.RayCollision) { got2 = append(got2, x) }) }); pm != "" {
					r.Violation("TransformCollider/panic/"+fam(nt.name), pm, rc)
					continue
				}
				if pm := ev.Try(func() { tc.RayCollisions(tray, nil) }); pm != "" {
					r.Violation("2d.TransformCollider/nil-callback-panic", nt.name+": "+pm, rc)
				}
				sort.Slice(want2, func(a, b int) bool { return want2[a].Scale < want2[b].Scale })
				sort.Slice(got2, func(a, b int) bool { return got2[a].Scale < got2[b].Scale })
				sep := true
				for i := range want2 {
					if want2[i].Scale < 1e-4 || (i > 0 && want2[i].Scale-want2[i-1].Scale < 1e-4) {
						sep = false
					}
				}
				if !sep {
					continue
				}
				if len(got2) != len(want2) {
					r.Violation("TransformCollider/hit-count/"+fam(nt.name), fmt.Sprintf("%s of %s: %d hits, original %d", nt.name, s.Name, len(got2), len(want2)), rc)
					continue
				}
				for i := range want2 {
					wn := t.Apply(want2[i].Normal).Sub(t0)
					wn = wn.Scale(1 / wn.Norm())
					if !(math.Abs(got2[i].Scale-want2[i].Scale) <= 1e-7*(1+want2[i].Scale)) {
						r.Violation("TransformCollider/ray-parameter/"+fam(nt.name), fmt.Sprintf("%s of %s: parameter %g, original %g", nt.name, s.Name, got2[i].Scale, want2[i].Scale), rc)
						break
					}
					if !(got2[i].Normal.Dist(wn) <= 1e-6) {
						r.Violation("TransformCollider/normal/"+fam(nt.name), fmt.Sprintf("%s of %s: normal %v want %v", nt.name, s.Name, got2[i].Normal, wn), rc)
						break
					}
				}
			}
		}
	}
}

func main() {
	r := ev.Start("C05", "exploration")
	b := base3()
	all := append([]named{}, b...)
	maxLen := 3
	for i, x := range b {
		for j, y := range b {
			all = append(all, named{"Joined(" + x.name + "," + y.name + ")", model3d.JoinedTransform{x.t, y.t}, math.Max(x.tol, y.tol) * 10})
			if maxLen >= 3 && ((i+j)%2 == 0 || r.Thorough()) {
				for _, z := range b {
					all = append(all, named{"Joined(" + x.name + "," + y.name + "," + z.name + ")", model3d.JoinedTransform{x.t, y.t, z.t}, math.Max(z.tol, math.Max(x.tol, y.tol)) * 100})
				}
			}
		}
	}
	pts := lattice3(7, 2.5)
	unit := lattice3(5, 1.3)
	shapesAll := ref.Shapes3(false)
	var shapes []ref.Shape3
	for i, s := range shapesAll {
		if i%7 == 0 || r.Thorough() && i%2 == 0 {
			shapes = append(shapes, s)
		}
	}
	if r.Replay != "" {
		var c tcase
		r.LoadReplay(&c)
		for _, nt := range all {
			if nt.name == c.Transform {
				checkTransform(r, nt, pts)
				checkWrapped(r, nt, shapes, unit)
			}
		}
		check2D(r)
		metaballStage(r)
		checkConj3(r, 2)
		checkConj2(r, 3)
		r.NontrivialAdd(2)
		r.Sample(c)
		r.Finish()
	}
	r.Rule(fmt.Sprintf("%d base transforms (translations, uniform/per-axis/negative scales, shear and general matrices, rotations, axis squeeze/pinch, SmartSqueeze) and every composition of length <= %d (all pairs; half of the triples in the quick tier, all in the thorough tier: %d transforms) on a 7^3 point lattice: T^-1 T = T T^-1 = id, ApplyBounds encloses the image of a 7^3 grid of box points, ApplyDistance equals the actual distance change; "+
		"TransformSolid / TransformSDF / TransformCollider / TransformMetaball of %d primitives compared with the original at the pulled-back point (membership, scaled distance, ray hits with the same parameter and unit linear-image normals, first hit, ball test, nil-callback count); 2D: 8 transforms and all 64 pairs. non-trivial = contained points whose image must be contained (box must not cut the shape) and ray hits whose parameter and normal were compared", len(b), maxLen, len(all), len(shapes)))
	r.Assume("Scale only with positive factors; rays with hits closer than 1e-4 to the origin or to each other are skipped")
	r.Isolate("transforms", func() {
		ev.Parallel(len(all), 16, func(i int) { checkTransform(r, all[i], pts) })
		r.Sample(tcase{Transform: all[len(all)/2].name})
	})
	r.Isolate("wrapped", func() {
		// wrapped objects: base transforms and all pairs of distance transforms
		var sel []named
		for _, nt := range all {
			if _, ok := isDist(nt.t); ok || len(nt.name) < 40 {
				sel = append(sel, nt)
			}
		}
		ev.Parallel(len(sel), 16, func(i int) { checkWrapped(r, sel[i], shapes, unit) })
		r.Set("wrapped_transforms", len(sel))
	})
	r.Isolate("2d", func() { check2D(r) })
	r.Isolate("metaballs", func() { metaballStage(r) })
	r.Isolate("magnitudes", func() { magnitudeStage(r) })
	r.Isolate("conj", func() {
		n := 2
		if r.Thorough() {
			n = 3
		}
		checkConj3(r, n)
		checkConj2(r, n+1)
	})
	r.Finish()
}
