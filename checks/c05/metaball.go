package main

// Metaball wrappers (Scale/Translate/Rotate/VecScale, 2D and 3D): the wrapped
// field at the image point equals the original field at the original point, a
// MetaballSolid of the wrapped metaball has the same membership as the
// original at the pulled-back point (its box must not cut the shape), and
// MetaballDistBound keeps its contract - a point at Euclidean distance d from
// the surface has a field value of at least MetaballDistBound(d) - which is
// what the box of a MetaballSolid is derived from.

import (
	"fmt"
	"math"

	"github.com/unixpickle/model3d/model2d"
	"github.com/unixpickle/model3d/model3d"

	"verif/lib/ev"
)

type mbCase struct {
	Kind  string    `json:"kind"`
	Wrap  string    `json:"wrapper"`
	Base  string    `json:"base"`
	Thr   float64   `json:"threshold"`
	Point []float64 `json:"point,omitempty"`
}

type mbWrap3 struct {
	name  string
	wrap  func(model3d.Metaball) model3d.Metaball
	apply func(c3) c3
	// stretch along coordinate axis k for axis-aligned wrappers (0 = not axis aligned)
	axisStretch [3]float64
}

type c3 = model3d.Coord3D

func mbWraps3(th bool) []mbWrap3 {
	var out []mbWrap3
	vals := []float64{1, -1, 2, -2, 0.5, -0.5}
	if th {
		vals = append(vals, 3, -0.25)
	}
	for _, x := range vals {
		for _, y := range vals {
			for _, z := range vals {
				s := model3d.XYZ(x, y, z)
				out = append(out, mbWrap3{fmt.Sprintf("VecScaleMetaball(%g,%g,%g)", x, y, z),
					func(m model3d.Metaball) model3d.Metaball { return model3d.VecScaleMetaball(m, s) },
					func(c c3) c3 { return c.Mul(s) }, [3]float64{math.Abs(x), math.Abs(y), math.Abs(z)}})
			}
		}
	}
	for _, k := range []float64{0.5, 2, 3} {
		k := k
		out = append(out, mbWrap3{fmt.Sprintf("ScaleMetaball(%g)", k), func(m model3d.Metaball) model3d.Metaball { return model3d.ScaleMetaball(m, k) },
			func(c c3) c3 { return c.Scale(k) }, [3]float64{k, k, k}})
	}
	off := model3d.XYZ(0.7, -1.1, 0.4)
	out = append(out, mbWrap3{"TranslateMetaball", func(m model3d.Metaball) model3d.Metaball { return model3d.TranslateMetaball(m, off) },
		func(c c3) c3 { return c.Add(off) }, [3]float64{}})
	ax := model3d.XYZ(1, 2, -1).Normalize()
	rot := model3d.NewMatrix3Rotation(ax, 0.9)
	out = append(out, mbWrap3{"RotateMetaball", func(m model3d.Metaball) model3d.Metaball { return model3d.RotateMetaball(m, ax, 0.9) },
		rot.MulColumn, [3]float64{}})
	// two wrappers stacked
	s1, s2 := model3d.XYZ(1, -2, 0.5), model3d.XYZ(-3, 1, 1)
	out = append(out, mbWrap3{"VecScaleMetaball(-3,1,1) of VecScaleMetaball(1,-2,0.5)",
		func(m model3d.Metaball) model3d.Metaball {
			return model3d.VecScaleMetaball(model3d.VecScaleMetaball(m, s1), s2)
		},
		func(c c3) c3 { return c.Mul(s1).Mul(s2) }, [3]float64{3, 2, 0.5}})
	out = append(out, mbWrap3{"TranslateMetaball of VecScaleMetaball(1,1,-2)",
		func(m model3d.Metaball) model3d.Metaball {
			return model3d.TranslateMetaball(model3d.VecScaleMetaball(m, model3d.XYZ(1, 1, -2)), off)
		},
		func(c c3) c3 { return c.Mul(model3d.XYZ(1, 1, -2)).Add(off) }, [3]float64{}})
	return out
}

func metaballStage(r *ev.Run) {
	th := r.Thorough()
	type base struct {
		name   string
		mb     model3d.Metaball
		sphere float64 // >0: a ball of this radius centred at the origin (axis contract applies)
	}
	bases := []base{
		{"ball(r=0.5)", model3d.SDFToMetaball(&model3d.Sphere{Radius: 0.5}), 0.5},
		{"ball(r=0.8,off-centre)", model3d.SDFToMetaball(&model3d.Sphere{Center: model3d.XYZ(0.2, -0.1, 0.3), Radius: 0.8}), 0},
		{"box", model3d.SDFToMetaball(model3d.NewRect(model3d.XYZ(-0.4, -0.6, -0.3), model3d.XYZ(0.5, 0.2, 0.7))), 0},
	}
	wraps := mbWraps3(th)
	n := 9
	if th {
		n = 13
	}
	var pts []c3
	for i := 0; i < n; i++ {
		for j := 0; j < n; j++ {
			for k := 0; k < n; k++ {
				f := func(t int) float64 { return (float64(t)/float64(n-1))*2 - 1 }
				pts = append(pts, model3d.XYZ(f(i)*1.7+0.003, f(j)*1.7-0.007, f(k)*1.7+0.011))
			}
		}
	}
	type job struct {
		b   base
		w   mbWrap3
		thr float64
	}
	var jobs []job
	for _, b := range bases {
		for _, w := range wraps {
			for _, thr := range []float64{0.2, 0.6} {
				jobs = append(jobs, job{b, w, thr})
			}
		}
	}
	ev.Parallel(len(jobs), 16, func(ji int) {
		j := jobs[ji]
		c := mbCase{Kind: "metaball", Wrap: j.w.name, Base: j.b.name, Thr: j.thr}
		bad := func(kind, msg string, p c3) {
			cc := c
			cc.Point = []float64{p.X, p.Y, p.Z}
			r.Violation("Metaball/"+kind+"/"+mbFam(j.w.name), fmt.Sprintf("%s of %s (threshold %g) at %v: %s", j.w.name, j.b.name, j.thr, p, msg), cc)
		}
		var wm model3d.Metaball
		var s0, s1 model3d.Solid
		if p := ev.Try(func() {
			wm = j.w.wrap(j.b.mb)
			s0 = model3d.MetaballSolid(nil, j.thr, j.b.mb)
			s1 = model3d.MetaballSolid(nil, j.thr, wm)
		}); p != "" {
			bad("panic", "construction panics: "+p, c3{})
			return
		}
		inside := 0
		for _, p := range pts {
			r.Eval(1)
			q := j.w.apply(p)
			f0, f1 := j.b.mb.MetaballField(p), wm.MetaballField(q)
			if !(math.Abs(f0-f1) <= 1e-9*(1+math.Abs(f0))) {
				bad("field", fmt.Sprintf("field at the image %v is %g, original field %g", q, f1, f0), p)
				return
			}
			in0, in1 := s0.Contains(p), s1.Contains(q)
			if in0 {
				inside++
			}
			if in0 != in1 && !(math.Abs(f0-j.thr) <= 1e-9) {
				bad("membership", fmt.Sprintf("MetaballSolid of the original contains the point = %v, MetaballSolid of the wrapped metaball contains its image %v = %v (solid bounds %v..%v)", in0, q, in1, s1.Min(), s1.Max()), p)
				return
			}
		}
		if inside > 0 {
			r.NontrivialAdd(1)
		}
		// MetaballDistBound: non-decreasing, and the contract on the coordinate axes of a centred ball, where the
		// Euclidean distance from the image point to the image surface (an axis-aligned ellipsoid) is known exactly
		prev := math.Inf(-1)
		for d := 0.0; d < 4; d += 0.125 {
			v := wm.MetaballDistBound(d)
			if v < prev-1e-12 {
				bad("distbound-monotone", fmt.Sprintf("MetaballDistBound(%g)=%g after %g", d, v, prev), c3{})
				return
			}
			prev = v
		}
		if j.b.sphere > 0 && j.w.axisStretch != [3]float64{} {
			for k := 0; k < 3; k++ {
				for _, d0 := range []float64{0.05, 0.3, 1, 2.5} {
					for _, sg := range []float64{1, -1} {
						var p [3]float64
						p[k] = sg * (j.b.sphere + d0)
						pp := model3d.XYZ(p[0], p[1], p[2])
						q := j.w.apply(pp)
						dist := j.w.axisStretch[k] * d0 // distance from q to the image ellipsoid along its own axis
						r.Eval(1)
						if f, bnd := wm.MetaballField(q), wm.MetaballDistBound(dist); f < bnd-1e-9*(1+math.Abs(bnd)) {
							bad("distbound-contract", fmt.Sprintf("image point %v is %g from the surface, its field value is %g, but MetaballDistBound(%g)=%g promises at least that", q, dist, f, dist, bnd), pp)
							return
						}
					}
				}
			}
		}
	})
	r.Set("metaball_wrapper_cases", len(jobs))
	metaball2D(r)
}

func mbFam(s string) string {
	for i, ch := range s {
		if ch == '(' || ch == ' ' {
			return s[:i]
		}
	}
	return s
}

func metaball2D(r *ev.Run) {
	vals := []float64{1, -1, 2, -2, 0.5, -0.5, 3}
	mb := model2d.SDFToMetaball(&model2d.Circle{Radius: 0.5})
	for _, x := range vals {
		for _, y := range vals {
			for _, thr := range []float64{0.2, 0.6} {
				s := model2d.XY(x, y)
				name := fmt.Sprintf("2d.VecScaleMetaball(%g,%g)", x, y)
				c := mbCase{Kind: "metaball2d", Wrap: name, Base: "disc(r=0.5)", Thr: thr}
				wm := model2d.VecScaleMetaball(mb, s)
				s0, s1 := model2d.MetaballSolid(nil, thr, mb), model2d.MetaballSolid(nil, thr, wm)
				ok := true
				for i := 0; i < 21 && ok; i++ {
					for j := 0; j < 21 && ok; j++ {
						p := model2d.XY(float64(i-10)*0.17+0.003, float64(j-10)*0.17-0.007)
						q := p.Mul(s)
						r.Eval(1)
						f0, f1 := mb.MetaballField(p), wm.MetaballField(q)
						if !(math.Abs(f0-f1) <= 1e-9*(1+math.Abs(f0))) {
							r.Violation("Metaball/field/2d.VecScaleMetaball", fmt.Sprintf("%s at %v: field %g, original %g", name, p, f1, f0), c)
							ok = false
						} else if s0.Contains(p) != s1.Contains(q) && !(math.Abs(f0-thr) <= 1e-9) {
							r.Violation("Metaball/membership/2d.VecScaleMetaball", fmt.Sprintf("%s (threshold %g) at %v: original contains=%v, wrapped contains the image %v=%v (bounds %v..%v)", name, thr, p, s0.Contains(p), q, s1.Contains(q), s1.Min(), s1.Max()), c)
							ok = false
						}
					}
				}
				for k, st := range []float64{math.Abs(x), math.Abs(y)} {
					for _, d0 := range []float64{0.05, 0.3, 1, 2.5} {
						p := model2d.Coord{}
						if k == 0 {
							p.X = 0.5 + d0
						} else {
							p.Y = -(0.5 + d0)
						}
						q := p.Mul(s)
						r.Eval(1)
						if f, bnd := wm.MetaballField(q), wm.MetaballDistBound(st*d0); f < bnd-1e-9*(1+math.Abs(bnd)) {
							r.Violation("Metaball/distbound-contract/2d.VecScaleMetaball", fmt.Sprintf("%s: image point %v is %g from the surface, field %g, MetaballDistBound=%g", name, q, st*d0, f, bnd), c)
						}
					}
				}
				r.NontrivialAdd(1)
			}
		}
	}
}
