package main

import (
	"fmt"
	"math"

	"github.com/unixpickle/model3d/model2d"
	"github.com/unixpickle/model3d/model3d"
	"github.com/unixpickle/model3d/toolbox3d"

	"verif/lib/ev"
	"verif/lib/lat"
	"verif/lib/topo"
)

// Conjugated meshing: MarchingCubesConj / MarchingSquaresConj take a *list* of
// transforms, mesh the transformed solid and map the mesh back. For every
// sequence of 0..n linear transforms handed over as separate arguments the
// returned mesh must be a closed surface whose vertices lie on the boundary of
// the ORIGINAL solid, up to the search resolution carried back through the
// inverse map (Lipschitz constant measured on the lattice).

type conjCase struct {
	Transforms []string  `json:"transforms"`
	Solid      string    `json:"solid"`
	Vertex     []float64 `json:"vertex,omitempty"`
}

func lip3(t model3d.Transform, pts []model3d.Coord3D) float64 {
	l := 0.0
	h := 1e-3
	for _, p := range pts {
		for _, d := range []model3d.Coord3D{{X: h}, {Y: h}, {Z: h}} {
			l = math.Max(l, t.Apply(p.Add(d)).Dist(t.Apply(p))/h)
		}
	}
	return l
}

// invLip3: Lipschitz constant of the inverse of one transform of the alphabet. Linear maps: the operator norm of the
// inverse's matrix (columns by finite differences, exact for a linear map; largest singular value by power iteration).
// AxisSqueeze is piecewise linear with slope `Ratio` inside its interval: max(1, 1/Ratio). The product over a sequence
// bounds the Lipschitz constant of the composite inverse from above, wherever its pieces lie - a sampled estimate
// misses a squeezed slab that is thinner than the sampling lattice.
func invLip3(t model3d.Transform) float64 {
	if sq, ok := t.(*toolbox3d.AxisSqueeze); ok {
		return math.Max(1, 1/sq.Ratio)
	}
	inv := t.Inverse()
	o := inv.Apply(model3d.Coord3D{})
	cols := [3]model3d.Coord3D{inv.Apply(model3d.X(1)).Sub(o), inv.Apply(model3d.Y(1)).Sub(o), inv.Apply(model3d.Z(1)).Sub(o)}
	v := model3d.XYZ(0.577, 0.577, 0.578)
	n := 0.0
	for i := 0; i < 60; i++ {
		w := cols[0].Scale(v.X).Add(cols[1].Scale(v.Y)).Add(cols[2].Scale(v.Z)) // J v
		n = w.Norm()
		v = model3d.XYZ(cols[0].Dot(w), cols[1].Dot(w), cols[2].Dot(w)) // J^T J v
		v = v.Normalize()
	}
	return n * (1 + 1e-6)
}

func checkConj3(r *ev.Run, maxLen int) {
	b := base3()[:15] // translations, scales, matrices, rotations and the two piecewise-linear squeezes
	type sol struct {
		name string
		s    model3d.Solid
		sdf  func(model3d.Coord3D) float64
		in   model3d.Coord3D
	}
	sph := &model3d.Sphere{Center: model3d.XYZ(0.2, -0.1, 0.3), Radius: 0.9}
	rect := model3d.NewRect(model3d.XYZ(-0.6, -0.3, -0.8), model3d.XYZ(0.5, 0.9, 0.4))
	sols := []sol{{"Sphere", sph, sph.SDF, sph.Center}, {"Rect", rect, rect.SDF, rect.MinVal.Mid(rect.MaxVal)}}
	var seqs [][]int
	var rec func(l []int)
	rec = func(l []int) {
		seqs = append(seqs, append([]int{}, l...))
		if len(l) == maxLen {
			return
		}
		for i := range b {
			rec(append(append([]int{}, l...), i))
		}
	}
	rec(nil)
	// sandwiches: a squeeze between two rotations / general matrices that do not undo each other. The image of the
	// solid's box is then a polyhedron with a kink that is not the image of a box corner - bounds of the meshing
	// space taken from corner images would clip it. (All of them are part of the length-3 enumeration of the
	// thorough tier; the quick tier stops at length 2 and adds these.)
	if maxLen < 3 {
		outer := []int{6, 7, 8, 9, 10, 11, 12}
		for _, a := range outer {
			for _, m := range []int{13, 14} {
				for _, c := range outer {
					seqs = append(seqs, []int{a, m, c})
				}
			}
		}
	}
	const iters = 6
	ev.Parallel(len(seqs), 0, func(si int) {
		seq := seqs[si]
		xs := make([]model3d.Transform, len(seq))
		names := make([]string, len(seq))
		det := 1.0
		for i, k := range seq {
			xs[i], names[i] = b[k].t, b[k].name
			if b[k].name == "VecScale(-1,2,1)" {
				det = -det
			}
			if m, ok := b[k].t.(*model3d.Matrix3Transform); ok && m.Matrix.Det() < 0 {
				det = -det
			}
		}
		L := 1.0
		for _, x := range xs {
			L *= invLip3(x)
		}
		for _, so := range sols {
			r.Eval(1)
			// the spacing lives in the transformed space: a sixth of the image's smallest extent
			// the spacing lives in the transformed space: 0.3 of the original space along the
			// most compressed direction; badly conditioned compositions are skipped (grid size)
			ts := model3d.TransformSolid(model3d.JoinedTransform(xs), so.s)
			ext := ts.Max().Sub(ts.Min())
			delta := 0.3 / L
			if ext.X*ext.Y*ext.Z/(delta*delta*delta) > 2e5 {
				r.Skipped(1)
				continue
			}
			var mesh *model3d.Mesh
			if p := ev.Try(func() { mesh = model3d.MarchingCubesConj(so.s, delta, iters, xs...) }); p != "" {
				r.Violation("conj3/panic", fmt.Sprintf("MarchingCubesConj(%s, %v) panicked: %s", so.name, names, p), conjCase{names, so.name, nil})
				continue
			}
			if mesh.NumTriangles() == 0 {
				r.Violation("conj3/empty", fmt.Sprintf("MarchingCubesConj(%s, %v) returned an empty mesh", so.name, names), conjCase{names, so.name, nil})
				continue
			}
			tol := L*delta/float64(int(1)<<iters)*2 + 1e-9
			worst, wv := 0.0, model3d.Coord3D{}
			for _, v := range mesh.VertexSlice() {
				if d := math.Abs(so.sdf(v)); d > worst {
					worst, wv = d, v
				}
			}
			if worst > tol {
				r.Violation("conj3/off-surface", fmt.Sprintf("MarchingCubesConj(%s, transforms %v): vertex %v is %.4g away from the surface of the original solid (resolution carried back through the inverse: %.3g)", so.name, names, wv, worst, tol),
					conjCase{names, so.name, []float64{wv.X, wv.Y, wv.Z}})
				continue
			}
			rep := topo.Analyze3(lat.Tris(mesh))
			if !rep.Closed() {
				r.Violation("conj3/not-closed", fmt.Sprintf("MarchingCubesConj(%s, %v): %s", so.name, names, rep), conjCase{names, so.name, nil})
			}
			if det > 0 {
				if w := topo.Winding3(lat.Tris(mesh), topo.P3{so.in.X, so.in.Y, so.in.Z}); !(math.Abs(w-1) <= 1e-6) {
					r.Violation("conj3/winding", fmt.Sprintf("MarchingCubesConj(%s, %v): winding number %.3f at an interior point of the original solid", so.name, names, w), conjCase{names, so.name, nil})
				}
			}
			if len(seq) >= 2 {
				r.NontrivialKey(fmt.Sprint("conj3", seq, so.name))
			}
		}
	})
}

func checkConj2(r *ev.Run, maxLen int) {
	type nt struct {
		name string
		t    model2d.Transform
	}
	b := []nt{
		{"2d.Translate(1,-2)", &model2d.Translate{Offset: model2d.XY(1, -2)}},
		{"2d.Scale(0.5)", &model2d.Scale{Scale: 0.5}},
		{"2d.Scale(3)", &model2d.Scale{Scale: 3}},
		{"2d.VecScale(2,0.5)", &model2d.VecScale{Scale: model2d.XY(2, 0.5)}},
		{"2d.VecScale(-1,2)", &model2d.VecScale{Scale: model2d.XY(-1, 2)}},
		{"2d.Matrix2", &model2d.Matrix2Transform{Matrix: &model2d.Matrix2{2, 0.3, -0.4, 1.5}}},
		{"2d.Rotation(0.7)", model2d.Rotation(0.7)},
		{"2d.Rotation(pi/2)", model2d.Rotation(math.Pi / 2)},
	}
	circ := &model2d.Circle{Center: model2d.XY(0.2, -0.1), Radius: 0.9}
	rect := model2d.NewRect(model2d.XY(-0.6, -0.3), model2d.XY(0.5, 0.9))
	type sol struct {
		name string
		s    model2d.Solid
		sdf  func(model2d.Coord) float64
	}
	sols := []sol{{"Circle", circ, circ.SDF}, {"Rect", rect, rect.SDF}}
	var seqs [][]int
	var rec func(l []int)
	rec = func(l []int) {
		seqs = append(seqs, append([]int{}, l...))
		if len(l) == maxLen {
			return
		}
		for i := range b {
			rec(append(append([]int{}, l...), i))
		}
	}
	rec(nil)
	const iters = 8
	ev.Parallel(len(seqs), 0, func(si int) {
		seq := seqs[si]
		xs := make([]model2d.Transform, len(seq))
		names := make([]string, len(seq))
		for i, k := range seq {
			xs[i], names[i] = b[k].t, b[k].name
		}
		inv := model2d.JoinedTransform(xs).Inverse()
		L := 1.0
		if len(xs) > 0 {
			L = 0
			for _, p := range []model2d.Coord{{}, {X: 3, Y: -2}, {X: -4, Y: 1}} {
				for _, d := range []model2d.Coord{{X: 1e-3}, {Y: 1e-3}} {
					L = math.Max(L, inv.Apply(p.Add(d)).Dist(inv.Apply(p))/1e-3)
				}
			}
		}
		for _, so := range sols {
			r.Eval(1)
			ts := model2d.TransformSolid(model2d.JoinedTransform(xs), so.s)
			ext := ts.Max().Sub(ts.Min())
			delta := 0.3 / L
			if ext.X*ext.Y/(delta*delta) > 1e6 {
				r.Skipped(1)
				continue
			}
			var mesh *model2d.Mesh
			if p := ev.Try(func() { mesh = model2d.MarchingSquaresConj(so.s, delta, iters, xs...) }); p != "" {
				r.Violation("conj2/panic", fmt.Sprintf("MarchingSquaresConj(%s, %v) panicked: %s", so.name, names, p), conjCase{names, so.name, nil})
				continue
			}
			if mesh.NumSegments() == 0 {
				r.Violation("conj2/empty", fmt.Sprintf("MarchingSquaresConj(%s, %v) returned an empty mesh", so.name, names), conjCase{names, so.name, nil})
				continue
			}
			tol := L*delta/float64(int(1)<<iters)*2 + 1e-9
			for _, v := range mesh.VertexSlice() {
				if d := math.Abs(so.sdf(v)); d > tol {
					r.Violation("conj2/off-surface", fmt.Sprintf("MarchingSquaresConj(%s, transforms %v): vertex %v is %.4g away from the outline of the original solid (resolution %.3g)", so.name, names, v, d, tol),
						conjCase{names, so.name, []float64{v.X, v.Y}})
					break
				}
			}
			if rep := topo.Analyze2(lat.Segs(mesh)); !rep.Manifold() {
				r.Violation("conj2/not-closed", fmt.Sprintf("MarchingSquaresConj(%s, %v): %s", so.name, names, rep), conjCase{names, so.name, nil})
			}
			if len(seq) >= 2 {
				r.NontrivialKey(fmt.Sprint("conj2", seq, so.name))
			}
		}
	})
}
