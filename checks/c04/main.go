// C04: solid combinators implement exact, order-independent set algebra.
//
// (A) Every operand list of length 1..3 (thorough 1..4) over a 7-solid pool
// (overlapping, nested, disjoint, flat, duplicated, transformed) - which is
// every permutation of every multiset - and every depth-2 expression tree is
// evaluated on a dyadic lattice through JoinedSolid, IntersectedSolid,
// SubtractedSolid, JoinedSolid.Optimize and SolidMux (Contains, AllContains,
// IterContains with and without callback) and compared with the pointwise
// boolean formula of the operands' own Contains. 2D likewise.
// (B) StackSolids / StackedSolid against the union of operands translated by
// reference offsets (dyadic coordinates: exact).
// (C) SmoothJoin / SmoothJoinV2: permutation invariance, radius 0 = union,
// single operand = the operand, union is a subset, and locality (a point added
// to the union is within the radius of at least two operands).
// (D) RectSet: breadth-first search over Add/Remove/AddRectSet/RemoveRectSet
// histories on a 3x3x3 cell grid, state = exact internal representation,
// reference = occupancy bits; Solid() of every reachable state is compared on
// the half-integer lattice with the closed union of the occupied cells.
package main

import (
	"fmt"
	"math"
	"reflect"
	"sort"
	"strings"
	"sync"
	"sync/atomic"

	"github.com/unixpickle/model3d/model2d"
	"github.com/unixpickle/model3d/model3d"
	"github.com/unixpickle/model3d/toolbox3d"

	"verif/lib/ev"
)

type c3 = model3d.Coord3D

type scase struct {
	Kind   string    `json:"kind"`
	Ops    []int     `json:"operands,omitempty"`
	Expr   string    `json:"expr,omitempty"`
	Radius float64   `json:"radius,omitempty"`
	Point  []float64 `json:"point,omitempty"`
	Hist   []string  `json:"history,omitempty"`
}

// ---------------------------------------------------------------- pools

func pool3() ([]model3d.Solid, []string) {
	caps := &model3d.Capsule{P1: model3d.XYZ(-1, -1, -1), P2: model3d.XYZ(1, 1, 0.5), Radius: 0.25}
	s := []model3d.Solid{
		&model3d.Sphere{Center: model3d.XYZ(0, 0, 0), Radius: 1},
		&model3d.Sphere{Center: model3d.XYZ(0.75, 0, 0), Radius: 1},
		&model3d.Sphere{Center: model3d.XYZ(0, 0, 0), Radius: 0.5},
		model3d.NewRect(model3d.XYZ(2.5, -0.5, -0.5), model3d.XYZ(3.5, 0.5, 0.5)),
		model3d.NewRect(model3d.XYZ(-1, -1, 0), model3d.XYZ(1, 1, 0)),
		&model3d.Sphere{Center: model3d.XYZ(0, 0, 0), Radius: 1},
		model3d.TransformSolid(&model3d.Translate{Offset: model3d.XYZ(0.5, 0.25, 0)}, caps),
	}
	return s, []string{"sphereA", "sphereB(overlaps A)", "sphereC(inside A)", "rect(disjoint)", "rect(flat z=0)", "sphereA'(duplicate)", "translated capsule"}
}

func lattice3(min, max c3, step float64) []c3 {
	var out []c3
	for x := min.X; x <= max.X+1e-9; x += step {
		for y := min.Y; y <= max.Y+1e-9; y += step {
			for z := min.Z; z <= max.Z+1e-9; z += step {
				out = append(out, model3d.XYZ(x, y, z))
			}
		}
	}
	return out
}

func pool2() ([]model2d.Solid, []string) {
	s := []model2d.Solid{
		&model2d.Circle{Center: model2d.XY(0, 0), Radius: 1},
		&model2d.Circle{Center: model2d.XY(0.75, 0), Radius: 1},
		&model2d.Circle{Center: model2d.XY(0, 0), Radius: 0.5},
		model2d.NewRect(model2d.XY(2.5, -0.5), model2d.XY(3.5, 0.5)),
		model2d.NewRect(model2d.XY(-1, 0), model2d.XY(1, 0)),
		&model2d.Circle{Center: model2d.XY(0, 0), Radius: 1},
		&model2d.Capsule{P1: model2d.XY(-0.5, -0.75), P2: model2d.XY(1.5, 1.25), Radius: 0.25},
	}
	return s, []string{"circleA", "circleB", "circleC(inside A)", "rect(disjoint)", "rect(flat)", "circleA'", "capsule"}
}

// lists enumerates every sequence of length 1..maxLen over n symbols.
func lists(n, maxLen int, f func(l []int)) {
	var rec func(l []int)
	rec = func(l []int) {
		if len(l) > 0 {
			f(l)
		}
		if len(l) == maxLen {
			return
		}
		for i := 0; i < n; i++ {
			rec(append(append([]int{}, l...), i))
		}
	}
	rec(nil)
}

func allLists(n, maxLen int) [][]int {
	var out [][]int
	lists(n, maxLen, func(l []int) { out = append(out, append([]int{}, l...)) })
	return out
}

func pt3(p c3) []float64 { return []float64{p.X, p.Y, p.Z} }

func distinct(l []int) int {
	m := map[int]bool{}
	for _, x := range l {
		m[x] = true
	}
	return len(m)
}

// ---------------------------------------------------------------- (A) boolean algebra, 3D

func algebra3(r *ev.Run, maxLen, muxLen int) {
	pool, _ := pool3()
	pts := lattice3(model3d.XYZ(-1.5, -1.5, -1.5), model3d.XYZ(3.75, 1.5, 1.5), 0.25)
	M := make([][]bool, len(pool))
	for i, s := range pool {
		M[i] = make([]bool, len(pts))
		for j, p := range pts {
			M[i][j] = s.Contains(p)
		}
	}
	ls := allLists(len(pool), maxLen)
	ev.Parallel(len(ls), 0, func(li int) {
		l := ls[li]
		ops := make([]model3d.Solid, len(l))
		for i, x := range l {
			ops[i] = pool[x]
		}
		j := model3d.JoinedSolid(ops)
		in := model3d.IntersectedSolid(ops)
		opt := j.Optimize()
		mux := model3d.NewSolidMux(ops)
		interesting := false
		for pi, p := range pts {
			or, and, cnt := false, true, 0
			for _, x := range l {
				if M[x][pi] {
					or = true
					cnt++
				} else {
					and = false
				}
			}
			if or && !and {
				interesting = true
			}
			r.Eval(1)
			bad := func(kind, msg string) {
				r.Violation("3d/"+kind, fmt.Sprintf("operands %v at %v: %s", l, p, msg), scase{Kind: "algebra3/" + kind, Ops: l, Point: pt3(p)})
			}
			if j.Contains(p) != or {
				bad("joined", fmt.Sprintf("JoinedSolid.Contains=%v, union of operands=%v", !or, or))
			}
			if in.Contains(p) != and {
				bad("intersected", fmt.Sprintf("IntersectedSolid.Contains=%v, intersection of operands=%v", !and, and))
			}
			if opt.Contains(p) != or {
				bad("optimize", fmt.Sprintf("JoinedSolid.Optimize().Contains=%v, union of operands=%v", !or, or))
			}
			if mux.Contains(p) != or {
				bad("mux-contains", fmt.Sprintf("SolidMux.Contains=%v, union of operands=%v", !or, or))
			}
			ac := mux.AllContains(p)
			if len(ac) != len(l) {
				bad("mux-allcontains", fmt.Sprintf("AllContains returned %d entries for %d solids", len(ac), len(l)))
			} else {
				for i, x := range l {
					if ac[i] != M[x][pi] {
						bad("mux-allcontains", fmt.Sprintf("AllContains[%d]=%v but operand %d Contains=%v", i, ac[i], x, M[x][pi]))
						break
					}
				}
			}
			if n := mux.IterContains(p, nil); n != cnt {
				bad("mux-itercontains", fmt.Sprintf("IterContains(nil)=%d, %d operands contain the point", n, cnt))
			}
			seen := make([]int, len(l))
			calls := 0
			n := mux.IterContains(p, func(i int) {
				calls++
				if i >= 0 && i < len(seen) {
					seen[i]++
				} else {
					bad("mux-itercontains", fmt.Sprintf("callback index %d out of range", i))
				}
			})
			if n != cnt || calls != cnt {
				bad("mux-itercontains", fmt.Sprintf("IterContains(f)=%d with %d callbacks, %d operands contain the point", n, calls, cnt))
			}
			for i, x := range l {
				want := 0
				if M[x][pi] {
					want = 1
				}
				if seen[i] != want {
					bad("mux-itercontains", fmt.Sprintf("callback for index %d called %d times, operand contains=%v", i, seen[i], M[x][pi]))
					break
				}
			}
		}
		if interesting && distinct(l) > 1 {
			r.NontrivialKey(fmt.Sprint("alg3", l))
		}
	})
	// longer lists through the accelerated forms only, on a coarser lattice
	if muxLen > maxLen {
		var cp []int
		for i := range pts {
			if i%7 == 0 {
				cp = append(cp, i)
			}
		}
		var long [][]int
		lists(len(pool), muxLen, func(l []int) {
			if len(l) > maxLen {
				long = append(long, append([]int{}, l...))
			}
		})
		ev.Parallel(len(long), 0, func(li int) {
			l := long[li]
			ops := make([]model3d.Solid, len(l))
			for i, x := range l {
				ops[i] = pool[x]
			}
			opt := model3d.JoinedSolid(ops).Optimize()
			mux := model3d.NewSolidMux(ops)
			for _, pi := range cp {
				p := pts[pi]
				or, cnt := false, 0
				for _, x := range l {
					if M[x][pi] {
						or = true
						cnt++
					}
				}
				r.Eval(1)
				if opt.Contains(p) != or {
					r.Violation("3d/optimize", fmt.Sprintf("operands %v at %v: Optimize().Contains=%v, union=%v", l, p, !or, or), scase{Kind: "algebra3/optimize", Ops: l, Point: pt3(p)})
				}
				if mux.Contains(p) != or || mux.IterContains(p, nil) != cnt {
					r.Violation("3d/mux-contains", fmt.Sprintf("operands %v at %v: SolidMux disagrees with the operands (union=%v count=%d)", l, p, or, cnt), scase{Kind: "algebra3/mux-contains", Ops: l, Point: pt3(p)})
				}
				ac := mux.AllContains(p)
				for i, x := range l {
					if i < len(ac) && ac[i] != M[x][pi] {
						r.Violation("3d/mux-allcontains", fmt.Sprintf("operands %v at %v: AllContains[%d]=%v, operand says %v", l, p, i, ac[i], M[x][pi]), scase{Kind: "algebra3/mux-allcontains", Ops: l, Point: pt3(p)})
						break
					}
				}
			}
			r.NontrivialKey(fmt.Sprint("alg3long", l))
		})
	}

	// subtraction and depth-2 expression trees
	type node struct {
		s    model3d.Solid
		m    []bool
		name string
	}
	var leaves []node
	for i, s := range pool {
		leaves = append(leaves, node{s, M[i], fmt.Sprint(i)})
	}
	comb := func(a, b node, op int) node {
		m := make([]bool, len(pts))
		var s model3d.Solid
		var nm string
		switch op {
		case 0:
			s, nm = model3d.JoinedSolid{a.s, b.s}, "("+a.name+"|"+b.name+")"
			for i := range m {
				m[i] = a.m[i] || b.m[i]
			}
		case 1:
			s, nm = model3d.IntersectedSolid{a.s, b.s}, "("+a.name+"&"+b.name+")"
			for i := range m {
				m[i] = a.m[i] && b.m[i]
			}
		default:
			s, nm = &model3d.SubtractedSolid{Positive: a.s, Negative: b.s}, "("+a.name+"-"+b.name+")"
			for i := range m {
				m[i] = a.m[i] && !b.m[i]
			}
		}
		return node{s, m, nm}
	}
	checkNode := func(n node) {
		diff := false
		for pi, p := range pts {
			r.Eval(1)
			if n.s.Contains(p) != n.m[pi] {
				r.Violation("3d/tree", fmt.Sprintf("expression %s at %v: Contains=%v, boolean formula of the operands=%v", n.name, p, !n.m[pi], n.m[pi]), scase{Kind: "tree3", Expr: n.name, Point: pt3(p)})
			}
			if n.m[pi] {
				diff = true
			}
		}
		if diff {
			r.NontrivialKey("tree3" + n.name)
		}
	}
	var level1 []node
	for _, a := range leaves {
		for _, b := range leaves {
			for op := 0; op < 3; op++ {
				n := comb(a, b, op)
				level1 = append(level1, n)
			}
		}
	}
	ev.Parallel(len(level1), 0, func(i int) { checkNode(level1[i]) })
	stride := 1
	if !r.Thorough() {
		stride = 5
	}
	ev.Parallel(len(level1), 0, func(i int) {
		if i%stride != 0 {
			return
		}
		for _, b := range leaves {
			for op := 0; op < 3; op++ {
				checkNode(comb(level1[i], b, op))
				checkNode(comb(b, level1[i], op))
			}
		}
	})
}

// ---------------------------------------------------------------- (A) 2D

func algebra2(r *ev.Run, maxLen int) {
	pool, _ := pool2()
	var pts []model2d.Coord
	for x := -1.5; x <= 3.75; x += 0.125 {
		for y := -1.5; y <= 1.75; y += 0.125 {
			pts = append(pts, model2d.XY(x, y))
		}
	}
	M := make([][]bool, len(pool))
	for i, s := range pool {
		M[i] = make([]bool, len(pts))
		for j, p := range pts {
			M[i][j] = s.Contains(p)
		}
	}
	ls := allLists(len(pool), maxLen)
	ev.Parallel(len(ls), 0, func(li int) {
		l := ls[li]
		ops := make([]model2d.Solid, len(l))
		for i, x := range l {
			ops[i] = pool[x]
		}
		j := model2d.JoinedSolid(ops)
		in := model2d.IntersectedSolid(ops)
		opt := j.Optimize()
		mux := model2d.NewSolidMux(ops)
		for pi, p := range pts {
			or, and, cnt := false, true, 0
			for _, x := range l {
				if M[x][pi] {
					or = true
					cnt++
				} else {
					and = false
				}
			}
			r.Eval(1)
			bad := func(kind, msg string) {
				r.Violation("2d/"+kind, fmt.Sprintf("operands %v at %v: %s", l, p, msg), scase{Kind: "algebra2/" + kind, Ops: l, Point: []float64{p.X, p.Y}})
			}
			if j.Contains(p) != or {
				bad("joined", "JoinedSolid differs from the union of its operands")
			}
			if in.Contains(p) != and {
				bad("intersected", "IntersectedSolid differs from the intersection of its operands")
			}
			if opt.Contains(p) != or {
				bad("optimize", "JoinedSolid.Optimize() differs from the union of its operands")
			}
			if mux.Contains(p) != or {
				bad("mux-contains", "SolidMux.Contains differs from the union of its operands")
			}
			ac := mux.AllContains(p)
			for i, x := range l {
				if i >= len(ac) || ac[i] != M[x][pi] {
					bad("mux-allcontains", fmt.Sprintf("AllContains[%d] differs from operand %d", i, x))
					break
				}
			}
			calls := 0
			seen := make([]int, len(l))
			n := mux.IterContains(p, func(i int) {
				calls++
				if i >= 0 && i < len(seen) {
					seen[i]++
				}
			})
			if n != cnt || calls != cnt || mux.IterContains(p, nil) != cnt {
				bad("mux-itercontains", fmt.Sprintf("IterContains=%d, callbacks=%d, containing operands=%d", n, calls, cnt))
			}
			for i, x := range l {
				if (seen[i] == 1) != M[x][pi] || seen[i] > 1 {
					bad("mux-itercontains", fmt.Sprintf("callback for index %d called %d times, operand contains=%v", i, seen[i], M[x][pi]))
					break
				}
			}
		}
		if distinct(l) > 1 {
			r.NontrivialKey(fmt.Sprint("alg2", l))
		}
	})
	for a := range pool {
		for b := range pool {
			s := &model2d.SubtractedSolid{Positive: pool[a], Negative: pool[b]}
			for pi, p := range pts {
				r.Eval(1)
				if s.Contains(p) != (M[a][pi] && !M[b][pi]) {
					r.Violation("2d/subtracted", fmt.Sprintf("SubtractedSolid{%d,%d} at %v differs from the difference of its operands", a, b, p), scase{Kind: "algebra2/subtracted", Ops: []int{a, b}, Point: []float64{p.X, p.Y}})
				}
			}
		}
	}
}

// ---------------------------------------------------------------- (B) stacking

func stacks(r *ev.Run, maxLen int) {
	pool, _ := pool3()
	pts := lattice3(model3d.XYZ(-1.5, -1.5, -2), model3d.XYZ(3.75, 1.5, 8), 0.25)
	ls := allLists(len(pool), maxLen)
	ev.Parallel(len(ls), 0, func(li int) {
		l := ls[li]
		ops := make([]model3d.Solid, len(l))
		for i, x := range l {
			ops[i] = pool[x]
		}
		// reference offsets
		deltas := make([]float64, len(l))
		top := ops[0].Max().Z
		for i := 1; i < len(l); i++ {
			deltas[i] = top - ops[i].Min().Z
			top = ops[i].Max().Z + deltas[i]
		}
		forms := []struct {
			name string
			s    model3d.Solid
		}{{"StackSolids", model3d.StackSolids(ops...)}, {"StackedSolid", model3d.StackedSolid(ops)}}
		for _, fm := range forms {
			if fm.s.Max().Z != top || fm.s.Min().Z != ops[0].Min().Z && len(l) == 1 {
				r.Violation("stack/bounds", fmt.Sprintf("%s%v: Max().Z=%g, reference top of the stack=%g", fm.name, l, fm.s.Max().Z, top), scase{Kind: "stack/" + fm.name, Ops: l})
			}
			for _, p := range pts {
				want := false
				for i, s := range ops {
					if s.Contains(p.Sub(model3d.Z(deltas[i]))) {
						want = true
						break
					}
				}
				r.Eval(1)
				if got := fm.s.Contains(p); got != want {
					r.Violation("stack/"+fm.name, fmt.Sprintf("%s%v at %v: Contains=%v, union of the translated operands (z offsets %v)=%v", fm.name, l, p, got, deltas, want), scase{Kind: "stack/" + fm.name, Ops: l, Point: pt3(p)})
				}
			}
		}
		if len(l) > 1 {
			r.NontrivialKey(fmt.Sprint("stack", l))
		}
	})
}

// ---------------------------------------------------------------- (C) smooth joins

type sdfN interface {
	model3d.SDF
	model3d.NormalSDF
}

func smooth3(r *ev.Run, maxLen int) {
	pool := []sdfN{
		&model3d.Sphere{Center: model3d.XYZ(0, 0, 0), Radius: 1},
		&model3d.Sphere{Center: model3d.XYZ(1.3, 0.2, 0.1), Radius: 0.8},
		model3d.NewRect(model3d.XYZ(-0.4, -1.6, -0.7), model3d.XYZ(0.9, -0.3, 0.6)),
		&model3d.Capsule{P1: model3d.XYZ(-1.2, 0.4, -0.3), P2: model3d.XYZ(0.6, 1.5, 0.4), Radius: 0.35},
		&model3d.Cylinder{P1: model3d.XYZ(0.2, -0.1, -1.4), P2: model3d.XYZ(0.5, 0.3, 1.3), Radius: 0.45},
	}
	// an off-lattice offset keeps query points away from exact ties
	var pts []c3
	for _, p := range lattice3(model3d.XYZ(-2.2, -2.4, -2.2), model3d.XYZ(2.8, 2.4, 2.2), 0.2) {
		pts = append(pts, p.Add(model3d.XYZ(0.0137, -0.0071, 0.0093)))
	}
	D := make([][]float64, len(pool))
	for i, s := range pool {
		D[i] = make([]float64, len(pts))
		for j, p := range pts {
			D[i][j] = s.SDF(p)
		}
	}
	radii := []float64{0, 0.1, 0.5}
	ls := allLists(len(pool), maxLen)
	// canonical result per (sorted multiset, radius, version)
	type ckey struct {
		set string
		ri  int
		v   int
	}
	canon := map[ckey][]bool{}
	canonFrom := map[ckey][]int{}
	results := make([][][]bool, len(ls)) // [list][ri*2+v][point]
	ev.Parallel(len(ls), 0, func(li int) {
		l := ls[li]
		s1 := make([]model3d.SDF, len(l))
		s2 := make([]model3d.NormalSDF, len(l))
		for i, x := range l {
			s1[i], s2[i] = pool[x], pool[x]
		}
		results[li] = make([][]bool, len(radii)*2)
		for ri, rad := range radii {
			for v := 0; v < 2; v++ {
				var sol model3d.Solid
				name := "SmoothJoin"
				if v == 0 {
					sol = model3d.SmoothJoin(rad, s1...)
				} else {
					sol = model3d.SmoothJoinV2(rad, s2...)
					name = "SmoothJoinV2"
				}
				res := make([]bool, len(pts))
				nontriv := false
				for pi, p := range pts {
					res[pi] = sol.Contains(p)
					r.Eval(1)
					union := false
					near := 0
					minAbs := math.Inf(1)
					for _, x := range l {
						d := D[x][pi]
						if d > 0 {
							union = true
						}
						if d > -rad-1e-9 {
							near++
						}
						minAbs = math.Min(minAbs, math.Abs(d))
					}
					if minAbs < 1e-9 {
						r.Skipped(1)
						continue
					}
					bad := func(kind, msg string) {
						r.Violation("smooth/"+kind, fmt.Sprintf("%s(r=%g, operands %v) at %v: %s", name, rad, l, p, msg), scase{Kind: "smooth/" + name, Ops: l, Radius: rad, Point: pt3(p)})
					}
					if union && !res[pi] {
						bad("loses-union", "the point is inside an operand but not in the smooth join")
					}
					if res[pi] && !union {
						nontriv = true
						if rad == 0 {
							bad("radius0", "radius 0 must equal the plain union, but a point outside every operand is contained")
						}
						if distinct(l) == 1 && len(l) == 1 {
							bad("single", "a single operand must not be inflated: sdf="+fmt.Sprint(D[l[0]][pi]))
						}
						if near < 2 {
							bad("locality", fmt.Sprintf("point added to the union although only %d operand(s) are within the radius (sdfs %v)", near, sdfsOf(D, l, pi)))
						}
					}
				}
				results[li][ri*2+v] = res
				if nontriv {
					r.NontrivialKey(fmt.Sprint("smooth", l, rad, v))
				}
			}
		}
	})
	// permutation invariance (sequential: compares with the first list of the same multiset)
	for li, l := range ls {
		srt := append([]int{}, l...)
		sort.Ints(srt)
		for ri, rad := range radii {
			for v := 0; v < 2; v++ {
				k := ckey{fmt.Sprint(srt), ri, v}
				res := results[li][ri*2+v]
				if c, ok := canon[k]; !ok {
					canon[k], canonFrom[k] = res, l
				} else {
					for pi := range res {
						if res[pi] != c[pi] {
							// skip exact three-way ties of the relevant distances
							name := []string{"SmoothJoin", "SmoothJoinV2"}[v]
							r.Violation("smooth/order", fmt.Sprintf("%s(r=%g) at %v: operand order %v gives %v but order %v gives %v", name, rad, pts[pi], l, res[pi], canonFrom[k], c[pi]),
								scase{Kind: "smooth/order/" + name, Ops: l, Radius: rad, Point: pt3(pts[pi])})
							break
						}
					}
				}
			}
		}
	}
}

func sdfsOf(D [][]float64, l []int, pi int) []float64 {
	var o []float64
	for _, x := range l {
		o = append(o, D[x][pi])
	}
	return o
}

type sdfN2 interface {
	model2d.SDF
	model2d.NormalSDF
}

func smooth2(r *ev.Run, maxLen int) {
	pool := []sdfN2{
		&model2d.Circle{Center: model2d.XY(0, 0), Radius: 1},
		&model2d.Circle{Center: model2d.XY(1.3, 0.2), Radius: 0.8},
		model2d.NewRect(model2d.XY(-0.4, -1.6), model2d.XY(0.9, -0.3)),
		&model2d.Capsule{P1: model2d.XY(-1.2, 0.4), P2: model2d.XY(0.6, 1.5), Radius: 0.35},
		model2d.NewTriangle(model2d.XY(-1.9, -1.2), model2d.XY(-0.6, -0.9), model2d.XY(-1.4, 0.3)),
	}
	var pts []model2d.Coord
	for x := -2.6; x <= 2.8; x += 0.05 {
		for y := -2.4; y <= 2.4; y += 0.05 {
			pts = append(pts, model2d.XY(x+0.0137, y-0.0071))
		}
	}
	D := make([][]float64, len(pool))
	for i, s := range pool {
		D[i] = make([]float64, len(pts))
		for j, p := range pts {
			D[i][j] = s.SDF(p)
		}
	}
	radii := []float64{0, 0.1, 0.5}
	ls := allLists(len(pool), maxLen)
	results := make([][][]bool, len(ls))
	ev.Parallel(len(ls), 0, func(li int) {
		l := ls[li]
		s1 := make([]model2d.SDF, len(l))
		s2 := make([]model2d.NormalSDF, len(l))
		for i, x := range l {
			s1[i], s2[i] = pool[x], pool[x]
		}
		results[li] = make([][]bool, len(radii)*2)
		for ri, rad := range radii {
			for v := 0; v < 2; v++ {
				var sol model2d.Solid
				name := "model2d.SmoothJoin"
				if v == 0 {
					sol = model2d.SmoothJoin(rad, s1...)
				} else {
					sol = model2d.SmoothJoinV2(rad, s2...)
					name = "model2d.SmoothJoinV2"
				}
				res := make([]bool, len(pts))
				for pi, p := range pts {
					res[pi] = sol.Contains(p)
					r.Eval(1)
					union := false
					near := 0
					minAbs := math.Inf(1)
					for _, x := range l {
						d := D[x][pi]
						if d > 0 {
							union = true
						}
						if d > -rad-1e-9 {
							near++
						}
						minAbs = math.Min(minAbs, math.Abs(d))
					}
					if minAbs < 1e-9 {
						r.Skipped(1)
						continue
					}
					bad := func(kind, msg string) {
						r.Violation("smooth2d/"+kind, fmt.Sprintf("%s(r=%g, operands %v) at %v: %s", name, rad, l, p, msg), scase{Kind: "smooth2/" + name, Ops: l, Radius: rad, Point: []float64{p.X, p.Y}})
					}
					if union && !res[pi] {
						bad("loses-union", "the point is inside an operand but not in the smooth join")
					}
					if res[pi] && !union {
						if rad == 0 {
							bad("radius0", "radius 0 must equal the plain union")
						}
						if len(l) == 1 {
							bad("single", "a single operand must not be inflated")
						}
						if near < 2 {
							bad("locality", fmt.Sprintf("point added although only %d operand(s) are within the radius", near))
						}
					}
				}
				results[li][ri*2+v] = res
			}
		}
		r.NontrivialKey(fmt.Sprint("smooth2", l))
	})
	canon := map[string][]bool{}
	canonFrom := map[string][]int{}
	for li, l := range ls {
		srt := append([]int{}, l...)
		sort.Ints(srt)
		for q := 0; q < len(radii)*2; q++ {
			k := fmt.Sprint(srt, q)
			res := results[li][q]
			if c, ok := canon[k]; !ok {
				canon[k], canonFrom[k] = res, l
			} else {
				for pi := range res {
					if res[pi] != c[pi] {
						r.Violation("smooth2d/order", fmt.Sprintf("2D smooth join (variant %d, r=%g) at %v: operand order %v gives %v but order %v gives %v", q%2+1, radii[q/2], pts[pi], l, res[pi], canonFrom[k], c[pi]),
							scase{Kind: "smooth2/order", Ops: l, Radius: radii[q/2], Point: []float64{pts[pi].X, pts[pi].Y}})
						break
					}
				}
			}
		}
	}
}

// ---------------------------------------------------------------- (D) RectSet histories

var rsBoxes = [][6]float64{
	{0, 0, 0, 2, 2, 2},
	{1, 1, 1, 3, 3, 3},
	{0, 0, 0, 3, 1, 1},
	{1, 1, 1, 2, 2, 2},
	{0, 0, 0, 1, 3, 3},
	{2, 2, 0, 3, 3, 3},
	{0, 0, 0, 3, 3, 3},
	{0, 0, 0, 1, 1, 1},
}

func rsRect(b [6]float64) *model3d.Rect {
	return model3d.NewRect(model3d.XYZ(b[0], b[1], b[2]), model3d.XYZ(b[3], b[4], b[5]))
}

func boxBits(b [6]float64) uint32 {
	var m uint32
	for x := 0; x < 3; x++ {
		for y := 0; y < 3; y++ {
			for z := 0; z < 3; z++ {
				if float64(x) >= b[0] && float64(x+1) <= b[3] && float64(y) >= b[1] && float64(y+1) <= b[4] && float64(z) >= b[2] && float64(z+1) <= b[5] {
					m |= 1 << uint(x*9+y*3+z)
				}
			}
		}
	}
	return m
}

// rsOps: op index -> name, effect on the reference bits and on the real set.
type rsOp struct {
	name string
	ref  func(uint32) uint32
	do   func(*toolbox3d.RectSet)
}

func rsOps() []rsOp {
	var ops []rsOp
	for i, b := range rsBoxes {
		b := b
		bits := boxBits(b)
		ops = append(ops, rsOp{fmt.Sprintf("Add(box%d)", i), func(s uint32) uint32 { return s | bits }, func(rs *toolbox3d.RectSet) { rs.Add(rsRect(b)) }})
		ops = append(ops, rsOp{fmt.Sprintf("Remove(box%d)", i), func(s uint32) uint32 { return s &^ bits }, func(rs *toolbox3d.RectSet) { rs.Remove(rsRect(b)) }})
	}
	// set-valued operands: {box3, box5} and {box2 minus box7}
	mk := []func() (*toolbox3d.RectSet, uint32){
		func() (*toolbox3d.RectSet, uint32) {
			o := toolbox3d.NewRectSet()
			o.Add(rsRect(rsBoxes[3]))
			o.Add(rsRect(rsBoxes[5]))
			return o, boxBits(rsBoxes[3]) | boxBits(rsBoxes[5])
		},
		func() (*toolbox3d.RectSet, uint32) {
			o := toolbox3d.NewRectSet()
			o.Add(rsRect(rsBoxes[2]))
			o.Add(rsRect(rsBoxes[4]))
			o.Remove(rsRect(rsBoxes[7]))
			return o, (boxBits(rsBoxes[2]) | boxBits(rsBoxes[4])) &^ boxBits(rsBoxes[7])
		},
	}
	for i, m := range mk {
		m := m
		_, bits := m()
		ops = append(ops, rsOp{fmt.Sprintf("AddRectSet(set%d)", i), func(s uint32) uint32 { return s | bits }, func(rs *toolbox3d.RectSet) { o, _ := m(); rs.AddRectSet(o) }})
		ops = append(ops, rsOp{fmt.Sprintf("RemoveRectSet(set%d)", i), func(s uint32) uint32 { return s &^ bits }, func(rs *toolbox3d.RectSet) { o, _ := m(); rs.RemoveRectSet(o) }})
	}
	return ops
}

// rsKey reads the exact internal representation (rect keys and split planes)
// through reflection; ok=false if the representation is not as expected.
func rsKey(rs *toolbox3d.RectSet) (string, bool) {
	v := reflect.ValueOf(rs).Elem()
	rects := v.FieldByName("rects")
	splits := v.FieldByName("splits")
	if !rects.IsValid() || !splits.IsValid() || rects.Kind() != reflect.Map || splits.Kind() != reflect.Array {
		return "", false
	}
	var ks []string
	for _, k := range rects.MapKeys() {
		var sb strings.Builder
		ok := true
		var walk func(x reflect.Value)
		walk = func(x reflect.Value) {
			switch x.Kind() {
			case reflect.Float64:
				fmt.Fprintf(&sb, "%g,", x.Float())
			case reflect.Struct:
				for i := 0; i < x.NumField(); i++ {
					walk(x.Field(i))
				}
			default:
				ok = false
			}
		}
		walk(k)
		if !ok {
			return "", false
		}
		ks = append(ks, sb.String())
	}
	sort.Strings(ks)
	var sb strings.Builder
	sb.WriteString(strings.Join(ks, ";"))
	sb.WriteString("|")
	for a := 0; a < splits.Len(); a++ {
		sl := splits.Index(a)
		for i := 0; i < sl.Len(); i++ {
			fmt.Fprintf(&sb, "%g,", sl.Index(i).Float())
		}
		sb.WriteString("/")
	}
	return sb.String(), true
}

func rsCheckState(r *ev.Run, ops []rsOp, hist []int, rs *toolbox3d.RectSet, bits uint32) {
	names := make([]string, len(hist))
	for i, h := range hist {
		names[i] = ops[h].name
	}
	var sol model3d.Solid
	if p := ev.Try(func() { sol = rs.Solid() }); p != "" {
		r.Violation("rectset/panic", fmt.Sprintf("history %v: Solid() panicked: %s", names, p), scase{Kind: "rectset", Hist: names})
		return
	}
	bad := func(kind, msg string, p c3) {
		r.Violation("rectset/"+kind, fmt.Sprintf("history %v: %s", names, msg), scase{Kind: "rectset", Hist: names, Point: pt3(p)})
	}
	occupied := func(x, y, z int) bool {
		if x < 0 || y < 0 || z < 0 || x > 2 || y > 2 || z > 2 {
			return false
		}
		return bits&(1<<uint(x*9+y*3+z)) != 0
	}
	// bounds of the reference
	if bits != 0 {
		lo, hi := [3]int{3, 3, 3}, [3]int{0, 0, 0}
		for x := 0; x < 3; x++ {
			for y := 0; y < 3; y++ {
				for z := 0; z < 3; z++ {
					if occupied(x, y, z) {
						for a, v := range [3]int{x, y, z} {
							if v < lo[a] {
								lo[a] = v
							}
							if v+1 > hi[a] {
								hi[a] = v + 1
							}
						}
					}
				}
			}
		}
		wmin, wmax := model3d.XYZ(float64(lo[0]), float64(lo[1]), float64(lo[2])), model3d.XYZ(float64(hi[0]), float64(hi[1]), float64(hi[2]))
		if rs.Min() != wmin || rs.Max() != wmax {
			bad("bounds", fmt.Sprintf("RectSet bounds %v..%v, occupied cells span %v..%v", rs.Min(), rs.Max(), wmin, wmax), c3{})
		}
		if sol.Min() != wmin || sol.Max() != wmax {
			bad("bounds", fmt.Sprintf("Solid() bounds %v..%v, occupied cells span %v..%v", sol.Min(), sol.Max(), wmin, wmax), c3{})
		}
	}
	for i := -1; i <= 7; i++ {
		for j := -1; j <= 7; j++ {
			for k := -1; k <= 7; k++ {
				p := model3d.XYZ(float64(i)/2, float64(j)/2, float64(k)/2)
				// closed union of occupied cells
				want := false
				rng := func(h int) (int, int) { // cells whose closed interval contains h/2
					if h%2 != 0 {
						c := (h - 1) / 2
						if h < 0 {
							c = -1
						}
						return c, c
					}
					return h/2 - 1, h / 2
				}
				x0, x1 := rng(i)
				y0, y1 := rng(j)
				z0, z1 := rng(k)
				for x := x0; x <= x1 && !want; x++ {
					for y := y0; y <= y1 && !want; y++ {
						for z := z0; z <= z1; z++ {
							if occupied(x, y, z) {
								want = true
								break
							}
						}
					}
				}
				r.Eval(1)
				var got bool
				if pn := ev.Try(func() { got = sol.Contains(p) }); pn != "" {
					bad("panic", "Solid().Contains panicked: "+pn, p)
					return
				}
				if got != want {
					bad("contains", fmt.Sprintf("Solid().Contains(%v)=%v, closed union of the occupied cells says %v (occupancy %027b)", p, got, want, bits), p)
					return
				}
			}
		}
	}
}

func rectsetBFS(r *ev.Run, maxDepth int, maxStates int) {
	ops := rsOps()
	type st struct {
		hist []int
		bits uint32
	}
	build := func(hist []int) *toolbox3d.RectSet {
		rs := toolbox3d.NewRectSet()
		for _, h := range hist {
			ops[h].do(rs)
		}
		return rs
	}
	seen := map[string]bool{}
	k0, reflOK := rsKey(toolbox3d.NewRectSet())
	r.Set("rectset_state_key", map[bool]string{true: "exact internal representation (rect keys + split planes)", false: "history (representation not readable): no merging"}[reflOK])
	seen[k0] = true
	r.StateKey("rs:" + k0)
	frontier := []st{{nil, 0}}
	rsCheckState(r, ops, nil, toolbox3d.NewRectSet(), 0)
	occSeen := map[uint32]bool{0: true}
	depth := 0
	for len(frontier) > 0 && depth < maxDepth {
		depth++
		type succ struct {
			hist []int
			bits uint32
			key  string
		}
		res := make([][]succ, len(frontier))
		ev.Parallel(len(frontier), 0, func(fi int) {
			s := frontier[fi]
			for oi, op := range ops {
				hist := append(append([]int{}, s.hist...), oi)
				var rs *toolbox3d.RectSet
				if p := ev.Try(func() { rs = build(hist) }); p != "" {
					names := []string{}
					for _, h := range hist {
						names = append(names, ops[h].name)
					}
					r.Violation("rectset/panic", fmt.Sprintf("history %v panicked: %s", names, p), scase{Kind: "rectset", Hist: names})
					continue
				}
				r.Transitions(1)
				r.Traces(1)
				bits := op.ref(s.bits)
				rsCheckState(r, ops, hist, rs, bits)
				key, ok := rsKey(rs)
				if !ok {
					key = fmt.Sprint(hist)
				}
				res[fi] = append(res[fi], succ{hist, bits, key})
			}
		})
		var next []st
		for _, ss := range res {
			for _, s := range ss {
				if !seen[s.key] {
					seen[s.key] = true
					r.StateKey("rs:" + s.key)
					occSeen[s.bits] = true
					next = append(next, st{s.hist, s.bits})
				}
			}
		}
		frontier = next
		if len(seen) > maxStates {
			break
		}
	}
	if len(frontier) > 0 {
		r.Set("rectset_bfs", fmt.Sprintf("depth %d completed, %d states, frontier %d not expanded (bound)", depth, len(seen), len(frontier)))
	} else {
		r.Set("rectset_bfs", fmt.Sprintf("closed at depth %d, %d states", depth, len(seen)))
	}
	r.Set("rectset_distinct_occupancies", len(occSeen))
	for b := range occSeen {
		r.NontrivialKey(fmt.Sprint("occ", b))
	}
}

// rectsetPairs enumerates every operation history of length <= depth on TWO live box sets A and B (Add/Remove of
// boxes on either, A.AddRectSet(B), B.AddRectSet(A), A.RemoveRectSet(B)) and checks both sets after every history
// against their occupancy references. Histories are NOT merged by representation: two pairs with equal contents
// may differ in what they share (a set built from another one must not alias its storage), and that is exactly
// what these histories are for.
func rectsetPairs(r *ev.Run, depth int) {
	boxes := [][6]float64{{0, 0, 0, 1, 1, 1}, {1, 0, 0, 2, 1, 1}, {0, 0, 0, 3, 1, 1}, {1, 1, 1, 3, 3, 3}, {0, 2, 0, 1, 3, 2}}
	type pairOp struct {
		name string
		do   func(a, b *toolbox3d.RectSet)
		ref  func(a, b uint32) (uint32, uint32)
	}
	var ops []pairOp
	for i, bx := range boxes {
		bx := bx
		bits := boxBits(bx)
		ops = append(ops,
			pairOp{fmt.Sprintf("A.Add(box%d)", i), func(a, b *toolbox3d.RectSet) { a.Add(rsRect(bx)) }, func(a, b uint32) (uint32, uint32) { return a | bits, b }},
			pairOp{fmt.Sprintf("B.Add(box%d)", i), func(a, b *toolbox3d.RectSet) { b.Add(rsRect(bx)) }, func(a, b uint32) (uint32, uint32) { return a, b | bits }})
	}
	rb := boxBits(boxes[1])
	ops = append(ops,
		pairOp{"A.Remove(box1)", func(a, b *toolbox3d.RectSet) { a.Remove(rsRect(boxes[1])) }, func(a, b uint32) (uint32, uint32) { return a &^ rb, b }},
		pairOp{"B.Remove(box1)", func(a, b *toolbox3d.RectSet) { b.Remove(rsRect(boxes[1])) }, func(a, b uint32) (uint32, uint32) { return a, b &^ rb }},
		pairOp{"A.AddRectSet(B)", func(a, b *toolbox3d.RectSet) { a.AddRectSet(b) }, func(a, b uint32) (uint32, uint32) { return a | b, b }},
		pairOp{"B.AddRectSet(A)", func(a, b *toolbox3d.RectSet) { b.AddRectSet(a) }, func(a, b uint32) (uint32, uint32) { return a, b | a }},
		pairOp{"A.RemoveRectSet(B)", func(a, b *toolbox3d.RectSet) { a.RemoveRectSet(b) }, func(a, b uint32) (uint32, uint32) { return a &^ b, b }})
	// all histories of length exactly `depth` (every prefix is checked on the way, once, through a prefix set)
	total := 1
	for i := 0; i < depth; i++ {
		total *= len(ops)
	}
	var checked sync.Map
	var nHist int64
	ev.Parallel(total, 16, func(idx int) {
		hist := make([]int, depth)
		x := idx
		for i := depth - 1; i >= 0; i-- {
			hist[i] = x % len(ops)
			x /= len(ops)
		}
		a, b := toolbox3d.NewRectSet(), toolbox3d.NewRectSet()
		var ra, rb2 uint32
		for step, h := range hist {
			names := make([]string, step+1)
			for i := 0; i <= step; i++ {
				names[i] = ops[hist[i]].name
			}
			if p := ev.Try(func() { ops[h].do(a, b) }); p != "" {
				r.Violation("rectset-pair/panic", fmt.Sprintf("history %v panicked: %s", names, p), scase{Kind: "rectset-pair", Hist: names})
				return
			}
			ra, rb2 = ops[h].ref(ra, rb2)
			key := fmt.Sprint(hist[:step+1])
			if _, dup := checked.LoadOrStore(key, true); dup {
				continue
			}
			atomic.AddInt64(&nHist, 1)
			r.Transitions(1)
			r.Traces(1)
			pairCheck(r, names, "A", a, ra)
			pairCheck(r, names, "B", b, rb2)
		}
	})
	r.Set("rectset_pair_histories", atomic.LoadInt64(&nHist))
	r.Set("rectset_pair_depth", depth)
	r.StatesAdd(int(atomic.LoadInt64(&nHist)))
}

func pairCheck(r *ev.Run, names []string, which string, rs *toolbox3d.RectSet, bits uint32) {
	occupied := func(x, y, z int) bool {
		if x < 0 || y < 0 || z < 0 || x > 2 || y > 2 || z > 2 {
			return false
		}
		return bits&(1<<uint(x*9+y*3+z)) != 0
	}
	var sol model3d.Solid
	if p := ev.Try(func() { sol = rs.Solid() }); p != "" {
		r.Violation("rectset-pair/panic", fmt.Sprintf("history %v: %s.Solid() panicked: %s", names, which, p), scase{Kind: "rectset-pair", Hist: names})
		return
	}
	// cell centres decide the occupancy; bounds must span the occupied cells
	for x := 0; x < 3; x++ {
		for y := 0; y < 3; y++ {
			for z := 0; z < 3; z++ {
				p := model3d.XYZ(float64(x)+0.5, float64(y)+0.5, float64(z)+0.5)
				r.Eval(1)
				if got := sol.Contains(p); got != occupied(x, y, z) {
					r.Violation("rectset-pair/contains", fmt.Sprintf("history %v: set %s: Solid().Contains(%v)=%v, the cell is occupied=%v", names, which, p, got, occupied(x, y, z)), scase{Kind: "rectset-pair", Hist: names, Point: pt3(p)})
					return
				}
			}
		}
	}
	if bits != 0 {
		lo, hi := [3]int{3, 3, 3}, [3]int{0, 0, 0}
		for x := 0; x < 3; x++ {
			for y := 0; y < 3; y++ {
				for z := 0; z < 3; z++ {
					if occupied(x, y, z) {
						for a, v := range [3]int{x, y, z} {
							if v < lo[a] {
								lo[a] = v
							}
							if v+1 > hi[a] {
								hi[a] = v + 1
							}
						}
					}
				}
			}
		}
		wmin, wmax := model3d.XYZ(float64(lo[0]), float64(lo[1]), float64(lo[2])), model3d.XYZ(float64(hi[0]), float64(hi[1]), float64(hi[2]))
		if rs.Min() != wmin || rs.Max() != wmax {
			r.Violation("rectset-pair/bounds", fmt.Sprintf("history %v: set %s has bounds %v..%v, its occupied cells span %v..%v", names, which, rs.Min(), rs.Max(), wmin, wmax), scase{Kind: "rectset-pair", Hist: names})
		}
	}
}

// ---------------------------------------------------------------- main

// rectsetNear: box sets over coordinates that are one rounding step apart (0.1+0.2 beside 0.3, 0.1+0.7 beside 0.8 -
// what summed lengths give). Every history of up to three Add/Remove of the boxes [a,b] x [0,1]^2 over those
// coordinates; the set's solid against the fold of the operations, at points well inside the gaps between the
// coordinates (no probe in the one-step slivers, none on a face).
func rectsetNear(r *ev.Run, depth int) {
	// (summed at run time: the compiler adds constants exactly, and then 0.1+0.2 is 0.3)
	tenth, fifth, seven := 0.1, 0.2, 0.7
	xs := []float64{0, 0.1, 0.3, tenth + fifth, 0.5, 0.8, tenth + seven}
	if xs[2] == xs[3] || xs[5] == xs[6] {
		ev.Fatal("rectset-near: the summed coordinates are not one step away from the literals")
	}
	type bx struct{ a, b float64 }
	var boxes []bx
	for _, a := range xs {
		for _, b := range xs {
			if b-a > 1e-3 {
				boxes = append(boxes, bx{a, b})
			}
		}
	}
	sorted := append([]float64{}, xs...)
	sort.Float64s(sorted)
	var probes []float64
	for i := 0; i+1 < len(sorted); i++ {
		if sorted[i+1]-sorted[i] > 1e-3 {
			probes = append(probes, (sorted[i]+sorted[i+1])/2)
		}
	}
	probes = append(probes, -0.05, 0.85)
	nOps := 2 * len(boxes)
	var hists [][]int
	lists(nOps, depth, func(l []int) { hists = append(hists, append([]int{}, l...)) })
	var nt int64
	ev.Parallel(len(hists), 0, func(hi int) {
		h := hists[hi]
		r.Eval(1)
		rs := toolbox3d.NewRectSet()
		names := make([]string, len(h))
		inside := make([]bool, len(probes))
		if p := ev.Try(func() {
			for i, o := range h {
				b := boxes[o/2]
				rect := model3d.NewRect(model3d.XYZ(b.a, 0, 0), model3d.XYZ(b.b, 1, 1))
				if o%2 == 0 {
					names[i] = fmt.Sprintf("Add([%v,%v])", b.a, b.b)
					rs.Add(rect)
				} else {
					names[i] = fmt.Sprintf("Remove([%v,%v])", b.a, b.b)
					rs.Remove(rect)
				}
				for pi, x := range probes {
					if x > b.a && x < b.b {
						inside[pi] = o%2 == 0
					}
				}
			}
		}); p != "" {
			r.Violation("rectset-near/panic", fmt.Sprintf("%v: %s", names, p), scase{Kind: "rectset-near", Hist: names})
			return
		}
		sol := rs.Solid()
		some := false
		for pi, x := range probes {
			some = some || inside[pi]
			for _, yz := range [][2]float64{{0.5, 0.5}, {0.01, 0.99}} {
				if got := sol.Contains(model3d.XYZ(x, yz[0], yz[1])); got != inside[pi] {
					r.Violation("rectset-near/contains", fmt.Sprintf("%v: the box set's solid says %v at x=%v, the operations in turn give %v", names, got, x, inside[pi]), scase{Kind: "rectset-near", Hist: names, Point: []float64{x, yz[0], yz[1]}})
					return
				}
			}
		}
		if some {
			atomic.AddInt64(&nt, 1)
		}
	})
	r.NontrivialAdd(int(nt))
	r.Set("rectset_near_histories", len(hists))
}

func main() {
	r := ev.Start("C04", "model_checking")
	r.Rule("distinct_nontrivial = operand lists with at least two distinct operands on which union and intersection differ somewhere, expression trees with a non-empty result, smooth joins that add at least one point to the union, stack lists of length > 1, and distinct RectSet occupancies reached")
	r.Assume("operands' own Contains is the ground truth (boolean formula is evaluated on it)", "dyadic coordinates make stacking offsets exact",
		"smooth-join query points within 1e-9 of an operand surface are skipped", "RectSet boxes lie on the integer 3x3x3 cell grid")
	if r.Replay != "" {
		var c scase
		r.LoadReplay(&c)
		replay(r, c)
		r.Finish()
	}
	maxLen, muxLen, smLen, rsDepth, rsStates := 3, 4, 3, 4, 4000
	if r.Thorough() {
		maxLen, muxLen, smLen, rsDepth, rsStates = 4, 6, 4, 12, 200000
	}
	r.Isolate("algebra3", func() { algebra3(r, maxLen, muxLen) })
	r.Isolate("algebra2", func() { algebra2(r, maxLen) })
	r.Isolate("stacks", func() { stacks(r, maxLen) })
	r.Isolate("smooth3", func() { smooth3(r, smLen) })
	r.Isolate("smooth2", func() { smooth2(r, smLen) })
	r.Isolate("rectset", func() { rectsetBFS(r, rsDepth, rsStates) })
	pairDepth := 4
	if r.Thorough() {
		pairDepth = 5
	}
	r.Isolate("rectset-pairs", func() { rectsetPairs(r, pairDepth) })
	nearDepth := 2
	if r.Thorough() {
		nearDepth = 3
	}
	r.Isolate("rectset-near", func() { rectsetNear(r, nearDepth) })
	r.Sample(scase{Kind: "algebra3", Ops: []int{0, 4, 6}, Point: []float64{0.25, 0, 0}})
	r.Sample(scase{Kind: "smooth/SmoothJoin", Ops: []int{2, 0, 3}, Radius: 0.5, Point: []float64{0.2137, -0.2071, 0.2093}})
	r.Sample(scase{Kind: "rectset", Hist: []string{"Add(box0)", "Remove(box3)", "AddRectSet(set1)"}})
	r.Finish()
}

// replay re-runs the stage a replay file names, restricted by nothing: the
// stages are cheap, and the violation keys identify the case.
func replay(r *ev.Run, c scase) {
	switch {
	case strings.HasPrefix(c.Kind, "algebra3"), c.Kind == "tree3":
		algebra3(r, len(c.Ops)+1, 0)
	case strings.HasPrefix(c.Kind, "algebra2"):
		algebra2(r, len(c.Ops))
	case strings.HasPrefix(c.Kind, "stack"):
		stacks(r, len(c.Ops))
	case strings.HasPrefix(c.Kind, "smooth2"):
		smooth2(r, len(c.Ops))
	case strings.HasPrefix(c.Kind, "smooth"):
		smooth3(r, len(c.Ops))
	case c.Kind == "rectset-near":
		rectsetNear(r, len(c.Hist))
	case c.Kind == "rectset-pair":
		rectsetPairs(r, len(c.Hist))
	case c.Kind == "rectset":
		rectsetBFS(r, len(c.Hist), 1<<30)
	}
}
