// C09: a mesh always answers as the plain set of its current faces would.
// Explicit-state BFS over operation histories (engine E4): every transition
// is executed on the real object and on a boring reference (Go map / face
// list); after every transition the complete query set is compared.
package main

import (
	"fmt"
	"math"
	"time"

	"github.com/unixpickle/model3d/model2d"
	"github.com/unixpickle/model3d/model3d"

	"verif/lib/cat"
	"verif/lib/ev"
	"verif/lib/lat"
	"verif/lib/meshq"
)

type editCase struct {
	Mesh     string `json:"mesh"`
	Op       string `json:"op"`
	Prebuilt bool   `json:"index_prebuilt"`
}

// withWatchdog runs f; a run longer than d is abandoned (not a verdict).
func withWatchdog(d time.Duration, f func()) (panicMsg string, timedOut bool) {
	done := make(chan string, 1)
	go func() { done <- ev.Try(f) }()
	select {
	case p := <-done:
		return p, false
	case <-time.After(d):
		return "", true
	}
}

// bevelOverVertex is a closed mesh whose bevelled base has a vertex directly
// above an existing base vertex, the situation FlattenBase documents as its
// use case (rounded base edges) in its simplest form.
func bevelOverVertex() cat.Named3 {
	p := model3d.XYZ
	// base square at z=0 with centre vertex; ring at z=0.1 directly above the base corners but
	// pulled outward on two sides only; top at z=1.
	b := []model3d.Coord3D{p(0, 0, 0), p(1, 0, 0), p(1, 1, 0), p(0, 1, 0)}
	r := []model3d.Coord3D{p(-0.3, -0.3, 0.1), p(1, 0, 0.1), p(1.3, 1.3, 0.1), p(0, 1, 0.1)}
	t := []model3d.Coord3D{p(-0.3, -0.3, 1), p(1, 0, 1), p(1.3, 1.3, 1), p(0, 1, 1)}
	var ts [][3]model3d.Coord3D
	quad := func(a, b, c, d model3d.Coord3D) {
		ts = append(ts, [3]model3d.Coord3D{a, b, d}, [3]model3d.Coord3D{b, c, d})
	}
	quad(b[0], b[3], b[2], b[1])
	quad(t[0], t[1], t[2], t[3])
	for i := 0; i < 4; i++ {
		j := (i + 1) % 4
		quad(b[i], b[j], r[j], r[i])
		quad(r[i], r[j], t[j], t[i])
	}
	return cat.Named3{Name: "bevel-over-vertex", Tris: ts, Comps: 1}
}

// openAndCoincident are meshes outside the closed-manifold catalogue: surfaces with a boundary (an "ear" whose
// boundary vertex belongs to a single face, fans, strips) and meshes in which a vertex sits exactly at the midpoint
// of an edge of another face - the inputs on which an editor that patches the vertex index by hand meets keys it
// forgot to delete or keys that already exist. Every mesh also comes with its faces' vertices rotated.
func openAndCoincident() []cat.Named3 {
	p := model3d.XYZ
	type T = [3]model3d.Coord3D
	base := []cat.Named3{
		{Name: "single-triangle", Tris: []T{{p(0, 0, 0), p(2, 0, 0), p(0, 2, 0)}}},
		{Name: "two-triangles", Tris: []T{{p(0, 0, 0), p(2, 0, 0), p(0, 2, 0)}, {p(2, 0, 0), p(2, 2, 0.5), p(0, 2, 0)}}},
		{Name: "ear", Tris: []T{{p(0, 0, 0), p(2, 0, 0), p(1, 2, 0)}, {p(2, 0, 0), p(3, 2, 0), p(1, 2, 0)}, {p(2, 0, 0), p(4, 0, 0.5), p(3, 2, 0)}, {p(1, 2, 0), p(3, 2, 0), p(2, 4, 0)}}},
		{Name: "open-fan", Tris: []T{{p(0, 0, 0), p(2, 0, 0), p(1, 2, 0)}, {p(0, 0, 0), p(1, 2, 0), p(-1, 2, 0.5)}, {p(0, 0, 0), p(-1, 2, 0.5), p(-2, 0, 0)}, {p(0, 0, 0), p(-2, 0, 0), p(-1, -2, 0.25)}}},
		{Name: "strip", Tris: []T{{p(0, 0, 0), p(1, 0, 0), p(0, 1, 0)}, {p(1, 0, 0), p(1, 1, 0), p(0, 1, 0)}, {p(1, 0, 0), p(2, 0, 0.5), p(1, 1, 0)}, {p(2, 0, 0.5), p(2, 1, 0.5), p(1, 1, 0)}, {p(2, 0, 0.5), p(3, 0, 0), p(2, 1, 0.5)}}},
		{Name: "vertex-at-edge-midpoint", Tris: []T{{p(0, 0, 0), p(2, 0, 0), p(1, 2, 0)}, {p(2, 0, 0), p(0, 0, 0), p(1, -2, 0)}, {p(1, 0, 0), p(1, 0, 3), p(1, 1, 3)}, {p(1, 0, 0), p(1, -1, 3), p(1, 0, 3)}}},
		{Name: "t-junction", Tris: []T{{p(0, 0, 0), p(2, 0, 0), p(1, 2, 0)}, {p(0, 0, 0), p(1, -2, 0), p(1, 0, 0)}, {p(1, 0, 0), p(1, -2, 0), p(2, 0, 0)}}},
		{Name: "tetra-with-fin", Tris: []T{{p(0, 0, 0), p(0, 2, 0), p(2, 0, 0)}, {p(0, 0, 0), p(2, 0, 0), p(0, 0, 2)}, {p(0, 0, 0), p(0, 0, 2), p(0, 2, 0)}, {p(2, 0, 0), p(0, 2, 0), p(0, 0, 2)}, {p(2, 0, 0), p(4, 0, 0), p(3, 0, 2)}}},
	}
	var out []cat.Named3
	for _, b := range base {
		for rot := 0; rot < 3; rot++ {
			v := cat.Named3{Name: fmt.Sprintf("%s/rot%d", b.Name, rot), Comps: 1}
			for _, t := range b.Tris {
				v.Tris = append(v.Tris, T{t[rot], t[(rot+1)%3], t[(rot+2)%3]})
			}
			out = append(out, v)
		}
	}
	return out
}

func editors3(r *ev.Run) {
	meshes := cat.Closed3(!r.Thorough())
	meshes = append(meshes, bevelOverVertex())
	meshes = append(meshes, openAndCoincident()...)
	type op struct {
		name string
		run  func(m *model3d.Mesh) *model3d.Mesh
	}
	ops := []op{
		{"FlattenBase(0)", func(m *model3d.Mesh) *model3d.Mesh { return m.FlattenBase(0) }},
		{"FlattenBase(1.5)", func(m *model3d.Mesh) *model3d.Mesh { return m.FlattenBase(1.5) }},
		{"EliminateEdges(all)", func(m *model3d.Mesh) *model3d.Mesh {
			return m.EliminateEdges(func(*model3d.Mesh, model3d.Segment) bool { return true })
		}},
		{"EliminateEdges(short)", func(m *model3d.Mesh) *model3d.Mesh {
			return m.EliminateEdges(func(_ *model3d.Mesh, s model3d.Segment) bool { return s.Length() < 1.2 })
		}},
		{"EliminateCoplanar", func(m *model3d.Mesh) *model3d.Mesh { return m.EliminateCoplanar(1e-8) }},
		{"FlipDelaunay", func(m *model3d.Mesh) *model3d.Mesh { return m.FlipDelaunay() }},
		{"Subdivider(all edges)", func(m *model3d.Mesh) *model3d.Mesh {
			s := model3d.NewSubdivider()
			s.AddFiltered(m, func(p1, p2 model3d.Coord3D) bool { return true })
			s.Subdivide(m, func(p1, p2 model3d.Coord3D) model3d.Coord3D { return p1.Mid(p2) })
			return m
		}},
		{"Subdivider(long edges)", func(m *model3d.Mesh) *model3d.Mesh {
			s := model3d.NewSubdivider()
			s.AddFiltered(m, func(p1, p2 model3d.Coord3D) bool { return p1.Dist(p2) > 1.2 })
			s.Subdivide(m, func(p1, p2 model3d.Coord3D) model3d.Coord3D { return p1.Mid(p2) })
			return m
		}},
		{"Repair", func(m *model3d.Mesh) *model3d.Mesh { return m.Repair(1e-5) }},
		{"Blur(0.5)", func(m *model3d.Mesh) *model3d.Mesh { return m.Blur(0.5) }},
		{"SmoothAreas", func(m *model3d.Mesh) *model3d.Mesh { return m.SmoothAreas(0.05, 2) }},
		{"SubdivideEdges(2)", func(m *model3d.Mesh) *model3d.Mesh { return model3d.SubdivideEdges(m, 2) }},
		{"LoopSubdivision(1)", func(m *model3d.Mesh) *model3d.Mesh { return model3d.LoopSubdivision(m, 1) }},
		{"DecimateSimple", func(m *model3d.Mesh) *model3d.Mesh { return model3d.DecimateSimple(m, 0.05) }},
	}
	for _, nm := range meshes {
		for _, o := range ops {
			for _, pre := range []bool{false, true} {
				c := editCase{nm.Name, o.name, pre}
				r.Eval(1)
				var out, in *model3d.Mesh
				var probes []model3d.Coord3D
				pm, to := withWatchdog(30*time.Second, func() {
					in = nm.Mesh()
					probes = in.VertexSlice()
					if !pre {
						in = in.Copy()
					}
					out = o.run(in)
				})
				if to {
					r.NotExhaustive("editor " + o.name + " on " + nm.Name + " exceeded the 30 s watchdog (judged by C10, not here)")
					continue
				}
				if pm != "" {
					// crashes of editors on valid closed manifolds are C10's business; here only consistency is judged
					r.Skipped(1)
					continue
				}
				var pr string
				if p := ev.Try(func() { pr = meshq.Check3(out, nil, probes, nil) }); p != "" {
					pr = "panic in query: " + p
				}
				if pr != "" {
					r.Violation("edit3d/"+o.name+"/stale-index", fmt.Sprintf("mesh returned by %s on %s (index prebuilt=%v): %s", o.name, nm.Name, pre, pr), c)
				}
				r.NontrivialKey("edit3d/" + nm.Name + "/" + o.name)
			}
		}
	}
	// meshers that rewrite vertices in place
	for bits := uint64(1); bits < 256; bits++ {
		s := lat.NewSolid3(model3d.Coord3D{}, 1, [3]int{2, 2, 2}, bits)
		type mk struct {
			name string
			run  func() *model3d.Mesh
		}
		for _, g := range []mk{
			{"MarchingCubesSearch", func() *model3d.Mesh { return model3d.MarchingCubesSearch(s, 1, 3) }},
			{"DualContour(repair,clip)", func() *model3d.Mesh { return model3d.DualContour(s, 1, true, true) }},
			{"DualContour(clip)", func() *model3d.Mesh { return model3d.DualContour(s, 1, false, true) }},
		} {
			r.Eval(1)
			var out *model3d.Mesh
			pm, to := withWatchdog(30*time.Second, func() { out = g.run() })
			if to || pm != "" {
				r.Skipped(1)
				continue
			}
			var pr string
			if p := ev.Try(func() { pr = meshq.Check3(out, nil, nil, nil) }); p != "" {
				pr = "panic in query: " + p
			}
			if pr != "" {
				r.Violation("edit3d/"+g.name+"/stale-index", fmt.Sprintf("mesh returned by %s for lattice bits %x: %s", g.name, bits, pr), editCase{fmt.Sprintf("lattice222/%x", bits), g.name, false})
			}
		}
	}
}

func editors2(r *ev.Run) {
	type op struct {
		name string
		run  func(m *model2d.Mesh) *model2d.Mesh
	}
	ops := []op{
		{"Subdivide(1)", func(m *model2d.Mesh) *model2d.Mesh { return m.Subdivide(1) }},
		{"Smooth(2)", func(m *model2d.Mesh) *model2d.Mesh { return m.Smooth(2) }},
		{"Blur(0.5)", func(m *model2d.Mesh) *model2d.Mesh { return m.Blur(0.5) }},
		{"Decimate(4)", func(m *model2d.Mesh) *model2d.Mesh { return m.Decimate(4) }},
		{"Repair", func(m *model2d.Mesh) *model2d.Mesh { return m.Repair(1e-5) }},
		{"Invert", func(m *model2d.Mesh) *model2d.Mesh { return m.Invert() }},
		{"Scale", func(m *model2d.Mesh) *model2d.Mesh { return m.Scale(-2) }},
		{"Rotate", func(m *model2d.Mesh) *model2d.Mesh { return m.Rotate(math.Pi / 3) }},
	}
	for _, nm := range cat.Closed2() {
		for _, o := range ops {
			for _, pre := range []bool{false, true} {
				r.Eval(1)
				var out *model2d.Mesh
				var probes []model2d.Coord
				pm, to := withWatchdog(30*time.Second, func() {
					in := nm.Mesh()
					probes = in.VertexSlice()
					if !pre {
						in = in.Copy()
					}
					out = o.run(in)
				})
				if to || pm != "" {
					r.Skipped(1)
					continue
				}
				var pr string
				if p := ev.Try(func() { pr = meshq.Check2(out, nil, probes, nil) }); p != "" {
					pr = "panic in query: " + p
				}
				if pr != "" {
					r.Violation("edit2d/"+o.name+"/stale-index", fmt.Sprintf("mesh returned by %s on %s: %s", o.name, nm.Name, pr), editCase{nm.Name, o.name, pre})
				}
				r.NontrivialKey("edit2d/" + nm.Name + "/" + o.name)
			}
		}
	}
	for bits := uint64(1); bits < 512; bits++ {
		s := lat.NewSolid2(model2d.Coord{}, 1, [2]int{3, 3}, bits)
		r.Eval(1)
		var out *model2d.Mesh
		pm, to := withWatchdog(30*time.Second, func() { out = model2d.MarchingSquaresSearch(s, 1, 3) })
		if to || pm != "" {
			r.Skipped(1)
			continue
		}
		if pr := meshq.Check2(out, nil, nil, nil); pr != "" {
			r.Violation("edit2d/MarchingSquaresSearch/stale-index", fmt.Sprintf("lattice bits %x: %s", bits, pr), editCase{fmt.Sprintf("lattice33/%x", bits), "MarchingSquaresSearch", false})
		}
	}
}

func replay(r *ev.Run) {
	b := struct {
		Type string  `json:"type"`
		Hist []mapOp `json:"history"`
		Dim  int     `json:"dim"`
		Mesh string  `json:"mesh"`
	}{}
	r.LoadReplay(&b)
	switch {
	case b.Type != "":
		c3, e3 := families3(r)
		c2, e2 := families2(r)
		for _, f := range c3 {
			if f.name == b.Type {
				if p, _, _, _ := runHistory(f, b.Hist, true); p != "" {
					r.Violation("maps/"+f.name+"/replay", p, nil)
				}
			}
		}
		for _, f := range e3 {
			if f.name == b.Type {
				if p, _, _, _ := runHistory(f, b.Hist, true); p != "" {
					r.Violation("maps/"+f.name+"/replay", p, nil)
				}
			}
		}
		for _, f := range c2 {
			if f.name == b.Type {
				if p, _, _, _ := runHistory(f, b.Hist, true); p != "" {
					r.Violation("maps/"+f.name+"/replay", p, nil)
				}
			}
		}
		for _, f := range e2 {
			if f.name == b.Type {
				if p, _, _, _ := runHistory(f, b.Hist, true); p != "" {
					r.Violation("maps/"+f.name+"/replay", p, nil)
				}
			}
		}
	case b.Dim == 3 || b.Dim == 2:
		var mc meshCase
		r.LoadReplay(&mc)
		if mc.Dim == 3 {
			s, p := runMesh3(mc.Hist)
			if p == "" {
				_, p = derived3(s)
			}
			if p != "" {
				r.Violation("mesh3d/replay", p, nil)
			}
		} else {
			s, p := runMesh2(mc.Hist)
			if p == "" {
				_, p = derived2(s)
			}
			if p != "" {
				r.Violation("mesh2d/replay", p, nil)
			}
		}
	default:
		editors3(r)
		editors2(r)
	}
	r.StatesAdd(1)
	r.Transitions(1)
	r.Sample("replay")
	r.Finish()
}

func main() {
	r := ev.Start("C09", "model_checking")
	if r.Replay != "" {
		replay(r)
	}
	r.Rule("explicit-state BFS over operation histories to closure: 12 coordinate-keyed map types over keys {A, B, A' colliding with A in the fast hash, (0,0,0), (-0,-0,-0)} with Store/Delete/Append|Add; " +
		"3D and 2D meshes over a 7-face pool (shared edge, value-identical duplicate, degenerate face, face through the colliding key, faces through +0 and -0) with Add/Remove/index-touch/AddMesh/Copy; every mesh-returning method evaluated in every state; " +
		"library in-place editors on the mesh catalogue with and without a prebuilt index. State key = bit-exact stored keys + values + fast/slow mode + index built. non-trivial = mesh states with >= 2 faces, editor x mesh pairs, map families that crossed fast->slow")
	r.Assume("reference = ordinary Go map / linear scan over the face list with == on coordinates",
		"merged states (same stored keys, values, mode bits) have the same futures because no other field exists in the structures")
	maxDepth, maxLen := 64, 2
	c3, e3 := families3(r)
	c2, e2 := families2(r)
	r.Isolate("maps", func() {
		for _, f := range c3 {
			bfsMap(r, f, maxDepth, maxLen)
		}
		for _, f := range e3 {
			bfsMap(r, f, maxDepth, maxLen)
		}
		for _, f := range c2 {
			bfsMap(r, f, maxDepth, maxLen)
		}
		for _, f := range e2 {
			bfsMap(r, f, maxDepth, maxLen)
		}
	})
	r.Isolate("mesh3", func() { bfsMesh3(r) })
	r.Isolate("mesh2", func() { bfsMesh2(r) })
	r.Isolate("editors3", func() { editors3(r) })
	r.Isolate("editors2", func() { editors2(r) })
	r.Finish()
}
