package main

import (
	"fmt"
	"sort"
	"strings"

	"github.com/unixpickle/model3d/model3d"

	"verif/lib/ev"
	"verif/lib/meshq"
)

type meshOp struct {
	Op   string `json:"op"` // add | remove | touch | addmesh | copy
	Face int    `json:"face"`
}

type meshCase struct {
	Dim     int      `json:"dim"`
	Hist    []meshOp `json:"history"`
	Derived string   `json:"derived,omitempty"`
}

type pool3 struct {
	verts []model3d.Coord3D
	faces []*model3d.Triangle
}

func newPool3() *pool3 {
	A, B := model3d.XYZ(1, 0, 0), model3d.XYZ(0, 1, 0)
	Ap, _ := collide3(A)
	Z, NZ := model3d.XYZ(0, 0, 0), model3d.XYZ(negZero, negZero, negZero)
	C, D := model3d.XYZ(0, 0, 1), model3d.XYZ(1, 1, 1)
	return &pool3{
		verts: []model3d.Coord3D{A, B, Ap, Z, NZ, C, D, model3d.XYZ(7, 7, 7)},
		faces: []*model3d.Triangle{
			{A, B, C}, {B, A, D}, {A, B, C}, {A, A, B}, {Ap, B, C}, {Z, A, C}, {NZ, B, D},
		},
	}
}

type meshState3 struct {
	key  string // canonical state key, taken before any query touches the mesh
	m    *model3d.Mesh
	ref  []*model3d.Triangle // insertion-ordered list of current faces
	pool *pool3
	// after a "fork" the original stays alive next to its Copy: edits of one must
	// never show through the other
	other     *model3d.Mesh
	otherRef  []*model3d.Triangle
	sinceFork int
}

func (s *meshState3) has(f *model3d.Triangle) int {
	for i, t := range s.ref {
		if t == f {
			return i
		}
	}
	return -1
}

func (s *meshState3) apply(o meshOp) {
	switch o.Op {
	case "add":
		f := s.pool.faces[o.Face]
		s.m.Add(f)
		if s.has(f) < 0 {
			s.ref = append(s.ref, f)
		}
	case "remove":
		f := s.pool.faces[o.Face]
		s.m.Remove(f)
		if i := s.has(f); i >= 0 {
			s.ref = append(s.ref[:i:i], s.ref[i+1:]...)
		}
	case "touch":
		s.m.Find(s.pool.verts[0])
	case "addmesh":
		sub := model3d.NewMesh()
		for _, i := range []int{0, 1, 4} {
			sub.Add(s.pool.faces[i])
		}
		if o.Face == 1 {
			sub.Find(s.pool.verts[0])
		}
		s.m.AddMesh(sub)
		for _, i := range []int{0, 1, 4} {
			if s.has(s.pool.faces[i]) < 0 {
				s.ref = append(s.ref, s.pool.faces[i])
			}
		}
	case "copy":
		s.m = s.m.Copy()
	case "fork":
		s.other, s.otherRef = s.m, append([]*model3d.Triangle{}, s.ref...)
		s.m = s.m.Copy()
	case "swap":
		s.m, s.other = s.other, s.m
		s.ref, s.otherRef = s.otherRef, s.ref
	}
	if s.other != nil {
		s.sinceFork++
	}
}

func (s *meshState3) canon() string {
	mask := 0
	for i, f := range s.pool.faces {
		if s.has(f) >= 0 {
			mask |= 1 << uint(i)
		}
	}
	built, fast, _ := model3d.VerifMeshIndexState(s.m)
	key := fmt.Sprintf("3d|%x|%v|%v", mask, built, fast)
	if s.other != nil {
		omask := 0
		for i, f := range s.pool.faces {
			for _, t := range s.otherRef {
				if t == f {
					omask |= 1 << uint(i)
				}
			}
		}
		ob, of, _ := model3d.VerifMeshIndexState(s.other)
		key += fmt.Sprintf("|fork:%x|%v|%v", omask, ob, of)
	}
	if built {
		var sp []string
		for _, v := range s.m.VertexSlice() {
			sp = append(sp, bits3(v.Add(model3d.Coord3D{}))) // -0 -> +0: which of the two equal keys the lazy index stores depends on map order (not owned here) and is invisible to the oracle
		}
		sort.Strings(sp)
		key += "|" + strings.Join(sp, ";")
	}
	return key
}

func runMesh3(hist []meshOp) (*meshState3, string) {
	s := &meshState3{m: model3d.NewMesh(), pool: newPool3()}
	for i, o := range hist {
		if p := ev.Try(func() { s.apply(o) }); p != "" {
			return s, fmt.Sprintf("panic in step %d %v: %s", i+1, o, p)
		}
	}
	// the key must be taken first: the queries below build the lazy index of this instance
	s.key = s.canon()
	var pr string
	if p := ev.Try(func() {
		pr = meshq.Check3(s.m, s.ref, s.pool.verts, s.pool.faces)
		if pr == "" && s.other != nil {
			if pr = meshq.Check3(s.other, s.otherRef, s.pool.verts, s.pool.faces); pr != "" {
				pr = "the other mesh of a Copy pair (edited only through its twin): " + pr
			}
		}
	}); p != "" {
		pr = "panic in query: " + p
	}
	return s, pr
}

func mapFaces3(ts []*model3d.Triangle, g func(model3d.Coord3D) model3d.Coord3D) []*model3d.Triangle {
	out := make([]*model3d.Triangle, len(ts))
	for i, t := range ts {
		out[i] = &model3d.Triangle{g(t[0]), g(t[1]), g(t[2])}
	}
	return out
}

// derived3 checks every mesh-returning method on the state.
func derived3(s *meshState3) (which, problem string) {
	A, B := s.pool.verts[0], s.pool.verts[1]
	chk := func(name string, got *model3d.Mesh, want []*model3d.Triangle, cyclic bool) string {
		if a, b := meshq.FaceMultiset3(got.TriangleSlice(), cyclic), meshq.FaceMultiset3(want, cyclic); a != b {
			return fmt.Sprintf("%s: result has faces\n%s\nwant\n%s", name, a, b)
		}
		if p := meshq.Check3(got, nil, s.pool.verts, nil); p != "" {
			return name + ": result mesh inconsistent: " + p
		}
		return ""
	}
	id := func(c model3d.Coord3D) model3d.Coord3D { return c }
	type d struct {
		name string
		run  func() *model3d.Mesh
		want []*model3d.Triangle
		cyc  bool
	}
	swap := func(c model3d.Coord3D) model3d.Coord3D {
		if c == A {
			return B
		} else if c == B {
			return A
		}
		return c
	}
	merge := func(c model3d.Coord3D) model3d.Coord3D {
		if c == A {
			return B
		}
		return c
	}
	neg := func(c model3d.Coord3D) model3d.Coord3D { return c.Scale(-1) }
	tr := func(c model3d.Coord3D) model3d.Coord3D { return c.Add(model3d.XYZ(1, 2, 3)) }
	rev := func(ts []*model3d.Triangle) []*model3d.Triangle {
		out := make([]*model3d.Triangle, len(ts))
		for i, t := range ts {
			out[i] = &model3d.Triangle{t[1], t[0], t[2]}
		}
		return out
	}
	ds := []d{
		{"Copy", s.m.Copy, s.ref, false},
		{"DeepCopy", s.m.DeepCopy, s.ref, false},
		{"MapCoords(id)", func() *model3d.Mesh { return s.m.MapCoords(id) }, s.ref, false},
		{"MapCoords(swap)", func() *model3d.Mesh { return s.m.MapCoords(swap) }, mapFaces3(s.ref, swap), false},
		{"MapCoords(merge)", func() *model3d.Mesh { return s.m.MapCoords(merge) }, mapFaces3(s.ref, merge), false},
		{"MapCoords(negate)", func() *model3d.Mesh { return s.m.MapCoords(neg) }, mapFaces3(s.ref, neg), false},
		{"Scale(-1)", func() *model3d.Mesh { return s.m.Scale(-1) }, mapFaces3(s.ref, neg), false},
		{"Translate", func() *model3d.Mesh { return s.m.Translate(model3d.XYZ(1, 2, 3)) }, mapFaces3(s.ref, tr), false},
		{"Transform(Translate)", func() *model3d.Mesh { return s.m.Transform(&model3d.Translate{Offset: model3d.XYZ(1, 2, 3)}) }, mapFaces3(s.ref, tr), false},
		{"NewMeshTriangles(TriangleSlice)", func() *model3d.Mesh { return model3d.NewMeshTriangles(s.m.TriangleSlice()) }, s.ref, false},
		{"AddQuad", func() *model3d.Mesh {
			m := s.m.Copy()
			q := m.AddQuad(A, B, s.pool.verts[5], s.pool.verts[6])
			if q[0] == nil || q[1] == nil || q[0] == q[1] {
				return model3d.NewMesh() // reported as a face mismatch below
			}
			return m
		}, nil, false},
		{"InvertNormals", s.m.InvertNormals, rev(s.ref), true},
		{"InvertNormals.InvertNormals", func() *model3d.Mesh { return s.m.InvertNormals().InvertNormals() }, s.ref, true},
	}
	for _, x := range ds {
		var got *model3d.Mesh
		if p := ev.Try(func() { got = x.run() }); p != "" {
			return x.name, x.name + ": panic: " + p
		}
		if x.name == "AddQuad" {
			// two new faces that tile the quad A B C D with its orientation: together they traverse the four sides
			// once each in the given direction and one diagonal in both directions
			C, D := s.pool.verts[5], s.pool.verts[6]
			if got.NumTriangles() != len(s.ref)+2 {
				return x.name, fmt.Sprintf("AddQuad: %d faces after adding a quad to %d", got.NumTriangles(), len(s.ref))
			}
			var added []*model3d.Triangle
			for _, t := range got.TriangleSlice() {
				if s.has(t) < 0 {
					added = append(added, t)
				}
			}
			dir := map[[2]model3d.Coord3D]int{}
			for _, t := range added {
				for k := 0; k < 3; k++ {
					dir[[2]model3d.Coord3D{t[k], t[(k+1)%3]}]++
				}
			}
			ok := len(added) == 2 && dir[[2]model3d.Coord3D{A, B}] == 1 && dir[[2]model3d.Coord3D{B, C}] == 1 && dir[[2]model3d.Coord3D{C, D}] == 1 && dir[[2]model3d.Coord3D{D, A}] == 1 &&
				(dir[[2]model3d.Coord3D{A, C}] == 1 && dir[[2]model3d.Coord3D{C, A}] == 1 || dir[[2]model3d.Coord3D{B, D}] == 1 && dir[[2]model3d.Coord3D{D, B}] == 1)
			if !ok {
				return x.name, fmt.Sprintf("AddQuad(A,B,C,D) added faces %v, which do not tile the quad in its orientation", added)
			}
			continue
		}
		if pr := chk(x.name, got, x.want, x.cyc); pr != "" {
			return x.name, pr
		}
		if x.name == "DeepCopy" {
			for _, t := range got.TriangleSlice() {
				if s.has(t) >= 0 {
					return x.name, "DeepCopy shares a face pointer with the original"
				}
			}
		}
		if x.name == "Copy" {
			if p := meshq.Check3(got, s.ref, s.pool.verts, s.pool.faces); p != "" {
				return x.name, "Copy: " + p
			}
		}
	}
	// IterateSorted: every current face once, in the order of the comparison (here: position in the face pool)
	var seen []int
	pos := func(t *model3d.Triangle) int { return s.has(t) }
	s.m.IterateSorted(func(t *model3d.Triangle) { seen = append(seen, pos(t)) }, func(a, b *model3d.Triangle) bool { return pos(a) > pos(b) })
	if len(seen) != len(s.ref) {
		return "IterateSorted", fmt.Sprintf("IterateSorted visited %d faces, the mesh has %d", len(seen), len(s.ref))
	}
	for i, v := range seen {
		if v < 0 || (i > 0 && seen[i-1] < v) {
			return "IterateSorted", fmt.Sprintf("IterateSorted visited pool positions %v: not the mesh's faces in descending order", seen)
		}
	}
	// IterateVertices while the callback edits the mesh: "if f adds or removes vertices, they will not be visited".
	// The first visited vertex removes every face; nothing is left to visit after it, in whatever order vertices come.
	if len(s.ref) > 0 {
		cp := s.m.Copy()
		visits, stale := 0, 0
		cp.IterateVertices(func(c model3d.Coord3D) {
			visits++
			if len(cp.Find(c)) == 0 {
				stale++
			}
			for _, t := range cp.TriangleSlice() {
				cp.Remove(t)
			}
		})
		if visits != 1 || stale != 0 {
			return "IterateVertices", fmt.Sprintf("IterateVertices visited %d vertices (%d of them without a face at that moment) although the first visit removed every face", visits, stale)
		}
	}
	// the original must be unchanged by all of the above
	if p := meshq.Check3(s.m, s.ref, s.pool.verts, s.pool.faces); p != "" {
		return "original-after-derived", "original mesh changed by a mesh-returning method: " + p
	}
	return "", ""
}

func classifyMesh(problem string) string {
	switch {
	case strings.Contains(problem, "InvertNormals"):
		return "InvertNormals"
	case strings.Contains(problem, "0,0,0") || strings.Contains(problem, "-0"):
		return "signed-zero-vertex"
	}
	return "divergence"
}

func bfsMesh3(r *ev.Run) {
	p := newPool3()
	var ops []meshOp
	for i := range p.faces {
		ops = append(ops, meshOp{"add", i}, meshOp{"remove", i})
	}
	ops = append(ops, meshOp{"touch", 0}, meshOp{"addmesh", 0}, meshOp{"addmesh", 1}, meshOp{"copy", 0}, meshOp{"fork", 0}, meshOp{"swap", 0})
	forkDepth := 3
	if r.Thorough() {
		forkDepth = 5
	}
	s0, _ := runMesh3(nil)
	r.StateKey(s0.key)
	frontier := [][]meshOp{nil}
	fastSlow := 0
	for len(frontier) > 0 {
		var next [][]meshOp
		for _, h := range frontier {
			forked, since := false, 0
			for _, x := range h {
				if x.Op == "fork" {
					forked = true
				}
				if forked {
					since++
				}
			}
			for _, o := range ops {
				if (o.Op == "fork" || o.Op == "copy") && forked || o.Op == "swap" && !forked || forked && since >= forkDepth {
					continue
				}
				hist := append(append([]meshOp{}, h...), o)
				s, problem := runMesh3(hist)
				r.Transitions(1)
				r.Traces(1)
				r.Eval(1)
				if problem != "" {
					r.Violation("mesh3d/"+classifyMesh(problem), problem, meshCase{3, hist, ""})
					continue
				}
				if !r.StateKey(s.key) {
					continue
				}
				if strings.Contains(s.key, "|true|false") {
					fastSlow++
				}
				next = append(next, hist)
				if len(hist) == 5 {
					r.Sample(meshCase{3, hist, ""})
				}
				if s.other != nil {
					continue // derived meshes are checked in the unforked states
				}
				which, pr := derived3(s)
				r.Eval(11)
				if pr != "" {
					r.Violation("mesh3d/"+which, pr, meshCase{3, hist, which})
				}
				if len(s.ref) >= 2 {
					r.NontrivialAdd(1)
				}
			}
		}
		frontier = next
	}
	r.AddTo("mesh_states_with_slow_index", int64(fastSlow))
}
