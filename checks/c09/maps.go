package main

import (
	"fmt"
	"math"
	"sort"
	"strings"

	"github.com/unixpickle/model3d/model2d"
	"github.com/unixpickle/model3d/model3d"

	"verif/lib/ev"
)

// impl is a uniform view of one coordinate-keyed map under test. Values are
// always []int (scalar maps use one element).
type impl[K comparable] struct {
	Len        func() int
	Load       func(K) ([]int, bool)
	Value      func(K) []int
	Store      func(K, []int)
	Delete     func(K)
	Acc        func(K, int) []int // Append / Add, nil if the type has none
	KeyRange   func(func(K) bool)
	ValueRange func(func([]int) bool)
	Range      func(func(K, []int) bool)
	Fast       func() bool
	Scalar     bool
}

type scalarAPI[K comparable] interface {
	Len() int
	Load(K) (int, bool)
	Value(K) int
	Store(K, int)
	Delete(K)
	KeyRange(func(K) bool)
	ValueRange(func(int) bool)
	Range(func(K, int) bool)
}

type sliceAPI[K comparable] interface {
	Len() int
	Load(K) ([]int, bool)
	Value(K) []int
	Store(K, []int)
	Delete(K)
	Append(K, int) []int
	KeyRange(func(K) bool)
	ValueRange(func([]int) bool)
	Range(func(K, []int) bool)
}

func fromScalar[K comparable](m scalarAPI[K], fast func() bool, add func(K, int) int) impl[K] {
	im := impl[K]{Scalar: true, Len: m.Len, Delete: m.Delete, KeyRange: m.KeyRange, Fast: fast}
	im.Load = func(k K) ([]int, bool) {
		v, ok := m.Load(k)
		if !ok {
			if v != 0 {
				return []int{v}, false
			}
			return nil, false
		}
		return []int{v}, true
	}
	im.Value = func(k K) []int { return []int{m.Value(k)} }
	im.Store = func(k K, v []int) { m.Store(k, v[0]) }
	im.ValueRange = func(f func([]int) bool) { m.ValueRange(func(v int) bool { return f([]int{v}) }) }
	im.Range = func(f func(K, []int) bool) { m.Range(func(k K, v int) bool { return f(k, []int{v}) }) }
	if add != nil {
		im.Acc = func(k K, x int) []int { return []int{add(k, x)} }
	}
	return im
}

func fromSlice[K comparable](m sliceAPI[K], fast func() bool) impl[K] {
	cp := func(v []int) []int { return append([]int{}, v...) }
	return impl[K]{Len: m.Len, Delete: m.Delete, KeyRange: m.KeyRange, Fast: fast,
		Load:       func(k K) ([]int, bool) { v, ok := m.Load(k); return cp(v), ok },
		Value:      func(k K) []int { return cp(m.Value(k)) },
		Store:      func(k K, v []int) { m.Store(k, cp(v)) },
		Acc:        func(k K, x int) []int { return cp(m.Append(k, x)) },
		ValueRange: func(f func([]int) bool) { m.ValueRange(func(v []int) bool { return f(cp(v)) }) },
		Range:      func(f func(K, []int) bool) { m.Range(func(k K, v []int) bool { return f(k, cp(v)) }) },
	}
}

type mapOp struct {
	Op  string `json:"op"` // store | delete | acc
	Key int    `json:"key"`
	Val []int  `json:"val,omitempty"`
}

func (o mapOp) String() string { return fmt.Sprintf("%s(k%d,%v)", o.Op, o.Key, o.Val) }

type mapCase struct {
	Type string  `json:"type"`
	Hist []mapOp `json:"history"`
}

type mapFamily[K comparable] struct {
	name    string
	keys    []K
	keyBits func(K) string
	mk      func() impl[K]
}

func valStr(v []int) string { return fmt.Sprint(v) }

// applyRef applies op to the reference (an ordinary Go map).
func applyRef[K comparable](ref map[K][]int, keys []K, o mapOp, scalar bool) {
	k := keys[o.Key]
	switch o.Op {
	case "store":
		ref[k] = append([]int{}, o.Val...)
	case "delete":
		delete(ref, k)
	case "acc":
		if scalar {
			old := 0
			if v, ok := ref[k]; ok {
				old = v[0]
			}
			ref[k] = []int{old + o.Val[0]}
		} else {
			ref[k] = append(append([]int{}, ref[k]...), o.Val[0])
		}
	}
}

func applyImpl[K comparable](m impl[K], keys []K, o mapOp) (ret []int) {
	k := keys[o.Key]
	switch o.Op {
	case "store":
		m.Store(k, o.Val)
	case "delete":
		m.Delete(k)
	case "acc":
		ret = m.Acc(k, o.Val[0])
	}
	return
}

// compareMap evaluates the complete query set on both sides.
func compareMap[K comparable](m impl[K], ref map[K][]int, keys []K, lastOp *mapOp, lastRet []int) string {
	if m.Len() != len(ref) {
		return fmt.Sprintf("Len()=%d, ordinary map has %d", m.Len(), len(ref))
	}
	for i, k := range keys {
		v, ok := m.Load(k)
		rv, rok := ref[k]
		if ok != rok || (ok && valStr(v) != valStr(rv)) {
			return fmt.Sprintf("Load(k%d)=(%v,%v), ordinary map gives (%v,%v)", i, v, ok, rv, rok)
		}
		if !ok && len(v) != 0 {
			return fmt.Sprintf("Load(k%d) returned non-zero value %v with ok=false", i, v)
		}
		vv := m.Value(k)
		if rok && valStr(vv) != valStr(rv) {
			return fmt.Sprintf("Value(k%d)=%v, ordinary map gives %v", i, vv, rv)
		}
		if !rok && !(len(vv) == 0 || (m.Scalar && vv[0] == 0)) {
			return fmt.Sprintf("Value(k%d)=%v for an absent key", i, vv)
		}
	}
	if lastOp != nil && lastOp.Op == "acc" {
		if want := ref[keys[lastOp.Key]]; valStr(lastRet) != valStr(want) {
			return fmt.Sprintf("%v returned %v, want %v", *lastOp, lastRet, want)
		}
	}
	// Range / KeyRange / ValueRange as multisets
	want := []string{}
	wantV := []string{}
	for k, v := range ref {
		idx := -1
		for i, kk := range keys {
			if kk == k {
				idx = i
				break
			}
		}
		want = append(want, fmt.Sprintf("k%d=%v", idx, v))
		wantV = append(wantV, valStr(v))
	}
	sort.Strings(want)
	sort.Strings(wantV)
	keyIdx := func(k K) int {
		for i, kk := range keys {
			if kk == k {
				return i
			}
		}
		return -1
	}
	var got, gotK, gotV []string
	m.Range(func(k K, v []int) bool { got = append(got, fmt.Sprintf("k%d=%v", keyIdx(k), v)); return true })
	m.KeyRange(func(k K) bool { gotK = append(gotK, fmt.Sprintf("k%d=%v", keyIdx(k), ref[k])); return true })
	m.ValueRange(func(v []int) bool { gotV = append(gotV, valStr(v)); return true })
	sort.Strings(got)
	sort.Strings(gotK)
	sort.Strings(gotV)
	if strings.Join(got, ",") != strings.Join(want, ",") {
		return fmt.Sprintf("Range yields {%s}, ordinary map holds {%s}", strings.Join(got, ","), strings.Join(want, ","))
	}
	if strings.Join(gotK, ",") != strings.Join(want, ",") {
		return fmt.Sprintf("KeyRange yields {%s}, ordinary map holds {%s}", strings.Join(gotK, ","), strings.Join(want, ","))
	}
	if strings.Join(gotV, ",") != strings.Join(wantV, ",") {
		return fmt.Sprintf("ValueRange yields {%s}, want {%s}", strings.Join(gotV, ","), strings.Join(wantV, ","))
	}
	if len(ref) > 1 {
		n := 0
		m.Range(func(K, []int) bool { n++; return false })
		if n != 1 {
			return fmt.Sprintf("Range did not stop after f returned false (%d calls)", n)
		}
		n = 0
		m.KeyRange(func(K) bool { n++; return false })
		if n != 1 {
			return fmt.Sprintf("KeyRange did not stop after f returned false (%d calls)", n)
		}
		n = 0
		m.ValueRange(func([]int) bool { n++; return false })
		if n != 1 {
			return fmt.Sprintf("ValueRange did not stop after f returned false (%d calls)", n)
		}
	}
	return ""
}

func canonMap[K comparable](f *mapFamily[K], m impl[K]) string {
	var ents []string
	m.Range(func(k K, v []int) bool { ents = append(ents, f.keyBits(k)+"="+valStr(v)); return true })
	sort.Strings(ents)
	return fmt.Sprintf("%v|%s", m.Fast(), strings.Join(ents, ";"))
}

// runHistory replays hist on a fresh map and a fresh reference, checking after
// every step. It returns the first problem, the final objects and whether the
// last step crossed fast -> slow.
func runHistory[K comparable](f *mapFamily[K], hist []mapOp, checkAll bool) (problem string, m impl[K], ref map[K][]int, crossed bool) {
	m = f.mk()
	ref = map[K][]int{}
	for i := range hist {
		was := m.Fast()
		var ret []int
		if p := ev.Try(func() { ret = applyImpl(m, f.keys, hist[i]) }); p != "" {
			return fmt.Sprintf("panic in %v: %s", hist[i], p), m, ref, false
		}
		applyRef(ref, f.keys, hist[i], m.Scalar)
		crossed = was && !m.Fast()
		if checkAll || i == len(hist)-1 {
			var pr string
			if p := ev.Try(func() { pr = compareMap(m, ref, f.keys, &hist[i], ret) }); p != "" {
				pr = "panic in query: " + p
			}
			if pr != "" {
				return fmt.Sprintf("after step %d %v: %s", i+1, hist[i], pr), m, ref, crossed
			}
		}
	}
	return "", m, ref, crossed
}

func classify(problem string, hist []mapOp, zeroKeys map[int]bool) string {
	// the specific failing class: does the shortest failing history involve both spellings of zero?
	seen := map[int]bool{}
	for _, o := range hist {
		if zeroKeys[o.Key] {
			seen[o.Key] = true
		}
	}
	if len(seen) >= 1 && (strings.Contains(problem, "k3") || strings.Contains(problem, "k4") || strings.Contains(problem, "Len")) {
		return "signed-zero-key"
	}
	return "map-divergence"
}

func bfsMap[K comparable](r *ev.Run, f *mapFamily[K], maxDepth, maxLen int) {
	probe := f.mk()
	var ops []mapOp
	for k := range f.keys {
		ops = append(ops, mapOp{"store", k, []int{1}}, mapOp{"store", k, []int{2}}, mapOp{"delete", k, nil})
		if probe.Acc != nil {
			ops = append(ops, mapOp{"acc", k, []int{1}})
			if !probe.Scalar {
				ops = append(ops, mapOp{"acc", k, []int{2}})
			}
		}
	}
	type node struct{ hist []mapOp }
	frontier := []node{{nil}}
	r.StateKey(f.name + "|" + canonMap(f, probe))
	crossings := 0
	depth := 0
	reported := map[string]bool{}
	for len(frontier) > 0 && depth < maxDepth {
		depth++
		var next []node
		for _, nd := range frontier {
			for _, o := range ops {
				hist := append(append([]mapOp{}, nd.hist...), o)
				// value cap keeps the space finite
				problem, m, ref, crossed := runHistory(f, hist, false)
				r.Transitions(1)
				r.Traces(1)
				r.Eval(1)
				if crossed {
					crossings++
				}
				if problem != "" {
					cls := classify(problem, hist, map[int]bool{3: true, 4: true})
					key := "maps/" + f.name + "/" + cls
					if !reported[key] {
						reported[key] = true
					}
					r.Violation(key, problem, mapCase{f.name, hist})
					continue
				}
				tooBig := false
				for _, v := range ref {
					if len(v) > maxLen || (m.Scalar && v[0] > 3) {
						tooBig = true
					}
				}
				if tooBig {
					continue
				}
				if r.StateKey(f.name + "|" + canonMap(f, m)) {
					next = append(next, node{hist})
					if len(hist) == 4 {
						r.Sample(mapCase{f.name, hist})
					}
				}
			}
		}
		frontier = next
	}
	if len(frontier) > 0 {
		r.NotExhaustive(fmt.Sprintf("map BFS for %s cut at depth %d with %d frontier states", f.name, maxDepth, len(frontier)))
	}
	r.AddTo("map_transitions_crossing_fast_to_slow", int64(crossings))
	r.NontrivialAdd(0)
	for i := 0; i < crossings && i < 1; i++ {
		r.NontrivialKey("crossed/" + f.name)
	}
}

// ---- key alphabets ----

func bits3(c model3d.Coord3D) string {
	return fmt.Sprintf("%x,%x,%x", math.Float64bits(c.X), math.Float64bits(c.Y), math.Float64bits(c.Z))
}
func bits2(c model2d.Coord) string {
	return fmt.Sprintf("%x,%x", math.Float64bits(c.X), math.Float64bits(c.Y))
}

// collide3 finds A' = (0,0,z) with the same 64-bit hash as a (verified through
// the hook). Returns false if none is found among the candidates.
func collide3(a model3d.Coord3D) (model3d.Coord3D, bool) {
	target := model3d.VerifFastHash64(a)
	z0 := math.Float64frombits(target) / 0.98439472938948227499
	z := z0
	for i := 0; i < 64; i++ {
		z = math.Nextafter(z, math.Inf(-1))
	}
	for i := 0; i < 128; i++ {
		c := model3d.XYZ(0, 0, z)
		if model3d.VerifFastHash64(c) == target && c != a {
			return c, true
		}
		z = math.Nextafter(z, math.Inf(1))
	}
	return model3d.Coord3D{}, false
}

func collide2(a model2d.Coord) (model2d.Coord, bool) {
	target := model2d.VerifFastHash64(a)
	y0 := math.Float64frombits(target) / 0.12938729312040294193
	y := y0
	for i := 0; i < 64; i++ {
		y = math.Nextafter(y, math.Inf(-1))
	}
	for i := 0; i < 128; i++ {
		c := model2d.XY(0, y)
		if model2d.VerifFastHash64(c) == target && c != a {
			return c, true
		}
		y = math.Nextafter(y, math.Inf(1))
	}
	return model2d.Coord{}, false
}

var negZero = math.Copysign(0, -1)

func families3(r *ev.Run) (coordFams []*mapFamily[model3d.Coord3D], edgeFams []*mapFamily[[2]model3d.Coord3D]) {
	A, B := model3d.XYZ(1, 0, 0), model3d.XYZ(0, 1, 0)
	Ap, ok := collide3(A)
	if !ok {
		// the hash is not the linear one the construction inverts (a change to the hash function alone does not
		// break the property): run without a colliding pair and say so
		Ap = model3d.XYZ(0, 0, 0.5)
		r.Assume("no colliding 3D key could be constructed for the current hash function: the fast-map fallback to a real map was not driven through a collision")
	}
	Z, NZ := model3d.XYZ(0, 0, 0), model3d.XYZ(negZero, negZero, negZero)
	keys := []model3d.Coord3D{A, B, Ap, Z, NZ}
	r.Set("colliding_key_3d", fmt.Sprintf("%v collides with %v (hash %x)", Ap, A, model3d.VerifFastHash64(A)))
	ekeys := [][2]model3d.Coord3D{{A, B}, {Ap, B}, {B, A}, {Z, A}, {NZ, A}}
	eb := func(k [2]model3d.Coord3D) string { return bits3(k[0]) + "/" + bits3(k[1]) }
	coordFams = []*mapFamily[model3d.Coord3D]{
		{"3d.CoordMap", keys, bits3, func() impl[model3d.Coord3D] {
			m := model3d.NewCoordMap[int]()
			return fromScalar[model3d.Coord3D](m, func() bool { return model3d.VerifCoordMapIsFast(m) }, nil)
		}},
		{"3d.CoordToNumber", keys, bits3, func() impl[model3d.Coord3D] {
			m := model3d.NewCoordToNumber[int]()
			return fromScalar[model3d.Coord3D](m, func() bool { return model3d.VerifCoordToNumberIsFast(m) }, m.Add)
		}},
		{"3d.CoordToSlice", keys, bits3, func() impl[model3d.Coord3D] {
			m := model3d.NewCoordToSlice[int]()
			return fromSlice[model3d.Coord3D](m, func() bool { return model3d.VerifCoordToSliceIsFast(m) })
		}},
	}
	edgeFams = []*mapFamily[[2]model3d.Coord3D]{
		{"3d.EdgeMap", ekeys, eb, func() impl[[2]model3d.Coord3D] {
			m := model3d.NewEdgeMap[int]()
			return fromScalar[[2]model3d.Coord3D](m, func() bool { return model3d.VerifEdgeMapIsFast(m) }, nil)
		}},
		{"3d.EdgeToNumber", ekeys, eb, func() impl[[2]model3d.Coord3D] {
			m := model3d.NewEdgeToNumber[int]()
			return fromScalar[[2]model3d.Coord3D](m, func() bool { return model3d.VerifEdgeToNumberIsFast(m) }, m.Add)
		}},
		{"3d.EdgeToSlice", ekeys, eb, func() impl[[2]model3d.Coord3D] {
			m := model3d.NewEdgeToSlice[int]()
			return fromSlice[[2]model3d.Coord3D](m, func() bool { return model3d.VerifEdgeToSliceIsFast(m) })
		}},
	}
	return
}

func families2(r *ev.Run) (coordFams []*mapFamily[model2d.Coord], edgeFams []*mapFamily[[2]model2d.Coord]) {
	A, B := model2d.XY(1, 0), model2d.XY(0.5, 1)
	Ap, ok := collide2(A)
	if !ok {
		Ap = model2d.XY(0, 0.5)
		r.Assume("no colliding 2D key could be constructed for the current hash function: the fast-map fallback to a real map was not driven through a collision")
	}
	Z, NZ := model2d.XY(0, 0), model2d.XY(negZero, negZero)
	keys := []model2d.Coord{A, B, Ap, Z, NZ}
	r.Set("colliding_key_2d", fmt.Sprintf("%v collides with %v (hash %x)", Ap, A, model2d.VerifFastHash64(A)))
	ekeys := [][2]model2d.Coord{{A, B}, {Ap, B}, {B, A}, {Z, A}, {NZ, A}}
	eb := func(k [2]model2d.Coord) string { return bits2(k[0]) + "/" + bits2(k[1]) }
	coordFams = []*mapFamily[model2d.Coord]{
		{"2d.CoordMap", keys, bits2, func() impl[model2d.Coord] {
			m := model2d.NewCoordMap[int]()
			return fromScalar[model2d.Coord](m, func() bool { return model2d.VerifCoordMapIsFast(m) }, nil)
		}},
		{"2d.CoordToNumber", keys, bits2, func() impl[model2d.Coord] {
			m := model2d.NewCoordToNumber[int]()
			return fromScalar[model2d.Coord](m, func() bool { return model2d.VerifCoordToNumberIsFast(m) }, m.Add)
		}},
		{"2d.CoordToSlice", keys, bits2, func() impl[model2d.Coord] {
			m := model2d.NewCoordToSlice[int]()
			return fromSlice[model2d.Coord](m, func() bool { return model2d.VerifCoordToSliceIsFast(m) })
		}},
	}
	edgeFams = []*mapFamily[[2]model2d.Coord]{
		{"2d.EdgeMap", ekeys, eb, func() impl[[2]model2d.Coord] {
			m := model2d.NewEdgeMap[int]()
			return fromScalar[[2]model2d.Coord](m, func() bool { return model2d.VerifEdgeMapIsFast(m) }, nil)
		}},
		{"2d.EdgeToNumber", ekeys, eb, func() impl[[2]model2d.Coord] {
			m := model2d.NewEdgeToNumber[int]()
			return fromScalar[[2]model2d.Coord](m, func() bool { return model2d.VerifEdgeToNumberIsFast(m) }, m.Add)
		}},
		{"2d.EdgeToSlice", ekeys, eb, func() impl[[2]model2d.Coord] {
			m := model2d.NewEdgeToSlice[int]()
			return fromSlice[[2]model2d.Coord](m, func() bool { return model2d.VerifEdgeToSliceIsFast(m) })
		}},
	}
	return
}
