package main

import (
	"fmt"
	"sort"
	"strings"

	"github.com/unixpickle/model3d/model2d"

	"verif/lib/ev"
	"verif/lib/meshq"
)

type pool2 struct {
	verts []model2d.Coord
	faces []*model2d.Segment
}

func newPool2() *pool2 {
	A, B := model2d.XY(1, 0), model2d.XY(0.5, 1)
	Ap, _ := collide2(A)
	Z, NZ := model2d.XY(0, 0), model2d.XY(negZero, negZero)
	C, D := model2d.XY(2, 2), model2d.XY(3, 1)
	return &pool2{
		verts: []model2d.Coord{A, B, Ap, Z, NZ, C, D, model2d.XY(7, 7)},
		faces: []*model2d.Segment{
			{A, B}, {B, C}, {A, B}, {A, A}, {Ap, B}, {Z, A}, {NZ, D},
		},
	}
}

type meshState2 struct {
	key  string // canonical state key, taken before any query touches the mesh
	m    *model2d.Mesh
	ref  []*model2d.Segment // insertion-ordered list of current faces
	pool *pool2
	// after a "fork" the original stays alive next to its Copy: edits of one must
	// never show through the other
	other     *model2d.Mesh
	otherRef  []*model2d.Segment
	sinceFork int
}

func (s *meshState2) has(f *model2d.Segment) int {
	for i, t := range s.ref {
		if t == f {
			return i
		}
	}
	return -1
}

func (s *meshState2) apply(o meshOp) {
	switch o.Op {
	case "add":
		f := s.pool.faces[o.Face]
		s.m.Add(f)
		if s.has(f) < 0 {
			s.ref = append(s.ref, f)
		}
	case "remove":
		f := s.pool.faces[o.Face]
		s.m.Remove(f)
		if i := s.has(f); i >= 0 {
			s.ref = append(s.ref[:i:i], s.ref[i+1:]...)
		}
	case "touch":
		s.m.Find(s.pool.verts[0])
	case "addmesh":
		sub := model2d.NewMesh()
		for _, i := range []int{0, 1, 4} {
			sub.Add(s.pool.faces[i])
		}
		if o.Face == 1 {
			sub.Find(s.pool.verts[0])
		}
		s.m.AddMesh(sub)
		for _, i := range []int{0, 1, 4} {
			if s.has(s.pool.faces[i]) < 0 {
				s.ref = append(s.ref, s.pool.faces[i])
			}
		}
	case "copy":
		s.m = s.m.Copy()
	case "fork":
		s.other, s.otherRef = s.m, append([]*model2d.Segment{}, s.ref...)
		s.m = s.m.Copy()
	case "swap":
		s.m, s.other = s.other, s.m
		s.ref, s.otherRef = s.otherRef, s.ref
	}
	if s.other != nil {
		s.sinceFork++
	}
}

func (s *meshState2) canon() string {
	mask := 0
	for i, f := range s.pool.faces {
		if s.has(f) >= 0 {
			mask |= 1 << uint(i)
		}
	}
	built, fast, _ := model2d.VerifMeshIndexState(s.m)
	key := fmt.Sprintf("2d|%x|%v|%v", mask, built, fast)
	if s.other != nil {
		omask := 0
		for i, f := range s.pool.faces {
			for _, t := range s.otherRef {
				if t == f {
					omask |= 1 << uint(i)
				}
			}
		}
		ob, of, _ := model2d.VerifMeshIndexState(s.other)
		key += fmt.Sprintf("|fork:%x|%v|%v", omask, ob, of)
	}
	if built {
		var sp []string
		for _, v := range s.m.VertexSlice() {
			sp = append(sp, bits2(v.Add(model2d.Coord{}))) // -0 -> +0, see mesh3.go
		}
		sort.Strings(sp)
		key += "|" + strings.Join(sp, ";")
	}
	return key
}

func runMesh2(hist []meshOp) (*meshState2, string) {
	s := &meshState2{m: model2d.NewMesh(), pool: newPool2()}
	for i, o := range hist {
		if p := ev.Try(func() { s.apply(o) }); p != "" {
			return s, fmt.Sprintf("panic in step %d %v: %s", i+1, o, p)
		}
	}
	// the key must be taken first: the queries below build the lazy index of this instance
	s.key = s.canon()
	var pr string
	if p := ev.Try(func() {
		pr = meshq.Check2(s.m, s.ref, s.pool.verts, s.pool.faces)
		if pr == "" && s.other != nil {
			if pr = meshq.Check2(s.other, s.otherRef, s.pool.verts, s.pool.faces); pr != "" {
				pr = "the other mesh of a Copy pair (edited only through its twin): " + pr
			}
		}
	}); p != "" {
		pr = "panic in query: " + p
	}
	return s, pr
}

func mapFaces2(ts []*model2d.Segment, g func(model2d.Coord) model2d.Coord) []*model2d.Segment {
	out := make([]*model2d.Segment, len(ts))
	for i, t := range ts {
		out[i] = &model2d.Segment{g(t[0]), g(t[1])}
	}
	return out
}

// derived2 checks every mesh-returning method on the state.
func derived2(s *meshState2) (which, problem string) {
	A, B := s.pool.verts[0], s.pool.verts[1]
	chk := func(name string, got *model2d.Mesh, want []*model2d.Segment, cyclic bool) string {
		if a, b := meshq.SegMultiset2(got.SegmentSlice()), meshq.SegMultiset2(want); a != b {
			return fmt.Sprintf("%s: result has faces\n%s\nwant\n%s", name, a, b)
		}
		if p := meshq.Check2(got, nil, s.pool.verts, nil); p != "" {
			return name + ": result mesh inconsistent: " + p
		}
		return ""
	}
	id := func(c model2d.Coord) model2d.Coord { return c }
	type d struct {
		name string
		run  func() *model2d.Mesh
		want []*model2d.Segment
		cyc  bool
	}
	swap := func(c model2d.Coord) model2d.Coord {
		if c == A {
			return B
		} else if c == B {
			return A
		}
		return c
	}
	merge := func(c model2d.Coord) model2d.Coord {
		if c == A {
			return B
		}
		return c
	}
	neg := func(c model2d.Coord) model2d.Coord { return c.Scale(-1) }
	tr := func(c model2d.Coord) model2d.Coord { return c.Add(model2d.XY(1, 2)) }
	rev := func(ts []*model2d.Segment) []*model2d.Segment {
		out := make([]*model2d.Segment, len(ts))
		for i, t := range ts {
			out[i] = &model2d.Segment{t[1], t[0]}
		}
		return out
	}
	ds := []d{
		{"Copy", s.m.Copy, s.ref, false},
		{"DeepCopy", s.m.DeepCopy, s.ref, false},
		{"MapCoords(id)", func() *model2d.Mesh { return s.m.MapCoords(id) }, s.ref, false},
		{"MapCoords(swap)", func() *model2d.Mesh { return s.m.MapCoords(swap) }, mapFaces2(s.ref, swap), false},
		{"MapCoords(merge)", func() *model2d.Mesh { return s.m.MapCoords(merge) }, mapFaces2(s.ref, merge), false},
		{"MapCoords(negate)", func() *model2d.Mesh { return s.m.MapCoords(neg) }, mapFaces2(s.ref, neg), false},
		{"Scale(-1)", func() *model2d.Mesh { return s.m.Scale(-1) }, mapFaces2(s.ref, neg), false},
		{"Translate", func() *model2d.Mesh { return s.m.Translate(model2d.XY(1, 2)) }, mapFaces2(s.ref, tr), false},
		{"Transform(Translate)", func() *model2d.Mesh { return s.m.Transform(&model2d.Translate{Offset: model2d.XY(1, 2)}) }, mapFaces2(s.ref, tr), false},
		{"InvertNormals", s.m.InvertNormals, rev(s.ref), true},
		{"InvertNormals.InvertNormals", func() *model2d.Mesh { return s.m.InvertNormals().InvertNormals() }, s.ref, true},
	}
	for _, x := range ds {
		var got *model2d.Mesh
		if p := ev.Try(func() { got = x.run() }); p != "" {
			return x.name, x.name + ": panic: " + p
		}
		if pr := chk(x.name, got, x.want, x.cyc); pr != "" {
			return x.name, pr
		}
		if x.name == "DeepCopy" {
			for _, t := range got.SegmentSlice() {
				if s.has(t) >= 0 {
					return x.name, "DeepCopy shares a face pointer with the original"
				}
			}
		}
		if x.name == "Copy" {
			if p := meshq.Check2(got, s.ref, s.pool.verts, s.pool.faces); p != "" {
				return x.name, "Copy: " + p
			}
		}
	}
	// the original must be unchanged by all of the above
	if p := meshq.Check2(s.m, s.ref, s.pool.verts, s.pool.faces); p != "" {
		return "original-after-derived", "original mesh changed by a mesh-returning method: " + p
	}
	return "", ""
}

func bfsMesh2(r *ev.Run) {
	p := newPool2()
	var ops []meshOp
	for i := range p.faces {
		ops = append(ops, meshOp{"add", i}, meshOp{"remove", i})
	}
	ops = append(ops, meshOp{"touch", 0}, meshOp{"addmesh", 0}, meshOp{"addmesh", 1}, meshOp{"copy", 0}, meshOp{"fork", 0}, meshOp{"swap", 0})
	forkDepth := 3
	if r.Thorough() {
		forkDepth = 5
	}
	s0, _ := runMesh2(nil)
	r.StateKey(s0.key)
	frontier := [][]meshOp{nil}
	fastSlow := 0
	for len(frontier) > 0 {
		var next [][]meshOp
		for _, h := range frontier {
			forked, since := false, 0
			for _, x := range h {
				if x.Op == "fork" {
					forked = true
				}
				if forked {
					since++
				}
			}
			for _, o := range ops {
				if (o.Op == "fork" || o.Op == "copy") && forked || o.Op == "swap" && !forked || forked && since >= forkDepth {
					continue
				}
				hist := append(append([]meshOp{}, h...), o)
				s, problem := runMesh2(hist)
				r.Transitions(1)
				r.Traces(1)
				r.Eval(1)
				if problem != "" {
					r.Violation("mesh2d/"+classifyMesh(problem), problem, meshCase{2, hist, ""})
					continue
				}
				if !r.StateKey(s.key) {
					continue
				}
				if strings.Contains(s.key, "|true|false") {
					fastSlow++
				}
				next = append(next, hist)
				if len(hist) == 5 {
					r.Sample(meshCase{2, hist, ""})
				}
				if s.other != nil {
					continue // derived meshes are checked in the unforked states
				}
				which, pr := derived2(s)
				r.Eval(11)
				if pr != "" {
					r.Violation("mesh2d/"+which, pr, meshCase{2, hist, which})
				}
				if len(s.ref) >= 2 {
					r.NontrivialAdd(1)
				}
			}
		}
		frontier = next
	}
	r.AddTo("mesh_states_with_slow_index", int64(fastSlow))
}
