// C01: meshing always outputs a closed, consistently oriented manifold.
// Bounded exhaustive enumeration of lattice bit assignments and of generator
// parameter products; oracle = independent topology checker (lib/topo).
package main

import (
	"fmt"
	"math"
	"sort"
	"sync/atomic"

	"github.com/unixpickle/model3d/model2d"
	"github.com/unixpickle/model3d/model3d"
	"github.com/unixpickle/model3d/toolbox3d"

	"verif/lib/ev"
	"verif/lib/lat"
	"verif/lib/topo"
)

type mcCase struct {
	Kind  string `json:"kind"` // mc3 | ms2 | bitmap | gen
	Algo  string `json:"algo"`
	N     []int  `json:"n"`
	Bits  uint64 `json:"bits"`
	Place int    `json:"place"`
	// Between: what the solid answers away from the lattice points (more than a quarter spacing from the nearest one in
	// some coordinate). 0: the value of the nearest lattice point; 1: inside; 2: outside; 3: alternating by cell.
	// The mesher samples lattice points only, so the topology must not depend on it; code that samples anything else
	// (a cell centre to resolve an ambiguous cell, say) sees all of these.
	Between int       `json:"between,omitempty"`
	Gen     string    `json:"gen,omitempty"`
	Args    []float64 `json:"args,omitempty"`
}

var placements3 = []struct {
	o model3d.Coord3D
	d float64
}{{model3d.XYZ(0, 0, 0), 1}, {model3d.XYZ(0.1, -0.7, 2.3), 0.3}}

var algos3 = []string{"MarchingCubes", "MarchingCubesSearch2", "MarchingCubesFilterTrue", "MarchingCubesSearchFilter1", "MarchingCubesInterior0", "MarchingCubesInterior2"}

// the derived entry points (conjugated, coarse-to-fine), run on an eighth of the assignments
var algos3Derived = []string{"MarchingCubesConjShift", "MarchingCubesConjTurn", "MarchingCubesC2F", "MarchingCubesC2F2"}

func runMC3(algo string, s model3d.Solid, d float64) *model3d.Mesh {
	switch algo {
	case "MarchingCubes":
		return model3d.MarchingCubes(s, d)
	case "MarchingCubesSearch2":
		return model3d.MarchingCubesSearch(s, d, 2)
	case "MarchingCubesFilterTrue":
		return model3d.MarchingCubesFilter(s, func(*model3d.Rect) bool { return true }, d)
	case "MarchingCubesSearchFilter1":
		return model3d.MarchingCubesSearchFilter(s, func(*model3d.Rect) bool { return true }, d, 1)
	case "MarchingCubesInterior0":
		m, _ := model3d.MarchingCubesInterior(s, d, 0)
		return m
	case "MarchingCubesInterior2":
		m, _ := model3d.MarchingCubesInterior(s, d, 2)
		return m
	case "MarchingCubesConjShift":
		// the conjugated lattice is the same lattice (shift by whole cells)
		return model3d.MarchingCubesConj(s, d, 1, &model3d.Translate{Offset: model3d.XYZ(3*d, -2*d, d)})
	case "MarchingCubesConjTurn":
		// quarter turn about z then a shift: lattice onto lattice, orientation kept. (A reflecting conjugation
		// returns the mesh inside out - Mesh.Transform does not re-orient - which the function's comment
		// describes literally and the property, quantified over solids and spacings, does not exclude.)
		// The lattice solid's box sticks out half a cell on the far side only; centred{} makes the excess a
		// quarter cell on both sides, so that the turned box puts the samples in the same cells again.
		return model3d.MarchingCubesConj(centred{s, d}, d, 1, &model3d.Matrix3Transform{Matrix: &model3d.Matrix3{0, 1, 0, -1, 0, 0, 0, 0, 1}}, &model3d.Translate{Offset: model3d.XYZ(0, d, 0)})
	case "MarchingCubesC2F":
		return model3d.MarchingCubesC2F(s, d, d, 0, 1)
	case "MarchingCubesC2F2":
		return model3d.MarchingCubesC2F(s, 2*d, d, 0, 0)
	case "MarchingCubesC2F(x10,extra=0)":
		return model3d.MarchingCubesC2F(s, 10*d, d, 0, 2)
	case "MarchingCubesC2F(x10,extra=0.001)":
		return model3d.MarchingCubesC2F(s, 10*d, d, 0.001, 2)
	case "MarchingCubesC2F(x10,extra=0.05)":
		return model3d.MarchingCubesC2F(s, 10*d, d, 0.05, 2)
	}
	panic("algo")
}

type centred struct {
	model3d.Solid
	d float64
}

func (c centred) Min() model3d.Coord3D {
	return c.Solid.Min().Sub(model3d.XYZ(c.d, c.d, c.d).Scale(0.25))
}
func (c centred) Max() model3d.Coord3D {
	return c.Solid.Max().Sub(model3d.XYZ(c.d, c.d, c.d).Scale(0.25))
}

func ambiguous3(s *lat.Solid3) bool {
	// some lattice square (in any axis plane, including the outer layer) has the
	// diagonal pattern, i.e. the face is ambiguous for marching cubes
	n := s.N
	for k := -1; k <= n[2]; k++ {
		for j := -1; j <= n[1]; j++ {
			for i := -1; i <= n[0]; i++ {
				a := s.At(i, j, k)
				if a == s.At(i+1, j+1, k) && a != s.At(i+1, j, k) && a != s.At(i, j+1, k) {
					return true
				}
				if a == s.At(i+1, j, k+1) && a != s.At(i+1, j, k) && a != s.At(i, j, k+1) {
					return true
				}
				if a == s.At(i, j+1, k+1) && a != s.At(i, j+1, k) && a != s.At(i, j, k+1) {
					return true
				}
			}
		}
	}
	return false
}

func checkMC3(r *ev.Run, c mcCase) {
	pl := placements3[c.Place]
	s := lat.NewSolid3(pl.o, pl.d, [3]int{c.N[0], c.N[1], c.N[2]}, c.Bits)
	var m *model3d.Mesh
	var sol model3d.Solid = s
	if c.Between != 0 {
		sol = between3{s, c.Between}
	}
	if p := ev.Try(func() { m = runMC3(c.Algo, sol, pl.d) }); p != "" {
		r.Violation("mc3/"+c.Algo+"/panic", "panic: "+p, c)
		return
	}
	tris := lat.Tris(m)
	rep := topo.Analyze3(tris)
	if !rep.Manifold() {
		kind := "nonmanifold"
		if rep.BadEdges == 0 && rep.Misoriented == 0 && rep.Degenerate == 0 && rep.DupFaces == 0 {
			kind = "pinched-vertex"
		}
		r.Violation("mc3/"+c.Algo+"/"+kind, rep.String(), c)
		return
	}
	// the side of the surface is judged where the algorithm sampled the cell: at the lattice point, except for
	// the turned conjugation of the centred box, whose samples sit a quarter cell off it (x: +, y and z: -)
	var probeOff model3d.Coord3D
	if c.Algo == "MarchingCubesConjTurn" {
		probeOff = model3d.XYZ(0.25, -0.25, -0.25).Scale(pl.d)
	}
	for k := -1; k <= s.N[2]; k++ {
		for j := -1; j <= s.N[1]; j++ {
			for i := -1; i <= s.N[0]; i++ {
				w := topo.Winding3(tris, s.Point(i, j, k).Add(probeOff).Array())
				want := 0.0
				if s.At(i, j, k) {
					want = 1
				}
				if c.Algo == "MarchingCubesC2F2" && math.Abs(w) <= 1e-6 {
					// documented: details the coarse pass misses altogether are absent from the fine mesh
					continue
				}
				if !(math.Abs(w-want) <= 1e-6) {
					r.Violation("mc3/"+c.Algo+"/winding", fmt.Sprintf("winding %g at lattice point (%d,%d,%d), want %g", w, i, j, k, want), c)
					return
				}
			}
		}
	}
}

func enumMC3(r *ev.Run, dims [][3]int) {
	for _, n := range dims {
		total := uint64(1) << uint(n[0]*n[1]*n[2])
		var nt int64
		nn := []int{n[0], n[1], n[2]}
		const chunk = 256
		chunks := int((total + chunk - 1) / chunk)
		ev.Parallel(chunks, 16, func(ci int) {
			if r.Expired() {
				return
			}
			for b := uint64(ci) * chunk; b < uint64(ci+1)*chunk && b < total; b++ {
				s := lat.NewSolid3(model3d.Coord3D{}, 1, n, b)
				if ambiguous3(s) {
					atomic.AddInt64(&nt, 1)
				}
				for pi := range placements3 {
					for _, a := range algos3 {
						if pi == 1 && a != "MarchingCubes" && a != "MarchingCubesSearch2" {
							continue
						}
						checkMC3(r, mcCase{Kind: "mc3", Algo: a, N: nn, Bits: b, Place: pi})
						r.Eval(1)
					}
				}
				// away-from-lattice behaviours (see mcCase.Between) on an eighth of the assignments
				if (b*2654435761>>5)%8 == 0 {
					for mode := 1; mode <= 3; mode++ {
						for _, a := range []string{"MarchingCubes", "MarchingCubesSearch2"} {
							checkMC3(r, mcCase{Kind: "mc3", Algo: a, N: nn, Bits: b, Place: 0, Between: mode})
							r.Eval(1)
						}
					}
					for _, a := range algos3Derived {
						checkMC3(r, mcCase{Kind: "mc3", Algo: a, N: nn, Bits: b, Place: 0})
						r.Eval(1)
					}
				}
			}
		})
		r.NontrivialAdd(int(nt))
		r.Sample(mcCase{Kind: "mc3", Algo: "MarchingCubes", N: nn, Bits: total/3 + 5, Place: 0})
	}
}

// largeLattice covers the size thresholds of the block-splitting code in the
// filter variants (a worker re-splits a queued block only on lattices with
// more than 64*4096 cells), which the per-cube finite-quotient argument does
// not reach.
func largeLattice(r *ev.Run) {
	sph := &model3d.Sphere{Center: model3d.XYZ(0.1, 0.2, -0.1), Radius: 1}
	two := model3d.JoinedSolid{&model3d.Sphere{Radius: 0.5}, &model3d.Sphere{Center: model3d.XYZ(2.2, 0.3, 0.4), Radius: 0.4}}
	// a box and a tilted cylinder: the coarse mesh bevels their edges and rims by up to half a coarse cell, many fine
	// blocks away from the true surface - the case the coarse-to-fine margin exists for
	box := model3d.NewRect(model3d.XYZ(-0.7, -0.45, -0.3), model3d.XYZ(0.9, 0.55, 0.62))
	cyl := &model3d.Cylinder{P1: model3d.XYZ(-0.5, -0.3, -0.4), P2: model3d.XYZ(0.6, 0.4, 0.5), Radius: 0.45}
	for i, c := range []struct {
		s     model3d.Solid
		delta float64
		probe []model3d.Coord3D
	}{{sph, 0.03, []model3d.Coord3D{sph.Center, model3d.XYZ(0.9, 0.2, -0.1), model3d.XYZ(1.5, 0, 0)}},
		{two, 0.035, []model3d.Coord3D{{}, model3d.XYZ(2.2, 0.3, 0.4), model3d.XYZ(1.2, 0, 0)}},
		{box, 0.025, []model3d.Coord3D{{}, model3d.XYZ(0.85, 0.5, 0.6), model3d.XYZ(1.2, 0, 0)}},
		{cyl, 0.03, []model3d.Coord3D{{}, model3d.XYZ(0.5, 0.3, 0.4), model3d.XYZ(1.2, 0, 0)}}} {
		algos := []string{"MarchingCubesFilterTrue", "MarchingCubesSearchFilter1"}
		if i >= 2 {
			// coarse-to-fine at ratio 10 with no, a tiny and a small extra margin (the margin is *added* to the
			// conservative one), judged like every other member: closed, oriented, winding the solid
			algos = []string{"MarchingCubesC2F(x10,extra=0)", "MarchingCubesC2F(x10,extra=0.001)", "MarchingCubesC2F(x10,extra=0.05)"}
		}
		for _, algo := range algos {
			r.Eval(1)
			cs := mcCase{Kind: "large", Algo: algo, N: []int{i}}
			var m *model3d.Mesh
			if p := ev.Try(func() { m = runMC3(algo, c.s, c.delta) }); p != "" {
				r.Violation("mc3/"+algo+"/panic", "panic: "+p, cs)
				continue
			}
			tris := lat.Tris(m)
			rep := topo.Analyze3(tris)
			r.NontrivialAdd(1)
			if !rep.Manifold() {
				r.Violation("mc3/"+algo+"/nonmanifold", "large lattice: "+rep.String(), cs)
				continue
			}
			for _, p := range c.probe {
				want := 0.0
				if c.s.Contains(p) {
					want = 1
				}
				if w := topo.Winding3(tris, p.Array()); !(math.Abs(w-want) <= 1e-6) {
					r.Violation("mc3/"+algo+"/winding", fmt.Sprintf("large lattice: winding %g at %v want %g", w, p, want), cs)
				}
			}
		}
	}
}

type between2 struct {
	*lat.Solid2
	mode int
}

func (b between2) Contains(c model2d.Coord) bool {
	fx, fy := (c.X-b.Origin.X)/b.Delta, (c.Y-b.Origin.Y)/b.Delta
	if math.Abs(fx-math.Round(fx)) <= 0.25 && math.Abs(fy-math.Round(fy)) <= 0.25 {
		return b.Solid2.Contains(c)
	}
	switch b.mode {
	case 1:
		return true
	case 2:
		return false
	}
	return (int(math.Floor(fx))+int(math.Floor(fy)))%2 == 0
}

type between3 struct {
	*lat.Solid3
	mode int
}

func (b between3) Contains(c model3d.Coord3D) bool {
	fx, fy, fz := (c.X-b.Origin.X)/b.Delta, (c.Y-b.Origin.Y)/b.Delta, (c.Z-b.Origin.Z)/b.Delta
	if math.Abs(fx-math.Round(fx)) <= 0.25 && math.Abs(fy-math.Round(fy)) <= 0.25 && math.Abs(fz-math.Round(fz)) <= 0.25 {
		return b.Solid3.Contains(c)
	}
	switch b.mode {
	case 1:
		return true
	case 2:
		return false
	}
	return (int(math.Floor(fx))+int(math.Floor(fy))+int(math.Floor(fz)))%2 == 0
}

// ---------- 2D ----------

var placements2 = []struct {
	o model2d.Coord
	d float64
}{{model2d.XY(0, 0), 1}, {model2d.XY(0.1, -0.7), 0.3}}
var algos2 = []string{"MarchingSquares", "MarchingSquaresSearch2", "MarchingSquaresFilterTrue", "MarchingSquaresSearchFilter1", "MarchingSquaresConjShift", "MarchingSquaresC2F"}

func checkMS2(r *ev.Run, c mcCase) {
	pl := placements2[c.Place]
	s := lat.NewSolid2(pl.o, pl.d, [2]int{c.N[0], c.N[1]}, c.Bits)
	var sol model2d.Solid = s
	if c.Between != 0 {
		sol = between2{s, c.Between}
	}
	var m *model2d.Mesh
	if p := ev.Try(func() {
		switch c.Algo {
		case "MarchingSquares":
			m = model2d.MarchingSquares(sol, pl.d)
		case "MarchingSquaresSearch2":
			m = model2d.MarchingSquaresSearch(sol, pl.d, 2)
		case "MarchingSquaresFilterTrue":
			m = model2d.MarchingSquaresFilter(sol, func(*model2d.Rect) bool { return true }, pl.d)
		case "MarchingSquaresSearchFilter1":
			m = model2d.MarchingSquaresSearchFilter(sol, func(*model2d.Rect) bool { return true }, pl.d, 1)
		case "MarchingSquaresConjShift":
			m = model2d.MarchingSquaresConj(sol, pl.d, 1, &model2d.Translate{Offset: model2d.XY(3*pl.d, -2*pl.d)})
		case "MarchingSquaresC2F":
			m = model2d.MarchingSquaresC2F(sol, pl.d, pl.d, 0, 1)
		}
	}); p != "" {
		r.Violation("ms2/"+c.Algo+"/panic", "panic: "+p, c)
		return
	}
	segs := lat.Segs(m)
	rep := topo.Analyze2(segs)
	if !rep.Manifold() {
		r.Violation("ms2/"+c.Algo+"/nonmanifold", rep.String(), c)
		return
	}
	for j := -1; j <= s.N[1]; j++ {
		for i := -1; i <= s.N[0]; i++ {
			w := topo.Winding2(segs, s.Point(i, j).Array())
			want := 0.0
			if s.At(i, j) {
				want = -1 // interior on the right of every segment: normal (-dy,dx) points outward
			}
			if !(math.Abs(w-want) <= 1e-6) {
				r.Violation("ms2/"+c.Algo+"/winding", fmt.Sprintf("winding %g at lattice point (%d,%d), want %g", w, i, j, want), c)
				return
			}
		}
	}
}

func enumMS2(r *ev.Run, dims [][2]int) {
	for _, n := range dims {
		total := uint64(1) << uint(n[0]*n[1])
		nn := []int{n[0], n[1]}
		var nt int64
		const chunk = 256
		chunks := int((total + chunk - 1) / chunk)
		ev.Parallel(chunks, 16, func(ci int) {
			for b := uint64(ci) * chunk; b < uint64(ci+1)*chunk && b < total; b++ {
				s := lat.NewSolid2(model2d.Coord{}, 1, n, b)
				amb := false
				for j := -1; j <= n[1] && !amb; j++ {
					for i := -1; i <= n[0]; i++ {
						a := s.At(i, j)
						if a == s.At(i+1, j+1) && a != s.At(i+1, j) && a != s.At(i, j+1) {
							amb = true
							break
						}
					}
				}
				if amb {
					atomic.AddInt64(&nt, 1)
				}
				for pi := range placements2 {
					for _, a := range algos2 {
						checkMS2(r, mcCase{Kind: "ms2", Algo: a, N: nn, Bits: b, Place: pi})
						r.Eval(1)
					}
				}
				for mode := 1; mode <= 3; mode++ {
					for _, a := range algos2 {
						checkMS2(r, mcCase{Kind: "ms2", Algo: a, N: nn, Bits: b, Place: 0, Between: mode})
						r.Eval(1)
					}
				}
			}
		})
		r.NontrivialAdd(int(nt))
		r.Sample(mcCase{Kind: "ms2", Algo: "MarchingSquares", N: nn, Bits: total/3 + 5})
	}
}

func checkBitmap(r *ev.Run, c mcCase) {
	w, h := c.N[0], c.N[1]
	bm := model2d.NewBitmap(w, h)
	get := func(x, y int) bool {
		if x < 0 || y < 0 || x >= w || y >= h {
			return false
		}
		return c.Bits&(1<<uint(x+w*y)) != 0
	}
	for y := 0; y < h; y++ {
		for x := 0; x < w; x++ {
			bm.Set(x, y, get(x, y))
		}
	}
	var m *model2d.Mesh
	if p := ev.Try(func() { m = bm.Mesh() }); p != "" {
		r.Violation("bitmap/panic", "panic: "+p, c)
		return
	}
	segs := lat.Segs(m)
	rep := topo.Analyze2(segs)
	if !rep.Manifold() {
		r.Violation("bitmap/nonmanifold", rep.String(), c)
		return
	}
	for y := -1; y <= h; y++ {
		for x := -1; x <= w; x++ {
			wn := topo.Winding2(segs, topo.P2{float64(x) + 0.5, float64(y) + 0.5})
			want := 0.0
			if get(x, y) {
				want = -1
			}
			if !(math.Abs(wn-want) <= 1e-6) {
				r.Violation("bitmap/winding", fmt.Sprintf("winding %g at pixel centre (%d,%d), want %g", wn, x, y, want), c)
				return
			}
		}
	}
}

func enumBitmap(r *ev.Run, dims [][2]int) {
	for _, n := range dims {
		total := uint64(1) << uint(n[0]*n[1])
		nn := []int{n[0], n[1]}
		var nt int64
		const chunk = 1024
		chunks := int((total + chunk - 1) / chunk)
		ev.Parallel(chunks, 16, func(ci int) {
			if r.Expired() {
				return
			}
			for b := uint64(ci) * chunk; b < uint64(ci+1)*chunk && b < total; b++ {
				// non-trivial: some 2x2 pixel block is a diagonal pair (corner pull-in needed)
				get := func(x, y int) bool { return b&(1<<uint(x+n[0]*y)) != 0 }
				diag := false
				for y := 0; y+1 < n[1] && !diag; y++ {
					for x := 0; x+1 < n[0]; x++ {
						if get(x, y) == get(x+1, y+1) && get(x, y) != get(x+1, y) && get(x, y) != get(x, y+1) {
							diag = true
							break
						}
					}
				}
				if diag {
					atomic.AddInt64(&nt, 1)
				}
				checkBitmap(r, mcCase{Kind: "bitmap", N: nn, Bits: b})
				r.Eval(1)
			}
		})
		r.NontrivialAdd(int(nt))
	}
}

// ---------- other generators ----------

func checkClosed(r *ev.Run, key string, c mcCase, f func() *model3d.Mesh, wantChi int) {
	r.Eval(1)
	var m *model3d.Mesh
	if p := ev.Try(func() { m = f() }); p != "" {
		r.Violation(key+"/panic", "panic: "+p, c)
		return
	}
	tris := lat.Tris(m)
	rep := topo.Analyze3(tris)
	r.NontrivialKey(fmt.Sprintf("%s/%v", key, c.Args))
	if !rep.Manifold() {
		r.Violation(key+"/nonmanifold", rep.String(), c)
		return
	}
	if !(rep.Volume > 0) {
		r.Violation(key+"/orientation", "signed volume not positive: "+rep.String(), c)
		return
	}
	if wantChi != -99 && rep.Euler != wantChi {
		r.Violation(key+"/euler", fmt.Sprintf("Euler characteristic %d, want %d: %s", rep.Euler, wantChi, rep.String()), c)
	}
}

var axes = []model3d.Coord3D{
	{X: 1}, {Y: 1}, {Z: 1}, {X: -1}, {Y: -1}, {Z: -1},
	{X: 1, Y: 1}, {X: 1, Z: -1}, {Y: 1, Z: 1}, {X: 1, Y: 1, Z: 1}, {X: -1, Y: 2, Z: 0.5},
	{X: 1, Y: 1e-3}, {X: 1e-3, Y: 1, Z: 1}, {X: 0.3, Y: -0.2, Z: 0.9},
}

func enumGenerators(r *ev.Run) {
	th := r.Thorough()
	// NewMeshRect
	for i, b := range [][2]model3d.Coord3D{
		{model3d.XYZ(0, 0, 0), model3d.XYZ(1, 1, 1)}, {model3d.XYZ(-1, -2, -3), model3d.XYZ(1, 2, 3)},
		{model3d.XYZ(0.1, 0.2, 0.3), model3d.XYZ(0.4, 100, 0.31)}, {model3d.XYZ(-5, -5, -5), model3d.XYZ(-4, -3, -2)},
		{model3d.XYZ(1e-3, 0, 0), model3d.XYZ(2e-3, 1e3, 1)}, {model3d.XYZ(0, 0, 0), model3d.XYZ(1e-9, 1e-9, 1e-9)},
	} {
		b := b
		checkClosed(r, "NewMeshRect", mcCase{Kind: "gen", Gen: "NewMeshRect", Args: []float64{float64(i)}}, func() *model3d.Mesh { return model3d.NewMeshRect(b[0], b[1]) }, 2)
	}
	// NewMeshPolar
	radii := []func(g model3d.GeoCoord) float64{nil,
		func(g model3d.GeoCoord) float64 { return 1 + 0.3*math.Sin(3*g.Lat)*math.Cos(2*g.Lon) },
		func(g model3d.GeoCoord) float64 { return 2 + math.Cos(g.Lat) },
	}
	maxStops := 12
	if th {
		maxStops = 40
	}
	// stop counts beyond the contiguous range at which the floating-point identities a seam may rely on fail
	// (n steps of 2 pi / n do not land on 2 pi, -pi plus them not on pi, n * (1/n) != 1): where a seam closed
	// "by value" instead of by index opens up
	var seamStops []int
	for n := maxStops + 1; n <= 200 && len(seamStops) < 14; n++ {
		f := float64(n)
		step := 2 * math.Pi / f
		if f*step != 2*math.Pi || -math.Pi+f*step != math.Pi || f*(1/f) != 1 || math.Sin(f*step) != math.Sin(2*math.Pi) {
			seamStops = append(seamStops, n)
		}
	}
	r.Set("seam_sensitive_stop_counts", seamStops)
	for ri, rf := range radii {
		var all []int
		for stops := 3; stops <= maxStops; stops++ {
			all = append(all, stops)
		}
		all = append(all, seamStops...)
		for _, stops := range all {
			rf, stops := rf, stops
			checkClosed(r, "NewMeshPolar", mcCase{Kind: "gen", Gen: "NewMeshPolar", Args: []float64{float64(ri), float64(stops)}}, func() *model3d.Mesh { return model3d.NewMeshPolar(rf, stops) }, 2)
		}
	}
	for _, stops := range seamStops {
		stops := stops
		p1 := model3d.XYZ(1, -2, 0.5)
		p2 := p1.Add(model3d.XYZ(0.3, -0.2, 0.9))
		args := []float64{-1, float64(stops), 0.5, 1}
		checkClosed(r, "NewMeshCylinder", mcCase{Kind: "gen", Gen: "NewMeshCylinder", Args: args}, func() *model3d.Mesh { return model3d.NewMeshCylinder(p1, p2, 0.5, stops) }, 2)
		checkClosed(r, "NewMeshCone", mcCase{Kind: "gen", Gen: "NewMeshCone", Args: args}, func() *model3d.Mesh { return model3d.NewMeshCone(p1, p2, 0.5, stops) }, 2)
		checkClosed(r, "NewMeshTorus", mcCase{Kind: "gen", Gen: "NewMeshTorus", Args: []float64{-1, float64(stops), 5, 0}}, func() *model3d.Mesh {
			return model3d.NewMeshTorus(p1, model3d.XYZ(0.3, -0.2, 0.9), 0.2, 1, stops, 5)
		}, 0)
		checkClosed(r, "NewMeshTorus", mcCase{Kind: "gen", Gen: "NewMeshTorus", Args: []float64{-1, 5, float64(stops), 0}}, func() *model3d.Mesh {
			return model3d.NewMeshTorus(p1, model3d.XYZ(0.3, -0.2, 0.9), 0.2, 1, 5, stops)
		}, 0)
	}
	// Icosphere
	maxN := 4
	if th {
		maxN = 8
	}
	for n := 1; n <= maxN; n++ {
		n := n
		checkClosed(r, "NewMeshIcosphere", mcCase{Kind: "gen", Gen: "NewMeshIcosphere", Args: []float64{float64(n)}}, func() *model3d.Mesh { return model3d.NewMeshIcosphere(model3d.XYZ(1, -2, 0.5), 1.5, n) }, 2)
	}
	checkClosed(r, "NewMeshIcosahedron", mcCase{Kind: "gen", Gen: "NewMeshIcosahedron"}, model3d.NewMeshIcosahedron, 2)
	// Cylinder / Cone over axes x stops x radius
	for ai, ax := range axes {
		for stops := 3; stops <= maxStops; stops++ {
			for _, rad := range []float64{0.5, 2} {
				for _, l := range []float64{0.1, 10} {
					p1 := model3d.XYZ(1, -2, 0.5)
					p2 := p1.Add(ax.Normalize().Scale(l))
					args := []float64{float64(ai), float64(stops), rad, l}
					stops, rad := stops, rad
					checkClosed(r, "NewMeshCylinder", mcCase{Kind: "gen", Gen: "NewMeshCylinder", Args: args}, func() *model3d.Mesh { return model3d.NewMeshCylinder(p1, p2, rad, stops) }, 2)
					checkClosed(r, "NewMeshCone", mcCase{Kind: "gen", Gen: "NewMeshCone", Args: args}, func() *model3d.Mesh { return model3d.NewMeshCone(p1, p2, rad, stops) }, 2)
				}
			}
		}
	}
	// Torus
	maxT := 8
	if th {
		maxT = 14
	}
	for ai, ax := range axes {
		if !th && ai%2 == 1 {
			continue
		}
		for is := 3; is <= maxT; is++ {
			for os := 3; os <= maxT; os++ {
				for ri, rr := range [][2]float64{{0.2, 1}, {1, 1.5}, {0.99, 1}} {
					args := []float64{float64(ai), float64(is), float64(os), float64(ri)}
					ax, is, os, rr := ax, is, os, rr
					checkClosed(r, "NewMeshTorus", mcCase{Kind: "gen", Gen: "NewMeshTorus", Args: args}, func() *model3d.Mesh {
						return model3d.NewMeshTorus(model3d.XYZ(1, -2, 0.5), ax, rr[0], rr[1], is, os)
					}, 0)
				}
			}
		}
	}
	// ConvexPolytope.Mesh
	polys := map[string]model3d.ConvexPolytope{
		"box":  model3d.NewConvexPolytopeRect(model3d.XYZ(-1, -2, -3), model3d.XYZ(1, 2, 3)),
		"box2": model3d.NewConvexPolytopeRect(model3d.XYZ(0.1, 0.2, 0.3), model3d.XYZ(0.4, 10, 0.35)),
		"tetra": {
			&model3d.LinearConstraint{Normal: model3d.XYZ(-1, 0, 0), Max: 0},
			&model3d.LinearConstraint{Normal: model3d.XYZ(0, -1, 0), Max: 0},
			&model3d.LinearConstraint{Normal: model3d.XYZ(0, 0, -1), Max: 0},
			&model3d.LinearConstraint{Normal: model3d.XYZ(1, 1, 1), Max: 1},
		},
		"tetra-unnormalized": {
			&model3d.LinearConstraint{Normal: model3d.XYZ(-3, 0, 0), Max: 0},
			&model3d.LinearConstraint{Normal: model3d.XYZ(0, -0.5, 0), Max: 0},
			&model3d.LinearConstraint{Normal: model3d.XYZ(0, 0, -7), Max: 7},
			&model3d.LinearConstraint{Normal: model3d.XYZ(2, 2, 2), Max: 10},
		},
		"prism": {
			&model3d.LinearConstraint{Normal: model3d.XYZ(-1, 0, 0), Max: 0},
			&model3d.LinearConstraint{Normal: model3d.XYZ(0, -1, 0), Max: 0},
			&model3d.LinearConstraint{Normal: model3d.XYZ(1, 1, 0), Max: 1},
			&model3d.LinearConstraint{Normal: model3d.XYZ(0, 0, 1), Max: 2},
			&model3d.LinearConstraint{Normal: model3d.XYZ(0, 0, -1), Max: 1},
		},
		"box-redundant": append(model3d.NewConvexPolytopeRect(model3d.XYZ(0, 0, 0), model3d.XYZ(1, 1, 1)),
			&model3d.LinearConstraint{Normal: model3d.XYZ(1, 1, 1), Max: 10}),
		"cut-corner": append(model3d.NewConvexPolytopeRect(model3d.XYZ(0, 0, 0), model3d.XYZ(1, 1, 1)),
			&model3d.LinearConstraint{Normal: model3d.XYZ(1, 1, 1), Max: 2.5}),
		// vertices where four or more planes meet
		"cut-through-three-corners": append(model3d.NewConvexPolytopeRect(model3d.XYZ(0, 0, 0), model3d.XYZ(1, 1, 1)),
			&model3d.LinearConstraint{Normal: model3d.XYZ(1, 1, 1), Max: 2}),
		"plane-touching-one-corner": append(model3d.NewConvexPolytopeRect(model3d.XYZ(0, 0, 0), model3d.XYZ(1, 1, 1)),
			&model3d.LinearConstraint{Normal: model3d.XYZ(1, 1, 1), Max: 3}),
	}
	planes := func(rot *model3d.Matrix3, off model3d.Coord3D, ns ...model3d.Coord3D) model3d.ConvexPolytope {
		var p model3d.ConvexPolytope
		for _, n := range ns {
			rn := n
			if rot != nil {
				rn = rot.MulColumn(n)
			}
			// plane n.x <= 1 of the unrotated shape, moved by off
			p = append(p, &model3d.LinearConstraint{Normal: rn, Max: 1 + rn.Dot(off)})
		}
		return p
	}
	var octa, cubo, icosa []model3d.Coord3D
	for _, sx := range []float64{-1, 1} {
		for _, sy := range []float64{-1, 1} {
			for _, sz := range []float64{-1, 1} {
				octa = append(octa, model3d.XYZ(sx, sy, sz))
				cubo = append(cubo, model3d.XYZ(sx, sy, sz).Scale(0.5))
			}
		}
	}
	cubo = append(cubo, model3d.X(1), model3d.X(-1), model3d.Y(1), model3d.Y(-1), model3d.Z(1), model3d.Z(-1))
	phi := (1 + math.Sqrt(5)) / 2
	for _, s1 := range []float64{-1, 1} {
		for _, s2 := range []float64{-1, 1} {
			// the 12 vertex directions of an icosahedron are the face normals of a dodecahedron; the 20 face normals of an
			// icosahedron: (+-1,+-1,+-1) and cyclic (0, +-1/phi, +-phi)
			icosa = append(icosa, model3d.XYZ(0, s1/phi, s2*phi), model3d.XYZ(s1/phi, s2*phi, 0), model3d.XYZ(s2*phi, 0, s1/phi))
		}
	}
	icosa = append(icosa, octa...)
	rots := []*model3d.Matrix3{nil, model3d.NewMatrix3Rotation(model3d.XYZ(1, 2, -1).Normalize(), 0.7), model3d.NewMatrix3Rotation(model3d.Z(1), math.Pi/4), model3d.NewMatrix3Rotation(model3d.XYZ(0.3, -0.2, 0.9).Normalize(), 2.1)}
	for ri, rot := range rots {
		for oi, off := range []model3d.Coord3D{{}, {X: 0.3, Y: -1.2, Z: 2}} {
			polys[fmt.Sprintf("octahedron/rot%d/off%d", ri, oi)] = planes(rot, off, octa...)
			polys[fmt.Sprintf("cuboctahedron/rot%d/off%d", ri, oi)] = planes(rot, off, cubo...)
			polys[fmt.Sprintf("icosahedron/rot%d/off%d", ri, oi)] = planes(rot, off, icosa...)
			for k := 4; k <= 7; k++ {
				// k-gon pyramid: k slanted planes through the apex (0,0,1) and the base z >= -1
				var ns []model3d.Coord3D
				for i := 0; i < k; i++ {
					th := 2*math.Pi*float64(i)/float64(k) + 0.1
					ns = append(ns, model3d.XYZ(math.Cos(th), math.Sin(th), 1))
				}
				ns = append(ns, model3d.Z(-1))
				polys[fmt.Sprintf("pyramid%d/rot%d/off%d", k, ri, oi)] = planes(rot, off, ns...)
			}
		}
	}
	{
		var names []string
		for name := range polys {
			names = append(names, name)
		}
		sort.Strings(names)
		for _, name := range names {
			p := polys[name]
			checkClosed(r, "ConvexPolytope.Mesh/"+name, mcCase{Kind: "gen", Gen: "ConvexPolytope.Mesh/" + name}, p.Mesh, 2)
		}
	}
	// octagonal prisms with rotated side planes
	for k := 3; k <= 9; k++ {
		var p model3d.ConvexPolytope
		for i := 0; i < k; i++ {
			th := 2*math.Pi*float64(i)/float64(k) + 0.1
			p = append(p, &model3d.LinearConstraint{Normal: model3d.XYZ(math.Cos(th), math.Sin(th), 0), Max: 1})
		}
		p = append(p, &model3d.LinearConstraint{Normal: model3d.Z(1), Max: 1}, &model3d.LinearConstraint{Normal: model3d.Z(-1), Max: 0.5})
		checkClosed(r, "ConvexPolytope.Mesh/ngon-prism", mcCase{Kind: "gen", Gen: "ConvexPolytope.Mesh/ngon-prism", Args: []float64{float64(k)}}, p.Mesh, 2)
	}
}

func rectCell(i, j, k int) *model3d.Rect {
	return &model3d.Rect{MinVal: model3d.XYZ(float64(i), float64(j), float64(k)), MaxVal: model3d.XYZ(float64(i+1), float64(j+1), float64(k+1))}
}

func enumRectSet(r *ev.Run, dims [][3]int) {
	for _, n := range dims {
		cells := n[0] * n[1] * n[2]
		total := 1 << uint(cells)
		ev.Parallel(total-1, 16, func(idx int) {
			b := uint64(idx + 1)
			for order := 0; order < 2; order++ {
				c := mcCase{Kind: "rectset", N: []int{n[0], n[1], n[2]}, Bits: b, Place: order}
				r.Eval(1)
				var m *model3d.Mesh
				if p := ev.Try(func() {
					rs := toolbox3d.NewRectSet()
					for q := 0; q < cells; q++ {
						ci := q
						if order == 1 {
							ci = cells - 1 - q
						}
						if b&(1<<uint(ci)) != 0 {
							rs.Add(rectCell(ci%n[0], (ci/n[0])%n[1], ci/(n[0]*n[1])))
						}
					}
					m = rs.Mesh()
				}); p != "" {
					r.Violation("RectSet.Mesh/panic", "panic: "+p, c)
					continue
				}
				tris := lat.Tris(m)
				rep := topo.Analyze3(tris)
				if !rep.Manifold() {
					r.Violation("RectSet.Mesh/nonmanifold", rep.String(), c)
					continue
				}
				// winding at cell centres
				bad := false
				nontrivial := false
				for q := 0; q < cells && !bad; q++ {
					i, j, k := q%n[0], (q/n[0])%n[1], q/(n[0]*n[1])
					w := topo.Winding3(tris, topo.P3{float64(i) + 0.5, float64(j) + 0.5, float64(k) + 0.5})
					want := 0.0
					if b&(1<<uint(q)) != 0 {
						want = 1
					}
					if !(math.Abs(w-want) <= 1e-6) {
						r.Violation("RectSet.Mesh/winding", fmt.Sprintf("winding %g at cell (%d,%d,%d) want %g", w, i, j, k, want), c)
						bad = true
					}
				}
				// non-trivial: the exact mesh has a singular edge or vertex (cells touching only diagonally)
				if order == 0 {
					for q := 0; q < cells && !nontrivial; q++ {
						if b&(1<<uint(q)) == 0 {
							continue
						}
						i, j, k := q%n[0], (q/n[0])%n[1], q/(n[0]*n[1])
						get := func(i, j, k int) bool {
							if i < 0 || j < 0 || k < 0 || i >= n[0] || j >= n[1] || k >= n[2] {
								return false
							}
							return b&(1<<uint(i+n[0]*(j+n[1]*k))) != 0
						}
						for _, d := range [][3]int{{1, 1, 0}, {1, -1, 0}, {1, 0, 1}, {1, 0, -1}, {0, 1, 1}, {0, 1, -1}} {
							if get(i+d[0], j+d[1], k+d[2]) {
								// diagonal neighbour across an edge: singular iff the two side cells are both empty
								var s1, s2 bool
								switch {
								case d[2] == 0:
									s1, s2 = get(i+d[0], j, k), get(i, j+d[1], k)
								case d[1] == 0:
									s1, s2 = get(i+d[0], j, k), get(i, j, k+d[2])
								default:
									s1, s2 = get(i, j+d[1], k), get(i, j, k+d[2])
								}
								if !s1 && !s2 {
									nontrivial = true
								}
							}
						}
					}
					if nontrivial {
						r.NontrivialAdd(1)
					}
				}
			}
		})
		r.Sample(mcCase{Kind: "rectset", N: []int{n[0], n[1], n[2]}, Bits: 0x69})
	}
}

func enumHeightMap(r *ev.Run) {
	type cfg struct {
		rows, cols int
		levels     []float64
	}
	cfgs := []cfg{{3, 3, []float64{0, 1, 2}}}
	if r.Thorough() {
		cfgs = append(cfgs, cfg{3, 4, []float64{0, 1}}, cfg{4, 4, []float64{0, 1}})
	} else {
		cfgs = append(cfgs, cfg{3, 4, []float64{0, 1}})
	}
	for _, c := range cfgs {
		cells := c.rows * c.cols
		total := 1
		for i := 0; i < cells; i++ {
			total *= len(c.levels)
		}
		ev.Parallel(total, 16, func(idx int) {
			hm := toolbox3d.NewHeightMap(model2d.XY(0, 0), model2d.XY(float64(c.cols-1), float64(c.rows-1)), maxInt(c.rows, c.cols))
			if hm.Rows != c.rows || hm.Cols != c.cols {
				// the harness fills the grid by index: force the intended layout rather than give up
				hm.Rows, hm.Cols = c.rows, c.cols
				hm.Data = make([]float64, c.rows*c.cols)
			}
			x := idx
			nz, z := 0, 0
			for i := 0; i < cells; i++ {
				h := c.levels[x%len(c.levels)]
				x /= len(c.levels)
				hm.Data[i] = h * h
				if h != 0 {
					nz++
				} else {
					z++
				}
			}
			if nz == 0 {
				return
			}
			for _, which := range []string{"Mesh", "MeshBidir"} {
				cs := mcCase{Kind: "heightmap", Algo: which, N: []int{c.rows, c.cols, len(c.levels)}, Bits: uint64(idx)}
				r.Eval(1)
				var m *model3d.Mesh
				if p := ev.Try(func() {
					if which == "Mesh" {
						m = hm.Mesh()
					} else {
						m = hm.MeshBidir()
					}
				}); p != "" {
					r.Violation("HeightMap."+which+"/panic", "panic: "+p, cs)
					continue
				}
				rep := topo.Analyze3(lat.Tris(m))
				if !rep.Manifold() {
					r.Violation("HeightMap."+which+"/nonmanifold", rep.String(), cs)
				} else if !(rep.Volume > 0) {
					r.Violation("HeightMap."+which+"/orientation", rep.String(), cs)
				}
			}
			if z > 0 {
				r.NontrivialAdd(1)
			}
		})
	}
}

func maxInt(a, b int) int {
	if a > b {
		return a
	}
	return b
}

func replay(r *ev.Run) {
	var c mcCase
	r.LoadReplay(&c)
	switch c.Kind {
	case "mc3":
		checkMC3(r, c)
	case "ms2":
		checkMS2(r, c)
	case "bitmap":
		checkBitmap(r, c)
	default:
		fmt.Println("replay of kind", c.Kind, "re-runs the whole family")
		enumGenerators(r)
	}
	r.Eval(1)
	r.NontrivialAdd(2)
	r.Finish()
}

func main() {
	r := ev.Start("C01", "exploration")
	if r.Replay != "" {
		replay(r)
	}
	r.Rule("every inside/outside assignment of the inner lattice block (outer layer empty) through the real meshers at two placements; " +
		"every subset of box-set cells, every small height grid, full parameter products of the primitive generators. " +
		"non-trivial = assignment with an ambiguous (diagonal) lattice face / bitmap with a diagonal pixel pair / box set with cells touching only across an edge / height grid with zero cells / each generator parameter tuple; cases are distinct by construction of the enumeration")
	r.Assume("lattice-defined solids are representative of all solids because the meshers only sample Contains at lattice points (finite-quotient argument, DESIGN.md C01)",
		"vertex identity is coordinate equality, as in the library's own mesh representation")
	var d3 [][3]int
	var d2 [][2]int
	var db [][2]int
	var dr [][3]int
	if r.Thorough() {
		d3 = [][3]int{{2, 2, 2}, {3, 3, 2}, {3, 2, 3}, {2, 3, 3}}
		d2 = [][2]int{{3, 3}, {4, 3}, {3, 4}, {4, 4}}
		db = [][2]int{{3, 3}, {4, 4}, {5, 4}, {4, 5}, {4, 2}, {2, 4}, {5, 2}, {2, 5}, {5, 3}, {3, 5}, {6, 3}, {3, 6}, {7, 2}, {2, 7}, {1, 6}, {6, 1}}
		dr = [][3]int{{2, 2, 2}, {3, 2, 2}, {2, 3, 2}, {2, 2, 3}, {3, 3, 2}}
	} else {
		d3 = [][3]int{{2, 2, 2}, {3, 2, 2}, {2, 3, 2}, {2, 2, 3}}
		d2 = [][2]int{{3, 3}, {4, 3}, {3, 4}}
		db = [][2]int{{3, 3}, {4, 4}, {4, 2}, {2, 4}, {5, 2}, {2, 5}, {5, 3}, {3, 5}, {1, 4}, {4, 1}} // wide and tall as well as square
		dr = [][3]int{{2, 2, 2}, {3, 2, 2}}
	}
	r.Isolate("mc3", func() { enumMC3(r, d3) })
	r.Isolate("large-lattice", func() { largeLattice(r) })
	r.Isolate("ms2", func() { enumMS2(r, d2) })
	r.Isolate("bitmap", func() { enumBitmap(r, db) })
	r.Isolate("generators", func() { enumGenerators(r) })
	r.Isolate("rectset", func() { enumRectSet(r, dr) })
	r.Isolate("heightmap", func() { enumHeightMap(r) })
	r.Set("mc3_blocks", d3)
	r.Set("ms2_blocks", d2)
	r.Set("bitmap_sizes", db)
	r.Set("rectset_grids", dr)
	r.Finish()
}
