// C14: triangulation covers the polygon exactly.
// Exhaustive enumeration of all simple polygons on a small integer grid (every
// start vertex and both directions, because vertex sequences are enumerated),
// regions with holes, planar 3D faces and extrusions; oracle in exact integer
// arithmetic.
package main

import (
	"fmt"
	"math"
	"strings"
	"sync/atomic"

	"github.com/unixpickle/model3d/model2d"
	"github.com/unixpickle/model3d/model3d"

	"verif/lib/ev"
	"verif/lib/lat"
	"verif/lib/topo"
)

type pt struct{ x, y int64 }

var degenerateTris int64

func cross(o, a, b pt) int64 { return (a.x-o.x)*(b.y-o.y) - (a.y-o.y)*(b.x-o.x) }

func sgn(v int64) int {
	if v > 0 {
		return 1
	} else if v < 0 {
		return -1
	}
	return 0
}

func onSeg(a, b, p pt) bool {
	if cross(a, b, p) != 0 {
		return false
	}
	return min64(a.x, b.x) <= p.x && p.x <= max64(a.x, b.x) && min64(a.y, b.y) <= p.y && p.y <= max64(a.y, b.y)
}

func min64(a, b int64) int64 {
	if a < b {
		return a
	}
	return b
}
func max64(a, b int64) int64 {
	if a > b {
		return a
	}
	return b
}

// segsTouch: closed segments ab and cd share a point.
func segsTouch(a, b, c, d pt) bool {
	d1, d2 := sgn(cross(a, b, c)), sgn(cross(a, b, d))
	d3, d4 := sgn(cross(c, d, a)), sgn(cross(c, d, b))
	if d1*d2 < 0 && d3*d4 < 0 {
		return true
	}
	return onSeg(a, b, c) || onSeg(a, b, d) || onSeg(c, d, a) || onSeg(c, d, b)
}

// segsCrossProperly: interiors cross at a single point.
func segsCrossProperly(a, b, c, d pt) bool {
	d1, d2 := sgn(cross(a, b, c)), sgn(cross(a, b, d))
	d3, d4 := sgn(cross(c, d, a)), sgn(cross(c, d, b))
	return d1*d2 < 0 && d3*d4 < 0
}

func area2(p []pt) int64 {
	var a int64
	for i := range p {
		j := (i + 1) % len(p)
		a += p[i].x*p[j].y - p[i].y*p[j].x
	}
	return a
}

// simple: non-zero area, no two non-adjacent edges touch, adjacent edges share only their common vertex.
func simple(p []pt) bool {
	n := len(p)
	if n < 3 || area2(p) == 0 {
		return false
	}
	for i := 0; i < n; i++ {
		a, b := p[i], p[(i+1)%n]
		// adjacent edge (b, c): must not fold back onto ab
		c := p[(i+2)%n]
		if cross(a, b, c) == 0 && (b.x-a.x)*(c.x-b.x)+(b.y-a.y)*(c.y-b.y) < 0 {
			return false
		}
		for j := i + 2; j < n; j++ {
			if i == 0 && j == n-1 {
				continue
			}
			if segsTouch(a, b, p[j], p[(j+1)%n]) {
				return false
			}
		}
	}
	return true
}

// inClosed: q (scaled by s) in the closed region of polygon loops (even-odd), coordinates of loops scaled by s too.
func inClosedLoops(loops [][]pt, q pt) bool {
	inside := false
	for _, p := range loops {
		n := len(p)
		for i := 0; i < n; i++ {
			a, b := p[i], p[(i+1)%n]
			if onSeg(a, b, q) {
				return true
			}
			if (a.y > q.y) != (b.y > q.y) {
				// x coordinate of the crossing compared with q.x, exactly
				// (b.x-a.x)*(q.y-a.y)/(b.y-a.y) + a.x > q.x
				num := (b.x-a.x)*(q.y-a.y) + (a.x-q.x)*(b.y-a.y)
				if (b.y-a.y > 0 && num > 0) || (b.y-a.y < 0 && num < 0) {
					inside = !inside
				}
			}
		}
	}
	return inside
}

func scale(p []pt, s int64) []pt {
	out := make([]pt, len(p))
	for i, v := range p {
		out[i] = pt{v.x * s, v.y * s}
	}
	return out
}

// trisOverlap: open interiors intersect (exact separating-axis test).
func trisOverlap(a, b [3]pt) bool {
	sep := func(t, u [3]pt) bool {
		o := sgn(cross(t[0], t[1], t[2]))
		for i := 0; i < 3; i++ {
			p, q := t[i], t[(i+1)%3]
			all := true
			for _, v := range u {
				if sgn(cross(p, q, v))*o > 0 {
					all = false
					break
				}
			}
			if all {
				return true
			}
		}
		return false
	}
	return !sep(a, b) && !sep(b, a)
}

type polyCase struct {
	API   string       `json:"api"`
	Loops [][][2]int64 `json:"loops"`
	Place string       `json:"placement,omitempty"`
}

func toLoops(loops [][]pt) [][][2]int64 {
	out := make([][][2]int64, len(loops))
	for i, l := range loops {
		for _, p := range l {
			out[i] = append(out[i], [2]int64{p.x, p.y})
		}
	}
	return out
}

func fromLoops(l [][][2]int64) [][]pt {
	out := make([][]pt, len(l))
	for i, lp := range l {
		for _, p := range lp {
			out[i] = append(out[i], pt{p[0], p[1]})
		}
	}
	return out
}

// judge checks triangles (given in exact integer coordinates) against the region.
// wantCW: -1 = every triangle clockwise, 0 = any.
func judge(loops [][]pt, tris [][3]pt, wantCW bool) string {
	verts := map[pt]bool{}
	var want int64
	for i, l := range loops {
		for _, v := range l {
			verts[v] = true
		}
		a := area2(l)
		if a < 0 {
			a = -a
		}
		if i == 0 || inClosedLoops(loops[:1], l[0]) && false {
			_ = a
		}
		want += 0
	}
	// region area by even-odd nesting: outer loops add, holes subtract (depth parity)
	for i, l := range loops {
		depth := 0
		for j, m := range loops {
			if i != j && inClosedLoops([][]pt{m}, l[0]) {
				depth++
			}
		}
		a := area2(l)
		if a < 0 {
			a = -a
		}
		if depth%2 == 0 {
			want += a
		} else {
			want -= a
		}
	}
	var sum int64
	loops6 := make([][]pt, len(loops))
	for i, l := range loops {
		loops6[i] = scale(l, 6)
	}
	for i, t := range tris {
		for _, v := range t {
			if !verts[v] {
				return fmt.Sprintf("triangle %d uses vertex (%d,%d) which is not an input vertex", i, v.x, v.y)
			}
		}
		a := cross(t[0], t[1], t[2])
		if a == 0 {
			// a zero-area triangle adds nothing to the covered region; the property as stated (inside, no
			// overlap, exact area) does not forbid it, so it is counted, not judged
			atomic.AddInt64(&degenerateTris, 1)
			continue
		}
		if wantCW && a > 0 {
			return fmt.Sprintf("triangle %d is counter-clockwise, documented order is clockwise", i)
		}
		if a < 0 {
			a = -a
		}
		sum += a
		// centroid and edge midpoints must lie in the closed region (coordinates x6)
		c := pt{2 * (t[0].x + t[1].x + t[2].x), 2 * (t[0].y + t[1].y + t[2].y)}
		if !inClosedLoops(loops6, c) {
			return fmt.Sprintf("triangle %d (%v) has its centroid outside the region", i, t)
		}
		for k := 0; k < 3; k++ {
			m := pt{3 * (t[k].x + t[(k+1)%3].x), 3 * (t[k].y + t[(k+1)%3].y)}
			if !inClosedLoops(loops6, m) {
				return fmt.Sprintf("triangle %d (%v) has an edge midpoint outside the region", i, t)
			}
			for _, l := range loops {
				for e := range l {
					if segsCrossProperly(t[k], t[(k+1)%3], l[e], l[(e+1)%len(l)]) {
						return fmt.Sprintf("triangle %d (%v) crosses a boundary edge", i, t)
					}
				}
			}
		}
	}
	if sum != want {
		return fmt.Sprintf("triangle areas sum to %g, region area is %g", float64(sum)/2, float64(want)/2)
	}
	for i := range tris {
		for j := i + 1; j < len(tris); j++ {
			if trisOverlap(tris[i], tris[j]) {
				return fmt.Sprintf("triangles %d and %d overlap", i, j)
			}
		}
	}
	return ""
}

func toPt(c model2d.Coord) (pt, bool) {
	x, y := math.Round(c.X), math.Round(c.Y)
	if !(math.Abs(c.X-x) <= 1e-9) || !(math.Abs(c.Y-y) <= 1e-9) {
		return pt{}, false
	}
	return pt{int64(x), int64(y)}, true
}

func convTris(ts [][3]model2d.Coord, exact bool) ([][3]pt, string) {
	out := make([][3]pt, len(ts))
	for i, t := range ts {
		for k := 0; k < 3; k++ {
			p, ok := toPt(t[k])
			if !ok || (exact && (t[k].X != float64(p.x) || t[k].Y != float64(p.y))) {
				return nil, fmt.Sprintf("triangle %d vertex %v is not an input vertex", i, t[k])
			}
			out[i][k] = p
		}
	}
	return out, ""
}

func classify(p []pt, problem string) string {
	// does some vertex lie on a diagonal between two other vertices (the ear-diagonal situation)?
	n := len(p)
	for i := 0; i < n; i++ {
		for j := i + 2; j < n; j++ {
			if i == 0 && j == n-1 {
				continue
			}
			for k := 0; k < n; k++ {
				if k != i && k != j && onSeg(p[i], p[j], p[k]) {
					return "vertex-on-diagonal"
				}
			}
		}
	}
	return "general"
}

// pow2 parses a placement "pow2:k": coordinates multiplied by 2^k (exact in
// floating point, so the integer oracle still applies after dividing back).
func pow2(place string) (float64, bool) {
	var k int
	if n, _ := fmt.Sscanf(place, "pow2:%d", &k); n == 1 {
		return math.Ldexp(1, k), true
	}
	return 1, false
}

var farOffset = model2d.XY(3*(1<<28), -(1 << 29))

func checkTriangulate(r *ev.Run, p []pt, place string) {
	sc, scaled := pow2(place)
	var off model2d.Coord
	if place == "far" {
		// far from the origin relative to its size (offset / edge length about 1e9, all coordinates exact integers):
		// anything computed from absolute coordinates instead of differences cancels catastrophically here
		off, scaled = farOffset, true
	}
	poly := make([]model2d.Coord, len(p))
	for i, v := range p {
		poly[i] = model2d.XY(float64(v.x)*sc, float64(v.y)*sc).Add(off)
	}
	c := polyCase{"Triangulate", toLoops([][]pt{p}), place}
	suffix := ""
	if scaled {
		suffix = "/scaled"
	}
	var ts [][3]model2d.Coord
	if pm := ev.Try(func() { ts = model2d.Triangulate(poly) }); pm != "" {
		r.Violation("Triangulate/panic/"+classify(p, pm)+suffix, "panic: "+pm+" (coordinates x "+fmt.Sprint(sc)+")", c)
		return
	}
	for i := range ts {
		for k := 0; k < 3; k++ {
			ts[i][k] = ts[i][k].Sub(off).Scale(1 / sc)
		}
	}
	it, msg := convTris(ts, true)
	if msg == "" {
		msg = judge([][]pt{p}, it, false)
	}
	if msg != "" {
		r.Violation("Triangulate/wrong/"+classify(p, msg)+suffix, msg+" (coordinates x "+fmt.Sprint(sc)+")", c)
	}
}

func meshOf(loops [][]pt, f func(pt) model2d.Coord) *model2d.Mesh {
	m := model2d.NewMesh()
	for i, l := range loops {
		// outer loops clockwise, holes counter-clockwise (library convention: normals (-dy,dx) point outward)
		depth := 0
		for j, o := range loops {
			if i != j && inClosedLoops([][]pt{o}, l[0]) {
				depth++
			}
		}
		cw := area2(l) < 0
		wantCWLoop := depth%2 == 0
		n := len(l)
		for k := 0; k < n; k++ {
			a, b := l[k], l[(k+1)%n]
			if cw != wantCWLoop {
				a, b = b, a
			}
			m.Add(&model2d.Segment{f(a), f(b)})
		}
	}
	return m
}

func checkTriangulateMesh(r *ev.Run, loops [][]pt, place string) {
	id := func(p pt) model2d.Coord { return model2d.XY(float64(p.x), float64(p.y)) }
	f, inv := id, func(c model2d.Coord) model2d.Coord { return c }
	switch place {
	case "rot90":
		f = func(p pt) model2d.Coord { return model2d.XY(float64(-p.y), float64(p.x)) }
		inv = func(c model2d.Coord) model2d.Coord { return model2d.XY(c.Y, -c.X) }
	case "shift":
		f = func(p pt) model2d.Coord { return model2d.XY(float64(p.x+100), float64(p.y-37)) }
		inv = func(c model2d.Coord) model2d.Coord { return model2d.XY(c.X-100, c.Y+37) }
	case "far":
		f = func(p pt) model2d.Coord { return model2d.XY(float64(p.x), float64(p.y)).Add(farOffset) }
		inv = func(c model2d.Coord) model2d.Coord { return c.Sub(farOffset) }
	case "pow2:-10", "pow2:-24", "pow2:10":
		sc, _ := pow2(place)
		f = func(p pt) model2d.Coord { return model2d.XY(float64(p.x)*sc, float64(p.y)*sc) }
		inv = func(c model2d.Coord) model2d.Coord { return c.Scale(1 / sc) }
	case "magic", "magic-":
		// turned by exactly the angle (or its opposite) by which TriangulateMesh turns its input to get rid of
		// axis-parallel edges, with the same arithmetic as Mesh.Rotate: axis-parallel edges of the grid polygon are
		// axis-parallel again - exactly - once the library has turned the mesh
		ang := 0.5037616150469717
		if place == "magic-" {
			ang = -ang
		}
		rot, back := model2d.Rotation(ang), model2d.Rotation(-ang)
		f = func(p pt) model2d.Coord { return rot.Apply(model2d.XY(float64(p.x), float64(p.y))) }
		inv = func(c model2d.Coord) model2d.Coord { return back.Apply(c) }
	case "generic":
		cs, sn := math.Cos(0.3), math.Sin(0.3)
		f = func(p pt) model2d.Coord {
			return model2d.XY(cs*float64(p.x)-sn*float64(p.y)+0.25, sn*float64(p.x)+cs*float64(p.y)-1.5)
		}
		inv = func(c model2d.Coord) model2d.Coord {
			x, y := c.X-0.25, c.Y+1.5
			return model2d.XY(cs*x+sn*y, -sn*x+cs*y)
		}
	}
	c := polyCase{"TriangulateMesh", toLoops(loops), place}
	m := meshOf(loops, f)
	var ts [][3]model2d.Coord
	if pm := ev.Try(func() { ts = model2d.TriangulateMesh(m) }); pm != "" {
		r.Violation("TriangulateMesh/panic", "panic: "+pm, c)
		return
	}
	back := make([][3]model2d.Coord, len(ts))
	for i, t := range ts {
		for k := 0; k < 3; k++ {
			back[i][k] = inv(t[k])
		}
	}
	it, msg := convTris(back, false)
	if msg == "" {
		// rot90 maps clockwise to clockwise (a rotation); all placements preserve orientation
		msg = judge(loops, it, true)
	}
	if msg != "" {
		r.Violation("TriangulateMesh/wrong", msg, c)
		return
	}
	if place != "" {
		return
	}
	// extrusion: closed oriented manifold with volume = area x height, for a dyadic pair of heights and for pairs
	// at which minZ + (maxZ - minZ) != maxZ in floating point (a cap placed "by offset" then misses the walls)
	var want int64
	for i, l := range loops {
		depth := 0
		for j, o := range loops {
			if i != j && inClosedLoops([][]pt{o}, l[0]) {
				depth++
			}
		}
		a := area2(l)
		if a < 0 {
			a = -a
		}
		if depth%2 == 0 {
			want += a
		} else {
			want -= a
		}
	}
	for _, hz := range profileHeights {
		var pm3 *model3d.Mesh
		c := c
		c.Place = fmt.Sprintf("heights %g..%g", hz[0], hz[1])
		if pm := ev.Try(func() { pm3 = model3d.ProfileMesh(m, hz[0], hz[1]) }); pm != "" {
			r.Violation("ProfileMesh/panic", "panic: "+pm, c)
			return
		}
		rep := topo.Analyze3(lat.Tris(pm3))
		wantVol := float64(want) / 2 * (hz[1] - hz[0])
		if !rep.Manifold() {
			r.Violation("ProfileMesh/nonmanifold", fmt.Sprintf("heights %g..%g: %s", hz[0], hz[1], rep.String()), c)
			return
		} else if !(math.Abs(rep.Volume-wantVol) <= 1e-9*wantVol) {
			r.Violation("ProfileMesh/volume", fmt.Sprintf("heights %g..%g: volume %g, want area x height = %g", hz[0], hz[1], rep.Volume, wantVol), c)
			return
		}
	}
}

// profileHeights: one exactly representable pair and the first pairs of a decimal grid at which adding the
// height back onto minZ does not give maxZ (or subtracting it from maxZ does not give minZ).
var profileHeights = func() [][2]float64 {
	out := [][2]float64{{-0.5, 1.5}}
	for a := -7; a <= 7 && len(out) < 3; a++ {
		for b := a + 1; b <= 9 && len(out) < 3; b++ {
			lo, hi := float64(a)/10, float64(b)/10
			if lo+(hi-lo) != hi || hi-(hi-lo) != lo {
				out = append(out, [2]float64{lo, hi})
			}
		}
	}
	return out
}()

func checkFace(r *ev.Run, p []pt, plane int) {
	// embed the polygon in a plane spanned by two (non-orthogonal for plane 3,4) integer vectors
	o := model3d.XYZ(1, -2, 3)
	var u, v model3d.Coord3D
	switch plane {
	case 0:
		u, v = model3d.X(1), model3d.Y(1)
	case 1:
		u, v = model3d.Y(1), model3d.Z(1)
	case 2:
		u, v = model3d.Z(1), model3d.X(1)
	case 3:
		u, v = model3d.XYZ(1, 1, 0), model3d.XYZ(0, 1, 1)
	default:
		u, v = model3d.XYZ(2, -1, 1), model3d.XYZ(1, 3, -1)
	}
	poly := make([]model3d.Coord3D, len(p))
	for i, q := range p {
		poly[i] = o.Add(u.Scale(float64(q.x))).Add(v.Scale(float64(q.y)))
	}
	idx := map[model3d.Coord3D]pt{}
	for i, q := range p {
		idx[poly[i]] = q
	}
	// the same face through the two entry points: TriangulateFace itself and an OFF file with this one polygonal
	// face read by ReadOFF (integer coordinates are exact in text)
	for _, api := range []string{"TriangulateFace", "ReadOFF"} {
		c := polyCase{api, toLoops([][]pt{p}), fmt.Sprint("plane", plane)}
		var ts []*model3d.Triangle
		var rerr error
		if pm := ev.Try(func() {
			if api == "TriangulateFace" {
				ts = model3d.TriangulateFace(poly)
				return
			}
			var sb strings.Builder
			fmt.Fprintf(&sb, "OFF\n%d 1 0\n", len(poly))
			for _, v := range poly {
				fmt.Fprintf(&sb, "%g %g %g\n", v.X, v.Y, v.Z)
			}
			fmt.Fprintf(&sb, "%d", len(poly))
			for i := range poly {
				fmt.Fprintf(&sb, " %d", i)
			}
			sb.WriteString("\n")
			ts, rerr = model3d.ReadOFF(strings.NewReader(sb.String()))
		}); pm != "" {
			r.Violation(api+"/panic/"+classify(p, pm), "panic: "+pm, c)
			continue
		}
		if rerr != nil {
			r.Violation(api+"/error/"+classify(p, rerr.Error()), "a simple planar face is rejected: "+rerr.Error(), c)
			continue
		}
		it := make([][3]pt, len(ts))
		bad := false
		for i, t := range ts {
			for k := 0; k < 3 && !bad; k++ {
				q, ok := idx[t[k]]
				if !ok {
					r.Violation(api+"/wrong/"+classify(p, ""), fmt.Sprintf("triangle %d vertex %v is not an input vertex", i, t[k]), c)
					bad = true
				}
				it[i][k] = q
			}
		}
		if bad {
			continue
		}
		if msg := judge([][]pt{p}, it, false); msg != "" {
			r.Violation(api+"/wrong/"+classify(p, msg), msg, c)
		}
	}
}

// enumPolys calls f for every simple polygon given as a vertex sequence on the w x h grid with n vertices.
func enumPolys(w, h, n int, canonicalOnly bool, f func(p []pt)) {
	pts := make([]pt, 0, w*h)
	for y := 0; y < h; y++ {
		for x := 0; x < w; x++ {
			pts = append(pts, pt{int64(x), int64(y)})
		}
	}
	N := len(pts)
	ev.Parallel(N, 16, func(first int) {
		seq := make([]int, n)
		used := make([]bool, N)
		seq[0] = first
		used[first] = true
		var rec func(k int)
		rec = func(k int) {
			if k == n {
				if canonicalOnly {
					for i := 1; i < n; i++ {
						if seq[i] < seq[0] {
							return
						}
					}
					if seq[1] > seq[n-1] {
						return
					}
				}
				p := make([]pt, n)
				for i, s := range seq {
					p[i] = pts[s]
				}
				if simple(p) {
					f(p)
				}
				return
			}
			for c := 0; c < N; c++ {
				if used[c] {
					continue
				}
				// prune: the new edge must not touch earlier non-adjacent edges
				a, b := pts[seq[k-1]], pts[c]
				ok := true
				for i := 0; i+1 < k-1 && ok; i++ {
					if segsTouch(pts[seq[i]], pts[seq[i+1]], a, b) {
						ok = false
					}
				}
				if !ok {
					continue
				}
				used[c] = true
				seq[k] = c
				rec(k + 1)
				used[c] = false
			}
		}
		rec(1)
	})
}

func hasReflex(p []pt) bool {
	s := sgn(area2(p))
	for i := range p {
		if sgn(cross(p[i], p[(i+1)%len(p)], p[(i+2)%len(p)])) == -s {
			return true
		}
	}
	return false
}

func holesFor(outer []pt) [][]pt {
	// outer is scaled x4; candidate holes: 2x2 squares and right triangles at even positions strictly inside
	var out [][]pt
	o4 := [][]pt{outer}
	strictlyInside := func(h []pt) bool {
		for _, v := range h {
			if !inClosedLoops(o4, v) {
				return false
			}
			for i := range outer {
				if onSeg(outer[i], outer[(i+1)%len(outer)], v) {
					return false
				}
			}
		}
		for i := range h {
			for j := range outer {
				if segsTouch(h[i], h[(i+1)%len(h)], outer[j], outer[(j+1)%len(outer)]) {
					return false
				}
			}
		}
		return true
	}
	for y := int64(0); y < 14; y++ {
		for x := int64(0); x < 14; x++ {
			for _, h := range [][]pt{
				{{x, y}, {x + 2, y}, {x + 2, y + 2}, {x, y + 2}},
				{{x, y}, {x + 2, y}, {x, y + 2}},
				{{x + 1, y}, {x + 2, y + 2}, {x, y + 1}},
			} {
				if strictlyInside(h) {
					out = append(out, h)
				}
			}
		}
	}
	return out
}

func main() {
	r := ev.Start("C14", "exploration")
	if r.Replay != "" {
		var c polyCase
		r.LoadReplay(&c)
		loops := fromLoops(c.Loops)
		switch c.API {
		case "Triangulate":
			checkTriangulate(r, loops[0], c.Place)
		case "TriangulateFace", "ReadOFF":
			var pl int
			fmt.Sscanf(c.Place, "plane%d", &pl)
			checkFace(r, loops[0], pl)
		default:
			checkTriangulateMesh(r, loops, c.Place)
		}
		r.Eval(1)
		r.NontrivialAdd(2)
		r.Sample(c)
		r.Finish()
	}
	maxN, gw, gh := 5, 4, 4
	if r.Thorough() {
		maxN = 6
	}
	r.Rule(fmt.Sprintf("every vertex sequence of length 3..%d on the %dx%d integer grid that forms a simple polygon (so every start vertex and both directions) through Triangulate and TriangulateFace (5 planes); every such polygon up to rotation/reversal through TriangulateMesh at 8 placements (identity, 90 degree rotation, integer shift, generic rotation, coordinates x 2^-10, 2^-24, 2^10 - exact scalings, the integer oracle applies after dividing back - and an exact integer offset of about 1e9 grid units), through Triangulate at the three scalings and the far offset, and ProfileMesh; "+
		"every outer polygon with n <= 4 scaled x4 with every 2x2 square / right-triangle hole at integer positions strictly inside (and pairs of disjoint holes, nested islands in the thorough tier). Oracle exact in integers: vertex subset, non-degenerate, inside (centroid, edge midpoints, no proper crossing of the boundary), pairwise interior-disjoint, areas sum to the region area, clockwise where documented. non-trivial = polygons with a reflex vertex / regions with holes", maxN, gw, gh))
	r.Assume("grid polygons with integer coordinates; generic-rotation placement is compared after mapping back with 1e-9 tolerance")
	r.Isolate("triangulate", func() {
		var nt, total int64
		for n := 3; n <= maxN; n++ {
			enumPolys(gw, gh, n, false, func(p []pt) {
				checkTriangulate(r, p, "")
				atomic.AddInt64(&total, 1)
				if hasReflex(p) {
					atomic.AddInt64(&nt, 1)
				}
			})
		}
		r.Eval(int(total))
		r.NontrivialAdd(int(nt))
		r.Set("simple_polygon_sequences", total)
		r.Set("zero_area_triangles_returned_by_Triangulate", atomic.LoadInt64(&degenerateTris))
		r.Sample(polyCase{"Triangulate", [][][2]int64{{{0, 0}, {0, 3}, {1, 2}, {3, 0}}}, ""})
	})
	r.Isolate("face", func() {
		var total int64
		fn := maxN
		if fn > 5 {
			fn = 5
		}
		for n := 3; n <= fn; n++ {
			enumPolys(gw, gh, n, false, func(p []pt) {
				// all planes for canonical start, plane by index for the rest keeps the cost linear
				for pl := 0; pl < 5; pl++ {
					if pl != int(p[0].x+p[0].y)%5 && !(p[0].x == 0 && p[0].y == 0) {
						continue
					}
					checkFace(r, p, pl)
					atomic.AddInt64(&total, 1)
				}
			})
		}
		r.Eval(int(total))
	})
	r.Isolate("mesh", func() {
		var total, nt int64
		for n := 3; n <= maxN; n++ {
			enumPolys(gw, gh, n, true, func(p []pt) {
				for _, place := range []string{"", "rot90", "shift", "generic", "pow2:-10", "pow2:-24", "pow2:10", "far", "magic", "magic-"} {
					checkTriangulateMesh(r, [][]pt{p}, place)
					atomic.AddInt64(&total, 1)
				}
				for _, place := range []string{"pow2:-10", "pow2:-24", "pow2:10", "far"} {
					checkTriangulate(r, p, place)
					atomic.AddInt64(&total, 1)
				}
				if hasReflex(p) {
					atomic.AddInt64(&nt, 1)
				}
			})
		}
		r.Eval(int(total))
		r.NontrivialAdd(int(nt))
	})
	r.Isolate("holes", func() {
		var total int64
		for n := 3; n <= 4; n++ {
			enumPolys(gw, gh, n, true, func(p []pt) {
				outer := scale(p, 4)
				hs := holesFor(outer)
				for i, h := range hs {
					checkTriangulateMesh(r, [][]pt{outer, h}, "")
					atomic.AddInt64(&total, 1)
					if !r.Thorough() && i%3 != 0 {
						continue
					}
					// a second, disjoint hole
					for j := i + 1; j < len(hs) && j < i+40; j++ {
						g := hs[j]
						touch := false
						for a := range h {
							for b := range g {
								if segsTouch(h[a], h[(a+1)%len(h)], g[b], g[(b+1)%len(g)]) {
									touch = true
								}
							}
						}
						if touch || inClosedLoops([][]pt{h}, g[0]) || inClosedLoops([][]pt{g}, h[0]) {
							continue
						}
						checkTriangulateMesh(r, [][]pt{outer, h, g}, "")
						atomic.AddInt64(&total, 1)
						break
					}
				}
			})
		}
		// nested island inside a hole
		outer := []pt{{0, 0}, {12, 0}, {12, 12}, {0, 12}}
		for x := int64(2); x <= 4; x++ {
			for y := int64(2); y <= 4; y++ {
				hole := []pt{{x, y}, {x + 6, y}, {x + 6, y + 6}, {x, y + 6}}
				for dx := int64(1); dx <= 3; dx++ {
					island := []pt{{x + dx, y + 1}, {x + dx + 2, y + 1}, {x + dx + 1, y + 4}}
					checkTriangulateMesh(r, [][]pt{outer, hole, island}, "")
					total++
				}
			}
		}
		r.Eval(int(total))
		r.NontrivialAdd(int(total))
		r.Sample(polyCase{"TriangulateMesh", toLoops([][]pt{outer, {{2, 2}, {8, 2}, {8, 8}, {2, 8}}, {{3, 3}, {5, 3}, {4, 6}}}), ""})
	})
	r.Finish()
}
