// C06: signed distance fields report true distance, nearest point and normal.
// Full products of shape parameter alphabets x query point lattices against
// reference distances in reduced coordinates and brute-force minima.
package main

import (
	"fmt"
	"math"
	"strings"
	"sync/atomic"

	"github.com/unixpickle/model3d/model2d"
	"github.com/unixpickle/model3d/model3d"

	"verif/lib/cat"
	"verif/lib/ev"
	"verif/lib/lat"
	"verif/lib/ref"
	"verif/lib/topo"
)

type sdfCase struct {
	Shape string    `json:"shape"`
	Point []float64 `json:"point"`
	API   string    `json:"api"`
}

func family(name string) string {
	for i, c := range name {
		if c == '(' {
			return name[:i]
		}
	}
	return name
}

func points3(s ref.Shape3, n int) []model3d.Coord3D {
	var out []model3d.Coord3D
	e := 2 * s.Extent
	for i := 0; i < n; i++ {
		for j := 0; j < n; j++ {
			for k := 0; k < n; k++ {
				// irrational-ish offsets keep lattice points off symmetry planes; symmetric points are added below
				f := func(t int) float64 { return (float64(t)/float64(n-1))*2 - 1 }
				out = append(out, s.Center.Add(model3d.XYZ(f(i)*e+0.0137*e, f(j)*e-0.0071*e, f(k)*e+0.0093*e)))
			}
		}
	}
	// documented degenerate centres and axes of symmetry
	out = append(out, s.Center)
	for _, d := range []model3d.Coord3D{{X: 1}, {Y: 1}, {Z: 1}, {X: -1}, {Y: -1}, {Z: -1}} {
		for _, t := range []float64{0.25, 0.5, 1, 1.5} {
			out = append(out, s.Center.Add(d.Scale(t*s.Extent)))
		}
	}
	switch o := s.Obj.(type) {
	case *model3d.Cylinder:
		ax := o.P2.Sub(o.P1)
		for _, t := range []float64{-0.5, 0, 0.3, 1, 1.5} {
			out = append(out, o.P1.Add(ax.Scale(t)))
		}
		b1, _ := ax.OrthoBasis()
		for _, q := range []model3d.Coord3D{o.P1, o.P2} {
			for _, dr := range []float64{0.9, 1, 1.1} {
				for _, dz := range []float64{-0.1, 0, 0.1} {
					out = append(out, q.Add(b1.Scale(o.Radius*dr)).Add(ax.Normalize().Scale(dz*o.Radius)))
				}
			}
		}
	case *model3d.Cone:
		ax := o.Base.Sub(o.Tip)
		for _, t := range []float64{-0.5, -0.01, 0, 0.01, 0.5, 1, 1.5} {
			out = append(out, o.Tip.Add(ax.Scale(t)))
		}
		b1, _ := ax.OrthoBasis()
		for _, dr := range []float64{0.5, 0.9, 1, 1.1, 2} {
			for _, dz := range []float64{-0.2, 0, 0.2} {
				out = append(out, o.Base.Add(b1.Scale(o.Radius*dr)).Add(ax.Normalize().Scale(dz*o.Radius)))
				out = append(out, o.Tip.Mid(o.Base).Add(b1.Scale(o.Radius*dr)))
			}
		}
	case *model3d.Torus:
		u := o.Axis.Normalize()
		b1, _ := u.OrthoBasis()
		for _, t := range []float64{-1, 0, 0.5} {
			out = append(out, o.Center.Add(u.Scale(t)))
		}
		for _, dr := range []float64{-0.5, 0, 0.5} {
			out = append(out, o.Center.Add(b1.Scale(o.OuterRadius+dr*o.InnerRadius)))
		}
	case *model3d.Capsule:
		ax := o.P2.Sub(o.P1)
		for _, t := range []float64{-0.5, 0, 0.5, 1, 1.2} {
			out = append(out, o.P1.Add(ax.Scale(t)))
		}
	}
	return out
}

type sdfObj interface {
	model3d.Solid
	model3d.PointSDF
	model3d.NormalSDF
}

func checkShape3(r *ev.Run, s ref.Shape3, n int) {
	obj := s.Obj.(sdfObj)
	fam := family(s.Name)
	tol := 1e-9 * (s.Extent + s.Center.Norm() + 1)
	pts := points3(s, n)
	vals := make([]float64, len(pts))
	bad := map[string]bool{}
	viol := func(api, kind, msg string, p model3d.Coord3D) {
		key := fam + "/" + api + "/" + kind
		if !bad[key] {
			bad[key] = true
		}
		r.Violation(key, s.Name+" at "+fmt.Sprint(p)+": "+msg, sdfCase{s.Name, []float64{p.X, p.Y, p.Z}, api})
	}
	for i, p := range pts {
		r.Eval(1)
		want := s.SDF(p)
		got := obj.SDF(p)
		vals[i] = got
		if !(math.Abs(got-want) <= tol) {
			viol("SDF", "distance", fmt.Sprintf("SDF=%.12g, reference distance %.12g", got, want), p)
			continue
		}
		if !(math.Abs(want) <= 10*tol) && (got > 0) != obj.Contains(p) {
			viol("SDF", "sign", fmt.Sprintf("SDF=%g but Contains=%v", got, obj.Contains(p)), p)
		}
		q, d := obj.PointSDF(p)
		if !(math.Abs(d-got) <= tol) {
			viol("PointSDF", "distance", fmt.Sprintf("PointSDF distance %g differs from SDF %g", d, got), p)
		}
		if !(math.Abs(s.SDF(q)) <= 1e-7*(s.Extent+1)) {
			viol("PointSDF", "point-off-surface", fmt.Sprintf("reported nearest point %v has reference distance %g from the surface", q, s.SDF(q)), p)
		} else if !(math.Abs(q.Dist(p)-math.Abs(want)) <= 1e-7*(s.Extent+1)) {
			viol("PointSDF", "point-not-nearest", fmt.Sprintf("reported nearest point %v is at distance %g, the true distance is %g", q, q.Dist(p), math.Abs(want)), p)
		}
		nrm, d2 := obj.NormalSDF(p)
		if !(math.Abs(d2-got) <= tol) {
			viol("NormalSDF", "distance", fmt.Sprintf("NormalSDF distance %g differs from SDF %g", d2, got), p)
		}
		if !(math.Abs(nrm.Norm()-1) <= 1e-6) {
			viol("NormalSDF", "not-unit", fmt.Sprintf("normal %v has length %g", nrm, nrm.Norm()), p)
		} else if wn, _, smooth := ref.SmoothNormal(s.SDF, p, s.Extent, s.Feature); smooth {
			r.NontrivialAdd(1)
			if !(nrm.Dist(wn) <= 2e-3) {
				viol("NormalSDF", "direction", fmt.Sprintf("normal %v, outward normal of the reference surface (= -grad sdf) is %v", nrm, wn), p)
			}
		} else {
			r.Skipped(1)
		}
	}
	// 1-Lipschitz along the lattice (consecutive points differ in one index)
	for i := 1; i < n*n*n; i++ {
		if !(math.Abs(vals[i]-vals[i-1]) <= pts[i].Dist(pts[i-1])*(1+1e-9)+tol) {
			viol("SDF", "lipschitz", fmt.Sprintf("changes by %g over a distance of %g", math.Abs(vals[i]-vals[i-1]), pts[i].Dist(pts[i-1])), pts[i])
			break
		}
	}
}

// ---- mesh SDFs against brute force ----

func triDist(p model3d.Coord3D, t [3]model3d.Coord3D) (float64, model3d.Coord3D) {
	// independent point-triangle distance: project to the plane, else nearest edge point
	a, b, c := t[0], t[1], t[2]
	n := b.Sub(a).Cross(c.Sub(a))
	best, bp := math.Inf(1), a
	if n.Norm() > 0 {
		nn := n.Normalize()
		q := p.Sub(nn.Scale(p.Sub(a).Dot(nn)))
		in := true
		for k := 0; k < 3; k++ {
			e0, e1 := t[k], t[(k+1)%3]
			if e1.Sub(e0).Cross(q.Sub(e0)).Dot(n) < 0 {
				in = false
			}
		}
		if in {
			return p.Dist(q), q
		}
	}
	for k := 0; k < 3; k++ {
		e0, e1 := t[k], t[(k+1)%3]
		ab := e1.Sub(e0)
		tt := 0.0
		if ab.Dot(ab) > 0 {
			tt = math.Max(0, math.Min(1, p.Sub(e0).Dot(ab)/ab.Dot(ab)))
		}
		q := e0.Add(ab.Scale(tt))
		if d := p.Dist(q); d < best {
			best, bp = d, q
		}
	}
	return best, bp
}

// windingOf maps the name of a re-oriented catalogue variant to the consistently wound triangles of the same
// surface: containment is the even-odd rule on the surface, whatever way its faces happen to be wound.
var windingOf = map[string][][3][3]float64{}

func checkMeshSDF(r *ev.Run, nm cat.Named3, n int) {
	m := nm.Mesh()
	sdf := model3d.MeshToSDF(m)
	tris := lat.Tris(m)
	if w, ok := windingOf[nm.Name]; ok {
		tris = w
	}
	mn, mx := m.Min(), m.Max()
	ext := mx.Sub(mn).Norm()
	tol := 1e-9 * (ext + 1)
	for i := 0; i < n; i++ {
		for j := 0; j < n; j++ {
			for k := 0; k < n; k++ {
				f := func(t int, lo, hi float64) float64 {
					return lo - 0.3*(hi-lo) + (hi-lo)*1.6*float64(t)/float64(n-1) + 0.0123*(hi-lo)
				}
				p := model3d.XYZ(f(i, mn.X, mx.X), f(j, mn.Y, mx.Y), f(k, mn.Z, mx.Z))
				r.Eval(1)
				best := math.Inf(1)
				for _, t := range m.TriangleSlice() {
					if d, _ := triDist(p, *t); d < best {
						best = d
					}
				}
				w := topo.Winding3(tris, p.Array())
				inside := math.Abs(math.Mod(math.Round(w), 2)) == 1
				c := sdfCase{"MeshToSDF(" + nm.Name + ")", []float64{p.X, p.Y, p.Z}, "SDF"}
				got := sdf.SDF(p)
				if !(math.Abs(math.Abs(got)-best) <= tol) {
					r.Violation("MeshToSDF/distance", fmt.Sprintf("%s at %v: |SDF|=%.12g, brute-force minimum over triangles %.12g", nm.Name, p, math.Abs(got), best), c)
					continue
				}
				if best > 1e-6 && (got > 0) != inside {
					r.Violation("MeshToSDF/sign", fmt.Sprintf("%s at %v: SDF=%g, winding number %g", nm.Name, p, got, w), c)
				}
				face, q, d := sdf.FaceSDF(p)
				if d != got {
					r.Violation("MeshToSDF/FaceSDF-distance", fmt.Sprintf("FaceSDF distance %g != SDF %g", d, got), c)
				}
				if fd, _ := triDist(q, *face); fd > 1e-9*(ext+1) || !(math.Abs(q.Dist(p)-best) <= tol) {
					r.Violation("MeshToSDF/FaceSDF-point", fmt.Sprintf("%s at %v: nearest point %v is %g from the reported face and %g from the query (true distance %g)", nm.Name, p, q, fd, q.Dist(p), best), c)
				}
				nrm, _ := sdf.NormalSDF(p)
				if fn := face.Normal(); !(math.Abs(nrm.Norm()-1) <= 1e-6) || !(nrm.Dist(fn) <= 1e-9) {
					r.Violation("MeshToSDF/NormalSDF", fmt.Sprintf("normal %v is not the unit normal %v of the nearest face", nrm, fn), c)
				}
				q2, d2 := sdf.PointSDF(p)
				if d2 != got || q2 != q {
					r.Violation("MeshToSDF/PointSDF", "PointSDF disagrees with FaceSDF", c)
				}
				r.NontrivialAdd(1)
			}
		}
	}
}

// checkSingleTriangles: every ordered vertex triple of a 3x3x2 integer grid
// (so every triangle shape the grid offers - acute, right, obtuse, needle - in
// all six vertex orders) as a one-face mesh: |SDF| must be the distance to
// that triangle and the reported nearest point must lie on it at that
// distance. A wrong answer of the per-triangle nearest-point routine cannot
// be masked by a neighbouring face here.
func checkSingleTriangles(r *ev.Run, n int) {
	var grid []model3d.Coord3D
	for x := 0; x < 3; x++ {
		for y := 0; y < 3; y++ {
			for z := 0; z < 2; z++ {
				grid = append(grid, model3d.XYZ(float64(x), float64(y), float64(z)))
			}
		}
	}
	var qs []model3d.Coord3D
	for i := 0; i < n; i++ {
		for j := 0; j < n; j++ {
			for k := 0; k < n; k++ {
				f := func(t int, lo, hi float64) float64 { return lo + (hi-lo)*float64(t)/float64(n-1) }
				qs = append(qs, model3d.XYZ(f(i, -1.3, 3.4)+0.0123, f(j, -1.4, 3.3)-0.0077, f(k, -1.2, 2.3)+0.0191))
			}
		}
	}
	type tri struct{ a, b, c int }
	var ts []tri
	for a := range grid {
		for b := range grid {
			for c := range grid {
				if a != b && b != c && a != c && grid[b].Sub(grid[a]).Cross(grid[c].Sub(grid[a])).Norm() > 0 {
					ts = append(ts, tri{a, b, c})
				}
			}
		}
	}
	ev.Parallel(len(ts), 16, func(i int) {
		t := [3]model3d.Coord3D{grid[ts[i].a], grid[ts[i].b], grid[ts[i].c]}
		m := model3d.NewMesh()
		m.Add(&model3d.Triangle{t[0], t[1], t[2]})
		sdf := model3d.MeshToSDF(m)
		name := fmt.Sprintf("MeshToSDF(single triangle %v %v %v)", t[0], t[1], t[2])
		for _, p := range qs {
			r.Eval(1)
			want, _ := triDist(p, t)
			c := sdfCase{name, []float64{p.X, p.Y, p.Z}, "SDF"}
			q, got := sdf.PointSDF(p)
			if !(math.Abs(math.Abs(got)-want) <= 1e-9) {
				r.Violation("MeshToSDF/single-triangle-distance", fmt.Sprintf("%s at %v: |SDF|=%.12g, distance to the triangle %.12g", name, p, math.Abs(got), want), c)
				break
			}
			if fd, _ := triDist(q, t); fd > 1e-9 || !(math.Abs(q.Dist(p)-want) <= 1e-9) {
				r.Violation("MeshToSDF/single-triangle-point", fmt.Sprintf("%s at %v: nearest point %v is %g off the triangle and %g from the query (true distance %g)", name, p, q, fd, q.Dist(p), want), c)
				break
			}
		}
		r.NontrivialAdd(1)
	})
	r.Set("single_triangle_meshes", len(ts))
	// the primitive itself, including triangles without area (a repeated corner, three corners on a line, one point):
	// Dist and Closest against the same independent distance, which for those is the distance to the segment or point
	var all []tri
	for a := range grid {
		for b := range grid {
			for c := range grid {
				if a%5 == 0 || (a == b || b == c || a == c) || grid[b].Sub(grid[a]).Cross(grid[c].Sub(grid[a])).Norm() == 0 {
					all = append(all, tri{a, b, c})
				}
			}
		}
	}
	var flat int64
	ev.Parallel(len(all), 16, func(i int) {
		t := [3]model3d.Coord3D{grid[all[i].a], grid[all[i].b], grid[all[i].c]}
		tr := &model3d.Triangle{t[0], t[1], t[2]}
		name := fmt.Sprintf("Triangle(%v %v %v)", t[0], t[1], t[2])
		if t[1].Sub(t[0]).Cross(t[2].Sub(t[0])).Norm() == 0 {
			atomic.AddInt64(&flat, 1)
		}
		for qi, p := range qs {
			if qi%3 != 0 {
				continue
			}
			r.Eval(1)
			want, _ := triDist(p, t)
			c := sdfCase{name, []float64{p.X, p.Y, p.Z}, "Triangle.Dist"}
			if got := tr.Dist(p); !(math.Abs(got-want) <= 1e-9) {
				r.Violation("Triangle/Dist", fmt.Sprintf("%s at %v: Dist=%.12g, distance to the triangle %.12g", name, p, got, want), c)
				break
			}
			q := tr.Closest(p)
			if fd, _ := triDist(q, t); !(fd <= 1e-9) || !(math.Abs(q.Dist(p)-want) <= 1e-9) {
				r.Violation("Triangle/Closest", fmt.Sprintf("%s at %v: Closest=%v is %g off the triangle and %g from the query (true distance %g)", name, p, q, fd, q.Dist(p), want), c)
				break
			}
		}
	})
	r.NontrivialAdd(int(flat))
	r.Set("triangles_without_area", int(flat))
}

// ---- 2D ----

type sdfObj2 interface {
	model2d.Solid
	model2d.PointSDF
	model2d.NormalSDF
}

func checkShape2(r *ev.Run, s ref.Shape2, n int) {
	obj := s.Obj.(sdfObj2)
	fam := "2d." + family(s.Name)
	tol := 1e-9 * (s.Extent + s.Center.Norm() + 1)
	e := 2 * s.Extent
	var prev model2d.Coord
	var prevV float64
	for i := 0; i < n; i++ {
		for j := 0; j < n; j++ {
			f := func(t int) float64 { return (float64(t)/float64(n-1))*2 - 1 }
			p := s.Center.Add(model2d.XY(f(i)*e+0.0137*e, f(j)*e-0.0071*e))
			if (i+j)%7 == 0 {
				p = s.Center.Add(model2d.XY(f(i)*e, 0)) // on the symmetry axis
			}
			r.Eval(1)
			c := sdfCase{s.Name, []float64{p.X, p.Y}, "SDF"}
			want, got := s.SDF(p), obj.SDF(p)
			if !(math.Abs(got-want) <= tol) {
				r.Violation(fam+"/SDF/distance", fmt.Sprintf("%s at %v: SDF=%.12g, reference %.12g", s.Name, p, got, want), c)
				continue
			}
			if !(math.Abs(want) <= 10*tol) && (got > 0) != obj.Contains(p) {
				r.Violation(fam+"/SDF/sign", fmt.Sprintf("%s at %v: SDF=%g but Contains=%v", s.Name, p, got, obj.Contains(p)), c)
			}
			q, d := obj.PointSDF(p)
			if !(math.Abs(d-got) <= tol) || !(math.Abs(s.SDF(q)) <= 1e-7*(s.Extent+1)) || !(math.Abs(q.Dist(p)-math.Abs(want)) <= 1e-7*(s.Extent+1)) {
				r.Violation(fam+"/PointSDF", fmt.Sprintf("%s at %v: nearest point %v (surface distance %g), distance %g, true %g", s.Name, p, q, s.SDF(q), q.Dist(p), math.Abs(want)), c)
			}
			nrm, d2 := obj.NormalSDF(p)
			if !(math.Abs(d2-got) <= tol) || !(math.Abs(nrm.Norm()-1) <= 1e-6) {
				r.Violation(fam+"/NormalSDF/unit", fmt.Sprintf("%s at %v: normal %v distance %g", s.Name, p, nrm, d2), c)
			} else {
				// smooth points: gradient by central differences on the reference
				h := 1e-6 * s.Extent
				g := model2d.XY((s.SDF(p.Add(model2d.X(h)))-s.SDF(p.Sub(model2d.X(h))))/(2*h), (s.SDF(p.Add(model2d.Y(h)))-s.SDF(p.Sub(model2d.Y(h))))/(2*h))
				if math.Abs(g.Norm()-1) < 1e-4 {
					wn := g.Scale(-1 / g.Norm())
					near := p.Add(wn.Scale(want))
					h2 := 1e-2 * s.Extent
					ok := true
					for _, qq := range []model2d.Coord{near.Add(model2d.XY(-wn.Y, wn.X).Scale(h2)), near.Sub(model2d.XY(-wn.Y, wn.X).Scale(h2))} {
						g2 := model2d.XY((s.SDF(qq.Add(model2d.X(h)))-s.SDF(qq.Sub(model2d.X(h))))/(2*h), (s.SDF(qq.Add(model2d.Y(h)))-s.SDF(qq.Sub(model2d.Y(h))))/(2*h))
						if !(math.Abs(g2.Norm()-1) <= 1e-2) || !(g2.Scale(-1/g2.Norm()).Dist(wn) <= 3*h2/s.Feature+1e-3) {
							ok = false
						}
					}
					if ok {
						r.NontrivialAdd(1)
						if !(nrm.Dist(wn) <= 2e-3) {
							r.Violation(fam+"/NormalSDF/direction", fmt.Sprintf("%s at %v: normal %v, reference outward normal %v", s.Name, p, nrm, wn), c)
						}
					}
				}
			}
			if j > 0 && !(math.Abs(got-prevV) <= p.Dist(prev)*(1+1e-9)+tol) {
				r.Violation(fam+"/SDF/lipschitz", fmt.Sprintf("%s: changes by %g over %g", s.Name, math.Abs(got-prevV), p.Dist(prev)), c)
			}
			prev, prevV = p, got
		}
	}
}

func checkMeshSDF2(r *ev.Run, nm cat.Named2, n int) {
	m := nm.Mesh()
	sdf := model2d.MeshToSDF(m)
	segs := lat.Segs(m)
	mn, mx := m.Min(), m.Max()
	ext := mx.Sub(mn).Norm()
	for i := 0; i < n; i++ {
		for j := 0; j < n; j++ {
			f := func(t int, lo, hi float64) float64 {
				return lo - 0.3*(hi-lo) + (hi-lo)*1.6*float64(t)/float64(n-1) + 0.0123*(hi-lo)
			}
			p := model2d.XY(f(i, mn.X, mx.X), f(j, mn.Y, mx.Y))
			r.Eval(1)
			best := math.Inf(1)
			for _, s := range m.SegmentSlice() {
				ab := s[1].Sub(s[0])
				t := math.Max(0, math.Min(1, p.Sub(s[0]).Dot(ab)/ab.Dot(ab)))
				if d := p.Dist(s[0].Add(ab.Scale(t))); d < best {
					best = d
				}
			}
			w := topo.Winding2(segs, p.Array())
			inside := math.Abs(math.Mod(math.Round(w), 2)) == 1
			got := sdf.SDF(p)
			c := sdfCase{"2d.MeshToSDF(" + nm.Name + ")", []float64{p.X, p.Y}, "SDF"}
			if !(math.Abs(math.Abs(got)-best) <= 1e-9*(ext+1)) {
				r.Violation("2d.MeshToSDF/distance", fmt.Sprintf("%s at %v: |SDF|=%.12g, brute force %.12g", nm.Name, p, math.Abs(got), best), c)
			} else if best > 1e-6 && (got > 0) != inside {
				r.Violation("2d.MeshToSDF/sign", fmt.Sprintf("%s at %v: SDF=%g, winding number %g", nm.Name, p, got, w), c)
			}
			q, d := sdf.PointSDF(p)
			if d != got || !(math.Abs(q.Dist(p)-best) <= 1e-9*(ext+1)) {
				r.Violation("2d.MeshToSDF/PointSDF", fmt.Sprintf("%s at %v: point %v at %g, true %g", nm.Name, p, q, q.Dist(p), best), c)
			}
			r.NontrivialAdd(1)
		}
	}
}

// ---- profile SDFs ----

func checkProfile(r *ev.Run, n int) {
	for _, s2 := range ref.Shapes2() {
		obj := s2.Obj.(sdfObj2)
		for _, slab := range [][2]float64{{-0.4, 1.1}, {-0.5, 0.5}, {1, 2}} {
			minZ, maxZ := slab[0], slab[1]
			want := func(p model3d.Coord3D) float64 {
				d2 := s2.SDF(model2d.XY(p.X, p.Y))
				dz := math.Min(p.Z-minZ, maxZ-p.Z)
				if d2 >= 0 && dz >= 0 {
					return math.Min(d2, dz)
				}
				return -math.Hypot(math.Max(-d2, 0), math.Max(-dz, 0))
			}
			ps := model3d.ProfileSDF(obj, minZ, maxZ)
			pps := model3d.ProfilePointSDF(obj, minZ, maxZ)
			e := 2 * s2.Extent
			for i := 0; i < n; i++ {
				for j := 0; j < n; j++ {
					for k := 0; k < n; k++ {
						f := func(t int) float64 { return (float64(t)/float64(n-1))*2 - 1 }
						p := model3d.XYZ(s2.Center.X+f(i)*e+0.0137*e, s2.Center.Y+f(j)*e-0.0071*e, 0.35+f(k)*1.7)
						// the slab's own planes: exactly half way (both caps equally near), the caps, a quarter
						if k < 4 {
							p.Z = []float64{(minZ + maxZ) / 2, minZ, maxZ, minZ + (maxZ-minZ)/4}[k]
						}
						r.Eval(1)
						r.NontrivialAdd(1)
						w := want(p)
						c := sdfCase{"ProfileSDF(" + s2.Name + ")", []float64{p.X, p.Y, p.Z}, "SDF"}
						if got := ps.SDF(p); !(math.Abs(got-w) <= 1e-9*(s2.Extent+s2.Center.Norm()+2)) {
							r.Violation("ProfileSDF/distance", fmt.Sprintf("%s at %v: SDF=%.12g, reference %.12g", s2.Name, p, got, w), c)
						}
						q, d := pps.PointSDF(p)
						if !(math.Abs(d-w) <= 1e-9*(s2.Extent+s2.Center.Norm()+2)) || !(math.Abs(want(q)) <= 1e-7*(s2.Extent+2)) || !(math.Abs(q.Dist(p)-math.Abs(w)) <= 1e-7*(s2.Extent+2)) {
							r.Violation("ProfilePointSDF/point", fmt.Sprintf("%s at %v: point %v (surface distance %g), distance %g, reference %g", s2.Name, p, q, want(q), d, w), c)
						}
					}
				}
			}
		}
	}
}

// ---- feature points of segment-based shapes on a lattice of end points ----
//
// Capsules (2D and 3D), cylinders and cones are queried exactly at their defining points (end points, their
// midpoint, points beyond the ends on the axis) for every pair of lattice end points at several scales: the
// place where an axial projection rounds to either side of the end plane. Oracle: closed-form distance,
// nearest point on the surface at that distance, unit normal.
type featCase struct {
	Kind  string    `json:"kind"`
	Shape string    `json:"shape"`
	P1    []float64 `json:"p1"`
	P2    []float64 `json:"p2"`
	R     float64   `json:"r"`
	T     float64   `json:"t"`
}

func checkFeature(r *ev.Run, c featCase) {
	viol := func(kind, msg string) {
		r.Violation("feature/"+c.Shape+"/"+kind, fmt.Sprintf("%s P1=%v P2=%v r=%g, query P1+%g(P2-P1): %s", c.Shape, c.P1, c.P2, c.R, c.T, msg), c)
	}
	r.Eval(1)
	if len(c.P1) == 2 {
		p1, p2 := model2d.XY(c.P1[0], c.P1[1]), model2d.XY(c.P2[0], c.P2[1])
		q := p1.Add(p2.Sub(p1).Scale(c.T))
		obj := &model2d.Capsule{P1: p1, P2: p2, Radius: c.R}
		want := c.R - ref.SegDist2(q.X, q.Y, p1.X, p1.Y, p2.X, p2.Y)
		tol := 1e-9 * (1 + p1.Norm() + p2.Norm())
		if got := obj.SDF(q); !(math.Abs(got-want) <= tol) {
			viol("SDF", fmt.Sprintf("SDF=%.12g, reference %.12g", got, want))
		}
		pt, d := obj.PointSDF(q)
		onSurf := c.R - ref.SegDist2(pt.X, pt.Y, p1.X, p1.Y, p2.X, p2.Y)
		if !(math.Abs(d-want) <= tol) || !(math.Abs(onSurf) <= 1e-7) || !(math.Abs(pt.Dist(q)-math.Abs(want)) <= 1e-7) {
			viol("PointSDF", fmt.Sprintf("nearest point %v is %g from the surface and %g from the query; the surface is %g away", pt, onSurf, pt.Dist(q), math.Abs(want)))
		}
		n, d2 := obj.NormalSDF(q)
		if !(math.Abs(d2-want) <= tol) || !(math.Abs(n.Norm()-1) < 1e-6) {
			viol("NormalSDF", fmt.Sprintf("normal %v (length %g), distance %g, reference %g", n, n.Norm(), d2, want))
		}
		r.NontrivialAdd(1)
		return
	}
	p1, p2 := model3d.XYZ(c.P1[0], c.P1[1], c.P1[2]), model3d.XYZ(c.P2[0], c.P2[1], c.P2[2])
	q := p1.Add(p2.Sub(p1).Scale(c.T))
	var sh ref.Shape3
	switch c.Shape {
	case "Capsule":
		sh = ref.Capsule(p1, p2, c.R)
	case "Cylinder":
		sh = ref.Cylinder(p1, p2, c.R)
	default:
		sh = ref.Cone(p1, p2, c.R)
	}
	obj := sh.Obj.(sdfObj)
	want := sh.SDF(q)
	tol := 1e-9 * (1 + p1.Norm() + p2.Norm())
	if got := obj.SDF(q); !(math.Abs(got-want) <= tol) {
		viol("SDF", fmt.Sprintf("SDF=%.12g, reference %.12g", got, want))
	}
	pt, d := obj.PointSDF(q)
	if !(math.Abs(d-want) <= tol) || !(math.Abs(sh.SDF(pt)) <= 1e-7) || !(math.Abs(pt.Dist(q)-math.Abs(want)) <= 1e-7) {
		viol("PointSDF", fmt.Sprintf("nearest point %v is %g from the surface and %g from the query; the surface is %g away", pt, sh.SDF(pt), pt.Dist(q), math.Abs(want)))
	}
	n, d2 := obj.NormalSDF(q)
	if !(math.Abs(d2-want) <= tol) || !(math.Abs(n.Norm()-1) < 1e-6) {
		viol("NormalSDF", fmt.Sprintf("normal %v (length %g), distance %g, reference %g", n, n.Norm(), d2, want))
	}
	r.NontrivialAdd(1)
}

func featureStage(r *ev.Run, th bool) {
	var cases []featCase
	ts := []float64{0, 1, 0.5, -0.25, 1.25}
	scales := []float64{1, 0.1, 0.3}
	if th {
		scales = append(scales, 1.7, 0.7, 1e-3)
	}
	rng := 3
	if th {
		rng = 4
	}
	for x1 := -rng; x1 <= rng; x1++ {
		for y1 := -rng; y1 <= rng; y1++ {
			for x2 := -rng; x2 <= rng; x2++ {
				for y2 := -rng; y2 <= rng; y2++ {
					if x1 == x2 && y1 == y2 {
						continue
					}
					for _, s := range scales {
						for _, t := range ts {
							cases = append(cases, featCase{"feature", "Capsule2D", []float64{float64(x1) * s, float64(y1) * s}, []float64{float64(x2) * s, float64(y2) * s}, 0.5 * s, t})
						}
					}
				}
			}
		}
	}
	// 3D: first end point on a coarser lattice, second over the full one
	for _, a := range [][3]int{{0, 0, 0}, {1, -2, 3}, {-3, 1, 2}} {
		for x2 := -rng; x2 <= rng; x2++ {
			for y2 := -rng; y2 <= rng; y2++ {
				for z2 := -rng; z2 <= rng; z2++ {
					if x2 == a[0] && y2 == a[1] && z2 == a[2] {
						continue
					}
					for _, s := range scales {
						for _, t := range ts {
							for _, shape := range []string{"Capsule", "Cylinder", "Cone"} {
								cases = append(cases, featCase{"feature", shape, []float64{float64(a[0]) * s, float64(a[1]) * s, float64(a[2]) * s},
									[]float64{float64(x2) * s, float64(y2) * s, float64(z2) * s}, 0.5 * s, t})
							}
						}
					}
				}
			}
		}
	}
	ev.Parallel(len(cases), 16, func(i int) { checkFeature(r, cases[i]) })
	r.Set("feature_point_cases", len(cases))
}

// ---- ColliderToSDF: bisection on ball tests ----
//
// The search brackets the distance by doubling/halving from 1 and then bisects `iterations` times with
// SphereCollision; with the default 32 iterations the result must be the reference distance to 1e-6 relative
// (sign from even-odd containment). Every primitive collider of the alphabet whose ball test is exact, and the
// mesh colliders of the catalogue, on the point lattice.
func colliderSDFStage(r *ev.Run, n int) {
	shapes := ref.Shapes3(false)
	var sel []ref.Shape3
	for i, s := range shapes {
		if _, ok := s.Obj.(model3d.Collider); ok && (i%5 == 0 || i%5 == 2) {
			sel = append(sel, s)
		}
	}
	ev.Parallel(len(sel), 16, func(si int) {
		s := sel[si]
		for _, iters := range []int{0, 40} {
			sdf := model3d.ColliderToSDF(s.Obj.(model3d.Collider), iters)
			for _, p := range points3(s, n) {
				want := s.SDF(p)
				if math.Abs(want) < 1e-6*(1+s.Extent) {
					continue // on the surface: the sign is undetermined
				}
				r.Eval(1)
				r.NontrivialAdd(1)
				got := sdf.SDF(p)
				if !(math.Abs(got-want) <= 1e-6*(1+math.Abs(want)+s.Extent)) {
					r.Violation("ColliderToSDF/distance", fmt.Sprintf("%s (iterations %d) at %v: SDF=%.10g, reference %.10g", s.Name, iters, p, got, want), sdfCase{s.Name, []float64{p.X, p.Y, p.Z}, "ColliderToSDF"})
					break
				}
			}
		}
	})
	// mesh colliders: the catalogue, and sparse slanted shapes whose bounding box is mostly empty - next to a box corner
	// the surface can be farther away than the box is long, which a bracket derived from the box would not reach.
	// Reference: exact minimum over the triangles, sign from the winding number. Queries: the point lattice and
	// probes just outside each of the eight box corners and six face centres.
	type meshShape struct {
		name string
		tris [][3]model3d.Coord3D
	}
	p3 := model3d.XYZ
	var ms []meshShape
	for _, nm := range cat.Closed3(true) {
		if nm.Comps == 1 {
			ms = append(ms, meshShape{nm.Name, nm.Tris})
		}
	}
	ms = append(ms,
		meshShape{"slanted-wedge", cat.Tetra(p3(1, 1, 1), p3(0, 0, 1), p3(0, 1, 0), p3(0.35, 0.7, 0.7))},
		meshShape{"diagonal-needle", cat.Tetra(p3(0, 0, 0), p3(2, 2, 2), p3(0.06, 0, 0), p3(0, 0.06, 0))},
		meshShape{"tilted-plate", cat.Tetra(p3(0, 0, 0), p3(3, 0, 1), p3(0, 3, 1), p3(1, 1, 0.72))})
	ev.Parallel(len(ms), 16, func(mi int) {
		m := model3d.NewMesh()
		for _, t := range ms[mi].tris {
			m.Add(&model3d.Triangle{t[0], t[1], t[2]})
		}
		tt := lat.Tris(m)
		want := func(p model3d.Coord3D) float64 {
			best := math.Inf(1)
			for _, t := range ms[mi].tris {
				if d, _ := triDist(p, t); d < best {
					best = d
				}
			}
			if math.Abs(math.Mod(math.Round(topo.Winding3(tt, p.Array())), 2)) == 1 {
				return best
			}
			return -best
		}
		mn, mx := m.Min(), m.Max()
		ext := mx.Dist(mn)
		var qs []model3d.Coord3D
		for i := 0; i < n; i++ {
			for j := 0; j < n; j++ {
				for k := 0; k < n; k++ {
					f := func(t int) float64 { return float64(t)/float64(n-1)*1.6 - 0.3 }
					qs = append(qs, mn.Add(mx.Sub(mn).Mul(p3(f(i)+0.0137, f(j)-0.0071, f(k)+0.0093))))
				}
			}
		}
		for c := 0; c < 8; c++ {
			corner := p3(pickC(c&1, mn.X, mx.X), pickC(c>>1&1, mn.Y, mx.Y), pickC(c>>2&1, mn.Z, mx.Z))
			out := corner.Sub(mn.Mid(mx)).Normalize()
			for _, e := range []float64{1e-3, 0.01, 0.1, 0.3} {
				qs = append(qs, corner.Add(out.Scale(e*ext)))
				for ax := 0; ax < 3; ax++ {
					var d [3]float64
					d[ax] = out.Array()[ax] / math.Abs(out.Array()[ax]) * e * ext
					qs = append(qs, corner.Add(p3(d[0], d[1], d[2]))) // just outside one face only, level with the corner
				}
			}
		}
		sdf := model3d.ColliderToSDF(model3d.MeshToCollider(m), 0)
		for _, q := range qs {
			w := want(q)
			if math.Abs(w) < 1e-6*(1+ext) {
				continue
			}
			r.Eval(1)
			r.NontrivialAdd(1)
			if got := sdf.SDF(q); !(math.Abs(got-w) <= 1e-6*(1+math.Abs(w)+ext)) {
				r.Violation("ColliderToSDF/distance", fmt.Sprintf("mesh collider of %s at %v: SDF=%.10g, exact distance to the triangles %.10g", ms[mi].name, q, got, w), sdfCase{ms[mi].name, []float64{q.X, q.Y, q.Z}, "ColliderToSDF"})
				return
			}
		}
		// the same collider seen through a similarity (shrunk, enlarged, moved): distances scale with it, so the field
		// at the image of q is the factor times the field at q
		for _, sc := range []float64{0.5, 3} {
			off := p3(0.7, -1.3, 0.4)
			tr := model3d.JoinedTransform{&model3d.Scale{Scale: sc}, &model3d.Translate{Offset: off}}
			tsdf := model3d.ColliderToSDF(model3d.TransformCollider(tr, model3d.MeshToCollider(m)), 0)
			for qi, q := range qs {
				w := want(q)
				if qi%4 != 0 || math.Abs(w) < 1e-6*(1+ext) {
					continue
				}
				r.Eval(1)
				tq := q.Scale(sc).Add(off)
				if got := tsdf.SDF(tq); !(math.Abs(got-sc*w) <= 1e-6*sc*(1+math.Abs(w)+ext)) {
					r.Violation("ColliderToSDF/transformed", fmt.Sprintf("mesh collider of %s scaled by %g and moved, at %v: SDF=%.10g, %g x the exact distance is %.10g", ms[mi].name, sc, tq, got, sc, sc*w), sdfCase{ms[mi].name, []float64{tq.X, tq.Y, tq.Z}, "ColliderToSDF"})
					return
				}
			}
		}
	})
	s2 := ref.Shapes2()
	ev.Parallel(len(s2), 16, func(si int) {
		s := s2[si]
		c, ok := s.Obj.(model2d.Collider)
		if !ok {
			return
		}
		sdf := model2d.ColliderToSDF(c, 0)
		e := 2 * s.Extent
		for i := 0; i < 2*n; i++ {
			for j := 0; j < 2*n; j++ {
				f := func(t int) float64 { return (float64(t)/float64(2*n-1))*2 - 1 }
				p := s.Center.Add(model2d.XY(f(i)*e+0.0137*e, f(j)*e-0.0071*e))
				want := s.SDF(p)
				if math.Abs(want) < 1e-6*(1+s.Extent) {
					continue
				}
				r.Eval(1)
				r.NontrivialAdd(1)
				if got := sdf.SDF(p); !(math.Abs(got-want) <= 1e-6*(1+math.Abs(want)+s.Extent)) {
					r.Violation("2d.ColliderToSDF/distance", fmt.Sprintf("%s at %v: SDF=%.10g, reference %.10g", s.Name, p, got, want), sdfCase{s.Name, []float64{p.X, p.Y}, "ColliderToSDF"})
					return
				}
			}
		}
	})
}

func pickC(b int, lo, hi float64) float64 {
	if b == 0 {
		return lo
	}
	return hi
}

// ---- segments: Dist/Closest (Euclidean) and L1Dist/ClosestL1, every lattice segment x every lattice query ----
//
// L1 distance along a segment is piecewise linear in the parameter with kinks where a coordinate of the query
// is reached, so the minimum over {0, 1, kink parameters} computed here is exact.
func segmentStage(r *ev.Run) {
	var lat []model3d.Coord3D
	for x := -1; x <= 1; x++ {
		for y := -1; y <= 1; y++ {
			for z := -1; z <= 1; z++ {
				lat = append(lat, model3d.XYZ(float64(x), float64(y)*0.5, float64(z)*2))
			}
		}
	}
	var qs []model3d.Coord3D
	for x := -2; x <= 2; x++ {
		for y := -2; y <= 2; y++ {
			for z := -2; z <= 2; z++ {
				qs = append(qs, model3d.XYZ(float64(x)*0.75, float64(y)*0.4+0.1, float64(z)*1.25-0.3))
			}
		}
	}
	ev.Parallel(len(lat), 16, func(i int) {
		for j, b := range lat {
			if i == j {
				continue
			}
			a := lat[i]
			seg := model3d.NewSegment(a, b)
			v := b.Sub(a)
			for _, q := range qs {
				r.Eval(1)
				c := sdfCase{fmt.Sprintf("Segment(%v,%v)", a, b), []float64{q.X, q.Y, q.Z}, "Segment"}
				// Euclidean
				t := math.Max(0, math.Min(1, q.Sub(a).Dot(v)/v.Dot(v)))
				wantP := a.Add(v.Scale(t))
				if got := seg.Closest(q); !(got.Dist(wantP) <= 1e-9) || !(math.Abs(seg.Dist(q)-wantP.Dist(q)) <= 1e-9) {
					r.Violation("Segment/Closest", fmt.Sprintf("segment %v-%v, query %v: Closest=%v Dist=%g, reference %v at %g", a, b, q, got, seg.Dist(q), wantP, wantP.Dist(q)), c)
				}
				// L1
				cands := []float64{0, 1}
				va, qa := v.Array(), q.Sub(a).Array()
				for k := 0; k < 3; k++ {
					if va[k] != 0 {
						if tk := qa[k] / va[k]; tk > 0 && tk < 1 {
							cands = append(cands, tk)
						}
					}
				}
				best := math.Inf(1)
				for _, tk := range cands {
					best = math.Min(best, a.Add(v.Scale(tk)).L1Dist(q))
				}
				got := seg.ClosestL1(q)
				onSeg := got.Dist(a)+got.Dist(b) <= a.Dist(b)+1e-9
				if !onSeg || !(math.Abs(got.L1Dist(q)-best) <= 1e-9) || !(math.Abs(seg.L1Dist(q)-best) <= 1e-9) {
					r.Violation("Segment/ClosestL1", fmt.Sprintf("segment %v-%v, query %v: ClosestL1=%v (on segment %v) at L1 distance %g, L1Dist=%g, the minimum L1 distance is %g", a, b, q, got, onSeg, got.L1Dist(q), seg.L1Dist(q), best), c)
				}
				r.NontrivialAdd(1)
			}
		}
	})
}

func main() {
	r := ev.Start("C06", "exploration")
	th := r.Thorough()
	n := 11
	if th {
		n = 21
	}
	if r.Replay != "" {
		var fc featCase
		r.LoadReplay(&fc)
		if fc.Kind == "feature" {
			checkFeature(r, fc)
			r.Sample(fc)
			r.Finish()
		}
		var c sdfCase
		r.LoadReplay(&c)
		if c.API == "Segment" {
			segmentStage(r)
			r.Sample(c)
			r.Finish()
		}
		if c.API == "Triangle.Dist" || strings.HasPrefix(c.Shape, "MeshToSDF(single triangle") {
			checkSingleTriangles(r, 5)
			r.Sample(c)
			r.Finish()
		}
		if c.API == "ColliderToSDF" {
			colliderSDFStage(r, 6)
			r.Sample(c)
			r.Finish()
		}
		for _, s := range ref.Shapes3(true) {
			if s.Name == c.Shape {
				checkShape3(r, s, 9)
			}
		}
		for _, s := range ref.Shapes2() {
			if s.Name == c.Shape {
				checkShape2(r, s, 15)
			}
		}
		r.NontrivialAdd(2)
		r.Sample(c)
		r.Finish()
	}
	r.Rule(fmt.Sprintf("full product of the primitive parameter alphabets (2 centres x 2 radii x 2 lengths x %d axis directions incl. near-degenerate ones; 2D circle/rect/capsule/triangle) with a %d^3 (2D: %d^2) point lattice over twice the shape's extent plus centres, symmetry axes and rim/apex neighbourhoods; mesh SDFs of the catalogue (every face in each vertex rotation) against brute force over triangles and winding numbers; one-face meshes of every ordered vertex triple of a 3x3x2 grid against the point-triangle distance; profile SDFs against the extruded 2D reference. "+
		"non-trivial = query points at which the reference surface is smooth so that the normal direction is judged (others are counted as skipped), and every mesh/profile query", len(ref.Axes), n, 2*n))
	r.Assume("tolerance 1e-9 x scale on distances, 2e-3 on unit normals; normals are judged only where the reference field is smooth at the nearest boundary point (consistent central-difference gradients at two scales)")
	shapes := ref.Shapes3(true)
	r.Isolate("primitives3", func() {
		ev.Parallel(len(shapes), 16, func(i int) { checkShape3(r, shapes[i], n) })
		r.Sample(sdfCase{shapes[len(shapes)/2].Name, []float64{0.1, 0.2, 0.3}, "SDF/PointSDF/NormalSDF"})
	})
	// the same alphabet at millimetre and kilometre scale (exact power-of-two images): absolute thresholds
	r.Isolate("primitives3-scaled", func() {
		for _, k := range []float64{1.0 / 1024, 1024} {
			sc := ref.Shapes3Scaled(false, k)
			ev.Parallel(len(sc), 16, func(i int) { checkShape3(r, sc[i], (n+1)/2) })
		}
	})
	r.Isolate("primitives2", func() {
		s2 := ref.Shapes2()
		ev.Parallel(len(s2), 16, func(i int) { checkShape2(r, s2[i], 2*n) })
	})
	r.Isolate("meshes", func() {
		var ms []cat.Named3
		for _, nm := range cat.Closed3(false) {
			// every face in each of its three vertex rotations (same orientation)
			for rot := 0; rot < 3; rot++ {
				v := cat.Named3{Name: fmt.Sprintf("%s/rot%d", nm.Name, rot), Genus: nm.Genus, Comps: nm.Comps}
				for _, t := range nm.Tris {
					v.Tris = append(v.Tris, [3]model3d.Coord3D{t[rot], t[(rot+1)%3], t[(rot+2)%3]})
				}
				ms = append(ms, v)
			}
		}
		// the same surfaces with every face, and with every third face, wound the other way (an STL of the other
		// handedness, a mesh before RepairNormals): the sign of the field follows containment, not the winding
		for _, nm := range cat.Closed3(false) {
			for _, every := range []int{1, 3} {
				v := cat.Named3{Name: fmt.Sprintf("%s/flipped-every-%d", nm.Name, every), Genus: nm.Genus, Comps: nm.Comps}
				for i, t := range nm.Tris {
					if i%every == 0 {
						v.Tris = append(v.Tris, [3]model3d.Coord3D{t[1], t[0], t[2]})
					} else {
						v.Tris = append(v.Tris, t)
					}
				}
				windingOf[v.Name] = lat.Tris(nm.Mesh())
				ms = append(ms, v)
			}
		}
		ev.Parallel(len(ms), 16, func(i int) { checkMeshSDF(r, ms[i], n) })
		checkSingleTriangles(r, (n+1)/2)
		m2 := cat.Closed2()
		ev.Parallel(len(m2), 16, func(i int) { checkMeshSDF2(r, m2[i], 3*n) })
	})
	r.Isolate("profile", func() { checkProfile(r, n-2) })
	r.Isolate("feature-points", func() { featureStage(r, th) })
	r.Isolate("collider-sdf", func() { colliderSDFStage(r, (n+1)/2) })
	r.Isolate("segments", func() { segmentStage(r) })
	r.Finish()
}
