package main

import (
	"fmt"
	"math"

	"github.com/unixpickle/model3d/model2d"

	"verif/lib/ev"
)

type ccase struct {
	Kernel string      `json:"kernel"`
	Points [][]float64 `json:"control_points"`
	T      float64     `json:"t"`
}

func pts(b []model2d.Coord) [][]float64 {
	var o [][]float64
	for _, p := range b {
		o = append(o, []float64{p.X, p.Y})
	}
	return o
}

func deCasteljau(b []model2d.Coord, t float64) model2d.Coord {
	w := append([]model2d.Coord{}, b...)
	for n := len(w) - 1; n > 0; n-- {
		for i := 0; i < n; i++ {
			w[i] = w[i].Scale(1 - t).Add(w[i+1].Scale(t))
		}
	}
	return w[0]
}

func checkBezier(r *ev.Run, b model2d.BezierCurve, monotoneX bool) {
	r.Eval(1)
	scale := 1.0
	for _, p := range b {
		scale = math.Max(scale, p.Norm())
	}
	tol := 1e-9 * scale * float64(len(b))
	viol := func(kind string, t float64, msg string) {
		r.Violation("Bezier/"+kind, fmt.Sprintf("degree %d control points %v, t=%g: %s", len(b)-1, []model2d.Coord(b), t, msg), ccase{"BezierCurve." + kind, pts(b), t})
	}
	polys := b.Polynomials()
	tr := b.Transpose()
	for k := 0; k <= 8; k++ {
		t := float64(k) / 8
		want := deCasteljau(b, t)
		if got := b.Eval(t); !(got.Dist(want) <= tol) {
			viol("Eval", t, fmt.Sprintf("Eval = %v, repeated linear interpolation gives %v", got, want))
			return
		}
		if pv := model2d.XY(polys[0].Eval(t), polys[1].Eval(t)); !(pv.Dist(want) <= tol*10) {
			viol("Polynomials", t, fmt.Sprintf("polynomial form = %v, curve = %v", pv, want))
			return
		}
		if tv := tr.Eval(t); !(math.Abs(tv.X-want.Y) <= tol) || !(math.Abs(tv.Y-want.X) <= tol) {
			viol("Transpose", t, "Transpose().Eval is not the swapped point")
			return
		}
		if k > 0 && k < 8 {
			l, rr := b.Split(t)
			for _, s := range []float64{0, 0.3, 1} {
				if !(l.Eval(s).Dist(deCasteljau(b, s*t)) <= tol) || !(rr.Eval(s).Dist(deCasteljau(b, t+s*(1-t))) <= tol) {
					viol("Split", t, fmt.Sprintf("the halves of Split(%g) do not trace the original curve at s=%g", t, s))
					return
				}
			}
		}
	}
	// arc length against a fine polyline
	if len(b) <= 9 {
		ref := 0.0
		prev := deCasteljau(b, 0)
		const n = 4096
		for i := 1; i <= n; i++ {
			cur := deCasteljau(b, float64(i)/n)
			ref += cur.Dist(prev)
			prev = cur
		}
		if ref > 0 {
			got := b.Length(1e-6*scale, 0)
			if !(math.Abs(got-ref) <= 1e-4*ref+1e-5*scale) {
				viol("Length", 0, fmt.Sprintf("Length = %.9g, 4096-segment polyline = %.9g", got, ref))
			}
		}
	}
	// the generic helpers over the same curve: transposed view, evenly spaced polyline, cached lookup
	gt := model2d.CurveTranspose(b)
	for _, n := range []int{1, 3, 8} {
		m := model2d.CurveMesh(b, n)
		if m.NumSegments() > n {
			viol("CurveMesh", 0, fmt.Sprintf("CurveMesh(%d) has %d segments", n, m.NumSegments()))
			return
		}
		for i := 0; i < n; i++ {
			p0, p1 := deCasteljau(b, float64(i)/float64(n)), deCasteljau(b, float64(i+1)/float64(n))
			if p0.Dist(p1) <= tol {
				continue // a segment of no length may coincide with another
			}
			found := false
			m.Iterate(func(sg *model2d.Segment) {
				if sg[0].Dist(p0) <= tol && sg[1].Dist(p1) <= tol {
					found = true
				}
			})
			if !found {
				viol("CurveMesh", float64(i)/float64(n), fmt.Sprintf("CurveMesh(%d) has no segment from %v to %v", n, p0, p1))
				return
			}
		}
	}
	for k := 0; k <= 8; k++ {
		t := float64(k) / 8
		want := deCasteljau(b, t)
		if tv := gt.Eval(t); !(math.Abs(tv.X-want.Y) <= tol) || !(math.Abs(tv.Y-want.X) <= tol) {
			viol("CurveTranspose", t, "CurveTranspose(c).Eval is not the swapped point")
			return
		}
	}
	if monotoneX {
		cached := b.CachedEvalX(0)
		for rep := 0; rep < 2; rep++ {
			for k := 1; k < 8; k++ {
				p := deCasteljau(b, float64(k)/8)
				if y, y0 := cached(p.X), b.EvalX(p.X); y != y0 {
					viol("CachedEvalX", float64(k)/8, fmt.Sprintf("cached lookup (call %d) gives %g, EvalX gives %g", rep+1, y, y0))
					return
				}
			}
		}
	}
	if monotoneX {
		for k := 1; k < 8; k++ {
			t := float64(k) / 8
			p := deCasteljau(b, t)
			ti := b.InverseX(p.X)
			if math.IsNaN(ti) || !(math.Abs(deCasteljau(b, ti).X-p.X) <= 1e-6*scale) {
				viol("InverseX", t, fmt.Sprintf("InverseX(%g) = %g, where the curve has x = %g", p.X, ti, deCasteljau(b, ti).X))
				return
			}
			if y := b.EvalX(p.X); !(math.Abs(y-p.Y) <= 1e-5*scale) {
				viol("EvalX", t, fmt.Sprintf("EvalX(%g) = %g, curve point has y = %g", p.X, y, p.Y))
				return
			}
		}
	}
	r.NontrivialAdd(1)
}

// smoothBezierStage: SmoothBezier joins cubics so that each starts where the previous one ended, with its first
// control point the reflection of the previous second control point in that end point (a C1 joint).
func smoothBezierStage(r *ev.Run) {
	pts := []model2d.Coord{{X: 0, Y: 0}, {X: 1, Y: 2}, {X: 3, Y: -1}, {X: 4, Y: 0.5}, {X: 5, Y: 3}, {X: 7, Y: 1}, {X: 8, Y: -2}, {X: 9.5, Y: 0}}
	for extra := 0; extra <= 4; extra += 2 {
		for rot := 0; rot < len(pts); rot++ {
			var p []model2d.Coord
			for i := 0; i < 4+extra; i++ {
				p = append(p, pts[(rot+i)%len(pts)])
			}
			r.Eval(1)
			jc := model2d.SmoothBezier(p[0], p[1], p[2], p[3], p[4:]...)
			c := ccase{"SmoothBezier", nil, 0}
			if len(jc) != 1+extra/2 {
				r.Violation("SmoothBezier/pieces", fmt.Sprintf("%d points: %d pieces", len(p), len(jc)), c)
				continue
			}
			prevCtrl, prevEnd := p[2], p[3]
			for i, piece := range jc {
				b, ok := piece.(model2d.BezierCurve)
				if !ok || len(b) != 4 {
					r.Violation("SmoothBezier/pieces", fmt.Sprintf("piece %d is not a cubic", i), c)
					break
				}
				if i == 0 {
					if b[0] != p[0] || b[1] != p[1] || b[2] != p[2] || b[3] != p[3] {
						r.Violation("SmoothBezier/first", fmt.Sprintf("first piece %v is not the four given points", b), c)
					}
					continue
				}
				ctrl, end := p[4+2*(i-1)], p[5+2*(i-1)]
				if b[0] != prevEnd || b[3] != end || b[2] != ctrl || !(b[1].Dist(prevEnd.Scale(2).Sub(prevCtrl)) <= 1e-12) {
					r.Violation("SmoothBezier/joint", fmt.Sprintf("piece %d = %v: want start %v, reflected control %v, control %v, end %v", i, b, prevEnd, prevEnd.Scale(2).Sub(prevCtrl), ctrl, end), c)
				}
				prevCtrl, prevEnd = ctrl, end
			}
			// the joined curve visits the joints at t = i/pieces
			for i := 0; i <= len(jc); i++ {
				want := p[0]
				if i > 0 {
					want = p[3+2*(i-1)]
				}
				if got := jc.Eval(float64(i) / float64(len(jc))); !(got.Dist(want) <= 1e-9) {
					r.Violation("SmoothBezier/eval", fmt.Sprintf("%d pieces: Eval(%d/%d) = %v, the joint is %v", len(jc), i, len(jc), got, want), c)
				}
			}
			r.NontrivialAdd(1)
		}
	}
}

func curveStage(r *ev.Run, full bool) {
	smoothBezierStage(r)
	alpha := []model2d.Coord{{X: 0, Y: 0}, {X: 1, Y: 2}, {X: 3, Y: -1}}
	maxDeg := 5
	if full {
		maxDeg = 6
	}
	var curves []model2d.BezierCurve
	for deg := 1; deg <= maxDeg; deg++ {
		n := deg + 1
		idx := make([]int, n)
		for {
			b := make(model2d.BezierCurve, n)
			for i := range b {
				b[i] = alpha[idx[i]]
			}
			curves = append(curves, b)
			i := 0
			for ; i < n; i++ {
				idx[i]++
				if idx[i] < 3 {
					break
				}
				idx[i] = 0
			}
			if i == n {
				break
			}
		}
	}
	ev.Parallel(len(curves), 0, func(i int) { checkBezier(r, curves[i], false) })
	// structured families for degree 1..16: ramp (x monotone), zigzag, single bump at each index
	for deg := 1; deg <= 16; deg++ {
		n := deg + 1
		ramp := make(model2d.BezierCurve, n)
		zig := make(model2d.BezierCurve, n)
		for i := 0; i < n; i++ {
			ramp[i] = model2d.XY(float64(i)/float64(deg)*3-1, math.Sin(float64(i)))
			zig[i] = model2d.XY(float64(i), float64(i%2)*2-1)
		}
		checkBezier(r, ramp, true)
		checkBezier(r, zig, true)
		for j := 0; j < n; j++ {
			bump := make(model2d.BezierCurve, n)
			for i := 0; i < n; i++ {
				bump[i] = model2d.XY(float64(i)*0.5, 0)
			}
			bump[j].Y = 3
			checkBezier(r, bump, true)
		}
	}
	r.Set("bezier_curves", len(curves))

	// polyline curves: the point a fraction t of the way along the length
	pa := []model2d.Coord{{X: 0, Y: 0}, {X: 1, Y: 0}, {X: 1, Y: 3}, {X: -1, Y: 3.5}, {X: -1, Y: -2}, {X: 0.5, Y: -2.25}}
	var rec func(cur []int)
	rec = func(cur []int) {
		if len(cur) >= 3 {
			var segs []*model2d.Segment
			var lens []float64
			total := 0.0
			for i := 0; i+1 < len(cur); i++ {
				s := &model2d.Segment{pa[cur[i]], pa[cur[i+1]]}
				segs = append(segs, s)
				lens = append(lens, s.Length())
				total += s.Length()
			}
			if total == 0 {
				return // a polyline of no length has no "fraction of the way along"
			}
			sc := model2d.NewSegmentCurve(segs)
			ts := make([]float64, 0, 32)
			for k := 0; k <= 20; k++ {
				ts = append(ts, float64(k)/20)
			}
			// the parameters of the vertices themselves (where the look-up changes segment), and just beside them
			cum := 0.0
			for _, ln := range lens {
				cum += ln
				ts = append(ts, cum/total, math.Min(1, cum/total*(1+1e-12)), cum/total*(1-1e-12))
			}
			for _, t := range ts {
				r.Eval(1)
				// reference: walk the arclength; a repeated vertex (segment of no length) is passed over
				l := t * total
				want := segs[len(segs)-1][1]
				for i, s := range segs {
					if lens[i] == 0 {
						continue
					}
					if l <= lens[i] {
						want = s[0].Add(s[1].Sub(s[0]).Scale(l / lens[i]))
						break
					}
					l -= lens[i]
				}
				got := sc.Eval(t)
				if !(got.Dist(want) <= 1e-9*total) {
					var pp []model2d.Coord
					for _, i := range cur {
						pp = append(pp, pa[i])
					}
					r.Violation("SegmentCurve/Eval", fmt.Sprintf("polyline %v, t=%g: Eval = %v, the point a fraction t along the length is %v", pp, t, got, want), ccase{"SegmentCurve.Eval", pts(pp), t})
					return
				}
			}
			// the same curve built from a mesh (an open path whose vertices are all distinct): NewSegmentCurveMesh has
			// to find the first segment and chain the others by their end points, whatever order they were added in
			distinct := true
			for i := range cur {
				for j := i + 1; j < len(cur); j++ {
					if cur[i] == cur[j] {
						distinct = false
					}
				}
			}
			if distinct {
				for _, order := range []int{0, 1, 2} {
					m := model2d.NewMesh()
					for q := range segs {
						i := q
						switch order {
						case 1:
							i = len(segs) - 1 - q
						case 2:
							i = (q*2 + 1) % len(segs)
							if len(segs)%2 == 0 {
								i = (q + len(segs)/2) % len(segs)
							}
						}
						m.Add(&model2d.Segment{segs[i][0], segs[i][1]})
					}
					var mc *model2d.SegmentCurve
					if p := ev.Try(func() { mc = model2d.NewSegmentCurveMesh(m) }); p != "" {
						r.Violation("SegmentCurve/mesh-panic", fmt.Sprintf("NewSegmentCurveMesh of an open path with %d segments (insertion order %d): %s", len(segs), order, p), ccase{"NewSegmentCurveMesh", nil, 0})
						return
					}
					for k := 0; k <= 10; k++ {
						t := float64(k) / 10
						r.Eval(1)
						if got, want := mc.Eval(t), sc.Eval(t); !(got.Dist(want) <= 1e-9*total) {
							r.Violation("SegmentCurve/from-mesh", fmt.Sprintf("open path with %d segments added in order %d: NewSegmentCurveMesh(...).Eval(%g) = %v, NewSegmentCurve of the same segments gives %v", len(segs), order, t, got, want), ccase{"NewSegmentCurveMesh", nil, t})
							return
						}
					}
				}
			}
			r.NontrivialAdd(1)
		}
		if len(cur) == 5 {
			return
		}
		for i := range pa {
			// a vertex may repeat (a segment of no length) and the polyline may double back on itself
			rec(append(append([]int{}, cur...), i))
		}
	}
	rec(nil)

	// joined curves: each sub-curve consumes an equal share of t; outside [0,1] the first / last curve is used
	subs := []model2d.Curve{model2d.BezierCurve{alpha[0], alpha[1]}, model2d.BezierCurve{alpha[1], alpha[2], alpha[0]}, model2d.BezierCurve{alpha[0], alpha[2], alpha[1], alpha[1]}}
	for n := 1; n <= 3; n++ {
		j := model2d.JoinedCurve(subs[:n])
		for _, t := range []float64{-0.5, -1e-9, 0, 0.1, 1.0 / 3, 0.5, 2.0 / 3, 0.9, 1, 1 + 1e-9, 1.25, 2.5} {
			r.Eval(1)
			idx := int(math.Floor(t * float64(n)))
			if idx < 0 {
				idx = 0
			}
			if idx > n-1 {
				idx = n - 1
			}
			want := subs[idx].Eval(t*float64(n) - float64(idx))
			var got model2d.Coord
			c := ccase{"JoinedCurve.Eval", nil, t}
			if p := ev.Try(func() { got = j.Eval(t) }); p != "" {
				r.Violation("JoinedCurve/panic", fmt.Sprintf("%d sub-curves, t=%g: %s", n, t, p), c)
				continue
			}
			if !(got.Dist(want) <= 1e-9) {
				r.Violation("JoinedCurve/Eval", fmt.Sprintf("%d sub-curves, t=%g: Eval = %v, sub-curve %d at its local parameter gives %v", n, t, got, idx, want), c)
			}
		}
	}
}
