package main

import (
	"fmt"
	"math"
	"sort"

	"github.com/unixpickle/model3d/numerical"

	"verif/lib/ev"
)

type pcase struct {
	Kernel string    `json:"kernel"`
	Coeffs []float64 `json:"coefficients"` // constant term first
	Note   string    `json:"note,omitempty"`
}

func peval(p []float64, x float64) float64 {
	s := 0.0
	for i := len(p) - 1; i >= 0; i-- {
		s = s*x + p[i]
	}
	return s
}

// nearRoot: by Taylor's bound a root (possibly complex-near-real) lies within delta = 1e-6 (1+|x|) of x if
// |p(x)| <= sum_k |p^(k)(x)| delta^k / k!.
func nearRoot(p []float64, x float64) bool {
	delta := 1e-6 * (1 + math.Abs(x))
	d := append([]float64{}, p...)
	bound, fact, pw := 0.0, 1.0, 1.0
	for k := 1; k < len(p); k++ {
		nd := make([]float64, len(d)-1)
		for i := 1; i < len(d); i++ {
			nd[i-1] = d[i] * float64(i)
		}
		d = nd
		fact *= float64(k)
		pw *= delta
		bound += math.Abs(peval(d, x)) * pw / fact
	}
	return math.Abs(peval(p, x)) <= bound+1e-13*pderivAbs(p, x)
}

func pderivAbs(p []float64, x float64) float64 { // sum |a_i| |x|^i: scale of the evaluation error
	s := 0.0
	for i := len(p) - 1; i >= 0; i-- {
		s = s*math.Abs(x) + math.Abs(p[i])
	}
	return s
}

// refSimpleRoots: real roots at which p changes sign, found on a fine grid inside the Cauchy bound and bisected.
func refSimpleRoots(p []float64) []float64 {
	n := len(p) - 1
	bound := 0.0
	for _, a := range p[:n] {
		bound = math.Max(bound, math.Abs(a/p[n]))
	}
	bound += 1
	var roots []float64
	const steps = 40000
	h := 2 * bound / steps
	at := func(i int) float64 { return -bound + (float64(i)-0.3719281)*h }
	prevX := at(0)
	prev := peval(p, prevX)
	for i := 1; i <= steps+1; i++ {
		x := at(i)
		cur := peval(p, x)
		if math.Abs(cur) <= 1e-11*pderivAbs(p, x) {
			// within evaluation noise (near a multiple root): no definite sign here, keep the last definite one
			continue
		}
		if prev != 0 && cur != 0 && (prev > 0) != (cur > 0) {
			lo, hi := prevX, x
			flo := prev
			for k := 0; k < 80; k++ {
				mid := (lo + hi) / 2
				fm := peval(p, mid)
				if fm == 0 {
					lo, hi = mid, mid
					break
				}
				if (fm > 0) == (flo > 0) {
					lo, flo = mid, fm
				} else {
					hi = mid
				}
			}
			roots = append(roots, (lo+hi)/2)
		}
		prev, prevX = cur, x
	}
	return roots
}

func checkPoly(r *ev.Run, p []float64, planted []float64, note string) {
	r.Eval(1)
	c := pcase{"Polynomial.RealRoots", p, note}
	var got []float64
	if pn := ev.Try(func() { got = numerical.Polynomial(append([]float64{}, p...)).RealRoots() }); pn != "" {
		r.Violation("RealRoots/panic", fmt.Sprintf("polynomial %v: %s", p, pn), c)
		return
	}
	// the iterator form: the same roots in the same order, and stopping after k of them means exactly k calls
	{
		inOrder := numerical.Polynomial(append([]float64{}, p...)).RealRoots()
		for stop := 1; stop <= len(inOrder); stop++ {
			var seen []float64
			numerical.Polynomial(append([]float64{}, p...)).IterRealRoots(func(x float64) bool {
				seen = append(seen, x)
				return len(seen) < stop
			})
			ok := len(seen) == stop
			for i := 0; ok && i < stop; i++ {
				ok = seen[i] == inOrder[i] || (math.IsNaN(seen[i]) && math.IsNaN(inOrder[i]))
			}
			if !ok {
				r.Violation("IterRealRoots/early-stop", fmt.Sprintf("polynomial %v: stopping after %d roots, the callback saw %v; RealRoots gives %v", p, stop, seen, inOrder), c)
				break
			}
		}
		// the algebra the kernels are built from, against the coefficient formulas
		pp := numerical.Polynomial(append([]float64{}, p...))
		d := pp.Derivative()
		for i := 1; i < len(p); i++ {
			if i-1 >= len(d) || d[i-1] != float64(i)*p[i] {
				r.Violation("Polynomial/Derivative", fmt.Sprintf("polynomial %v: derivative %v", p, d), c)
				break
			}
		}
		if len(d) > len(p)-1 && len(p) > 0 || (len(p) <= 1 && len(d) != 0) {
			r.Violation("Polynomial/Derivative", fmt.Sprintf("polynomial %v: derivative %v has too many coefficients", p, d), c)
		}
		q := numerical.Polynomial{0.5, -2, 1}
		prod, want := pp.Mul(q), pmul(p, q)
		sum := pp.Add(q)
		for _, x := range []float64{-1.5, 0, 0.25, 2} {
			if len(p) > 0 && !(math.Abs(prod.Eval(x)-peval(want, x)) <= 1e-9*(1+math.Abs(peval(want, x)))) {
				r.Violation("Polynomial/Mul", fmt.Sprintf("polynomial %v times %v = %v, convolution gives %v", p, q, prod, want), c)
				break
			}
			if !(math.Abs(sum.Eval(x)-(peval(p, x)+peval(q, x))) <= 1e-9*(1+math.Abs(peval(p, x))+math.Abs(peval(q, x)))) {
				r.Violation("Polynomial/Add", fmt.Sprintf("polynomial %v plus %v = %v", p, q, sum), c)
				break
			}
			if got, w := pp.Scale(-3).Eval(x), -3*peval(p, x); !(math.Abs(got-w) <= 1e-9*(1+math.Abs(w))) {
				r.Violation("Polynomial/Scale", fmt.Sprintf("polynomial %v scaled by -3 evaluates to %g at %g, want %g", p, got, x, w), c)
				break
			}
		}
	}
	sort.Float64s(got)
	scale := 0.0
	for _, a := range p {
		scale = math.Max(scale, math.Abs(a))
	}
	// only roots: every returned value is a root up to rounding of the evaluation
	for _, x := range got {
		if math.IsNaN(x) || !nearRoot(p, x) {
			r.Violation("RealRoots/not-a-root", fmt.Sprintf("polynomial %v (%s): returned %v, where p = %g", p, note, x, peval(p, x)), c)
			return
		}
	}
	want := planted
	if want == nil {
		ref := p
		for len(ref) > 1 && ref[len(ref)-1] == 0 {
			ref = ref[:len(ref)-1] // zero leading coefficients do not change the polynomial
		}
		want = refSimpleRoots(ref)
	}
	// every real root: each expected root is matched by a returned one
	for _, w := range want {
		ok := false
		for _, x := range got {
			if math.Abs(x-w) <= 1e-6*(1+math.Abs(w)) {
				ok = true
			} else if math.Abs(x-w) <= 1e-2 {
				// a multiple root: the reference bisection is only accurate to eps^(1/m); accept when p is flat between the two
				flat := true
				for q := 0; q <= 16; q++ {
					y := x + (w-x)*float64(q)/16
					if !(math.Abs(peval(p, y)) <= 1e-10*pderivAbs(p, y)) {
						flat = false
					}
				}
				if flat {
					ok = true
				}
			}
		}
		if !ok {
			r.Violation("RealRoots/missing-root", fmt.Sprintf("polynomial %v (%s): real root %.9g is missing from %v", p, note, w, got), c)
			return
		}
	}
	if planted != nil && len(got) != len(planted) {
		r.Violation("RealRoots/extra-root", fmt.Sprintf("polynomial %v (%s): %d roots returned %v, %d planted %v", p, note, len(got), got, len(planted), planted), c)
		return
	}
	if len(want) > 0 {
		r.NontrivialAdd(1)
	}
}

func pmul(a, b []float64) []float64 {
	out := make([]float64, len(a)+len(b)-1)
	for i, x := range a {
		for j, y := range b {
			out[i+j] += x * y
		}
	}
	return out
}

func polyStage(r *ev.Run, full bool) {
	rootsAlpha := []float64{-3, -1.5, -0.5, 0.25, 1, 2, 4}
	quads := [][]float64{nil, {1, 0, 1}, {1, 1, 1}, {2.5, -1, 1}}
	type job struct {
		p       []float64
		planted []float64
		note    string
	}
	var jobs []job
	for mask := 0; mask < 1<<7; mask++ {
		var rs []float64
		for i, x := range rootsAlpha {
			if mask&(1<<uint(i)) != 0 {
				rs = append(rs, x)
			}
		}
		if len(rs) > 6 {
			continue
		}
		for qi, q := range quads {
			for q2 := 0; q2 <= qi && q2 < len(quads); q2++ {
				for _, lead := range []float64{1, -2, 0.5} {
					p := []float64{lead}
					for _, x := range rs {
						p = pmul(p, []float64{-x, 1})
					}
					if q != nil {
						p = pmul(p, q)
					}
					if q2 > 0 && q != nil {
						if !full {
							continue
						}
						p = pmul(p, quads[q2])
					}
					if len(p) < 2 || len(p) > 9 {
						continue
					}
					jobs = append(jobs, job{p, append([]float64{}, rs...), fmt.Sprintf("planted roots %v x quadratic factors %d,%d x lead %g", rs, qi, q2, lead)})
				}
			}
		}
	}
	// small integer coefficients, degrees 1..4 (5 in the thorough tier)
	enum := func(deg int, lo, hi int) {
		n := deg + 1
		idx := make([]int, n)
		for i := range idx {
			idx[i] = lo
		}
		for {
			if idx[n-1] != 0 {
				p := make([]float64, n)
				for i := range p {
					p[i] = float64(idx[i])
				}
				jobs = append(jobs, job{p, nil, "integer coefficients"})
			}
			i := 0
			for ; i < n; i++ {
				idx[i]++
				if idx[i] <= hi {
					break
				}
				idx[i] = lo
			}
			if i == n {
				return
			}
		}
	}
	enum(1, -3, 3)
	enum(2, -3, 3)
	enum(3, -3, 3)
	if full {
		enum(4, -3, 3)
		enum(5, -2, 2)
	} else {
		enum(4, -2, 2)
	}
	// structured families: a (x-h)^n + k and x^4 + p x + q
	for _, a := range []float64{1, -2, 3} {
		for h := -2.0; h <= 2; h++ {
			for _, k := range []float64{-27, -8, -1, 0, 1, 5, 8, 27} {
				for n := 2; n <= 6; n++ {
					p := []float64{a}
					for i := 0; i < n; i++ {
						p = pmul(p, []float64{-h, 1})
					}
					p[0] += k
					jobs = append(jobs, job{p, nil, fmt.Sprintf("%g (x - %g)^%d + %g", a, h, n, k)})
				}
			}
		}
	}
	for pp := -15.0; pp <= 15; pp++ {
		for q := -15.0; q <= 15; q++ {
			jobs = append(jobs, job{[]float64{q, pp, 0, 0, 1}, nil, "x^4 + p x + q"})
			jobs = append(jobs, job{[]float64{q, pp, 0, 1}, nil, "x^3 + p x + q"})
		}
	}
	// every 9th polynomial again with all coefficients multiplied by 2^-30 and 2^30: the same roots
	n0 := len(jobs)
	for i := 0; i < n0; i += 9 {
		for _, k := range []float64{1.0 / (1 << 30), 1 << 30} {
			q := make([]float64, len(jobs[i].p))
			for j, a := range jobs[i].p {
				q[j] = a * k
			}
			jobs = append(jobs, job{q, jobs[i].planted, fmt.Sprintf("%s, coefficients x %g", jobs[i].note, k)})
		}
	}
	// every 7th polynomial again written with 1, 2 and 3 zero leading coefficients: the same polynomial, the same roots
	n1 := len(jobs)
	for i := 0; i < n1; i += 7 {
		for z := 1; z <= 3; z++ {
			q := append(append([]float64{}, jobs[i].p...), make([]float64, z)...)
			jobs = append(jobs, job{q, jobs[i].planted, fmt.Sprintf("%s, written with %d zero leading coefficients", jobs[i].note, z)})
		}
	}
	ev.Parallel(len(jobs), 0, func(i int) { checkPoly(r, jobs[i].p, jobs[i].planted, jobs[i].note) })
	// the zero polynomial (however written) has infinitely many roots: documented answer is one NaN;
	// a non-zero constant (however written) has none
	for z := 0; z <= 4; z++ {
		r.Eval(2)
		zero := make([]float64, z)
		got := numerical.Polynomial(zero).RealRoots()
		if len(got) != 1 || !math.IsNaN(got[0]) {
			r.Violation("RealRoots/zero-polynomial", fmt.Sprintf("zero polynomial written with %d coefficients: RealRoots = %v, documented: one NaN", z, got), pcase{"Polynomial.RealRoots", zero, "zero polynomial"})
		}
		cst := append([]float64{-2.5}, zero...)
		if got := numerical.Polynomial(cst).RealRoots(); len(got) != 0 {
			r.Violation("RealRoots/constant", fmt.Sprintf("constant polynomial %v: RealRoots = %v, but it has no root", cst, got), pcase{"Polynomial.RealRoots", cst, "constant"})
		}
	}
	r.Set("polynomials", len(jobs))
}
