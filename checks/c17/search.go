package main

import (
	"fmt"
	"math"
	"sync"

	"github.com/unixpickle/model3d/numerical"
	"github.com/unixpickle/model3d/toolbox3d"

	"verif/lib/ev"
)

type scase struct {
	Kernel string    `json:"kernel"`
	Func   string    `json:"function"`
	Args   []float64 `json:"args"`
}

type fn1 struct {
	name string
	f    func(float64) float64
}

func funcs1() []fn1 {
	var out []fn1
	for _, c := range []float64{-0.9, -0.31, 0, 0.27, 0.5, 0.83, 1} {
		c := c
		out = append(out, fn1{fmt.Sprintf("-(x-%g)^2", c), func(x float64) float64 { return -(x - c) * (x - c) }})
		out = append(out, fn1{fmt.Sprintf("-|x-%g|", c), func(x float64) float64 { return -math.Abs(x - c) }})
		// a narrow plateau next to a broad slope: the refinement must not forget the plateau sample
		out = append(out, fn1{fmt.Sprintf("plateau[%g,%g+0.07] over slope", c, c), func(x float64) float64 {
			if x >= c && x <= c+0.07 {
				return 1
			}
			return -0.2 * math.Abs(x-c-0.5)
		}})
		out = append(out, fn1{fmt.Sprintf("step(x>=%g)", c), func(x float64) float64 {
			if x >= c {
				return 1 - 0.01*x
			}
			return 0
		}})
	}
	out = append(out, fn1{"cos(7x)+x/3", func(x float64) float64 { return math.Cos(7*x) + x/3 }})
	return out
}

func searchStage(r *ev.Run, full bool) {
	fs := funcs1()
	for _, f := range fs {
		for stops := 2; stops <= 8; stops++ {
			for rec := 0; rec <= 4; rec++ {
				for _, iv := range [][2]float64{{-1, 1}, {0, 1}, {-2, 0.5}} {
					for _, minimize := range []bool{false, true} {
						r.Eval(1)
						var mu sync.Mutex
						best := math.Inf(-1)
						n := 0
						g := func(x float64) float64 {
							v := f.f(x)
							if minimize {
								v = -v
							}
							mu.Lock()
							n++
							w := v
							if minimize {
								w = -v
							}
							if w > best {
								best = w
							}
							mu.Unlock()
							return v
						}
						ls := &numerical.LineSearch{Stops: stops, Recursions: rec}
						var x, fv float64
						if minimize {
							x, fv = ls.Minimize(iv[0], iv[1], g)
							fv = -fv
						} else {
							x, fv = ls.Maximize(iv[0], iv[1], g)
						}
						c := scase{"LineSearch", f.name, []float64{float64(stops), float64(rec), iv[0], iv[1]}}
						want := f.f(x)
						if !(math.Abs(fv-want) <= 1e-12) {
							r.Violation("LineSearch/value", fmt.Sprintf("%s, stops=%d recursions=%d on %v minimize=%v: returned value %g but f(x=%g) = %g", f.name, stops, rec, iv, minimize, fv, x, want), c)
						}
						if fv < best-1e-12 {
							r.Violation("LineSearch/worse-than-a-sample", fmt.Sprintf("%s, stops=%d recursions=%d on %v minimize=%v: returned f=%g at x=%g although a sampled point had f=%g", f.name, stops, rec, iv, minimize, fv, x, best), c)
						}
						if x < iv[0] || x > iv[1] {
							r.Violation("LineSearch/out-of-range", fmt.Sprintf("%s: x=%g outside %v", f.name, x, iv), c)
						}
						if rec > 0 {
							r.NontrivialAdd(1)
						}
					}
				}
			}
		}
		// golden section search on the unimodal members
		for _, iv := range [][2]float64{{-1, 1}, {-2, 3}} {
			if len(f.name) < 2 || (f.name[:2] != "-(" && f.name[:2] != "-|") {
				continue
			}
			r.Eval(1)
			worst := math.Inf(1)
			x := numerical.GSS(iv[0], iv[1], 0, func(x float64) float64 {
				v := -f.f(x)
				if v < worst {
					worst = v
				}
				return v
			})
			if -f.f(x) > worst+1e-9 || x < iv[0] || x > iv[1] {
				r.Violation("GSS/worse-than-a-sample", fmt.Sprintf("%s on %v: GSS returned x=%g with f=%g, a sampled point had f=%g", f.name, iv, x, -f.f(x), worst), scase{"GSS", f.name, iv[:]})
			}
		}
	}
	// multi-dimensional searches on separable sums of the 1D functions
	sel := []fn1{fs[0], fs[2], fs[5], fs[10], fs[14], fs[len(fs)-1]}
	if full {
		sel = fs
	}
	for _, fa := range sel {
		for _, fb := range sel {
			for stops := 2; stops <= 5; stops++ {
				for rec := 0; rec <= 2; rec++ {
					r.Eval(1)
					var mu sync.Mutex
					best := math.Inf(-1)
					g2 := func(v numerical.Vec2) float64 {
						y := fa.f(v[0]) + fb.f(v[1])
						mu.Lock()
						if y > best {
							best = y
						}
						mu.Unlock()
						return y
					}
					c := scase{"GridSearch2D", fa.name + " + " + fb.name, []float64{float64(stops), float64(rec)}}
					gs := &numerical.GridSearch2D{XStops: stops, YStops: stops + 1, Recursions: rec}
					p, v := gs.Maximize(numerical.Vec2{-1, -1}, numerical.Vec2{1, 1}, g2)
					if !(math.Abs(v-(fa.f(p[0])+fb.f(p[1]))) <= 1e-12) || v < best-1e-12 {
						r.Violation("GridSearch2D/worse-than-a-sample", fmt.Sprintf("%s stops=%d recursions=%d: returned f=%g at %v (f there = %g), best sample %g", c.Func, stops, rec, v, p, fa.f(p[0])+fb.f(p[1]), best), c)
					}
					best = math.Inf(-1)
					rl := &numerical.RecursiveLineSearch[numerical.Vec2]{LineSearch: numerical.LineSearch{Stops: stops, Recursions: rec}}
					p, v = rl.Maximize(numerical.Vec2{-1, -1}, numerical.Vec2{1, 1}, g2)
					c.Kernel = "RecursiveLineSearch"
					if !(math.Abs(v-(fa.f(p[0])+fb.f(p[1]))) <= 1e-12) || v < best-1e-12 {
						r.Violation("RecursiveLineSearch/worse-than-a-sample", fmt.Sprintf("%s stops=%d recursions=%d: returned f=%g at %v (f there = %g), best sample %g", c.Func, stops, rec, v, p, fa.f(p[0])+fb.f(p[1]), best), c)
					}
					if stops <= 3 {
						best = math.Inf(-1)
						g3 := func(v numerical.Vec3) float64 {
							y := fa.f(v[0]) + fb.f(v[1]) + fa.f(v[2])
							mu.Lock()
							if y > best {
								best = y
							}
							mu.Unlock()
							return y
						}
						gs3 := &numerical.GridSearch3D{XStops: stops, YStops: stops + 1, ZStops: stops, Recursions: rec}
						p3, v3 := gs3.Maximize(numerical.Vec3{-1, -1, -1}, numerical.Vec3{1, 1, 1}, g3)
						c.Kernel = "GridSearch3D"
						if !(math.Abs(v3-(fa.f(p3[0])+fb.f(p3[1])+fa.f(p3[2]))) <= 1e-12) || v3 < best-1e-12 {
							r.Violation("GridSearch3D/worse-than-a-sample", fmt.Sprintf("%s stops=%d recursions=%d: returned f=%g at %v, best sample %g", c.Func, stops, rec, v3, p3, best), c)
						}
					}
					r.NontrivialAdd(1)
				}
			}
		}
	}
}

func angleStage(r *ev.Run) {
	var angles []float64
	for k := -30; k <= 30; k++ {
		for _, d := range []float64{0, 1e-9, -1e-9, 0.3} {
			angles = append(angles, float64(k)*math.Pi/6+d)
		}
	}
	angles = append(angles, 1e3, -1e3, 12345.678, -98765.4321)
	for _, a := range angles {
		r.Eval(1)
		c := scase{"CanonicalAngle", "", []float64{a}}
		got := toolbox3d.CanonicalAngle(a)
		if got < 0 || got >= 2*math.Pi+1e-12 {
			r.Violation("CanonicalAngle/range", fmt.Sprintf("CanonicalAngle(%g) = %g is outside [0, 2 pi)", a, got), c)
		}
		tol := 1e-9 * (1 + math.Abs(a))
		if !(math.Abs(math.Sin(got)-math.Sin(a)) <= tol) || !(math.Abs(math.Cos(got)-math.Cos(a)) <= tol) {
			r.Violation("CanonicalAngle/congruent", fmt.Sprintf("CanonicalAngle(%g) = %g is not congruent to the input modulo 2 pi", a, got), c)
		}
		r.NontrivialAdd(1)
	}
	for _, a := range angles {
		for _, b := range angles[:60] {
			r.Eval(1)
			want := math.Abs(math.Atan2(math.Sin(a-b), math.Cos(a-b)))
			got := toolbox3d.AngleDist(a, b)
			if !(math.Abs(got-want) <= 1e-9*(1+math.Abs(a)+math.Abs(b))) {
				r.Violation("AngleDist", fmt.Sprintf("AngleDist(%g, %g) = %g, circular distance is %g", a, b, got, want), scase{"AngleDist", "", []float64{a, b}})
				break
			}
		}
	}
}
