// C17: numerical and curve kernels satisfy their defining equations.
//
// Full products over small alphabets, filtered by explicit conditioning bounds:
// every 2x2 matrix over {-2..2} and every 3x3 over {-1,0,1} (plus a strided
// part of {-2..2}^9), sparse 4x4 patterns and a well-conditioned 4x4 family
// through both matrix implementations (inverse, determinant, product,
// eigenvalues, SVD against a Jacobi reference, characteristic polynomial);
// rotations over 14 axes x 75 angles; all 3-5 row least-squares systems over a
// 6-row alphabet; Laplacian+I of every graph on <= 5 nodes through the sparse
// Cholesky factorisation and BiCGSTAB; polynomials with every subset of 7
// planted roots x irreducible quadratic factors x leading coefficients, every
// integer polynomial of degree <= 4 over {-3..3} (a root is found by sign
// change + bisection), shifted pure powers and x^n + p x + q families; line /
// grid / recursive searches over Stops x Recursions x interval x function
// alphabets with every evaluation recorded; angle helpers on the k pi/6
// lattice; Bezier curves over all control polygons of a 3-point alphabet up to
// degree 5/6 and structured families up to degree 16; polyline and joined
// curves.
package main

import (
	"verif/lib/ev"
)

func main() {
	r := ev.Start("C17", "exploration")
	r.Rule("distinct_nontrivial = well-conditioned cases in which a defining equation was actually evaluated (invertible matrices, separated eigenvalues, full-rank systems, polynomials with at least one real root, searches with at least one refinement, curves)")
	r.Assume("conditioning filters: |det| >= 1/2 for inverses, eigenvalues separated by >= 0.1, smallest singular value >= 0.1 (reference: cyclic Jacobi on M^T M); singular values may coincide - the decomposition must still reconstruct",
		"a returned polynomial root x must satisfy |p(x)| <= 1e-6 sum|a_i||x|^i; an expected root is one where p changes sign (or a planted root)",
		"tolerances 1e-9 x scale for algebraic identities, 1e-7 x condition number for SVD reconstruction")
	full := r.Thorough()
	if r.Replay != "" {
		// replays re-run the stage the kernel belongs to; the violation key identifies the case
		var c struct {
			Kernel string `json:"kernel"`
		}
		r.LoadReplay(&c)
		matrixStage(r, false)
		rotationStage(r)
		solverStage(r, false)
		bicgStage(r, false)
		polyStage(r, false)
		searchStage(r, false)
		angleStage(r)
		curveStage(r, false)
		r.Finish()
	}
	r.Isolate("matrices", func() { matrixStage(r, full); rotationStage(r) })
	r.Isolate("solvers", func() { solverStage(r, full); bicgStage(r, full) })
	r.Isolate("polynomials", func() { polyStage(r, full) })
	r.Isolate("searches", func() { searchStage(r, full); angleStage(r) })
	r.Isolate("curves", func() { curveStage(r, full) })
	r.Sample(map[string]interface{}{"kernel": "Polynomial.RealRoots", "coefficients": []float64{-8, 0, 0, 1}})
	r.Sample(map[string]interface{}{"kernel": "LineSearch", "function": "plateau[0.27,0.34] over slope", "args": []float64{4, 2, -1, 1}})
	r.Finish()
}
