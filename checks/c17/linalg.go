package main

import (
	"fmt"
	"math"
	"math/cmplx"
	"sort"

	"github.com/unixpickle/model3d/model2d"
	"github.com/unixpickle/model3d/model3d"
	"github.com/unixpickle/model3d/numerical"

	"verif/lib/ev"
)

// ---- reference dense arithmetic (row-major [][]float64) ----

type mat [][]float64

func ident(n int) mat {
	m := make(mat, n)
	for i := range m {
		m[i] = make([]float64, n)
		m[i][i] = 1
	}
	return m
}

func (a mat) mul(b mat) mat {
	n := len(a)
	c := make(mat, n)
	for i := range c {
		c[i] = make([]float64, len(b[0]))
		for j := range c[i] {
			for k := range b {
				c[i][j] += a[i][k] * b[k][j]
			}
		}
	}
	return c
}

func (a mat) t() mat {
	c := make(mat, len(a[0]))
	for i := range c {
		c[i] = make([]float64, len(a))
		for j := range a {
			c[i][j] = a[j][i]
		}
	}
	return c
}

func (a mat) maxDiff(b mat) float64 {
	d := 0.0
	for i := range a {
		for j := range a[i] {
			d = math.Max(d, math.Abs(a[i][j]-b[i][j]))
		}
	}
	return d
}

func (a mat) det() float64 {
	n := len(a)
	if n == 1 {
		return a[0][0]
	}
	d := 0.0
	for j := 0; j < n; j++ {
		minor := make(mat, 0, n-1)
		for i := 1; i < n; i++ {
			row := append(append([]float64{}, a[i][:j]...), a[i][j+1:]...)
			minor = append(minor, row)
		}
		s := 1.0
		if j%2 == 1 {
			s = -1
		}
		d += s * a[0][j] * minor.det()
	}
	return d
}

// jacobiEig returns the eigenvalues of a symmetric matrix (cyclic Jacobi).
func jacobiEig(a mat) []float64 {
	n := len(a)
	m := make(mat, n)
	for i := range m {
		m[i] = append([]float64{}, a[i]...)
	}
	for sweep := 0; sweep < 60; sweep++ {
		off := 0.0
		for i := 0; i < n; i++ {
			for j := i + 1; j < n; j++ {
				off += m[i][j] * m[i][j]
			}
		}
		if off < 1e-30 {
			break
		}
		for p := 0; p < n; p++ {
			for q := p + 1; q < n; q++ {
				if math.Abs(m[p][q]) < 1e-300 {
					continue
				}
				theta := (m[q][q] - m[p][p]) / (2 * m[p][q])
				t := 1 / (math.Abs(theta) + math.Sqrt(theta*theta+1))
				if theta < 0 {
					t = -t
				}
				c := 1 / math.Sqrt(t*t+1)
				s := t * c
				for k := 0; k < n; k++ {
					kp, kq := m[k][p], m[k][q]
					m[k][p], m[k][q] = c*kp-s*kq, s*kp+c*kq
				}
				for k := 0; k < n; k++ {
					pk, qk := m[p][k], m[q][k]
					m[p][k], m[q][k] = c*pk-s*qk, s*pk+c*qk
				}
			}
		}
	}
	out := make([]float64, n)
	for i := range out {
		out[i] = m[i][i]
	}
	sort.Sort(sort.Reverse(sort.Float64Slice(out)))
	return out
}

func singularValues(a mat) []float64 {
	ev := jacobiEig(a.t().mul(a))
	for i := range ev {
		ev[i] = math.Sqrt(math.Max(ev[i], 0))
	}
	return ev
}

// ---- adapters: every library matrix type is driven through the same interface ----

type libMat struct {
	name string
	n    int
	// build from columns
	build func(cols mat) interface{}
	apply func(m interface{}, v []float64) []float64
	inv   func(m interface{}) interface{}
	det   func(m interface{}) float64
	eig   func(m interface{}) []complex128
	svd   func(m interface{}) (u, s, v interface{})
	mul   func(a, b interface{}) interface{}
	tr    func(m interface{}) interface{}
}

func (l libMat) dense(m interface{}) mat {
	out := make(mat, l.n)
	for i := range out {
		out[i] = make([]float64, l.n)
	}
	for j := 0; j < l.n; j++ {
		e := make([]float64, l.n)
		e[j] = 1
		col := l.apply(m, e)
		for i := 0; i < l.n; i++ {
			out[i][j] = col[i]
		}
	}
	return out
}

func libMats() []libMat {
	n2 := libMat{name: "numerical.Matrix2", n: 2,
		build: func(c mat) interface{} {
			return numerical.NewMatrix2Columns(numerical.Vec2{c[0][0], c[1][0]}, numerical.Vec2{c[0][1], c[1][1]})
		},
		apply: func(m interface{}, v []float64) []float64 {
			r := m.(*numerical.Matrix2).MulColumn(numerical.Vec2{v[0], v[1]})
			return r[:]
		},
		inv: func(m interface{}) interface{} { return m.(*numerical.Matrix2).Inverse() },
		det: func(m interface{}) float64 { return m.(*numerical.Matrix2).Det() },
		eig: func(m interface{}) []complex128 { e := m.(*numerical.Matrix2).Eigenvalues(); return e[:] },
		svd: func(m interface{}) (interface{}, interface{}, interface{}) {
			var u, s, v numerical.Matrix2
			m.(*numerical.Matrix2).SVD(&u, &s, &v)
			return &u, &s, &v
		},
		mul: func(a, b interface{}) interface{} { return a.(*numerical.Matrix2).Mul(b.(*numerical.Matrix2)) },
		tr:  func(m interface{}) interface{} { return m.(*numerical.Matrix2).Transpose() },
	}
	m2 := libMat{name: "model2d.Matrix2", n: 2,
		build: func(c mat) interface{} {
			return model2d.NewMatrix2Columns(model2d.XY(c[0][0], c[1][0]), model2d.XY(c[0][1], c[1][1]))
		},
		apply: func(m interface{}, v []float64) []float64 {
			r := m.(*model2d.Matrix2).MulColumn(model2d.XY(v[0], v[1]))
			return []float64{r.X, r.Y}
		},
		inv: func(m interface{}) interface{} { return m.(*model2d.Matrix2).Inverse() },
		det: func(m interface{}) float64 { return m.(*model2d.Matrix2).Det() },
		eig: func(m interface{}) []complex128 { e := m.(*model2d.Matrix2).Eigenvalues(); return e[:] },
		svd: func(m interface{}) (interface{}, interface{}, interface{}) {
			var u, s, v model2d.Matrix2
			m.(*model2d.Matrix2).SVD(&u, &s, &v)
			return &u, &s, &v
		},
		mul: func(a, b interface{}) interface{} { return a.(*model2d.Matrix2).Mul(b.(*model2d.Matrix2)) },
		tr:  func(m interface{}) interface{} { return m.(*model2d.Matrix2).Transpose() },
	}
	n3 := libMat{name: "numerical.Matrix3", n: 3,
		build: func(c mat) interface{} {
			return numerical.NewMatrix3Columns(numerical.Vec3{c[0][0], c[1][0], c[2][0]}, numerical.Vec3{c[0][1], c[1][1], c[2][1]}, numerical.Vec3{c[0][2], c[1][2], c[2][2]})
		},
		apply: func(m interface{}, v []float64) []float64 {
			r := m.(*numerical.Matrix3).MulColumn(numerical.Vec3{v[0], v[1], v[2]})
			return r[:]
		},
		inv: func(m interface{}) interface{} { return m.(*numerical.Matrix3).Inverse() },
		det: func(m interface{}) float64 { return m.(*numerical.Matrix3).Det() },
		eig: func(m interface{}) []complex128 { e := m.(*numerical.Matrix3).Eigenvalues(); return e[:] },
		svd: func(m interface{}) (interface{}, interface{}, interface{}) {
			var u, s, v numerical.Matrix3
			m.(*numerical.Matrix3).SVD(&u, &s, &v)
			return &u, &s, &v
		},
		mul: func(a, b interface{}) interface{} { return a.(*numerical.Matrix3).Mul(b.(*numerical.Matrix3)) },
		tr:  func(m interface{}) interface{} { return m.(*numerical.Matrix3).Transpose() },
	}
	m3 := libMat{name: "model3d.Matrix3", n: 3,
		build: func(c mat) interface{} {
			return model3d.NewMatrix3Columns(model3d.XYZ(c[0][0], c[1][0], c[2][0]), model3d.XYZ(c[0][1], c[1][1], c[2][1]), model3d.XYZ(c[0][2], c[1][2], c[2][2]))
		},
		apply: func(m interface{}, v []float64) []float64 {
			r := m.(*model3d.Matrix3).MulColumn(model3d.XYZ(v[0], v[1], v[2]))
			return []float64{r.X, r.Y, r.Z}
		},
		inv: func(m interface{}) interface{} { return m.(*model3d.Matrix3).Inverse() },
		det: func(m interface{}) float64 { return m.(*model3d.Matrix3).Det() },
		eig: func(m interface{}) []complex128 { e := m.(*model3d.Matrix3).Eigenvalues(); return e[:] },
		svd: func(m interface{}) (interface{}, interface{}, interface{}) {
			var u, s, v model3d.Matrix3
			m.(*model3d.Matrix3).SVD(&u, &s, &v)
			return &u, &s, &v
		},
		mul: func(a, b interface{}) interface{} { return a.(*model3d.Matrix3).Mul(b.(*model3d.Matrix3)) },
		tr:  func(m interface{}) interface{} { return m.(*model3d.Matrix3).Transpose() },
	}
	n4 := libMat{name: "numerical.Matrix4", n: 4,
		build: func(c mat) interface{} {
			col := func(j int) numerical.Vec4 { return numerical.Vec4{c[0][j], c[1][j], c[2][j], c[3][j]} }
			return numerical.NewMatrix4Columns(col(0), col(1), col(2), col(3))
		},
		apply: func(m interface{}, v []float64) []float64 {
			r := m.(*numerical.Matrix4).MulColumn(numerical.Vec4{v[0], v[1], v[2], v[3]})
			return r[:]
		},
		det: func(m interface{}) float64 { return m.(*numerical.Matrix4).Det() },
		svd: func(m interface{}) (interface{}, interface{}, interface{}) {
			var u, s, v numerical.Matrix4
			m.(*numerical.Matrix4).SVD(&u, &s, &v)
			return &u, &s, &v
		},
		mul: func(a, b interface{}) interface{} { return a.(*numerical.Matrix4).Mul(b.(*numerical.Matrix4)) },
		tr:  func(m interface{}) interface{} { return m.(*numerical.Matrix4).Transpose() },
	}
	return []libMat{n2, m2, n3, m3, n4}
}

type mcase struct {
	Kernel string      `json:"kernel"`
	Matrix [][]float64 `json:"matrix,omitempty"`
	Args   []float64   `json:"args,omitempty"`
	Note   string      `json:"note,omitempty"`
}

func checkMatrix(r *ev.Run, l libMat, a mat) {
	r.Eval(1)
	c := mcase{Kernel: l.name, Matrix: a}
	viol := func(kind, msg string) { r.Violation(l.name+"/"+kind, fmt.Sprintf("matrix %v: %s", a, msg), c) }
	m := l.build(a)
	if d := l.dense(m).maxDiff(a); d != 0 {
		viol("columns", "NewMatrixColumns/MulColumn do not reproduce the entries")
		return
	}
	det := a.det()
	scale := 0.0
	for i := range a {
		for j := range a[i] {
			scale = math.Max(scale, math.Abs(a[i][j]))
		}
	}
	if scale == 0 {
		return
	}
	if !(math.Abs(l.det(m)-det) <= 1e-9*math.Pow(scale, float64(l.n))) {
		viol("Det", fmt.Sprintf("Det()=%g, cofactor expansion %g", l.det(m), det))
	}
	// transpose and product
	if l.dense(l.tr(m)).maxDiff(a.t()) != 0 {
		viol("Transpose", "Transpose() is not the transpose")
	}
	b := l.build(a.t())
	if l.dense(l.mul(m, b)).maxDiff(a.mul(a.t())) > 1e-9*scale*scale {
		viol("Mul", "M.Mul(M^T) differs from the triple-loop product")
	}
	sv := singularValues(a)
	wellCond := sv[len(sv)-1] >= 0.1
	nontriv := false
	if l.inv != nil && math.Abs(det) >= 0.5 {
		nontriv = true
		inv := l.dense(l.inv(m))
		if d := a.mul(inv).maxDiff(ident(l.n)); d > 1e-9*scale*scale {
			viol("Inverse", fmt.Sprintf("M * M^-1 differs from the identity by %g", d))
		}
		if d := inv.mul(a).maxDiff(ident(l.n)); d > 1e-9*scale*scale {
			viol("Inverse", fmt.Sprintf("M^-1 * M differs from the identity by %g", d))
		}
	}
	// the other inverse routes (in place, in place with a given determinant, inverse times a column with a given
	// determinant) and the small algebra (Add, Scale, Sub) against the dense reference
	extraMatrixOps(r, l, m, a, det, scale, viol)
	if l.eig != nil {
		es := l.eig(m)
		// separated eigenvalues only (multiple roots are ill-conditioned)
		minSep := math.Inf(1)
		for i := range es {
			for j := i + 1; j < len(es); j++ {
				minSep = math.Min(minSep, cmplx.Abs(es[i]-es[j]))
			}
		}
		if minSep >= 0.1 {
			nontriv = true
			var sum, prod complex128 = 0, 1
			for _, e := range es {
				sum += e
				prod *= e
				// det(M - e I) = 0, evaluated in complex arithmetic by cofactors
				if d := cdet(a, e); cmplx.Abs(d) > 1e-8*math.Pow(scale+cmplx.Abs(e), float64(l.n)) {
					viol("Eigenvalues", fmt.Sprintf("eigenvalue %v: |det(M - lambda I)| = %g", e, cmplx.Abs(d)))
				}
			}
			tr := 0.0
			for i := range a {
				tr += a[i][i]
			}
			if cmplx.Abs(sum-complex(tr, 0)) > 1e-8*scale*float64(l.n) || cmplx.Abs(prod-complex(det, 0)) > 1e-8*math.Pow(scale, float64(l.n))*8 {
				viol("Eigenvalues", fmt.Sprintf("eigenvalues %v: sum %v vs trace %g, product %v vs determinant %g", es, sum, tr, prod, det))
			}
		} else {
			r.Skipped(1)
		}
	}
	if l.svd != nil && wellCond {
		nontriv = true
		ui, si, vi := l.svd(m)
		u, s, v := l.dense(ui), l.dense(si), l.dense(vi)
		tol := svdPrecision(l.n, sv) * scale * sv[0] / sv[len(sv)-1]
		if d := u.mul(s).mul(v.t()).maxDiff(a); d > tol {
			viol("SVD/reconstruct", fmt.Sprintf("U S V^T differs from M by %g", d))
		}
		if d := u.t().mul(u).maxDiff(ident(l.n)); d > 1e-7 {
			viol("SVD/orthogonal", fmt.Sprintf("U^T U differs from the identity by %g", d))
		}
		if d := v.t().mul(v).maxDiff(ident(l.n)); d > 1e-7 {
			viol("SVD/orthogonal", fmt.Sprintf("V^T V differs from the identity by %g", d))
		}
		for i := 0; i < l.n; i++ {
			for j := 0; j < l.n; j++ {
				if i != j && !(math.Abs(s[i][j]) <= 1e-9*scale) {
					viol("SVD/diagonal", "S is not diagonal")
				}
			}
			// compared as a multiset: the property asks for reconstruction, not for an order
			if !(math.Abs(sortedDesc(diag(s))[i]-sv[i]) <= tol) {
				viol("SVD/values", fmt.Sprintf("singular values %v on the diagonal of S, reference (sorted) %v", diag(s), sv))
				break
			}
		}
	}
	if nontriv {
		r.NontrivialAdd(1)
	}
}

// checkMatrixScaled: the kernels at 2^-20 and 2^20 times a well-conditioned matrix. Power-of-two scalings are exact,
// so inverse, eigenvalues and singular values must be the exactly rescaled unit-scale answers up to rounding; a
// difference can only come from an absolute threshold inside the library.
func checkMatrixScaled(r *ev.Run, l libMat, a mat) {
	sv := singularValues(a)
	if math.Abs(a.det()) < 0.5 || sv[len(sv)-1] < 0.1 {
		return
	}
	for _, k := range []float64{1.0 / (1 << 20), 1 << 20} {
		sa := make(mat, len(a))
		for i := range a {
			sa[i] = make([]float64, len(a[i]))
			for j := range a[i] {
				sa[i][j] = k * a[i][j]
			}
		}
		c := mcase{Kernel: l.name, Matrix: sa, Note: fmt.Sprintf("scaled by %g", k)}
		viol := func(kind, msg string) {
			r.Violation(l.name+"/scaled/"+kind, fmt.Sprintf("matrix %v x %g: %s", a, k, msg), c)
		}
		r.Eval(1)
		m := l.build(sa)
		if l.inv != nil {
			inv := l.dense(l.inv(m))
			if d := sa.mul(inv).maxDiff(ident(l.n)); !(d <= 1e-9*sv[0]/sv[len(sv)-1]) {
				viol("Inverse", fmt.Sprintf("M * M^-1 differs from the identity by %g", d))
			}
		}
		if l.eig != nil {
			e1, ek := l.eig(l.build(a)), l.eig(m)
			minSep := math.Inf(1)
			for i := range e1 {
				for j := i + 1; j < len(e1); j++ {
					minSep = math.Min(minSep, cmplx.Abs(e1[i]-e1[j]))
				}
			}
			if minSep >= 0.1 {
				for _, e := range ek {
					best := math.Inf(1)
					for _, f := range e1 {
						best = math.Min(best, cmplx.Abs(e/complex(k, 0)-f))
					}
					if !(best <= 1e-7*(1+sv[0])) {
						viol("Eigenvalues", fmt.Sprintf("eigenvalue %v / %g is %g away from every eigenvalue %v of the unscaled matrix", e, k, best, e1))
						break
					}
				}
			}
		}
		if l.svd != nil {
			ui, si, vi := l.svd(m)
			u, sm, v := l.dense(ui), l.dense(si), l.dense(vi)
			tol := svdPrecision(l.n, sv) * sv[0] / sv[len(sv)-1]
			if d := u.mul(sm).mul(v.t()).maxDiff(sa); !(d <= tol*k*sv[0]) {
				viol("SVD/reconstruct", fmt.Sprintf("U S V^T differs from M by %g", d))
			}
			if d := u.t().mul(u).maxDiff(ident(l.n)); !(d <= 1e-7) {
				viol("SVD/orthogonal", fmt.Sprintf("U^T U differs from the identity by %g", d))
			}
			if d := v.t().mul(v).maxDiff(ident(l.n)); !(d <= 1e-7) {
				viol("SVD/orthogonal", fmt.Sprintf("V^T V differs from the identity by %g", d))
			}
			got := sortedDesc(diag(sm))
			for i := range sv {
				if !(math.Abs(got[i]/k-sv[i]) <= tol*sv[0]) {
					viol("SVD/values", fmt.Sprintf("singular values %v / %g, reference %v", got, k, sv))
					break
				}
			}
		}
		r.NontrivialAdd(1)
	}
}

// svdPrecision: relative precision asked of a singular-value decomposition. 2x2 and 3x3 use closed forms and meet
// 1e-7 whether or not singular values coincide. The 4x4 routine finds one singular value as a root of the quartic
// characteristic polynomial, whose conditioning degrades with the multiplicity of the root; the library's own test
// states 1e-4 for a quadruple singular value, and that is what is asked here when 4x4 singular values coincide.
func svdPrecision(n int, sv []float64) float64 {
	if n == 4 {
		for i := 0; i+1 < len(sv); i++ {
			if sv[i]-sv[i+1] < 0.1 {
				return 1e-4
			}
		}
	}
	return 1e-7
}

func sortedDesc(x []float64) []float64 {
	o := append([]float64{}, x...)
	sort.Sort(sort.Reverse(sort.Float64Slice(o)))
	return o
}

func diag(m mat) []float64 {
	o := make([]float64, len(m))
	for i := range m {
		o[i] = m[i][i]
	}
	return o
}

func cdet(a mat, lambda complex128) complex128 {
	n := len(a)
	c := make([][]complex128, n)
	for i := range c {
		c[i] = make([]complex128, n)
		for j := range c[i] {
			c[i][j] = complex(a[i][j], 0)
		}
		c[i][i] -= lambda
	}
	var det func(m [][]complex128) complex128
	det = func(m [][]complex128) complex128 {
		if len(m) == 1 {
			return m[0][0]
		}
		var d complex128
		for j := range m {
			minor := make([][]complex128, 0, len(m)-1)
			for i := 1; i < len(m); i++ {
				minor = append(minor, append(append([]complex128{}, m[i][:j]...), m[i][j+1:]...))
			}
			t := m[0][j] * det(minor)
			if j%2 == 1 {
				t = -t
			}
			d += t
		}
		return d
	}
	return det(c)
}

func enumMatrices(n int, vals []float64, stride int, f func(a mat)) {
	cnt := n * n
	idx := make([]int, cnt)
	k := 0
	for {
		if k%stride == 0 {
			a := make(mat, n)
			for i := range a {
				a[i] = make([]float64, n)
				for j := range a[i] {
					a[i][j] = vals[idx[i*n+j]]
				}
			}
			f(a)
		}
		k++
		i := 0
		for ; i < cnt; i++ {
			idx[i]++
			if idx[i] < len(vals) {
				break
			}
			idx[i] = 0
		}
		if i == cnt {
			return
		}
	}
}

func matrixStage(r *ev.Run, full bool) {
	ls := libMats()
	var m2, m3 []mat
	enumMatrices(2, []float64{-2, -1, 0, 1, 2}, 1, func(a mat) { m2 = append(m2, a) })
	enumMatrices(2, []float64{-1.5, 0.25, 3}, 1, func(a mat) { m2 = append(m2, a) })
	stride := 1
	enumMatrices(3, []float64{-1, 0, 1}, 1, func(a mat) { m3 = append(m3, a) })
	if full {
		enumMatrices(3, []float64{-2, -1, 0, 1, 2}, 7, func(a mat) { m3 = append(m3, a) })
	} else {
		enumMatrices(3, []float64{-2, -1, 0, 1, 2}, 97, func(a mat) { m3 = append(m3, a) })
	}
	_ = stride
	for _, l := range ls[:2] {
		l := l
		ev.Parallel(len(m2), 0, func(i int) { checkMatrix(r, l, m2[i]); checkMatrixScaled(r, l, m2[i]) })
	}
	for _, l := range ls[2:4] {
		l := l
		ev.Parallel(len(m3), 0, func(i int) {
			checkMatrix(r, l, m3[i])
			if i%5 == 0 {
				checkMatrixScaled(r, l, m3[i])
			}
		})
	}
	// 4x4: entries in {-1,0,1} with at most k non-zeros, plus diagonal-dominant structured ones
	maxNZ := 3
	if full {
		maxNZ = 5
	}
	var m4 []mat
	var rec func(pos, nz int, cur []float64)
	rec = func(pos, nz int, cur []float64) {
		if pos == 16 {
			a := make(mat, 4)
			for i := range a {
				a[i] = append([]float64{}, cur[i*4:i*4+4]...)
			}
			m4 = append(m4, a)
			return
		}
		rec(pos+1, nz, append(cur, 0))
		if nz < maxNZ {
			rec(pos+1, nz+1, append(cur, 1))
			rec(pos+1, nz+1, append(cur, -1))
		}
	}
	rec(0, 0, nil)
	// well-conditioned family: diag(4,3,2,1) + every pattern of up to 3 off-diagonal +-1
	base := []float64{4, 0, 0, 0, 0, 3, 0, 0, 0, 0, 2, 0, 0, 0, 0, 1}
	var rec2 func(pos, nz int, cur []float64)
	rec2 = func(pos, nz int, cur []float64) {
		if pos == 16 {
			a := make(mat, 4)
			for i := range a {
				a[i] = append([]float64{}, cur[i*4:i*4+4]...)
			}
			m4 = append(m4, a)
			return
		}
		rec2(pos+1, nz, append(cur, base[pos]))
		if pos%5 != 0 && nz < 3 {
			rec2(pos+1, nz+1, append(cur, 0.5))
			rec2(pos+1, nz+1, append(cur, -0.5))
		}
	}
	rec2(0, 0, nil)
	ev.Parallel(len(m4), 0, func(i int) {
		checkMatrix(r, ls[4], m4[i])
		if i%7 == 0 {
			checkMatrixScaled(r, ls[4], m4[i])
		}
		// characteristic polynomial
		a := m4[i]
		p := ls[4].build(a).(*numerical.Matrix4).CharPoly()
		for _, x := range []float64{-2, -0.5, 0, 1, 3} {
			want := cdet(a, complex(x, 0))
			if !(math.Abs(p.Eval(x)-real(want)) <= 1e-9*(1+math.Abs(real(want)))) {
				r.Violation("numerical.Matrix4/CharPoly", fmt.Sprintf("matrix %v: CharPoly(%g)=%g, det(M - x I)=%g", a, x, p.Eval(x), real(want)), mcase{Kernel: "Matrix4.CharPoly", Matrix: a})
				break
			}
		}
	})
	r.Set("matrices_2x2", len(m2))
	r.Set("matrices_3x3", len(m3))
	r.Set("matrices_4x4", len(m4))
}

// ---- rotations ----

func rotationStage(r *ev.Run) {
	axes := []model3d.Coord3D{{X: 1}, {Y: 1}, {Z: 1}, {Z: -1}, {X: 1, Y: 1}, {Y: 1, Z: -1}, {X: 1, Y: 1, Z: 1}, {X: -1, Y: 2, Z: 0.5}, {X: 1, Y: 1e-3}, {X: 1e-3, Y: 1, Z: 1}, {X: 0.3, Y: -0.2, Z: 0.9}, {X: -1}, {Y: -1}, {X: -0.5, Y: -0.5, Z: -0.7}}
	for _, ax := range axes {
		u := ax.Normalize()
		for k := -12; k <= 12; k++ {
			for _, d := range []float64{0, 1e-9, -1e-9} {
				th := float64(k)*math.Pi/6 + d
				r.Eval(1)
				c := mcase{Kernel: "NewMatrix3Rotation", Args: []float64{u.X, u.Y, u.Z, th}}
				for variant := 0; variant < 2; variant++ {
					var m mat
					name := "model3d.NewMatrix3Rotation"
					if variant == 0 {
						lm := libMats()[3]
						m = lm.dense(model3d.NewMatrix3Rotation(u, th))
					} else {
						lm := libMats()[2]
						m = lm.dense(numerical.NewMatrix3Rotation(numerical.Vec3{u.X, u.Y, u.Z}, th))
						name = "numerical.NewMatrix3Rotation"
					}
					viol := func(msg string) {
						r.Violation(name, fmt.Sprintf("axis %v angle %g: %s", u, th, msg), c)
					}
					if d := m.t().mul(m).maxDiff(ident(3)); d > 1e-9 {
						viol(fmt.Sprintf("R^T R differs from the identity by %g", d))
					}
					if !(math.Abs(m.det()-1) <= 1e-9) {
						viol(fmt.Sprintf("determinant %g", m.det()))
					}
					av := m.mul(mat{{u.X}, {u.Y}, {u.Z}})
					if math.Abs(av[0][0]-u.X)+math.Abs(av[1][0]-u.Y)+math.Abs(av[2][0]-u.Z) > 1e-9 {
						viol("the axis is not fixed")
					}
					if tr := m[0][0] + m[1][1] + m[2][2]; !(math.Abs(tr-(1+2*math.Cos(th))) <= 1e-9) {
						viol(fmt.Sprintf("trace %g, want 1+2cos = %g", tr, 1+2*math.Cos(th)))
					}
					// right-handed: (v x Rv) . axis = sin(theta) for unit v perpendicular to the axis
					p, _ := u.OrthoBasis()
					rv := m.mul(mat{{p.X}, {p.Y}, {p.Z}})
					rvc := model3d.XYZ(rv[0][0], rv[1][0], rv[2][0])
					if s := p.Cross(rvc).Dot(u); !(math.Abs(s-math.Sin(th)) <= 1e-9) {
						viol(fmt.Sprintf("rotates by sine %g around the axis, want sin(theta) = %g (handedness)", s, math.Sin(th)))
					}
				}
				r.NontrivialAdd(1)
			}
		}
	}
	for k := -12; k <= 12; k++ {
		th := float64(k) * math.Pi / 6
		for variant := 0; variant < 2; variant++ {
			var m mat
			if variant == 0 {
				m = libMats()[0].dense(numerical.NewMatrix2Rotation(th))
			} else {
				m = libMats()[1].dense(model2d.NewMatrix2Rotation(th))
			}
			want := mat{{math.Cos(th), -math.Sin(th)}, {math.Sin(th), math.Cos(th)}}
			r.Eval(1)
			if m.maxDiff(want) > 1e-12 {
				r.Violation("NewMatrix2Rotation", fmt.Sprintf("angle %g: %v, want %v", th, m, want), mcase{Kernel: "NewMatrix2Rotation", Args: []float64{th}})
			}
		}
	}
}

// ---- least squares, sparse Cholesky, BiCGSTAB ----

func solverStage(r *ev.Run, full bool) {
	rows := []numerical.Vec3{{1, 0, 0}, {0, 1, 0}, {0, 0, 1}, {1, 1, 0}, {1, -1, 2}, {0.5, 2, -1}}
	rhs := [][]float64{{1, 0, 0, 0, 0}, {1, 2, 3, 4, 5}, {-1, 0.5, 2, -3, 1}, {0, 0, 0, 0, 1}}
	var lists [][]int
	var rec func(cur []int)
	rec = func(cur []int) {
		if len(cur) >= 3 {
			lists = append(lists, append([]int{}, cur...))
		}
		if len(cur) == 5 || (!full && len(cur) == 4) {
			return
		}
		for i := range rows {
			rec(append(cur, i))
		}
	}
	rec(nil)
	ev.Parallel(len(lists), 0, func(li int) {
		l := lists[li]
		a := make([]numerical.Vec3, len(l))
		am := make(mat, len(l))
		for i, k := range l {
			a[i] = rows[k]
			am[i] = rows[k][:]
		}
		sv := singularValues(am.t().mul(am)) // = sigma^2
		if math.Sqrt(sv[2]) < 0.1 {
			r.Skipped(1)
			return
		}
		for _, b := range rhs {
			r.Eval(1)
			x := numerical.LeastSquares3(a, b[:len(l)], 1e-8)
			// normal equations: A^T A x = A^T b
			worst := 0.0
			for d := 0; d < 3; d++ {
				s := 0.0
				for i := range a {
					s += a[i][d] * (a[i].Dot(x) - b[i])
				}
				worst = math.Max(worst, math.Abs(s))
			}
			if worst > 1e-8*sv[0]/sv[2] {
				r.Violation("LeastSquares3", fmt.Sprintf("rows %v rhs %v: x=%v leaves A^T(Ax-b) = %g", a, b[:len(l)], x, worst), mcase{Kernel: "LeastSquares3", Matrix: am, Args: b[:len(l)]})
			}
			r.NontrivialAdd(1)
			// ridge form: (A^T A + lambda I) x = A^T b
			for _, lam := range []float64{0.5, 3} {
				r.Eval(1)
				x := numerical.LeastSquaresReg3(a, b[:len(l)], lam, 1e-8)
				worst := 0.0
				for d := 0; d < 3; d++ {
					s := lam * x[d]
					for i := range a {
						s += a[i][d] * (a[i].Dot(x) - b[i])
					}
					worst = math.Max(worst, math.Abs(s))
				}
				if !(worst <= 1e-8*(sv[0]+lam)/(sv[2]+lam)) {
					r.Violation("LeastSquaresReg3", fmt.Sprintf("rows %v rhs %v lambda %g: x=%v leaves (A^T A + lambda) x - A^T b = %g", a, b[:len(l)], lam, x, worst), mcase{Kernel: "LeastSquaresReg3", Matrix: am, Args: append([]float64{lam}, b[:len(l)]...)})
				}
			}
		}
	})
	// the ridge term makes rank-deficient systems (one or two rows, repeated rows) well posed
	for _, l := range [][]int{{0}, {4}, {3, 3}, {0, 3}, {4, 5}, {5, 5, 5}} {
		a := make([]numerical.Vec3, len(l))
		am := make(mat, len(l))
		for i, k := range l {
			a[i] = rows[k]
			am[i] = rows[k][:]
		}
		for _, b := range rhs {
			for _, lam := range []float64{0.5, 3} {
				r.Eval(1)
				x := numerical.LeastSquaresReg3(a, b[:len(l)], lam, 1e-8)
				worst := 0.0
				for d := 0; d < 3; d++ {
					s := lam * x[d]
					for i := range a {
						s += a[i][d] * (a[i].Dot(x) - b[i])
					}
					worst = math.Max(worst, math.Abs(s))
				}
				if !(worst <= 1e-7) {
					r.Violation("LeastSquaresReg3", fmt.Sprintf("rank-deficient rows %v rhs %v lambda %g: x=%v leaves (A^T A + lambda) x - A^T b = %g", a, b[:len(l)], lam, x, worst), mcase{Kernel: "LeastSquaresReg3", Matrix: am, Args: append([]float64{lam}, b[:len(l)]...)})
				}
			}
		}
	}
	// every graph on n <= 5 nodes: A = Laplacian + I (SPD)
	for n := 2; n <= 5; n++ {
		pairs := n * (n - 1) / 2
		for mask := 0; mask < 1<<uint(pairs); mask++ {
			a := ident(n)
			e := 0
			for i := 0; i < n; i++ {
				for j := i + 1; j < n; j++ {
					if mask&(1<<uint(e)) != 0 {
						a[i][j], a[j][i] = -1, -1
						a[i][i]++
						a[j][j]++
					}
					e++
				}
			}
			// node relabellings exercise the RCM ordering: identity and reversal; uniform scalings of the system leave
			// its conditioning unchanged, so the factorisation must solve them just as well
			for _, variant := range []struct {
				rev   bool
				scale float64
			}{{false, 1}, {true, 1}, {false, 1e-6}, {false, 1e-9}, {true, 1e-12}, {false, 1e6}} {
				rev, scale := variant.rev, variant.scale
				if scale != 1 && mask%3 != 0 {
					continue
				}
				idx := func(i int) int {
					if rev {
						return n - 1 - i
					}
					return i
				}
				sm := numerical.NewSparseMatrix(n)
				for i := 0; i < n; i++ {
					for j := 0; j < n; j++ {
						if a[idx(i)][idx(j)] != 0 {
							sm.Set(i, j, scale*a[idx(i)][idx(j)])
						}
					}
				}
				r.Eval(1)
				c := mcase{Kernel: "SparseCholesky", Matrix: a, Note: fmt.Sprintf("reversed=%v scale=%g", rev, scale)}
				var ch *numerical.SparseCholesky
				if p := ev.Try(func() { ch = numerical.NewSparseCholesky(sm) }); p != "" {
					r.Violation("SparseCholesky/panic", fmt.Sprintf("graph mask %b on %d nodes: %s", mask, n, p), c)
					continue
				}
				for bi := 0; bi < n; bi++ {
					b := make([]numerical.Vec3, n)
					b[bi] = numerical.Vec3{1, -2, 0.5}
					x := ch.ApplyInverseVec3(b)
					ax := sm.ApplyVec3(x)
					for i := range ax {
						if !(ax[i].Dist(b[i]) <= 1e-9) {
							r.Violation("SparseCholesky/ApplyInverse", fmt.Sprintf("graph mask %b on %d nodes (reversed=%v), rhs e%d: A x differs from b by %g", mask, n, rev, bi, ax[i].Dist(b[i])), c)
							break
						}
					}
					y := ch.ApplyVec3(b)
					yy := sm.ApplyVec3(b)
					for i := range y {
						if !(y[i].Dist(yy[i]) <= 1e-9*scale*10) {
							r.Violation("SparseCholesky/Apply", fmt.Sprintf("graph mask %b on %d nodes: L L^T b differs from A b", mask, n), c)
							break
						}
					}
					// the two-column forms, against the dense matrix itself
					b2 := make([]numerical.Vec2, n)
					b2[bi] = numerical.Vec2{1, -2}
					if bi+1 < n {
						b2[bi+1] = numerical.Vec2{0.25, 3}
					}
					dense := func(v []numerical.Vec2) []numerical.Vec2 {
						out := make([]numerical.Vec2, n)
						for i := 0; i < n; i++ {
							for j := 0; j < n; j++ {
								out[i] = out[i].Add(v[j].Scale(scale * a[idx(i)][idx(j)]))
							}
						}
						return out
					}
					x2 := ch.ApplyInverseVec2(b2)
					for i, w := range dense(x2) {
						if !(w.Dist(b2[i]) <= 1e-9) {
							r.Violation("SparseCholesky/ApplyInverseVec2", fmt.Sprintf("graph mask %b on %d nodes (reversed=%v), rhs at %d: A x differs from b by %g", mask, n, rev, bi, w.Dist(b2[i])), c)
							break
						}
					}
					ab := dense(b2)
					for i, w := range ch.ApplyVec2(b2) {
						if !(w.Dist(ab[i]) <= 1e-9*scale*10) {
							r.Violation("SparseCholesky/ApplyVec2", fmt.Sprintf("graph mask %b on %d nodes: L L^T b differs from A b", mask, n), c)
							break
						}
					}
					for i, w := range sm.ApplyVec2(b2) {
						if !(w.Dist(ab[i]) <= 1e-12*scale*10) {
							r.Violation("SparseMatrix/ApplyVec2", fmt.Sprintf("graph mask %b on %d nodes: the sparse product differs from the dense one", mask, n), c)
							break
						}
					}
					// iterative solver on the same system
					bv := make(numerical.Vec, n)
					bv[bi] = 1
					sol := (&numerical.BiCGSTABSolver{MaxIters: 200, MSETolerance: 1e-20}).SolveLinearSystem(sm.Apply, bv, nil)
					if res := sm.Apply(sol).Sub(bv).Norm(); !(res <= 1e-8) {
						r.Violation("BiCGSTAB", fmt.Sprintf("graph mask %b on %d nodes, rhs e%d: residual %g after the solver stopped", mask, n, bi, res), c)
					}
				}
				r.NontrivialAdd(1)
			}
		}
	}
}

func symmetric(a mat) bool {
	for i := range a {
		for j := range a[i] {
			if a[i][j] != a[j][i] {
				return false
			}
		}
	}
	return true
}

// ---- BiCGSTAB iteration histories ----
//
// The solver is a state machine (Iter after Iter). The alphabet contains the systems on which it reaches an
// exact solution early - scaled identities, diagonal systems with an eigenvector as right-hand side, a zero
// right-hand side, an exact initial guess - next to the graph systems. Oracle: once an iterate solves the system,
// every later iterate (and the vector the driver returns for every iteration cap) still does; no NaN; a
// tolerance-driven solve does not panic and meets its tolerance.
func bicgStage(r *ev.Run, full bool) {
	type system struct {
		name string
		a    mat
	}
	var systems []system
	for n := 1; n <= 3; n++ {
		for _, k := range []float64{0.25, 0.5, 1, 2, 4, 3} {
			a := ident(n)
			for i := range a {
				a[i][i] = k
			}
			systems = append(systems, system{fmt.Sprintf("%g*I%d", k, n), a})
		}
	}
	systems = append(systems,
		system{"diag(1,2,4)", mat{{1, 0, 0}, {0, 2, 0}, {0, 0, 4}}},
		system{"diag(1,2)", mat{{1, 0}, {0, 2}}},
		system{"diag(3,3,5)", mat{{3, 0, 0}, {0, 3, 0}, {0, 0, 5}}},
		system{"upper", mat{{2, 1, 0}, {0, 2, 1}, {0, 0, 2}}},
		system{"nonsym", mat{{4, 1, 0}, {-1, 3, 1}, {0, -2, 5}}})
	maxN := 3
	if full {
		maxN = 4
	}
	for n := 2; n <= maxN; n++ {
		pairs := n * (n - 1) / 2
		for mask := 0; mask < 1<<uint(pairs); mask++ {
			a := ident(n)
			e := 0
			for i := 0; i < n; i++ {
				for j := i + 1; j < n; j++ {
					if mask&(1<<uint(e)) != 0 {
						a[i][j], a[j][i] = -1, -1
						a[i][i]++
						a[j][j]++
					}
					e++
				}
			}
			systems = append(systems, system{fmt.Sprintf("laplacian+I(n=%d,mask=%b)", n, mask), a})
		}
	}
	apply := func(a mat) func(numerical.Vec) numerical.Vec {
		return func(v numerical.Vec) numerical.Vec {
			o := make(numerical.Vec, len(v))
			for i := range a {
				for j := range a[i] {
					o[i] += a[i][j] * v[j]
				}
			}
			return o
		}
	}
	const steps = 12
	ev.Parallel(len(systems), 0, func(si int) {
		s := systems[si]
		n := len(s.a)
		op := apply(s.a)
		// right-hand sides: basis vectors, ones, a mixed vector, zero
		var rhs []numerical.Vec
		for i := 0; i < n; i++ {
			b := make(numerical.Vec, n)
			b[i] = 3
			rhs = append(rhs, b)
		}
		ones, mixed, zero := make(numerical.Vec, n), make(numerical.Vec, n), make(numerical.Vec, n)
		for i := range ones {
			ones[i] = 1
			mixed[i] = float64(i*i) - 1.5
		}
		rhs = append(rhs, ones, mixed, zero)
		// right-hand sides whose entries cancel (so do the first residuals): a stopping rule that adds signed
		// residuals instead of magnitudes is satisfied by them before anything is solved
		anti := make(numerical.Vec, n)
		anti[0], anti[n-1] = anti[0]+1, anti[n-1]-1
		rhs = append(rhs, anti)
		if n >= 3 {
			hat := make(numerical.Vec, n)
			hat[0], hat[1], hat[2] = 1, -2, 1
			rhs = append(rhs, hat)
		}
		for bi, b := range rhs {
			// initial guesses: none, zero, a wrong one, and the exact solution of a system built from it
			guesses := []numerical.Vec{nil, make(numerical.Vec, n), mixed.Scale(0.5)}
			for gi := 0; gi <= len(guesses); gi++ {
				b := b
				var g numerical.Vec
				if gi < len(guesses) {
					g = guesses[gi]
				} else {
					g = mixed.Scale(2)
					b = op(g) // g solves the system exactly
				}
				c := mcase{Kernel: "BiCGSTAB", Matrix: s.a, Args: b, Note: fmt.Sprintf("%s rhs#%d guess#%d", s.name, bi, gi)}
				bad := func(kind, msg string) {
					r.Violation("BiCGSTAB/"+kind, fmt.Sprintf("%s, b=%v, initial guess %v: %s", s.name, b, g, msg), c)
				}
				resid := func(x numerical.Vec) float64 {
					d := op(x).Sub(b).Norm()
					if math.IsNaN(d) {
						return math.Inf(1)
					}
					return d
				}
				scale := 1 + b.Norm()
				r.Eval(1)
				var iterates []numerical.Vec
				if p := ev.Try(func() {
					var gg numerical.Vec
					if g != nil {
						gg = append(numerical.Vec{}, g...)
					}
					sv := numerical.NewBiCGSTAB(op, append(numerical.Vec{}, b...), gg)
					for k := 0; k < steps; k++ {
						iterates = append(iterates, append(numerical.Vec{}, sv.Iter()...))
					}
				}); p != "" {
					bad("panic", "Iter panics: "+p)
					continue
				}
				solvedAt := -1
				for k, x := range iterates {
					res := resid(x)
					if solvedAt < 0 && res <= 1e-13*scale {
						solvedAt = k
					}
					if solvedAt >= 0 && res > 1e-8*scale {
						bad("lost-solution", fmt.Sprintf("iterate %d solves the system (residual %g) but iterate %d is %v with residual %g", solvedAt+1, resid(iterates[solvedAt]), k+1, x, res))
						break
					}
				}
				if solvedAt >= 0 {
					r.NontrivialAdd(1)
				}
				// the driver with an iteration cap only returns the iterate of that number
				for m := 1; m <= steps; m++ {
					var sol numerical.Vec
					if p := ev.Try(func() {
						sol = (&numerical.BiCGSTABSolver{MaxIters: m}).SolveLinearSystem(op, append(numerical.Vec{}, b...), g)
					}); p != "" {
						bad("panic", fmt.Sprintf("SolveLinearSystem(MaxIters=%d) panics: %s", m, p))
						break
					}
					if solvedAt >= 0 && m > solvedAt && resid(sol) > 1e-8*scale {
						bad("cap-only", fmt.Sprintf("iterate %d already solves the system, SolveLinearSystem(MaxIters=%d) returns %v with residual %g", solvedAt+1, m, sol, resid(sol)))
						break
					}
				}
				// the driver with a tolerance
				for _, tolMode := range []int{0, 1} {
					sv := &numerical.BiCGSTABSolver{MaxIters: 200}
					if tolMode == 0 {
						sv.MSETolerance = 1e-20
					} else {
						sv.MAETolerance = 1e-10
					}
					var sol numerical.Vec
					if p := ev.Try(func() { sol = sv.SolveLinearSystem(op, append(numerical.Vec{}, b...), g) }); p != "" {
						bad("panic", fmt.Sprintf("SolveLinearSystem(%+v) panics: %s", *sv, p))
						continue
					}
					if res := resid(sol); res > 1e-8*scale && !symmetric(s.a) && !math.IsInf(res, 1) {
						// breakdown of the unrestarted method (shadow residual orthogonal to the residual) on a
						// non-symmetric system: a limitation of BiCGSTAB itself; a finite estimate is all that is asked
						r.Skipped(1)
					} else if res > 1e-8*scale {
						bad("tolerance", fmt.Sprintf("SolveLinearSystem(%+v) returns %v with residual %g", *sv, sol, res))
					}
				}
			}
		}
	})
	r.Set("bicgstab_systems", len(systems))
}

// extraMatrixOps: methods that exist only on some of the matrix types, reached through a type switch.
func extraMatrixOps(r *ev.Run, l libMat, m interface{}, a mat, det, scale float64, viol func(kind, msg string)) {
	n := l.n
	vecs := [][]float64{[]float64{1, -2, 0.5, 3}[:n], []float64{0.25, 1, -1, 2}[:n]}
	tol := 1e-9 * (1 + scale)
	invertible := math.Abs(det) >= 0.5
	sum := func(x, y mat, sy float64) mat {
		out := make(mat, n)
		for i := range out {
			out[i] = make([]float64, n)
			for j := range out[i] {
				out[i][j] = x[i][j] + sy*y[i][j]
			}
		}
		return out
	}
	at := a.t()
	other := l.build(at)
	check := func(name string, got, want mat, t float64) {
		if d := got.maxDiff(want); !(d <= t) {
			viol(name, fmt.Sprintf("%s differs from the dense reference by %g", name, d))
		}
	}
	var mci func(v []float64) []float64
	switch x := m.(type) {
	case *numerical.Matrix2:
		mci = func(v []float64) []float64 { o := x.MulColumnInv(numerical.Vec2{v[0], v[1]}, det); return o[:] }
		check("Add", l.dense(x.Add(other.(*numerical.Matrix2))), sum(a, at, 1), tol)
		if invertible {
			c1, c2 := *x, *x
			c1.InvertInPlace()
			c2.InvertInPlaceDet(det)
			check("InvertInPlace", l.dense(&c1).mul(a), ident(n), 1e-9*(1+scale*scale/math.Abs(det)))
			check("InvertInPlaceDet", l.dense(&c2).mul(a), ident(n), 1e-9*(1+scale*scale/math.Abs(det)))
		}
		c3 := *x
		c3.Scale(-2.5)
		check("Scale", l.dense(&c3), sum(make0(n), a, -2.5), tol*3)
	case *numerical.Matrix3:
		mci = func(v []float64) []float64 { o := x.MulColumnInv(numerical.Vec3{v[0], v[1], v[2]}, det); return o[:] }
		check("Add", l.dense(x.Add(other.(*numerical.Matrix3))), sum(a, at, 1), tol)
		if invertible {
			c1, c2 := *x, *x
			c1.InvertInPlace()
			c2.InvertInPlaceDet(det)
			check("InvertInPlace", l.dense(&c1).mul(a), ident(n), 1e-9*(1+scale*scale*scale/math.Abs(det)))
			check("InvertInPlaceDet", l.dense(&c2).mul(a), ident(n), 1e-9*(1+scale*scale*scale/math.Abs(det)))
		}
		c3 := *x
		c3.Scale(-2.5)
		check("Scale", l.dense(&c3), sum(make0(n), a, -2.5), tol*3)
	case *model2d.Matrix2:
		mci = func(v []float64) []float64 {
			o := x.MulColumnInv(model2d.XY(v[0], v[1]), det)
			return []float64{o.X, o.Y}
		}
		check("Add", l.dense(x.Add(other.(*model2d.Matrix2))), sum(a, at, 1), tol)
		if invertible {
			c1, c2 := *x, *x
			c1.InvertInPlace()
			c2.InvertInPlaceDet(det)
			check("InvertInPlace", l.dense(&c1).mul(a), ident(n), 1e-9*(1+scale*scale/math.Abs(det)))
			check("InvertInPlaceDet", l.dense(&c2).mul(a), ident(n), 1e-9*(1+scale*scale/math.Abs(det)))
		}
		c3 := *x
		c3.Scale(-2.5)
		check("Scale", l.dense(&c3), sum(make0(n), a, -2.5), tol*3)
	case *model3d.Matrix3:
		mci = func(v []float64) []float64 {
			o := x.MulColumnInv(model3d.XYZ(v[0], v[1], v[2]), det)
			return []float64{o.X, o.Y, o.Z}
		}
		check("Add", l.dense(x.Add(other.(*model3d.Matrix3))), sum(a, at, 1), tol)
		if invertible {
			c1, c2 := *x, *x
			c1.InvertInPlace()
			c2.InvertInPlaceDet(det)
			check("InvertInPlace", l.dense(&c1).mul(a), ident(n), 1e-9*(1+scale*scale*scale/math.Abs(det)))
			check("InvertInPlaceDet", l.dense(&c2).mul(a), ident(n), 1e-9*(1+scale*scale*scale/math.Abs(det)))
		}
		c3 := *x
		c3.Scale(-2.5)
		check("Scale", l.dense(&c3), sum(make0(n), a, -2.5), tol*3)
	case *numerical.Matrix4:
		check("Add", l.dense(x.Add(other.(*numerical.Matrix4))), sum(a, at, 1), tol)
		check("Sub", l.dense(x.Sub(other.(*numerical.Matrix4))), sum(a, at, -1), tol)
		check("Scale", l.dense(x.Scale(-2.5)), sum(make0(n), a, -2.5), tol*3)
	}
	if mci != nil && invertible {
		for _, v := range vecs {
			xv := mci(v)
			// M x = v
			for i := 0; i < n; i++ {
				sumv := 0.0
				for j := 0; j < n; j++ {
					sumv += a[i][j] * xv[j]
				}
				if !(math.Abs(sumv-v[i]) <= 1e-9*(1+math.Pow(scale, float64(n))/math.Abs(det))*4) {
					viol("MulColumnInv", fmt.Sprintf("M * MulColumnInv(%v, det) = ... %g in row %d, want %g", v, sumv, i, v[i]))
					return
				}
			}
		}
	}
	_ = r
}

func make0(n int) mat {
	out := make(mat, n)
	for i := range out {
		out[i] = make([]float64, n)
	}
	return out
}
