package main

import (
	"fmt"

	"github.com/unixpickle/model3d/model3d"

	"verif/lib/cat"
	"verif/lib/ev"
	"verif/lib/lat"
	"verif/lib/topo"
)

// storageStage: single-edge collapses and single-vertex removals under every way of *storing* the faces involved.
// A triangle {a,b,c} can be stored as abc, bca or cab and the faces can be inserted in either order without changing
// the surface or its orientation; the guards of an edge collapse (link condition, duplicate-face and fold-over tests)
// and of a vertex removal walk the corners of the stored faces in storage order, so a guard that stops early or
// reads the wrong corner is wrong only for some rotations. Plain enumeration in the uninstrumented build: with a
// single admissible edge (vertex) the outcome does not depend on map iteration order.
// For every closed mesh of a small catalogue (including surfaces with a non-facial 3-cycle, where the link condition
// must refuse), every target edge / vertex, both insertion orders and every combination of rotations of the faces
// incident to the target's end points (3^k, k <= 10): the result must be a closed oriented manifold with the same
// Euler characteristic and component count, and the input must be left as it was.

type storCase struct {
	Mesh    string    `json:"mesh"`
	Op      string    `json:"op"`
	Target  []float64 `json:"target"`
	Rot     []int     `json:"rotations"`
	Reverse bool      `json:"reversed_insertion"`
}

func storageMeshes(th bool) []cat.Named3 {
	p := model3d.XYZ
	var out []cat.Named3
	for _, n := range cat.Closed3(true) {
		if n.Name == "two-tetra" || (n.Name == "icosa" && !th) {
			continue
		}
		out = append(out, n)
	}
	// a sphere with a waist: the cycle s0-s1-c exists edge by edge but bounds no face
	s0, s1, c := p(0, -0.5, 0), p(0, 0.5, 0), p(0, 0, 2)
	a, d, b, e := p(1.5, 0, 0.6), p(1.0, 0.9, 1.3), p(-1.5, 0, 0.6), p(-1.0, 0.9, 1.3)
	out = append(out, cat.Named3{Name: "waist7", Tris: [][3]model3d.Coord3D{{s0, s1, a}, {s0, a, c}, {s0, c, b}, {s0, b, s1}, {s1, b, e}, {s1, e, c}, {s1, c, d}, {s1, d, a}, {c, a, d}, {b, c, e}}, Genus: 0, Comps: 1})
	// bipyramids over a triangle and a pentagon (the triangle's equator is a waist)
	for _, k := range []int{3, 5} {
		top, bot := p(0.1, 0.05, 1.2), p(-0.05, 0.1, -1)
		var ring []model3d.Coord3D
		for i := 0; i < k; i++ {
			ring = append(ring, p([]float64{1, 0.3, -0.8, -0.9, 0.2}[i%5]*(1+0.1*float64(i/5)), []float64{0, 1, 0.6, -0.5, -1}[i%5], 0.05*float64(i)))
		}
		if k == 3 {
			ring = []model3d.Coord3D{p(1, 0, 0), p(-0.5, 0.9, 0.05), p(-0.6, -0.8, 0.1)}
		}
		var ts [][3]model3d.Coord3D
		for i := 0; i < k; i++ {
			ts = append(ts, [3]model3d.Coord3D{ring[i], ring[(i+1)%k], top}, [3]model3d.Coord3D{ring[(i+1)%k], ring[i], bot})
		}
		out = append(out, cat.Named3{Name: fmt.Sprintf("bipyramid%d", k), Tris: ts, Genus: 0, Comps: 1})
	}
	return out
}

func storageStage(r *ev.Run, th bool) {
	type job struct {
		mesh   cat.Named3
		edge   *[2]model3d.Coord3D
		vertex *model3d.Coord3D
	}
	var jobs []job
	for _, nm := range storageMeshes(th) {
		rep := topo.Analyze3(lat.Tris(nm.Mesh()))
		if !rep.Manifold() {
			ev.Fatal("harness: storage mesh %s is not a closed oriented manifold: %s", nm.Name, rep)
		}
		seenE := map[[2]model3d.Coord3D]bool{}
		seenV := map[model3d.Coord3D]bool{}
		for _, t := range nm.Tris {
			for k := 0; k < 3; k++ {
				x, y := t[k], t[(k+1)%3]
				if !seenE[[2]model3d.Coord3D{y, x}] && !seenE[[2]model3d.Coord3D{x, y}] {
					seenE[[2]model3d.Coord3D{x, y}] = true
					jobs = append(jobs, job{nm, &[2]model3d.Coord3D{x, y}, nil})
				}
				if !seenV[x] {
					seenV[x] = true
					v := x
					jobs = append(jobs, job{nm, nil, &v})
				}
			}
		}
	}
	ev.Parallel(len(jobs), 0, func(ji int) {
		j := jobs[ji]
		nm := j.mesh
		base := topo.Analyze3(lat.Tris(nm.Mesh()))
		touches := func(t [3]model3d.Coord3D) bool {
			for _, v := range t {
				if j.edge != nil && (v == j.edge[0] || v == j.edge[1]) {
					return true
				}
				if j.vertex != nil && v == *j.vertex {
					return true
				}
			}
			return false
		}
		var inc []int
		for i, t := range nm.Tris {
			if touches(t) {
				inc = append(inc, i)
			}
		}
		if len(inc) > 10 {
			inc = inc[:10] // documented cap: the first ten incident faces are rotated, the others keep their storage
		}
		total := 1
		for range inc {
			total *= 3
		}
		rot := make([]int, len(nm.Tris))
		for code := 0; code < total; code++ {
			for i := range rot {
				rot[i] = 0
			}
			for q, cc := 0, code; q < len(inc); q++ {
				rot[inc[q]] = cc % 3
				cc /= 3
			}
			for _, rev := range []bool{false, true} {
				m := model3d.NewMesh()
				for q := range nm.Tris {
					i := q
					if rev {
						i = len(nm.Tris) - 1 - q
					}
					t, k := nm.Tris[i], rot[i]
					m.Add(&model3d.Triangle{t[k], t[(k+1)%3], t[(k+2)%3]})
				}
				r.Eval(1)
				var out *model3d.Mesh
				op, target := "", []float64{}
				perr := ev.Try(func() {
					if j.edge != nil {
						op = "EliminateEdges(one admissible edge)"
						target = []float64{j.edge[0].X, j.edge[0].Y, j.edge[0].Z, j.edge[1].X, j.edge[1].Y, j.edge[1].Z}
						want := model3d.NewSegment(j.edge[0], j.edge[1])
						out = m.EliminateEdges(func(_ *model3d.Mesh, s model3d.Segment) bool { return s == want })
					} else {
						op = "EliminateCoplanarFiltered(any normals, one admissible vertex)"
						target = []float64{j.vertex.X, j.vertex.Y, j.vertex.Z}
						out = m.EliminateCoplanarFiltered(2, func(c model3d.Coord3D) bool { return c == *j.vertex })
					}
				})
				sc := storCase{nm.Name, op, target, append([]int{}, rot...), rev}
				if perr != "" {
					r.Violation("storage/panic", fmt.Sprintf("%s on %s (rotations %v, reversed %v): %s", op, nm.Name, rot, rev, perr), sc)
					return
				}
				rep := topo.Analyze3(lat.Tris(out))
				if out.NumTriangles() > 0 && (!rep.Manifold() || rep.Euler != base.Euler || rep.Components != base.Components) {
					r.Violation("storage/"+op[:9], fmt.Sprintf("%s on %s, target %v, face rotations %v, reversed insertion %v: result is not a closed oriented manifold of the same topology: %s", op, nm.Name, target, rot, rev, rep), sc)
					return
				}
				if m.NumTriangles() != len(nm.Tris) {
					r.Violation("storage/input-modified", fmt.Sprintf("%s on %s changed its input (%d faces left of %d)", op, nm.Name, m.NumTriangles(), len(nm.Tris)), sc)
					return
				}
			}
		}
		r.NontrivialAdd(1)
	})
	r.Set("storage_targets", len(jobs))
}
