// C10: mesh processing keeps closed oriented manifolds closed, oriented, manifold.
//
// Driver. Every operation of the alphabet (checks/sched/c10.go: decimation x5,
// edge / coplanar elimination, Delaunay flipping, edge / Loop / selective
// subdivision, blurring, area smoothing, constrained and voxel smoothers, base
// flattening, ARAP with rigid constraint sets and sequential-deformer
// histories; 2D decimation, colinear elimination, corner cutting, smoothing)
// is applied to every catalogue mesh inside the instrumented build, where the
// iteration order of every Go map is an explorer decision and every
// condition-only loop ticks an iteration horizon. All executions with at most
// B departures from the canonical map order are enumerated (B as reported);
// chains of two operations are enumerated at B-1. Oracle per execution:
// terminates within the horizon, no panic, output is a closed consistently
// oriented manifold with the same Euler characteristic and component count,
// and the operation's documented invariants (volume/area, vertex subset,
// keep-filter, published placement rules, exact constraints, rigid motion).
package main

import (
	"bufio"
	"encoding/json"
	"fmt"
	"os"
	"os/exec"
	"path/filepath"
	"strings"
	"sync"

	"verif/lib/ev"
	"verif/lib/schedrun"
)

func family(scenario string) string {
	// "op3:Decimator(eps=10)/cube" -> "Decimator"; "chain3:A -> B/mesh" -> "chain:B's routine"
	s := scenario
	if i := strings.Index(s, ":"); i >= 0 {
		s = s[i+1:]
	}
	if i := strings.LastIndex(s, "->"); i >= 0 {
		s = s[i+2:]
	}
	for i, c := range s {
		if c == '(' || c == '[' || c == '/' {
			return s[:i]
		}
	}
	return s
}

func class(msg string) string {
	// "schedule-dependent result: got VIOLATION topology: ..." -> "topology"
	if i := strings.Index(msg, "VIOLATION "); i >= 0 {
		rest := msg[i+10:]
		if j := strings.Index(rest, ":"); j >= 0 {
			return rest[:j]
		}
	}
	return "outcome"
}

func runBatch(bound int, maxExecs int64, names []string) []schedrun.Result {
	dir := filepath.Join(ev.Root, ".work", "c10")
	os.MkdirAll(dir, 0o755)
	const per = 40
	var chunks [][]string
	for i := 0; i < len(names); i += per {
		j := i + per
		if j > len(names) {
			j = len(names)
		}
		chunks = append(chunks, names[i:j])
	}
	var mu sync.Mutex
	var out []schedrun.Result
	bin := filepath.Join(ev.Root, ".work", "bin", "sched")
	ev.Parallel(len(chunks), 16, func(ci int) {
		f := filepath.Join(dir, fmt.Sprintf("batch_%d_%d.txt", bound, ci))
		os.WriteFile(f, []byte(strings.Join(chunks[ci], "\n")+"\n"), 0o644)
		cmd := exec.Command(bin, "batch", fmt.Sprint(bound), fmt.Sprint(maxExecs), f)
		cmd.Env = append(os.Environ(), "GOMAXPROCS=2")
		so, err := cmd.Output()
		got := map[string]bool{}
		var res []schedrun.Result
		sc := bufio.NewScanner(strings.NewReader(string(so)))
		sc.Buffer(make([]byte, 1<<20), 1<<26)
		for sc.Scan() {
			var r schedrun.Result
			if json.Unmarshal(sc.Bytes(), &r) == nil && r.Scenario != "" {
				res = append(res, r)
				got[r.Scenario] = true
			}
		}
		if err != nil || len(res) != len(chunks[ci]) {
			// a scenario took the worker process down: run the missing ones one by one to name it
			for _, n := range chunks[ci] {
				if got[n] {
					continue
				}
				f1 := f + ".single"
				os.WriteFile(f1, []byte(n+"\n"), 0o644)
				c1 := exec.Command(bin, "batch", fmt.Sprint(bound), fmt.Sprint(maxExecs), f1)
				c1.Env = append(os.Environ(), "GOMAXPROCS=2")
				so1, err1 := c1.CombinedOutput()
				var r schedrun.Result
				lines := strings.Split(strings.TrimSpace(string(so1)), "\n")
				if err1 == nil && json.Unmarshal([]byte(lines[len(lines)-1]), &r) == nil && r.Scenario != "" {
					res = append(res, r)
				} else {
					msg := string(so1)
					if len(msg) > 2000 {
						msg = msg[:2000]
					}
					res = append(res, schedrun.Result{Scenario: n, Bound: bound, Failures: []schedrun.Failure{{Kind: "crash", Msg: "the worker process died: " + msg}}})
				}
			}
		}
		mu.Lock()
		out = append(out, res...)
		mu.Unlock()
	})
	return out
}

func report(r *ev.Run, results []schedrun.Result) {
	for _, res := range results {
		r.Transitions(int(res.Points))
		r.Traces(int(res.Executions))
		r.StatesAdd(int(res.Nodes))
		r.Eval(int(res.Executions))
		if res.Executions > 1 {
			r.NontrivialKey("scenario/" + res.Scenario)
		}
		if res.Capped {
			r.NotExhaustive("execution cap reached in " + res.Scenario)
		}
		seen := map[string]bool{}
		for _, f := range res.Failures {
			kind := f.Kind
			if kind == "outcome" {
				kind = class(f.Msg)
			}
			key := family(res.Scenario) + "/" + kind
			if strings.HasPrefix(res.Scenario, "chain") {
				key = "chain/" + key
			}
			if seen[key] {
				continue
			}
			seen[key] = true
			if f.Kind != "crash" {
				// the same decisions must fail every time; the detail text may differ once the mesh is already
				// corrupt (value-identical duplicate faces have no canonical order), so only the verdict is compared
				if !confirm(r, res.Scenario, f.Choices) {
					ev.Fatal("failure in %s did not reproduce under replay: nondeterminism not owned by the harness", res.Scenario)
				}
			}
			msg := f.Msg
			if f.Kind == "horizon" {
				msg = "does not terminate: the execution exceeded the iteration horizon (50000 loop iterations / decisions)"
			}
			r.Violation(key, fmt.Sprintf("%s [%d non-default map-order choices]: %s", res.Scenario, nonzero(f.Choices), msg), schedrun.ReplayCase{Scenario: res.Scenario, Choices: f.Choices, Kind: f.Kind})
		}
	}
}

func confirm(r *ev.Run, scenario string, choices []int) bool {
	cj, _ := json.Marshal(choices)
	if choices == nil {
		cj = []byte("[]")
	}
	first := ""
	for i := 0; i < 5; i++ {
		cmd := exec.Command(filepath.Join(ev.Root, ".work", "bin", "sched"), "replay", scenario, string(cj))
		cmd.Env = append(os.Environ(), "GOMAXPROCS=2")
		out, err := cmd.Output()
		ee, ok := err.(*exec.ExitError)
		if err == nil || !ok || ee.ExitCode() != 1 {
			return false
		}
		if i == 0 {
			first = string(out)
		} else if string(out) != first {
			r.AddTo("failures_whose_detail_text_varies_between_replays", 1)
		}
	}
	return true
}

func nonzero(c []int) int {
	n := 0
	for _, x := range c {
		if x != 0 {
			n++
		}
	}
	return n
}

func main() {
	r := ev.Start("C10", "model_checking")
	schedrun.Build(false)
	if r.Replay != "" {
		var c schedrun.ReplayCase
		r.LoadReplay(&c)
		cj, _ := json.Marshal(c.Choices)
		if c.Choices == nil {
			cj = []byte("[]")
		}
		cmd := exec.Command(filepath.Join(ev.Root, ".work", "bin", "sched"), "replay", c.Scenario, string(cj))
		out, err := cmd.CombinedOutput()
		fmt.Print(string(out))
		if err != nil {
			r.Violation(family(c.Scenario)+"/"+c.Kind, "replayed execution violates: "+string(out), c)
		}
		r.StatesAdd(1)
		r.Transitions(1)
		r.Finish()
	}
	r.Rule("one scenario = one operation (or chain of two) on one catalogue mesh; every execution with at most B non-canonical map-iteration decisions is run on the real code (states = decision-tree nodes, transitions = decisions taken, traces = complete executions); " +
		"non-trivial = scenarios with more than one execution, i.e. whose code ranges over a map with several keys")
	r.Assume("newly inserted keys are not visited during a map range (one of Go's two legal behaviours)", "maps with more than 64 keys are iterated in canonical order only",
		"termination = within 50000 loop iterations / decisions", "smoothing rules whose published formula itself merges two vertices are skipped")
	names := schedrun.List("C10")
	small := map[string]bool{"tetra": true, "sliver-tetra": true, "octa": true, "prism": true, "cube": true, "two-tetra": true,
		"triangle": true, "square": true, "colinear-runs": true, "L": true, "heptagon": true, "with-hole": true, "two-squares": true}
	meshOf := func(n string) string { return n[strings.LastIndex(n, "/")+1:] }
	// groups by deviation bound
	groups := map[int][]string{}
	nSingle, nChain := 0, 0
	for _, n := range names {
		mesh := meshOf(n)
		chain := strings.HasPrefix(n, "chain")
		arap := strings.HasPrefix(n, "arap")
		var b int
		switch {
		case arap:
			// ARAP ranges over constraint maps only: canonical order in quick, one deviation in thorough
			if !r.Thorough() && mesh == "icosa" {
				continue
			}
			b = 0
			if r.Thorough() {
				b = 1
			}
		case chain:
			if !r.Thorough() && !(mesh == "tetra" || mesh == "octa" || mesh == "cube" || strings.HasPrefix(n, "chain2")) {
				continue
			}
			b = 0
			if r.Thorough() && small[mesh] && mesh != "two-tetra" {
				b = 1
			}
		default:
			b = 0
			if small[mesh] {
				b = 1
			}
			if r.Thorough() {
				b++
			}
			if strings.Contains(n, "LoopSubdivision(2)") && b > 0 {
				b--
			}
		}
		if chain {
			nChain++
		} else {
			nSingle++
		}
		groups[b] = append(groups[b], n)
	}
	var res []schedrun.Result
	failedFirst := map[string]bool{} // "op/mesh" of single operations that violate: chains starting with them add nothing
	for pass := 0; pass < 2; pass++ {
		for b := 0; b <= 3; b++ {
			var names []string
			for _, n := range groups[b] {
				isChain := strings.HasPrefix(n, "chain")
				if isChain != (pass == 1) {
					continue
				}
				if isChain {
					first := n[strings.Index(n, ":")+1 : strings.Index(n, "->")]
					if failedFirst[first+"/"+meshOf(n)] {
						r.Skipped(1)
						continue
					}
				}
				names = append(names, n)
			}
			if len(names) == 0 {
				continue
			}
			part := runBatch(b, 300000, names)
			for _, x := range part {
				if len(x.Failures) > 0 && !strings.HasPrefix(x.Scenario, "chain") {
					failedFirst[x.Scenario[strings.Index(x.Scenario, ":")+1:]] = true
				}
			}
			report(r, part)
			res = append(res, part...)
			r.AddTo(fmt.Sprintf("scenarios_at_deviation_bound_%d", b), int64(len(names)))
		}
	}
	r.Set("single_operation_scenarios", nSingle)
	r.Set("chain_scenarios", nChain)
	var worst schedrun.Result
	for _, x := range res {
		if x.Executions > worst.Executions {
			worst = x
		}
	}
	r.Sample(map[string]interface{}{"scenario": worst.Scenario, "bound": worst.Bound, "executions": worst.Executions, "decisions": worst.Points})
	if st, err := os.ReadFile(filepath.Join(ev.Root, ".work", "instr", "stats.txt")); err == nil {
		r.Set("instrumented_sites", string(st))
	}
	r.Finish()
}
