// C10: mesh processing keeps closed oriented manifolds closed, oriented, manifold.
//
// Driver. Every operation of the alphabet (checks/sched/c10.go: decimation x5,
// edge / coplanar elimination, Delaunay flipping, edge / Loop / selective
// subdivision, blurring, area smoothing, constrained and voxel smoothers, base
// flattening, ARAP with rigid constraint sets and sequential-deformer
// histories; 2D decimation, colinear elimination, corner cutting, smoothing)
// is applied to every catalogue mesh inside the instrumented build, where the
// iteration order of every Go map is an explorer decision and every
// condition-only loop ticks an iteration horizon. All executions with at most
// B departures from the canonical map order are enumerated (B as reported);
// chains of two operations are enumerated at B-1. Oracle per execution:
// terminates within the horizon, no panic, output is a closed consistently
// oriented manifold with the same Euler characteristic and component count,
// and the operation's documented invariants (volume/area, vertex subset,
// keep-filter, published placement rules, exact constraints, rigid motion).
package main

import (
	"encoding/json"
	"fmt"
	"os"
	"os/exec"
	"path/filepath"
	"strings"

	"verif/lib/ev"
	"verif/lib/scen"
	"verif/lib/schedrun"
)

func family(scenario string) string {
	// "op3:Decimator(eps=10)/cube" -> "Decimator"; "chain3:A -> B/mesh" -> "chain:B's routine"
	s := scenario
	if i := strings.Index(s, ":"); i >= 0 {
		s = s[i+1:]
	}
	if i := strings.LastIndex(s, "->"); i >= 0 {
		s = s[i+2:]
	}
	for i, c := range s {
		if c == '(' || c == '[' || c == '/' {
			return s[:i]
		}
	}
	return s
}

func main() {
	r := ev.Start("C10", "model_checking")
	schedrun.Build(false)
	if r.Replay != "" {
		var sc storCase
		r.LoadReplay(&sc)
		if sc.Op != "" {
			storageStage(r, true)
			r.Finish()
		}
		var c schedrun.ReplayCase
		r.LoadReplay(&c)
		cj, _ := json.Marshal(c.Choices)
		if c.Choices == nil {
			cj = []byte("[]")
		}
		cmd := exec.Command(filepath.Join(ev.Work(), "bin", "sched"), "replay", c.Scenario, string(cj))
		out, err := cmd.CombinedOutput()
		fmt.Print(string(out))
		if err != nil {
			r.Violation(family(c.Scenario)+"/"+c.Kind, "replayed execution violates: "+string(out), c)
		}
		r.StatesAdd(1)
		r.Transitions(1)
		r.Finish()
	}
	r.Rule("one scenario = one operation (or chain of two) on one catalogue mesh; every execution with at most B non-canonical map-iteration decisions is run on the real code (states = decision-tree nodes, transitions = decisions taken, traces = complete executions); " +
		"non-trivial = scenarios with more than one execution, i.e. whose code ranges over a map with several keys")
	r.Assume("newly inserted keys are not visited during a map range (one of Go's two legal behaviours)", "maps with more than 64 keys are iterated in canonical order only",
		"termination = within 50000 loop iterations / decisions", "smoothing rules whose published formula itself merges two vertices are skipped")
	r.Isolate("storage-rotations", func() { storageStage(r, r.Thorough()) })
	names := schedrun.List("C10")
	small := map[string]bool{"tetra": true, "sliver-tetra": true, "octa": true, "prism": true, "cube": true, "two-tetra": true,
		"triangle": true, "square": true, "colinear-runs": true, "L": true, "heptagon": true, "with-hole": true, "two-squares": true}
	meshOf := func(n string) string { return n[strings.LastIndex(n, "/")+1:] }
	// groups by deviation bound
	groups := map[int][]string{}
	nSingle, nChain := 0, 0
	for _, n := range names {
		mesh := meshOf(n)
		chain := strings.HasPrefix(n, "chain")
		arap := strings.HasPrefix(n, "arap")
		var b int
		switch {
		case arap:
			// ARAP ranges over constraint maps only: canonical order in quick, one deviation in thorough
			if !r.Thorough() && mesh == "icosa" {
				continue
			}
			b = 0
			if r.Thorough() {
				b = 1
			}
		case chain:
			if !r.Thorough() && !(mesh == "tetra" || mesh == "octa" || mesh == "cube" || strings.HasPrefix(n, "chain2")) {
				continue
			}
			b = 0
			if r.Thorough() && (mesh == "tetra" || mesh == "octa" || mesh == "triangle" || mesh == "square" || mesh == "L") {
				b = 1
			}
			// a chain whose first operation multiplies the face count runs its second operation on a large mesh:
			// one deviation there costs tens of thousands of slow executions per scenario (a single batch of twelve
			// took more than an hour), so these stay at the canonical order
			if first := n[strings.Index(n, ":")+1 : strings.Index(n, "->")]; strings.Contains(first, "LoopSubdivision") || strings.Contains(first, "SubdivideEdges") || strings.Contains(first, "Subdivide") {
				b = 0
			}
		default:
			b = 0
			if small[mesh] {
				b = 1
			}
			if r.Thorough() {
				b++
			}
			if strings.Contains(n, "LoopSubdivision(2)") && b > 0 {
				b--
			}
			// operations that multiply the face count or rescan an edge map per step are explored in canonical
			// order only on the larger meshes
			if !small[mesh] && (strings.Contains(n, "LoopSubdivision") || strings.Contains(n, "SubdivideEdges(3)") || strings.Contains(n, "SubdivideEdges(2)") || strings.Contains(n, "EliminateEdges")) {
				b = 0
			}
		}
		if chain {
			nChain++
		} else {
			nSingle++
		}
		groups[b] = append(groups[b], n)
	}
	var res []schedrun.Result
	failedFirst := map[string]bool{} // "op/mesh" of single operations that violate: chains starting with them add nothing
	for pass := 0; pass < 2; pass++ {
		for b := 0; b <= 3; b++ {
			var names []string
			for _, n := range groups[b] {
				isChain := strings.HasPrefix(n, "chain")
				if isChain != (pass == 1) {
					continue
				}
				if isChain {
					first := n[strings.Index(n, ":")+1 : strings.Index(n, "->")]
					if failedFirst[first+"/"+meshOf(n)] {
						r.Skipped(1)
						continue
					}
				}
				names = append(names, n)
			}
			if len(names) == 0 {
				continue
			}
			part := scen.RunBatch(b, 40000, names)
			for _, x := range part {
				if len(x.Failures) > 0 && !strings.HasPrefix(x.Scenario, "chain") {
					failedFirst[x.Scenario[strings.Index(x.Scenario, ":")+1:]] = true
				}
			}
			scen.Report(r, part, family)
			res = append(res, part...)
			r.AddTo(fmt.Sprintf("scenarios_at_deviation_bound_%d", b), int64(len(names)))
		}
	}
	r.Set("single_operation_scenarios", nSingle)
	r.Set("chain_scenarios", nChain)
	var worst schedrun.Result
	for _, x := range res {
		if x.Executions > worst.Executions {
			worst = x
		}
	}
	r.Sample(map[string]interface{}{"scenario": worst.Scenario, "bound": worst.Bound, "executions": worst.Executions, "decisions": worst.Points})
	if st, err := os.ReadFile(filepath.Join(ev.Work(), "instr", "stats.txt")); err == nil {
		r.Set("instrumented_sites", string(st))
	}
	r.Finish()
}
