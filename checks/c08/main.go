// C08: spatial indexes return exactly the brute-force answer.
//
// The pruning decisions of every index depend only on coincidences between
// bounding boxes and queries, so the object alphabets are built from
// coincidences (flat axis-aligned boxes, duplicates, identical boxes) and the
// query alphabets from the same lattice (rays lying in box faces, balls whose
// radius is exactly a realised distance). Every multiset of <= 4 (thorough 5)
// triangles - every input order for <= 3 - every multiset of <= 5 lattice
// points and every multiset of <= 4 render objects goes through every index
// constructor, and each query is answered by the index and by a linear scan
// that uses the SAME per-object primitive, so only pruning is judged and the
// comparison is exact.
package main

import (
	"fmt"
	"math"
	"sort"

	"github.com/unixpickle/model3d/model2d"
	"github.com/unixpickle/model3d/model3d"
	"github.com/unixpickle/model3d/render3d"

	"verif/lib/ev"
)

type c3 = model3d.Coord3D

type qcase struct {
	Index   string      `json:"index"`
	Objects []int       `json:"objects"`
	Query   string      `json:"query"`
	Args    [][]float64 `json:"args,omitempty"`
	Place   []float64   `json:"placement,omitempty"` // scale, offset x y z (absent = identity)
}

// place: the whole configuration (triangles and queries) multiplied by a power of two and moved by an offset that
// is exact in floating point. Index and linear scan use the same primitive on the same numbers, so the comparison
// stays exact; what changes is which absolute thresholds, cancellations and roundings the pruning code meets.
type place struct {
	k float64
	o c3
}

func (p place) pt(c c3) c3 { return c.Scale(p.k).Add(p.o) }
func (p place) arr() []float64 {
	if p.k == 1 && p.o == (c3{}) {
		return nil
	}
	return []float64{p.k, p.o.X, p.o.Y, p.o.Z}
}

var identityPlace = place{1, c3{}}
var triPlaces = []place{{1.0 / (1 << 17), c3{}}, {1 << 10, c3{}}, {1, c3{X: 1 << 24, Y: -(1 << 25), Z: 1 << 23}}, {1.0 / (1 << 10), c3{X: 64, Y: -32, Z: 128}}}

func xyz(x, y, z float64) c3 { return model3d.XYZ(x, y, z) }

var triAlphabet = [][3]c3{
	{xyz(0, 0, 0), xyz(2, 0, 0), xyz(0, 2, 0)},                   // flat in z
	{xyz(1, 0, 0), xyz(1, 2, 0), xyz(1, 0, 2)},                   // flat in x
	{xyz(0, 2, 0), xyz(2, 2, 0), xyz(0, 2, 2)},                   // flat in y
	{xyz(0, 0, 0), xyz(2, 0, 0), xyz(0, 2, 0)},                   // duplicate of 0
	{xyz(0, 0, 0), xyz(2, 2, 1), xyz(2, 0, 1)},                   // bounds [0,2]x[0,2]x[0,1]
	{xyz(0, 0, 1), xyz(2, 2, 0), xyz(0, 2, 0)},                   // same bounds, different triangle
	{xyz(0.3, 0.2, 1.1), xyz(1.7, 0.4, 1.9), xyz(0.9, 1.8, 1.4)}, // generic
	{xyz(2.5, 2.5, 2.5), xyz(3, 2.7, 2.2), xyz(2.6, 3.1, 2.9)},   // generic, apart
	{xyz(1, 1, 0), xyz(1, 1, 2), xyz(2, 1, 1)},                   // flat in y through the middle
}

func multisets(n, maxK int, f func(s []int)) {
	var rec func(start int, cur []int)
	rec = func(start int, cur []int) {
		f(cur)
		if len(cur) == maxK {
			return
		}
		for i := start; i < n; i++ {
			rec(i, append(append([]int{}, cur...), i))
		}
	}
	rec(0, nil)
}

func sequences(n, maxK int, f func(s []int)) {
	var rec func(cur []int)
	rec = func(cur []int) {
		f(cur)
		if len(cur) == maxK {
			return
		}
		for i := 0; i < n; i++ {
			rec(append(append([]int{}, cur...), i))
		}
	}
	rec(nil)
}

// ---------------------------------------------------------------- triangle indexes

var rayOrigins, ballCenters []c3
var rayDirs []c3
var segs []model3d.Segment
var rects []*model3d.Rect
var qtris []*model3d.Triangle

func init() {
	for _, x := range []float64{-1, 0, 1, 2, 3.5} {
		for _, y := range []float64{-1, 0, 1, 2.5} {
			for _, z := range []float64{-1, 0, 0.5, 1, 3} {
				rayOrigins = append(rayOrigins, xyz(x, y, z))
			}
		}
	}
	for x := -1; x <= 1; x++ {
		for y := -1; y <= 1; y++ {
			for z := -1; z <= 1; z++ {
				if x != 0 || y != 0 || z != 0 {
					rayDirs = append(rayDirs, xyz(float64(x), float64(y), float64(z)))
				}
			}
		}
	}
	rayDirs = append(rayDirs, xyz(0.3, 1, 0.2), xyz(-0.7, 0.1, 0.71), xyz(0.9, -0.1, 0.43), xyz(2, 1, 0.5), xyz(-1, -2, -1.5))
	// zero components of negative sign (what Scale(-1) or a mirror produces): slab tests divide by them
	nz := math.Copysign(0, -1)
	rayDirs = append(rayDirs, xyz(-1, nz, nz), xyz(nz, 1, nz), xyz(nz, nz, -1), xyz(1, nz, 1), xyz(nz, -1, 1))
	for _, x := range []float64{-0.5, 0, 1, 2, 3.25} {
		for _, y := range []float64{-0.5, 1, 2, 2.75} {
			for _, z := range []float64{-1, 0, 1, 2.5} {
				ballCenters = append(ballCenters, xyz(x, y, z))
			}
		}
	}
	ends := []c3{xyz(-1, -1, -1), xyz(0, 0, 0), xyz(1, 1, 1), xyz(2, 0, 1), xyz(1, 0.5, -0.5), xyz(1, 0.5, 2.5), xyz(3, 3, 3), xyz(0.5, 0.5, 0), xyz(0.5, 0.5, 0.25), xyz(2.8, 2.8, 2.4)}
	for i := range ends {
		for j := range ends {
			if i != j {
				segs = append(segs, model3d.NewSegment(ends[i], ends[j]))
			}
		}
	}
	corners := []c3{xyz(-1, -1, -1), xyz(0, 0, 0), xyz(0.5, 0.5, 0.25), xyz(1, 1, 1), xyz(2, 2, 2), xyz(2.5, 2.5, 2.5), xyz(3.5, 3.5, 3.5)}
	for i := range corners {
		for j := i; j < len(corners); j++ {
			rects = append(rects, model3d.NewRect(corners[i], corners[j]))
		}
	}
	rects = append(rects, model3d.NewRect(xyz(0.2, 0.2, -0.5), xyz(0.4, 0.4, 0.5)), model3d.NewRect(xyz(1, -1, -1), xyz(1, 3, 3)), model3d.NewRect(xyz(0.6, 0.6, 0.1), xyz(0.7, 0.7, 0.2)))
	qv := []c3{xyz(-1, 0.5, 0.5), xyz(3, 0.5, 0.5), xyz(0.5, 3, 0.7), xyz(0.5, 0.5, -1), xyz(0.5, 0.5, 3), xyz(1.5, 0.2, 0.3), xyz(2.7, 2.7, 2)}
	for i := range qv {
		for j := i + 1; j < len(qv); j++ {
			for k := j + 1; k < len(qv); k++ {
				qtris = append(qtris, &model3d.Triangle{qv[i], qv[j], qv[k]})
			}
		}
	}
}

type rcKey struct{ s, nx, ny, nz float64 }

func sortedHits(h []model3d.RayCollision) []rcKey {
	out := make([]rcKey, len(h))
	for i, c := range h {
		out[i] = rcKey{c.Scale, c.Normal.X, c.Normal.Y, c.Normal.Z}
	}
	sort.Slice(out, func(i, j int) bool {
		a, b := out[i], out[j]
		if a.s != b.s {
			return a.s < b.s
		}
		if a.nx != b.nx {
			return a.nx < b.nx
		}
		if a.ny != b.ny {
			return a.ny < b.ny
		}
		return a.nz < b.nz
	})
	return out
}

func segKey(s model3d.Segment) [6]float64 {
	a, b := s[0], s[1]
	if b.X < a.X || (b.X == a.X && (b.Y < a.Y || (b.Y == a.Y && b.Z < a.Z))) {
		a, b = b, a
	}
	return [6]float64{a.X, a.Y, a.Z, b.X, b.Y, b.Z}
}

func sortedSegs(ss []model3d.Segment) [][6]float64 {
	out := make([][6]float64, len(ss))
	for i, s := range ss {
		out[i] = segKey(s)
	}
	sort.Slice(out, func(i, j int) bool {
		for k := 0; k < 6; k++ {
			if out[i][k] != out[j][k] {
				return out[i][k] < out[j][k]
			}
		}
		return false
	})
	return out
}

func arr(c c3) []float64 { return []float64{c.X, c.Y, c.Z} }

type triIndex struct {
	name string
	mc   model3d.MultiCollider
}

func buildTriIndexes(tris []*model3d.Triangle) []triIndex {
	var out []triIndex
	g := append([]*model3d.Triangle{}, tris...)
	model3d.GroupTriangles(g)
	out = append(out, triIndex{"GroupedTrianglesToCollider(GroupTriangles)", model3d.GroupedTrianglesToCollider(g)})
	out = append(out, triIndex{"GroupedTrianglesToCollider(input order)", model3d.GroupedTrianglesToCollider(append([]*model3d.Triangle{}, tris...))})
	if len(tris) > 0 {
		out = append(out, triIndex{"BVHToCollider(NewBVHAreaDensity)", model3d.BVHToCollider(model3d.NewBVHAreaDensity(append([]*model3d.Triangle{}, tris...)))})
	}
	m := model3d.NewMesh()
	for _, t := range tris {
		m.Add(t)
	}
	out = append(out, triIndex{"MeshToCollider", model3d.MeshToCollider(m)})
	// the same halving over a list of colliders (here: the triangles themselves, grouped and in input order)
	for _, v := range []struct {
		name string
		ts   []*model3d.Triangle
	}{{"GroupedCollidersToCollider(GroupTriangles)", g}, {"GroupedCollidersToCollider(input order)", tris}} {
		cs := make([]model3d.Collider, len(v.ts))
		for i, t := range v.ts {
			cs[i] = t
		}
		if mc, ok := model3d.GroupedCollidersToCollider(cs).(model3d.MultiCollider); ok {
			out = append(out, triIndex{v.name, mc})
		}
	}
	return out
}

// ---- two hierarchies built over the same child ----
//
// A joined collider that is built from an existing one may flatten it; a second hierarchy built from the same
// child must not disturb the first. For every triangle set (as a child index of each constructor) and every pair
// of extra triangles: parent A = NewJoinedCollider(child, extraA) is queried, parent B = NewJoinedCollider(child,
// extraB) is built, and A must still give the linear-scan answers over child + extraA (and B over child + extraB).
func checkSharedChild(r *ev.Run, set []int) {
	tris := make([]*model3d.Triangle, len(set))
	for i, k := range set {
		t := triAlphabet[k]
		tris[i] = &model3d.Triangle{t[0], t[1], t[2]}
	}
	extras := []*model3d.Triangle{
		{xyz(0.5, 0.5, 0.25), xyz(1.5, 0.5, 0.5), xyz(0.5, 1.5, 0.75)},
		{xyz(0.25, 1.25, 0.5), xyz(1.75, 1.5, 0.25), xyz(1, 0.25, 0.9)},
		{xyz(3, 3, 3), xyz(4, 3, 3), xyz(3, 4, 3.5)}, // outside the child's bounds
	}
	scan := func(ts []*model3d.Triangle, ray *model3d.Ray) (int, float64) {
		n, first := 0, math.Inf(1)
		for _, t := range ts {
			t.RayCollisions(ray, func(rc model3d.RayCollision) {
				n++
				first = math.Min(first, rc.Scale)
			})
		}
		return n, first
	}
	for _, child := range buildTriIndexes(tris) {
		for ea := range extras {
			for eb := range extras {
				if ea == eb {
					continue
				}
				a := model3d.NewJoinedCollider([]model3d.Collider{child.mc, extras[ea]})
				b := model3d.NewJoinedCollider([]model3d.Collider{child.mc, extras[eb]})
				for pi, parent := range []*model3d.JoinedCollider{a, b} {
					own := append(append([]*model3d.Triangle{}, tris...), extras[[]int{ea, eb}[pi]])
					for oi, o := range rayOrigins {
						for di := oi % 5; di < len(rayDirs); di += 5 {
							ray := &model3d.Ray{Origin: o, Direction: rayDirs[di]}
							r.Eval(1)
							wn, wf := scan(own, ray)
							gn := parent.RayCollisions(ray, nil)
							gf, ok := parent.FirstRayCollision(ray)
							if gn != wn || ok != (wn > 0) || (ok && gf.Scale != wf) {
								r.Violation("NewJoinedCollider/shared-child", fmt.Sprintf("triangles %v as %s: parent %d of two built over this child (extras %d and %d): ray %v -> %v gives %d collisions, first %v %g; linear scan %d, first %g",
									set, child.name, pi, ea, eb, o, ray.Direction, gn, ok, gf.Scale, wn, wf), qcase{"NewJoinedCollider(shared child)", set, "rays", [][]float64{arr(o), arr(ray.Direction)}, nil})
								return
							}
						}
					}
				}
			}
		}
	}
	r.NontrivialAdd(1)
}

func checkPermutation(r *ev.Run, what string, in, out []*model3d.Triangle, set []int) {
	cnt := map[*model3d.Triangle]int{}
	for _, t := range in {
		cnt[t]++
	}
	for _, t := range out {
		cnt[t]--
	}
	bad := len(in) != len(out)
	for _, v := range cnt {
		if v != 0 {
			bad = true
		}
	}
	if bad {
		r.Violation("permutation/"+what, fmt.Sprintf("%s of triangle set %v is not a permutation of its input (%d in, %d out)", what, set, len(in), len(out)), qcase{what, set, "permutation", nil, nil})
	}
}

func bvhLeaves(b *model3d.BVH[*model3d.Triangle], out *[]*model3d.Triangle) {
	if b.Leaf != nil {
		*out = append(*out, b.Leaf)
		return
	}
	for _, ch := range b.Branch {
		bvhLeaves(ch, out)
	}
}

func checkTriSet(r *ev.Run, set []int, rayStride int, pl place) {
	tris := make([]*model3d.Triangle, len(set))
	for i, k := range set {
		t := triAlphabet[k]
		tris[i] = &model3d.Triangle{pl.pt(t[0]), pl.pt(t[1]), pl.pt(t[2])}
	}
	// construction only reorders
	g := append([]*model3d.Triangle{}, tris...)
	model3d.GroupTriangles(g)
	checkPermutation(r, "GroupTriangles", tris, g, set)
	gb := append([]*model3d.Triangle{}, tris...)
	model3d.GroupBounders(gb)
	checkPermutation(r, "GroupBounders", tris, gb, set)
	if len(tris) > 0 {
		var leaves []*model3d.Triangle
		bvhLeaves(model3d.NewBVHAreaDensity(append([]*model3d.Triangle{}, tris...)), &leaves)
		checkPermutation(r, "NewBVHAreaDensity", tris, leaves, set)
	}
	idx := buildTriIndexes(tris)
	viol := func(ix, kind, msg string, args ...[]float64) {
		r.Violation(ix+"/"+kind, fmt.Sprintf("triangles %v: %s", set, msg), qcase{ix, set, kind, args, pl.arr()})
	}
	pruned := false
	// rays
	for oi, o0 := range rayOrigins {
		o := pl.pt(o0)
		for di := oi % rayStride; di < len(rayDirs); di += rayStride {
			ray := &model3d.Ray{Origin: o, Direction: rayDirs[di]}
			var brute []model3d.RayCollision
			for _, t := range tris {
				t.RayCollisions(ray, func(rc model3d.RayCollision) { brute = append(brute, rc) })
			}
			bs := sortedHits(brute)
			for _, ix := range idx {
				r.Eval(1)
				var hits []model3d.RayCollision
				n := ix.mc.RayCollisions(ray, func(rc model3d.RayCollision) { hits = append(hits, rc) })
				hs := sortedHits(hits)
				same := n == len(hits) && len(hs) == len(bs)
				for i := 0; same && i < len(hs); i++ {
					same = hs[i] == bs[i]
				}
				if !same {
					viol(ix.name, "RayCollisions", fmt.Sprintf("ray %v -> %v: index reports %d collisions (count %d) %v, linear scan %d %v", o, ray.Direction, len(hits), n, hs, len(bs), bs), arr(o), arr(ray.Direction))
				}
				if n0 := ix.mc.RayCollisions(ray, nil); n0 != len(bs) {
					viol(ix.name, "RayCollisions-count", fmt.Sprintf("ray %v -> %v: count with nil callback %d, linear scan %d", o, ray.Direction, n0, len(bs)), arr(o), arr(ray.Direction))
				}
				first, ok := ix.mc.FirstRayCollision(ray)
				if ok != (len(bs) > 0) || (ok && first.Scale != bs[0].s) {
					viol(ix.name, "FirstRayCollision", fmt.Sprintf("ray %v -> %v: first=%v scale %v, linear scan: %d hits, nearest %v", o, ray.Direction, ok, first.Scale, len(bs), bs), arr(o), arr(ray.Direction))
				}
				if len(bs) < len(tris) {
					pruned = true
				}
			}
		}
	}
	// balls: radius exactly the distance to each triangle, just below, just above, and fixed
	for _, c0 := range ballCenters {
		c := pl.pt(c0)
		radii := []float64{0.1 * pl.k, 0.5 * pl.k, 2 * pl.k}
		for _, t := range tris {
			d := t.Dist(c)
			radii = append(radii, d, d*(1-1e-9), d*(1+1e-9))
		}
		for _, rad := range radii {
			want := false
			for _, t := range tris {
				if t.SphereCollision(c, rad) {
					want = true
				}
			}
			for _, ix := range idx {
				r.Eval(1)
				if got := ix.mc.SphereCollision(c, rad); got != want {
					viol(ix.name, "SphereCollision", fmt.Sprintf("ball %v r=%v: index %v, linear scan %v", c, rad, got, want), arr(c), []float64{rad})
				}
			}
		}
	}
	// balls that touch a triangle corner exactly, from an axis direction: centre = corner +- r e_axis with dyadic r,
	// so that the squared distance to the corner - and to the bounding box whenever the corner is extreme in that
	// direction - equals r*r without rounding (tangent balls must not be pruned)
	for _, t := range tris {
		for k := 0; k < 3; k++ {
			for ax := 0; ax < 3; ax++ {
				for _, sg := range []float64{1, -1} {
					for _, rad := range []float64{0.5 * pl.k, 1 * pl.k} {
						var off [3]float64
						off[ax] = sg * rad
						c := t[k].Add(xyz(off[0], off[1], off[2]))
						want := false
						for _, t2 := range tris {
							if t2.SphereCollision(c, rad) {
								want = true
							}
						}
						for _, ix := range idx {
							r.Eval(1)
							if got := ix.mc.SphereCollision(c, rad); got != want {
								viol(ix.name, "SphereCollision", fmt.Sprintf("ball %v r=%v touching corner %v: index %v, linear scan %v", c, rad, t[k], got, want), arr(c), []float64{rad})
							}
						}
					}
				}
			}
		}
	}
	for _, s0 := range segs {
		s := model3d.NewSegment(pl.pt(s0[0]), pl.pt(s0[1]))
		want := false
		for _, t := range tris {
			if t.SegmentCollision(s) {
				want = true
			}
		}
		for _, ix := range idx {
			r.Eval(1)
			if got := ix.mc.SegmentCollision(s); got != want {
				viol(ix.name, "SegmentCollision", fmt.Sprintf("segment %v: index %v, linear scan %v", s, got, want), arr(s[0]), arr(s[1]))
			}
		}
	}
	for _, rc0 := range rects {
		rc := model3d.NewRect(pl.pt(rc0.MinVal), pl.pt(rc0.MaxVal))
		want := false
		for _, t := range tris {
			if t.RectCollision(rc) {
				want = true
			}
		}
		for _, ix := range idx {
			r.Eval(1)
			if got := ix.mc.RectCollision(rc); got != want {
				viol(ix.name, "RectCollision", fmt.Sprintf("box %v..%v: index %v, linear scan %v", rc.MinVal, rc.MaxVal, got, want), arr(rc.MinVal), arr(rc.MaxVal))
			}
		}
	}
	for _, q0 := range qtris {
		q := &model3d.Triangle{pl.pt(q0[0]), pl.pt(q0[1]), pl.pt(q0[2])}
		var brute []model3d.Segment
		for _, t := range tris {
			brute = append(brute, t.TriangleCollisions(q)...)
		}
		bs := sortedSegs(brute)
		for _, ix := range idx {
			r.Eval(1)
			hs := sortedSegs(ix.mc.TriangleCollisions(q))
			same := len(hs) == len(bs)
			for i := 0; same && i < len(hs); i++ {
				same = hs[i] == bs[i]
			}
			if !same {
				viol(ix.name, "TriangleCollisions", fmt.Sprintf("query triangle %v: index returns %d intersection segments, linear scan %d", *q, len(hs), len(bs)), arr(q[0]), arr(q[1]), arr(q[2]))
			}
		}
	}
	// nearest-surface queries
	if len(tris) > 0 {
		g2 := append([]*model3d.Triangle{}, tris...)
		model3d.GroupTriangles(g2)
		m := model3d.NewMesh()
		for _, t := range tris {
			m.Add(t)
		}
		sdfs := []struct {
			name string
			s    model3d.FaceSDF
		}{{"GroupedTrianglesToSDF(GroupTriangles)", model3d.GroupedTrianglesToSDF(g2)}, {"GroupedTrianglesToSDF(input order)", model3d.GroupedTrianglesToSDF(append([]*model3d.Triangle{}, tris...))}, {"MeshToSDF", model3d.MeshToSDF(m)}}
		pts := append(append([]c3{}, ballCenters...), xyz(1, 1, 0.5), xyz(1, 0, 0), xyz(0.5, 0.5, 0), xyz(2, 2, 2), xyz(1, 1, 1))
		for _, p0 := range pts {
			p := pl.pt(p0)
			want := math.Inf(1)
			for _, t := range tris {
				if d := t.Closest(p).Dist(p); d < want {
					want = d
				}
			}
			for _, sd := range sdfs {
				r.Eval(1)
				face, q, d := sd.s.FaceSDF(p)
				if math.Abs(d) != want {
					viol(sd.name, "nearest-distance", fmt.Sprintf("point %v: |SDF|=%v, minimum over the triangles %v", p, math.Abs(d), want), arr(p))
					continue
				}
				if face == nil || face.Closest(p).Dist(p) != want || q.Dist(p) != want {
					viol(sd.name, "nearest-face", fmt.Sprintf("point %v: reported face/point do not attain the minimum distance %v", p, want), arr(p))
				}
				if q2, d2 := sd.s.PointSDF(p); d2 != d || q2 != q {
					viol(sd.name, "PointSDF", fmt.Sprintf("point %v: PointSDF (%v,%v) differs from FaceSDF (%v,%v)", p, q2, d2, q, d), arr(p))
				}
				if d3 := sd.s.SDF(p); d3 != d {
					viol(sd.name, "SDF", fmt.Sprintf("point %v: SDF %v differs from FaceSDF %v", p, d3, d), arr(p))
				}
			}
		}
	}
	if pruned && len(set) > 1 {
		r.NontrivialKey(fmt.Sprint("tri", set, pl.arr()))
	}
}

// ---------------------------------------------------------------- point trees

var ptAlphabet = []c3{xyz(0, 0, 0), xyz(1, 0, 0), xyz(1, 1, 0), xyz(0, 2, 1), xyz(1, 1, 1), xyz(2, 1, 1), xyz(2, 2, 2), xyz(1, 2, 0), xyz(0.3, 1.7, 0.9), xyz(1.6, 0.4, 1.2), xyz(0.9, 1.1, 0.95)}

func checkPointSet(r *ev.Run, set []int, queries []c3) {
	pts := make([]c3, len(set))
	for i, k := range set {
		pts[i] = ptAlphabet[k]
	}
	tree := model3d.NewCoordTree(append([]c3{}, pts...))
	viol := func(kind, msg string, args ...[]float64) {
		r.Violation("CoordTree/"+kind, fmt.Sprintf("points %v: %s", pts, msg), qcase{"CoordTree", set, kind, args, nil})
	}
	// Slice is a permutation
	cnt := map[c3]int{}
	for _, p := range pts {
		cnt[p]++
	}
	sl := tree.Slice()
	for _, p := range sl {
		cnt[p]--
	}
	okPerm := len(sl) == len(pts)
	for _, v := range cnt {
		if v != 0 {
			okPerm = false
		}
	}
	if !okPerm {
		viol("Slice", fmt.Sprintf("Slice() %v is not a permutation of the input", sl))
	}
	if tree.Empty() != (len(pts) == 0) {
		viol("Empty", "Empty() wrong")
	}
	if tree.Leaf() != (len(pts) <= 1) {
		viol("Leaf", fmt.Sprintf("Leaf()=%v for %d points (documented: true iff the tree contains one point or none)", tree.Leaf(), len(pts)))
	}
	for _, q := range queries {
		r.Eval(1)
		want := false
		ds := make([]float64, len(pts))
		for i, p := range pts {
			if p == q {
				want = true
			}
			ds[i] = q.SquaredDist(p)
		}
		sort.Float64s(ds)
		if got := tree.Contains(q); got != want {
			viol("Contains", fmt.Sprintf("Contains(%v)=%v, linear scan %v", q, got, want), arr(q))
		}
		if len(pts) > 0 {
			nn := tree.NearestNeighbor(q)
			if q.SquaredDist(nn) != ds[0] || cntOf(pts, nn) == 0 {
				viol("NearestNeighbor", fmt.Sprintf("NearestNeighbor(%v)=%v at squared distance %v, linear scan minimum %v", q, nn, q.SquaredDist(nn), ds[0]), arr(q))
			}
			if d := tree.Dist(q); d != math.Sqrt(ds[0]) && d != nn.Dist(q) {
				viol("Dist", fmt.Sprintf("Dist(%v)=%v, want %v", q, d, math.Sqrt(ds[0])), arr(q))
			}
		}
		for k := 0; k <= len(pts)+1; k++ {
			res := tree.KNN(k, q)
			wantN := k
			if wantN > len(pts) {
				wantN = len(pts)
			}
			bad := len(res) != wantN
			use := map[c3]int{}
			for i := 0; !bad && i < len(res); i++ {
				if q.SquaredDist(res[i]) != ds[i] {
					bad = true
				}
				use[res[i]]++
				if use[res[i]] > cntOf(pts, res[i]) {
					bad = true
				}
			}
			if bad {
				viol("KNN", fmt.Sprintf("KNN(%d,%v)=%v, sorted squared distances of the linear scan %v", k, q, res, ds), arr(q), []float64{float64(k)})
			}
		}
		radii := []float64{0, 0.25, 0.5, 1, 1.5, 2, 2.5, 3}
		for _, d2 := range ds {
			d := math.Sqrt(d2)
			radii = append(radii, d, d*(1-1e-9), d*(1+1e-9))
		}
		for _, rad := range radii {
			w := false
			for _, p := range pts {
				if q.SquaredDist(p) <= rad*rad {
					w = true
				}
			}
			if got := tree.SphereCollision(q, rad); got != w {
				viol("SphereCollision", fmt.Sprintf("SphereCollision(%v,%v)=%v, linear scan %v", q, rad, got, w), arr(q), []float64{rad})
			}
		}
	}
	if len(set) >= 3 {
		r.NontrivialKey(fmt.Sprint("pts", set))
	}
}

func cntOf(pts []c3, p c3) int {
	n := 0
	for _, x := range pts {
		if x == p {
			n++
		}
	}
	return n
}

// 2D point tree
var pt2Alphabet = []model2d.Coord{{X: 0, Y: 0}, {X: 1, Y: 0}, {X: 1, Y: 1}, {X: 0, Y: 2}, {X: 2, Y: 1}, {X: 2, Y: 2}, {X: 1, Y: 2}, {X: 0.3, Y: 1.7}, {X: 1.6, Y: 0.4}, {X: 0.9, Y: 1.1}, {X: 1.1, Y: 0.8}}

func checkPointSet2(r *ev.Run, set []int) {
	pts := make([]model2d.Coord, len(set))
	for i, k := range set {
		pts[i] = pt2Alphabet[k]
	}
	tree := model2d.NewCoordTree(append([]model2d.Coord{}, pts...))
	viol := func(kind, msg string) {
		r.Violation("2d.CoordTree/"+kind, fmt.Sprintf("points %v: %s", pts, msg), qcase{"2d.CoordTree", set, kind, nil, nil})
	}
	if sl := tree.Slice(); len(sl) != len(pts) {
		viol("Slice", "Slice() has the wrong length")
	}
	if tree.Empty() != (len(pts) == 0) || tree.Leaf() != (len(pts) <= 1) {
		viol("Leaf", fmt.Sprintf("Empty()=%v Leaf()=%v for %d points", tree.Empty(), tree.Leaf(), len(pts)))
	}
	for x := -0.5; x <= 2.5; x += 0.125 {
		for y := -0.5; y <= 2.5; y += 0.125 {
			q := model2d.XY(x, y)
			r.Eval(1)
			want := false
			ds := make([]float64, len(pts))
			for i, p := range pts {
				if p == q {
					want = true
				}
				ds[i] = q.SquaredDist(p)
			}
			sort.Float64s(ds)
			if tree.Contains(q) != want {
				viol("Contains", fmt.Sprintf("Contains(%v) differs from the linear scan", q))
			}
			if len(pts) > 0 {
				if nn := tree.NearestNeighbor(q); q.SquaredDist(nn) != ds[0] {
					viol("NearestNeighbor", fmt.Sprintf("NearestNeighbor(%v)=%v is not at the minimum distance", q, nn))
				}
			}
			for k := 1; k <= len(pts)+1; k++ {
				res := tree.KNN(k, q)
				wantN := k
				if wantN > len(pts) {
					wantN = len(pts)
				}
				bad := len(res) != wantN
				for i := 0; !bad && i < len(res); i++ {
					bad = q.SquaredDist(res[i]) != ds[i]
				}
				if bad {
					viol("KNN", fmt.Sprintf("KNN(%d,%v)=%v, sorted squared distances %v", k, q, res, ds))
				}
			}
			radii := []float64{0, 0.5, 1, 2}
			for _, d2 := range ds {
				radii = append(radii, math.Sqrt(d2), math.Sqrt(d2)*(1-1e-9), math.Sqrt(d2)*(1+1e-9))
			}
			for _, rad := range radii {
				w := false
				for _, p := range pts {
					if q.SquaredDist(p) <= rad*rad {
						w = true
					}
				}
				if tree.SphereCollision(q, rad) != w {
					viol("SphereCollision", fmt.Sprintf("SphereCollision(%v,%v) differs from the linear scan", q, rad))
				}
			}
		}
	}
}

// 2D segment meshes
var segAlphabet = [][2]model2d.Coord{
	{{X: 0, Y: 0}, {X: 2, Y: 0}}, // flat in y
	{{X: 1, Y: 0}, {X: 1, Y: 2}}, // flat in x
	{{X: 0, Y: 0}, {X: 2, Y: 0}}, // duplicate
	{{X: 0, Y: 0}, {X: 2, Y: 2}},
	{{X: 0, Y: 2}, {X: 2, Y: 0}}, // same bounds as previous
	{{X: 0.3, Y: 1.1}, {X: 1.7, Y: 1.9}},
	{{X: 2.5, Y: 2.5}, {X: 3, Y: 2.2}},
}

func checkSegSet(r *ev.Run, set []int) {
	ss := make([]*model2d.Segment, len(set))
	m := model2d.NewMesh()
	for i, k := range set {
		ss[i] = &model2d.Segment{segAlphabet[k][0], segAlphabet[k][1]}
		m.Add(ss[i])
	}
	g := append([]*model2d.Segment{}, ss...)
	model2d.GroupSegments(g)
	idx := []struct {
		name string
		c    model2d.MultiCollider
	}{{"2d.MeshToCollider", model2d.MeshToCollider(m)}, {"2d.GroupedSegmentsToCollider", model2d.GroupedSegmentsToCollider(g)}}
	if len(ss) > 0 {
		idx = append(idx, struct {
			name string
			c    model2d.MultiCollider
		}{"2d.BVHToCollider", model2d.BVHToCollider(model2d.NewBVHAreaDensity(append([]*model2d.Segment{}, ss...)))})
	}
	viol := func(ix, kind, msg string) {
		r.Violation(ix+"/"+kind, fmt.Sprintf("segments %v: %s", set, msg), qcase{ix, set, kind, nil, nil})
	}
	var dirs []model2d.Coord
	for x := -1; x <= 1; x++ {
		for y := -1; y <= 1; y++ {
			if x != 0 || y != 0 {
				dirs = append(dirs, model2d.XY(float64(x), float64(y)))
			}
		}
	}
	dirs = append(dirs, model2d.XY(0.3, 1), model2d.XY(-0.7, 0.2), model2d.XY(2, 1))
	dirs = append(dirs, model2d.XY(-1, math.Copysign(0, -1)), model2d.XY(math.Copysign(0, -1), 1))
	for x := -1.0; x <= 3.5; x += 0.5 {
		for y := -1.0; y <= 3; y += 0.5 {
			o := model2d.XY(x, y)
			for _, d := range dirs {
				ray := &model2d.Ray{Origin: o, Direction: d}
				var bs []float64
				for _, s := range ss {
					s.RayCollisions(ray, func(rc model2d.RayCollision) { bs = append(bs, rc.Scale) })
				}
				sort.Float64s(bs)
				for _, ix := range idx {
					r.Eval(1)
					var hs []float64
					n := ix.c.RayCollisions(ray, func(rc model2d.RayCollision) { hs = append(hs, rc.Scale) })
					sort.Float64s(hs)
					same := n == len(hs) && len(hs) == len(bs)
					for i := 0; same && i < len(hs); i++ {
						same = hs[i] == bs[i]
					}
					if !same {
						viol(ix.name, "RayCollisions", fmt.Sprintf("ray %v -> %v: index %v, linear scan %v", o, d, hs, bs))
					}
					f, ok := ix.c.FirstRayCollision(ray)
					if ok != (len(bs) > 0) || (ok && f.Scale != bs[0]) {
						viol(ix.name, "FirstRayCollision", fmt.Sprintf("ray %v -> %v: first %v/%v, linear scan %v", o, d, ok, f.Scale, bs))
					}
				}
			}
			radii := []float64{0.25, 1}
			for _, s := range ss {
				dd := s.Dist(o)
				radii = append(radii, dd, dd*(1-1e-9), dd*(1+1e-9))
			}
			for _, rad := range radii {
				w := false
				for _, s := range ss {
					if s.CircleCollision(o, rad) {
						w = true
					}
				}
				for _, ix := range idx {
					r.Eval(1)
					if ix.c.CircleCollision(o, rad) != w {
						viol(ix.name, "CircleCollision", fmt.Sprintf("circle %v r=%v: index differs from the linear scan (%v)", o, rad, w))
					}
				}
			}
			if len(ss) > 0 {
				want := math.Inf(1)
				for _, s := range ss {
					if dd := s.Closest(o).Dist(o); dd < want {
						want = dd
					}
				}
				r.Eval(1)
				if d := model2d.MeshToSDF(m).SDF(o); math.Abs(d) != want {
					viol("2d.MeshToSDF", "nearest-distance", fmt.Sprintf("point %v: |SDF|=%v, minimum over segments %v", o, math.Abs(d), want))
				}
				if d := model2d.GroupedSegmentsToSDF(g).SDF(o); math.Abs(d) != want {
					viol("2d.GroupedSegmentsToSDF", "nearest-distance", fmt.Sprintf("point %v: |SDF|=%v, minimum over segments %v", o, math.Abs(d), want))
				}
				if d := model2d.GroupedSegmentsToSDF(append([]*model2d.Segment{}, ss...)).SDF(o); math.Abs(d) != want {
					viol("2d.GroupedSegmentsToSDF(input order)", "nearest-distance", fmt.Sprintf("point %v: |SDF|=%v, minimum over segments %v", o, math.Abs(d), want))
				}
			}
		}
	}
}

// ---------------------------------------------------------------- render objects

type tagMaterial struct {
	render3d.LambertMaterial
	tag int
}

func objAlphabet() []render3d.Object {
	mk := func(c model3d.Collider, tag int) render3d.Object {
		return &render3d.ColliderObject{Collider: c, Material: &tagMaterial{tag: tag}}
	}
	return []render3d.Object{
		mk(&model3d.Sphere{Center: xyz(0, 0, 0), Radius: 0.5}, 0),
		mk(&model3d.Sphere{Center: xyz(2, 0, 0), Radius: 0.5}, 1),
		mk(&model3d.Sphere{Center: xyz(2, 0, 0), Radius: 0.5}, 2),             // duplicate geometry
		mk(&model3d.Sphere{Center: xyz(1, 0, 0), Radius: 1}, 3),               // overlaps 0 and 1
		mk(&model3d.Triangle{xyz(-1, -1, 1), xyz(3, -1, 1), xyz(1, 3, 1)}, 4), // flat box
		mk(&model3d.Sphere{Center: xyz(6, 0.2, 0.1), Radius: 0.5}, 5),         // far right: the joint box is long and contains many origins
		mk(&model3d.Sphere{Center: xyz(0, 4, 0), Radius: 0.75}, 6),
	}
}

func checkObjSet(r *ev.Run, set []int, alpha []render3d.Object) {
	objs := make([]render3d.Object, len(set))
	for i, k := range set {
		objs[i] = alpha[k]
	}
	g := append([]render3d.Object{}, objs...)
	model3d.GroupBounders(g)
	idx := []struct {
		name string
		o    render3d.Object
	}{
		{"BVHToObject(NewBVHAreaDensity)", render3d.BVHToObject(model3d.NewBVHAreaDensity(append([]render3d.Object{}, objs...)))},
		{"JoinedObject", render3d.JoinedObject(objs)},
		{"FilteredObject(JoinedObject)", &render3d.FilteredObject{Object: render3d.JoinedObject(objs), Bounds: model3d.BoundsRect(render3d.JoinedObject(objs))}},
	}
	var origins []c3
	for _, x := range []float64{-2, 0, 1, 2, 3.5, 6, 8} {
		for _, y := range []float64{-2, 0, 0.2, 2, 4} {
			for _, z := range []float64{-2, 0, 0.9, 3} {
				origins = append(origins, xyz(x, y, z))
			}
		}
	}
	for _, o := range origins {
		for _, d := range rayDirs {
			ray := &model3d.Ray{Origin: o, Direction: d}
			best := math.Inf(1)
			found := false
			for _, ob := range objs {
				if c, _, ok := ob.Cast(ray); ok && c.Scale < best {
					best, found = c.Scale, true
				}
			}
			for _, ix := range idx {
				r.Eval(1)
				c, mat, ok := ix.o.Cast(ray)
				if ok != found || (ok && c.Scale != best) {
					r.Violation(ix.name+"/Cast", fmt.Sprintf("objects %v, ray %v -> %v: hierarchy hit=%v at %v, nearest hit among the parts=%v at %v", set, o, d, ok, c.Scale, found, best),
						qcase{ix.name, set, "Cast", [][]float64{arr(o), arr(d)}, nil})
					continue
				}
				if ok {
					// the material must belong to a part that is hit at that distance
					tm, _ := mat.(*tagMaterial)
					good := false
					for _, ob := range objs {
						if c2, m2, ok2 := ob.Cast(ray); ok2 && c2.Scale == best && m2 == render3d.Material(tm) {
							good = true
						}
					}
					if tm == nil || !good {
						r.Violation(ix.name+"/Cast-material", fmt.Sprintf("objects %v, ray %v -> %v: material does not belong to a part hit at the nearest distance", set, o, d),
							qcase{ix.name, set, "Cast", [][]float64{arr(o), arr(d)}, nil})
					}
				}
			}
		}
	}
	if len(set) >= 2 {
		r.NontrivialKey(fmt.Sprint("obj", set))
	}
}

// ---------------------------------------------------------------- main

func main() {
	r := ev.Start("C08", "exploration")
	r.Rule("distinct_nontrivial = triangle sets with >= 2 members for which some ray misses at least one member (so a subtree could be pruned), point sets with >= 3 points, object sets with >= 2 objects")
	r.Assume("the linear scan uses the same per-object primitive as the index (Triangle.RayCollisions, Triangle.Closest, SquaredDist, Object.Cast), so only pruning and bookkeeping are judged and comparisons are exact",
		"ties are compared by distance, not by identity")
	maxTri, maxPts, maxObj := 4, 4, 3
	if r.Thorough() {
		maxTri, maxPts, maxObj = 5, 5, 4
	}
	if r.Replay != "" {
		var c qcase
		r.LoadReplay(&c)
		switch {
		case c.Index == "CoordTree":
			checkPointSet(r, c.Objects, queriesFine3())
		case c.Index == "2d.CoordTree":
			checkPointSet2(r, c.Objects)
		case len(c.Index) > 3 && c.Index[:3] == "2d.":
			checkSegSet(r, c.Objects)
		case c.Index == "NewJoinedCollider(shared child)":
			checkSharedChild(r, c.Objects)
		case c.Query == "Cast":
			checkObjSet(r, c.Objects, objAlphabet())
		default:
			pl := identityPlace
			if len(c.Place) == 4 {
				pl = place{c.Place[0], xyz(c.Place[1], c.Place[2], c.Place[3])}
			}
			checkTriSet(r, c.Objects, 1, pl)
		}
		r.Finish()
	}
	r.Isolate("triangles", func() {
		var sets [][]int
		seen := map[string]bool{}
		add := func(s []int) {
			k := fmt.Sprint(s)
			if !seen[k] {
				seen[k] = true
				sets = append(sets, append([]int{}, s...))
			}
		}
		sequences(len(triAlphabet), 3, add)
		multisets(len(triAlphabet), maxTri, add)
		stride := 3
		if r.Thorough() {
			stride = 1
		}
		ev.Parallel(len(sets), 0, func(i int) { checkTriSet(r, sets[i], stride, identityPlace) })
		// every 9th set (thorough: every 3rd) again at four placements: tiny, large, far from the origin, tiny and moved
		pstep := 9
		if r.Thorough() {
			pstep = 3
		}
		var placed [][]int
		for i := 0; i < len(sets); i += pstep {
			placed = append(placed, sets[i])
		}
		ev.Parallel(len(placed)*len(triPlaces), 0, func(i int) { checkTriSet(r, placed[i/len(triPlaces)], 3, triPlaces[i%len(triPlaces)]) })
		r.Set("placed_triangle_sets", len(placed)*len(triPlaces))
		r.Set("triangle_sets", len(sets))
		// two parents over one child: sets of 2..6 triangles (the capacity of the child's list matters)
		var shared [][]int
		multisets(len(triAlphabet), 6, func(s []int) {
			if len(s) >= 2 && (len(s) <= 4 || r.Thorough() || len(shared)%7 == 0) {
				shared = append(shared, append([]int{}, s...))
			}
		})
		ev.Parallel(len(shared), 0, func(i int) { checkSharedChild(r, shared[i]) })
		r.Set("shared_child_sets", len(shared))
		r.Sample(qcase{"MeshToCollider", []int{0, 3, 5}, "RayCollisions", [][]float64{{-1, 0, 0}, {1, 0, 0}}, nil})
	})
	r.Isolate("points", func() {
		var sets [][]int
		multisets(len(ptAlphabet), maxPts, func(s []int) { sets = append(sets, append([]int{}, s...)) })
		sequences(len(ptAlphabet), 3, func(s []int) { sets = append(sets, append([]int{}, s...)) })
		q, qFine := queries3(), queriesFine3()
		ev.Parallel(len(sets), 0, func(i int) {
			if len(sets[i]) <= 3 {
				checkPointSet(r, sets[i], qFine)
			} else {
				checkPointSet(r, sets[i], q)
			}
		})
		r.Set("point_sets", len(sets))
		var s2 [][]int
		multisets(len(pt2Alphabet), maxPts+1, func(s []int) { s2 = append(s2, append([]int{}, s...)) })
		sequences(len(pt2Alphabet), 3, func(s []int) { s2 = append(s2, append([]int{}, s...)) })
		ev.Parallel(len(s2), 0, func(i int) { checkPointSet2(r, s2[i]) })
		r.Sample(qcase{"CoordTree", []int{0, 2, 2, 6}, "KNN", [][]float64{{1, 1, 0.5}, {3}}, nil})
	})
	r.Isolate("segments2d", func() {
		var sets [][]int
		multisets(len(segAlphabet), maxTri, func(s []int) { sets = append(sets, append([]int{}, s...)) })
		sequences(len(segAlphabet), 3, func(s []int) { sets = append(sets, append([]int{}, s...)) })
		ev.Parallel(len(sets), 0, func(i int) { checkSegSet(r, sets[i]) })
		r.Set("segment_sets", len(sets))
	})
	r.Isolate("objects", func() {
		alpha := objAlphabet()
		var sets [][]int
		sequences(len(alpha), maxObj, func(s []int) {
			if len(s) > 0 {
				sets = append(sets, append([]int{}, s...))
			}
		})
		if !r.Thorough() {
			multisets(len(alpha), 4, func(s []int) {
				if len(s) == 4 {
					sets = append(sets, append([]int{}, s...))
				}
			})
		}
		ev.Parallel(len(sets), 0, func(i int) { checkObjSet(r, sets[i], alpha) })
		r.Set("object_sets", len(sets))
		r.Sample(qcase{"BVHToObject(NewBVHAreaDensity)", []int{0, 5, 3}, "Cast", [][]float64{{2, 0.2, 0}, {-1, 0, 0}}, nil})
	})
	r.Finish()
}

func queriesFine3() []c3 {
	var q []c3
	for x := -0.5; x <= 2.5; x += 0.25 {
		for y := -0.5; y <= 2.5; y += 0.25 {
			for z := -0.5; z <= 2.5; z += 0.25 {
				q = append(q, xyz(x, y, z))
			}
		}
	}
	return q
}

func queries3() []c3 {
	var q []c3
	for x := -0.5; x <= 2.5; x += 0.5 {
		for y := -0.5; y <= 2.5; y += 0.5 {
			for z := -0.5; z <= 2.5; z += 0.5 {
				q = append(q, xyz(x, y, z))
			}
		}
	}
	return q
}
