package main

import (
	"fmt"
	"sort"

	"github.com/unixpickle/model3d/model3d"
	"verif/lib/lat"
)

func keys(m *model3d.Mesh) []string {
	var out []string
	m.Iterate(func(t *model3d.Triangle) {
		best := ""
		for k := 0; k < 3; k++ {
			s := fmt.Sprint(t[k], t[(k+1)%3], t[(k+2)%3])
			if best == "" || s < best {
				best = s
			}
		}
		out = append(out, best)
	})
	sort.Strings(out)
	return out
}

func main() {
	bad, runs := 0, 0
	for bits := uint64(1); bits < 4096; bits += 3 {
		for _, clip := range []bool{true, false} {
			s := lat.NewSolid3(model3d.XYZ(0.1, -0.7, 2.3), 0.3, [3]int{3, 2, 2}, bits)
			mk := func() (k []string) {
				defer func() {
					if r := recover(); r != nil {
						k = []string{"panic"}
					}
				}()
				return keys((&model3d.DualContouring{S: model3d.SolidSurfaceEstimator{Solid: s}, Delta: 0.3, Repair: true, Clip: clip}).Mesh())
			}
			base := mk()
			for i := 0; i < 6; i++ {
				k := mk()
				runs++
				if fmt.Sprint(k) != fmt.Sprint(base) {
					bad++
					if bad < 5 {
						fmt.Printf("differs: bits %#x clip %v\n", bits, clip)
					}
					break
				}
			}
		}
	}
	fmt.Println("runs", runs, "bad", bad)
}
