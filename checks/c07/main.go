// C07: colliders report consistent ray and ball collisions.
// Full product of collider alphabet x ray alphabet x ball alphabet; oracle =
// reference surface crossings found by marching/bisecting the reference field.
package main

import (
	"fmt"
	"math"
	"sort"

	"github.com/unixpickle/model3d/model2d"
	"github.com/unixpickle/model3d/model3d"

	"verif/lib/cat"
	"verif/lib/ev"
	"verif/lib/lat"
	"verif/lib/ref"
	"verif/lib/topo"
)

type rayCase struct {
	Collider string    `json:"collider"`
	Origin   []float64 `json:"origin"`
	Dir      []float64 `json:"direction"`
	Ball     []float64 `json:"ball,omitempty"`
}

func family(name string) string {
	for i, c := range name {
		if c == '(' {
			return name[:i]
		}
	}
	return name
}

var dirs3 = func() []model3d.Coord3D {
	var out []model3d.Coord3D
	for x := -1; x <= 1; x++ {
		for y := -1; y <= 1; y++ {
			for z := -1; z <= 1; z++ {
				if x != 0 || y != 0 || z != 0 {
					out = append(out, model3d.XYZ(float64(x), float64(y), float64(z)))
				}
			}
		}
	}
	// flat rays whose zero components are IEEE negative zeros (what Scale(-1) or a mirror produces)
	nz := math.Copysign(0, -1)
	out = append(out, model3d.XYZ(1, 0, nz), model3d.XYZ(-1, nz, nz), model3d.XYZ(nz, -1, nz), model3d.XYZ(1, 1, nz), model3d.XYZ(nz, nz, 1), model3d.XYZ(nz, 1, -1), model3d.XYZ(-1, nz, 1))
	out = append(out, model3d.XYZ(0.3, 1, 0.2), model3d.XYZ(-math.Sqrt2, 0.1, math.Pi/3), model3d.XYZ(0.01, -0.7, 0.71), model3d.XYZ(1, 1e-3, -1e-3), model3d.XYZ(-0.5, -0.5, 0.71), model3d.XYZ(0.9, -0.1, 0.43))
	return out
}()

type coll3 struct {
	name    string
	c       model3d.Collider
	sdf     func(model3d.Coord3D) float64 // reference field (positive inside); nil = no reference crossings
	center  model3d.Coord3D
	extent  float64
	feature float64
	closed  bool
	approx  float64                         // >0: approximate collider (SolidCollider), tolerance on hit positions
	edges   func(model3d.Coord3D) float64   // mesh colliders: distance to the nearest mesh edge
	rayOK   func(o, d model3d.Coord3D) bool // extra general-position requirement on the ray itself
}

func checkColl3(r *ev.Run, k coll3, nOrig int, scales []float64, dirStride int) {
	fam := family(k.name)
	tolPos := 1e-7 * (k.extent + 1)
	if k.approx > 0 {
		tolPos = k.approx
	}
	viol := func(kind, msg string, ray *model3d.Ray) {
		r.Violation(fam+"/"+kind, k.name+": "+msg+fmt.Sprintf(" [ray origin %v dir %v]", ray.Origin, ray.Direction),
			rayCase{k.name, []float64{ray.Origin.X, ray.Origin.Y, ray.Origin.Z}, []float64{ray.Direction.X, ray.Direction.Y, ray.Direction.Z}, nil})
	}
	if k.approx > 0 {
		// marching colliders step in length, not in ray parameter: always include a long direction vector
		has := false
		for _, sc := range scales {
			has = has || sc >= 7
		}
		if !has {
			scales = append(append([]float64{}, scales...), 7)
		}
	}
	var origins []model3d.Coord3D
	for i := 0; i < nOrig; i++ {
		for j := 0; j < nOrig; j++ {
			for l := 0; l < nOrig; l++ {
				f := func(t int) float64 {
					if nOrig == 1 {
						return 0
					}
					return (float64(t)/float64(nOrig-1))*2 - 1
				}
				origins = append(origins, k.center.Add(model3d.XYZ(f(i)+0.0137, f(j)-0.0071, f(l)+0.0093).Scale(1.5*k.extent)))
			}
		}
	}
	origins = append(origins, k.center.Add(model3d.XYZ(0.013, 0.021, -0.017).Scale(k.extent)), k.center)
	for oi, o := range origins {
		for di := (oi % dirStride); di < len(dirs3); di += dirStride {
			for _, sc := range scales {
				ray := &model3d.Ray{Origin: o, Direction: dirs3[di].Scale(sc)}
				r.Eval(1)
				var hits []model3d.RayCollision
				var n, n0 int
				if p := ev.Try(func() {
					n = k.c.RayCollisions(ray, func(rc model3d.RayCollision) { hits = append(hits, rc) })
					n0 = k.c.RayCollisions(ray, nil)
				}); p != "" {
					viol("panic", "panic: "+p, ray)
					continue
				}
				if n != len(hits) || n0 != n {
					viol("count", fmt.Sprintf("returned count %d, %d callbacks, count with nil callback %d", n, len(hits), n0), ray)
					continue
				}
				first, ok := k.c.FirstRayCollision(ray)
				if ok != (n > 0) {
					viol("first-exists", fmt.Sprintf("FirstRayCollision exists=%v but %d collisions are reported", ok, n), ray)
				}
				minS := math.Inf(1)
				for _, h := range hits {
					if h.Scale < 0 {
						viol("negative-scale", fmt.Sprintf("collision with negative ray parameter %g", h.Scale), ray)
					}
					minS = math.Min(minS, h.Scale)
					if !(math.Abs(h.Normal.Norm()-1) <= 1e-6) {
						viol("normal-not-unit", fmt.Sprintf("normal %v has length %g", h.Normal, h.Normal.Norm()), ray)
					}
					if k.sdf != nil {
						p := ray.Origin.Add(ray.Direction.Scale(h.Scale))
						if d := k.sdf(p); !(math.Abs(d) <= tolPos) {
							viol("hit-off-surface", fmt.Sprintf("collision at t=%g is %g away from the surface", h.Scale, d), ray)
						} else if k.approx == 0 {
							if wn, _, smooth := ref.SmoothNormal(k.sdf, p, k.extent, k.feature); smooth {
								r.NontrivialAdd(1)
								if !(h.Normal.Dist(wn) <= 5e-3) {
									viol("normal-direction", fmt.Sprintf("normal %v at t=%g, outward normal of the reference surface is %v", h.Normal, h.Scale, wn), ray)
								}
							}
						} else if sc, isSC := k.c.(*model3d.SolidCollider); isSC && sc.NormalBisectEpsilon > 0 {
							if q := p.Add(h.Normal.Scale(sc.NormalBisectEpsilon)); !(k.sdf(q) <= 1e-9) {
								viol("normal-direction", fmt.Sprintf("bisection normal %v: the point %g along it from the hit is still inside the solid (field %g)", h.Normal, sc.NormalBisectEpsilon, k.sdf(q)), ray)
							}
						} else if wn, _, smooth := ref.SmoothNormal(k.sdf, p, k.extent, k.feature); smooth && h.Normal.Dot(wn) <= 0 {
							viol("normal-direction", fmt.Sprintf("approximate normal %v points inward (reference %v)", h.Normal, wn), ray)
						}
					}
				}
				if ok && !(math.Abs(first.Scale-minS) <= 1e-9*(1+minS)) {
					viol("first-not-min", fmt.Sprintf("FirstRayCollision at %g, smallest reported parameter %g", first.Scale, minS), ray)
				}
				if k.sdf == nil {
					continue
				}
				// reference crossings
				tmax := (4*k.extent + o.Dist(k.center)) / ray.Direction.Norm()
				step := k.feature / 100 / ray.Direction.Norm()
				ts, general := ref.Crossings(k.sdf, o, ray.Direction, tmax, step, 20*tolPos+k.feature/50)
				if k.rayOK != nil && !k.rayOK(o, ray.Direction) {
					general = false
				}
				// general position also means: every crossing is at a smooth surface point (not an edge,
				// rim or apex), and for meshes not on an edge between two faces
				for _, t := range ts {
					p := o.Add(ray.Direction.Scale(t))
					if _, _, smooth := ref.SmoothNormal(k.sdf, p, k.extent, k.feature); !smooth && k.edges == nil {
						general = false
					}
					if k.edges != nil && k.edges(p) < 1e-4*k.extent {
						general = false
					}
				}
				if !general {
					r.Skipped(1)
					continue
				}
				var got []float64
				for _, h := range hits {
					got = append(got, h.Scale)
				}
				sort.Float64s(got)
				if k.approx > 0 {
					// documented as approximate: first hit within tolerance, parity not required
					if (len(ts) > 0) != ok {
						viol("first-vs-reference", fmt.Sprintf("reference has %d crossings but FirstRayCollision exists=%v", len(ts), ok), ray)
					} else if ok && !(math.Abs(first.Scale-ts[0])*ray.Direction.Norm() <= 3*k.approx) {
						viol("first-vs-reference", fmt.Sprintf("first hit at %g, reference surface first crossed at %g", first.Scale, ts[0]), ray)
					}
					// where consecutive crossings (and the origin) are more than four sampling steps apart, nothing
					// is "smaller than epsilon": every crossing must be reported, each within the same tolerance
					sep := math.Inf(1)
					for i, t := range ts {
						prev := 0.0
						if i > 0 {
							prev = ts[i-1]
						}
						sep = math.Min(sep, (t-prev)*ray.Direction.Norm())
					}
					if sep > 4*k.approx {
						bad := len(got) != len(ts)
						for i := 0; !bad && i < len(ts); i++ {
							bad = !(math.Abs(got[i]-ts[i])*ray.Direction.Norm() <= 3*k.approx)
						}
						if bad {
							viol("crossings", fmt.Sprintf("collision parameters %v, reference crossings %v (all more than four sampling steps apart)", got, ts), ray)
						}
					}
					continue
				}
				if len(got) != len(ts) {
					viol("crossings", fmt.Sprintf("%d collisions %v, the reference surface is crossed %d times at %v", len(got), got, len(ts), ts), ray)
					continue
				}
				for i := range ts {
					if !(math.Abs(got[i]-ts[i])*ray.Direction.Norm() <= 10*tolPos+1e-6*k.extent) {
						viol("crossings", fmt.Sprintf("collision parameters %v, reference crossings %v", got, ts), ray)
						break
					}
				}
				if k.closed && (len(got)%2 == 1) != (k.sdf(o) > 0) {
					viol("parity", fmt.Sprintf("%d collisions but origin inside=%v", len(got), k.sdf(o) > 0), ray)
				}
			}
		}
	}
	// balls
	if k.sdf == nil {
		return
	}
	for _, o := range origins {
		for _, rad := range []float64{0.1 * k.extent, 0.5 * k.extent, 2 * k.extent} {
			r.Eval(1)
			d := math.Abs(k.sdf(o))
			band := 1e-7*(k.extent+1) + k.approx
			if math.Abs(d-rad) < band {
				r.Skipped(1)
				continue
			}
			if k.approx > 0 {
				continue
			}
			if got := k.c.SphereCollision(o, rad); got != (d <= rad) {
				r.Violation(fam+"/sphere-collision", fmt.Sprintf("%s: SphereCollision(%v,%g)=%v but the surface is %g away", k.name, o, rad, got, d),
					rayCase{k.name, nil, nil, []float64{o.X, o.Y, o.Z, rad}})
			}
		}
	}
}

func meshField(m *model3d.Mesh) func(model3d.Coord3D) float64 {
	tris := lat.Tris(m)
	ts := m.TriangleSlice()
	return func(p model3d.Coord3D) float64 {
		best := math.Inf(1)
		for _, t := range ts {
			if d := triDist(p, *t); d < best {
				best = d
			}
		}
		w := topo.Winding3(tris, p.Array())
		if math.Abs(math.Mod(math.Round(w), 2)) == 1 {
			return best
		}
		return -best
	}
}

func triDist(p model3d.Coord3D, t [3]model3d.Coord3D) float64 {
	a, b, c := t[0], t[1], t[2]
	n := b.Sub(a).Cross(c.Sub(a))
	if n.Norm() > 0 {
		nn := n.Normalize()
		q := p.Sub(nn.Scale(p.Sub(a).Dot(nn)))
		in := true
		for k := 0; k < 3; k++ {
			if t[(k+1)%3].Sub(t[k]).Cross(q.Sub(t[k])).Dot(n) < 0 {
				in = false
			}
		}
		if in {
			return p.Dist(q)
		}
	}
	best := math.Inf(1)
	for k := 0; k < 3; k++ {
		e0, e1 := t[k], t[(k+1)%3]
		ab := e1.Sub(e0)
		tt := math.Max(0, math.Min(1, p.Sub(e0).Dot(ab)/ab.Dot(ab)))
		best = math.Min(best, p.Dist(e0.Add(ab.Scale(tt))))
	}
	return best
}

func colliders3(th bool) []coll3 {
	var out []coll3
	for _, s := range ref.Shapes3(th) {
		out = append(out, coll3{s.Name, s.Obj.(model3d.Collider), s.SDF, s.Center, s.Extent, s.Feature, true, 0, nil, nil})
	}
	// every fourth primitive again at millimetre and kilometre scale (exact power-of-two images of the unit-scale
	// shapes: a different answer can only come from an absolute threshold in the intersection code)
	for _, k := range []float64{1.0 / 1024, 1024} {
		for i, s := range ref.Shapes3Scaled(false, k) {
			if i%4 == 0 {
				out = append(out, coll3{s.Name, s.Obj.(model3d.Collider), s.SDF, s.Center, s.Extent, s.Feature, true, 0, nil, nil})
			}
		}
	}
	type scaledMesh struct {
		name string
		m    *model3d.Mesh
		k    float64
	}
	var meshes []scaledMesh
	for i, nm := range cat.Closed3(true) {
		meshes = append(meshes, scaledMesh{nm.Name, nm.Mesh(), 1})
		// the same surfaces with edges of about 1e-5 and 1e3 (exact power-of-two images): triangle tests must not
		// depend on an absolute length
		if th || i%3 == 0 {
			meshes = append(meshes, scaledMesh{nm.Name + " x 2^-17", nm.Mesh().Scale(1.0 / (1 << 17)), 1.0 / (1 << 17)})
			meshes = append(meshes, scaledMesh{nm.Name + " x 2^10", nm.Mesh().Scale(1 << 10), 1 << 10})
		}
	}
	for _, nm := range meshes {
		m := nm.m
		mn, mx := m.Min(), m.Max()
		f := meshField(m)
		ts := m.TriangleSlice()
		edges := func(p model3d.Coord3D) float64 {
			best := math.Inf(1)
			for _, t := range ts {
				for k := 0; k < 3; k++ {
					e0, e1 := t[k], t[(k+1)%3]
					ab := e1.Sub(e0)
					tt := math.Max(0, math.Min(1, p.Sub(e0).Dot(ab)/ab.Dot(ab)))
					best = math.Min(best, p.Dist(e0.Add(ab.Scale(tt))))
				}
			}
			return best
		}
		out = append(out, coll3{"MeshToCollider(" + nm.name + ")", model3d.MeshToCollider(m), f, mn.Mid(mx), mx.Dist(mn) / 2, 0.2 * nm.k, true, 0, edges, nil})
	}
	// transformed colliders, wrapped once and wrapped twice with maps that do not commute (the wrappers stacked on
	// each other, and the same composition handed over as one joined transform): the reference field is the
	// original's field pulled back through the inverse of the composition, times its scale factor
	{
		rotA := model3d.Rotation(model3d.XYZ(1, 2, -1).Normalize(), 1.1)
		tr := &model3d.Translate{Offset: model3d.XYZ(1.5, -0.5, 0.75)}
		sc := &model3d.Scale{Scale: 0.5}
		type dt = model3d.DistTransform
		chains := []struct {
			name  string
			parts []dt // applied first to last
			k     float64
		}{
			{"Translate", []dt{tr}, 1}, {"Rotation", []dt{rotA}, 1},
			{"Rotation then Translate", []dt{rotA, tr}, 1}, {"Translate then Rotation", []dt{tr, rotA}, 1},
			{"Scale then Translate", []dt{sc, tr}, 0.5}, {"Translate then Scale", []dt{tr, sc}, 0.5},
			{"Translate then Rotation then Scale", []dt{tr, rotA, sc}, 0.5},
		}
		bases := ref.Shapes3(false)
		for _, bi := range []int{0, 3, 9} {
			b := bases[bi%len(bases)]
			bc, ok := b.Obj.(model3d.Collider)
			if !ok {
				continue
			}
			for _, ch := range chains {
				var joined model3d.JoinedTransform
				stacked := bc
				for _, t := range ch.parts {
					joined = append(joined, t)
					stacked = model3d.TransformCollider(t, stacked)
				}
				inv := joined.Inverse()
				k, bs := ch.k, b
				f := func(p model3d.Coord3D) float64 { return k * bs.SDF(inv.Apply(p)) }
				ctr := joined.Apply(b.Center)
				out = append(out, coll3{"TransformCollider stacked (" + ch.name + ") of " + b.Name, stacked, f, ctr, b.Extent * k, b.Feature * k, true, 0, nil, nil})
				out = append(out, coll3{"TransformCollider(JoinedTransform " + ch.name + ") of " + b.Name, model3d.TransformCollider(joined, bc), f, ctr, b.Extent * k, b.Feature * k, true, 0, nil, nil})
			}
		}
	}
	// joined collider of two overlapping primitives: the surface is the union of both surfaces
	s1, s2 := ref.Sphere(model3d.XYZ(0, 0, 0), 1), ref.Cylinder(model3d.XYZ(0.5, 0, -1), model3d.XYZ(0.7, 0.3, 1.2), 0.4)
	out = append(out, coll3{"JoinedCollider(sphere,cylinder)", model3d.NewJoinedCollider([]model3d.Collider{s1.Obj.(model3d.Collider), s2.Obj.(model3d.Collider)}),
		nil, model3d.XYZ(0.3, 0, 0), 1.5, 0.4, false, 0, nil, nil})
	// profile collider of a 2D mesh
	for _, n2 := range cat.Closed2()[:4] {
		m2 := n2.Mesh()
		pc := model3d.ProfileCollider(model2d.MeshToCollider(m2), -0.4, 1.1)
		segs := lat.Segs(m2)
		ss := m2.SegmentSlice()
		f := func(p model3d.Coord3D) float64 {
			best := math.Inf(1)
			q := model2d.XY(p.X, p.Y)
			for _, s := range ss {
				ab := s[1].Sub(s[0])
				t := math.Max(0, math.Min(1, q.Sub(s[0]).Dot(ab)/ab.Dot(ab)))
				best = math.Min(best, q.Dist(s[0].Add(ab.Scale(t))))
			}
			d2 := -best
			if math.Abs(math.Mod(math.Round(topo.Winding2(segs, q.Array())), 2)) == 1 {
				d2 = best
			}
			dz := math.Min(p.Z+0.4, 1.1-p.Z)
			if d2 >= 0 && dz >= 0 {
				return math.Min(d2, dz)
			}
			return -math.Hypot(math.Max(-d2, 0), math.Max(-dz, 0))
		}
		mn, mx := m2.Min(), m2.Max()
		c := model3d.XYZ((mn.X+mx.X)/2, (mn.Y+mx.Y)/2, 0.35)
		verts := m2.VertexSlice()
		rayOK := func(o, d model3d.Coord3D) bool {
			// the outline is seen through the projected 2D ray: it must not pass through an outline vertex
			d2 := model2d.XY(d.X, d.Y)
			if d2.Norm() == 0 {
				return true
			}
			u := d2.Normalize()
			for _, v := range verts {
				w := v.Sub(model2d.XY(o.X, o.Y))
				if math.Abs(w.X*u.Y-w.Y*u.X) < 1e-6 && w.Dot(u) > -1e-6 {
					return false
				}
			}
			return true
		}
		out = append(out, coll3{"ProfileCollider(" + n2.Name + ")", pc, f, c, mx.Dist(mn)/2 + 0.75, 0.3, true, 0, nil, rayOK})
	}
	// solid-sampling collider (documented as approximate)
	// the bisection normal estimator (random probe directions inside): unit, finite, and a step of the bisection
	// radius along it leaves the solid - the estimator's own last test, which an unlucky draw cannot spoil
	for _, nbe := range []float64{1e-4, 1e-2} {
		for _, ns := range []int{0, 12} {
			s := ref.Sphere(model3d.XYZ(0.2, -0.1, 0.3), 1)
			out = append(out, coll3{fmt.Sprintf("SolidCollider(sphere,eps=0.05,normal-bisect=%g,samples=%d)", nbe, ns),
				&model3d.SolidCollider{Solid: s.Obj.(model3d.Solid), Epsilon: 0.05, NormalBisectEpsilon: nbe, NormalSamples: ns}, s.SDF, s.Center, s.Extent, s.Feature, true, 0.05, nil, nil})
		}
	}
	for _, eps := range []float64{0.05, 0.01} {
		s := ref.Sphere(model3d.XYZ(0.2, -0.1, 0.3), 1)
		out = append(out, coll3{fmt.Sprintf("SolidCollider(sphere,eps=%g)", eps), &model3d.SolidCollider{Solid: s.Obj.(model3d.Solid), Epsilon: eps}, s.SDF, s.Center, s.Extent, s.Feature, true, eps, nil, nil})
		b := ref.Rect(model3d.XYZ(-1, -0.5, -0.25), model3d.XYZ(0.5, 1, 1.5))
		out = append(out, coll3{fmt.Sprintf("SolidCollider(rect,eps=%g)", eps), &model3d.SolidCollider{Solid: b.Obj.(model3d.Solid), Epsilon: eps}, b.SDF, b.Center, b.Extent, b.Feature, true, eps, nil, nil})
	}
	return out
}

// ---- 2D ----

func check2D(r *ev.Run) {
	for _, s := range ref.Shapes2() {
		c := s.Obj.(model2d.Collider)
		fam := "2d." + family(s.Name)
		tol := 1e-7 * (s.Extent + 1)
		for i := 0; i < 6; i++ {
			for j := 0; j < 6; j++ {
				o := s.Center.Add(model2d.XY(float64(i)/2.5-1+0.0137, float64(j)/2.5-1-0.0071).Scale(1.5 * s.Extent))
				nz := math.Copysign(0, -1)
				axisDirs := []model2d.Coord{{X: 1, Y: 0}, {X: -1, Y: nz}, {X: 0, Y: 1}, {X: nz, Y: -1}, {X: 1, Y: nz}, {X: nz, Y: 1}, {X: 0, Y: -1}, {X: -1, Y: 0}}
				for di := 0; di < 24+len(axisDirs); di++ {
					a := 2*math.Pi*float64(di)/24 + 0.013
					d := model2d.XY(math.Cos(a), math.Sin(a)).Scale([]float64{1, 0.2, 5}[di%3])
					if di >= 24 {
						// axis-parallel rays, with zero components of either sign
						d = axisDirs[di-24].Scale([]float64{1, 0.2, 5}[di%3])
					}
					ray := &model2d.Ray{Origin: o, Direction: d}
					r.Eval(1)
					var hits []model2d.RayCollision
					n := c.RayCollisions(ray, func(rc model2d.RayCollision) { hits = append(hits, rc) })
					n0 := c.RayCollisions(ray, nil)
					rcase := rayCase{s.Name, []float64{o.X, o.Y}, []float64{d.X, d.Y}, nil}
					if n != len(hits) || n != n0 {
						r.Violation(fam+"/count", fmt.Sprintf("%s: count %d, callbacks %d, nil-callback count %d", s.Name, n, len(hits), n0), rcase)
						continue
					}
					first, ok := c.FirstRayCollision(ray)
					if ok != (n > 0) {
						r.Violation(fam+"/first-exists", fmt.Sprintf("%s: FirstRayCollision exists=%v with %d collisions", s.Name, ok, n), rcase)
					}
					f3 := func(p model3d.Coord3D) float64 { return s.SDF(model2d.XY(p.X, p.Y)) }
					tmax := (4*s.Extent + o.Dist(s.Center)) / d.Norm()
					ts, general := ref.Crossings(f3, model3d.XYZ(o.X, o.Y, 0), model3d.XYZ(d.X, d.Y, 0), tmax, s.Extent/400/d.Norm(), s.Extent/150)
					var got []float64
					for _, h := range hits {
						got = append(got, h.Scale)
						p := o.Add(d.Scale(h.Scale))
						if h.Scale < 0 || !(math.Abs(s.SDF(p)) <= tol) || !(math.Abs(h.Normal.Norm()-1) <= 1e-6) {
							r.Violation(fam+"/hit", fmt.Sprintf("%s: collision t=%g normal %v: surface distance %g", s.Name, h.Scale, h.Normal, s.SDF(p)), rcase)
						}
					}
					sort.Float64s(got)
					if ok && len(got) > 0 && !(math.Abs(first.Scale-got[0]) <= 1e-9*(1+got[0])) {
						r.Violation(fam+"/first-not-min", fmt.Sprintf("%s: first %g, min %g", s.Name, first.Scale, got[0]), rcase)
					}
					if !general {
						r.Skipped(1)
						continue
					}
					r.NontrivialAdd(1)
					bad := len(got) != len(ts)
					for k := 0; !bad && k < len(ts); k++ {
						bad = !(math.Abs(got[k]-ts[k])*d.Norm() <= 1e-5*s.Extent)
					}
					if bad {
						r.Violation(fam+"/crossings", fmt.Sprintf("%s: collisions %v, reference crossings %v (origin %v dir %v)", s.Name, got, ts, o, d), rcase)
					}
				}
				for _, rad := range []float64{0.1 * s.Extent, 0.5 * s.Extent, 2 * s.Extent} {
					dd := math.Abs(s.SDF(o))
					if math.Abs(dd-rad) < tol {
						continue
					}
					r.Eval(1)
					if got := c.CircleCollision(o, rad); got != (dd <= rad) {
						r.Violation(fam+"/circle-collision", fmt.Sprintf("%s: CircleCollision(%v,%g)=%v, surface is %g away", s.Name, o, rad, got, dd), rayCase{s.Name, nil, nil, []float64{o.X, o.Y, rad}})
					}
				}
			}
		}
	}
}

// solidLattice drives the ray-marching collider with "round" rays: axis-parallel rays from lattice origins
// through boxes whose faces coincide with their bounds, with step sizes that divide the box exactly (and some
// that do not). The crossings of such a ray are known in closed form.
type latCase struct {
	Kind   string    `json:"kind"`
	Box    []float64 `json:"box"`
	Eps    float64   `json:"eps"`
	Origin []float64 `json:"origin"`
	Dir    []float64 `json:"direction"`
}

func checkSolidLattice(r *ev.Run, c latCase) {
	mn, mx := model3d.XYZ(c.Box[0], c.Box[1], c.Box[2]), model3d.XYZ(c.Box[3], c.Box[4], c.Box[5])
	sc := &model3d.SolidCollider{Solid: model3d.NewRect(mn, mx), Epsilon: c.Eps}
	o := model3d.XYZ(c.Origin[0], c.Origin[1], c.Origin[2])
	d := model3d.XYZ(c.Dir[0], c.Dir[1], c.Dir[2])
	ray := &model3d.Ray{Origin: o, Direction: d}
	viol := func(kind, msg string) {
		r.Violation("SolidCollider/lattice-"+kind, fmt.Sprintf("box %v..%v eps %g ray %v+t%v: %s", mn, mx, c.Eps, o, d, msg), c)
	}
	// closed-form crossings (slab method on exactly representable numbers)
	oa, da, lo, hi := o.Array(), d.Array(), mn.Array(), mx.Array()
	t0, t1 := math.Inf(-1), math.Inf(1)
	inside := true
	for i := 0; i < 3; i++ {
		if oa[i] <= lo[i] || oa[i] >= hi[i] {
			inside = false
		}
		if da[i] == 0 {
			if oa[i] <= lo[i] || oa[i] >= hi[i] {
				t0, t1 = 1, 0 // misses (grazing rays are not generated)
			}
			continue
		}
		a, b := (lo[i]-oa[i])/da[i], (hi[i]-oa[i])/da[i]
		if a > b {
			a, b = b, a
		}
		t0, t1 = math.Max(t0, a), math.Min(t1, b)
	}
	var want []float64
	if t0 < t1 {
		if t0 > 0 {
			want = append(want, t0)
		}
		if t1 > 0 {
			want = append(want, t1)
		}
	}
	r.Eval(1)
	var hits []model3d.RayCollision
	var n, n0 int
	var first model3d.RayCollision
	var ok bool
	if p := ev.Try(func() {
		n = sc.RayCollisions(ray, func(rc model3d.RayCollision) { hits = append(hits, rc) })
		n0 = sc.RayCollisions(ray, nil)
		first, ok = sc.FirstRayCollision(ray)
	}); p != "" {
		viol("panic", "panic: "+p)
		return
	}
	if n != len(hits) || n != n0 {
		viol("count", fmt.Sprintf("count %d, callbacks %d, nil-callback count %d", n, len(hits), n0))
		return
	}
	if ok != (n > 0) {
		viol("first-exists", fmt.Sprintf("FirstRayCollision exists=%v, %d collisions", ok, n))
	}
	if len(want) > 0 {
		r.NontrivialAdd(1)
	}
	if n != len(want) {
		viol("crossings", fmt.Sprintf("%d collisions, the ray crosses the box surface %d times at %v", n, len(want), want))
		return
	}
	if (n%2 == 1) != inside {
		viol("parity", fmt.Sprintf("%d collisions, origin inside=%v", n, inside))
	}
	tol := 1.01 * c.Eps / d.Norm()
	var got []float64
	for _, h := range hits {
		got = append(got, h.Scale)
	}
	sort.Float64s(got)
	for i := range want {
		if !(math.Abs(got[i]-want[i]) <= tol) {
			viol("crossings", fmt.Sprintf("collisions at %v, the surface is crossed at %v", got, want))
			return
		}
	}
	if ok && !(math.Abs(first.Scale-want[0]) <= tol) {
		viol("first-not-min", fmt.Sprintf("first collision at %g, first crossing at %g", first.Scale, want[0]))
	}
}

// emptyStage: colliders over nothing (an empty mesh, an empty triangle list) report no collision of any kind.
func emptyStage(r *ev.Run) {
	cs := map[string]model3d.Collider{
		"MeshToCollider(empty mesh)":       model3d.MeshToCollider(model3d.NewMesh()),
		"GroupedTrianglesToCollider(none)": model3d.GroupedTrianglesToCollider(nil),
		"GroupedCollidersToCollider(none)": model3d.GroupedCollidersToCollider(nil),
	}
	for name, c := range cs {
		for _, o := range []model3d.Coord3D{{}, model3d.XYZ(1, -2, 0.5)} {
			for _, d := range dirs3 {
				r.Eval(1)
				ray := &model3d.Ray{Origin: o, Direction: d}
				calls := 0
				n := c.RayCollisions(ray, func(model3d.RayCollision) { calls++ })
				_, ok := c.FirstRayCollision(ray)
				if n != 0 || calls != 0 || c.RayCollisions(ray, nil) != 0 || ok {
					r.Violation("empty/ray", fmt.Sprintf("%s: ray %v+t%v: count %d, %d callbacks, first exists=%v", name, o, d, n, calls, ok),
						rayCase{name, []float64{o.X, o.Y, o.Z}, []float64{d.X, d.Y, d.Z}, nil})
				}
			}
			for _, rad := range []float64{0, 1, 1e6} {
				r.Eval(1)
				if c.SphereCollision(o, rad) {
					r.Violation("empty/ball", fmt.Sprintf("%s: SphereCollision(%v, %g) = true", name, o, rad), rayCase{name, nil, nil, []float64{o.X, o.Y, o.Z, rad}})
				}
			}
			if mc, isM := c.(model3d.MultiCollider); isM {
				r.Eval(3)
				tri := &model3d.Triangle{o, o.Add(model3d.X(1)), o.Add(model3d.Y(1))}
				if len(mc.TriangleCollisions(tri)) != 0 || mc.SegmentCollision(model3d.NewSegment(o, o.Add(model3d.Z(3)))) || mc.RectCollision(model3d.NewRect(o.AddScalar(-5), o.AddScalar(5))) {
					r.Violation("empty/shape-query", name+": a triangle, segment or box query reports a collision", rayCase{name, nil, nil, []float64{o.X, o.Y, o.Z, 0}})
				}
			}
		}
		if c.Min() != c.Max() && !(c.Min().X > c.Max().X) {
			// an empty collider has no extent (the library uses a point at the origin)
			r.Violation("empty/bounds", fmt.Sprintf("%s: bounds %v..%v have an extent", name, c.Min(), c.Max()), rayCase{name, nil, nil, nil})
		}
	}
	m2 := model2d.MeshToCollider(model2d.NewMesh())
	for _, d := range []model2d.Coord{{X: 1}, {Y: -1}, {X: 1, Y: 1}} {
		r.Eval(1)
		ray := &model2d.Ray{Origin: model2d.XY(0.5, 0.25), Direction: d}
		_, ok := m2.FirstRayCollision(ray)
		if m2.RayCollisions(ray, nil) != 0 || ok || m2.CircleCollision(ray.Origin, 3) {
			r.Violation("empty/ray", "2d.MeshToCollider(empty mesh) reports a collision", rayCase{"2d.MeshToCollider(empty mesh)", nil, nil, nil})
		}
	}
}

func solidLattice(r *ev.Run, th bool) {
	// the last two are slabs 1/8 thick (across z, across x): a marching step that is too long in *length* - a step
	// computed from the parameter of a long direction vector, say - steps over them
	boxes := [][]float64{{0, 0, 0, 1, 1, 1}, {-1, -0.5, -0.25, 0.5, 1, 1.5}, {-1, -0.5, 0.25, 0.5, 1, 0.375}, {0.5, 0, -1, 0.625, 2, 1}}
	epss := []float64{0.25, 0.125, 0.05, 0.01}
	if th {
		epss = append(epss, 0.5, 0.0625, 0.1, 0.005, 0.03)
	}
	scales := []float64{1, 2, 0.5, 4, 16}
	var cases []latCase
	for _, b := range boxes {
		for _, eps := range epss {
			if thin := math.Min(b[3]-b[0], math.Min(b[4]-b[1], b[5]-b[2])); eps > thin/2 {
				continue // "the result may be inaccurate for parts of the solid smaller than epsilon"
			}
			// lattice coordinates per axis: outside below, interior quarter points, outside above
			coords := func(i int) []float64 {
				w := b[3+i] - b[i]
				return []float64{b[i] - w, b[i] - 0.5*w, b[i] + 0.25*w, b[i] + 0.5*w, b[i] + 0.75*w, b[3+i] + 0.5*w}
			}
			for _, x := range coords(0) {
				for _, y := range coords(1) {
					for _, z := range coords(2) {
						for ax := 0; ax < 3; ax++ {
							for _, sg := range []float64{1, -1} {
								for _, s := range scales {
									d := [3]float64{}
									d[ax] = sg * s
									cases = append(cases, latCase{"solid-lattice", b, eps, []float64{x, y, z}, d[:]})
								}
							}
						}
					}
				}
			}
		}
	}
	ev.Parallel(len(cases), 16, func(i int) { checkSolidLattice(r, cases[i]) })
	r.Set("solid_lattice_cases", len(cases))
	r.Sample(cases[0])
}

func main() {
	r := ev.Start("C07", "exploration")
	th := r.Thorough()
	cs := colliders3(th)
	if r.Replay != "" {
		var c rayCase
		r.LoadReplay(&c)
		var lc latCase
		r.LoadReplay(&lc)
		if lc.Kind == "solid-lattice" {
			checkSolidLattice(r, lc)
			r.NontrivialAdd(2)
			r.Sample(lc)
			r.Finish()
		}
		for _, k := range colliders3(true) {
			if k.name == c.Collider {
				checkColl3(r, k, 3, []float64{1, 0.1, 7}, 1)
			}
		}
		check2D(r)
		ballStage(r, false)
		queryStage(r, false)
		containStage(r, false)
		solidBallStage(r, false)
		r.NontrivialAdd(2)
		r.Sample(c)
		r.Finish()
	}
	nOrig, scales, stride := 3, []float64{1, 0.3}, 2
	if th {
		nOrig, scales, stride = 5, []float64{1, 0.1, 7}, 1
	}
	r.Rule(fmt.Sprintf("colliders = primitive alphabet (%d shapes), mesh colliders of the catalogue, joined, profile and solid-sampling colliders; rays = %d^3+2 origins (inside, outside, on axes) x %d directions (26 lattice + 6 irrational, every %d-th per origin) x scales %v; balls = origins x 3 radii. "+
		"Oracle: count = callbacks = nil-callback count, parameters >= 0, hit points on the reference surface, unit outward normals at smooth points, first = minimum, collisions = sign changes of the reference field along the ray and parity = origin inside for rays in general position, ball test = |reference distance| <= r. non-trivial = collisions whose normal was judged at a smooth surface point", len(cs), nOrig, len(dirs3), stride, scales))
	r.Assume("rays within tolerance of tangency, of a non-smooth edge or of another crossing are skipped and counted; SolidCollider is documented as approximate: only first hit within 3 epsilon and outward normals are required")
	r.Isolate("colliders3", func() {
		ev.Parallel(len(cs), 16, func(i int) { checkColl3(r, cs[i], nOrig, scales, stride) })
		r.Sample(rayCase{cs[7].name, []float64{0, 0, 0}, []float64{1, 1, 0}, nil})
	})
	r.Isolate("colliders2", func() { check2D(r) })
	r.Isolate("solid-lattice", func() { solidLattice(r, th) })
	r.Isolate("empty", func() { emptyStage(r) })
	r.Isolate("feature-balls", func() { ballStage(r, th) })
	r.Isolate("shape-queries", func() { queryStage(r, th) })
	r.Isolate("containment", func() { containStage(r, th); solidBallStage(r, th) })
	r.Finish()
}
