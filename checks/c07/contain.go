package main

import (
	"fmt"
	"math"

	"github.com/unixpickle/model3d/model2d"
	"github.com/unixpickle/model3d/model3d"

	"verif/lib/cat"
	"verif/lib/ev"
	"verif/lib/lat"
	"verif/lib/topo"
)

// containStage: even-odd containment (ColliderContains with margins 0, +m, -m; ColliderSolid) against the parity
// of the winding number of the surface and the exact distance to it. Besides the catalogue at unit size: the same
// surfaces at 2^-30 and 2^10 (crossings that are 1e-9 apart in absolute terms are still distinct crossings), and
// surfaces with coincident sheets - boxes sharing a face, as one mesh and as a joined collider of boxes - where a
// ray crosses two sheets at the same parameter and both crossings count.

type containCase struct {
	Shape  string    `json:"shape"`
	Point  []float64 `json:"point"`
	Margin float64   `json:"margin"`
}

func containStage(r *ev.Run, th bool) {
	type shape struct {
		name string
		c    model3d.Collider
		tris [][3]model3d.Coord3D
	}
	var shapes []shape
	mk := func(name string, tris [][3]model3d.Coord3D) {
		m := model3d.NewMesh()
		for _, t := range tris {
			m.Add(&model3d.Triangle{t[0], t[1], t[2]})
		}
		shapes = append(shapes, shape{"MeshToCollider(" + name + ")", model3d.MeshToCollider(m), tris})
	}
	scaled := func(tris [][3]model3d.Coord3D, k float64) [][3]model3d.Coord3D {
		out := make([][3]model3d.Coord3D, len(tris))
		for i, t := range tris {
			out[i] = [3]model3d.Coord3D{t[0].Scale(k), t[1].Scale(k), t[2].Scale(k)}
		}
		return out
	}
	for _, nm := range cat.Closed3(!th) {
		mk(nm.Name, nm.Tris)
		mk(nm.Name+" x 2^-30", scaled(nm.Tris, 1.0/(1<<30)))
		mk(nm.Name+" x 2^10", scaled(nm.Tris, 1<<10))
	}
	p := model3d.XYZ
	boxes := [][2]model3d.Coord3D{{p(0, 0, 0), p(1, 1, 1)}, {p(1, 0, 0), p(2, 1, 1)}, {p(0, 1, 0), p(1, 2.5, 1)}}
	var two, three [][3]model3d.Coord3D
	for i, b := range boxes {
		if i < 2 {
			two = append(two, cat.Box(b[0], b[1])...)
		}
		three = append(three, cat.Box(b[0], b[1])...)
	}
	mk("two boxes sharing a face", two)
	mk("three boxes in an L sharing faces", three)
	mk("two boxes sharing a face x 2^-30", scaled(two, 1.0/(1<<30)))
	shapes = append(shapes,
		shape{"JoinedCollider(two boxes sharing a face)", model3d.NewJoinedCollider([]model3d.Collider{model3d.NewRect(boxes[0][0], boxes[0][1]), model3d.NewRect(boxes[1][0], boxes[1][1])}), two},
		shape{"JoinedCollider(three boxes in an L)", model3d.NewJoinedCollider([]model3d.Collider{model3d.NewRect(boxes[0][0], boxes[0][1]), model3d.NewRect(boxes[1][0], boxes[1][1]), model3d.NewRect(boxes[2][0], boxes[2][1])}), three})
	n := 7
	if th {
		n = 11
	}
	ev.Parallel(len(shapes), 16, func(si int) {
		sh := shapes[si]
		tt := make([][3][3]float64, len(sh.tris))
		mn, mx := sh.tris[0][0], sh.tris[0][0]
		for i, t := range sh.tris {
			for k := 0; k < 3; k++ {
				tt[i][k] = t[k].Array()
				mn, mx = mn.Min(t[k]), mx.Max(t[k])
			}
		}
		ext := mx.Dist(mn)
		solid := model3d.NewColliderSolid(sh.c)
		for i := 0; i < n; i++ {
			for j := 0; j < n; j++ {
				for k := 0; k < n; k++ {
					f := func(t int) float64 { return float64(t)/float64(n-1)*1.5 - 0.25 }
					q := mn.Add(mx.Sub(mn).Mul(p(f(i)+0.0137, f(j)-0.0071, f(k)+0.0093)))
					dist := math.Inf(1)
					for _, t := range sh.tris {
						dist = math.Min(dist, triDist(q, t))
					}
					if dist < 1e-6*ext {
						continue
					}
					inside := math.Abs(math.Mod(math.Round(topo.Winding3(tt, q.Array())), 2)) == 1
					r.Eval(1)
					for _, mg := range []float64{0, 0.05 * ext, -0.05 * ext} {
						if math.Abs(dist-math.Abs(mg)) < 1e-6*ext {
							continue
						}
						want := inside
						if mg > 0 {
							want = inside && dist > mg
						} else if mg < 0 {
							want = inside || dist < -mg
						}
						if got := model3d.ColliderContains(sh.c, q, mg); got != want {
							r.Violation("ColliderContains", fmt.Sprintf("%s: ColliderContains(%v, margin %g) = %v; the point is inside by the even-odd rule: %v, distance to the surface %g", sh.name, q, mg, got, inside, dist),
								containCase{sh.name, []float64{q.X, q.Y, q.Z}, mg})
							return
						}
					}
					if got := solid.Contains(q); got != inside {
						r.Violation("ColliderSolid/Contains", fmt.Sprintf("%s: NewColliderSolid(...).Contains(%v) = %v, even-odd rule says %v", sh.name, q, got, inside), containCase{sh.name, []float64{q.X, q.Y, q.Z}, 0})
						return
					}
				}
			}
		}
		r.NontrivialAdd(1)
	})
	// 2D: outlines of the catalogue at three sizes and two squares sharing a side
	type shape2 struct {
		name string
		segs [][2]model2d.Coord
	}
	var s2 []shape2
	for _, nm := range cat.Closed2() {
		var ss [][2]model2d.Coord
		nm.Mesh().Iterate(func(s *model2d.Segment) { ss = append(ss, [2]model2d.Coord{s[0], s[1]}) })
		for _, k := range []float64{1, 1.0 / (1 << 30), 1 << 10} {
			sc := make([][2]model2d.Coord, len(ss))
			for i, s := range ss {
				sc[i] = [2]model2d.Coord{s[0].Scale(k), s[1].Scale(k)}
			}
			s2 = append(s2, shape2{fmt.Sprintf("%s x %g", nm.Name, k), sc})
		}
	}
	q2 := model2d.XY
	sq := func(x0, y0, x1, y1 float64) [][2]model2d.Coord {
		return [][2]model2d.Coord{{q2(x0, y0), q2(x0, y1)}, {q2(x0, y1), q2(x1, y1)}, {q2(x1, y1), q2(x1, y0)}, {q2(x1, y0), q2(x0, y0)}}
	}
	s2 = append(s2, shape2{"two squares sharing a side", append(sq(0, 0, 1, 1), sq(1, 0, 2, 1)...)})
	for _, sh := range s2 {
		m := model2d.NewMesh()
		for _, s := range sh.segs {
			m.Add(&model2d.Segment{s[0], s[1]})
		}
		coll := model2d.MeshToCollider(m)
		segs := lat.Segs(m)
		mn, mx := m.Min(), m.Max()
		ext := mx.Dist(mn)
		for i := 0; i < 2*n; i++ {
			for j := 0; j < 2*n; j++ {
				f := func(t int) float64 { return float64(t)/float64(2*n-1)*1.5 - 0.25 }
				q := mn.Add(mx.Sub(mn).Mul(q2(f(i)+0.0137, f(j)-0.0071)))
				dist := math.Inf(1)
				for _, s := range sh.segs {
					v := s[1].Sub(s[0])
					t := math.Max(0, math.Min(1, q.Sub(s[0]).Dot(v)/v.Dot(v)))
					dist = math.Min(dist, q.Dist(s[0].Add(v.Scale(t))))
				}
				if dist < 1e-6*ext {
					continue
				}
				inside := math.Abs(math.Mod(math.Round(topo.Winding2(segs, q.Array())), 2)) == 1
				r.Eval(1)
				if got := model2d.ColliderContains(coll, q, 0); got != inside {
					r.Violation("2d.ColliderContains", fmt.Sprintf("%s: ColliderContains(%v, 0) = %v, even-odd rule says %v", sh.name, q, got, inside), containCase{sh.name, []float64{q.X, q.Y}, 0})
					break
				}
			}
		}
		r.NontrivialAdd(1)
	}
	r.Set("containment_shapes", len(shapes)+len(s2))
}

// solidBallStage: SolidCollider.SphereCollision ("the solid touches the ball", decided by sampling the ball on a grid
// of spacing Epsilon). Two-sided oracle with the documented resolution: a ball that does not reach the solid must be
// reported as not touching (every sample lies in the ball), and a ball whose intersection with the solid contains a
// whole grid cell (an inscribed ball of radius sqrt(3)/2 x Epsilon) must be reported as touching; in between either
// answer is accepted and counted.
func solidBallStage(r *ev.Run, th bool) {
	type sc struct {
		name   string
		solid  model3d.Solid
		out    func(c model3d.Coord3D) float64              // distance from c to the solid (0 inside)
		lens   func(c model3d.Coord3D, rad float64) float64 // radius of a ball certainly inside ball(c,rad) and the solid
		centre model3d.Coord3D
		ext    float64
	}
	sph := &model3d.Sphere{Center: model3d.XYZ(0.2, -0.1, 0.3), Radius: 1}
	box := model3d.NewRect(model3d.XYZ(-1, -0.5, -0.25), model3d.XYZ(0.5, 1, 1.5))
	shapes := []sc{
		{"sphere", sph, func(c model3d.Coord3D) float64 { return math.Max(0, c.Dist(sph.Center)-1) },
			func(c model3d.Coord3D, rad float64) float64 {
				return math.Min(math.Min(rad, 1), (rad+1-c.Dist(sph.Center))/2)
			}, sph.Center, 1},
		{"rect", box, func(c model3d.Coord3D) float64 {
			d := c.Sub(c.Max(box.MinVal).Min(box.MaxVal))
			return d.Norm()
		}, func(c model3d.Coord3D, rad float64) float64 {
			// only for centres inside the box: the margin to the nearest face, capped by the radius
			m := math.Inf(1)
			for ax := 0; ax < 3; ax++ {
				m = math.Min(m, math.Min(c.Array()[ax]-box.MinVal.Array()[ax], box.MaxVal.Array()[ax]-c.Array()[ax]))
			}
			return math.Min(m, rad)
		}, box.MinVal.Mid(box.MaxVal), 1.2},
	}
	n := 5
	if th {
		n = 7
	}
	var undecided int64
	for _, sh := range shapes {
		for _, eps := range []float64{0.25, 0.1} {
			coll := &model3d.SolidCollider{Solid: sh.solid, Epsilon: eps}
			rho := eps * math.Sqrt(3) / 2 * 1.01
			for i := 0; i < n; i++ {
				for j := 0; j < n; j++ {
					for k := 0; k < n; k++ {
						f := func(t int) float64 { return (float64(t)/float64(n-1)*2 - 1) * 1.7 * sh.ext }
						c := sh.centre.Add(model3d.XYZ(f(i)+0.0137, f(j)-0.0071, f(k)+0.0093))
						for _, rad := range []float64{0.3, 0.6, 1.1} {
							r.Eval(1)
							got := coll.SphereCollision(c, rad)
							d := sh.out(c)
							cs := containCase{fmt.Sprintf("SolidCollider(%s, eps=%g)", sh.name, eps), []float64{c.X, c.Y, c.Z}, rad}
							switch {
							case d > rad*(1+1e-9):
								if got {
									r.Violation("SolidCollider/sphere-collision", fmt.Sprintf("%s: SphereCollision(%v, %g) = true, but the solid is %g away from the centre", cs.Shape, c, rad, d), cs)
									return
								}
							case sh.lens(c, rad) >= rho:
								if !got {
									r.Violation("SolidCollider/sphere-collision", fmt.Sprintf("%s: SphereCollision(%v, %g) = false, but ball and solid share a ball of radius %g, more than a whole sampling cell", cs.Shape, c, rad, sh.lens(c, rad)), cs)
									return
								}
							default:
								undecided++
							}
						}
					}
				}
			}
			r.NontrivialAdd(1)
		}
	}
	r.Set("solid_collider_ball_queries_within_sampling_resolution_not_judged", undecided)
}
