package main

import (
	"fmt"
	"math"

	"github.com/unixpickle/model3d/model2d"
	"github.com/unixpickle/model3d/model3d"

	"verif/lib/ev"
)

// queryStage: segment, box and triangle queries against single triangles and segments, judged by exact integer
// predicates. All shapes have small integer coordinates (triangles on the even lattice, query shapes mostly on the
// odd one, so that most configurations are in general position), every determinant is evaluated in int64 without
// rounding, and each configuration is classified as
//   proper   the shapes cross transversally with strict inequalities everywhere (the answer must be "touching"),
//   apart    a strict separation exists (the answer must be "not touching"),
//   contact  anything with a vanishing determinant (touching in a point or along an edge, coplanar): counted, not
//            judged - which side rounding falls on there is not fixed by the property.
// The index structures of C08 are compared with linear scans that use these same primitives, so the primitives
// themselves are judged here and nowhere else.

type iv [3]int64

func (a iv) sub(b iv) iv { return iv{a[0] - b[0], a[1] - b[1], a[2] - b[2]} }
func (a iv) cross(b iv) iv {
	return iv{a[1]*b[2] - a[2]*b[1], a[2]*b[0] - a[0]*b[2], a[0]*b[1] - a[1]*b[0]}
}
func (a iv) dot(b iv) int64 { return a[0]*b[0] + a[1]*b[1] + a[2]*b[2] }
func (a iv) c3() c3x        { return model3d.XYZ(float64(a[0]), float64(a[1]), float64(a[2])) }

type c3x = model3d.Coord3D

func sgn64(x int64) int {
	switch {
	case x > 0:
		return 1
	case x < 0:
		return -1
	}
	return 0
}

// vol: six times the signed volume of the tetrahedron a b c d.
func vol(a, b, c, d iv) int64 { return b.sub(a).cross(c.sub(a)).dot(d.sub(a)) }

const (
	qApart = iota
	qProper
	qContact
)

// segTri: open segment p-q against the closed triangle a b c.
func segTri(p, q, a, b, c iv) int {
	sp, sq := sgn64(vol(a, b, c, p)), sgn64(vol(a, b, c, q))
	if sp == 0 || sq == 0 {
		if sp == 0 && sq == 0 {
			return qContact // coplanar
		}
		// one end point in the plane: contact if that point is in the closed triangle, apart otherwise
		e := p
		if sq == 0 {
			e = q
		}
		n := b.sub(a).cross(c.sub(a))
		in := true
		for _, ed := range [3][2]iv{{a, b}, {b, c}, {c, a}} {
			if s := sgn64(ed[1].sub(ed[0]).cross(e.sub(ed[0])).dot(n)); s < 0 {
				in = false
			}
		}
		if in {
			return qContact
		}
		return qApart
	}
	if sp == sq {
		return qApart
	}
	s1, s2, s3 := sgn64(vol(p, q, a, b)), sgn64(vol(p, q, b, c)), sgn64(vol(p, q, c, a))
	if s1 == 0 || s2 == 0 || s3 == 0 {
		// the line meets an edge line: contact if the others do not already exclude it
		if (s1 >= 0 && s2 >= 0 && s3 >= 0) || (s1 <= 0 && s2 <= 0 && s3 <= 0) {
			return qContact
		}
		return qApart
	}
	if s1 == s2 && s2 == s3 {
		return qProper
	}
	return qApart
}

// triBox by the separating-axis theorem (13 axes) with exact integers. Box given by integer corners lo < hi.
func triBox(t [3]iv, lo, hi iv) int {
	corners := make([]iv, 0, 8)
	for m := 0; m < 8; m++ {
		c := lo
		for ax := 0; ax < 3; ax++ {
			if m>>uint(ax)&1 == 1 {
				c[ax] = hi[ax]
			}
		}
		corners = append(corners, c)
	}
	e := [3]iv{t[1].sub(t[0]), t[2].sub(t[1]), t[0].sub(t[2])}
	axes := []iv{{1, 0, 0}, {0, 1, 0}, {0, 0, 1}, e[0].cross(e[1])}
	for _, ed := range e {
		for _, u := range []iv{{1, 0, 0}, {0, 1, 0}, {0, 0, 1}} {
			axes = append(axes, ed.cross(u))
		}
	}
	contact := false
	for _, ax := range axes {
		if ax == (iv{}) {
			continue
		}
		tmin, tmax := int64(math.MaxInt64), int64(math.MinInt64)
		for _, v := range t {
			d := ax.dot(v)
			if d < tmin {
				tmin = d
			}
			if d > tmax {
				tmax = d
			}
		}
		bmin, bmax := int64(math.MaxInt64), int64(math.MinInt64)
		for _, v := range corners {
			d := ax.dot(v)
			if d < bmin {
				bmin = d
			}
			if d > bmax {
				bmax = d
			}
		}
		if tmax < bmin || bmax < tmin {
			return qApart
		}
		if tmax == bmin || bmax == tmin {
			contact = true
		}
	}
	if contact {
		return qContact
	}
	return qProper
}

// segBox: closed segment against closed box, exact with cross-multiplied fractions.
func segBox(p, q, lo, hi iv) int {
	// t interval as fractions num/den with den > 0
	type fr struct{ n, d int64 }
	less := func(a, b fr) bool { return a.n*b.d < b.n*a.d }
	eq := func(a, b fr) bool { return a.n*b.d == b.n*a.d }
	t0, t1 := fr{0, 1}, fr{1, 1}
	contact := false
	for ax := 0; ax < 3; ax++ {
		d := q[ax] - p[ax]
		if d == 0 {
			if p[ax] < lo[ax] || p[ax] > hi[ax] {
				return qApart
			}
			if p[ax] == lo[ax] || p[ax] == hi[ax] {
				contact = true // runs inside a face plane
			}
			continue
		}
		a, b := fr{lo[ax] - p[ax], d}, fr{hi[ax] - p[ax], d}
		if d < 0 {
			a, b = fr{-(lo[ax] - p[ax]), -d}, fr{-(hi[ax] - p[ax]), -d}
			a, b = b, a
		}
		if less(t0, a) {
			t0 = a
		}
		if less(b, t1) {
			t1 = b
		}
	}
	if less(t1, t0) {
		return qApart
	}
	if eq(t0, t1) || contact {
		return qContact
	}
	return qProper
}

func queryStage(r *ev.Run, th bool) {
	even := []int64{0, 2, 4}
	var tv []iv
	for _, x := range even {
		for _, y := range even {
			for _, z := range even {
				tv = append(tv, iv{x, y, z})
			}
		}
	}
	// triangles: every non-degenerate triple of a spread-out subset of the even lattice
	sel := []iv{{0, 0, 0}, {4, 0, 0}, {0, 4, 0}, {0, 0, 4}, {4, 4, 2}, {2, 4, 4}, {4, 2, 0}, {2, 2, 4}, {0, 2, 2}}
	var tris [][3]iv
	for i := range sel {
		for j := i + 1; j < len(sel); j++ {
			for k := j + 1; k < len(sel); k++ {
				if sel[j].sub(sel[i]).cross(sel[k].sub(sel[i])) != (iv{}) {
					tris = append(tris, [3]iv{sel[i], sel[j], sel[k]})
				}
			}
		}
	}
	// large triangles whose edges pass outside the region of the query shapes: only their interior can be met, and a
	// box is then cut by them through the four edges of one direction only (one triangle per direction, flat and tilted)
	for ax := 0; ax < 3; ax++ {
		for _, tilt := range []int64{0, 2} {
			mk := func(u, v, w int64) iv {
				var o iv
				o[ax], o[(ax+1)%3], o[(ax+2)%3] = u, v, w
				return o
			}
			tris = append(tris, [3]iv{mk(2-tilt, -12, -12), mk(2, 16, -10), mk(2+tilt, 2, 18)})
		}
	}
	odd := []int64{-1, 1, 3, 5}
	var ov []iv
	for _, x := range odd {
		for _, y := range odd {
			for _, z := range odd {
				ov = append(ov, iv{x, y, z})
			}
		}
	}
	step := 3
	if th {
		step = 1
	}
	var cnt [3][3]int64 // [query kind][class]
	add := func(kind, class int) { cnt[kind][class]++ }
	_ = add
	type res struct{ c [3][3]int64 }
	results := make([]res, len(tris))
	ev.Parallel(len(tris), 16, func(ti int) {
		t := tris[ti]
		tri := &model3d.Triangle{t[0].c3(), t[1].c3(), t[2].c3()}
		name := fmt.Sprintf("triangle %v %v %v", t[0], t[1], t[2])
		// segments between odd-lattice points, and from odd to even points (end points on the even lattice touch often)
		for i := 0; i < len(ov); i++ {
			for j := (i + ti) % step; j < len(ov); j += step {
				if i == j {
					continue
				}
				p, q := ov[i], ov[j]
				cl := segTri(p, q, t[0], t[1], t[2])
				results[ti].c[0][cl]++
				r.Eval(1)
				if cl == qContact {
					continue
				}
				got := tri.SegmentCollision(model3d.NewSegment(p.c3(), q.c3()))
				if got != (cl == qProper) {
					r.Violation("Triangle/segment-collision", fmt.Sprintf("%s, segment %v-%v: SegmentCollision = %v, exact predicates say %s", name, p, q, got, []string{"apart", "crossing"}[cl]),
						ballCase{"segment-query", name, nil, []float64{float64(p[0]), float64(p[1]), float64(p[2]), float64(q[0]), float64(q[1]), float64(q[2])}, 0})
					return
				}
			}
		}
		// boxes with odd corners
		for i := 0; i < len(ov); i++ {
			for j := 0; j < len(ov); j++ {
				lo, hi := ov[i], ov[j]
				if !(lo[0] < hi[0] && lo[1] < hi[1] && lo[2] < hi[2]) {
					continue
				}
				cl := triBox(t, lo, hi)
				results[ti].c[1][cl]++
				r.Eval(1)
				if cl == qContact {
					continue
				}
				got := tri.RectCollision(&model3d.Rect{MinVal: lo.c3(), MaxVal: hi.c3()})
				if got != (cl == qProper) {
					r.Violation("Triangle/rect-collision", fmt.Sprintf("%s, box %v..%v: RectCollision = %v, separating-axis test in exact integers says %s", name, lo, hi, got, []string{"apart", "overlapping"}[cl]),
						ballCase{"box-query", name, nil, []float64{float64(lo[0]), float64(lo[1]), float64(lo[2]), float64(hi[0]), float64(hi[1]), float64(hi[2])}, 0})
					return
				}
			}
		}
		// triangles on the odd lattice: intersect iff an edge of one properly pierces the other
		for i := (ti % step); i < len(ov); i += step {
			for j := i + 1; j < len(ov); j += 2 {
				for k := j + 1; k < len(ov); k += 3 {
					u := [3]iv{ov[i], ov[j], ov[k]}
					if u[1].sub(u[0]).cross(u[2].sub(u[0])) == (iv{}) {
						continue
					}
					pierce, contact := 0, false
					for e := 0; e < 3; e++ {
						switch segTri(u[e], u[(e+1)%3], t[0], t[1], t[2]) {
						case qProper:
							pierce++
						case qContact:
							contact = true
						}
						switch segTri(t[e], t[(e+1)%3], u[0], u[1], u[2]) {
						case qProper:
							pierce++
						case qContact:
							contact = true
						}
					}
					r.Eval(1)
					if contact {
						results[ti].c[2][qContact]++
						continue
					}
					cl := qApart
					if pierce > 0 {
						cl = qProper
					}
					results[ti].c[2][cl]++
					ut := &model3d.Triangle{u[0].c3(), u[1].c3(), u[2].c3()}
					segs := tri.TriangleCollisions(ut)
					bc := ballCase{"triangle-query", name, nil, []float64{float64(u[0][0]), float64(u[0][1]), float64(u[0][2]), float64(u[1][0]), float64(u[1][1]), float64(u[1][2]), float64(u[2][0]), float64(u[2][1]), float64(u[2][2])}, 0}
					if (len(segs) > 0) != (cl == qProper) {
						r.Violation("Triangle/triangle-collisions", fmt.Sprintf("%s against triangle %v: %d intersection segments, exact predicates say %s (%d edge piercings)", name, u, len(segs), []string{"apart", "intersecting"}[cl], pierce), bc)
						return
					}
					for _, s := range segs {
						for _, e := range s {
							if d1, d2 := triDist(e, [3]c3x{tri[0], tri[1], tri[2]}), triDist(e, [3]c3x{ut[0], ut[1], ut[2]}); !(d1 <= 1e-9) || !(d2 <= 1e-9) {
								r.Violation("Triangle/triangle-collisions", fmt.Sprintf("%s against triangle %v: end point %v of the reported intersection segment is %g and %g away from the two triangles", name, u, e, d1, d2), bc)
								return
							}
						}
					}
				}
			}
		}
		// triangles that share exactly one corner with t: they can still cross it along a segment that starts at the
		// shared corner. The two edges at that corner touch by construction; the pair crosses properly exactly when
		// the edge opposite the corner of one triangle pierces the other.
		for vi := 0; vi < 3; vi++ {
			for j := (ti + vi) % step; j < len(ov); j += step {
				for k := j + 1; k < len(ov); k += 2 {
					u := [3]iv{t[vi], ov[j], ov[k]}
					if u[1].sub(u[0]).cross(u[2].sub(u[0])) == (iv{}) {
						continue
					}
					c1 := segTri(u[1], u[2], t[0], t[1], t[2])
					c2 := segTri(t[(vi+1)%3], t[(vi+2)%3], u[0], u[1], u[2])
					r.Eval(1)
					if c1 == qContact || c2 == qContact || vol(t[0], t[1], t[2], u[1]) == 0 || vol(t[0], t[1], t[2], u[2]) == 0 {
						results[ti].c[2][qContact]++
						continue
					}
					// both other corners of u strictly on one side of t's plane: only the corner is shared
					cl := qApart
					if c1 == qProper || c2 == qProper {
						cl = qProper
					}
					results[ti].c[2][cl]++
					ut := &model3d.Triangle{u[0].c3(), u[1].c3(), u[2].c3()}
					segs := tri.TriangleCollisions(ut)
					if (len(segs) > 0) != (cl == qProper) {
						r.Violation("Triangle/triangle-collisions", fmt.Sprintf("%s against triangle %v sharing its corner %v: %d intersection segments, exact predicates say %s", name, u, t[vi], len(segs), []string{"apart (corner only)", "crossing along a segment from the shared corner"}[cl]),
							ballCase{"triangle-query", name, nil, []float64{float64(u[0][0]), float64(u[0][1]), float64(u[0][2]), float64(u[1][0]), float64(u[1][1]), float64(u[1][2]), float64(u[2][0]), float64(u[2][1]), float64(u[2][2])}, 0})
						return
					}
				}
			}
		}
	})
	for _, x := range results {
		for a := 0; a < 3; a++ {
			for b := 0; b < 3; b++ {
				cnt[a][b] += x.c[a][b]
			}
		}
	}
	// 3D segment against box, 2D segment against segment and box
	var sb [3]int64
	boxes := [][2]iv{{{1, 1, 1}, {3, 3, 3}}, {{-1, 1, 1}, {5, 3, 3}}, {{1, -1, 3}, {3, 5, 5}}, {{1, 1, 1}, {5, 5, 3}}}
	pts := append(append([]iv{}, tv...), ov...)
	for _, bx := range boxes {
		rc := &model3d.Rect{MinVal: bx[0].c3(), MaxVal: bx[1].c3()}
		for i := range pts {
			for j := range pts {
				if i == j {
					continue
				}
				cl := segBox(pts[i], pts[j], bx[0], bx[1])
				sb[cl]++
				r.Eval(1)
				if cl == qContact {
					continue
				}
				if got := model3d.NewSegment(pts[i].c3(), pts[j].c3()).RectCollision(rc); got != (cl == qProper) {
					r.Violation("Segment/rect-collision", fmt.Sprintf("segment %v-%v, box %v..%v: RectCollision = %v, exact clipping says %s", pts[i], pts[j], bx[0], bx[1], got, []string{"apart", "crossing"}[cl]),
						ballCase{"segment-box-query", "", nil, []float64{float64(pts[i][0]), float64(pts[i][1]), float64(pts[i][2]), float64(pts[j][0]), float64(pts[j][1]), float64(pts[j][2])}, 0})
					break
				}
			}
		}
	}
	var s2 [3]int64
	var p2 []iv
	for x := int64(-1); x <= 5; x++ {
		for y := int64(-1); y <= 5; y++ {
			p2 = append(p2, iv{x, y, 0})
		}
	}
	orient := func(a, b, c iv) int { return sgn64((b[0]-a[0])*(c[1]-a[1]) - (b[1]-a[1])*(c[0]-a[0])) }
	xy := func(a iv) model2d.Coord { return model2d.XY(float64(a[0]), float64(a[1])) }
	base := [][2]iv{{{0, 0, 0}, {4, 2, 0}}, {{1, 4, 0}, {3, 0, 0}}, {{0, 2, 0}, {4, 2, 0}}, {{2, 0, 0}, {2, 4, 0}}, {{0, 0, 0}, {4, 4, 0}}}
	for _, b := range base {
		seg := &model2d.Segment{xy(b[0]), xy(b[1])}
		for i := range p2 {
			for j := range p2 {
				if i == j {
					continue
				}
				o1, o2, o3, o4 := orient(b[0], b[1], p2[i]), orient(b[0], b[1], p2[j]), orient(p2[i], p2[j], b[0]), orient(p2[i], p2[j], b[1])
				cl := qApart
				if o1 == 0 || o2 == 0 || o3 == 0 || o4 == 0 {
					cl = qContact
				} else if o1 != o2 && o3 != o4 {
					cl = qProper
				}
				s2[cl]++
				r.Eval(1)
				if cl == qContact {
					continue
				}
				if got := seg.SegmentCollision(&model2d.Segment{xy(p2[i]), xy(p2[j])}); got != (cl == qProper) {
					r.Violation("Segment2D/segment-collision", fmt.Sprintf("segment %v-%v against %v-%v: SegmentCollision = %v, orientation signs say %s", b[0], b[1], p2[i], p2[j], got, []string{"apart", "crossing"}[cl]),
						ballCase{"segment2d-query", "", nil, []float64{float64(p2[i][0]), float64(p2[i][1]), float64(p2[j][0]), float64(p2[j][1])}, 0})
					break
				}
			}
		}
	}
	for _, bx := range [][2]iv{{{1, 1, -1}, {3, 3, 1}}, {{0, 1, -1}, {4, 2, 1}}, {{2, 0, -1}, {3, 5, 1}}} {
		rc := &model2d.Rect{MinVal: xy(bx[0]), MaxVal: xy(bx[1])}
		for i := range p2 {
			for j := range p2 {
				if i == j {
					continue
				}
				cl := segBox(p2[i], p2[j], bx[0], bx[1])
				s2[cl]++
				r.Eval(1)
				if cl == qContact {
					continue
				}
				if got := (&model2d.Segment{xy(p2[i]), xy(p2[j])}).RectCollision(rc); got != (cl == qProper) {
					r.Violation("Segment2D/rect-collision", fmt.Sprintf("segment %v-%v, box %v..%v: RectCollision = %v, exact clipping says %s", p2[i], p2[j], bx[0], bx[1], got, []string{"apart", "crossing"}[cl]),
						ballCase{"segment2d-box-query", "", nil, []float64{float64(p2[i][0]), float64(p2[i][1]), float64(p2[j][0]), float64(p2[j][1])}, 0})
					break
				}
			}
		}
	}
	r.Set("shape_queries", map[string]interface{}{
		"triangle_vs_segment [apart, crossing, contact (not judged)]": cnt[0], "triangle_vs_box": cnt[1], "triangle_vs_triangle": cnt[2], "segment_vs_box_3d": sb, "segment_queries_2d": s2, "triangles": len(tris)})
	r.NontrivialAdd(int(cnt[0][qProper] + cnt[1][qProper] + cnt[2][qProper] + sb[qProper] + s2[qProper]))
}
