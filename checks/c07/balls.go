package main

import (
	"fmt"
	"math"

	"github.com/unixpickle/model3d/model2d"
	"github.com/unixpickle/model3d/model3d"

	"verif/lib/ev"
)

// ballStage: ball queries aimed at every feature (face, each edge, each vertex) of single triangles and segments at
// several sizes. The centres form a lattice in the triangle's own frame (over and beside the face, beyond every edge
// and vertex, at four heights), the radii are the exact distance to the triangle x 0.9 (must miss) and x 1.1 (must
// touch) plus one fixed radius. The coarse origin lattice of the collider stage rarely puts a ball next to the
// interior of an edge without also covering a vertex or the face; here every feature is the nearest one for some ball.
// Every shape is repeated in exact power-of-two sizes: the answers are scale-free, so a different answer at another
// size can only come from an absolute length in the test.

type ballCase struct {
	Kind   string    `json:"kind"`
	What   string    `json:"what"`
	Verts  []float64 `json:"verts"`
	Centre []float64 `json:"centre"`
	Radius float64   `json:"radius"`
}

func ballStage(r *ev.Run, th bool) {
	tris := []struct {
		name string
		t    [3]model3d.Coord3D
	}{
		{"right", [3]model3d.Coord3D{model3d.XYZ(0, 0, 0), model3d.XYZ(1, 0, 0), model3d.XYZ(0, 1, 0)}},
		{"obtuse", [3]model3d.Coord3D{model3d.XYZ(0, 0, 0), model3d.XYZ(2, 0, 0), model3d.XYZ(1.75, 0.25, 0.125)}},
		{"generic", [3]model3d.Coord3D{model3d.XYZ(0.25, -0.25, 0.5), model3d.XYZ(1.125, 0.375, -0.25), model3d.XYZ(-0.25, 0.875, 0.75)}},
		{"sliver", [3]model3d.Coord3D{model3d.XYZ(0, 0, 0), model3d.XYZ(1, 0, 0), model3d.XYZ(0.5, 1.0/1024, 0)}},
		{"away from the origin", [3]model3d.Coord3D{model3d.XYZ(5, -3, 2), model3d.XYZ(6, -3, 2.5), model3d.XYZ(5.5, -2, 2)}},
	}
	sizes := []float64{1, 1.0 / (1 << 10), 1.0 / (1 << 17), 1 << 10}
	if th {
		sizes = append(sizes, 1.0/(1<<25), 1.0/(1<<40), 1<<20)
	}
	steps := []float64{-0.5, -0.25, 0, 0.25, 0.5, 0.75, 1, 1.25, 1.5}
	if th {
		steps = nil
		for a := -0.75; a <= 1.751; a += 0.125 {
			steps = append(steps, a)
		}
	}
	heights := []float64{0, 0.0625, -0.3125, 1}
	type job func()
	var jobs []job
	for _, tr := range tris {
		for _, k := range sizes {
			tr, k := tr, k
			jobs = append(jobs, func() {
				var t [3]model3d.Coord3D
				for i := range t {
					t[i] = tr.t[i].Scale(k)
				}
				tri := &model3d.Triangle{t[0], t[1], t[2]}
				mesh := model3d.NewMesh()
				mesh.Add(tri)
				// a second triangle across the first edge, so that the first edge is interior to a two-face mesh
				mesh.Add(&model3d.Triangle{t[1], t[0], t[0].Add(t[1]).Sub(t[2])})
				coll := model3d.MeshToCollider(mesh)
				t2 := [3]model3d.Coord3D{t[1], t[0], t[0].Add(t[1]).Sub(t[2])}
				L := math.Max(t[0].Dist(t[1]), math.Max(t[1].Dist(t[2]), t[2].Dist(t[0])))
				nrm := t[1].Sub(t[0]).Cross(t[2].Sub(t[0])).Normalize()
				name := fmt.Sprintf("%s triangle x %g", tr.name, k)
				for _, a := range steps {
					for _, b := range steps {
						for _, h := range heights {
							c := t[0].Add(t[1].Sub(t[0]).Scale(a)).Add(t[2].Sub(t[0]).Scale(b)).Add(nrm.Scale(h * L))
							d1 := triDist(c, t)
							d2 := math.Min(d1, triDist(c, t2))
							for _, rad := range []float64{0.9 * d1, 1.1 * d1, 0.9 * d2, 1.1 * d2, 0.3 * L} {
								if rad <= 0 {
									continue
								}
								r.Eval(2)
								bc := ballCase{"triangle", name, []float64{t[0].X, t[0].Y, t[0].Z, t[1].X, t[1].Y, t[1].Z, t[2].X, t[2].Y, t[2].Z}, []float64{c.X, c.Y, c.Z}, rad}
								if math.Abs(d1-rad) > 1e-6*L {
									if got := tri.SphereCollision(c, rad); got != (d1 < rad) {
										r.Violation("Triangle/sphere-collision", fmt.Sprintf("%s: SphereCollision(%v, %g) = %v, the triangle is %g away", name, c, rad, got, d1), bc)
										return
									}
								}
								if math.Abs(d2-rad) > 1e-6*L {
									if got := coll.SphereCollision(c, rad); got != (d2 < rad) {
										r.Violation("MeshCollider/sphere-collision", fmt.Sprintf("two-face mesh of %s: SphereCollision(%v, %g) = %v, the surface is %g away", name, c, rad, got, d2), bc)
										return
									}
								}
							}
						}
					}
				}
				r.NontrivialAdd(1)
			})
		}
	}
	segs := []struct {
		name string
		s    [2]model2d.Coord
	}{
		{"axis", [2]model2d.Coord{model2d.XY(0, 0), model2d.XY(1, 0)}},
		{"generic", [2]model2d.Coord{model2d.XY(0.25, -0.5), model2d.XY(1.125, 0.375)}},
		{"away from the origin", [2]model2d.Coord{model2d.XY(5, -3), model2d.XY(5.5, -2)}},
	}
	for _, sg := range segs {
		for _, k := range sizes {
			sg, k := sg, k
			jobs = append(jobs, func() {
				s0, s1 := sg.s[0].Scale(k), sg.s[1].Scale(k)
				seg := &model2d.Segment{s0, s1}
				mesh := model2d.NewMesh()
				mesh.Add(seg)
				coll := model2d.MeshToCollider(mesh)
				v := s1.Sub(s0)
				L := v.Norm()
				n := model2d.XY(-v.Y, v.X).Normalize()
				name := fmt.Sprintf("%s segment x %g", sg.name, k)
				for _, a := range steps {
					for _, h := range []float64{0, 0.0625, -0.3125, 1, -1.5} {
						c := s0.Add(v.Scale(a)).Add(n.Scale(h * L))
						tt := math.Max(0, math.Min(1, c.Sub(s0).Dot(v)/v.Dot(v)))
						d := c.Dist(s0.Add(v.Scale(tt)))
						for _, rad := range []float64{0.9 * d, 1.1 * d, 0.3 * L} {
							if rad <= 0 || math.Abs(d-rad) <= 1e-6*L {
								continue
							}
							r.Eval(2)
							bc := ballCase{"segment", name, []float64{s0.X, s0.Y, s1.X, s1.Y}, []float64{c.X, c.Y}, rad}
							if got := seg.CircleCollision(c, rad); got != (d < rad) {
								r.Violation("Segment/circle-collision", fmt.Sprintf("%s: CircleCollision(%v, %g) = %v, the segment is %g away", name, c, rad, got, d), bc)
								return
							}
							if got := coll.CircleCollision(c, rad); got != (d < rad) {
								r.Violation("MeshCollider2D/circle-collision", fmt.Sprintf("one-segment mesh of %s: CircleCollision(%v, %g) = %v, the segment is %g away", name, c, rad, got, d), bc)
								return
							}
						}
					}
				}
				r.NontrivialAdd(1)
			})
		}
	}
	ev.Parallel(len(jobs), 16, func(i int) { jobs[i]() })
	r.Set("ball_feature_shapes", len(jobs))
}
