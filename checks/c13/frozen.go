package main

// Frozen-state stage of C13: "immutable query structures after construction".
//
// For every shared object of the alphabet and every query of a lattice
// alphabet, the complete reachable state of the object (lib/frozen: all fields,
// exported or not, through pointers, slices, maps and interfaces; sync and
// sync/atomic values excluded) is fingerprinted before the queries and after
// each block of queries. A query that writes to the object is reported with
// the first field that changed. If no query of the alphabet writes to shared
// state, every interleaving of such queries is race-free and indistinguishable
// from the sequential run - the schedule exploration and the -race pass cover
// the remaining (synchronised, lazily built and package-level) state.

import (
	"fmt"
	"math"
	"sort"
	"strings"

	"github.com/unixpickle/model3d/model2d"
	"github.com/unixpickle/model3d/model3d"
	"github.com/unixpickle/model3d/render3d"
	"github.com/unixpickle/model3d/toolbox3d"

	"verif/lib/ev"
	"verif/lib/frozen"
)

type frozenCase struct {
	Kind   string `json:"kind"`
	Object string `json:"object"`
	Query  int    `json:"query"`
}

type frozenObj struct {
	name  string
	build func() interface{}
	// query i of the alphabet, answered as text (compared between passes)
	query func(o interface{}, i int) string
	n     int
}

func pts3(n int) []model3d.Coord3D {
	var out []model3d.Coord3D
	for x := 0; x < n; x++ {
		for y := 0; y < n; y++ {
			for z := 0; z < n; z++ {
				f := func(i int) float64 { return (float64(i)/float64(n-1))*3 - 1.5 }
				out = append(out, model3d.XYZ(f(x)+0.013, f(y)-0.007, f(z)+0.003))
			}
		}
	}
	return out
}

func pts2(n int) []model2d.Coord {
	var out []model2d.Coord
	for x := 0; x < n; x++ {
		for y := 0; y < n; y++ {
			f := func(i int) float64 { return (float64(i)/float64(n-1))*3 - 1.5 }
			out = append(out, model2d.XY(f(x)+0.013, f(y)-0.007))
		}
	}
	return out
}

var rayDirs3 = []model3d.Coord3D{{X: 1}, {Y: -1}, {Z: 1}, {X: 1, Y: 1, Z: 1}, {X: -0.3, Y: 1, Z: 0.2}, {X: 0.5, Y: -0.5, Z: -2}}
var rayDirs2 = []model2d.Coord{{X: 1}, {Y: -1}, {X: 1, Y: 1}, {X: -0.3, Y: 1}}

func frozenObjects(th bool) []frozenObj {
	n3, n2 := 5, 9
	if th {
		n3, n2 = 8, 17
	}
	P3, P2 := pts3(n3), pts2(n2)
	meshes := map[string]func() *model3d.Mesh{
		"icosphere2": func() *model3d.Mesh { return model3d.NewMeshIcosphere(model3d.XYZ(0.1, 0.2, 0.3), 1, 2) },
		"torus": func() *model3d.Mesh {
			return model3d.NewMeshTorus(model3d.XYZ(0, 0.1, 0), model3d.XYZ(0.2, 0.1, 1), 0.3, 0.9, 8, 12)
		},
		"two-boxes": func() *model3d.Mesh {
			m := model3d.NewMeshRect(model3d.XYZ(-1.2, -1, -0.8), model3d.XYZ(-0.2, 0.3, 0.9))
			m.AddMesh(model3d.NewMeshRect(model3d.XYZ(0.2, -0.5, -0.5), model3d.XYZ(1.3, 1.1, 0.4)))
			return m
		},
	}
	var out []frozenObj
	collQ := func(c model3d.Collider, i int) string {
		p := P3[i%len(P3)]
		var sb strings.Builder
		for _, d := range rayDirs3 {
			ray := &model3d.Ray{Origin: p, Direction: d}
			n := c.RayCollisions(ray, nil)
			f, ok := c.FirstRayCollision(ray)
			fmt.Fprint(&sb, n, ok, f.Scale, ";")
		}
		fmt.Fprint(&sb, c.SphereCollision(p, 0.3), c.SphereCollision(p, 1.1))
		return sb.String()
	}
	for _, mn := range []string{"icosphere2", "torus", "two-boxes"} {
		mk := meshes[mn]
		out = append(out,
			frozenObj{"MeshToCollider(" + mn + ")", func() interface{} { return model3d.MeshToCollider(mk()) },
				func(o interface{}, i int) string {
					c := o.(model3d.MultiCollider)
					p := P3[i%len(P3)]
					return collQ(c, i) + fmt.Sprint(c.SegmentCollision(model3d.Segment{p, p.Add(model3d.XYZ(0.5, 0.4, 0.3))}),
						c.RectCollision(&model3d.Rect{MinVal: p, MaxVal: p.Add(model3d.XYZ(0.3, 0.3, 0.3))}),
						len(c.TriangleCollisions(&model3d.Triangle{p, p.Add(model3d.X(0.7)), p.Add(model3d.Y(0.6))})))
				}, len(P3)},
			frozenObj{"MeshToInterpNormalCollider(" + mn + ")", func() interface{} { return model3d.MeshToInterpNormalCollider(mk()) },
				func(o interface{}, i int) string { return collQ(o.(model3d.Collider), i) }, len(P3)},
			frozenObj{"MeshToSDF(" + mn + ")", func() interface{} { return model3d.MeshToSDF(mk()) },
				func(o interface{}, i int) string {
					s := o.(model3d.FaceSDF)
					p := P3[i%len(P3)]
					a, b := s.PointSDF(p)
					c, d := s.NormalSDF(p)
					f, g, h := s.FaceSDF(p)
					return fmt.Sprint(s.SDF(p), a, b, c, d, *f, g, h)
				}, len(P3)},
			frozenObj{"ColliderSolid(" + mn + ")", func() interface{} { return model3d.NewColliderSolid(model3d.MeshToCollider(mk())) },
				func(o interface{}, i int) string { return fmt.Sprint(o.(model3d.Solid).Contains(P3[i%len(P3)])) }, len(P3)},
			frozenObj{"ColliderSolidHollow(" + mn + ")", func() interface{} { return model3d.NewColliderSolidHollow(model3d.MeshToCollider(mk()), 0.2) },
				func(o interface{}, i int) string { return fmt.Sprint(o.(model3d.Solid).Contains(P3[i%len(P3)])) }, len(P3)},
			frozenObj{"ColliderSolidInset(" + mn + ")", func() interface{} { return model3d.NewColliderSolidInset(model3d.MeshToCollider(mk()), 0.1) },
				func(o interface{}, i int) string { return fmt.Sprint(o.(model3d.Solid).Contains(P3[i%len(P3)])) }, len(P3)},
			frozenObj{"SDFToSolid(" + mn + ")", func() interface{} { return model3d.SDFToSolid(model3d.MeshToSDF(mk()), 0.1) },
				func(o interface{}, i int) string { return fmt.Sprint(o.(model3d.Solid).Contains(P3[i%len(P3)])) }, len(P3)},
			frozenObj{"TransformCollider(" + mn + ")", func() interface{} {
				return model3d.TransformCollider(model3d.Rotation(model3d.XYZ(1, 2, 3).Normalize(), 0.7), model3d.MeshToCollider(mk()))
			}, func(o interface{}, i int) string { return collQ(o.(model3d.Collider), i) }, len(P3)},
			frozenObj{"TransformSDF(" + mn + ")", func() interface{} {
				return model3d.TransformSDF(&model3d.Translate{Offset: model3d.XYZ(0.1, 0, -0.2)}, model3d.MeshToSDF(mk()))
			}, func(o interface{}, i int) string { return fmt.Sprint(o.(model3d.SDF).SDF(P3[i%len(P3)])) }, len(P3)},
			frozenObj{"Mesh(" + mn + ")", func() interface{} { return mk() },
				func(o interface{}, i int) string {
					m := o.(*model3d.Mesh)
					vs := m.VertexSlice()
					sort.Slice(vs, func(a, b int) bool {
						x, y := vs[a].Array(), vs[b].Array()
						return x[0] < y[0] || (x[0] == y[0] && (x[1] < y[1] || (x[1] == y[1] && x[2] < y[2])))
					})
					v := vs[i%len(vs)]
					var sb strings.Builder
					fmt.Fprint(&sb, len(m.Find(v)), len(m.TriangleSlice()), m.NeedsRepair(), len(m.SingularVertices()))
					return sb.String()
				}, 40},
			frozenObj{"MeshHierarchy(" + mn + ")", func() interface{} { return model3d.MeshToHierarchy(mk()) },
				func(o interface{}, i int) string {
					hs := o.([]*model3d.MeshHierarchy)
					var sb strings.Builder
					for _, h := range hs {
						fmt.Fprint(&sb, h.Contains(P3[i%len(P3)]), len(h.FullMesh().TriangleSlice()))
					}
					return sb.String()
				}, len(P3)},
			frozenObj{"CoordTree(" + mn + ")", func() interface{} { return model3d.NewCoordTree(mk().VertexSlice()) },
				func(o interface{}, i int) string {
					t := o.(*model3d.CoordTree)
					p := P3[i%len(P3)]
					return fmt.Sprint(t.NearestNeighbor(p), t.KNN(3, p), t.SphereCollision(p, 0.4), t.Contains(p))
				}, len(P3)},
		)
	}
	prims := func() []model3d.Solid {
		return []model3d.Solid{
			&model3d.Sphere{Center: model3d.XYZ(0.3, 0, 0), Radius: 0.8},
			&model3d.Rect{MinVal: model3d.XYZ(-1, -1, -1), MaxVal: model3d.XYZ(0, 0.5, 0.2)},
			&model3d.Cylinder{P1: model3d.XYZ(0, -1, 0), P2: model3d.XYZ(0.2, 1, 0.5), Radius: 0.4},
			&model3d.Torus{Center: model3d.XYZ(0, 0, 0.5), Axis: model3d.Z(1), InnerRadius: 0.2, OuterRadius: 1},
			&model3d.Sphere{Center: model3d.XYZ(-0.8, 0.9, 0.9), Radius: 0.5},
			&model3d.Rect{MinVal: model3d.XYZ(0.5, 0.5, -1.4), MaxVal: model3d.XYZ(1.4, 1.4, -0.6)},
		}
	}
	solidQ := func(o interface{}, i int) string { return fmt.Sprint(o.(model3d.Solid).Contains(P3[i%len(P3)])) }
	out = append(out,
		frozenObj{"JoinedSolid.Optimize", func() interface{} { return model3d.JoinedSolid(prims()).Optimize() }, solidQ, len(P3)},
		frozenObj{"SolidMux", func() interface{} { return model3d.NewSolidMux(prims()) },
			func(o interface{}, i int) string {
				m := o.(*model3d.SolidMux)
				p := P3[i%len(P3)]
				return fmt.Sprint(m.Contains(p), m.AllContains(p), m.IterContains(p, nil))
			}, len(P3)},
		frozenObj{"SmoothJoin+IntersectedSolid+SubtractedSolid", func() interface{} {
			ps := prims()
			return model3d.JoinedSolid{model3d.SmoothJoin(0.2, model3d.MeshToSDF(meshes["icosphere2"]()), model3d.MeshToSDF(meshes["two-boxes"]())),
				model3d.IntersectedSolid{ps[0], ps[1]}, &model3d.SubtractedSolid{Positive: ps[2], Negative: ps[0]}}
		}, solidQ, len(P3)},
		frozenObj{"JoinedCollider(primitives)", func() interface{} {
			return model3d.NewJoinedCollider([]model3d.Collider{
				&model3d.Sphere{Center: model3d.XYZ(0.3, 0, 0), Radius: 0.8},
				&model3d.Rect{MinVal: model3d.XYZ(-1, -1, -1), MaxVal: model3d.XYZ(0, 0.5, 0.2)},
				&model3d.Cylinder{P1: model3d.XYZ(0, -1, 0), P2: model3d.XYZ(0.2, 1, 0.5), Radius: 0.4},
				&model3d.Capsule{P1: model3d.XYZ(1, -1, 0), P2: model3d.XYZ(1.2, 1, 0.5), Radius: 0.2},
			})
		}, func(o interface{}, i int) string { return collQ(o.(model3d.Collider), i) }, len(P3)},
		frozenObj{"SolidCollider(sphere)", func() interface{} {
			return &model3d.SolidCollider{Solid: &model3d.Sphere{Radius: 1}, Epsilon: 0.05, NormalSamples: 1}
		}, func(o interface{}, i int) string {
			c := o.(*model3d.SolidCollider)
			return fmt.Sprint(c.RayCollisions(&model3d.Ray{Origin: P3[i%len(P3)], Direction: rayDirs3[i%len(rayDirs3)]}, nil))
		}, len(P3)},
		frozenObj{"ProfileCollider(polar)", func() interface{} {
			return model3d.ProfileCollider(model2d.MeshToCollider(model2d.NewMeshPolar(func(t float64) float64 { return 1 + 0.2*math.Sin(3*t) }, 20)), -0.5, 0.7)
		}, func(o interface{}, i int) string { return collQ(o.(model3d.Collider), i) }, len(P3)},
		frozenObj{"ProfileSolid(polar)", func() interface{} {
			return model3d.ProfileSolid(model2d.NewColliderSolid(model2d.MeshToCollider(model2d.NewMeshPolar(func(t float64) float64 { return 1 + 0.2*math.Sin(3*t) }, 20))), -0.5, 0.7)
		}, solidQ, len(P3)},
	)
	// 2D
	m2 := func() *model2d.Mesh {
		m := model2d.NewMeshPolar(func(t float64) float64 { return 1 + 0.2*math.Sin(3*t) }, 24)
		m.AddMesh(model2d.NewMeshPolar(func(t float64) float64 { return 0.3 }, 9).Invert())
		return m
	}
	coll2Q := func(c model2d.Collider, i int) string {
		p := P2[i%len(P2)]
		var sb strings.Builder
		for _, d := range rayDirs2 {
			ray := &model2d.Ray{Origin: p, Direction: d}
			n := c.RayCollisions(ray, nil)
			f, ok := c.FirstRayCollision(ray)
			fmt.Fprint(&sb, n, ok, f.Scale, ";")
		}
		fmt.Fprint(&sb, c.CircleCollision(p, 0.3), c.CircleCollision(p, 1.1))
		return sb.String()
	}
	out = append(out,
		frozenObj{"2d/MeshToCollider", func() interface{} { return model2d.MeshToCollider(m2()) },
			func(o interface{}, i int) string {
				c := o.(model2d.MultiCollider)
				p := P2[i%len(P2)]
				return coll2Q(c, i) + fmt.Sprint(c.SegmentCollision(&model2d.Segment{p, p.Add(model2d.XY(0.5, 0.4))}),
					c.RectCollision(&model2d.Rect{MinVal: p, MaxVal: p.Add(model2d.XY(0.3, 0.3))}))
			}, len(P2)},
		frozenObj{"2d/MeshToSDF", func() interface{} { return model2d.MeshToSDF(m2()) },
			func(o interface{}, i int) string {
				s := o.(model2d.FaceSDF)
				p := P2[i%len(P2)]
				a, b := s.PointSDF(p)
				c, d := s.NormalSDF(p)
				f, g, h := s.FaceSDF(p)
				return fmt.Sprint(s.SDF(p), a, b, c, d, *f, g, h)
			}, len(P2)},
		frozenObj{"2d/ColliderSolid", func() interface{} { return model2d.NewColliderSolid(model2d.MeshToCollider(m2())) },
			func(o interface{}, i int) string { return fmt.Sprint(o.(model2d.Solid).Contains(P2[i%len(P2)])) }, len(P2)},
		frozenObj{"2d/ColliderSolidHollow", func() interface{} { return model2d.NewColliderSolidHollow(model2d.MeshToCollider(m2()), 0.1) },
			func(o interface{}, i int) string { return fmt.Sprint(o.(model2d.Solid).Contains(P2[i%len(P2)])) }, len(P2)},
		frozenObj{"2d/SDFToSolid", func() interface{} { return model2d.SDFToSolid(model2d.MeshToSDF(m2()), 0.1) },
			func(o interface{}, i int) string { return fmt.Sprint(o.(model2d.Solid).Contains(P2[i%len(P2)])) }, len(P2)},
		frozenObj{"2d/Mesh", func() interface{} { return m2() },
			func(o interface{}, i int) string {
				m := o.(*model2d.Mesh)
				vs := m.VertexSlice()
				sort.Slice(vs, func(a, b int) bool { return vs[a].X < vs[b].X || (vs[a].X == vs[b].X && vs[a].Y < vs[b].Y) })
				return fmt.Sprint(len(m.Find(vs[i%len(vs)])), len(m.SegmentSlice()), m.Manifold())
			}, 30},
		frozenObj{"2d/MeshHierarchy", func() interface{} { return model2d.MeshToHierarchy(m2()) },
			func(o interface{}, i int) string {
				var sb strings.Builder
				for _, h := range o.([]*model2d.MeshHierarchy) {
					fmt.Fprint(&sb, h.Contains(P2[i%len(P2)]), len(h.FullMesh().SegmentSlice()))
				}
				return sb.String()
			}, len(P2)},
		frozenObj{"2d/CoordTree", func() interface{} { return model2d.NewCoordTree(m2().VertexSlice()) },
			func(o interface{}, i int) string {
				t := o.(*model2d.CoordTree)
				p := P2[i%len(P2)]
				return fmt.Sprint(t.NearestNeighbor(p), t.KNN(3, p), t.SphereCollision(p, 0.4), t.Contains(p))
			}, len(P2)},
		frozenObj{"2d/SolidMux", func() interface{} {
			return model2d.NewSolidMux([]model2d.Solid{&model2d.Circle{Radius: 0.7}, &model2d.Rect{MinVal: model2d.XY(-1, -1), MaxVal: model2d.XY(0, 0.5)},
				&model2d.Circle{Center: model2d.XY(1, 1), Radius: 0.5}, &model2d.Capsule{P1: model2d.XY(-1, 1), P2: model2d.XY(1, -1), Radius: 0.2}})
		}, func(o interface{}, i int) string {
			m := o.(*model2d.SolidMux)
			p := P2[i%len(P2)]
			return fmt.Sprint(m.Contains(p), m.AllContains(p), m.IterContains(p, nil))
		}, len(P2)},
		frozenObj{"2d/BezierCurve+JoinedCurve", func() interface{} {
			return model2d.JoinedCurve{model2d.BezierCurve{model2d.XY(0, 0), model2d.XY(1, 2), model2d.XY(2, -1), model2d.XY(3, 0)},
				model2d.BezierCurve{model2d.XY(3, 0), model2d.XY(4, 1), model2d.XY(5, 0)}}
		}, func(o interface{}, i int) string {
			c := o.(model2d.JoinedCurve)
			t := float64(i%41) / 40
			return fmt.Sprint(c.Eval(t), model2d.CurveEvalX(c, 0.1+4.8*t))
		}, 41},
	)
	// renderer objects and height maps
	out = append(out,
		frozenObj{"render3d/JoinedObject", func() interface{} {
			return render3d.JoinedObject{
				&render3d.ColliderObject{Collider: model3d.MeshToCollider(meshes["icosphere2"]()), Material: &render3d.LambertMaterial{DiffuseColor: render3d.NewColor(0.7)}},
				&render3d.ColliderObject{Collider: &model3d.Sphere{Center: model3d.XYZ(1, 1, 0), Radius: 0.5}, Material: &render3d.PhongMaterial{Alpha: 10, SpecularColor: render3d.NewColor(0.5), DiffuseColor: render3d.NewColor(0.3)}},
				render3d.Translate(&render3d.ColliderObject{Collider: model3d.MeshToCollider(meshes["two-boxes"]()), Material: &render3d.LambertMaterial{DiffuseColor: render3d.NewColor(0.2)}}, model3d.XYZ(0, 0, -1)),
			}
		}, func(o interface{}, i int) string {
			obj := o.(render3d.Object)
			var sb strings.Builder
			for _, d := range rayDirs3 {
				c, _, ok := obj.Cast(&model3d.Ray{Origin: P3[i%len(P3)], Direction: d})
				fmt.Fprint(&sb, ok, c.Scale, ";")
			}
			return sb.String()
		}, len(P3)},
		frozenObj{"toolbox3d/HeightMap", func() interface{} {
			h := toolbox3d.NewHeightMap(model2d.XY(-1.5, -1.5), model2d.XY(1.5, 1.5), 40)
			h.AddSphere(model2d.XY(0.1, 0.2), 0.9)
			h.AddSphere(model2d.XY(-0.7, 0.5), 0.5)
			return h
		}, func(o interface{}, i int) string {
			h := o.(*toolbox3d.HeightMap)
			p := P2[i%len(P2)]
			return fmt.Sprint(h.HeightSquaredAt(p), h.HigherAt(p, 0.3), h.MaxHeight())
		}, len(P2)},
	)
	return out
}

func checkFrozen(r *ev.Run, o frozenObj, block int) {
	c := frozenCase{Kind: "frozen", Object: o.name}
	var obj interface{}
	if p := ev.Try(func() { obj = o.build() }); p != "" {
		r.Violation("frozen/"+family(o.name)+"/panic", o.name+": construction panics: "+p, c)
		return
	}
	before := frozen.Dump(obj)
	first := make([]string, o.n)
	for start := 0; start < o.n; start += block {
		end := start + block
		if end > o.n {
			end = o.n
		}
		for i := start; i < end; i++ {
			i := i
			r.Eval(1)
			if p := ev.Try(func() { first[i] = o.query(obj, i) }); p != "" {
				c.Query = i
				r.Violation("frozen/"+family(o.name)+"/panic", fmt.Sprintf("%s: query %d panics: %s", o.name, i, p), c)
				return
			}
		}
		after := frozen.Dump(obj)
		if d := frozen.Diff(before, after); d != "" {
			// narrow down to the first query of the block that writes
			obj2 := o.build()
			b2 := frozen.Dump(obj2)
			for i := 0; i < end; i++ {
				o.query(obj2, i)
				if dd := frozen.Diff(b2, frozen.Dump(obj2)); dd != "" {
					c.Query = i
					r.Violation("frozen/"+family(o.name)+"/state-written", fmt.Sprintf("%s: read-only query %d changes the shared object: %s", o.name, i, dd), c)
					return
				}
			}
			c.Query = start
			r.Violation("frozen/"+family(o.name)+"/state-written", fmt.Sprintf("%s: read-only queries %d..%d change the shared object: %s", o.name, start, end-1, d), c)
			return
		}
	}
	// same answers in a second pass in reverse order (history independence of read-only queries)
	for i := o.n - 1; i >= 0; i-- {
		if got := o.query(obj, i); got != first[i] {
			c.Query = i
			r.Violation("frozen/"+family(o.name)+"/answer-depends-on-history", fmt.Sprintf("%s: query %d answered %q first and %q after other queries", o.name, i, first[i], got), c)
			return
		}
	}
	r.NontrivialAdd(1)
}

func family(name string) string {
	if i := strings.IndexByte(name, '('); i >= 0 {
		return name[:i]
	}
	return name
}

func frozenStage(r *ev.Run, only string) {
	objs := frozenObjects(r.Thorough())
	block := 16
	ev.Parallel(len(objs), 16, func(i int) {
		if only != "" && objs[i].name != only {
			return
		}
		checkFrozen(r, objs[i], block)
	})
	r.Set("frozen_objects", len(objs))
	if only == "" {
		derivationStage(r)
	}
}

// ---- building a second object from shared parts ----
//
// Objects are routinely composed from shared parts (one base collider in two scenes, one mesh in two indexes, one
// object wrapped twice). Building the second composite is not a query of the first, but it runs while the first may
// be in use on another goroutine: it must not write to the first composite nor to the shared part. Every derivation
// of the list is applied twice to the same part (with different companions); the complete reachable state of the
// part and of the first composite is fingerprinted before and after the second derivation, and the first composite
// must answer as before.
func derivationStage(r *ev.Run) {
	p3 := model3d.XYZ
	sph := func(x, y, z, rad float64) model3d.Collider { return &model3d.Sphere{Center: p3(x, y, z), Radius: rad} }
	probeColl := func(c model3d.Collider) string {
		var sb strings.Builder
		for i, o := range pts3(3) {
			ray := &model3d.Ray{Origin: o.Scale(1.7), Direction: p3(0.3-float64(i%3)*0.4, 1-float64(i%2)*1.7, 0.2)}
			f, ok := c.FirstRayCollision(ray)
			fmt.Fprint(&sb, c.RayCollisions(ray, nil), ok, f.Scale, c.SphereCollision(o, 0.4), ";")
		}
		return sb.String()
	}
	probeObj := func(o render3d.Object) string {
		var sb strings.Builder
		fmt.Fprint(&sb, o.Min(), o.Max())
		for i, q := range pts3(3) {
			rc, _, ok := o.Cast(&model3d.Ray{Origin: q.Scale(2.5), Direction: p3(0.3-float64(i%3)*0.4, 1-float64(i%2)*1.7, 0.2)})
			fmt.Fprint(&sb, ok, rc.Scale, rc.Normal, ";")
		}
		return sb.String()
	}
	probeSolid := func(s model3d.Solid) string {
		var sb strings.Builder
		for _, q := range pts3(4) {
			fmt.Fprint(&sb, s.Contains(q.Scale(1.3)))
		}
		return sb.String()
	}
	type deriv struct {
		name  string
		part  func() interface{}
		build func(part interface{}, second bool) interface{}
		probe func(o interface{}) string
	}
	// a joined collider whose internal list has spare capacity (3 members), reused as the leading and as a later
	// member of two larger joins whose other members lie inside its bounds
	base3 := func() interface{} {
		return model3d.NewJoinedCollider([]model3d.Collider{sph(-1, 0, 0, 0.5), sph(1, 0, 0, 0.5), sph(0, 1.5, 0, 0.5)})
	}
	mesh := func() interface{} { return model3d.NewMeshIcosphere(p3(0.1, 0.2, 0.3), 1, 1) }
	cobj := func() interface{} {
		return &render3d.ColliderObject{Collider: &model3d.Sphere{Center: p3(0.3, -0.2, 0.1), Radius: 0.8}, Material: &render3d.LambertMaterial{}}
	}
	solids := func() interface{} {
		return []model3d.Solid{&model3d.Sphere{Center: p3(-0.5, 0, 0), Radius: 0.7}, &model3d.Sphere{Center: p3(0.6, 0.1, 0), Radius: 0.6}, model3d.NewRect(p3(-0.2, -1, -0.3), p3(0.3, 1.2, 0.4))}
	}
	ds := []deriv{
		{"NewJoinedCollider(shared first, extra)", base3, func(p interface{}, second bool) interface{} {
			extra := sph(0, 0, 0, 0.2)
			if second {
				extra = sph(0.2, 0.5, 0, 0.1)
			}
			return model3d.NewJoinedCollider([]model3d.Collider{p.(model3d.Collider), extra})
		}, func(o interface{}) string { return probeColl(o.(model3d.Collider)) }},
		{"NewJoinedCollider(extra, shared last)", base3, func(p interface{}, second bool) interface{} {
			extra := sph(0, 0, 0, 0.2)
			if second {
				extra = sph(0.2, 0.5, 0, 0.1)
			}
			return model3d.NewJoinedCollider([]model3d.Collider{extra, p.(model3d.Collider)})
		}, func(o interface{}) string { return probeColl(o.(model3d.Collider)) }},
		{"TransformCollider(shared)", base3, func(p interface{}, second bool) interface{} {
			off := p3(1, 0, 0)
			if second {
				off = p3(0, -2, 0.5)
			}
			return model3d.TransformCollider(&model3d.Translate{Offset: off}, p.(model3d.Collider))
		}, func(o interface{}) string { return probeColl(o.(model3d.Collider)) }},
		{"MeshToCollider(shared mesh)", mesh, func(p interface{}, second bool) interface{} { return model3d.MeshToCollider(p.(*model3d.Mesh)) },
			func(o interface{}) string { return probeColl(o.(model3d.Collider)) }},
		{"MeshToSDF(shared mesh)", mesh, func(p interface{}, second bool) interface{} { return model3d.MeshToSDF(p.(*model3d.Mesh)) },
			func(o interface{}) string {
				var sb strings.Builder
				for _, q := range pts3(3) {
					fmt.Fprintf(&sb, "%.9f;", o.(model3d.SDF).SDF(q))
				}
				return sb.String()
			}},
		{"JoinedSolid(shared slice).Optimize", solids, func(p interface{}, second bool) interface{} {
			s := p.([]model3d.Solid)
			if second {
				return model3d.JoinedSolid(s[:2]).Optimize()
			}
			return model3d.JoinedSolid(s).Optimize()
		}, func(o interface{}) string { return probeSolid(o.(model3d.Solid)) }},
		{"NewSolidMux(shared slice)", solids, func(p interface{}, second bool) interface{} {
			s := p.([]model3d.Solid)
			if second {
				return model3d.NewSolidMux(s[1:])
			}
			return model3d.NewSolidMux(s)
		}, func(o interface{}) string { return probeSolid(o.(*model3d.SolidMux)) }},
	}
	// render objects: every wrapper applied to the result of every wrapper
	type wrap struct {
		name string
		f    func(o render3d.Object, second bool) render3d.Object
	}
	wraps := []wrap{
		{"Translate", func(o render3d.Object, s bool) render3d.Object {
			if s {
				return render3d.Translate(o, p3(0, -2, 0.5))
			}
			return render3d.Translate(o, p3(1, 0, 0))
		}},
		{"Rotate", func(o render3d.Object, s bool) render3d.Object {
			if s {
				return render3d.Rotate(o, p3(0, 1, 0), -0.7)
			}
			return render3d.Rotate(o, p3(0, 0, 1), 1.1)
		}},
		{"Scale", func(o render3d.Object, s bool) render3d.Object {
			if s {
				return render3d.Scale(o, 0.5)
			}
			return render3d.Scale(o, 2)
		}},
		{"MatrixMultiply", func(o render3d.Object, s bool) render3d.Object {
			if s {
				return render3d.MatrixMultiply(o, &model3d.Matrix3{1, 0, 0, 0.5, 1, 0, 0, 0, 2})
			}
			return render3d.MatrixMultiply(o, &model3d.Matrix3{2, 0, 0, 0, 1, 0, 0, 0, 0.5})
		}},
		{"JoinedObject", func(o render3d.Object, s bool) render3d.Object {
			extra := &render3d.ColliderObject{Collider: &model3d.Sphere{Center: p3(2, 2, 2), Radius: 0.3}, Material: &render3d.LambertMaterial{}}
			if s {
				return render3d.JoinedObject{extra, o}
			}
			return render3d.JoinedObject{o, extra}
		}},
	}
	for _, w1 := range wraps {
		for _, w2 := range wraps {
			w1, w2 := w1, w2
			ds = append(ds, deriv{w2.name + "(twice over " + w1.name + "(object))", func() interface{} { return w1.f(cobj().(render3d.Object), false) },
				func(p interface{}, second bool) interface{} { return w2.f(p.(render3d.Object), second) },
				func(o interface{}) string { return probeObj(o.(render3d.Object)) }})
		}
	}
	for _, d := range ds {
		r.Eval(1)
		c := frozenCase{Kind: "derivation", Object: d.name}
		var part, first interface{}
		if p := ev.Try(func() { part = d.part(); first = d.build(part, false) }); p != "" {
			r.Violation("derivation/"+family(d.name)+"/panic", d.name+": "+p, c)
			continue
		}
		answers := d.probe(first)
		partProbe := ""
		if pc, ok := part.(model3d.Collider); ok {
			partProbe = probeColl(pc)
		} else if po, ok := part.(render3d.Object); ok {
			partProbe = probeObj(po)
		}
		bPart, bFirst := frozen.Dump(part), frozen.Dump(first)
		if p := ev.Try(func() { _ = d.build(part, true) }); p != "" {
			r.Violation("derivation/"+family(d.name)+"/panic", d.name+" (second derivation): "+p, c)
			continue
		}
		if dd := frozen.Diff(bPart, frozen.Dump(part)); dd != "" {
			r.Violation("derivation/"+family(d.name)+"/shared-part-written", fmt.Sprintf("%s: building a second object from the shared part changed the part: %s", d.name, dd), c)
			continue
		}
		if dd := frozen.Diff(bFirst, frozen.Dump(first)); dd != "" {
			r.Violation("derivation/"+family(d.name)+"/first-object-written", fmt.Sprintf("%s: building a second object from the shared part changed the first one: %s", d.name, dd), c)
			continue
		}
		if got := d.probe(first); got != answers {
			r.Violation("derivation/"+family(d.name)+"/first-object-answers", d.name+": the first object answers differently after the second one was built", c)
			continue
		}
		if pc, ok := part.(model3d.Collider); ok && probeColl(pc) != partProbe {
			r.Violation("derivation/"+family(d.name)+"/shared-part-answers", d.name+": the shared part answers differently after it was used twice", c)
			continue
		} else if po, ok := part.(render3d.Object); ok && probeObj(po) != partProbe {
			r.Violation("derivation/"+family(d.name)+"/shared-part-answers", d.name+": the shared part answers differently after it was wrapped twice", c)
			continue
		}
		r.NontrivialAdd(1)
	}
	r.Set("derivations", len(ds))
}
