// C13: concurrent read-only use is race-free and matches sequential use.
// Driver: exhaustive preemption-bounded exploration of the real goroutines
// under the cooperative scheduler (instrumented build) + a separate
// free-running -race pass of the same bodies.
package main

import (
	"encoding/json"
	"fmt"
	"os"
	"os/exec"
	"path/filepath"
	"strings"

	"verif/lib/ev"
	"verif/lib/schedrun"
)

func main() {
	r := ev.Start("C13", "model_checking")
	if r.Replay != "" {
		var c schedrun.ReplayCase
		r.LoadReplay(&c)
		if c.Kind == "frozen" || c.Kind == "derivation" {
			var fc frozenCase
			r.LoadReplay(&fc)
			if c.Kind == "derivation" {
				derivationStage(r)
			} else {
				frozenStage(r, fc.Object)
			}
			r.StatesAdd(1)
			r.Transitions(1)
			r.Sample(fc)
			r.Finish()
		}
		schedrun.Build(false)
		if c.Kind == "race" || c.Choices == nil {
			schedrun.Build(true)
			schedrun.RacePass(r, []string{c.Scenario}, 300)
		} else {
			cj, _ := json.Marshal(c.Choices)
			cmd := exec.Command(filepath.Join(ev.Work(), "bin", "sched"), "replay", c.Scenario, string(cj))
			out, err := cmd.CombinedOutput()
			fmt.Print(string(out))
			if err != nil {
				r.Violation("sched/"+schedrun.Family(c.Scenario)+"/"+c.Kind, "replayed schedule violates: "+string(out), c)
			}
		}
		r.StatesAdd(1)
		r.Transitions(1)
		r.Sample("replay")
		r.Finish()
	}
	r.Rule("every interleaving of the real goroutines at every synchronisation operation (atomic.Value, Mutex, WaitGroup, sync.Map, channels, goroutine start/exit; statement-level points inside HeightMap.updateAt) with at most B preemptions, B as reported; " +
		"oracle: no deadlock, no panic, outcome equal to the sequential outcome, a single index object published. states = distinct schedule-tree nodes, transitions = decisions executed, traces = complete executions (every one is an implementation run). " +
		"non-trivial = scenario with more than one execution (and each shared object whose complete reachable state was found unchanged by every read-only query of the lattice alphabet, frozen-state stage). Plus a free-running -race pass of the same bodies and of 8-goroutine read-only query bodies on shared colliders/SDFs/solids/renderers")
	r.Assume("sequential consistency (weaker memory-model effects are outside the scheduler)",
		"code without synchronisation operations is judged by the race detector pass, not by interleaving enumeration",
		"map iteration order is canonical (vmap) in the instrumented build; the global math/rand source is a per-thread deterministic generator")
	r.Isolate("frozen", func() { frozenStage(r, "") })
	if os.Getenv("VERIF_C13_ONLY_FROZEN") != "" {
		r.Finish()
	}
	schedrun.Build(true)
	bound := 2
	if r.Thorough() {
		bound = 3
	}
	names := schedrun.List("C13")
	var jobs []schedrun.Job
	var raceNames []string
	for _, n := range names {
		raceNames = append(raceNames, n)
		if len(n) > 5 && n[:5] == "race-" {
			continue // bodies without synchronisation operations: race pass only
		}
		b := bound
		if len(n) > 17 && n[:18] == "mesh3-lazy/2reader" || len(n) > 17 && n[:18] == "mesh2-lazy/2reader" {
			b = 99 // small enough for the unbounded search
		}
		if strings.HasPrefix(n, "heightmap-disc/") {
			// closed-form scenarios: the point is the worker count against the cell count, the interleavings of the
			// grid updates are explored by the heightmap-spheres scenarios; 1 preemption for <= 3 workers, 0 above
			b = 0
			if strings.Contains(n, "/procs1/") || strings.Contains(n, "/procs2/") || strings.Contains(n, "/procs3/") {
				b = 1
			}
			if r.Thorough() && !strings.Contains(n, "/procs5/") && !strings.Contains(n, "/procs7/") {
				b++ // (with 5 and 7 workers one preemption is already 3 million executions, more than an hour each)
			}
		}
		if strings.HasPrefix(n, "render-progress/") {
			// one preemption (two in the thorough tier), capped: the channel traffic of a render is long
			rb := 1
			if r.Thorough() {
				rb = 2
			}
			jobs = append(jobs, schedrun.Job{Scenario: n, Bound: rb, MaxExecs: 300000})
			continue
		}
		if strings.HasPrefix(n, "heightmap-disc/") {
			// capped at a million executions each (reported as not exhaustive when the cap is reached)
			jobs = append(jobs, schedrun.Job{Scenario: n, Bound: b, MaxExecs: 1000000})
			continue
		}
		if strings.HasPrefix(n, "dc-interior/") {
			// the dual-contouring stages spawn up to 25 threads: delay-bounded like the C12 scenarios of the same code
			jobs = append(jobs, schedrun.Job{Scenario: n, Bound: bound, MaxExecs: 3000000, Delay: true})
			continue
		}
		jobs = append(jobs, schedrun.Job{Scenario: n, Bound: b, MaxExecs: 3000000})
	}
	results := schedrun.Explore(r, jobs)
	schedrun.Report(r, results)
	var bounds []string
	for i, res := range results {
		bounds = append(bounds, fmt.Sprintf("%s: bound=%d executions=%d outcomes=%d", res.Scenario, jobs[i].Bound, res.Executions, res.Outcomes))
	}
	r.Set("per_scenario", bounds)
	r.Set("preemption_bound", bound)
	reps := 200
	if r.Thorough() {
		reps = 2000
	}
	schedrun.RacePass(r, raceNames, reps)
	if st, err := os.ReadFile(filepath.Join(ev.Work(), "instr", "stats.txt")); err == nil {
		r.Set("instrumented_sites", string(st))
	}
	r.Finish()
}
