package main

// The bounding-box helpers everything else in C03 rests on: BoundsValid over every box with corner coordinates in
// {-1, 0, 1, NaN, +Inf, -Inf}, InBounds over lattice points, BoundsUnion over every list of <= 3 boxes of a pool;
// 2D likewise.

import (
	"fmt"
	"math"

	"github.com/unixpickle/model3d/model2d"
	"github.com/unixpickle/model3d/model3d"

	"verif/lib/ev"
)

func bounderStage(r *ev.Run) {
	vals := []float64{-1, 0, 1, math.NaN(), math.Inf(1), math.Inf(-1)}
	fin := func(x float64) bool { return !math.IsNaN(x) && !math.IsInf(x, 0) }
	n := len(vals)
	total := n * n * n * n * n * n
	ev.Parallel(total, 16, func(idx int) {
		var v [6]float64
		x := idx
		for i := range v {
			v[i] = vals[x%n]
			x /= n
		}
		r.Eval(1)
		rc := &model3d.Rect{MinVal: model3d.XYZ(v[0], v[1], v[2]), MaxVal: model3d.XYZ(v[3], v[4], v[5])}
		want := true
		for i := 0; i < 3; i++ {
			if !fin(v[i]) || !fin(v[i+3]) || v[i+3] < v[i] {
				want = false
			}
		}
		if got := model3d.BoundsValid(rc); got != want {
			r.Violation("BoundsValid", fmt.Sprintf("BoundsValid(%v..%v)=%v, want %v", rc.MinVal, rc.MaxVal, got, want), bcase{Solid: fmt.Sprintf("BoundsValid(%v..%v)", rc.MinVal, rc.MaxVal)})
		}
		if idx%(n*n) == 0 {
			r2 := &model2d.Rect{MinVal: model2d.XY(v[0], v[1]), MaxVal: model2d.XY(v[3], v[4])}
			want2 := fin(v[0]) && fin(v[1]) && fin(v[3]) && fin(v[4]) && v[3] >= v[0] && v[4] >= v[1]
			if got := model2d.BoundsValid(r2); got != want2 {
				r.Violation("2d.BoundsValid", fmt.Sprintf("BoundsValid(%v..%v)=%v, want %v", r2.MinVal, r2.MaxVal, got, want2), bcase{Solid: fmt.Sprintf("2d.BoundsValid(%v..%v)", r2.MinVal, r2.MaxVal)})
			}
		}
		if want {
			r.NontrivialAdd(1)
		}
	})
	pool := []*model3d.Rect{
		model3d.NewRect(model3d.XYZ(0, 0, 0), model3d.XYZ(1, 1, 1)),
		model3d.NewRect(model3d.XYZ(-2, 0.5, 0.25), model3d.XYZ(-1, 3, 0.5)),
		model3d.NewRect(model3d.XYZ(0.5, -4, 0.5), model3d.XYZ(0.75, -3, 5)),
		model3d.NewRect(model3d.XYZ(2, 2, -6), model3d.XYZ(7, 2, -5)),
		model3d.NewRect(model3d.XYZ(-0.5, -0.5, -0.5), model3d.XYZ(2, 2, 2)),
	}
	var rec func(cur []int)
	rec = func(cur []int) {
		if len(cur) > 0 {
			bs := make([]*model3d.Rect, len(cur))
			wmin, wmax := model3d.XYZ(math.Inf(1), math.Inf(1), math.Inf(1)), model3d.XYZ(math.Inf(-1), math.Inf(-1), math.Inf(-1))
			for i, k := range cur {
				bs[i] = pool[k]
				wmin, wmax = wmin.Min(pool[k].MinVal), wmax.Max(pool[k].MaxVal)
			}
			r.Eval(1)
			if mn, mx := model3d.BoundsUnion(bs); mn != wmin || mx != wmax {
				r.Violation("BoundsUnion", fmt.Sprintf("BoundsUnion of boxes %v = %v..%v, want %v..%v", cur, mn, mx, wmin, wmax), bcase{Solid: fmt.Sprint("BoundsUnion", cur)})
			}
			r.NontrivialAdd(1)
		}
		if len(cur) == 3 {
			return
		}
		for k := range pool {
			rec(append(append([]int{}, cur...), k))
		}
	}
	rec(nil)
	for _, b := range pool {
		for x := -1.0; x <= 2.5; x += 0.25 {
			for y := -1.0; y <= 3.5; y += 0.25 {
				for z := -1.0; z <= 2.5; z += 0.25 {
					p := model3d.XYZ(x, y, z)
					r.Eval(1)
					want := x >= b.MinVal.X && y >= b.MinVal.Y && z >= b.MinVal.Z && x <= b.MaxVal.X && y <= b.MaxVal.Y && z <= b.MaxVal.Z
					if got := model3d.InBounds(b, p); got != want {
						r.Violation("InBounds", fmt.Sprintf("InBounds(%v..%v, %v)=%v, want %v", b.MinVal, b.MaxVal, p, got, want), bcase{Solid: "InBounds", Point: []float64{x, y, z}})
					}
				}
			}
		}
	}
}
