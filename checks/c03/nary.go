package main

import (
	"fmt"

	"github.com/unixpickle/model3d/model2d"
	"github.com/unixpickle/model3d/model3d"
)

// naryLeaves3: flat combinators with three and four operands in every order. The pairwise trees of combine3 never
// put a third operand behind two whose boxes are already disjoint, nor a box that only the last operand cuts; bounds
// that are accumulated operand by operand (running min/max, early exits, clamping) depend on exactly that.
// Pool: boxes apart on x, a ball between them, a box high on y, a box that contains everything, a box overlapping
// the ball, and a slab that only overlaps the others on z.
func naryPool3() []leaf3 {
	box := func(name string, mn, mx c3) leaf3 {
		return leaf3{name, "Rect", &model3d.Rect{MinVal: mn, MaxVal: mx}, func(p c3) (bool, bool) {
			in := p.X >= mn.X && p.Y >= mn.Y && p.Z >= mn.Z && p.X <= mx.X && p.Y <= mx.Y && p.Z <= mx.Z
			sure := true
			for i, v := range p.Array() {
				if d := v - mn.Array()[i]; d > -1e-9 && d < 1e-9 {
					sure = false
				}
				if d := v - mx.Array()[i]; d > -1e-9 && d < 1e-9 {
					sure = false
				}
			}
			return in, sure
		}}
	}
	ball := leaf3{"Sphere(0,1)", "Sphere", &model3d.Sphere{Center: c3{}, Radius: 1}, func(p c3) (bool, bool) {
		n := p.Norm()
		return n <= 1, n < 1-1e-9 || n > 1+1e-9
	}}
	return []leaf3{
		box("Rect(x 2..3)", model3d.XYZ(2, -1, -1), model3d.XYZ(3, 1, 1)),
		ball,
		box("Rect(x 5..7)", model3d.XYZ(5, -1, -1), model3d.XYZ(7, 1, 1)),
		box("Rect(y 4..6)", model3d.XYZ(-1, 4, -1), model3d.XYZ(6, 6, 1)),
		box("Rect(all)", model3d.XYZ(-9, -9, -9), model3d.XYZ(9, 9, 9)),
		box("Rect(over ball)", model3d.XYZ(0.25, -0.5, -0.5), model3d.XYZ(2.5, 0.5, 0.75)),
		box("Rect(z slab)", model3d.XYZ(-8, -8, 0.25), model3d.XYZ(8, 8, 0.5)),
	}
}

func naryLeaves3(full bool) []leaf3 {
	pool := naryPool3()
	var out []leaf3
	emit := func(ops []leaf3) {
		name := ""
		var ss []model3d.Solid
		var refs []refFn
		for i, o := range ops {
			if i > 0 {
				name += ", "
			}
			name += o.name
			ss = append(ss, o.s)
			refs = append(refs, o.ref)
		}
		all := func(p c3) (bool, bool) {
			in, sure := true, true
			for _, f := range refs {
				x, s := f(p)
				in = in && x
				sure = sure && s
			}
			return in, sure
		}
		add := func(n string, s model3d.Solid, rf refFn) { out = append(out, leaf3{n, fam(n), s, rf}) }
		add("IntersectedSolid{"+name+"}", model3d.IntersectedSolid(ss), all)
		add("JoinedSolid{"+name+"}", model3d.JoinedSolid(ss), or(refs...))
		add("JoinedSolid{"+name+"}.Optimize", model3d.JoinedSolid(ss).Optimize(), or(refs...))
		add("SolidMux{"+name+"}", model3d.NewSolidMux(ss), or(refs...))
		add("SubtractedSolid{IntersectedSolid{"+name+"}, "+ops[0].name+" shifted}", &model3d.SubtractedSolid{Positive: model3d.IntersectedSolid(ss), Negative: model3d.TranslateSolid(ops[0].s, model3d.XYZ(0.3, 0, 0))}, nil)
	}
	n := len(pool)
	for i := 0; i < n; i++ {
		for j := 0; j < n; j++ {
			for k := 0; k < n; k++ {
				emit([]leaf3{pool[i], pool[j], pool[k]})
				if !full && (i+2*j+3*k)%5 != 0 {
					continue
				}
				for l := 0; l < n; l++ {
					emit([]leaf3{pool[i], pool[j], pool[k], pool[l]})
				}
			}
		}
	}
	return out
}

func naryLeaves2() []leaf2 {
	box := func(name string, mn, mx model2d.Coord) leaf2 {
		return leaf2{name, "2d.Rect", &model2d.Rect{MinVal: mn, MaxVal: mx}, nil}
	}
	pool := []leaf2{
		box("2d.Rect(x 2..3)", model2d.XY(2, -1), model2d.XY(3, 1)),
		{"2d.Circle(0,1)", "2d.Circle", &model2d.Circle{Radius: 1}, nil},
		box("2d.Rect(x 5..7)", model2d.XY(5, -1), model2d.XY(7, 1)),
		box("2d.Rect(y 4..6)", model2d.XY(-1, 4), model2d.XY(6, 6)),
		box("2d.Rect(all)", model2d.XY(-9, -9), model2d.XY(9, 9)),
		box("2d.Rect(over disc)", model2d.XY(0.25, -0.5), model2d.XY(2.5, 0.5)),
	}
	var out []leaf2
	n := len(pool)
	for i := 0; i < n; i++ {
		for j := 0; j < n; j++ {
			for k := 0; k < n; k++ {
				ops := []leaf2{pool[i], pool[j], pool[k]}
				name := fmt.Sprintf("%s, %s, %s", ops[0].name, ops[1].name, ops[2].name)
				ss := []model2d.Solid{ops[0].s, ops[1].s, ops[2].s}
				out = append(out, leaf2{"2d.IntersectedSolid{" + name + "}", "2d.IntersectedSolid", model2d.IntersectedSolid(ss), nil})
				out = append(out, leaf2{"2d.JoinedSolid{" + name + "}", "2d.JoinedSolid", model2d.JoinedSolid(ss), nil})
				out = append(out, leaf2{"2d.JoinedSolid{" + name + "}.Optimize", "2d.JoinedSolid", model2d.JoinedSolid(ss).Optimize(), nil})
			}
		}
	}
	return out
}
