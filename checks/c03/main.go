// C03: solids never contain points outside their reported bounding box, and
// boxes imposed on an underlying definition do not cut the shape.
//
// Every leaf of a constructor x parameter alphabet (3D and 2D primitives,
// polytope-, collider-, SDF-, metaball-derived solids, profile / revolve /
// cross-section, toolbox parts) and every expression tree of depth <= 2 over
// a reduced leaf set and the combinators (join, intersect, subtract, stack,
// smooth join, transform, forced/cached bounds, optimised join, mux, clamp) is
// probed at a lattice spanning 1.5x its box and at 5x5 grids just outside
// every face (distances 1e-9 .. 0.5 of the size). Oracle: bounds finite with
// min <= max; Contains false at every probe outside the box; and wherever the
// unboxed reference definition (written here: reference distance fields,
// pulled-back membership, field sums, boolean formulas) says "inside", the
// point is inside the box and Contains says true.
package main

import (
	"fmt"
	"math"
	"strings"

	"github.com/unixpickle/model3d/model2d"
	"github.com/unixpickle/model3d/model3d"
	"github.com/unixpickle/model3d/toolbox3d"

	"verif/lib/cat"
	"verif/lib/ev"
	"verif/lib/lat"
	"verif/lib/ref"
	"verif/lib/topo"
)

type c3 = model3d.Coord3D
type c2 = model2d.Coord

// refFn is the unboxed definition: inside?, and whether the answer is safe to
// judge (false within a rounding band of the reference surface).
type refFn func(p c3) (in, sure bool)

type leaf3 struct {
	name string
	fam  string
	s    model3d.Solid
	ref  refFn
}

type bcase struct {
	Solid string    `json:"solid"`
	Point []float64 `json:"point,omitempty"`
	Min   []float64 `json:"min,omitempty"`
	Max   []float64 `json:"max,omitempty"`
}

func sdfRef(f func(c3) float64, thr, band float64) refFn {
	return func(p c3) (bool, bool) {
		d := f(p)
		return d > thr, !(math.Abs(d-thr) <= band)
	}
}

// ---------------------------------------------------------------- probing

func probes3(mn, mx c3) (pts []c3) {
	size := mx.Sub(mn).Norm()
	if size == 0 || math.IsNaN(size) || math.IsInf(size, 0) {
		size = 1
	}
	ext := mx.Sub(mn)
	for _, a := range []*float64{&ext.X, &ext.Y, &ext.Z} {
		if *a < size*1e-3 {
			*a = size * 1e-3
		}
	}
	ctr := mn.Mid(mx)
	const n = 9
	for i := 0; i < n; i++ {
		for j := 0; j < n; j++ {
			for k := 0; k < n; k++ {
				f := func(t int) float64 { return (float64(t)/float64(n-1) - 0.5) * 1.5 }
				pts = append(pts, ctr.Add(model3d.XYZ(f(i)*ext.X, f(j)*ext.Y, f(k)*ext.Z)).Add(model3d.XYZ(0.00137, -0.00071, 0.00093).Scale(size)))
			}
		}
	}
	mnA, mxA := mn.Array(), mx.Array()
	for axis := 0; axis < 3; axis++ {
		u, v := (axis+1)%3, (axis+2)%3
		for side := 0; side < 2; side++ {
			for _, d := range []float64{1e-9, 1e-6, 1e-3, 0.05, 0.5} {
				for i := 0; i < 5; i++ {
					for j := 0; j < 5; j++ {
						var p [3]float64
						p[u] = mnA[u] + (mxA[u]-mnA[u])*(float64(i)*0.3-0.1)
						p[v] = mnA[v] + (mxA[v]-mnA[v])*(float64(j)*0.3-0.1)
						if side == 0 {
							p[axis] = mnA[axis] - d*size
						} else {
							p[axis] = mxA[axis] + d*size
						}
						pts = append(pts, model3d.NewCoord3DArray(p))
					}
				}
			}
		}
	}
	return
}

func finite3(c c3) bool {
	for _, x := range c.Array() {
		if math.IsNaN(x) || math.IsInf(x, 0) {
			return false
		}
	}
	return true
}

func checkLeaf3(r *ev.Run, l leaf3) {
	var mn, mx c3
	if p := ev.Try(func() { mn, mx = l.s.Min(), l.s.Max() }); p != "" {
		r.Violation(l.fam+"/panic", l.name+": Min/Max panicked: "+p, bcase{Solid: l.name})
		return
	}
	bc := func(p c3) bcase {
		return bcase{l.name, []float64{p.X, p.Y, p.Z}, []float64{mn.X, mn.Y, mn.Z}, []float64{mx.X, mx.Y, mx.Z}}
	}
	r.Eval(1)
	if !finite3(mn) || !finite3(mx) || mn.X > mx.X || mn.Y > mx.Y || mn.Z > mx.Z || !model3d.BoundsValid(l.s) {
		r.Violation(l.fam+"/invalid-bounds", fmt.Sprintf("%s: bounds %v .. %v are not finite with min <= max", l.name, mn, mx), bc(c3{}))
		return
	}
	cutSeen := false
	for _, p := range probes3(mn, mx) {
		outside := p.X < mn.X || p.Y < mn.Y || p.Z < mn.Z || p.X > mx.X || p.Y > mx.Y || p.Z > mx.Z
		r.Eval(1)
		var got bool
		if pn := ev.Try(func() { got = l.s.Contains(p) }); pn != "" {
			r.Violation(l.fam+"/panic", fmt.Sprintf("%s: Contains(%v) panicked: %s", l.name, p, pn), bc(p))
			return
		}
		if outside && got {
			r.Violation(l.fam+"/contains-outside-bounds", fmt.Sprintf("%s contains %v, which is outside its bounds %v .. %v", l.name, p, mn, mx), bc(p))
			return
		}
		if l.ref != nil {
			in, sure := l.ref(p)
			if in && sure {
				cutSeen = true
				if outside {
					r.Violation(l.fam+"/box-cuts-shape", fmt.Sprintf("%s: the underlying definition puts %v inside, but the point is outside the reported bounds %v .. %v", l.name, p, mn, mx), bc(p))
					return
				}
				if !got {
					r.Violation(l.fam+"/defined-inside-not-contained", fmt.Sprintf("%s: the underlying definition puts %v inside (and it is within the bounds %v .. %v) but Contains is false", l.name, p, mn, mx), bc(p))
					return
				}
			}
		}
	}
	if cutSeen {
		r.NontrivialKey(l.name)
	}
}

// ---------------------------------------------------------------- 3D leaves

func prim3(full bool) []leaf3 {
	var out []leaf3
	for _, s := range ref.Shapes3(full) {
		s := s
		out = append(out, leaf3{s.Name, fam(s.Name), s.Obj.(model3d.Solid), sdfRef(s.SDF, 0, 1e-9*(s.Extent+1))})
	}
	return out
}

func fam(name string) string {
	for i, c := range name {
		if c == '(' || c == '{' || c == '[' {
			return name[:i]
		}
	}
	return name
}

type sdfSolid interface {
	model3d.Solid
	model3d.SDF
	model3d.Collider
}

func meshRef(m *model3d.Mesh) func(c3) float64 {
	tris := lat.Tris(m)
	ts := m.TriangleSlice()
	return func(p c3) float64 {
		best := math.Inf(1)
		for _, t := range ts {
			if d := t.Dist(p); d < best {
				best = d
			}
		}
		w := topo.Winding3(tris, p.Array())
		if math.Abs(math.Mod(math.Round(w), 2)) == 1 {
			return best
		}
		return -best
	}
}

func derived3(full bool) []leaf3 {
	var out []leaf3
	add := func(name string, s model3d.Solid, rf refFn) { out = append(out, leaf3{name, fam(name), s, rf}) }
	prims := ref.Shapes3(false)
	var sel []ref.Shape3
	for i, s := range prims {
		if full || i%5 == 0 {
			sel = append(sel, s)
		}
	}
	// thin shapes with outsets larger than their own half thickness (and insets that swallow them): the box of the
	// wrapper must grow by the full outset on every axis
	for _, s := range []ref.Shape3{
		ref.Rect(model3d.XYZ(-2, -1.5, -0.125), model3d.XYZ(2, 1.5, 0.125)),
		ref.Rect(model3d.XYZ(0.5, 0.5, 0.5), model3d.XYZ(0.6, 0.7, 3.5)),
		ref.Sphere(model3d.XYZ(1, -2, 0.5), 0.1),
		ref.Capsule(model3d.XYZ(0, 0, 0), model3d.XYZ(0.05, 0, 0), 0.05),
	} {
		s := s
		obj := s.Obj.(sdfSolid)
		band := 1e-7 * (s.Extent + 1)
		for _, in := range []float64{-0.5, -2, 0.04} {
			add(fmt.Sprintf("NewColliderSolidInset(%s,%g)", s.Name, in), model3d.NewColliderSolidInset(obj, in), sdfRef(s.SDF, in, band))
		}
		for _, rad := range []float64{0.5, 2} {
			rad := rad
			add(fmt.Sprintf("NewColliderSolidHollow(%s,%g)", s.Name, rad), model3d.NewColliderSolidHollow(obj, rad), func(p c3) (bool, bool) {
				d := math.Abs(s.SDF(p))
				return d < rad, !(math.Abs(d-rad) <= band)
			})
		}
	}
	for _, s := range sel {
		s := s
		obj := s.Obj.(sdfSolid)
		band := 1e-7 * (s.Extent + 1)
		add("NewColliderSolid("+s.Name+")", model3d.NewColliderSolid(obj), sdfRef(s.SDF, 0, band))
		for _, in := range []float64{0.1, -0.15} {
			add(fmt.Sprintf("NewColliderSolidInset(%s,%g)", s.Name, in), model3d.NewColliderSolidInset(obj, in), sdfRef(s.SDF, in, band))
		}
		for _, rad := range []float64{0.05, 0.4} {
			rad := rad
			add(fmt.Sprintf("NewColliderSolidHollow(%s,%g)", s.Name, rad), model3d.NewColliderSolidHollow(obj, rad), func(p c3) (bool, bool) {
				d := math.Abs(s.SDF(p))
				return d < rad, !(math.Abs(d-rad) <= band)
			})
		}
		for _, o := range []float64{0, 0.2, -0.1} {
			if -o >= s.Feature/2 {
				// an inset that removes the whole shape has no valid box (the constructor panics): outside the domain
				r0.Skipped(1)
				continue
			}
			add(fmt.Sprintf("SDFToSolid(%s,%g)", s.Name, o), model3d.SDFToSolid(obj, o), sdfRef(s.SDF, -o, band))
		}
	}
	// mesh collider solids
	for _, nm := range cat.Closed3(true)[:3] {
		m := nm.Mesh()
		f := meshRef(m)
		coll := model3d.MeshToCollider(m)
		add("NewColliderSolid(mesh "+nm.Name+")", model3d.NewColliderSolid(coll), sdfRef(f, 0, 1e-7))
		add("NewColliderSolidInset(mesh "+nm.Name+",0.05)", model3d.NewColliderSolidInset(coll, 0.05), sdfRef(f, 0.05, 1e-7))
		add("NewColliderSolidInset(mesh "+nm.Name+",-0.2)", model3d.NewColliderSolidInset(coll, -0.2), sdfRef(f, -0.2, 1e-7))
		add("NewColliderSolidHollow(mesh "+nm.Name+",0.1)", model3d.NewColliderSolidHollow(coll, 0.1), func(p c3) (bool, bool) {
			d := math.Abs(f(p))
			return d < 0.1, !(math.Abs(d-0.1) <= 1e-7)
		})
		add("SDFToSolid(MeshToSDF "+nm.Name+",0.15)", model3d.SDFToSolid(model3d.MeshToSDF(m), 0.15), sdfRef(f, -0.15, 1e-7))
	}
	// polytopes
	pr := model3d.NewConvexPolytopeRect(model3d.XYZ(-1, 0.5, 2), model3d.XYZ(0.5, 1, 4))
	polyRef := func(cp model3d.ConvexPolytope) refFn {
		return func(p c3) (bool, bool) {
			in, sure := true, true
			for _, l := range cp {
				d := l.Max - l.Normal.Dot(p)
				if d < 0 {
					in = false
				}
				if math.Abs(d) < 1e-9*(1+math.Abs(l.Max)) {
					sure = false
				}
			}
			return in, sure
		}
	}
	add("ConvexPolytopeRect.Solid", pr.Solid(), polyRef(pr))
	tet := model3d.ConvexPolytope{
		{Normal: model3d.XYZ(-3, 0, 0), Max: 0}, {Normal: model3d.XYZ(0, -0.5, 0), Max: 0.25}, {Normal: model3d.XYZ(0, 0, -1), Max: 1},
		{Normal: model3d.XYZ(1, 2, 3), Max: 4},
	}
	add("ConvexPolytope(tetrahedron, unnormalised).Solid", tet.Solid(), polyRef(tet))
	prism := model3d.ConvexPolytope{
		{Normal: model3d.XYZ(1, 1, 0).Normalize(), Max: 1}, {Normal: model3d.XYZ(-1, 1, 0).Normalize(), Max: 1}, {Normal: model3d.XYZ(0, -1, 0.2), Max: 0.5},
		{Normal: model3d.XYZ(0, 0, 1), Max: 2}, {Normal: model3d.XYZ(0.1, 0, -1), Max: 1},
	}
	add("ConvexPolytope(prism).Solid", prism.Solid(), polyRef(prism))

	// metaballs
	sph := &model3d.Sphere{Center: model3d.XYZ(0.2, -0.3, 0.1), Radius: 0.6}
	sph2 := &model3d.Sphere{Center: model3d.XYZ(1.1, 0.4, -0.2), Radius: 0.4}
	caps := &model3d.Capsule{P1: model3d.XYZ(-1, 0, 0.5), P2: model3d.XYZ(0.5, 1.2, 0.8), Radius: 0.3}
	balls := map[string]model3d.Metaball{
		"sphere":              model3d.SDFToMetaball(sph),
		"sphere2":             model3d.SDFToMetaball(sph2),
		"capsule":             model3d.SDFToMetaball(caps),
		"vecscaled(2,1,.5)":   model3d.VecScaleMetaball(model3d.SDFToMetaball(sph), model3d.XYZ(2, 1, 0.5)),
		"vecscaled(.3,1,1)":   model3d.VecScaleMetaball(model3d.SDFToMetaball(caps), model3d.XYZ(0.3, 1, 1)),
		"vecscaled(-3,1,.5)":  model3d.VecScaleMetaball(model3d.SDFToMetaball(sph), model3d.XYZ(-3, 1, 0.5)),
		"vecscaled(1,-2,-.5)": model3d.VecScaleMetaball(model3d.SDFToMetaball(sph2), model3d.XYZ(1, -2, -0.5)),
		"scaled(3)":           model3d.ScaleMetaball(model3d.SDFToMetaball(sph2), 3),
		"rotated+translated":  model3d.TransformMetaball(model3d.JoinedTransform{model3d.Rotation(model3d.XYZ(1, 1, 0).Normalize(), 0.8), &model3d.Translate{Offset: model3d.XYZ(0.5, -2, 1)}}, model3d.SDFToMetaball(caps)),
	}
	combos := [][]string{{"sphere"}, {"capsule"}, {"vecscaled(2,1,.5)"}, {"vecscaled(.3,1,1)"}, {"vecscaled(-3,1,.5)"}, {"vecscaled(1,-2,-.5)"}, {"vecscaled(-3,1,.5)", "capsule"}, {"scaled(3)"}, {"rotated+translated"},
		{"sphere", "sphere2"}, {"sphere", "capsule", "sphere2"}, {"vecscaled(2,1,.5)", "rotated+translated"}, {"scaled(3)", "vecscaled(.3,1,1)", "sphere"}}
	for _, cb := range combos {
		for _, rt := range []float64{0.05, 0.3, 1.5} {
			var ms []model3d.Metaball
			for _, n := range cb {
				if balls[n] == nil {
					ev.Fatal("metaball %q is not in the alphabet", n)
				}
				ms = append(ms, balls[n])
			}
			thr := model3d.QuarticMetaballFalloffFunc(rt)
			var s model3d.Solid
			name := fmt.Sprintf("MetaballSolid(nil,%g,%v)", rt, cb)
			if p := ev.Try(func() { s = model3d.MetaballSolid(nil, rt, ms...) }); p != "" {
				r0.Violation("MetaballSolid/panic", name+": "+p, bcase{Solid: name})
				continue
			}
			add(name, s, func(p c3) (bool, bool) {
				sum := 0.0
				for _, m := range ms {
					sum += model3d.QuarticMetaballFalloffFunc(m.MetaballField(p))
				}
				return sum > thr, !(math.Abs(sum-thr) <= 1e-9*thr)
			})
		}
	}

	// profile / revolve
	for _, s2 := range shapes2sel(full) {
		s2 := s2
		o2 := s2.Obj.(model2d.Solid)
		add("ProfileSolid("+s2.Name+",-0.5,1.25)", model3d.ProfileSolid(o2, -0.5, 1.25), func(p c3) (bool, bool) {
			d := s2.SDF(p.XY())
			return d > 0 && p.Z >= -0.5 && p.Z <= 1.25, !(math.Abs(d) <= 1e-9) && !(math.Abs(p.Z+0.5) <= 1e-9) && !(math.Abs(p.Z-1.25) <= 1e-9)
		})
		for _, ax := range []c3{{Z: 1}, {X: 1, Y: 1}, {X: 0.3, Y: -0.2, Z: 0.9}, {Y: -2}} {
			ax := ax
			u := ax.Normalize()
			add(fmt.Sprintf("RevolveSolid(%s,axis=%v)", s2.Name, ax), model3d.RevolveSolid(o2, ax), func(p c3) (bool, bool) {
				y := u.Dot(p)
				x := p.Sub(u.Scale(y)).Norm()
				// documented: the union of both reflections of the 2D solid is used
				d1, d2 := s2.SDF(model2d.XY(x, y)), s2.SDF(model2d.XY(-x, y))
				return d1 > 0 || d2 > 0, !(math.Abs(d1) <= 1e-9) && !(math.Abs(d2) <= 1e-9)
			})
		}
	}

	negRect := model2d.NewRect(model2d.XY(-2, -0.5), model2d.XY(-1, 1))
	add("RevolveSolid(Rect on the negative side x in [-2,-1], axis=Z)", model3d.RevolveSolid(negRect, model3d.Z(1)), func(p c3) (bool, bool) {
		x, y := math.Hypot(p.X, p.Y), p.Z
		return x > 1 && x < 2 && y > -0.5 && y < 1, !(math.Abs(x-1) <= 1e-9) && !(math.Abs(x-2) <= 1e-9) && !(math.Abs(y+0.5) <= 1e-9) && !(math.Abs(y-1) <= 1e-9)
	})

	// toolbox parts
	for _, ax := range ref.Axes {
		for _, l := range []float64{0.4, 3} {
			p1 := model3d.XYZ(1, -2, 0.5)
			p2 := p1.Add(ax.Normalize().Scale(l))
			for _, pointed := range []bool{false, true} {
				add(fmt.Sprintf("ScrewSolid(%v,%v,r=0.5,groove=0.1,pointed=%v)", p1, p2, pointed), &toolbox3d.ScrewSolid{P1: p1, P2: p2, Radius: 0.5, GrooveSize: 0.1, Pointed: pointed}, nil)
			}
			td := toolbox3d.Teardrop3D(p1, p2, 0.4)
			add(fmt.Sprintf("Teardrop3D(%v,%v,0.4)", p1, p2), td, teardropRef(p1, p2, 0.4))
			add(fmt.Sprintf("LineJoin(0.3,%v-%v)", p1, p2), toolbox3d.LineJoin(0.3, model3d.NewSegment(p1, p2), model3d.NewSegment(p2, model3d.XYZ(0, 0, 0))), func(p c3) (bool, bool) {
				s1, s2 := model3d.NewSegment(p1, p2), model3d.NewSegment(p2, model3d.XYZ(0, 0, 0))
				d := math.Min(s1.Dist(p), s2.Dist(p))
				return d < 0.3, !(math.Abs(d-0.3) <= 1e-9)
			})
			l1ref := func(p c3) (bool, bool) {
				s1 := model3d.NewSegment(p1, p2)
				// inside if within L1 distance of an end point (ball) - a subset of the definition that is cheap to state
				d := math.Min(p.L1Dist(p1), p.L1Dist(p2))
				_ = s1
				return d < 0.3, !(math.Abs(d-0.3) <= 1e-9)
			}
			add(fmt.Sprintf("L1LineJoin(0.3,%v-%v)", p1, p2), toolbox3d.L1LineJoin(0.3, model3d.NewSegment(p1, p2)), l1ref)
			add(fmt.Sprintf("TriangularPolygon(0.2,closed,%v,%v,origin)", p1, p2), toolbox3d.TriangularPolygon(0.2, true, p1, p2, model3d.XYZ(0, 0, 0)), nil)
			add(fmt.Sprintf("TriangularLine(0.2,%v,%v)", p1, p2), toolbox3d.TriangularLine(0.2, p1, p2), nil)
			gp := toolbox3d.InvoluteGearProfile(20*math.Pi/180, 0.1, 0.02, 12)
			// a gear is a toothed cylinder around the P1-P2 axis: everything closer to the axis than
			// the root circle (pitch radius x cos(pressure angle) - clearance) and between the end planes is inside
			root := 0.1*12/2*math.Cos(20*math.Pi/180) - 0.02
			u := p2.Sub(p1).Normalize()
			gearRef := func(p c3) (bool, bool) {
				d := p.Sub(p1)
				z := d.Dot(u)
				rho := d.Sub(u.Scale(z)).Norm()
				return rho < root*0.95 && z > 0 && z < l, !(math.Abs(z) <= 1e-9) && !(math.Abs(z-l) <= 1e-9)
			}
			add(fmt.Sprintf("SpurGear(%v,%v)", p1, p2), &toolbox3d.SpurGear{P1: p1, P2: p2, Profile: gp}, gearRef)
			add(fmt.Sprintf("HelicalGear(%v,%v,0.3)", p1, p2), &toolbox3d.HelicalGear{P1: p1, P2: p2, Profile: gp, Angle: 0.3}, gearRef)
		}
	}
	add("TriangularBall(0.5,(1,2,3))", toolbox3d.TriangularBall(0.5, model3d.XYZ(1, 2, 3)), func(p c3) (bool, bool) {
		d := p.L1Dist(model3d.XYZ(1, 2, 3))
		return d < 0.5, !(math.Abs(d-0.5) <= 1e-9)
	})
	inner := &model3d.Sphere{Center: model3d.XYZ(0, 0, 1), Radius: 1}
	add("Ramp(sphere,(0,0,0)->(0,0,2))", &toolbox3d.Ramp{Solid: inner, P1: model3d.XYZ(0, 0, 0), P2: model3d.XYZ(0, 0, 2)}, nil)
	add("Ramp(sphere,(1,0,2)->(-1,0.5,0))", &toolbox3d.Ramp{Solid: inner, P1: model3d.XYZ(1, 0, 2), P2: model3d.XYZ(-1, 0.5, 0)}, nil)
	for _, cl := range [][2]float64{{-0.5, 0.5}, {0.5, 5}, {-5, -0.2}, {3, 4}, {0.3, 0.3}, {2, 1}} {
		cl := cl
		for axis := 0; axis < 3; axis++ {
			axis := axis
			add(fmt.Sprintf("ClampAxis(sphere(0,0,1;1),axis%d,%g,%g)", axis, cl[0], cl[1]), toolbox3d.ClampAxis(inner, toolbox3d.Axis(axis), cl[0], cl[1]), func(p c3) (bool, bool) {
				v := p.Array()[axis]
				d := 1 - p.Dist(inner.Center)
				return d > 0 && v >= cl[0] && v <= cl[1], !(math.Abs(d) <= 1e-9) && !(math.Abs(v-cl[0]) <= 1e-9) && !(math.Abs(v-cl[1]) <= 1e-9)
			})
		}
	}
	add("ClampZMin(sphere,0.5)", toolbox3d.ClampZMin(inner, 0.5), func(p c3) (bool, bool) {
		d := 1 - p.Dist(inner.Center)
		return d > 0 && p.Z >= 0.5, !(math.Abs(d) <= 1e-9) && !(math.Abs(p.Z-0.5) <= 1e-9)
	})
	add("ClampXMax(sphere,-0.25)", toolbox3d.ClampXMax(inner, -0.25), func(p c3) (bool, bool) {
		d := 1 - p.Dist(inner.Center)
		return d > 0 && p.X <= -0.25, !(math.Abs(d) <= 1e-9) && !(math.Abs(p.X+0.25) <= 1e-9)
	})
	// every named wrapper of the clamp family (each is its own line of code), on both sides of the sphere's centre
	type clampFn struct {
		name string
		f    func(model3d.Solid, float64) model3d.Solid
		axis int
		max  bool
	}
	for _, cf := range []clampFn{
		{"ClampXMin", toolbox3d.ClampXMin, 0, false}, {"ClampXMax", toolbox3d.ClampXMax, 0, true},
		{"ClampYMin", toolbox3d.ClampYMin, 1, false}, {"ClampYMax", toolbox3d.ClampYMax, 1, true},
		{"ClampZMin", toolbox3d.ClampZMin, 2, false}, {"ClampZMax", toolbox3d.ClampZMax, 2, true},
		{"ClampAxisMin(Y)", func(s model3d.Solid, v float64) model3d.Solid { return toolbox3d.ClampAxisMin(s, toolbox3d.AxisY, v) }, 1, false},
		{"ClampAxisMax(Z)", func(s model3d.Solid, v float64) model3d.Solid { return toolbox3d.ClampAxisMax(s, toolbox3d.AxisZ, v) }, 2, true},
	} {
		cf := cf
		for _, v := range []float64{-0.25, 0.5, 1.5, -3, 3} {
			v := v
			add(fmt.Sprintf("%s(sphere(0,0,1;1),%g)", cf.name, v), cf.f(inner, v), func(p c3) (bool, bool) {
				d := 1 - p.Dist(inner.Center)
				x := p.Array()[cf.axis]
				keep := x >= v
				if cf.max {
					keep = x <= v
				}
				return d > 0 && keep, !(math.Abs(d) <= 1e-9) && !(math.Abs(x-v) <= 1e-9)
			})
		}
	}
	// predicates behind the explicit bounds check: the predicate alone is an unbounded half space / slab / everything
	for _, bx := range [][2]c3{{model3d.XYZ(-1, -2, 0.5), model3d.XYZ(2, 1, 3)}, {model3d.XYZ(0, 0, 0), model3d.XYZ(1, 1e-3, 1)}, {model3d.XYZ(-4, -4, -4), model3d.XYZ(-3, -3.5, -1)}} {
		mn, mx := bx[0], bx[1]
		in := func(p c3) bool {
			return p.X >= mn.X && p.Y >= mn.Y && p.Z >= mn.Z && p.X <= mx.X && p.Y <= mx.Y && p.Z <= mx.Z
		}
		near := func(p c3) bool {
			for i := 0; i < 3; i++ {
				if math.Abs(p.Array()[i]-mn.Array()[i]) <= 1e-9 || math.Abs(p.Array()[i]-mx.Array()[i]) <= 1e-9 {
					return true
				}
			}
			return false
		}
		mid := mn.Mid(mx)
		add(fmt.Sprintf("CheckedFuncSolid(%v,%v,everything)", mn, mx), model3d.CheckedFuncSolid(mn, mx, func(c3) bool { return true }), func(p c3) (bool, bool) { return in(p), !near(p) })
		add(fmt.Sprintf("CheckedFuncSolid(%v,%v,halfspace)", mn, mx), model3d.CheckedFuncSolid(mn, mx, func(p c3) bool { return p.X+p.Y+p.Z > mid.X+mid.Y+mid.Z }),
			func(p c3) (bool, bool) {
				h := p.X + p.Y + p.Z - (mid.X + mid.Y + mid.Z)
				return in(p) && h > 0, !near(p) && !(math.Abs(h) <= 1e-9)
			})
		add(fmt.Sprintf("Rect(%v,%v).Expand(0.25)", mn, mx), model3d.NewRect(mn, mx).Expand(0.25), func(p c3) (bool, bool) {
			q := p.Sub(mid)
			h := mx.Sub(mn).Scale(0.5).AddScalar(0.25)
			dx, dy, dz := math.Abs(q.X)-h.X, math.Abs(q.Y)-h.Y, math.Abs(q.Z)-h.Z
			m := math.Max(dx, math.Max(dy, dz))
			return m <= 0, !(math.Abs(dx) <= 1e-9) && !(math.Abs(dy) <= 1e-9) && !(math.Abs(dz) <= 1e-9)
		})
	}
	hm := toolbox3d.NewHeightMap(model2d.XY(-1, -0.5), model2d.XY(1, 1), 16)
	hm.AddSphere(model2d.XY(0.2, 0.1), 0.5)
	hm.AddSphere(model2d.XY(-0.6, 0.5), 0.3)
	add("HeightMapToSolid(two spheres)", toolbox3d.HeightMapToSolid(hm), nil)
	add("HeightMapToSolidBidir(two spheres)", toolbox3d.HeightMapToSolidBidir(hm), nil)
	empty := toolbox3d.NewHeightMap(model2d.XY(0, 0), model2d.XY(1, 2), 8)
	add("HeightMapToSolid(flat)", toolbox3d.HeightMapToSolid(empty), nil)
	add("RadialCurve(helix,8,open)", toolbox3d.RadialCurve(8, false, func(t float64) (c3, float64) {
		return model3d.XYZ(math.Cos(4*t), math.Sin(4*t), t), 0.1 + 0.1*t
	}), nil)
	add("RadialCurve(circle,6,closed)", toolbox3d.RadialCurve(6, true, func(t float64) (c3, float64) {
		return model3d.XYZ(math.Cos(2*math.Pi*t), math.Sin(2*math.Pi*t), 0.2), 0.15
	}), nil)
	rs := toolbox3d.NewRectSet()
	rs.Add(model3d.NewRect(model3d.XYZ(0, 0, 0), model3d.XYZ(1, 2, 1)))
	rs.Add(model3d.NewRect(model3d.XYZ(0.5, 1, 0.5), model3d.XYZ(2, 3, 1.5)))
	rs.Remove(model3d.NewRect(model3d.XYZ(0.25, 0.5, 0.25), model3d.XYZ(0.75, 1.5, 2)))
	add("RectSet{2 boxes - 1}.Solid", rs.Solid(), nil)
	add("RectSet{}.Solid", toolbox3d.NewRectSet().Solid(), nil)
	return out
}

// teardropRef: membership of the extruded teardrop in the frame (x, y=tip, z=axis) built from p1,p2
// exactly as documented: circle of the radius plus the tangent triangle whose tip points along +Z
// where possible (else +Y), extended from p1 to p2.
func teardropRef(p1, p2 c3, rad float64) refFn {
	zv := p2.Sub(p1).Normalize()
	yv := model3d.Z(1).ProjectOut(zv)
	if yv.Norm() < 1e-5 {
		yv = model3d.Y(1).ProjectOut(zv)
	}
	yv = yv.Normalize()
	xv := yv.Cross(zv)
	length := p1.Dist(p2)
	return func(p c3) (bool, bool) {
		d := p.Sub(p1)
		x, y, z := d.Dot(xv), d.Dot(yv), d.Dot(zv)
		if z < 0 || z > length {
			return false, !(math.Abs(z) <= 1e-9) && !(math.Abs(z-length) <= 1e-9)
		}
		sure := !(math.Abs(z) <= 1e-9) && !(math.Abs(z-length) <= 1e-9)
		rr := math.Hypot(x, y)
		if math.Abs(rr-rad) < 1e-9 {
			sure = false
		}
		if rr < rad {
			return true, sure
		}
		// triangle: |x| + y <= sqrt2 * rad and y >= rad/sqrt2
		if math.Abs(math.Abs(x)+y-math.Sqrt2*rad) < 1e-9 || math.Abs(y-rad/math.Sqrt2) < 1e-9 {
			sure = false
		}
		return y >= rad/math.Sqrt2 && math.Abs(x)+y <= math.Sqrt2*rad, sure
	}
}

func shapes2sel(full bool) []ref.Shape2 {
	all := ref.Shapes2()
	if full {
		return all
	}
	var out []ref.Shape2
	for i, s := range all {
		if i%3 == 0 {
			out = append(out, s)
		}
	}
	return out
}

var r0 *ev.Run

// ---------------------------------------------------------------- combinators

func transforms3() []struct {
	name string
	t    model3d.Transform
} {
	return []struct {
		name string
		t    model3d.Transform
	}{
		{"Translate(1,-2,0.5)", &model3d.Translate{Offset: model3d.XYZ(1, -2, 0.5)}},
		{"Scale(0.5)", &model3d.Scale{Scale: 0.5}},
		{"VecScale(2,1,0.5)", &model3d.VecScale{Scale: model3d.XYZ(2, 1, 0.5)}},
		{"VecScale(-1,2,1)", &model3d.VecScale{Scale: model3d.XYZ(-1, 2, 1)}},
		{"Matrix3(general)", &model3d.Matrix3Transform{Matrix: &model3d.Matrix3{2, 0.3, -0.1, -0.4, 1.5, 0.2, 0.1, 0.7, -1.2}}},
		{"Rotation(diag,2.1)", model3d.Rotation(model3d.XYZ(1, 1, 1).Normalize(), 2.1)},
		{"Rotation(Z,pi/4)", model3d.Rotation(model3d.Z(1), math.Pi/4)},
		{"AxisSqueeze(Z,0.2..1.2,0.1)", &toolbox3d.AxisSqueeze{Axis: toolbox3d.AxisZ, Min: 0.2, Max: 1.2, Ratio: 0.1}},
		{"AxisPinch(Y,-1..1,3)", &toolbox3d.AxisPinch{Axis: toolbox3d.AxisY, Min: -1, Max: 1, Power: 3}},
		// chains whose neighbours are of the same kind and do not commute (a chain that merges neighbours must merge
		// them in application order), also nested and inverted
		{"Joined(Matrix3 stretch, Matrix3 quarter turn)", model3d.JoinedTransform{&model3d.Matrix3Transform{Matrix: &model3d.Matrix3{3, 0, 0, 0, 1, 0, 0, 0, 0.5}}, &model3d.Matrix3Transform{Matrix: &model3d.Matrix3{0, 1, 0, -1, 0, 0, 0, 0, 1}}}},
		{"Joined(Matrix3 shear, Matrix3 general, Matrix3 stretch)", model3d.JoinedTransform{&model3d.Matrix3Transform{Matrix: &model3d.Matrix3{1, 0, 0, 0.5, 1, 0, 0, -0.25, 1}}, &model3d.Matrix3Transform{Matrix: &model3d.Matrix3{2, 0.3, -0.1, -0.4, 1.5, 0.2, 0.1, 0.7, -1.2}}, &model3d.Matrix3Transform{Matrix: &model3d.Matrix3{3, 0, 0, 0, 1, 0, 0, 0, 0.5}}}},
		{"Joined(VecScale, VecScale, Translate, Translate)", model3d.JoinedTransform{&model3d.VecScale{Scale: model3d.XYZ(3, 1, 0.5)}, &model3d.VecScale{Scale: model3d.XYZ(-1, 2, 1)}, &model3d.Translate{Offset: model3d.XYZ(1, 0, 0)}, &model3d.Translate{Offset: model3d.XYZ(0, -2, 0.5)}}},
		{"Joined(Rotation, Rotation)", model3d.JoinedTransform{model3d.Rotation(model3d.X(1), math.Pi/2), model3d.Rotation(model3d.Z(1), 0.7)}},
		{"Joined(Joined(stretch, turn), shear).Inverse", model3d.JoinedTransform{model3d.JoinedTransform{&model3d.Matrix3Transform{Matrix: &model3d.Matrix3{3, 0, 0, 0, 1, 0, 0, 0, 0.5}}, &model3d.Matrix3Transform{Matrix: &model3d.Matrix3{0, 1, 0, -1, 0, 0, 0, 0, 1}}}, &model3d.Matrix3Transform{Matrix: &model3d.Matrix3{1, 0, 0, 0.5, 1, 0, 0, -0.25, 1}}}.Inverse()},
		{"Joined(Rotation,Translate,VecScale)", model3d.JoinedTransform{model3d.Rotation(model3d.XYZ(0.3, -0.2, 0.9).Normalize(), -1.3), &model3d.Translate{Offset: model3d.XYZ(0, 0, 3)}, &model3d.VecScale{Scale: model3d.XYZ(1, -0.5, 2)}}},
	}
}

func and(a, b refFn, neg bool) refFn {
	if a == nil || b == nil {
		return nil
	}
	return func(p c3) (bool, bool) {
		x, sx := a(p)
		y, sy := b(p)
		if neg {
			y = !y
		}
		return x && y, sx && sy
	}
}

func or(fs ...refFn) refFn {
	for _, f := range fs {
		if f == nil {
			return nil
		}
	}
	return func(p c3) (bool, bool) {
		in, sure := false, true
		for _, f := range fs {
			x, s := f(p)
			in = in || x
			sure = sure && s
		}
		return in, sure
	}
}

func combine3(a, b leaf3) []leaf3 {
	var out []leaf3
	add := func(name string, s model3d.Solid, rf refFn) { out = append(out, leaf3{name, fam(name), s, rf}) }
	add("JoinedSolid{"+a.name+", "+b.name+"}", model3d.JoinedSolid{a.s, b.s}, or(a.ref, b.ref))
	add("IntersectedSolid{"+a.name+", "+b.name+"}", model3d.IntersectedSolid{a.s, b.s}, and(a.ref, b.ref, false))
	add("SubtractedSolid{"+a.name+", "+b.name+"}", &model3d.SubtractedSolid{Positive: a.s, Negative: b.s}, and(a.ref, b.ref, true))
	add("JoinedSolid{"+a.name+", "+b.name+"}.Optimize", model3d.JoinedSolid{a.s, b.s, a.s}.Optimize(), or(a.ref, b.ref))
	add("SolidMux{"+a.name+", "+b.name+"}", model3d.NewSolidMux([]model3d.Solid{a.s, b.s}), or(a.ref, b.ref))
	add("CacheSolidBounds(IntersectedSolid{"+a.name+", "+b.name+"})", model3d.CacheSolidBounds(model3d.IntersectedSolid{a.s, b.s}), and(a.ref, b.ref, false))
	// stacking: b lifted so that its box sits on a's
	dz := a.s.Max().Z - b.s.Min().Z
	var shifted refFn
	if b.ref != nil {
		shifted = func(p c3) (bool, bool) { return b.ref(p.Sub(model3d.Z(dz))) }
	}
	add("StackSolids("+a.name+", "+b.name+")", model3d.StackSolids(a.s, b.s), or(a.ref, shifted))
	add("StackedSolid{"+a.name+", "+b.name+"}", model3d.StackedSolid{a.s, b.s}, or(a.ref, shifted))
	return out
}

func unary3(a leaf3) []leaf3 {
	var out []leaf3
	add := func(name string, s model3d.Solid, rf refFn) { out = append(out, leaf3{name, fam(name), s, rf}) }
	for _, t := range transforms3() {
		t := t
		inv := t.t.Inverse()
		var rf refFn
		if a.ref != nil {
			rf = func(p c3) (bool, bool) { return a.ref(inv.Apply(p)) }
		}
		add("TransformSolid("+t.name+", "+a.name+")", model3d.TransformSolid(t.t, a.s), rf)
	}
	mn, mx := a.s.Min(), a.s.Max()
	fmn, fmx := mn.Add(mx.Sub(mn).Scale(0.25)), mx.Sub(mx.Sub(mn).Scale(0.1))
	var rf refFn
	if a.ref != nil {
		rf = func(p c3) (bool, bool) {
			in, sure := a.ref(p)
			inb := p.X >= fmn.X && p.Y >= fmn.Y && p.Z >= fmn.Z && p.X <= fmx.X && p.Y <= fmx.Y && p.Z <= fmx.Z
			for i, v := range p.Array() {
				if math.Abs(v-fmn.Array()[i]) < 1e-9 || math.Abs(v-fmx.Array()[i]) < 1e-9 {
					sure = false
				}
			}
			return in && inb, sure
		}
	}
	add("ForceSolidBounds("+a.name+", inner box)", model3d.ForceSolidBounds(a.s, fmn, fmx), rf)
	add("ForceSolidBounds("+a.name+", larger box)", model3d.ForceSolidBounds(a.s, mn.Sub(model3d.XYZ(1, 2, 3)), mx.Add(model3d.XYZ(3, 2, 1))), a.ref)
	add("CacheSolidBounds("+a.name+")", model3d.CacheSolidBounds(a.s), a.ref)
	add("TranslateSolid("+a.name+")", model3d.TranslateSolid(a.s, model3d.XYZ(-3, 0.5, 7)), shiftRef(a.ref, model3d.XYZ(-3, 0.5, 7)))
	add("ScaleSolid("+a.name+",2.5)", model3d.ScaleSolid(a.s, 2.5), scaleRef(a.ref, model3d.XYZ(2.5, 2.5, 2.5)))
	add("VecScaleSolid("+a.name+",(-2,1,0.25))", model3d.VecScaleSolid(a.s, model3d.XYZ(-2, 1, 0.25)), scaleRef(a.ref, model3d.XYZ(-2, 1, 0.25)))
	rot := model3d.Rotation(model3d.XYZ(1, 2, -1).Normalize(), 1.1)
	rinv := rot.Inverse()
	var rr refFn
	if a.ref != nil {
		rr = func(p c3) (bool, bool) { return a.ref(rinv.Apply(p)) }
	}
	add("RotateSolid("+a.name+")", model3d.RotateSolid(a.s, model3d.XYZ(1, 2, -1).Normalize(), 1.1), rr)
	return out
}

func shiftRef(f refFn, o c3) refFn {
	if f == nil {
		return nil
	}
	return func(p c3) (bool, bool) { return f(p.Sub(o)) }
}

func scaleRef(f refFn, s c3) refFn {
	if f == nil {
		return nil
	}
	return func(p c3) (bool, bool) { return f(model3d.XYZ(p.X/s.X, p.Y/s.Y, p.Z/s.Z)) }
}

func smooth3(full bool) []leaf3 {
	var out []leaf3
	type sd interface {
		model3d.SDF
		model3d.NormalSDF
	}
	pool := []sd{
		&model3d.Sphere{Center: model3d.XYZ(0, 0, 0), Radius: 1},
		&model3d.Sphere{Center: model3d.XYZ(1.3, 0.2, 0.1), Radius: 0.8},
		model3d.NewRect(model3d.XYZ(-0.4, -1.6, -0.7), model3d.XYZ(0.9, -0.3, 0.6)),
		&model3d.Cylinder{P1: model3d.XYZ(0.2, -0.1, -1.4), P2: model3d.XYZ(0.5, 0.3, 1.3), Radius: 0.45},
	}
	for i := range pool {
		for j := range pool {
			for _, rad := range []float64{0, 0.2, 0.7} {
				a, b, rad := pool[i], pool[j], rad
				// unboxed definition (order-independent form): inside an operand, or the two
				// largest distances d1>=d2 satisfy max(0,d1+r)^2+max(0,d2+r)^2 > r^2
				rf := func(p c3) (bool, bool) {
					d1, d2 := a.SDF(p), b.SDF(p)
					if d1 > 0 || d2 > 0 {
						return true, !(math.Abs(d1) <= 1e-9) && !(math.Abs(d2) <= 1e-9)
					}
					e1, e2 := math.Max(0, d1+rad), math.Max(0, d2+rad)
					v := e1*e1 + e2*e2 - rad*rad
					return v > 0, !(math.Abs(v) <= 1e-9)
				}
				out = append(out, leaf3{fmt.Sprintf("SmoothJoin(%g,pool%d,pool%d)", rad, i, j), "SmoothJoin", model3d.SmoothJoin(rad, a, b), rf})
				out = append(out, leaf3{fmt.Sprintf("SmoothJoinV2(%g,pool%d,pool%d)", rad, i, j), "SmoothJoinV2", model3d.SmoothJoinV2(rad, a, b), nil})
			}
		}
	}
	return out
}

// ---------------------------------------------------------------- 2D

type ref2 func(p c2) (in, sure bool)

type leaf2 struct {
	name string
	fam  string
	s    model2d.Solid
	ref  ref2
}

func checkLeaf2(r *ev.Run, l leaf2) {
	mn, mx := l.s.Min(), l.s.Max()
	bc := func(p c2) bcase {
		return bcase{l.name, []float64{p.X, p.Y}, []float64{mn.X, mn.Y}, []float64{mx.X, mx.Y}}
	}
	r.Eval(1)
	bad := func(x float64) bool { return math.IsNaN(x) || math.IsInf(x, 0) }
	if bad(mn.X) || bad(mn.Y) || bad(mx.X) || bad(mx.Y) || mn.X > mx.X || mn.Y > mx.Y || !model2d.BoundsValid(l.s) {
		r.Violation("2d/"+l.fam+"/invalid-bounds", fmt.Sprintf("%s: bounds %v .. %v are not finite with min <= max", l.name, mn, mx), bc(c2{}))
		return
	}
	size := mx.Dist(mn)
	if size == 0 {
		size = 1
	}
	ext := mx.Sub(mn)
	if ext.X < size*1e-3 {
		ext.X = size * 1e-3
	}
	if ext.Y < size*1e-3 {
		ext.Y = size * 1e-3
	}
	var pts []c2
	const n = 25
	for i := 0; i < n; i++ {
		for j := 0; j < n; j++ {
			f := func(t int) float64 { return (float64(t)/float64(n-1) - 0.5) * 1.5 }
			pts = append(pts, mn.Mid(mx).Add(model2d.XY(f(i)*ext.X+0.00137*size, f(j)*ext.Y-0.00071*size)))
		}
	}
	for axis := 0; axis < 2; axis++ {
		for side := 0; side < 2; side++ {
			for _, d := range []float64{1e-9, 1e-6, 1e-3, 0.05, 0.5} {
				for i := 0; i < 13; i++ {
					var p [2]float64
					u := 1 - axis
					p[u] = mn.Array()[u] + (mx.Array()[u]-mn.Array()[u])*(float64(i)*0.1-0.1)
					if side == 0 {
						p[axis] = mn.Array()[axis] - d*size
					} else {
						p[axis] = mx.Array()[axis] + d*size
					}
					pts = append(pts, model2d.NewCoordArray(p))
				}
			}
		}
	}
	seen := false
	for _, p := range pts {
		outside := p.X < mn.X || p.Y < mn.Y || p.X > mx.X || p.Y > mx.Y
		r.Eval(1)
		var got bool
		if pn := ev.Try(func() { got = l.s.Contains(p) }); pn != "" {
			r.Violation("2d/"+l.fam+"/panic", fmt.Sprintf("%s: Contains(%v) panicked: %s", l.name, p, pn), bc(p))
			return
		}
		if outside && got {
			r.Violation("2d/"+l.fam+"/contains-outside-bounds", fmt.Sprintf("%s contains %v, which is outside its bounds %v .. %v", l.name, p, mn, mx), bc(p))
			return
		}
		if l.ref != nil {
			in, sure := l.ref(p)
			if in && sure {
				seen = true
				if outside {
					r.Violation("2d/"+l.fam+"/box-cuts-shape", fmt.Sprintf("%s: the underlying definition puts %v inside, but the point is outside the reported bounds %v .. %v", l.name, p, mn, mx), bc(p))
					return
				}
				if !got {
					r.Violation("2d/"+l.fam+"/defined-inside-not-contained", fmt.Sprintf("%s: the underlying definition puts %v inside (within bounds %v .. %v) but Contains is false", l.name, p, mn, mx), bc(p))
					return
				}
			}
		}
	}
	if seen {
		r.NontrivialKey("2d" + l.name)
	}
}

type sdfSolid2 interface {
	model2d.Solid
	model2d.SDF
	model2d.Collider
}

func leaves2() []leaf2 {
	var out []leaf2
	add := func(name string, s model2d.Solid, rf ref2) { out = append(out, leaf2{name, fam(name), s, rf}) }
	sref := func(f func(c2) float64, thr float64) ref2 {
		return func(p c2) (bool, bool) { d := f(p); return d > thr, !(math.Abs(d-thr) <= 1e-9) }
	}
	for _, s := range ref.Shapes2() {
		s := s
		o := s.Obj.(sdfSolid2)
		add(s.Name, o, sref(s.SDF, 0))
		add("NewColliderSolid("+s.Name+")", model2d.NewColliderSolid(o), sref(s.SDF, 0))
		add("NewColliderSolidInset("+s.Name+",0.1)", model2d.NewColliderSolidInset(o, 0.1), sref(s.SDF, 0.1))
		add("NewColliderSolidInset("+s.Name+",-0.2)", model2d.NewColliderSolidInset(o, -0.2), sref(s.SDF, -0.2))
		add("NewColliderSolidHollow("+s.Name+",0.15)", model2d.NewColliderSolidHollow(o, 0.15), func(p c2) (bool, bool) {
			d := math.Abs(s.SDF(p))
			return d < 0.15, !(math.Abs(d-0.15) <= 1e-9)
		})
		add("SDFToSolid("+s.Name+",0.3)", model2d.SDFToSolid(o, 0.3), sref(s.SDF, -0.3))
		add("SDFToSolid("+s.Name+",-0.05)", model2d.SDFToSolid(o, -0.05), sref(s.SDF, 0.05))
		for _, t := range []struct {
			n string
			t model2d.Transform
		}{{"Translate", &model2d.Translate{Offset: model2d.XY(1, -2)}}, {"Scale(3)", &model2d.Scale{Scale: 3}}, {"VecScale(-1,2)", &model2d.VecScale{Scale: model2d.XY(-1, 2)}},
			{"Matrix2", &model2d.Matrix2Transform{Matrix: &model2d.Matrix2{2, 0.3, -0.4, 1.5}}}, {"Rotation(0.7)", model2d.Rotation(0.7)},
			{"Joined(Rotation,VecScale)", model2d.JoinedTransform{model2d.Rotation(2.2), &model2d.VecScale{Scale: model2d.XY(0.5, -3)}}}} {
			inv := t.t.Inverse()
			add("TransformSolid("+t.n+", "+s.Name+")", model2d.TransformSolid(t.t, o), func(p c2) (bool, bool) { d := s.SDF(inv.Apply(p)); return d > 0, !(math.Abs(d) <= 1e-9) })
		}
		mb := model2d.SDFToMetaball(o)
		for _, rt := range []float64{0.05, 0.5} {
			thr := model2d.QuarticMetaballFalloffFunc(rt)
			neg := model2d.VecScaleMetaball(mb, model2d.XY(-3, 0.5))
			add(fmt.Sprintf("MetaballSolid(nil,%g,%s vecscaled(-3,0.5))", rt, s.Name), model2d.MetaballSolid(nil, rt, neg), func(p c2) (bool, bool) {
				sum := model2d.QuarticMetaballFalloffFunc(neg.MetaballField(p))
				return sum > thr, !(math.Abs(sum-thr) <= 1e-9*thr)
			})
			vs := model2d.VecScaleMetaball(mb, model2d.XY(0.4, 2))
			add(fmt.Sprintf("MetaballSolid(nil,%g,%s + vecscaled)", rt, s.Name), model2d.MetaballSolid(nil, rt, mb, vs), func(p c2) (bool, bool) {
				sum := model2d.QuarticMetaballFalloffFunc(mb.MetaballField(p)) + model2d.QuarticMetaballFalloffFunc(vs.MetaballField(p))
				return sum > thr, !(math.Abs(sum-thr) <= 1e-9*thr)
			})
		}
	}
	// Direction is documented as a direction, not a unit vector: every length (shorter and longer than 1) in
	// every quadrant, against the closed form (disc united with the tangent triangle whose tip is sqrt(2)*r
	// from the centre along the normalised direction).
	for _, dir := range []c2{{}, {X: 1}, {X: -1, Y: -1}, {X: 0.3, Y: -2}, {X: 0.3, Y: 0.4}, {Y: -0.25}, {X: -0.05, Y: 0.02}, {X: 0.2, Y: -0.1},
		{X: -3, Y: 4}, {X: -1e-3}, {X: 1e-9, Y: 1e-9}, {Y: 1 << 20}} {
		dir := dir
		ctr, rad := model2d.XY(0.5, -1), 0.7
		add(fmt.Sprintf("Teardrop2D(dir=%v)", dir), &toolbox3d.Teardrop2D{Center: ctr, Radius: rad, Direction: dir}, func(p c2) (bool, bool) {
			q := p.Sub(ctr)
			m := q.Norm()
			ay := model2d.Y(1)
			if dir != (c2{}) {
				ay = dir.Scale(1 / dir.Norm())
			}
			x, y := q.X*ay.Y-q.Y*ay.X, q.Dot(ay)
			h := rad / math.Sqrt2
			inTri := y >= h && math.Abs(x)+y <= math.Sqrt2*rad
			decisive := math.Abs(m-rad) > 1e-9 && math.Abs(y-h) > 1e-9 && math.Abs(math.Abs(x)+y-math.Sqrt2*rad) > 1e-9
			return m <= rad || inTri, decisive
		})
	}
	for _, bx := range [][2]c2{{model2d.XY(-1, -2), model2d.XY(2, 1)}, {model2d.XY(0, 0), model2d.XY(1, 1e-3)}, {model2d.XY(-4, -4), model2d.XY(-3, -3.5)}} {
		mn, mx := bx[0], bx[1]
		in := func(p c2) bool { return p.X >= mn.X && p.Y >= mn.Y && p.X <= mx.X && p.Y <= mx.Y }
		near := func(p c2) bool {
			return math.Abs(p.X-mn.X) <= 1e-9 || math.Abs(p.X-mx.X) <= 1e-9 || math.Abs(p.Y-mn.Y) <= 1e-9 || math.Abs(p.Y-mx.Y) <= 1e-9
		}
		mid := mn.Mid(mx)
		add(fmt.Sprintf("2d.CheckedFuncSolid(%v,%v,everything)", mn, mx), model2d.CheckedFuncSolid(mn, mx, func(c2) bool { return true }), func(p c2) (bool, bool) { return in(p), !near(p) })
		add(fmt.Sprintf("2d.CheckedFuncSolid(%v,%v,halfplane)", mn, mx), model2d.CheckedFuncSolid(mn, mx, func(p c2) bool { return p.X-p.Y > mid.X-mid.Y }),
			func(p c2) (bool, bool) {
				h := p.X - p.Y - (mid.X - mid.Y)
				return in(p) && h > 0, !near(p) && !(math.Abs(h) <= 1e-9)
			})
		add(fmt.Sprintf("2d.Rect(%v,%v).Expand(0.25)", mn, mx), model2d.NewRect(mn, mx).Expand(0.25), func(p c2) (bool, bool) {
			q := p.Sub(mid)
			h := mx.Sub(mn).Scale(0.5)
			dx, dy := math.Abs(q.X)-h.X-0.25, math.Abs(q.Y)-h.Y-0.25
			return math.Max(dx, dy) <= 0, !(math.Abs(dx) <= 1e-9) && !(math.Abs(dy) <= 1e-9)
		})
	}
	// the 2D triangle as a solid: proper ones against the edge-side test, degenerate ones (collinear corners, two or
	// three equal corners - NewTriangle then works with a pseudo-inverse) on the bounds clause
	for ti, tc := range [][3]c2{
		{{X: 0, Y: 0}, {X: 2, Y: 0}, {X: 0, Y: 1}}, {{X: 0, Y: 0}, {X: 0, Y: 1}, {X: 2, Y: 0}}, {{X: -1, Y: 0.5}, {X: 3, Y: 0.75}, {X: 0.5, Y: -2}},
		{{X: 0, Y: 0}, {X: 1e-3, Y: 4}, {X: 2e-3, Y: 0}},
		{{X: 0, Y: 0}, {X: 1, Y: 0}, {X: 2, Y: 0}}, {{X: 0, Y: 0}, {X: 2, Y: 0}, {X: 1, Y: 0}}, {{X: -1, Y: -1}, {X: 1, Y: 1}, {X: 0.25, Y: 0.25}}, {{X: 0.5, Y: 1}, {X: 0.5, Y: -2}, {X: 0.5, Y: 3}},
		{{X: 1, Y: 2}, {X: 1, Y: 2}, {X: 3, Y: -1}}, {{X: 1, Y: 2}, {X: 3, Y: -1}, {X: 3, Y: -1}}, {{X: 1, Y: 2}, {X: 1, Y: 2}, {X: 1, Y: 2}},
	} {
		tc := tc
		var rf ref2
		if ti < 4 {
			rf = func(p c2) (bool, bool) {
				side := func(a, b c2) float64 { return (b.X-a.X)*(p.Y-a.Y) - (b.Y-a.Y)*(p.X-a.X) }
				s0, s1, s2 := side(tc[0], tc[1]), side(tc[1], tc[2]), side(tc[2], tc[0])
				in := (s0 >= 0 && s1 >= 0 && s2 >= 0) || (s0 <= 0 && s1 <= 0 && s2 <= 0)
				return in, !(math.Abs(s0) <= 1e-9) && !(math.Abs(s1) <= 1e-9) && !(math.Abs(s2) <= 1e-9)
			}
		}
		add(fmt.Sprintf("2d.Triangle(%v)", tc), model2d.NewTriangle(tc[0], tc[1], tc[2]), rf)
	}
	pr := model2d.NewConvexPolytopeRect(model2d.XY(-1, 0.5), model2d.XY(0.5, 1))
	add("2d.ConvexPolytopeRect.Solid", pr.Solid(), func(p c2) (bool, bool) { return pr.Contains(p), true })
	tri := model2d.ConvexPolytope{{Normal: model2d.XY(-2, 0), Max: 0}, {Normal: model2d.XY(0, -1), Max: 0.5}, {Normal: model2d.XY(1, 3), Max: 4}}
	add("2d.ConvexPolytope(triangle).Solid", tri.Solid(), func(p c2) (bool, bool) { return tri.Contains(p), true })
	bm := model2d.NewBitmap(5, 4)
	for _, xy := range [][2]int{{0, 0}, {4, 3}, {2, 1}, {2, 2}, {4, 0}} {
		bm.Set(xy[0], xy[1], true)
	}
	add("BitmapToSolid(5x4)", model2d.BitmapToSolid(bm), nil)
	// sections of 3D solids
	for _, s := range ref.Shapes3(false)[:20] {
		s := s
		for axis := 0; axis < 3; axis++ {
			axis := axis
			v := s.Center.Array()[axis] + 0.1*s.Extent
			embed := func(p c2) c3 {
				switch axis {
				case 0:
					return model3d.XYZ(v, p.X, p.Y)
				case 1:
					return model3d.XYZ(p.X, v, p.Y)
				}
				return model3d.XYZ(p.X, p.Y, v)
			}
			rf := func(p c2) (bool, bool) { d := s.SDF(embed(p)); return d > 0, !(math.Abs(d) <= 1e-9) }
			add(fmt.Sprintf("CrossSectionSolid(%s,axis%d)", s.Name, axis), model3d.CrossSectionSolid(s.Obj.(model3d.Solid), axis, v), rf)
			add(fmt.Sprintf("SliceSolid(%s,axis%d)", s.Name, axis), toolbox3d.SliceSolid(s.Obj.(model3d.Solid), toolbox3d.Axis(axis), v), rf)
		}
	}
	// binary combinators over a small set
	base := out[:0:0]
	for i, l := range out {
		if i%17 == 0 {
			base = append(base, l)
		}
	}
	and2 := func(a, b ref2, neg bool) ref2 {
		if a == nil || b == nil {
			return nil
		}
		return func(p c2) (bool, bool) {
			x, sx := a(p)
			y, sy := b(p)
			if neg {
				y = !y
			}
			return x && y, sx && sy
		}
	}
	or2 := func(a, b ref2) ref2 {
		if a == nil || b == nil {
			return nil
		}
		return func(p c2) (bool, bool) {
			x, sx := a(p)
			y, sy := b(p)
			return x || y, sx && sy
		}
	}
	for _, a := range base {
		for _, b := range base {
			add("2d.JoinedSolid{"+a.name+", "+b.name+"}", model2d.JoinedSolid{a.s, b.s}, or2(a.ref, b.ref))
			add("2d.IntersectedSolid{"+a.name+", "+b.name+"}", model2d.IntersectedSolid{a.s, b.s}, and2(a.ref, b.ref, false))
			add("2d.SubtractedSolid{"+a.name+", "+b.name+"}", &model2d.SubtractedSolid{Positive: a.s, Negative: b.s}, and2(a.ref, b.ref, true))
			add("2d.JoinedSolid{"+a.name+", "+b.name+"}.Optimize", model2d.JoinedSolid{a.s, b.s}.Optimize(), or2(a.ref, b.ref))
			add("2d.SolidMux{"+a.name+", "+b.name+"}", model2d.NewSolidMux([]model2d.Solid{a.s, b.s}), or2(a.ref, b.ref))
		}
	}
	return out
}

// ---------------------------------------------------------------- main

func main() {
	r := ev.Start("C03", "exploration")
	r0 = r
	full := r.Thorough()
	r.Rule("distinct_nontrivial = solids (leaves and expression trees) for which at least one probe lies inside according to the unboxed reference definition, so that the no-cut clause was exercised; solids without a written reference are probed for the bounds clause only")
	r.Assume("probe points closer than 1e-9 (relative) to a reference surface or threshold are not judged against the reference", "Scale only with positive factors",
		"the reference for TransformSolid uses the transform's own Inverse (judged by C05)")
	if r.Replay != "" {
		var c bcase
		r.LoadReplay(&c)
		if strings.HasPrefix(c.Solid, "BoundsValid") || strings.HasPrefix(c.Solid, "2d.BoundsValid") || strings.HasPrefix(c.Solid, "BoundsUnion") || c.Solid == "InBounds" {
			bounderStage(r)
			r.Finish()
		}
		n := 0
		visit := func(l leaf3) {
			if l.name == c.Solid {
				checkLeaf3(r, l)
				n++
			}
		}
		all := append(append(prim3(true), derived3(true)...), smooth3(true)...)
		for _, l := range all {
			visit(l)
			for _, u := range unary3(l) {
				visit(u)
			}
		}
		red := reduced(all)
		for _, a := range red {
			for _, b := range red {
				for _, cb := range combine3(a, b) {
					visit(cb)
					for _, u := range unary3(cb) {
						visit(u)
					}
					for _, d := range red[:4] {
						for _, cc := range combine3(cb, d) {
							visit(cc)
						}
					}
				}
			}
		}
		for _, l := range naryLeaves3(true) {
			visit(l)
		}
		for _, l := range append(leaves2(), naryLeaves2()...) {
			if l.name == c.Solid {
				checkLeaf2(r, l)
				n++
			}
		}
		if n == 0 {
			ev.Fatal("replay: solid %q not found in the alphabet", c.Solid)
		}
		r.Finish()
	}
	r.Isolate("bounder-helpers", func() { bounderStage(r) })
	r.Isolate("leaves", func() {
		all := append(append(prim3(full), derived3(full)...), smooth3(full)...)
		ev.Parallel(len(all), 0, func(i int) { checkLeaf3(r, all[i]) })
		r.Set("leaf_solids_3d", len(all))
		r.Sample(bcase{Solid: all[len(all)/3].name})
	})
	r.Isolate("depth1", func() {
		all := append(append(prim3(full), derived3(full)...), smooth3(full)...)
		var d1 []leaf3
		for i, l := range all {
			if full || i%3 == 0 {
				d1 = append(d1, unary3(l)...)
			}
		}
		red := reduced(all)
		for _, a := range red {
			for _, b := range red {
				d1 = append(d1, combine3(a, b)...)
			}
		}
		ev.Parallel(len(d1), 0, func(i int) { checkLeaf3(r, d1[i]) })
		r.Set("depth1_trees_3d", len(d1))
		r.Sample(bcase{Solid: d1[len(d1)/2].name})
	})
	r.Isolate("depth2", func() {
		all := append(append(prim3(false), derived3(false)...), smooth3(false)...)
		red := reduced(all)
		var d1 []leaf3
		for _, a := range red {
			for _, b := range red {
				d1 = append(d1, combine3(a, b)...)
			}
		}
		step := 1
		if !full {
			step = 4
		}
		var jobs []leaf3
		for i := 0; i < len(d1); i += step {
			jobs = append(jobs, d1[i])
		}
		var count int64
		ev.Parallel(len(jobs), 0, func(i int) {
			x := jobs[i]
			for _, u := range unary3(x) {
				checkLeaf3(r, u)
			}
			for _, d := range red[:4] {
				for _, cc := range combine3(x, d) {
					checkLeaf3(r, cc)
				}
				for _, cc := range combine3(d, x)[:3] {
					checkLeaf3(r, cc)
				}
			}
		})
		_ = count
		r.Set("depth2_roots_3d", len(jobs))
	})
	r.Isolate("n-ary", func() {
		ls := naryLeaves3(full)
		ev.Parallel(len(ls), 0, func(i int) { checkLeaf3(r, ls[i]) })
		r.Set("nary_trees_3d", len(ls))
	})
	r.Isolate("2d", func() {
		l2 := append(leaves2(), naryLeaves2()...)
		ev.Parallel(len(l2), 0, func(i int) { checkLeaf2(r, l2[i]) })
		r.Set("solids_2d", len(l2))
	})
	r.Finish()
}

// reduced picks one representative per family (first occurrence), capped.
func reduced(all []leaf3) []leaf3 {
	seen := map[string]int{}
	var out []leaf3
	for _, l := range all {
		if seen[l.fam] == 0 && len(out) < 14 {
			out = append(out, l)
		}
		seen[l.fam]++
	}
	return out
}
