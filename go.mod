module verif

go 1.22.0

toolchain go1.23.5

require github.com/unixpickle/model3d v0.0.0

require (
	golang.org/x/mod v0.22.0 // indirect
	golang.org/x/sync v0.10.0 // indirect
)

require (
	github.com/pkg/errors v0.9.1 // indirect
	github.com/unixpickle/essentials v1.3.0 // indirect
	github.com/unixpickle/splaytree v1.1.0 // indirect
	golang.org/x/tools v0.29.0
	vshim v0.0.0
)

replace github.com/unixpickle/model3d => /repo

replace vshim => /verif/shim
