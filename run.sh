#!/bin/bash
# ./run.sh Cxx quick|thorough|--replay <path>
# VERIF_GOFLAGS / VERIF_WORK are only set by tools/seed_eval.sh (evaluation of a change from a scratch worktree)
export GOFLAGS="-mod=mod $VERIF_GOFLAGS" GOPROXY=off GOSUMDB=off GOTOOLCHAIN=local
export GOCACHE=${GOCACHE:-/root/.cache/go-build}
cd /verif || exit 2
id="$1"; shift
lc=$(echo "$id" | tr 'A-Z' 'a-z')
W=${VERIF_WORK:-.work}
mkdir -p $W/bin evidence replays
if [ -x "checks/$lc/driver.sh" ]; then
  exec "checks/$lc/driver.sh" "$@"
fi
if ! go build -tags verif -o "$W/bin/$lc" "./checks/$lc" 2>$W/build_$lc.log; then
  cat $W/build_$lc.log >&2
  echo "ERROR: build of check $id failed against the current /repo tree" >&2
  exit 2
fi
exec "$W/bin/$lc" "$@"
