#!/bin/bash
# ./run.sh Cxx quick|thorough|--replay <path>
export GOFLAGS=-mod=mod GOPROXY=off GOSUMDB=off GOTOOLCHAIN=local
export GOCACHE=${GOCACHE:-/root/.cache/go-build}
cd /verif || exit 2
id="$1"; shift
lc=$(echo "$id" | tr 'A-Z' 'a-z')
mkdir -p .work/bin evidence replays
if [ -x "checks/$lc/driver.sh" ]; then
  exec "checks/$lc/driver.sh" "$@"
fi
if ! go build -tags verif -o ".work/bin/$lc" "./checks/$lc" 2>.work/build_$lc.log; then
  cat .work/build_$lc.log >&2
  echo "ERROR: build of check $id failed against the current /repo tree" >&2
  exit 2
fi
exec ".work/bin/$lc" "$@"
