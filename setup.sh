#!/bin/bash
# Offline build of every check binary (warms the Go build cache); run once after a fresh restore.
export GOFLAGS=-mod=mod GOPROXY=off GOSUMDB=off GOTOOLCHAIN=local
cd /verif || exit 1
mkdir -p .work/bin evidence replays
rc=0
for d in checks/*/; do
  lc=$(basename "$d")
  if [ -f "$d/main.go" ]; then
    go build -tags verif -o ".work/bin/$lc" "./checks/$lc" || rc=1
  fi
done
# schedule-exploration machinery: instrumenter, instrumented worker, -race worker
go build -o .work/bin/instr ./tools/instr || rc=1
.work/bin/instr -repo /repo -out /verif/.work/instr >/dev/null || rc=1
go build -modfile=.work/instr/go.mod -tags verif -o .work/bin/sched ./checks/sched || rc=1
go build -race -tags verif -o .work/bin/sched_race ./checks/sched || rc=1
exit $rc
