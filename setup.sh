#!/bin/bash
# Offline build of every check binary (warms the Go build cache).
export GOFLAGS=-mod=mod GOPROXY=off GOSUMDB=off GOTOOLCHAIN=local
cd /verif || exit 1
mkdir -p .work/bin evidence replays
rc=0
for d in checks/*/; do
  lc=$(basename "$d")
  if [ -f "$d/main.go" ]; then
    go build -tags verif -o ".work/bin/$lc" "./checks/$lc" || rc=1
  fi
  if [ -x "$d/setup.sh" ]; then "$d/setup.sh" || rc=1; fi
done
exit $rc
