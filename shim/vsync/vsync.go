// Package vsync replaces "sync" in instrumented code. Under the explorer
// every operation is a scheduling point and blocking is modelled; outside it
// the real primitives are used.
package vsync

import (
	"sync"

	"vshim/vsched"
)

type Mutex struct {
	real   sync.Mutex
	locked bool
}

func (m *Mutex) Lock() {
	if !vsched.Active() {
		m.real.Lock()
		return
	}
	vsched.Wait("Mutex.Lock", func() bool { return !m.locked })
	m.locked = true
}

func (m *Mutex) Unlock() {
	if !vsched.Active() {
		if m.locked { // locked under the explorer, released while unwinding an aborted execution
			m.locked = false
			return
		}
		m.real.Unlock()
		return
	}
	vsched.Point("Mutex.Unlock")
	if !m.locked {
		panic("vsync: unlock of unlocked mutex")
	}
	m.locked = false
}

type Locker = sync.Locker

type WaitGroup struct {
	real sync.WaitGroup
	n    int
	used bool
}

func (w *WaitGroup) Add(d int) {
	if !vsched.Active() {
		if w.used {
			return // unwinding an aborted execution
		}
		w.real.Add(d)
		return
	}
	vsched.Point("WaitGroup.Add")
	w.used = true
	w.n += d
	if w.n < 0 {
		panic("vsync: negative WaitGroup counter")
	}
}

func (w *WaitGroup) Done() { w.Add(-1) }

func (w *WaitGroup) Wait() {
	if !vsched.Active() {
		if w.used {
			return
		}
		w.real.Wait()
		return
	}
	vsched.Wait("WaitGroup.Wait", func() bool { return w.n == 0 })
}

// Map wraps sync.Map; each operation is a scheduling point.
type Map struct {
	real sync.Map
}

func (m *Map) Load(k any) (any, bool) {
	vsched.Point("Map.Load")
	return m.real.Load(k)
}
func (m *Map) Store(k, v any) {
	vsched.Point("Map.Store")
	m.real.Store(k, v)
}
func (m *Map) LoadOrStore(k, v any) (any, bool) {
	vsched.Point("Map.LoadOrStore")
	return m.real.LoadOrStore(k, v)
}
func (m *Map) Delete(k any) {
	vsched.Point("Map.Delete")
	m.real.Delete(k)
}
func (m *Map) Range(f func(k, v any) bool) {
	vsched.Point("Map.Range")
	m.real.Range(f)
}

type Once struct {
	mu   Mutex
	done bool
}

func (o *Once) Do(f func()) {
	vsched.Point("Once.Do")
	if o.done {
		return
	}
	o.mu.Lock()
	defer o.mu.Unlock()
	if !o.done {
		defer func() { o.done = true }()
		f()
	}
}
