// Package vsync replaces "sync" in instrumented code. Under the explorer
// every operation is a scheduling point and blocking is modelled; outside it
// the real primitives are used.
package vsync

import (
	"sync"
	"sync/atomic"

	"vshim/vsched"
)

type Mutex struct {
	real   sync.Mutex
	locked bool
}

func (m *Mutex) Lock() {
	if !vsched.Active() {
		m.real.Lock()
		return
	}
	vsched.Wait("Mutex.Lock", func() bool { return !m.locked })
	m.locked = true
}

func (m *Mutex) Unlock() {
	if !vsched.Active() {
		if m.locked { // locked under the explorer, released while unwinding an aborted execution
			m.locked = false
			return
		}
		m.real.Unlock()
		return
	}
	vsched.Point("Mutex.Unlock")
	if !m.locked {
		panic("vsync: unlock of unlocked mutex")
	}
	m.locked = false
}

type Locker = sync.Locker

type WaitGroup struct {
	real  sync.WaitGroup
	realN int64 // outstanding count taken outside the explorer (free-running reference runs)
	n     int
	used  bool
}

func (w *WaitGroup) Add(d int) {
	// A count taken in a free-running run is given back to the real group even if the goroutine that gives it back
	// outlives that run and finishes while an exploration is active (library code may leave such goroutines behind).
	if !vsched.Active() || (d < 0 && atomic.LoadInt64(&w.realN) > 0) {
		if w.used && atomic.LoadInt64(&w.realN) == 0 {
			return // unwinding an aborted execution
		}
		atomic.AddInt64(&w.realN, int64(d))
		w.real.Add(d)
		return
	}
	vsched.Point("WaitGroup.Add")
	w.used = true
	w.n += d
	if w.n < 0 {
		panic("vsync: negative WaitGroup counter")
	}
}

func (w *WaitGroup) Done() { w.Add(-1) }

func (w *WaitGroup) Wait() {
	if !vsched.Active() {
		if w.used {
			return
		}
		w.real.Wait()
		return
	}
	vsched.Wait("WaitGroup.Wait", func() bool { return w.n == 0 })
}

// Map wraps sync.Map; each operation is a scheduling point.
type Map struct {
	real sync.Map
}

func (m *Map) Load(k any) (any, bool) {
	vsched.Point("Map.Load")
	return m.real.Load(k)
}
func (m *Map) Store(k, v any) {
	vsched.Point("Map.Store")
	m.real.Store(k, v)
}
func (m *Map) LoadOrStore(k, v any) (any, bool) {
	vsched.Point("Map.LoadOrStore")
	return m.real.LoadOrStore(k, v)
}
func (m *Map) Delete(k any) {
	vsched.Point("Map.Delete")
	m.real.Delete(k)
}
func (m *Map) Range(f func(k, v any) bool) {
	vsched.Point("Map.Range")
	m.real.Range(f)
}

type Once struct {
	mu   Mutex
	done bool
}

func (o *Once) Do(f func()) {
	vsched.Point("Once.Do")
	if o.done {
		return
	}
	o.mu.Lock()
	defer o.mu.Unlock()
	if !o.done {
		defer func() { o.done = true }()
		f()
	}
}

func (m *Map) LoadAndDelete(k any) (any, bool) {
	vsched.Point("Map.LoadAndDelete")
	return m.real.LoadAndDelete(k)
}
func (m *Map) Swap(k, v any) (any, bool) {
	vsched.Point("Map.Swap")
	return m.real.Swap(k, v)
}
func (m *Map) CompareAndSwap(k, o, n any) bool {
	vsched.Point("Map.CompareAndSwap")
	return m.real.CompareAndSwap(k, o, n)
}
func (m *Map) CompareAndDelete(k, o any) bool {
	vsched.Point("Map.CompareAndDelete")
	return m.real.CompareAndDelete(k, o)
}

// RWMutex: readers share, a writer excludes everyone. Modelled without writer preference (a writer waits until
// nobody holds the lock), which admits every behaviour of the real lock that terminates.
type RWMutex struct {
	real    sync.RWMutex
	writer  bool
	readers int
}

func (m *RWMutex) Lock() {
	if !vsched.Active() {
		m.real.Lock()
		return
	}
	vsched.Wait("RWMutex.Lock", func() bool { return !m.writer && m.readers == 0 })
	m.writer = true
}

func (m *RWMutex) Unlock() {
	if !vsched.Active() {
		if m.writer {
			m.writer = false
			return
		}
		m.real.Unlock()
		return
	}
	vsched.Point("RWMutex.Unlock")
	if !m.writer {
		panic("vsync: unlock of unlocked RWMutex")
	}
	m.writer = false
}

func (m *RWMutex) RLock() {
	if !vsched.Active() {
		m.real.RLock()
		return
	}
	vsched.Wait("RWMutex.RLock", func() bool { return !m.writer })
	m.readers++
}

func (m *RWMutex) RUnlock() {
	if !vsched.Active() {
		if m.readers > 0 {
			m.readers--
			return
		}
		m.real.RUnlock()
		return
	}
	vsched.Point("RWMutex.RUnlock")
	if m.readers <= 0 {
		panic("vsync: RUnlock of RWMutex that is not read-locked")
	}
	m.readers--
}

func (m *RWMutex) RLocker() sync.Locker { return rlocker{m} }

type rlocker struct{ m *RWMutex }

func (r rlocker) Lock()   { r.m.RLock() }
func (r rlocker) Unlock() { r.m.RUnlock() }

// Pool: Get hands back the most recently Put object (or New()); both are scheduling points. The real pool may drop
// objects at any time, which only makes New() run more often - behaviours the explorer reaches anyway when the pool
// is empty.
type Pool struct {
	New   func() any
	items []any
}

func (p *Pool) Get() any {
	vsched.Point("Pool.Get")
	if n := len(p.items); n > 0 {
		x := p.items[n-1]
		p.items = p.items[:n-1]
		return x
	}
	if p.New != nil {
		return p.New()
	}
	return nil
}

func (p *Pool) Put(x any) {
	vsched.Point("Pool.Put")
	p.items = append(p.items, x)
}
