// Package vsched is a cooperative scheduler and stateless, deviation-bounded
// DFS explorer. Instrumented code calls Point/Wait/Go/Choose at every
// synchronisation operation; exactly one thread runs at a time and every
// decision (which enabled thread runs next, which alternative a Choose takes)
// is owned by the explorer.
package vsched

import (
	"fmt"
	"os"
	"runtime"
	"runtime/debug"
	"sync"
	"sync/atomic"
)

type thread struct {
	id   int
	wake chan struct{}
	cond func() bool
	kind string
	done bool
}

// Decision is one decision of an execution.
type Decision struct {
	Kind    string // "sched" | "choose"
	Label   string
	N       int   // number of alternatives
	Chosen  int   // index taken
	AltCost int   // cost of taking a non-default alternative here
	Enabled []int // thread ids in canonical order (sched points)
	Thread  int   // deciding thread
}

// Exec is the record of one complete execution.
type Exec struct {
	Points   []Decision
	Deadlock bool
	Horizon  bool
	Panic    string
	Blocked  []string // kinds of the operations threads were blocked on at deadlock
	Threads  int
}

func (x *Exec) Choices() []int {
	c := make([]int, len(x.Points))
	for i, p := range x.Points {
		c[i] = p.Chosen
	}
	return c
}

func (x *Exec) Failed() bool { return x.Deadlock || x.Horizon || x.Panic != "" }

type run struct {
	prefix     []int
	expect     []Decision
	x          *Exec
	threads    []*thread
	cur        *thread
	abort      int32
	live       int32
	finished   chan struct{}
	maxPoints  int
	maxTicks   int
	ticks      int
	chooseCost int
	mu         sync.Mutex
	diverged   string
}

var cur *run // non-nil while an exploration execution is in progress

// ThreadID is the id of the calling thread under the explorer (spawn order,
// 0 = main), or -1 outside an exploration.
func ThreadID() int {
	r := cur
	if r == nil || r.aborted() {
		return -1
	}
	return r.cur.id
}

var runStartHooks []func()

// OnRunStart registers f to run at the start of every execution.
func OnRunStart(f func()) { runStartHooks = append(runStartHooks, f) }

// Active reports whether the caller runs under the explorer.
func Active() bool { r := cur; return r != nil && atomic.LoadInt32(&r.abort) == 0 }

// NumProcs is what the vruntime shim reports for GOMAXPROCS(0)/NumCPU().
var NumProcs = runtime.GOMAXPROCS(0)

func (r *run) aborted() bool { return atomic.LoadInt32(&r.abort) != 0 }

func (r *run) abortAll(self *thread) {
	if !atomic.CompareAndSwapInt32(&r.abort, 0, 1) {
		return
	}
	for _, t := range r.threads {
		if t != self && !t.done {
			select {
			case t.wake <- struct{}{}:
			default:
			}
		}
	}
}

func (r *run) exitThread() {
	if atomic.AddInt32(&r.live, -1) == 0 {
		close(r.finished)
	}
}

// schedule is executed by the running thread self at one of its points.
func (r *run) schedule(self *thread) {
	if r.aborted() {
		if !self.done {
			runtime.Goexit()
		}
		return
	}
	var enabled []int
	selfEnabled := !self.done && (self.cond == nil || self.cond())
	if selfEnabled {
		enabled = append(enabled, self.id)
	}
	pending := false
	for _, t := range r.threads {
		if t == self || t.done {
			continue
		}
		pending = true
		if t.cond == nil || t.cond() {
			enabled = append(enabled, t.id)
		}
	}
	if len(enabled) == 0 {
		if !pending && self.done {
			return // everything finished
		}
		r.x.Deadlock = true
		for _, t := range r.threads {
			if !t.done {
				r.x.Blocked = append(r.x.Blocked, fmt.Sprintf("T%d:%s", t.id, t.kind))
			}
		}
		r.abortAll(self)
		if !self.done {
			runtime.Goexit()
		}
		return
	}
	i := len(r.x.Points)
	if i >= r.maxPoints {
		r.x.Horizon = true
		r.abortAll(self)
		if !self.done {
			runtime.Goexit()
		}
		return
	}
	choice := 0
	if i < len(r.prefix) {
		choice = r.prefix[i]
	}
	altCost := 0
	if selfEnabled {
		altCost = 1
	}
	p := Decision{Kind: "sched", Label: self.kind, N: len(enabled), Chosen: choice, AltCost: altCost, Enabled: enabled, Thread: self.id}
	if i < len(r.expect) {
		e := r.expect[i]
		if e.Kind != p.Kind || e.N != p.N || e.Thread != p.Thread || fmt.Sprint(e.Enabled) != fmt.Sprint(p.Enabled) {
			r.diverged = fmt.Sprintf("replay divergence at point %d: recorded %+v, now %+v", i, e, p)
		}
	}
	if choice >= len(enabled) {
		r.diverged = fmt.Sprintf("replay divergence at point %d: choice %d of %d", i, choice, len(enabled))
		choice = 0
		p.Chosen = 0
	}
	r.x.Points = append(r.x.Points, p)
	if r.diverged != "" {
		r.abortAll(self)
		if !self.done {
			runtime.Goexit()
		}
		return
	}
	next := r.threads[enabled[choice]]
	if next == self {
		return
	}
	r.cur = next
	next.wake <- struct{}{}
	if self.done {
		return
	}
	<-self.wake
	if r.aborted() {
		runtime.Goexit()
	}
}

// Point is a scheduling point before a non-blocking operation.
func Point(kind string) {
	r := cur
	if r == nil {
		return
	}
	if r.aborted() {
		return
	}
	self := r.cur
	self.cond, self.kind = nil, kind
	r.schedule(self)
}

// Wait is a scheduling point before an operation that can proceed only when
// cond holds; the thread is disabled until then.
func Wait(kind string, cond func() bool) {
	r := cur
	if r == nil || r.aborted() {
		return
	}
	self := r.cur
	self.cond, self.kind = cond, kind
	r.schedule(self)
	self.cond = nil
}

// Go spawns a thread. Outside an exploration it is a plain goroutine.
func Go(f func()) {
	r := cur
	if r == nil || r.aborted() {
		go f()
		return
	}
	t := &thread{id: len(r.threads), wake: make(chan struct{}, 1), kind: "start"}
	r.threads = append(r.threads, t)
	if len(r.threads) > r.x.Threads {
		r.x.Threads = len(r.threads)
	}
	atomic.AddInt32(&r.live, 1)
	go r.threadMain(t, f)
	Point("go")
}

func (r *run) threadMain(t *thread, f func()) {
	defer r.exitThread()
	<-t.wake
	if r.aborted() {
		return
	}
	defer func() {
		if e := recover(); e != nil {
			if !r.aborted() {
				r.x.Panic = fmt.Sprintf("T%d: %v\n%s", t.id, e, debug.Stack())
				t.done = true
				r.abortAll(t)
			}
			return
		}
		if r.aborted() {
			return
		}
		t.done = true
		t.kind = "exit"
		r.schedule(t)
	}()
	f()
}

// Choose is a data choice owned by the explorer (map order, environment
// answers). Alternative 0 is the default; others cost one deviation.
func Choose(n int, label string) int {
	r := cur
	if r == nil || r.aborted() || n <= 1 {
		return 0
	}
	i := len(r.x.Points)
	if i >= r.maxPoints {
		r.x.Horizon = true
		self := r.cur
		r.abortAll(self)
		runtime.Goexit()
	}
	choice := 0
	if i < len(r.prefix) {
		choice = r.prefix[i]
	}
	if choice >= n {
		r.diverged = fmt.Sprintf("replay divergence at choose point %d (%s): choice %d of %d", i, label, choice, n)
		choice = 0
	}
	r.x.Points = append(r.x.Points, Decision{Kind: "choose", Label: label, N: n, Chosen: choice, AltCost: r.chooseCost, Thread: r.cur.id})
	if r.diverged != "" {
		self := r.cur
		r.abortAll(self)
		runtime.Goexit()
	}
	return choice
}

// Tick is the loop horizon: instrumented condition-only loops call it once per
// iteration; exceeding the horizon ends the execution as non-terminating.
func Tick() {
	r := cur
	if r == nil || r.aborted() {
		return
	}
	r.ticks++
	if r.ticks > r.maxTicks {
		r.x.Horizon = true
		self := r.cur
		r.abortAll(self)
		runtime.Goexit()
	}
}

// Options of an exploration.
type Options struct {
	Bound      int // maximal total cost (preemptions + deviations) per execution
	MaxPoints  int // horizon on decisions per execution
	MaxTicks   int // horizon on loop iterations per execution
	ChooseCost int // cost of a non-default Choose answer (default 1; 0 = free input enumeration)
	MaxExecs   int64
	FreeChoose bool
	// Delay switches from preemption bounding to delay bounding (Emmi, Qadeer,
	// Rakamaric 2011): the default scheduler is non-preemptive lowest-id-first and
	// taking the j-th alternative at any scheduling point costs j, also when the
	// running thread is blocked or finished. Polynomial in the number of points
	// whatever the number of threads.
	Delay bool
	// Stop, if set, is consulted before every execution; returning true ends the
	// exploration early (used once enough counterexamples have been collected).
	Stop func() bool
}

// Stats of an exploration.
type Stats struct {
	Executions int64
	Points     int64
	MaxDepth   int
	MaxThreads int
	Capped     bool
	Stopped    bool  // ended early by Options.Stop
	Nodes      int64 // distinct schedule-tree nodes (decision points) visited
}

func (o *Options) defaults() {
	if o.MaxPoints == 0 {
		o.MaxPoints = 20000
	}
	if o.MaxTicks == 0 {
		o.MaxTicks = 2000000
	}
	if o.ChooseCost == 0 && !o.FreeChoose {
		o.ChooseCost = 1
	}
}

// RunOnce executes body under the scheduler following prefix, then default
// choices. expect (optional) is the parent's record for divergence detection.
func RunOnce(o Options, prefix []int, expect []Decision, body func()) *Exec {
	o.defaults()
	r := &run{prefix: prefix, expect: expect, x: &Exec{}, finished: make(chan struct{}), maxPoints: o.MaxPoints, maxTicks: o.MaxTicks, chooseCost: o.ChooseCost}
	t0 := &thread{id: 0, wake: make(chan struct{}, 1), kind: "start"}
	r.threads = []*thread{t0}
	r.x.Threads = 1
	r.live = 1
	r.cur = t0
	ResetChannels()
	for _, h := range runStartHooks {
		h()
	}
	cur = r
	go r.threadMain(t0, body)
	t0.wake <- struct{}{}
	<-r.finished
	cur = nil
	if r.diverged != "" {
		fmt.Fprintln(os.Stderr, "ERROR: "+r.diverged)
		os.Exit(2)
	}
	return r.x
}

// Explore enumerates every execution of body whose total cost is <= Bound.
// check is called once per execution.
func Explore(o Options, body func(), check func(x *Exec)) Stats {
	o.defaults()
	var st Stats
	var rec func(prefix []int, expect []Decision)
	rec = func(prefix []int, expect []Decision) {
		if o.MaxExecs > 0 && st.Executions >= o.MaxExecs {
			st.Capped = true
			return
		}
		if o.Stop != nil && o.Stop() {
			st.Stopped = true
			return
		}
		x := RunOnce(o, prefix, expect, body)
		st.Executions++
		st.Points += int64(len(x.Points))
		st.Nodes += int64(len(x.Points) - len(prefix))
		if len(prefix) == 0 {
			st.Nodes++
		}
		if len(x.Points) > st.MaxDepth {
			st.MaxDepth = len(x.Points)
		}
		if x.Threads > st.MaxThreads {
			st.MaxThreads = x.Threads
		}
		check(x)
		altCost := func(p Decision, alt int) int {
			if o.Delay && p.Kind == "sched" {
				return alt
			}
			return p.AltCost
		}
		cost := 0
		for i := 0; i < len(prefix) && i < len(x.Points); i++ {
			if x.Points[i].Chosen != 0 {
				cost += altCost(x.Points[i], x.Points[i].Chosen)
			}
		}
		choices := x.Choices()
		for i := len(prefix); i < len(x.Points); i++ {
			p := x.Points[i]
			for alt := 1; alt < p.N; alt++ {
				if cost+altCost(p, alt) > o.Bound {
					break
				}
				np := append(append(make([]int, 0, i+1), choices[:i]...), alt)
				rec(np, x.Points[:i])
			}
		}
	}
	rec(nil, nil)
	return st
}
