package vsched

import (
	"reflect"
	"sync"
)

// closed channels are tracked so that a receive on a closed, empty channel is
// known to be enabled.
var (
	closedMu sync.Mutex
	closed   = map[uintptr]interface{}{} // value keeps the channel alive so its address is not reused
)

func chanKey(ch interface{}) uintptr { return reflect.ValueOf(ch).Pointer() }

func isClosed(k uintptr) bool {
	closedMu.Lock()
	defer closedMu.Unlock()
	return closed[k] != nil
}

func checkCap(c int) {
	if c == 0 {
		panic("vsched: unbuffered channel (rendezvous) is not modelled")
	}
}

// Send is ch <- v.
func Send[T any](ch chan<- T, v T) {
	if !Active() {
		ch <- v
		return
	}
	checkCap(cap(ch))
	k := chanKey(ch)
	Wait("chan.send", func() bool { return len(ch) < cap(ch) || isClosed(k) })
	ch <- v
}

// Recv is <-ch.
func Recv[T any](ch <-chan T) T {
	v, _ := Recv2(ch)
	return v
}

// Recv2 is v, ok := <-ch.
func Recv2[T any](ch <-chan T) (T, bool) {
	if !Active() {
		v, ok := <-ch
		return v, ok
	}
	checkCap(cap(ch))
	k := chanKey(ch)
	Wait("chan.recv", func() bool { return len(ch) > 0 || isClosed(k) })
	v, ok := <-ch
	return v, ok
}

// Close is close(ch).
func Close[T any](ch chan<- T) {
	if Active() {
		Point("chan.close")
	}
	closedMu.Lock()
	closed[chanKey(ch)] = ch
	closedMu.Unlock()
	close(ch)
}

// ResetChannels forgets closed channels (call between executions).
func ResetChannels() {
	closedMu.Lock()
	closed = map[uintptr]interface{}{}
	closedMu.Unlock()
}
