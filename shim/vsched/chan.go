package vsched

import (
	"reflect"
	"sync"
)

// closed channels are tracked so that a receive on a closed, empty channel is
// known to be enabled.
var (
	closedMu sync.Mutex
	closed   = map[uintptr]interface{}{} // value keeps the channel alive so its address is not reused
)

func chanKey(ch interface{}) uintptr { return reflect.ValueOf(ch).Pointer() }

func isClosed(k uintptr) bool {
	closedMu.Lock()
	defer closedMu.Unlock()
	return closed[k] != nil
}

// Unbuffered channels are modelled without the real channel: a sender leaves an offer and is disabled until a
// receiver has taken it; a receiver is disabled until there is an offer (or the channel is closed). Offers are taken
// in order. All of this runs on one thread at a time (cooperative scheduling), so the tables need no lock of their
// own beyond closedMu for the reset.
type offer struct {
	val   any
	taken bool
	sel   *Sel // offered by a select (withdrawn if the select takes another case)
	idx   int
}

type chanState struct {
	offers      []*offer
	recvWaiting int          // plain receivers currently disabled on this channel
	selWaiting  []*selWaiter // selects currently disabled with a receive case on this channel
}

type selWaiter struct {
	s   *Sel
	idx int
}

func (st *chanState) dropWaiter(s *Sel) {
	out := st.selWaiting[:0]
	for _, w := range st.selWaiting {
		if w.s != s {
			out = append(out, w)
		}
	}
	st.selWaiting = out
}

var chans = map[uintptr]*chanState{}

func stateOf(k uintptr) *chanState {
	closedMu.Lock()
	defer closedMu.Unlock()
	st := chans[k]
	if st == nil {
		st = &chanState{}
		chans[k] = st
	}
	return st
}

func (st *chanState) firstUntaken(notOf *Sel) *offer {
	for _, o := range st.offers {
		if !o.taken && (notOf == nil || o.sel != notOf) {
			return o
		}
	}
	return nil
}

func (st *chanState) otherWaiter(s *Sel) *selWaiter {
	for _, w := range st.selWaiting {
		if w.s != s && w.s.forced < 0 {
			return w
		}
	}
	return nil
}

func (st *chanState) untaken() int {
	n := 0
	for _, o := range st.offers {
		if !o.taken {
			n++
		}
	}
	return n
}

func (st *chanState) remove(o *offer) {
	for i, x := range st.offers {
		if x == o {
			st.offers = append(st.offers[:i], st.offers[i+1:]...)
			return
		}
	}
}

// Send is ch <- v.
func Send[T any](ch chan<- T, v T) {
	if !Active() {
		ch <- v
		return
	}
	k := chanKey(ch)
	if cap(ch) == 0 {
		if isClosed(k) {
			panic("send on closed channel")
		}
		Point("chan.send") // the send is attempted after this point: another thread may get there first
		if isClosed(k) {
			panic("send on closed channel")
		}
		st := stateOf(k)
		o := &offer{val: v}
		st.offers = append(st.offers, o)
		Wait("chan.send.rendezvous", func() bool { return o.taken || isClosed(k) })
		if !o.taken {
			st.remove(o)
			panic("send on closed channel")
		}
		return
	}
	Wait("chan.send", func() bool { return len(ch) < cap(ch) || isClosed(k) })
	ch <- v
}

// Recv is <-ch.
func Recv[T any](ch <-chan T) T {
	v, _ := Recv2(ch)
	return v
}

// Recv2 is v, ok := <-ch.
func Recv2[T any](ch <-chan T) (T, bool) {
	if !Active() {
		v, ok := <-ch
		return v, ok
	}
	k := chanKey(ch)
	if cap(ch) == 0 {
		st := stateOf(k)
		st.recvWaiting++
		Wait("chan.recv", func() bool { return st.firstUntaken(nil) != nil || isClosed(k) })
		st.recvWaiting--
		if o := st.firstUntaken(nil); o != nil {
			o.taken = true
			st.remove(o)
			return o.val.(T), true
		}
		var zero T
		return zero, false
	}
	Wait("chan.recv", func() bool { return len(ch) > 0 || isClosed(k) })
	v, ok := <-ch
	return v, ok
}

// Close is close(ch).
func Close[T any](ch chan<- T) {
	if Active() {
		Point("chan.close")
	}
	closedMu.Lock()
	closed[chanKey(ch)] = ch
	closedMu.Unlock()
	close(ch)
}

// ResetChannels forgets closed channels (call between executions).
func ResetChannels() {
	closedMu.Lock()
	closed = map[uintptr]interface{}{}
	chans = map[uintptr]*chanState{}
	closedMu.Unlock()
}

// ---- select ----
//
// select { case v := <-a: A; case b <- x: B; default: D } is rewritten by the instrumenter to
//
//	s := vsched.NewSelect(true); vsched.SelRecv(s, a); vsched.SelSend(s, b, x)
//	switch vsched.SelWait(s) { case 0: v, ok := vsched.SelRecvDone[T](s); A; case 1: B; default: D }
//
// Under the explorer SelWait is a scheduling point; it is disabled until some case can proceed (unless there is a
// default), the choice among several ready cases is an explorer decision (first ready case by default, every other
// one costs a deviation), and the chosen communication is carried out before SelWait returns. Outside the
// explorer the real select is performed through reflect.Select.
type Sel struct {
	hasDefault bool
	cases      []*selCase
	val        any
	ok         bool
	forced     int // >= 0: a select on the other side handed its value to this case while this select was disabled
}

type selCase struct {
	recv     bool
	k        uintptr
	buffered bool
	ready    func() bool // buffered channels and receives: can proceed now
	do       func()      // carry out the communication (never blocks when ready)
	offer    *offer      // unbuffered send: the offer left for receivers
	val      any
	rcase    reflect.SelectCase
}

func NewSelect(hasDefault bool) *Sel { return &Sel{hasDefault: hasDefault, forced: -1} }

func SelRecv[T any](s *Sel, ch <-chan T) {
	k := chanKey(ch)
	c := &selCase{recv: true, k: k, buffered: cap(ch) > 0, rcase: reflect.SelectCase{Dir: reflect.SelectRecv, Chan: reflect.ValueOf(ch)}}
	if ch == nil {
		c.ready = func() bool { return false }
		c.rcase.Chan = reflect.Value{}
	} else if c.buffered {
		c.ready = func() bool { return len(ch) > 0 || isClosed(k) }
		c.do = func() { s.val, s.ok = <-ch }
	} else {
		st := stateOf(k)
		c.ready = func() bool { return st.firstUntaken(s) != nil || isClosed(k) }
		c.do = func() {
			if o := st.firstUntaken(s); o != nil {
				o.taken = true
				st.remove(o)
				s.val, s.ok = o.val.(T), true
				return
			}
			var zero T
			s.val, s.ok = zero, false
		}
	}
	s.cases = append(s.cases, c)
}

func SelSend[T any](s *Sel, ch chan<- T, v T) {
	k := chanKey(ch)
	c := &selCase{k: k, buffered: cap(ch) > 0, val: v, rcase: reflect.SelectCase{Dir: reflect.SelectSend, Chan: reflect.ValueOf(ch), Send: reflect.ValueOf(v)}}
	if ch == nil {
		c.ready = func() bool { return false }
		c.rcase.Chan = reflect.Value{}
	} else if c.buffered {
		c.ready = func() bool { return len(ch) < cap(ch) || isClosed(k) }
		c.do = func() { ch <- v }
	}
	s.cases = append(s.cases, c)
}

// SelRecvDone returns what the chosen receive case received (the channel argument only fixes the type).
func SelRecvDone[T any](s *Sel, _ <-chan T) (T, bool) {
	if s.val == nil {
		var zero T
		return zero, s.ok
	}
	return s.val.(T), s.ok
}

// SelRecvVal is SelRecvDone without the ok flag.
func SelRecvVal[T any](s *Sel, ch <-chan T) T {
	v, _ := SelRecvDone(s, ch)
	return v
}

// SelWait carries out the select and returns the index of the chosen case, or -1 for default.
func SelWait(s *Sel) int {
	if !Active() {
		rc := make([]reflect.SelectCase, 0, len(s.cases)+1)
		for _, c := range s.cases {
			rc = append(rc, c.rcase)
		}
		if s.hasDefault {
			rc = append(rc, reflect.SelectCase{Dir: reflect.SelectDefault})
		}
		i, v, ok := reflect.Select(rc)
		if i == len(s.cases) {
			return -1
		}
		if s.cases[i].recv {
			s.ok = ok
			if v.IsValid() {
				s.val = v.Interface()
			}
		}
		return i
	}
	Point("select")
	// leave offers for the unbuffered send cases
	for i, c := range s.cases {
		if !c.recv && !c.buffered && c.rcase.Chan.IsValid() {
			if isClosed(c.k) {
				panic("send on closed channel")
			}
			c.offer = &offer{val: c.val, sel: s, idx: i}
			st := stateOf(c.k)
			st.offers = append(st.offers, c.offer)
		}
	}
	readyNow := func() []int {
		var out []int
		for i, c := range s.cases {
			switch {
			case c.offer != nil:
				st := stateOf(c.k)
				// taken by a receiver; or a plain receiver is waiting with no other offer reserved for it; or another
				// select is disabled with a receive case on this channel
				if c.offer.taken || st.untaken() <= st.recvWaiting && st.firstUntaken(nil) == c.offer || st.otherWaiter(s) != nil {
					out = append(out, i)
				}
			case c.ready != nil && c.ready():
				out = append(out, i)
			}
		}
		return out
	}
	chosen := -2
	for chosen == -2 {
		if s.forced >= 0 {
			chosen = s.forced // value and ok were stored by the sending select
			break
		}
		for i, c := range s.cases {
			if c.offer != nil && c.offer.taken {
				chosen = i // a receiver already took this offer: the communication has happened
				break
			}
		}
		if chosen != -2 {
			break
		}
		if rd := readyNow(); len(rd) > 0 {
			chosen = rd[Choose(len(rd), "select")]
		} else if s.hasDefault {
			chosen = -1
		} else {
			for i, c := range s.cases {
				if c.recv && !c.buffered && c.rcase.Chan.IsValid() {
					st := stateOf(c.k)
					st.selWaiting = append(st.selWaiting, &selWaiter{s, i})
				}
			}
			Wait("select", func() bool { return s.forced >= 0 || len(readyNow()) > 0 })
			for _, c := range s.cases {
				if c.recv && !c.buffered && c.rcase.Chan.IsValid() {
					stateOf(c.k).dropWaiter(s)
				}
			}
		}
	}
	// withdraw the offers of the cases not taken
	for i, c := range s.cases {
		if c.offer != nil && i != chosen && !c.offer.taken {
			stateOf(c.k).remove(c.offer)
		}
	}
	if chosen >= 0 {
		c := s.cases[chosen]
		if c.offer != nil {
			st := stateOf(c.k)
			switch {
			case c.offer.taken:
			case st.untaken() <= st.recvWaiting && st.firstUntaken(nil) == c.offer:
				c.offer.sel = nil // committed: stays for the waiting plain receiver like a plain sender's offer
			default:
				// hand the value to a select disabled on the other side, which thereby takes that case
				w := st.otherWaiter(s)
				st.remove(c.offer)
				w.s.forced, w.s.val, w.s.ok = w.idx, c.val, true
				for _, oc := range w.s.cases {
					if oc.recv && !oc.buffered && oc.rcase.Chan.IsValid() {
						stateOf(oc.k).dropWaiter(w.s)
					}
				}
			}
		} else if s.forced >= 0 {
			// received through a hand-over: nothing left to do
		} else if c.do != nil {
			c.do()
		}
	}
	return chosen
}
