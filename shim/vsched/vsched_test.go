package vsched_test

import (
	"testing"

	"vshim/vsched"
	"vshim/vsync"
)

// two threads do an unsynchronised read-modify-write with a point in between
func TestLostUpdate(t *testing.T) {
	outcomes := map[int]int{}
	var final int
	body := func() {
		x := 0
		var wg vsync.WaitGroup
		for i := 0; i < 2; i++ {
			wg.Add(1)
			vsched.Go(func() {
				defer wg.Done()
				v := x
				vsched.Point("between")
				x = v + 1
			})
		}
		wg.Wait()
		final = x
	}
	for bound := 0; bound <= 2; bound++ {
		outcomes = map[int]int{}
		st := vsched.Explore(vsched.Options{Bound: bound}, body, func(x *vsched.Exec) {
			if x.Failed() {
				t.Fatalf("failed exec: %+v", x)
			}
			outcomes[final]++
		})
		t.Logf("bound %d: %d executions, outcomes %v", bound, st.Executions, outcomes)
		if bound == 0 && outcomes[1] != 0 {
			t.Fatal("lost update without preemption?")
		}
		if bound >= 1 && outcomes[1] == 0 {
			t.Fatal("lost update not found")
		}
	}
}

func TestDeadlock(t *testing.T) {
	found := 0
	body := func() {
		var a, b vsync.Mutex
		var wg vsync.WaitGroup
		wg.Add(2)
		vsched.Go(func() { defer wg.Done(); a.Lock(); b.Lock(); b.Unlock(); a.Unlock() })
		vsched.Go(func() { defer wg.Done(); b.Lock(); a.Lock(); a.Unlock(); b.Unlock() })
		wg.Wait()
	}
	st := vsched.Explore(vsched.Options{Bound: 1}, body, func(x *vsched.Exec) {
		if x.Deadlock {
			found++
		}
	})
	t.Logf("%d executions, %d deadlocks", st.Executions, found)
	if found == 0 {
		t.Fatal("deadlock not found")
	}
}

func TestChannels(t *testing.T) {
	sums := map[int]int{}
	body := func() {
		ch := make(chan int, 2)
		out := make(chan int, 2)
		for i := 0; i < 2; i++ {
			vsched.Go(func() {
				s := 0
				for {
					v, ok := vsched.Recv2(ch)
					if !ok {
						break
					}
					s += v
				}
				vsched.Send(out, s)
			})
		}
		for i := 1; i <= 3; i++ {
			vsched.Send(ch, i)
		}
		vsched.Close(ch)
		a, b := vsched.Recv(out), vsched.Recv(out)
		sums[a*10+b]++
	}
	st := vsched.Explore(vsched.Options{Bound: 2}, body, func(x *vsched.Exec) {
		if x.Failed() {
			t.Fatalf("failed: %+v", x)
		}
	})
	t.Logf("%d executions, %d distinct outcomes: %v", st.Executions, len(sums), sums)
	if len(sums) < 4 {
		t.Fatal("too few outcomes")
	}
}

// Unbuffered channels: a worker pool fed through a rendezvous channel, results through another one.
func TestRendezvous(t *testing.T) {
	outcomes := map[string]int{}
	body := func() {
		jobs := make(chan int)
		res := make(chan int)
		for w := 0; w < 2; w++ {
			vsched.Go(func() {
				for {
					v, ok := vsched.Recv2(jobs)
					if !ok {
						return
					}
					vsched.Send(res, v*v)
				}
			})
		}
		vsched.Go(func() {
			for i := 1; i <= 3; i++ {
				vsched.Send(jobs, i)
			}
			vsched.Close(jobs)
		})
		sum, order := 0, ""
		for i := 0; i < 3; i++ {
			v := vsched.Recv(res)
			sum += v
			order += string(rune('0' + v))
		}
		if sum != 14 {
			panic("lost or duplicated job")
		}
		outcomes[order]++
	}
	st := vsched.Explore(vsched.Options{Bound: 2}, body, func(x *vsched.Exec) {
		if x.Failed() {
			t.Fatalf("failed: %+v", x)
		}
	})
	t.Logf("%d executions, orders %v", st.Executions, outcomes)
	if len(outcomes) < 2 {
		t.Fatal("rendezvous pool shows a single result order")
	}
}

// A sender blocked on an unbuffered channel nobody reads is a deadlock.
func TestRendezvousDeadlock(t *testing.T) {
	found := 0
	vsched.Explore(vsched.Options{Bound: 1}, func() {
		ch := make(chan int)
		vsched.Send(ch, 1)
	}, func(x *vsched.Exec) {
		if x.Deadlock {
			found++
		}
	})
	if found == 0 {
		t.Fatal("deadlock not found")
	}
}

// select: a consumer that takes values until a done signal, a producer that uses a non-blocking send.
func TestSelect(t *testing.T) {
	outcomes := map[string]int{}
	body := func() {
		data := make(chan int)
		done := make(chan struct{}, 1)
		dropped, got := 0, 0
		var fin = make(chan int, 1)
		vsched.Go(func() {
			for {
				s := vsched.NewSelect(false)
				vsched.SelRecv(s, data)
				vsched.SelRecv(s, done)
				switch vsched.SelWait(s) {
				case 0:
					v, _ := vsched.SelRecvDone(s, (<-chan int)(data))
					got += v
				case 1:
					vsched.Send(fin, got)
					return
				}
			}
		})
		for i := 1; i <= 2; i++ {
			s := vsched.NewSelect(true)
			vsched.SelSend(s, data, i)
			if vsched.SelWait(s) == -1 {
				dropped += i
			}
		}
		vsched.Send(done, struct{}{})
		total := vsched.Recv(fin)
		if total+dropped != 3 {
			panic("a value was neither delivered nor dropped")
		}
		outcomes[string(rune('0'+total))]++
	}
	st := vsched.Explore(vsched.Options{Bound: 3}, body, func(x *vsched.Exec) {
		if x.Failed() {
			t.Fatalf("failed: %+v", x)
		}
	})
	t.Logf("%d executions, delivered totals %v", st.Executions, outcomes)
	if len(outcomes) < 2 {
		t.Fatal("select shows a single outcome: the non-blocking send never met (or always met) a waiting receiver")
	}
}

// Outside the explorer SelWait performs the real select.
func TestSelectFreeRunning(t *testing.T) {
	a := make(chan int, 1)
	b := make(chan string)
	a <- 7
	s := vsched.NewSelect(false)
	vsched.SelRecv(s, a)
	vsched.SelRecv(s, b)
	if i := vsched.SelWait(s); i != 0 {
		t.Fatalf("case %d", i)
	}
	if v, ok := vsched.SelRecvDone(s, (<-chan int)(a)); v != 7 || !ok {
		t.Fatalf("got %v %v", v, ok)
	}
	s2 := vsched.NewSelect(true)
	vsched.SelSend(s2, b, "x")
	if i := vsched.SelWait(s2); i != -1 {
		t.Fatalf("non-blocking send without a receiver took case %d", i)
	}
}
