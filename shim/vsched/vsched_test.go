package vsched_test

import (
	"testing"

	"vshim/vsched"
	"vshim/vsync"
)

// two threads do an unsynchronised read-modify-write with a point in between
func TestLostUpdate(t *testing.T) {
	outcomes := map[int]int{}
	var final int
	body := func() {
		x := 0
		var wg vsync.WaitGroup
		for i := 0; i < 2; i++ {
			wg.Add(1)
			vsched.Go(func() {
				defer wg.Done()
				v := x
				vsched.Point("between")
				x = v + 1
			})
		}
		wg.Wait()
		final = x
	}
	for bound := 0; bound <= 2; bound++ {
		outcomes = map[int]int{}
		st := vsched.Explore(vsched.Options{Bound: bound}, body, func(x *vsched.Exec) {
			if x.Failed() {
				t.Fatalf("failed exec: %+v", x)
			}
			outcomes[final]++
		})
		t.Logf("bound %d: %d executions, outcomes %v", bound, st.Executions, outcomes)
		if bound == 0 && outcomes[1] != 0 {
			t.Fatal("lost update without preemption?")
		}
		if bound >= 1 && outcomes[1] == 0 {
			t.Fatal("lost update not found")
		}
	}
}

func TestDeadlock(t *testing.T) {
	found := 0
	body := func() {
		var a, b vsync.Mutex
		var wg vsync.WaitGroup
		wg.Add(2)
		vsched.Go(func() { defer wg.Done(); a.Lock(); b.Lock(); b.Unlock(); a.Unlock() })
		vsched.Go(func() { defer wg.Done(); b.Lock(); a.Lock(); a.Unlock(); b.Unlock() })
		wg.Wait()
	}
	st := vsched.Explore(vsched.Options{Bound: 1}, body, func(x *vsched.Exec) {
		if x.Deadlock {
			found++
		}
	})
	t.Logf("%d executions, %d deadlocks", st.Executions, found)
	if found == 0 {
		t.Fatal("deadlock not found")
	}
}

func TestChannels(t *testing.T) {
	sums := map[int]int{}
	body := func() {
		ch := make(chan int, 2)
		out := make(chan int, 2)
		for i := 0; i < 2; i++ {
			vsched.Go(func() {
				s := 0
				for {
					v, ok := vsched.Recv2(ch)
					if !ok {
						break
					}
					s += v
				}
				vsched.Send(out, s)
			})
		}
		for i := 1; i <= 3; i++ {
			vsched.Send(ch, i)
		}
		vsched.Close(ch)
		a, b := vsched.Recv(out), vsched.Recv(out)
		sums[a*10+b]++
	}
	st := vsched.Explore(vsched.Options{Bound: 2}, body, func(x *vsched.Exec) {
		if x.Failed() {
			t.Fatalf("failed: %+v", x)
		}
	})
	t.Logf("%d executions, %d distinct outcomes: %v", st.Executions, len(sums), sums)
	if len(sums) < 4 {
		t.Fatal("too few outcomes")
	}
}
