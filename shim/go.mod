module vshim

go 1.21
