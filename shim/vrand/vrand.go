// Package vrand replaces "math/rand" in instrumented code: the global source
// is a deterministic per-execution generator owned by the harness.
package vrand

import (
	"math/rand"
	"sync"

	"vshim/vsched"
)

type Rand = rand.Rand
type Source = rand.Source
type Source64 = rand.Source64

type lockedSource struct {
	mu  sync.Mutex
	src rand.Source
}

func (l *lockedSource) Int63() int64 { l.mu.Lock(); defer l.mu.Unlock(); return l.src.Int63() }
func (l *lockedSource) Seed(s int64) { l.mu.Lock(); defer l.mu.Unlock(); l.src.Seed(s) }

var passthrough = rand.New(&lockedSource{src: rand.NewSource(1)})

// BaseSeed seeds the per-thread generators used under the explorer: thread i
// draws from a generator seeded with BaseSeed+i, so the values a thread sees
// depend only on its own draws and never on the schedule.
var BaseSeed int64 = 1000

var perThread = map[int]*rand.Rand{}

func init() { vsched.OnRunStart(func() { perThread = map[int]*rand.Rand{} }) }

type globalT struct{}

var global globalT

func (globalT) g() *rand.Rand {
	id := vsched.ThreadID()
	if id < 0 {
		return passthrough
	}
	r := perThread[id]
	if r == nil {
		r = rand.New(rand.NewSource(BaseSeed + int64(id)))
		perThread[id] = r
	}
	return r
}
func (x globalT) Float64() float64                   { return x.g().Float64() }
func (x globalT) Float32() float32                   { return x.g().Float32() }
func (x globalT) NormFloat64() float64               { return x.g().NormFloat64() }
func (x globalT) ExpFloat64() float64                { return x.g().ExpFloat64() }
func (x globalT) Intn(n int) int                     { return x.g().Intn(n) }
func (x globalT) Int63() int64                       { return x.g().Int63() }
func (x globalT) Int63n(n int64) int64               { return x.g().Int63n(n) }
func (x globalT) Int31() int32                       { return x.g().Int31() }
func (x globalT) Int31n(n int32) int32               { return x.g().Int31n(n) }
func (x globalT) Int() int                           { return x.g().Int() }
func (x globalT) Uint32() uint32                     { return x.g().Uint32() }
func (x globalT) Uint64() uint64                     { return x.g().Uint64() }
func (x globalT) Perm(n int) []int                   { return x.g().Perm(n) }
func (x globalT) Shuffle(n int, swap func(i, j int)) { x.g().Shuffle(n, swap) }

// Reseed resets the generator used outside explorations.
func Reseed(seed int64) { passthrough = rand.New(&lockedSource{src: rand.NewSource(seed)}) }

func New(src rand.Source) *rand.Rand     { return rand.New(src) }
func NewSource(seed int64) rand.Source   { return rand.NewSource(seed) }
func Float64() float64                   { return global.Float64() }
func Float32() float32                   { return global.Float32() }
func NormFloat64() float64               { return global.NormFloat64() }
func ExpFloat64() float64                { return global.ExpFloat64() }
func Intn(n int) int                     { return global.Intn(n) }
func Int63() int64                       { return global.Int63() }
func Int63n(n int64) int64               { return global.Int63n(n) }
func Int31() int32                       { return global.Int31() }
func Int31n(n int32) int32               { return global.Int31n(n) }
func Int() int                           { return global.Int() }
func Uint32() uint32                     { return global.Uint32() }
func Uint64() uint64                     { return global.Uint64() }
func Perm(n int) []int                   { return global.Perm(n) }
func Shuffle(n int, swap func(i, j int)) { global.Shuffle(n, swap) }
func Seed(seed int64)                    { Reseed(seed) }
