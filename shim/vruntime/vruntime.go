// Package vruntime replaces "runtime" in instrumented code: the processor
// count is a harness-controlled configuration value.
package vruntime

import (
	"runtime"

	"vshim/vsched"
)

func GOMAXPROCS(n int) int {
	if n > 0 {
		old := vsched.NumProcs
		vsched.NumProcs = n
		return old
	}
	return vsched.NumProcs
}

func NumCPU() int { return vsched.NumProcs }

func GC()                     { runtime.GC() }
func Gosched()                { vsched.Point("Gosched") }
func NumGoroutine() int       { return runtime.NumGoroutine() }
func KeepAlive(x interface{}) { runtime.KeepAlive(x) }
