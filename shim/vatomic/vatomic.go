// Package vatomic replaces "sync/atomic" in instrumented code.
package vatomic

import (
	"sync/atomic"

	"vshim/vsched"
)

type Value struct {
	real atomic.Value
}

func (v *Value) Load() any {
	vsched.Point("atomic.Value.Load")
	return v.real.Load()
}

func (v *Value) Store(x any) {
	vsched.Point("atomic.Value.Store")
	v.real.Store(x)
}

func AddInt64(p *int64, d int64) int64 {
	vsched.Point("atomic.AddInt64")
	return atomic.AddInt64(p, d)
}
func LoadInt64(p *int64) int64 {
	vsched.Point("atomic.LoadInt64")
	return atomic.LoadInt64(p)
}
func StoreInt64(p *int64, d int64) {
	vsched.Point("atomic.StoreInt64")
	atomic.StoreInt64(p, d)
}
func AddInt32(p *int32, d int32) int32 {
	vsched.Point("atomic.AddInt32")
	return atomic.AddInt32(p, d)
}
func LoadInt32(p *int32) int32 {
	vsched.Point("atomic.LoadInt32")
	return atomic.LoadInt32(p)
}
func StoreInt32(p *int32, d int32) {
	vsched.Point("atomic.StoreInt32")
	atomic.StoreInt32(p, d)
}
func CompareAndSwapInt32(p *int32, o, n int32) bool {
	vsched.Point("atomic.CompareAndSwapInt32")
	return atomic.CompareAndSwapInt32(p, o, n)
}
func CompareAndSwapInt64(p *int64, o, n int64) bool {
	vsched.Point("atomic.CompareAndSwapInt64")
	return atomic.CompareAndSwapInt64(p, o, n)
}

// Typed atomics: every method is a scheduling point in front of the real operation.

type Bool struct{ real atomic.Bool }

func (b *Bool) Load() bool   { vsched.Point("atomic.Bool.Load"); return b.real.Load() }
func (b *Bool) Store(v bool) { vsched.Point("atomic.Bool.Store"); b.real.Store(v) }
func (b *Bool) Swap(v bool) bool {
	vsched.Point("atomic.Bool.Swap")
	return b.real.Swap(v)
}
func (b *Bool) CompareAndSwap(o, n bool) bool {
	vsched.Point("atomic.Bool.CompareAndSwap")
	return b.real.CompareAndSwap(o, n)
}

type Int32 struct{ real atomic.Int32 }

func (x *Int32) Load() int32       { vsched.Point("atomic.Int32.Load"); return x.real.Load() }
func (x *Int32) Store(v int32)     { vsched.Point("atomic.Int32.Store"); x.real.Store(v) }
func (x *Int32) Add(d int32) int32 { vsched.Point("atomic.Int32.Add"); return x.real.Add(d) }
func (x *Int32) Swap(v int32) int32 {
	vsched.Point("atomic.Int32.Swap")
	return x.real.Swap(v)
}
func (x *Int32) CompareAndSwap(o, n int32) bool {
	vsched.Point("atomic.Int32.CompareAndSwap")
	return x.real.CompareAndSwap(o, n)
}

type Int64 struct{ real atomic.Int64 }

func (x *Int64) Load() int64       { vsched.Point("atomic.Int64.Load"); return x.real.Load() }
func (x *Int64) Store(v int64)     { vsched.Point("atomic.Int64.Store"); x.real.Store(v) }
func (x *Int64) Add(d int64) int64 { vsched.Point("atomic.Int64.Add"); return x.real.Add(d) }
func (x *Int64) Swap(v int64) int64 {
	vsched.Point("atomic.Int64.Swap")
	return x.real.Swap(v)
}
func (x *Int64) CompareAndSwap(o, n int64) bool {
	vsched.Point("atomic.Int64.CompareAndSwap")
	return x.real.CompareAndSwap(o, n)
}

type Uint32 struct{ real atomic.Uint32 }

func (x *Uint32) Load() uint32        { vsched.Point("atomic.Uint32.Load"); return x.real.Load() }
func (x *Uint32) Store(v uint32)      { vsched.Point("atomic.Uint32.Store"); x.real.Store(v) }
func (x *Uint32) Add(d uint32) uint32 { vsched.Point("atomic.Uint32.Add"); return x.real.Add(d) }
func (x *Uint32) Swap(v uint32) uint32 {
	vsched.Point("atomic.Uint32.Swap")
	return x.real.Swap(v)
}
func (x *Uint32) CompareAndSwap(o, n uint32) bool {
	vsched.Point("atomic.Uint32.CompareAndSwap")
	return x.real.CompareAndSwap(o, n)
}

type Uint64 struct{ real atomic.Uint64 }

func (x *Uint64) Load() uint64        { vsched.Point("atomic.Uint64.Load"); return x.real.Load() }
func (x *Uint64) Store(v uint64)      { vsched.Point("atomic.Uint64.Store"); x.real.Store(v) }
func (x *Uint64) Add(d uint64) uint64 { vsched.Point("atomic.Uint64.Add"); return x.real.Add(d) }
func (x *Uint64) Swap(v uint64) uint64 {
	vsched.Point("atomic.Uint64.Swap")
	return x.real.Swap(v)
}
func (x *Uint64) CompareAndSwap(o, n uint64) bool {
	vsched.Point("atomic.Uint64.CompareAndSwap")
	return x.real.CompareAndSwap(o, n)
}

type Pointer[T any] struct{ real atomic.Pointer[T] }

func (p *Pointer[T]) Load() *T   { vsched.Point("atomic.Pointer.Load"); return p.real.Load() }
func (p *Pointer[T]) Store(v *T) { vsched.Point("atomic.Pointer.Store"); p.real.Store(v) }
func (p *Pointer[T]) Swap(v *T) *T {
	vsched.Point("atomic.Pointer.Swap")
	return p.real.Swap(v)
}
func (p *Pointer[T]) CompareAndSwap(o, n *T) bool {
	vsched.Point("atomic.Pointer.CompareAndSwap")
	return p.real.CompareAndSwap(o, n)
}

func (v *Value) Swap(x any) any {
	vsched.Point("atomic.Value.Swap")
	return v.real.Swap(x)
}
func (v *Value) CompareAndSwap(o, n any) bool {
	vsched.Point("atomic.Value.CompareAndSwap")
	return v.real.CompareAndSwap(o, n)
}

func AddUint32(p *uint32, d uint32) uint32 {
	vsched.Point("atomic.AddUint32")
	return atomic.AddUint32(p, d)
}
func LoadUint32(p *uint32) uint32     { vsched.Point("atomic.LoadUint32"); return atomic.LoadUint32(p) }
func StoreUint32(p *uint32, d uint32) { vsched.Point("atomic.StoreUint32"); atomic.StoreUint32(p, d) }
func AddUint64(p *uint64, d uint64) uint64 {
	vsched.Point("atomic.AddUint64")
	return atomic.AddUint64(p, d)
}
func LoadUint64(p *uint64) uint64     { vsched.Point("atomic.LoadUint64"); return atomic.LoadUint64(p) }
func StoreUint64(p *uint64, d uint64) { vsched.Point("atomic.StoreUint64"); atomic.StoreUint64(p, d) }
func SwapInt32(p *int32, v int32) int32 {
	vsched.Point("atomic.SwapInt32")
	return atomic.SwapInt32(p, v)
}
func SwapInt64(p *int64, v int64) int64 {
	vsched.Point("atomic.SwapInt64")
	return atomic.SwapInt64(p, v)
}
func SwapUint32(p *uint32, v uint32) uint32 {
	vsched.Point("atomic.SwapUint32")
	return atomic.SwapUint32(p, v)
}
func SwapUint64(p *uint64, v uint64) uint64 {
	vsched.Point("atomic.SwapUint64")
	return atomic.SwapUint64(p, v)
}
func CompareAndSwapUint32(p *uint32, o, n uint32) bool {
	vsched.Point("atomic.CompareAndSwapUint32")
	return atomic.CompareAndSwapUint32(p, o, n)
}
func CompareAndSwapUint64(p *uint64, o, n uint64) bool {
	vsched.Point("atomic.CompareAndSwapUint64")
	return atomic.CompareAndSwapUint64(p, o, n)
}
