// Package vatomic replaces "sync/atomic" in instrumented code.
package vatomic

import (
	"sync/atomic"

	"vshim/vsched"
)

type Value struct {
	real atomic.Value
}

func (v *Value) Load() any {
	vsched.Point("atomic.Value.Load")
	return v.real.Load()
}

func (v *Value) Store(x any) {
	vsched.Point("atomic.Value.Store")
	v.real.Store(x)
}

func AddInt64(p *int64, d int64) int64 {
	vsched.Point("atomic.AddInt64")
	return atomic.AddInt64(p, d)
}
func LoadInt64(p *int64) int64 {
	vsched.Point("atomic.LoadInt64")
	return atomic.LoadInt64(p)
}
func StoreInt64(p *int64, d int64) {
	vsched.Point("atomic.StoreInt64")
	atomic.StoreInt64(p, d)
}
func AddInt32(p *int32, d int32) int32 {
	vsched.Point("atomic.AddInt32")
	return atomic.AddInt32(p, d)
}
func LoadInt32(p *int32) int32 {
	vsched.Point("atomic.LoadInt32")
	return atomic.LoadInt32(p)
}
func StoreInt32(p *int32, d int32) {
	vsched.Point("atomic.StoreInt32")
	atomic.StoreInt32(p, d)
}
func CompareAndSwapInt32(p *int32, o, n int32) bool {
	vsched.Point("atomic.CompareAndSwapInt32")
	return atomic.CompareAndSwapInt32(p, o, n)
}
func CompareAndSwapInt64(p *int64, o, n int64) bool {
	vsched.Point("atomic.CompareAndSwapInt64")
	return atomic.CompareAndSwapInt64(p, o, n)
}
