package vmap

import "math"

func mathFloat64bits(f float64) uint64 { return math.Float64bits(f) }
