// Package vmap makes Go map iteration order an explorer-owned decision.
// Keys are first put into a canonical order (value fingerprint); the explorer
// may then pick a different permutation, one Choose per position.
package vmap

import (
	"fmt"
	"reflect"
	"sort"
	"strings"
	"sync/atomic"

	"vshim/vsched"
)

// Permute enables exploration of non-canonical orders (Choose points). When
// false, ranges run in canonical order: deterministic, no decision points.
var Permute = false

// MaxPermuteLen limits Choose points to maps with at most this many keys.
var MaxPermuteLen = 64

// Ties counts keys whose fingerprints were identical (order then falls back to
// the runtime's order and is not reproducible).
var Ties int64

// Ranges counts instrumented map ranges executed.
var Ranges int64

func fp(b *strings.Builder, v reflect.Value, depth int) {
	switch v.Kind() {
	case reflect.Ptr, reflect.Interface:
		if v.IsNil() {
			b.WriteString("nil")
			return
		}
		if depth <= 0 {
			b.WriteString("&")
			return
		}
		fp(b, v.Elem(), depth-1)
	case reflect.Struct:
		b.WriteByte('{')
		for i := 0; i < v.NumField(); i++ {
			fp(b, v.Field(i), depth)
			b.WriteByte(',')
		}
		b.WriteByte('}')
	case reflect.Array:
		b.WriteByte('[')
		for i := 0; i < v.Len(); i++ {
			fp(b, v.Index(i), depth)
			b.WriteByte(',')
		}
		b.WriteByte(']')
	case reflect.Slice:
		fmt.Fprintf(b, "s%d[", v.Len())
		if depth > 0 {
			for i := 0; i < v.Len() && i < 8; i++ {
				fp(b, v.Index(i), depth-1)
				b.WriteByte(',')
			}
		}
		b.WriteByte(']')
	case reflect.Map:
		fmt.Fprintf(b, "m%d", v.Len())
	case reflect.Float32, reflect.Float64:
		fmt.Fprintf(b, "%016x", floatKey(v.Float()))
	case reflect.Int, reflect.Int8, reflect.Int16, reflect.Int32, reflect.Int64:
		fmt.Fprintf(b, "%016x", uint64(v.Int())^(1<<63))
	case reflect.Uint, reflect.Uint8, reflect.Uint16, reflect.Uint32, reflect.Uint64, reflect.Uintptr:
		fmt.Fprintf(b, "%016x", v.Uint())
	case reflect.String:
		b.WriteString(v.String())
	case reflect.Bool:
		if v.Bool() {
			b.WriteByte('1')
		} else {
			b.WriteByte('0')
		}
	case reflect.Func, reflect.Chan, reflect.UnsafePointer:
		b.WriteString("?")
	default:
		fmt.Fprintf(b, "%v", v)
	}
}

func floatKey(f float64) uint64 {
	if f == 0 {
		f = 0
	}
	u := mathFloat64bits(f)
	if u>>63 != 0 {
		return ^u
	}
	return u | (1 << 63)
}

// Keys returns the keys of m in the order the current execution iterates them.
func Keys[K comparable, V any](m map[K]V) []K {
	atomic.AddInt64(&Ranges, 1)
	keys := make([]K, 0, len(m))
	for k := range m {
		keys = append(keys, k)
	}
	if len(keys) <= 1 {
		return keys
	}
	fps := make([]string, len(keys))
	var b strings.Builder
	for i, k := range keys {
		b.Reset()
		fp(&b, reflect.ValueOf(k), 3)
		fps[i] = b.String()
	}
	idx := make([]int, len(keys))
	for i := range idx {
		idx[i] = i
	}
	sort.SliceStable(idx, func(a, c int) bool { return fps[idx[a]] < fps[idx[c]] })
	out := make([]K, len(keys))
	for i, j := range idx {
		out[i] = keys[j]
		if i > 0 && fps[j] == fps[idx[i-1]] {
			atomic.AddInt64(&Ties, 1)
		}
	}
	if Permute && vsched.Active() && len(out) <= MaxPermuteLen {
		for i := 0; i < len(out)-1; i++ {
			c := vsched.Choose(len(out)-i, "map-order")
			if c != 0 {
				// move element i+c to position i, keeping the rest in order
				k := out[i+c]
				copy(out[i+1:i+c+1], out[i:i+c])
				out[i] = k
			}
		}
	}
	return out
}
