#!/usr/bin/env python3
"""tools/mutate.py <Cxx> <file[:func-regex]>... [--every K] [--workers W] [--tier quick] [--max N]

Systematic own-mutation run for one check. For every mutant (one token changed on one line of the named
library files, optionally restricted to functions whose name matches the regex) the check is run on the
mutated tree; for the mutants the check does NOT report, the library's own tests of the touched package are
run as well, so that the table distinguishes

  caught      the check exits 1 with a VIOLATION line
  nobuild     the mutant does not compile (or the harness build fails)
  killed-by-tests   the check is silent but the repository's tests fail (not a "realistic" change)
  SURVIVED    the check is silent and the repository's tests pass: either an equivalent mutant or a gap
  hang        the check did not finish within --timeout seconds (the mutant makes library code loop)

Nothing is changed in /repo: every worker owns a scratch worktree under /tmp (created and removed here), the
mutant is applied there, the check is built with `go build -overlay` and reads the worktree through
VERIF_REPO, and writes to private VERIF_WORK / VERIF_OUT directories (see tools/seed_eval.sh).
This is an evaluation of the checks, not a deciding step of any property.
"""
import sys, os, re, json, signal, subprocess, threading, queue, time, shutil

ENV = dict(os.environ, GOFLAGS="-mod=mod", GOPROXY="off", GOSUMDB="off", GOTOOLCHAIN="local")

OPS = [
    (r'<=', '<'), (r'>=', '>'), (r'(?<![<>=!\-])<(?![<=\-])', '<='), (r'(?<![<>=!\-])>(?![>=])', '>='),
    (r'==', '!='), (r'!=', '=='),
    (r'&&', '||'), (r'\|\|', '&&'),
    (r'(?<=[\w\)\]]) \+ (?=[\w\(])', ' - '), (r'(?<=[\w\)\]]) - (?=[\w\(])', ' + '),
    (r'(?<=[\w\)\]]) \* (?=[\w\(])', ' / '), (r'(?<=[\w\)\]]) / (?=[\w\(])', ' * '),
    (r'(?<=[\w\)\]])\+(?=[\w\(])', '-'), (r'(?<=[\w\)\]])-(?=[\w\(])', '+'),
    (r'(?<=[\w\)\]])\*(?=[\w\(])', '/'), (r'(?<=[\w\)\]])/(?=[\w\(])', '*'),
    (r'math\.Min', 'math.Max'), (r'math\.Max', 'math.Min'),
    (r'\+= ', '-= '), (r'-= ', '+= '),
    (r'\b1\b', '2'), (r'\b0\b', '1'), (r'\b2\b', '1'), (r'\b0\.5\b', '0.25'),
    (r'\.X\b', '.Y'), (r'\.Y\b', '.Z'), (r'\.Min\(\)', '.Max()'), (r'\.Max\(\)', '.Min()'),
    (r'\[0\]', '[1]'), (r'\[1\]', '[0]'), (r'\[2\]', '[1]'),
    (r'\btrue\b', 'false'), (r'\bfalse\b', 'true'),
    (r'\bi\+1\b', 'i'), (r'\bi-1\b', 'i'),
    (r'return !', 'return '), (r'if !', 'if '),
    (r'\bbreak\b', 'continue'), (r'\bcontinue\b', 'break'),
]


def code_part(line):
    # strip a trailing // comment (ignoring // inside strings, crudely)
    out, instr, i = [], False, 0
    while i < len(line):
        c = line[i]
        if c == '"' and (i == 0 or line[i - 1] != '\\'):
            instr = not instr
        if not instr and line.startswith('//', i):
            break
        out.append(c)
        i += 1
    return ''.join(out)


def mutants_of(path, func_re):
    src = open(path).read().split('\n')
    cur, depth, res = None, 0, []
    in_block_comment = False
    for ln, line in enumerate(src):
        st = line.strip()
        if in_block_comment:
            if '*/' in st:
                in_block_comment = False
            continue
        if st.startswith('/*'):
            if '*/' not in st:
                in_block_comment = True
            continue
        m = re.match(r'^func (\([^)]*\) )?(\w+)', line)
        if m:
            cur = m.group(2)
        if line.startswith('}'):
            pass
        if cur is None or st.startswith('//') or st.startswith('func ') or st.startswith('import') or st.startswith('package'):
            continue
        if func_re and not re.search(func_re, cur):
            continue
        code = code_part(line)
        if 'panic(' in code or 'fmt.' in code and 'Errorf' in code:
            continue
        for pat, repl in OPS:
            for mm in re.finditer(pat, code):
                # not inside a string literal
                if code[:mm.start()].count('"') % 2 == 1:
                    continue
                new = code[:mm.start()] + repl + code[mm.end():] + line[len(code):]
                if new != line:
                    res.append((ln, cur, mm.group(0), repl, new))
    return src, res


def sh(cmd, cwd=None, env=None, timeout=1800):
    # own process group, so that a hanging check is killed together with its child stages
    p = subprocess.Popen(cmd, cwd=cwd, env=env or ENV, stdout=subprocess.PIPE, stderr=subprocess.STDOUT, text=True, start_new_session=True)
    try:
        out, _ = p.communicate(timeout=timeout)
        return p.returncode, out
    except subprocess.TimeoutExpired:
        try:
            os.killpg(p.pid, signal.SIGKILL)
        except ProcessLookupError:
            pass
        p.communicate()
        return 124, 'timeout'


def main():
    args = sys.argv[1:]
    chk = args[0]
    every, workers, tier, mx, tmo = 1, 4, 'quick', 10 ** 9, 600
    specs = []
    i = 1
    while i < len(args):
        if args[i] == '--every':
            every = int(args[i + 1]); i += 2
        elif args[i] == '--workers':
            workers = int(args[i + 1]); i += 2
        elif args[i] == '--tier':
            tier = args[i + 1]; i += 2
        elif args[i] == '--timeout':
            tmo = int(args[i + 1]); i += 2
        elif args[i] == '--max':
            mx = int(args[i + 1]); i += 2
        else:
            specs.append(args[i]); i += 1
    jobs = []
    for sp in specs:
        f, _, fr = sp.partition(':')
        src, ms = mutants_of('/repo/' + f, fr)
        for k, m in enumerate(ms):
            if k % every == 0:
                jobs.append((f, src, m))
    jobs = jobs[:mx]
    print(f"{len(jobs)} mutants for {chk}", flush=True)
    q = queue.Queue()
    for j in jobs:
        q.put(j)
    results, lock = [], threading.Lock()
    outdir = f'/verif/seeded/own-mutations/auto'
    os.makedirs(outdir, exist_ok=True)

    def worker(w):
        wt = f'/tmp/mutwt-{chk}-{w}'
        sh(['git', '-C', '/repo', 'worktree', 'remove', '--force', wt])
        rc, out = sh(['git', '-C', '/repo', 'worktree', 'add', '-q', '--detach', wt, 'HEAD'])
        if rc != 0:
            print('worktree failed', out); return
        try:
            while True:
                try:
                    f, src, (ln, fn, old, repl, new) = q.get_nowait()
                except queue.Empty:
                    break
                lines = list(src)
                lines[ln] = new
                open(f'{wt}/{f}', 'w').write('\n'.join(lines))
                pkg = os.path.dirname(f)
                verdict, detail = None, ''
                rc, out = sh(['go', 'build', f'./{pkg}/'], cwd=wt)
                if rc != 0:
                    verdict = 'nobuild'
                else:
                    ov = f'/tmp/mutov-{chk}-{w}.json'
                    json.dump({"Replace": {f'/repo/{f}': f'{wt}/{f}'}}, open(ov, 'w'))
                    work, outd = f'/tmp/mutwork-{chk}-{w}', f'/tmp/mutout-{chk}-{w}'
                    os.makedirs(work, exist_ok=True); os.makedirs(outd, exist_ok=True)
                    env = dict(os.environ, VERIF_REPO=wt, VERIF_WORK=work, VERIF_OUT=outd, VERIF_GOFLAGS=f'-overlay={ov}', VERIF_STAGE_LIMIT=str(max(120, tmo // 3)))
                    rc, out = sh(['/verif/run.sh', chk, tier], env=env, timeout=tmo)
                    vl = [l for l in out.split('\n') if l.startswith('VIOLATION')]
                    if rc == 1 and vl:
                        verdict = 'caught'
                        m = re.search(r'key=(\S+)', vl[0])
                        detail = m.group(1) if m else ''
                    elif rc == 124:
                        verdict = 'hang'  # the mutant makes the check (i.e. the library under it) loop; neither caught nor survived
                    elif rc == 0:
                        rc2, out2 = sh(['go', 'test', '-vet=off', '-count=1', f'./{pkg}/'], cwd=wt, timeout=1200)
                        verdict = 'SURVIVED' if rc2 == 0 else 'killed-by-tests'
                    else:
                        verdict = f'check-exit-{rc}'
                        detail = out.strip().split('\n')[-1][:160]
                    shutil.rmtree(outd, ignore_errors=True)
                open(f'{wt}/{f}', 'w').write('\n'.join(src))
                with lock:
                    results.append((f, ln + 1, fn, old, repl, verdict, detail, new.strip()))
                    print(f"[{len(results)}/{len(jobs)}] {f}:{ln+1} {fn}: '{old}' -> '{repl}': {verdict} {detail}", flush=True)
        finally:
            sh(['git', '-C', '/repo', 'worktree', 'remove', '--force', wt])
            shutil.rmtree(f'/tmp/mutwork-{chk}-{w}', ignore_errors=True)
            try:
                os.remove(f'/tmp/mutov-{chk}-{w}.json')
            except OSError:
                pass

    ts = [threading.Thread(target=worker, args=(w,)) for w in range(workers)]
    [t.start() for t in ts]
    [t.join() for t in ts]
    results.sort()
    tag = re.sub(r'[^A-Za-z0-9]+', '_', '_'.join(specs))[:80]
    with open(f'{outdir}/{chk}_{tag}.tsv', 'w') as fh:
        fh.write('file\tline\tfunc\told\tnew\tverdict\tdetail\tmutated line\n')
        for r in results:
            fh.write('\t'.join(str(x) for x in r) + '\n')
    from collections import Counter
    print(Counter(r[5] for r in results))
    for r in results:
        if r[5] == 'SURVIVED':
            print('SURVIVED', r[0], r[1], r[2], r[3], '->', r[4], '|', r[7])


if __name__ == '__main__':
    main()
